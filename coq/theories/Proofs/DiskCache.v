(* Proofs/DiskCache.v — invariants and theorems about Model/DiskCache.v (property C06).

   Layout:
     A  small list / association lemmas (inode table, temp table, thread table, logs)
     B  what the Lru operations do to next_h
     C  the invariant [Inv]: directory entries point to complete committed values, temp inodes are
        reachable only through live handles, renamed inodes are never written again
     D  preservation by every atomic step, for every schedule
     E  C06_get_complete
     F  restart: C06_crash_safe, C06_crash_then_get
     G  C06_uncommitted_invisible
     H  hex keys are never temp names *)
From Coq Require Import List NArith PeanoNat Bool Lia ZifyBool.
From Sccache Require Import Base.Sx Model.Lru Model.DiskCache.
From Sccache Require Proofs.Lru.
Import ListNotations.
Local Open Scope N_scope.

#[local] Arguments N.add : simpl never.
#[local] Arguments N.sub : simpl never.
#[local] Arguments N.leb : simpl never.
#[local] Arguments N.ltb : simpl never.
#[local] Arguments N.eqb : simpl never.

Module PL := Sccache.Proofs.Lru.

(* ====================================================================== *)
(* A. tables                                                               *)
(* ====================================================================== *)

Lemma hlookup_In {V} h (v : V) l : hlookup h l = Some v -> In (h, v) l.
Proof.
  induction l as [|[h' v'] r IH]; simpl; [discriminate|].
  destruct (h =? h') eqn:E; intros H.
  - inversion H; subst. apply N.eqb_eq in E. subst. auto.
  - auto.
Qed.

Lemma In_hlookup {V} h (v : V) l :
  (forall v', In (h, v') l -> v' = v) -> In (h, v) l -> hlookup h l = Some v.
Proof.
  induction l as [|[h' v'] r IH]; simpl; [tauto|]. intros Hf Hin.
  destruct (h =? h') eqn:E.
  - apply N.eqb_eq in E. subst h'. f_equal. apply Hf. auto.
  - destruct Hin as [Hin|Hin]; [inversion Hin; subst; rewrite N.eqb_refl in E; discriminate|].
    apply IH; auto.
Qed.

Lemma hlookup_app_other {V} i n (x : V) l : i <> n -> hlookup i (l ++ [(n, x)]) = hlookup i l.
Proof.
  intros Hn. induction l as [|[h' v'] r IH]; simpl.
  - destruct (i =? n) eqn:E; auto. apply N.eqb_eq in E. contradiction.
  - destruct (i =? h'); auto.
Qed.

Lemma hlookup_app_new {V} n (x : V) l : (forall v, ~ In (n, v) l) -> hlookup n (l ++ [(n, x)]) = Some x.
Proof.
  induction l as [|[h' v'] r IH]; simpl; intros Hf.
  - rewrite N.eqb_refl. auto.
  - destruct (n =? h') eqn:E.
    + apply N.eqb_eq in E. subst. exfalso. eapply Hf. left. reflexivity.
    + apply IH. intros v Hv. eapply Hf. right. exact Hv.
Qed.

Lemma hlookup_hset_other {V} i j (x : V) l : i <> j -> hlookup i (hset j x l) = hlookup i l.
Proof.
  intros Hn. induction l as [|[h' v'] r IH]; simpl; auto.
  destruct (j =? h') eqn:E; simpl.
  - apply N.eqb_eq in E. subst h'. destruct (i =? j) eqn:E2; auto. apply N.eqb_eq in E2. contradiction.
  - destruct (i =? h'); auto.
Qed.

Lemma hlookup_hset_same {V} j (x o : V) l : hlookup j l = Some o -> hlookup j (hset j x l) = Some x.
Proof.
  induction l as [|[h' v'] r IH]; simpl; [discriminate|].
  destruct (j =? h') eqn:E; simpl; rewrite E; auto.
Qed.

Lemma In_hset_key {V} j (x : V) l i v : In (i, v) (hset j x l) -> exists v', In (i, v') l.
Proof.
  induction l as [|[h' v'] r IH]; simpl; [tauto|].
  destruct (j =? h') eqn:E; simpl; intros [H|H].
  - inversion H; subst. eauto.
  - eauto.
  - inversion H; subst. eauto.
  - destruct (IH H) as [v2 H2]. eauto.
Qed.

Lemma In_hremove {V} h (l : list (N * V)) h' v : In (h', v) (hremove h l) -> In (h', v) l /\ h' <> h.
Proof.
  induction l as [|[h2 v2] r IH]; simpl; [tauto|].
  destruct (h =? h2) eqn:E.
  - intros H. destruct (IH H). auto.
  - intros [H|H].
    + inversion H; subst. split; auto. intros ->. rewrite N.eqb_refl in E. discriminate.
    + destruct (IH H). auto.
Qed.

Lemma hremove_In_other {V} h (l : list (N * V)) h' v : h' <> h -> In (h', v) l -> In (h', v) (hremove h l).
Proof.
  intros Hn. induction l as [|[h2 v2] r IH]; simpl; [tauto|].
  destruct (h =? h2) eqn:E; intros [H|H].
  - inversion H; subst. apply N.eqb_eq in E. congruence.
  - auto.
  - left; auto.
  - right; auto.
Qed.

Lemma In_aremove {V} k e (l : list (key * V)) : In e (aremove k l) -> In e l.
Proof.
  induction l as [|[k2 v] r IH]; simpl; auto. destruct (bytes_eqb k k2); simpl; intros H; auto.
  destruct H; auto.
Qed.

Lemma In_sync_dir fs d e : In e (sync_dir fs d) -> In e d.
Proof. unfold sync_dir. rewrite filter_In. tauto. Qed.

Lemma alookup_In {V} k (v : V) l : alookup k l = Some v -> In (k, v) l.
Proof.
  induction l as [|[k2 v2] r IH]; simpl; [discriminate|].
  destruct (bytes_eqb k k2) eqn:E; intros H.
  - inversion H; subst. apply bytes_eqb_eq in E. subst. auto.
  - auto.
Qed.

(* thread table *)
Lemma nth_set_nth_eq {A} t (x y : A) l : nth_error l t = Some y -> nth_error (set_nth t x l) t = Some x.
Proof. revert l; induction t as [|t IH]; intros [|a l]; simpl; try discriminate; auto. Qed.

Lemma nth_set_nth_neq {A} t t' (x : A) l : t' <> t -> nth_error (set_nth t x l) t' = nth_error l t'.
Proof.
  revert t' l; induction t as [|t IH]; intros [|t'] [|a l] Hn; simpl; auto; try congruence.
Qed.

Lemma set_nth_length {A} t (x : A) l : length (set_nth t x l) = length l.
Proof. revert l; induction t as [|t IH]; intros [|a l]; simpl; auto. Qed.

(* logs *)
Lemma snoc_split {A} (l : list A) e l1 x l2 :
  l ++ [e] = l1 ++ x :: l2 ->
  (l2 = [] /\ x = e /\ l1 = l) \/ (exists l2', l2 = l2' ++ [e] /\ l = l1 ++ x :: l2').
Proof.
  intros H. destruct (@exists_last _ (x :: l2)) as (m & z & Hm); [discriminate|].
  destruct l2 as [|y l2].
  - left. change (l1 ++ [x]) with (l1 ++ [x]) in H. apply app_inj_tail in H as [-> ->]. auto.
  - right. destruct (@exists_last _ (y :: l2)) as (m2 & z2 & Hm2); [discriminate|].
    rewrite Hm2 in H. change (l1 ++ x :: m2 ++ [z2]) with (l1 ++ (x :: m2) ++ [z2]) in H.
    rewrite app_assoc in H. apply app_inj_tail in H as [-> ->]. exists m2. auto.
Qed.

(* ====================================================================== *)
(* B. next_h under the Lru operations                                      *)
(* ====================================================================== *)

Lemma next_h_make_space s n ok s' : make_space s n = (ok, s') -> next_h s' = next_h s.
Proof.
  unfold make_space. destruct (negb (n <=? cap s) || negb (pending_size s + n <=? cap s)).
  - intros H; inversion H; auto.
  - destruct (evict _ _ _ _ _) as [ok' [[idx m] fs]]. intros H; inversion H; subst. reflexivity.
Qed.

Lemma next_h_lru_insert s k v : next_h (lru_insert s k v) = next_h s.
Proof. unfold lru_insert. destruct (lru_trim _ _ _). reflexivity. Qed.

Lemma next_h_prepare_add s k n s' r : prepare_add s k n = (s', r) ->
  (r = ROk /\ next_h s' = next_h s + 1) \/ (r = RTooLarge /\ next_h s' = next_h s).
Proof.
  unfold prepare_add. destruct (make_space s n) as [ok s1] eqn:E. apply next_h_make_space in E.
  destruct ok; intros H; inversion H; subst; simpl; [left|right]; split; auto; congruence.
Qed.

Lemma next_h_write_tmp s h m s' r : write_tmp s h m = (s', r) -> next_h s' = next_h s.
Proof. unfold write_tmp. destruct (hlookup h (handles s)); intros H; inversion H; reflexivity. Qed.

Lemma next_h_commit s h s' r t : commit s h = (s', r, t) -> next_h s' = next_h s.
Proof.
  unfold commit. destruct (hlookup h (handles s)); [|intros H; inversion H; reflexivity].
  cbv zeta. destruct (make_space _ _) as [ok s2] eqn:E. apply next_h_make_space in E.
  destruct ok; intros H; inversion H; subst; [rewrite next_h_lru_insert|]; simpl; rewrite E; reflexivity.
Qed.

Lemma next_h_abandon s h s' r : abandon s h = (s', r) -> next_h s' = next_h s.
Proof. unfold abandon. destruct (hlookup h (handles s)); intros H; inversion H; reflexivity. Qed.

Lemma next_h_get s k s' r t : get s k = (s', r, t) -> next_h s' = next_h s.
Proof.
  unfold get, lru_get. destruct (alookup k (index s)); [|intros H; inversion H; reflexivity].
  simpl. destruct (alookup k (files s)) as [[sz mt]|]; intros H; inversion H; reflexivity.
Qed.

Lemma next_h_init_add s e : next_h (init_add s e) = next_h s.
Proof.
  unfold init_add. destruct e as [k [sz mt]]. destruct (is_temp k); [reflexivity|].
  destruct (negb (sz <=? cap s)); [reflexivity|].
  destruct (make_space s sz) as [ok s1] eqn:E. apply next_h_make_space in E.
  destruct ok; [rewrite next_h_lru_insert|]; auto.
Qed.

Lemma next_h_fold_init l : forall s, next_h (fold_left init_add l s) = next_h s.
Proof. induction l as [|e l IH]; intros s; simpl; auto. rewrite IH. apply next_h_init_add. Qed.

Lemma next_h_reopen s c : next_h (reopen s c) = next_h s.
Proof. unfold reopen. rewrite next_h_fold_init. reflexivity. Qed.

(* ====================================================================== *)
(* C. the invariant                                                        *)
(* ====================================================================== *)

Definition initial_entry (d : disk) (k : key) (v : list N) : Prop :=
  exists ino, In (k, ino) (d_dir d) /\ hlookup ino (d_inodes d) = Some v.

Definition committed (log : list event) (k : key) (v : list N) : Prop :=
  exists t, In (ECommit t k v) log.

(* v is a complete value stored under k: present on the initial disk, or written in full by a
   put whose Commit step is in the log *)
Definition good (d : disk) (log : list event) (k : key) (v : list N) : Prop :=
  initial_entry d k v \/ committed log k v.

Definition good_at_open (d : disk) (log : list event) (t : nat) (k : key) (v : list N) : Prop :=
  exists l0 l1, log = l0 ++ EOpen t k :: l1 /\ good d l0 k v.

Definition log_ok (d : disk) (log : list event) : Prop :=
  forall l1 l2 t k v, log = l1 ++ ERet t k (GHit v) :: l2 -> good_at_open d l1 t k v.

Lemma good_mono d log ev k v : good d log k v -> good d (log ++ ev) k v.
Proof. intros [H|[t H]]; [left; auto|right; exists t; apply in_or_app; auto]. Qed.

Lemma good_at_open_mono d log ev t k v : good_at_open d log t k v -> good_at_open d (log ++ ev) t k v.
Proof.
  intros (l0 & l1 & -> & H). exists l0, (l1 ++ ev). split; auto.
  rewrite <- app_assoc. reflexivity.
Qed.

Lemma log_ok_snoc d log e :
  log_ok d log -> (forall t k v, e = ERet t k (GHit v) -> good_at_open d log t k v) -> log_ok d (log ++ [e]).
Proof.
  intros H He l1 l2 t k v Hs. apply snoc_split in Hs as [(-> & <- & ->)|(l2' & -> & ->)].
  - apply He; reflexivity.
  - eapply H; reflexivity.
Qed.

Lemma log_ok_app d log ev :
  log_ok d log ->
  (forall a b t k v, ev = a ++ ERet t k (GHit v) :: b -> good_at_open d (log ++ a) t k v) ->
  log_ok d (log ++ ev).
Proof.
  revert log. induction ev as [|e ev IH]; intros log H He.
  - rewrite app_nil_r. exact H.
  - change (log ++ e :: ev) with (log ++ [e] ++ ev). rewrite app_assoc. apply IH.
    + apply log_ok_snoc; auto. intros t k v ->. specialize (He [] ev t k v eq_refl).
      rewrite app_nil_r in He. exact He.
    + intros a b t k v ->. specialize (He (e :: a) b t k v eq_refl).
      rewrite <- app_assoc. exact He.
Qed.

Definition handle_of (th : thread) : option N :=
  match th with TPutW _ h _ _ _ => Some h | _ => None end.

Definition tmps_ok (s : dst) : Prop :=
  forall h i, In (h, i) (tmps s) ->
    h < next_h (lru s) /\ i < next_ino s /\ (forall k, ~ In (k, i) (dir s)).

Definition tmps_inj (s : dst) : Prop :=
  forall h i h' i', In (h, i) (tmps s) -> In (h', i') (tmps s) -> (h = h' <-> i = i').

Definition thr_ok (d : disk) (s : dst) (log : list event) (t : nat) (th : thread) : Prop :=
  match th with
  | TPutW k h done rest f =>
      inited s = true /\ exists i, In (h, i) (tmps s) /\ hlookup i (inodes s) = Some done
  | TGetOpen k i =>
      inited s = true /\ i < next_ino s /\ (forall h, ~ In (h, i) (tmps s)) /\
      forall v, hlookup i (inodes s) = Some v -> good_at_open d log t k v
  | _ => True
  end.

Definition distinct_handles (ths : list thread) : Prop :=
  forall t1 t2 th1 th2 h, t1 <> t2 -> nth_error ths t1 = Some th1 -> nth_error ths t2 = Some th2 ->
    handle_of th1 = Some h -> handle_of th2 = Some h -> False.

Record Inv (d : disk) (s : dst) (ths : list thread) (log : list event) : Prop := {
  I_ino : forall i v, In (i, v) (inodes s) -> i < next_ino s;
  I_dir : forall k i, In (k, i) (dir s) ->
            i < next_ino s /\ forall v, hlookup i (inodes s) = Some v -> good d log k v;
  I_tmps : inited s = true -> tmps_ok s /\ tmps_inj s;
  I_thr : forall t th, nth_error ths t = Some th -> thr_ok d s log t th;
  I_dist : distinct_handles ths;
  I_log : log_ok d log
}.

(* threads other than the stepping one keep their view when only the stepping thread's own
   handle [hx] and its inode are touched *)
Lemma thr_ok_frame d s s' log ev hx t' th' :
  inited s = true -> tmps_ok s -> tmps_inj s ->
  thr_ok d s log t' th' ->
  handle_of th' <> Some hx ->
  inited s' = true ->
  next_ino s <= next_ino s' ->
  (forall i, i < next_ino s -> ~ In (hx, i) (tmps s) -> hlookup i (inodes s') = hlookup i (inodes s)) ->
  (forall h i, h <> hx -> In (h, i) (tmps s) -> In (h, i) (tmps s')) ->
  (forall h i, In (h, i) (tmps s') -> In (h, i) (tmps s) \/ next_ino s <= i) ->
  thr_ok d s' (log ++ ev) t' th'.
Proof.
  intros Hini Hok Hinj Hth Hh Hini' Hni Hfr Htk Htn.
  destruct th' as [k n ch f|k h done rest f|r|k|k i|k r]; simpl in *; auto.
  - destruct Hth as (_ & i & Hin & Hl). split; auto. exists i.
    assert (h <> hx) by congruence. split; auto.
    rewrite Hfr; auto.
    + apply (Hok h i Hin).
    + intros Hx. apply H. symmetry. apply (Hinj hx i h i Hx Hin). reflexivity.
  - destruct Hth as (_ & Hlt & Hnt & Hg). split; auto. split; [lia|]. split.
    + intros h Hx. apply Htn in Hx as [Hx|Hx]; [eapply Hnt; eauto|lia].
    + intros v Hv. apply good_at_open_mono. apply Hg. rewrite <- Hfr; auto.
Qed.

(* ---------- ensure_init ---------- *)

Lemma ensure_init_inited s : inited (ensure_init s) = true.
Proof. unfold ensure_init. destruct (inited s) eqn:E; auto. Qed.

Lemma Inv_ensure_init d s ths log : Inv d s ths log -> Inv d (ensure_init s) ths log.
Proof.
  intros H. unfold ensure_init. destruct (inited s) eqn:E; auto.
  destruct H as [H1 H2 H3 H4 H5 H6]. constructor; simpl; auto.
  - intros k i Hin. apply In_sync_dir in Hin. auto.
  - intros _. split; [intros h i Hin|intros h i h' i' Hin]; simpl in Hin; tauto.
  - intros t th Hn. specialize (H4 t th Hn).
    destruct th; simpl in *; auto; destruct H4 as [H4 _]; congruence.
Qed.

(* ====================================================================== *)
(* D. one atomic step preserves the invariant                              *)
(* ====================================================================== *)

Lemma distinct_set_nth ths t th th' :
  distinct_handles ths -> nth_error ths t = Some th ->
  (forall h, handle_of th' = Some h ->
     handle_of th = Some h \/
     forall t2 th2, t2 <> t -> nth_error ths t2 = Some th2 -> handle_of th2 <> Some h) ->
  distinct_handles (set_nth t th' ths).
Proof.
  intros Hd Hn Hnew t1 t2 th1 th2 h Hne H1 H2 Hh1 Hh2.
  destruct (Nat.eq_dec t1 t) as [->|N1]; destruct (Nat.eq_dec t2 t) as [->|N2]; try congruence.
  - rewrite (nth_set_nth_eq _ _ _ _ Hn) in H1. inversion H1; subst th1.
    rewrite nth_set_nth_neq in H2 by auto.
    destruct (Hnew h Hh1) as [Ho|Ho].
    + eapply (Hd t t2); eauto.
    + eapply Ho; eauto.
  - rewrite (nth_set_nth_eq _ _ _ _ Hn) in H2. inversion H2; subst th2.
    rewrite nth_set_nth_neq in H1 by auto.
    destruct (Hnew h Hh2) as [Ho|Ho].
    + eapply (Hd t1 t); eauto.
    + eapply Ho; eauto.
  - rewrite nth_set_nth_neq in H1, H2 by auto. eapply (Hd t1 t2); eauto.
Qed.

Lemma set_nth_same {A} t (x : A) l : nth_error l t = Some x -> set_nth t x l = l.
Proof. revert l; induction t as [|t IH]; intros [|a l]; simpl; try discriminate; intros H.
  - inversion H; auto.
  - f_equal; auto.
Qed.

Lemma Inv_step d s ths log t th s' th' ev hx :
  Inv d s ths log -> inited s = true -> nth_error ths t = Some th ->
  (forall t2 th2, t2 <> t -> nth_error ths t2 = Some th2 -> handle_of th2 <> Some hx) ->
  inited s' = true ->
  next_ino s <= next_ino s' ->
  (forall i v, In (i, v) (inodes s') -> i < next_ino s') ->
  (forall i, i < next_ino s -> ~ In (hx, i) (tmps s) -> hlookup i (inodes s') = hlookup i (inodes s)) ->
  (forall k i, In (k, i) (dir s') -> In (k, i) (dir s) \/
       (i < next_ino s' /\ forall v, hlookup i (inodes s') = Some v -> good d (log ++ ev) k v)) ->
  (forall h i, h <> hx -> In (h, i) (tmps s) -> In (h, i) (tmps s')) ->
  (forall h i, In (h, i) (tmps s') -> In (h, i) (tmps s) \/ next_ino s <= i) ->
  tmps_ok s' -> tmps_inj s' ->
  thr_ok d s' (log ++ ev) t th' ->
  (forall h, handle_of th' = Some h -> h = hx \/ handle_of th = Some h) ->
  log_ok d (log ++ ev) ->
  Inv d s' (set_nth t th' ths) (log ++ ev).
Proof.
  intros [H1 H2 H3 H4 H5 H6] Hini Hn Hoth Hini' Hni Hino Hfr Hdir Htk Htn Hok' Hinj' Hth' Hh' Hlog.
  destruct (H3 Hini) as [Hok Hinj].
  constructor; auto.
  - intros k i Hin. apply Hdir in Hin as [Hin|Hin]; auto.
    destruct (H2 k i Hin) as [Hlt Hg]. split; [lia|].
    intros v Hv. apply good_mono. apply Hg. rewrite <- Hfr; auto.
    intros Hx. apply Hok in Hx. destruct Hx as (_ & _ & Hx). eapply Hx; eauto.
  - intros t2 th2 Hn2. destruct (Nat.eq_dec t2 t) as [->|Hne].
    + rewrite (nth_set_nth_eq _ _ _ _ Hn) in Hn2. inversion Hn2; subst. auto.
    + rewrite nth_set_nth_neq in Hn2 by auto.
      eapply thr_ok_frame with (s := s) (hx := hx); eauto.
  - eapply distinct_set_nth; eauto. intros h Hh. destruct (Hh' h Hh) as [->|Hh2]; auto.
Qed.

Lemma no_hit_log_ok d log ev :
  log_ok d log -> (forall t k v, ~ In (ERet t k (GHit v)) ev) -> log_ok d (log ++ ev).
Proof.
  intros H Hn. apply log_ok_app; auto. intros a b t k v ->. exfalso. eapply Hn.
  apply in_or_app. right. left. reflexivity.
Qed.

Ltac no_hit :=
  apply no_hit_log_ok; [assumption|];
  let Hx := fresh "Hx" in
  intros ? ? ? Hx; simpl in Hx;
  repeat (destruct Hx as [Hx|Hx]; [try discriminate Hx|]); try contradiction.

Ltac easy_side :=
  try lia;
  try (let Hh := fresh "Hh" in intros ? Hh; simpl in Hh; discriminate Hh);
  try (no_hit; fail).

(* a handle id that no thread holds *)
Lemma fresh_handle d s ths log t :
  Inv d s ths log -> inited s = true ->
  forall t2 th2, t2 <> t -> nth_error ths t2 = Some th2 -> handle_of th2 <> Some (next_h (lru s)).
Proof.
  intros [H1 H2 H3 H4 H5 H6] Hini t2 th2 _ Hn Hh. specialize (H4 t2 th2 Hn).
  destruct th2; simpl in Hh; try discriminate. inversion Hh; subst. simpl in H4.
  destruct H4 as (_ & i & Hin & _). destruct (H3 Hini) as [Hok _]. apply Hok in Hin. lia.
Qed.

Lemma fresh_handle_notin d s ths log i :
  Inv d s ths log -> inited s = true -> ~ In (next_h (lru s), i) (tmps s).
Proof.
  intros [H1 H2 H3 H4 H5 H6] Hini Hin. destruct (H3 Hini) as [Hok _]. apply Hok in Hin. lia.
Qed.

(* steps that leave inodes and temp files alone and can only drop directory entries *)
Lemma Inv_shrink d s ths log t th l' th' ev :
  Inv d s ths log -> inited s = true -> nth_error ths t = Some th ->
  next_h (lru s) <= next_h l' ->
  thr_ok d (with_lru s l') (log ++ ev) t th' ->
  handle_of th' = None ->
  log_ok d (log ++ ev) ->
  Inv d (with_lru s l') (set_nth t th' ths) (log ++ ev).
Proof.
  intros HI Hini Hn Hnh Hth Hh Hlog. pose proof HI as [H1 H2 H3 H4 H5 H6].
  destruct (H3 Hini) as [Hok Hinj].
  eapply Inv_step with (s := s) (hx := next_h (lru s)); eauto; simpl; auto; easy_side.
  - eapply fresh_handle; eauto.
  - intros k i Hin. left. eapply In_sync_dir; eauto.
  - intros h i Hin. destruct (Hok h i Hin) as (A & B & C). simpl. split; [lia|]. split; auto.
    intros k Hk. apply In_sync_dir in Hk. eapply C; eauto.
  - intros h Hx. congruence.
Qed.

Lemma step_preserves d s ths log t th s' th' ev :
  Inv d s ths log -> nth_error ths t = Some th ->
  step_thread t s th = (s', th', ev) ->
  Inv d s' (set_nth t th' ths) (log ++ ev).
Proof.
  intros HI Hn Hs.
  destruct th as [k n chunks f|k h done rest f|r|k|k ino|k r]; simpl in Hs.
  - (* Reserve *)
    pose proof (Inv_ensure_init _ _ _ _ HI) as HI1. pose proof (ensure_init_inited s) as Hini.
    set (s1 := ensure_init s) in *.
    destruct (prepare_add (lru s1) k n) as [l' r] eqn:Epa.
    pose proof HI1 as [H1 H2 H3 H4 H5 H6]. destruct (H3 Hini) as [Hok Hinj].
    destruct (next_h_prepare_add _ _ _ _ _ Epa) as [[-> Hnh]|[-> Hnh]].
    + inversion Hs; subst s' th' ev; clear Hs.
      eapply Inv_step with (s := s1) (hx := next_h (lru s1)); eauto; simpl; auto; easy_side.
      * eapply fresh_handle; eauto.
      * intros i v Hin. apply in_app_or in Hin as [Hin|[Hin|[]]]; [apply H1 in Hin; lia|inversion Hin; lia].
      * intros i Hlt _. apply hlookup_app_other. lia.
      * intros k0 i Hin. left. eapply In_sync_dir; eauto.
      * intros h i _ Hin. apply in_or_app. auto.
      * intros h i Hin. apply in_app_or in Hin as [Hin|[Hin|[]]]; auto. inversion Hin; subst. right. lia.
      * intros h i Hin. simpl. apply in_app_or in Hin as [Hin|[Hin|[]]].
        -- destruct (Hok h i Hin) as (A & B & C). split; [lia|]. split; [lia|].
           intros k0 Hk. apply In_sync_dir in Hk. eapply C; eauto.
        -- inversion Hin; subst. split; [lia|]. split; [lia|].
           intros k0 Hk. apply In_sync_dir in Hk. apply H2 in Hk. lia.
      * intros h i h' i' Ha Hb. simpl in Ha, Hb.
        apply in_app_or in Ha as [Ha|[Ha|[]]]; apply in_app_or in Hb as [Hb|[Hb|[]]].
        -- apply Hinj; auto.
        -- inversion Hb; subst. apply Hok in Ha. lia.
        -- inversion Ha; subst. apply Hok in Hb. lia.
        -- inversion Ha; inversion Hb; subst. tauto.
      * split; auto. exists (next_ino s1). split; [apply in_or_app; right; left; reflexivity|].
        apply hlookup_app_new. intros v Hv. apply H1 in Hv. lia.
      * intros h Hh. inversion Hh. auto.
    + inversion Hs; subst s' th' ev; clear Hs.
      eapply Inv_shrink; eauto; simpl; auto. lia.
      apply no_hit_log_ok; auto.
  - (* a put in flight *)
    pose proof HI as [H1 H2 H3 H4 H5 H6]. pose proof (H4 t _ Hn) as Hth. simpl in Hth.
    destruct Hth as (Hini & i & Hin & Hli). destruct (H3 Hini) as [Hok Hinj].
    assert (Hlh : hlookup h (tmps s) = Some i).
    { apply In_hlookup; auto. intros i' Hi'. symmetry. apply (Hinj h i h i' Hin Hi'). reflexivity. }
    assert (Hoth : forall t2 th2, t2 <> t -> nth_error ths t2 = Some th2 -> handle_of th2 <> Some h).
    { intros t2 th2 Hne Hn2 Hh. eapply (H5 t2 t); eauto. }
    destruct rest as [|c rest].
    + destruct f.
      * (* Abandon *)
        destruct (abandon (lru s) h) as [l' r] eqn:Eab. inversion Hs; subst s' th' ev; clear Hs.
        apply next_h_abandon in Eab.
        eapply Inv_step with (s := s) (hx := h); eauto; simpl; auto; easy_side.
        -- intros h' i' Hne Hi'. apply hremove_In_other; auto.
        -- intros h' i' Hi'. apply In_hremove in Hi'. tauto.
        -- intros h' i' Hi'. apply In_hremove in Hi' as [Hi' _]. simpl. rewrite Eab. apply Hok; auto.
        -- intros h1 i1 h2 i2 Ha Hb. apply In_hremove in Ha as [Ha _]. apply In_hremove in Hb as [Hb _].
           apply Hinj; auto.
      * (* Commit *)
        destruct (commit (lru s) h) as [[l' r] tk] eqn:Eco.
        pose proof (next_h_commit _ _ _ _ _ Eco) as Hnh.
        assert (Hrm_ok : forall d', (forall k0 i0, In (k0, i0) d' -> In (k0, i0) (dir s) \/ i0 = i) ->
                  tmps_ok {| lru := l'; inited := inited s; capacity := capacity s; inodes := inodes s;
                             dir := d'; tmps := hremove h (tmps s); next_ino := next_ino s |}).
        { intros d' Hd' h' i' Hi'. apply In_hremove in Hi' as [Hi' Hne]. simpl. rewrite Hnh.
          destruct (Hok h' i' Hi') as (A & B & C). split; auto. split; auto.
          intros k0 Hk. apply Hd' in Hk as [Hk| ->]; [eapply C; eauto|].
          apply Hne. apply (Hinj h' i h i Hi' Hin). reflexivity. }
        assert (Hrm_inj : forall l0 d', tmps_inj {| lru := l0; inited := inited s; capacity := capacity s; inodes := inodes s;
                             dir := d'; tmps := hremove h (tmps s); next_ino := next_ino s |}).
        { intros l0 d' h1 i1 h2 i2 Ha Hb. apply In_hremove in Ha as [Ha _]. apply In_hremove in Hb as [Hb _].
          apply Hinj; auto. }
        destruct r; inversion Hs; subst s' th' ev; clear Hs.
        -- (* ROk *)
           rewrite Hlh.
           eapply Inv_step with (s := s) (hx := h); eauto; simpl; auto; easy_side.
           ++ intros k0 i0 [Hk|Hk].
              ** inversion Hk; subst. right. split; [apply (Hok h i0 Hin)|].
                 intros v Hv. rewrite Hli in Hv. inversion Hv; subst. right. exists t.
                 apply in_or_app. right. left. reflexivity.
              ** left. apply In_aremove in Hk. eapply In_sync_dir; eauto.
           ++ intros h' i' Hne Hi'. apply hremove_In_other; auto.
           ++ intros h' i' Hi'. apply In_hremove in Hi'. tauto.
           ++ apply Hrm_ok. intros k0 i0 [Hk|Hk]; [inversion Hk; auto|].
              left. apply In_aremove in Hk. eapply In_sync_dir; eauto.
        -- (* RTooLarge *)
           eapply Inv_step with (s := s) (hx := h); eauto; simpl; auto; easy_side.
           ++ intros k0 i0 Hk. left. eapply In_sync_dir; eauto.
           ++ intros h' i' Hne Hi'. apply hremove_In_other; auto.
           ++ intros h' i' Hi'. apply In_hremove in Hi'. tauto.
           ++ apply Hrm_ok. intros k0 i0 Hk. left. eapply In_sync_dir; eauto.
        -- (* RNotInCache: cannot happen; the call ends with an error *)
           eapply Inv_step with (s := s) (hx := h); eauto; simpl; auto; easy_side.
        -- eapply Inv_step with (s := s) (hx := h); eauto; simpl; auto; easy_side.
        -- eapply Inv_step with (s := s) (hx := h); eauto; simpl; auto; easy_side.
    + (* Write one chunk *)
      destruct (write_tmp (lru s) h (blen c)) as [l' r] eqn:Ew.
      apply next_h_write_tmp in Ew. rewrite Hlh, Hli in Hs.
      inversion Hs; subst s' th' ev; clear Hs.
      eapply Inv_step with (s := s) (hx := h); eauto; simpl; auto; easy_side.
      * intros i0 v Hv. apply In_hset_key in Hv as [v' Hv]. eapply H1; eauto.
      * intros i0 Hlt Hni. apply hlookup_hset_other. intros ->. auto.
      * intros h' i' Hi'. simpl. rewrite Ew. apply Hok; auto.
      * split; auto. exists i. split; auto. eapply hlookup_hset_same; eauto.
  - (* finished put *)
    inversion Hs; subst. rewrite app_nil_r, set_nth_same; auto.
  - (* Open *)
    pose proof (Inv_ensure_init _ _ _ _ HI) as HI1. pose proof (ensure_init_inited s) as Hini.
    set (s1 := ensure_init s) in *.
    destruct (get (lru s1) k) as [[l' r] tk] eqn:Eg.
    pose proof (next_h_get _ _ _ _ _ Eg) as Hnh.
    pose proof HI1 as [H1 H2 H3 H4 H5 H6]. destruct (H3 Hini) as [Hok Hinj].
    assert (Hmiss : forall g, (forall v, g <> GHit v) ->
              Inv d (with_lru s1 l') (set_nth t (TGetDone k g) ths) (log ++ [EOpen t k; ERet t k g])).
    { intros g Hg. eapply Inv_shrink; eauto; simpl; auto. lia.
      apply no_hit_log_ok; auto. intros t0 k0 v [Hx|[Hx|[]]]; [discriminate|].
      inversion Hx; subst. eapply Hg; eauto. }
    destruct r; try (inversion Hs; subst s' th' ev; apply Hmiss; intros v; discriminate).
    destruct (alookup k (dir s1)) as [i|] eqn:Ed;
      [|inversion Hs; subst s' th' ev; apply Hmiss; intros v; discriminate].
    inversion Hs; subst s' th' ev; clear Hs.
    apply alookup_In in Ed. destruct (H2 _ _ Ed) as [Hlt Hg].
    eapply Inv_shrink; eauto; simpl; auto. lia.
    + split; auto. split; auto. split.
      * intros h Hx. apply Hok in Hx. destruct Hx as (_ & _ & C). eapply C; eauto.
      * intros v Hv. exists log, []. split; auto.
    + no_hit.
  - (* Read *)
    pose proof HI as [H1 H2 H3 H4 H5 H6]. pose proof (H4 t _ Hn) as Hth. simpl in Hth.
    destruct Hth as (Hini & Hlt & Hnt & Hg). destruct (H3 Hini) as [Hok Hinj].
    assert (Hs1 : forall g, (forall v, g = GHit v -> good_at_open d log t k v) ->
              Inv d s (set_nth t (TGetDone k g) ths) (log ++ [ERet t k g])).
    { intros g Hgg. eapply Inv_step with (s := s) (hx := next_h (lru s)); eauto; simpl; auto; easy_side.
      - eapply fresh_handle; eauto.
      - apply log_ok_snoc; auto. intros t0 k0 v Hx. inversion Hx; subst. apply Hgg; auto. }
    destruct (hlookup ino (inodes s)) as [v|] eqn:El; inversion Hs; subst s' th' ev; apply Hs1.
    + intros v0 Hv0. inversion Hv0; subst. auto.
    + intros v0 Hv0. discriminate.
  - inversion Hs; subst. rewrite app_nil_r, set_nth_same; auto.
Qed.

(* ---------- every schedule ---------- *)

Definition WInv (d : disk) (w : world) : Prop := Inv d (ws w) (wt w) (wlog w).

Lemma exec1_Inv d w t : WInv d w -> WInv d (exec1 w t).
Proof.
  unfold WInv, exec1. intros H. destruct (nth_error (wt w) t) as [th|] eqn:E; auto.
  destruct (step_thread t (ws w) th) as [[s' th'] ev] eqn:Es. simpl.
  eapply step_preserves; eauto.
Qed.

Lemma exec_Inv d sched : forall w, WInv d w -> WInv d (exec w sched).
Proof. unfold exec. induction sched as [|t r IH]; simpl; auto. intros w H. apply IH, exec1_Inv, H. Qed.

Lemma wf_disk_spec d : wf_disk d = true ->
  (forall i v, In (i, v) (d_inodes d) -> i < d_next_ino d) /\
  (forall k i, In (k, i) (d_dir d) -> i < d_next_ino d).
Proof.
  unfold wf_disk. rewrite andb_true_iff, !forallb_forall. intros [A B]. split.
  - intros i v Hin. specialize (A _ Hin). simpl in A. lia.
  - intros k i Hin. specialize (B _ Hin). simpl in B. lia.
Qed.

Lemma is_call_handle th : is_call th = true -> handle_of th = None.
Proof. destruct th; simpl; auto; discriminate. Qed.

Lemma boot_Inv c d ths :
  wf_disk d = true -> forallb is_call ths = true -> WInv d (start c d ths).
Proof.
  intros Hwf Hc. apply wf_disk_spec in Hwf as [A B]. rewrite forallb_forall in Hc.
  unfold WInv, start. simpl. constructor; simpl; auto.
  - intros k i Hin. split; [eauto|]. intros v Hv. left. exists i. auto.
  - discriminate.
  - intros t th Hn. apply nth_error_In in Hn. apply Hc in Hn. destruct th; simpl in *; auto; discriminate.
  - intros t1 t2 th1 th2 h _ Hn _ Hh _. apply nth_error_In in Hn. apply Hc in Hn.
    apply is_call_handle in Hn. congruence.
  - intros l1 l2 t k v Hx. destruct l1; discriminate.
Qed.

(* ====================================================================== *)
(* E. who wrote what: provenance of events and of finished calls           *)
(* ====================================================================== *)

Definition shape (th0 th : thread) : Prop :=
  match th0 with
  | TPut k n chunks f =>
      th = th0 \/
      (exists h done rest, th = TPutW k h done rest f /\ done ++ concat rest = concat chunks) \/
      (exists r, th = TPutDone r)
  | TGet k => th = th0 \/ (exists i, th = TGetOpen k i) \/ (exists r, th = TGetDone k r)
  | _ => False
  end.

Definition ev_ok (ths0 : list thread) (e : event) : Prop :=
  match e with
  | EReserve t k => exists n chunks f, nth_error ths0 t = Some (TPut k n chunks f)
  | ECommit t k v => exists n chunks f, nth_error ths0 t = Some (TPut k n chunks f) /\ v = concat chunks
  | EOpen t k => nth_error ths0 t = Some (TGet k)
  | ERet t k _ => nth_error ths0 t = Some (TGet k)
  end.

Record Prov (ths0 : list thread) (w : world) : Prop := {
  P_shape : forall t th, nth_error (wt w) t = Some th ->
              exists th0, nth_error ths0 t = Some th0 /\ shape th0 th;
  P_ev : forall e, In e (wlog w) -> ev_ok ths0 e;
  P_ret : forall t k r, nth_error (wt w) t = Some (TGetDone k r) -> In (ERet t k r) (wlog w)
}.

Lemma step_prov ths0 t th0 s th s' th' ev :
  nth_error ths0 t = Some th0 -> shape th0 th -> step_thread t s th = (s', th', ev) ->
  shape th0 th' /\ (forall e, In e ev -> ev_ok ths0 e) /\
  (forall k r, th' = TGetDone k r -> th = th' \/ In (ERet t k r) ev).
Proof.
  intros Hn Hsh Hs. destruct th0 as [k n chunks f| | |k| |]; simpl in Hsh; try contradiction.
  - destruct Hsh as [->|[(h & done & rest & -> & Hc)|(r & ->)]]; simpl in Hs.
    + destruct (prepare_add _ _ _) as [l' r].
      destruct r; inversion Hs; subst; simpl; (split; [|split; [|intros; discriminate]]);
        try (right; right; eexists; reflexivity); try (intros ? Hf; contradiction).
      * right; left. exists (next_h (lru (ensure_init s))), [], chunks. auto.
      * intros e0 [<-|[]]. simpl. eauto.
    + destruct rest as [|c rest].
      * destruct f.
        -- destruct (abandon _ _) as [l' r]. inversion Hs; subst; simpl.
           split; [eauto|]. split; [intros ? Hf; contradiction|intros; discriminate].
        -- destruct (commit _ _) as [[l' r] tk].
           destruct r; inversion Hs; subst; simpl; (split; [eauto|]); (split; [|intros; discriminate]);
             try (intros ? Hf; contradiction).
           intros e [<-|[]]. simpl. exists n, chunks, false. split; auto.
           simpl in Hc. rewrite app_nil_r in Hc. auto.
      * destruct (write_tmp _ _ _) as [l' r]. inversion Hs; subst; simpl.
        split; [|split; [intros ? Hf; contradiction|intros; discriminate]].
        right; left. exists h, (done ++ c), rest. split; auto. rewrite <- app_assoc. exact Hc.
    + inversion Hs; subst; simpl. split; [eauto|]. split; [intros ? Hf; contradiction|intros; discriminate].
  - destruct Hsh as [->|[(i & ->)|(r & ->)]]; simpl in Hs.
    + destruct (get _ _) as [[l' r] tk].
      destruct r; try (inversion Hs; subst; simpl; split; [eauto|]; split;
        [intros e [<-|[<-|[]]]; simpl; auto | intros k0 r0 Hx; inversion Hx; subst; right; right; left; auto]).
      destruct (alookup k (dir (ensure_init s))) as [i|]; inversion Hs; subst; simpl.
      * split; [eauto|]. split; [intros e [<-|[]]; simpl; auto|intros; discriminate].
      * split; [eauto|]. split; [intros e [<-|[<-|[]]]; simpl; auto|].
        intros k0 r0 Hx; inversion Hx; subst; right; right; left; auto.
    + destruct (hlookup i (inodes s)); inversion Hs; subst; simpl; (split; [eauto|]);
        (split; [intros e [<-|[]]; simpl; auto|intros k0 r0 Hx; inversion Hx; subst; right; left; auto]).
    + inversion Hs; subst; simpl. split; [eauto|]. split; [intros ? Hf; contradiction|]. intros; auto.
Qed.

Lemma exec1_Prov ths0 w t : Prov ths0 w -> Prov ths0 (exec1 w t).
Proof.
  intros [A B C]. unfold exec1. destruct (nth_error (wt w) t) as [th|] eqn:E; [|constructor; auto].
  destruct (step_thread t (ws w) th) as [[s' th'] ev] eqn:Es.
  destruct (A t th E) as (th0 & Hn0 & Hsh).
  destruct (step_prov _ _ _ _ _ _ _ _ Hn0 Hsh Es) as (S1 & S2 & S3).
  constructor; simpl.
  - intros t2 th2 Hn2. destruct (Nat.eq_dec t2 t) as [->|Hne].
    + rewrite (nth_set_nth_eq _ _ _ _ E) in Hn2. inversion Hn2; subst. eauto.
    + rewrite nth_set_nth_neq in Hn2 by auto. auto.
  - intros e He. apply in_app_or in He as [He|He]; auto.
  - intros t2 k r Hn2. apply in_or_app. destruct (Nat.eq_dec t2 t) as [->|Hne].
    + rewrite (nth_set_nth_eq _ _ _ _ E) in Hn2. inversion Hn2; subst.
      destruct (S3 k r eq_refl) as [->|Hin]; auto.
    + rewrite nth_set_nth_neq in Hn2 by auto. auto.
Qed.

Lemma exec_Prov ths0 sched : forall w, Prov ths0 w -> Prov ths0 (exec w sched).
Proof. unfold exec. induction sched as [|t r IH]; simpl; auto. intros w H. apply IH, exec1_Prov, H. Qed.

Lemma start_Prov c d ths : forallb is_call ths = true -> Prov ths (start c d ths).
Proof.
  intros Hc. rewrite forallb_forall in Hc. constructor; simpl.
  - intros t th Hn. exists th. split; auto. apply nth_error_In in Hn. apply Hc in Hn.
    destruct th; simpl in *; auto; discriminate.
  - intros e [].
  - intros t k r Hn. apply nth_error_In in Hn. apply Hc in Hn. discriminate.
Qed.

(* the statement of C06_get_complete *)
Theorem get_complete c d ths sched :
  wf_disk d = true -> forallb is_call ths = true ->
  let w := exec (start c d ths) sched in
  (forall l1 l2 t k v, wlog w = l1 ++ ERet t k (GHit v) :: l2 ->
     nth_error ths t = Some (TGet k) /\
     exists l0 l0', l1 = l0 ++ EOpen t k :: l0' /\
       (initial_entry d k v \/
        exists t' n chunks f, In (ECommit t' k v) l0 /\
          nth_error ths t' = Some (TPut k n chunks f) /\ v = concat chunks)) /\
  (forall t k r, nth_error (wt w) t = Some (TGetDone k r) ->
     nth_error ths t = Some (TGet k) /\ In (ERet t k r) (wlog w)).
Proof.
  intros Hwf Hc w.
  pose proof (exec_Inv d sched _ (boot_Inv c d ths Hwf Hc)) as HI.
  pose proof (exec_Prov ths sched _ (start_Prov c d ths Hc)) as [PA PB PC].
  fold w in HI, PA, PB, PC. split.
  - intros l1 l2 t k v Hl. destruct HI as [_ _ _ _ _ Hlog].
    assert (He : ev_ok ths (ERet t k (GHit v))).
    { apply PB. rewrite Hl. apply in_or_app. right. left. reflexivity. }
    split; [exact He|].
    destruct (Hlog _ _ _ _ _ Hl) as (l0 & l0' & -> & [Hg|[t' Hg]]); exists l0, l0'; split; auto.
    right. assert (He2 : ev_ok ths (ECommit t' k v)).
    { apply PB. rewrite Hl. apply in_or_app. left. apply in_or_app. left. exact Hg. }
    destruct He2 as (n & chunks & f & Hn & ->). exists t', n, chunks, f. auto.
  - intros t k r Hn. pose proof (PC _ _ _ Hn) as Hin. split; auto. apply (PB _ Hin).
Qed.

(* ====================================================================== *)
(* F. the directory, the inodes and the Lru bookkeeping agree              *)
(* ====================================================================== *)

Lemma hlookup_app_some {V} i (v : V) l x : hlookup i l = Some v -> hlookup i (l ++ x) = Some v.
Proof.
  induction l as [|[h' v'] r IH]; simpl; [discriminate|]. destruct (i =? h'); auto.
Qed.

Lemma hlookup_hset_some {V} j i (x v : V) l : hlookup j l = Some v -> exists v', hlookup j (hset i x l) = Some v'.
Proof.
  induction l as [|[h' v'] r IH]; simpl; [discriminate|].
  destruct (i =? h') eqn:E; simpl; destruct (j =? h') eqn:E2; eauto.
Qed.

Lemma hlookup_hremove_other {V} h h2 (l : list (N * V)) : h2 <> h -> hlookup h2 (hremove h l) = hlookup h2 l.
Proof.
  intros Hn. induction l as [|[h' v'] r IH]; simpl; auto.
  destruct (h =? h') eqn:E; simpl.
  - apply N.eqb_eq in E. subst h'. destruct (h2 =? h) eqn:E2; auto. apply N.eqb_eq in E2. contradiction.
  - destruct (h2 =? h'); auto.
Qed.

Lemma alookup_sync_dir fs d k : alookup k (sync_dir fs d) = if amem k fs then alookup k d else None.
Proof.
  unfold sync_dir. induction d as [|[k2 i] r IH]; simpl.
  - destruct (amem k fs); auto.
  - destruct (amem k2 fs) eqn:A; simpl; destruct (bytes_eqb k k2) eqn:E; auto.
    + apply bytes_eqb_eq in E. subst. rewrite A. auto.
    + apply bytes_eqb_eq in E. subst. rewrite A in IH. rewrite A. auto.
Qed.

Lemma sync_dir_amem fs d k i : In (k, i) (sync_dir fs d) -> amem k fs = true.
Proof. unfold sync_dir. rewrite filter_In. simpl. tauto. Qed.

Lemma amem_alookup {V} k (l : list (key * V)) v : alookup k l = Some v -> amem k l = true.
Proof. unfold amem. intros ->. auto. Qed.

Lemma blen_app a b : blen (a ++ b) = blen a + blen b.
Proof. unfold blen. rewrite app_length. lia. Qed.

(* ---------- what the Lru operations do to handles and files ---------- *)

Lemma handles_make_space s n ok s' : make_space s n = (ok, s') -> handles s' = handles s.
Proof.
  unfold make_space. destruct (negb (n <=? cap s) || negb (pending_size s + n <=? cap s)).
  - intros H; inversion H; auto.
  - destruct (evict _ _ _ _ _) as [ok' [[idx m] fs]]. intros H; inversion H; subst. reflexivity.
Qed.

Lemma handles_lru_insert s k v : handles (lru_insert s k v) = handles s.
Proof. unfold lru_insert. destruct (lru_trim _ _ _). reflexivity. Qed.

Lemma handles_prepare_add s k n s' : prepare_add s k n = (s', ROk) ->
  handles s' = handles s ++ [(next_h s, {| h_key := k; h_reserved := n; h_written := 0 |})].
Proof.
  unfold prepare_add. destruct (make_space s n) as [ok s1] eqn:E.
  pose proof (handles_make_space _ _ _ _ E) as Hh. apply next_h_make_space in E.
  destruct ok; intros H; inversion H; subst; simpl. rewrite Hh, E. reflexivity.
Qed.

Lemma handles_prepare_add_fail s k n s' : prepare_add s k n = (s', RTooLarge) -> handles s' = handles s.
Proof.
  unfold prepare_add. destruct (make_space s n) as [ok s1] eqn:E.
  apply handles_make_space in E. destruct ok; intros H; inversion H; subst; auto.
Qed.

Lemma write_tmp_spec s h m s' r hd : write_tmp s h m = (s', r) -> hlookup h (handles s) = Some hd ->
  files s' = files s /\
  handles s' = hset h {| h_key := h_key hd; h_reserved := h_reserved hd; h_written := h_written hd + m |} (handles s).
Proof. unfold write_tmp. intros H E. rewrite E in H. inversion H; subst; simpl. auto. Qed.

Lemma abandon_spec s h s' r : abandon s h = (s', r) ->
  files s' = files s /\ index s' = index s /\ (handles s' = handles s \/ handles s' = hremove h (handles s)).
Proof. unfold abandon. destruct (hlookup h (handles s)); intros H; inversion H; subst; simpl; auto. Qed.

Lemma commit_spec s h s' r t hd : commit s h = (s', r, t) -> hlookup h (handles s) = Some hd ->
  handles s' = hremove h (handles s) /\
  exists ks,
    (r = ROk /\ exists mt, files s' = ains (h_key hd) (h_written hd, mt) (PL.rmkeys ks (files s))) \/
    (r = RTooLarge /\ files s' = PL.rmkeys ks (files s)).
Proof.
  unfold commit. intros H E. rewrite E in H. cbv zeta in H.
  destruct (make_space _ _) as [ok s2] eqn:MS.
  pose proof (handles_make_space _ _ _ _ MS) as Hh. simpl in Hh.
  apply PL.make_space_spec in MS as (pre & idx' & m' & -> & _). simpl in *.
  destruct ok; inversion H; subst; clear H.
  - rewrite handles_lru_insert, PL.files_lru_insert. simpl. split; auto.
    exists (PL.keys pre). left. split; auto. eexists. reflexivity.
  - simpl. split; auto. exists (PL.keys pre). right. auto.
Qed.

Lemma get_spec s k s' r t : get s k = (s', r, t) ->
  handles s' = handles s /\
  ((r = RNotInCache /\ files s' = files s /\ alookup k (index s) = None) \/
   (r = RIoErr /\ files s' = files s /\ alookup k (files s) = None /\ alookup k (index s) <> None) \/
   (r = ROk /\ exists sz mt mt', alookup k (files s) = Some (sz, mt) /\ files s' = ains k (sz, mt') (files s))).
Proof.
  unfold get, lru_get. destruct (alookup k (index s)) eqn:Ei.
  - simpl. destruct (alookup k (files s)) as [[sz mt]|] eqn:Ef; intros H; inversion H; subst; simpl; split; auto.
    + right; right. split; auto. eauto.
    + right; left. repeat split; auto. discriminate.
  - intros H; inversion H; subst. split; auto.
Qed.

Lemma rmkeys_sub {V} ks : forall (fs : list (key * V)) k x, alookup k (PL.rmkeys ks fs) = Some x -> alookup k fs = Some x.
Proof.
  intros fs k x H. destruct (in_dec PL.key_eq_dec k ks) as [Hi|Hi].
  - rewrite PL.alookup_rmkeys_in in H by auto. discriminate.
  - rewrite PL.alookup_rmkeys_notin in H by auto. auto.
Qed.

Lemma trans_ev_sub s s' pre k x : PL.trans_ev s s' pre -> alookup k (files s') = Some x -> alookup k (files s) = Some x.
Proof.
  intros [_ Hf _] H. destruct (Hf k) as [A B]. destruct (in_dec PL.key_eq_dec k (PL.keys pre)) as [Hi|Hi].
  - rewrite A in H by auto. discriminate.
  - rewrite B in H by auto. auto.
Qed.

Lemma reopen_sub s c k x : PL.ksorted (files s) -> alookup k (files (reopen s c)) = Some x -> alookup k (files s) = Some x.
Proof.
  intros Hks H. destruct (PL.reopen_J s c Hks) as (_ & _ & _ & preF & F' & _ & _ & Hf).
  destruct (Hf k) as [A B].
  assert (Hdec : PL.removed c preF (sort_mtime (files s)) k \/ ~ PL.removed c preF (sort_mtime (files s)) k).
  { unfold PL.removed.
    destruct (in_dec PL.key_eq_dec k (PL.keys preF)); destruct (in_dec PL.key_eq_dec k (PL.keys (filter (PL.nkeep c) (sort_mtime (files s))))); tauto. }
  destruct Hdec as [Hr|Hr].
  - rewrite A in H by auto. discriminate.
  - rewrite B in H by auto. auto.
Qed.

(* ---------- the extended invariant ---------- *)

Definition thr_ext (ths0 : list thread) (s : dst) (t : nat) (th : thread) : Prop :=
  match th with
  | TPutW k h done rest f =>
      exists hd, hlookup h (handles (lru s)) = Some hd /\ h_key hd = k /\ h_written hd = blen done
  | TGetOpen k i => exists v, hlookup i (inodes s) = Some v
  | TGetDone k GErr => False
  | TPutDone PErr => exists k n c, nth_error ths0 t = Some (TPut k n c true)
  | _ => True
  end.

Record Ext (ths0 : list thread) (s : dst) (ths : list thread) : Prop := {
  X_lru : if inited s then PL.good (lru s) else PL.dir_ok (lru s);
  X_files : forall k sz mt, alookup k (files (lru s)) = Some (sz, mt) ->
              exists i v, alookup k (dir s) = Some i /\ hlookup i (inodes s) = Some v /\ blen v = sz;
  X_dir : forall k i, In (k, i) (dir s) -> amem k (files (lru s)) = true;
  X_thr : forall t th, nth_error ths t = Some th -> thr_ext ths0 s t th
}.

Lemma thr_ext_frame ths0 s s' hx t2 th2 :
  thr_ext ths0 s t2 th2 -> handle_of th2 <> Some hx ->
  (forall h2 hd, h2 <> hx -> hlookup h2 (handles (lru s)) = Some hd -> hlookup h2 (handles (lru s')) = Some hd) ->
  (forall i v, hlookup i (inodes s) = Some v -> exists v', hlookup i (inodes s') = Some v') ->
  thr_ext ths0 s' t2 th2.
Proof.
  intros H Hh Hha Hin. destruct th2 as [k n ch f|k h done rest f|r|k|k i|k r]; simpl in *; auto.
  - destruct H as (hd & A & B & C). exists hd. split; auto. apply Hha; auto. congruence.
  - destruct H as (v & A). eapply Hin; eauto.
Qed.

Lemma Ext_step ths0 s ths t th s' th' hx :
  Ext ths0 s ths -> nth_error ths t = Some th ->
  (forall t2 th2, t2 <> t -> nth_error ths t2 = Some th2 -> handle_of th2 <> Some hx) ->
  (if inited s' then PL.good (lru s') else PL.dir_ok (lru s')) ->
  (forall k sz mt, alookup k (files (lru s')) = Some (sz, mt) ->
     exists i v, alookup k (dir s') = Some i /\ hlookup i (inodes s') = Some v /\ blen v = sz) ->
  (forall k i, In (k, i) (dir s') -> amem k (files (lru s')) = true) ->
  (forall h2 hd, h2 <> hx -> hlookup h2 (handles (lru s)) = Some hd -> hlookup h2 (handles (lru s')) = Some hd) ->
  (forall i v, hlookup i (inodes s) = Some v -> exists v', hlookup i (inodes s') = Some v') ->
  thr_ext ths0 s' t th' ->
  Ext ths0 s' (set_nth t th' ths).
Proof.
  intros [X1 X2 X3 X4] Hn Hoth Hl Hf Hd Hha Hin Hth. constructor; auto.
  intros t2 th2 Hn2. destruct (Nat.eq_dec t2 t) as [->|Hne].
  - rewrite (nth_set_nth_eq _ _ _ _ Hn) in Hn2. inversion Hn2; subst. auto.
  - rewrite nth_set_nth_neq in Hn2 by auto. eapply thr_ext_frame; eauto.
Qed.

Lemma Ext_ensure_init d ths0 s ths log : Inv d s ths log -> Ext ths0 s ths -> Ext ths0 (ensure_init s) ths.
Proof.
  intros HI HX. unfold ensure_init. destruct (inited s) eqn:E; auto.
  destruct HX as [X1 X2 X3 X4]. rewrite E in X1. constructor; simpl.
  - apply PL.reopen_good; auto.
  - intros k sz mt Hf. apply reopen_sub in Hf as Hf0; [|apply X1].
    destruct (X2 _ _ _ Hf0) as (i & v & A & B & C). exists i, v. split; auto.
    rewrite alookup_sync_dir. rewrite (amem_alookup _ _ _ Hf). auto.
  - intros k i Hin. eapply sync_dir_amem; eauto.
  - intros t th Hn. specialize (X4 t th Hn). destruct HI as [_ _ _ H4 _ _]. specialize (H4 t th Hn).
    destruct th as [k n ch f|k h done rest f|r|k|k i|k r]; simpl in *; auto;
      destruct H4 as [H4 _]; congruence.
Qed.

Lemma good_of_step s o : PL.good s -> PL.not_extdel o -> PL.good (fst (step s o)).
Proof. apply PL.step_good. Qed.

Ltac xs Hini :=
  try (rewrite Hini; assumption);
  try (let Hx := fresh in intros ? ? Hx; eapply sync_dir_amem; exact Hx);
  try (eapply fresh_handle; eassumption).

Lemma step_ext d ths0 s ths log t th0 th s' th' ev :
  Inv d s ths log -> Ext ths0 s ths -> nth_error ths t = Some th ->
  nth_error ths0 t = Some th0 -> shape th0 th ->
  step_thread t s th = (s', th', ev) -> Ext ths0 s' (set_nth t th' ths).
Proof.
  intros HI HX Hn Hn0 Hsh Hs.
  destruct th as [k n chunks f|k h done rest f|r|k|k ino|k r]; simpl in Hs.
  - (* Reserve *)
    pose proof (Inv_ensure_init _ _ _ _ HI) as HI1. pose proof (Ext_ensure_init _ _ _ _ _ HI HX) as HX1.
    pose proof (ensure_init_inited s) as Hini. set (s1 := ensure_init s) in *.
    destruct (prepare_add (lru s1) k n) as [l' r] eqn:Epa.
    pose proof HX1 as [X1 X2 X3 X4]. rewrite Hini in X1.
    pose proof (good_of_step _ (PrepareAdd k n) X1 I) as G. simpl in G. rewrite Epa in G. simpl in G.
    destruct (PL.shape_prepare_add _ _ _ _ _ Epa) as [pre Hte].
    assert (Hfiles : forall inod, (forall i v, hlookup i (inodes s1) = Some v -> hlookup i inod = Some v) ->
              forall k0 sz mt, alookup k0 (files l') = Some (sz, mt) ->
              exists i v, alookup k0 (sync_dir (files l') (dir s1)) = Some i /\ hlookup i inod = Some v /\ blen v = sz).
    { intros inod Hinod k0 sz mt Hf. pose proof (trans_ev_sub _ _ _ _ _ Hte Hf) as Hf0.
      destruct (X2 _ _ _ Hf0) as (i & v & A & B & C). exists i, v.
      rewrite alookup_sync_dir, (amem_alookup _ _ _ Hf). auto. }
    destruct (next_h_prepare_add _ _ _ _ _ Epa) as [[-> Hnh]|[-> Hnh]].
    + inversion Hs; subst s' th' ev; clear Hs.
      pose proof (handles_prepare_add _ _ _ _ Epa) as Hh.
      eapply Ext_step with (s := s1) (hx := next_h (lru s1)); eauto; simpl; auto; xs Hini.
      * apply Hfiles. intros i v Hv. apply hlookup_app_some; auto.
      * intros h2 hd Hne Hl. rewrite Hh. apply hlookup_app_some; auto.
      * intros i v Hv. exists v. apply hlookup_app_some; auto.
      * rewrite Hh. exists {| h_key := k; h_reserved := n; h_written := 0 |}. split; [|split; reflexivity].
        apply hlookup_app_new. intros hd Hin.
        destruct X1 as [[_ [_ Hw]] _]. specialize (Hw (next_h (lru s1))).
        assert (In (next_h (lru s1)) (map fst (handles (lru s1)))) by (apply in_map_iff; exists (next_h (lru s1), hd); auto).
        apply Hw in H. lia.
    + inversion Hs; subst s' th' ev; clear Hs.
      pose proof (handles_prepare_add_fail _ _ _ _ Epa) as Hh.
      eapply Ext_step with (s := s1) (hx := next_h (lru s1)); eauto; simpl; auto; xs Hini.
      intros h2 hd Hne Hl. rewrite Hh. auto.
  - (* a put in flight *)
    pose proof HI as [H1 H2 H3 H4 H5 H6]. pose proof (H4 t _ Hn) as Hth. simpl in Hth.
    destruct Hth as (Hini & i & Hin & Hli). destruct (H3 Hini) as [Hok Hinj].
    assert (Hlh : hlookup h (tmps s) = Some i).
    { apply In_hlookup; auto. intros i' Hi'. symmetry. apply (Hinj h i h i' Hin Hi'). reflexivity. }
    assert (Hoth : forall t2 th2, t2 <> t -> nth_error ths t2 = Some th2 -> handle_of th2 <> Some h).
    { intros t2 th2 Hne Hn2 Hh. eapply (H5 t2 t); eauto. }
    pose proof HX as [X1 X2 X3 X4]. rewrite Hini in X1.
    pose proof (X4 t _ Hn) as Hxt. simpl in Hxt. destruct Hxt as (hd & Hhd & Hk & Hw).
    destruct rest as [|c rest].
    + destruct f.
      * (* Abandon *)
        destruct (abandon (lru s) h) as [l' r] eqn:Eab. inversion Hs; subst s' th' ev; clear Hs.
        pose proof (good_of_step _ (Abandon h) X1 I) as G. simpl in G. rewrite Eab in G. simpl in G.
        destruct (abandon_spec _ _ _ _ Eab) as (Hf & _ & Hh).
        eapply Ext_step with (s := s) (hx := h); eauto; simpl; auto; xs Hini.
        -- rewrite Hf. auto.
        -- rewrite Hf. auto.
        -- intros h2 hd2 Hne Hl. destruct Hh as [-> | ->]; auto. rewrite hlookup_hremove_other; auto.
        -- destruct th0; simpl in Hsh; try contradiction.
           ++ destruct Hsh as [Hx|[(h0 & d0 & r0 & Hx & _)|(r0 & Hx)]]; try discriminate.
              inversion Hx; subst. eauto.
           ++ destruct Hsh as [Hx|[(i0 & Hx)|(r0 & Hx)]]; discriminate.
      * (* Commit *)
        destruct (commit (lru s) h) as [[l' r] tk] eqn:Eco.
        pose proof (good_of_step _ (Commit h) X1 I) as G. simpl in G. rewrite Eco in G. simpl in G.
        destruct (commit_spec _ _ _ _ _ _ Eco Hhd) as (Hh & ks & Hfs).
        assert (Hha : forall h2 hd2, h2 <> h -> hlookup h2 (handles (lru s)) = Some hd2 -> hlookup h2 (handles l') = Some hd2).
        { intros h2 hd2 Hne Hl. rewrite Hh, hlookup_hremove_other; auto. }
        destruct Hfs as [(-> & mt & Hfs)|(-> & Hfs)]; inversion Hs; subst s' th' ev; clear Hs.
        -- rewrite Hlh.
           eapply Ext_step with (s := s) (hx := h); eauto; simpl; auto; xs Hini.
           ++ subst k. intros k0 sz mt0 Hf. rewrite Hfs in Hf.
              destruct (PL.key_eq_dec k0 (h_key hd)) as [->|Hne].
              ** rewrite PL.alookup_ains_eq in Hf. inversion Hf; subst sz mt0. exists i, done.
                 rewrite bytes_eqb_refl. auto.
              ** rewrite PL.alookup_ains_neq in Hf by auto.
                 pose proof (rmkeys_sub _ _ _ _ Hf) as Hf0.
                 destruct (X2 _ _ _ Hf0) as (i0 & v & A & B & C). exists i0, v. split; auto.
                 destruct (bytes_eqb k0 (h_key hd)) eqn:Eb; [apply bytes_eqb_eq in Eb; contradiction|].
                 rewrite PL.alookup_aremove_neq by auto.
                 rewrite alookup_sync_dir. rewrite Hfs.
                 assert (Ha : amem k0 (ains (h_key hd) (h_written hd, mt) (PL.rmkeys ks (files (lru s)))) = true).
                 { unfold amem. rewrite PL.alookup_ains_neq by auto. rewrite Hf. auto. }
                 rewrite Ha. auto.
           ++ intros k0 i0 [Hx|Hx].
              ** inversion Hx; subst k0 i0. rewrite Hfs, <- Hk. unfold amem. rewrite PL.alookup_ains_eq. auto.
              ** apply In_aremove in Hx. eapply sync_dir_amem; eauto.
        -- eapply Ext_step with (s := s) (hx := h); eauto; simpl; auto; xs Hini.
           ++ intros k0 sz mt0 Hf. pose proof Hf as Hf1. rewrite Hfs in Hf1. apply rmkeys_sub in Hf1.
              destruct (X2 _ _ _ Hf1) as (i0 & v & A & B & C). exists i0, v. split; auto.
              rewrite alookup_sync_dir, (amem_alookup _ _ _ Hf). auto.
    + (* Write *)
      destruct (write_tmp (lru s) h (blen c)) as [l' r] eqn:Ew.
      pose proof (good_of_step _ (WriteTmp h (blen c)) X1 I) as G. simpl in G. rewrite Ew in G. simpl in G.
      destruct (write_tmp_spec _ _ _ _ _ _ Ew Hhd) as (Hf & Hh).
      rewrite Hlh, Hli in Hs. inversion Hs; subst s' th' ev; clear Hs.
      eapply Ext_step with (s := s) (hx := h); eauto; simpl; auto; xs Hini.
      * rewrite Hf. intros k0 sz mt Hf0. destruct (X2 _ _ _ Hf0) as (i0 & v & A & B & C).
        exists i0, v. split; auto. split; auto. rewrite hlookup_hset_other; auto.
        intros ->. apply alookup_In in A. destruct (Hok _ _ Hin) as (_ & _ & Hnd). eapply Hnd; eauto.
      * rewrite Hf. auto.
      * intros h2 hd2 Hne Hl. rewrite Hh. rewrite hlookup_hset_other; auto.
      * intros i0 v Hv. eapply hlookup_hset_some; eauto.
      * rewrite Hh. eexists. split; [eapply hlookup_hset_same; eauto|]. simpl. split; auto.
        rewrite blen_app. lia.
  - inversion Hs; subst. rewrite set_nth_same; auto.
  - (* Open *)
    pose proof (Inv_ensure_init _ _ _ _ HI) as HI1. pose proof (Ext_ensure_init _ _ _ _ _ HI HX) as HX1.
    pose proof (ensure_init_inited s) as Hini. set (s1 := ensure_init s) in *.
    destruct (get (lru s1) k) as [[l' r] tk] eqn:Eg.
    pose proof HX1 as [X1 X2 X3 X4]. rewrite Hini in X1.
    pose proof (good_of_step _ (Get k) X1 I) as G. simpl in G. rewrite Eg in G. simpl in G.
    destruct (get_spec _ _ _ _ _ Eg) as (Hh & Hg).
    assert (Hgen : forall th2, thr_ext ths0 (with_lru s1 l') t th2 -> Ext ths0 (with_lru s1 l') (set_nth t th2 ths)).
    { intros th2 Hth2.
      eapply Ext_step with (s := s1) (hx := next_h (lru s1)); eauto; simpl; auto; xs Hini.
      - intros k0 sz mt Hf.
        assert (Hf0 : exists mt0, alookup k0 (files (lru s1)) = Some (sz, mt0)).
        { destruct Hg as [(_ & Hfe & _)|[(_ & Hfe & _)|(_ & sz0 & mt0 & mt' & Hf0 & Hfe)]]; try (rewrite Hfe in Hf; eauto).
          destruct (PL.key_eq_dec k0 k) as [->|Hne].
          - rewrite PL.alookup_ains_eq in Hf. inversion Hf; subst. eauto.
          - rewrite PL.alookup_ains_neq in Hf by auto. eauto. }
        destruct Hf0 as [mt0 Hf0]. destruct (X2 _ _ _ Hf0) as (i0 & v & A & B & C). exists i0, v. split; auto.
        rewrite alookup_sync_dir, (amem_alookup _ _ _ Hf). auto.
      - intros h2 hd2 _ Hl. rewrite Hh. auto. }
    destruct Hg as [(-> & _)|[(-> & _ & Hfn & Hin)|(-> & sz0 & mt0 & mt' & Hf0 & Hfe)]].
    + inversion Hs; subst s' th' ev. apply Hgen. simpl. auto.
    + exfalso. destruct X1 as (_ & _ & (Hda & _)). destruct (alookup k (index (lru s1))) as [sz|] eqn:Ei; [|congruence].
      apply Hda in Ei as [mt Ei]. congruence.
    + destruct (X2 _ _ _ Hf0) as (i0 & v & A & B & C). rewrite A in Hs.
      inversion Hs; subst s' th' ev. apply Hgen. simpl. eauto.
  - (* Read *)
    pose proof HX as [X1 X2 X3 X4]. pose proof (X4 t _ Hn) as Hxt. simpl in Hxt. destruct Hxt as [v Hv].
    rewrite Hv in Hs. inversion Hs; subst s' th' ev.
    pose proof HI as [H1 H2 H3 H4 H5 H6]. pose proof (H4 t _ Hn) as Hth. simpl in Hth. destruct Hth as (Hini & _).
    eapply Ext_step with (s := s) (hx := next_h (lru s)); eauto; simpl; auto; xs Hini.
  - inversion Hs; subst. rewrite set_nth_same; auto.
Qed.

(* ====================================================================== *)
(* G. reachable worlds, server death and restart                           *)
(* ====================================================================== *)

(* what is asked of a cache directory found at start-up: a canonical listing with distinct
   mtimes none of which lies in the future (Lru's dir_ok), every listed file has an inode of the
   listed size, and the model's directory lists exactly those paths *)
Record disk_ok (d : disk) : Prop := {
  dk_wf : wf_disk d = true;
  dk_sorted : PL.ksorted (d_files d);
  dk_mt_le : forall k sz mt, alookup k (d_files d) = Some (sz, mt) -> mt <= d_clock d;
  dk_mt_inj : forall k1 k2 sz1 sz2 mt,
      alookup k1 (d_files d) = Some (sz1, mt) -> alookup k2 (d_files d) = Some (sz2, mt) -> k1 = k2;
  dk_files : forall k sz mt, alookup k (d_files d) = Some (sz, mt) ->
      exists i v, alookup k (d_dir d) = Some i /\ hlookup i (d_inodes d) = Some v /\ blen v = sz;
  dk_dir : forall k i, In (k, i) (d_dir d) -> amem k (d_files d) = true
}.

Definition Reach (d : disk) (ths0 : list thread) (w : world) : Prop :=
  WInv d w /\ Prov ths0 w /\ Ext ths0 (ws w) (wt w).

Lemma start_Reach c d ths : disk_ok d -> forallb is_call ths = true -> Reach d ths (start c d ths).
Proof.
  intros [D1 D2 D3 D4 D5 D6] Hc. split; [apply boot_Inv; auto|]. split; [apply start_Prov; auto|].
  constructor; simpl; auto.
  - split; [|split]; auto.
  - intros t th Hn. apply nth_error_In in Hn. rewrite forallb_forall in Hc. apply Hc in Hn.
    destruct th; simpl in *; auto; discriminate.
Qed.

Lemma exec1_Reach d ths0 w t : Reach d ths0 w -> Reach d ths0 (exec1 w t).
Proof.
  intros (A & B & C). split; [apply exec1_Inv; auto|]. split; [apply exec1_Prov; auto|].
  unfold exec1. destruct (nth_error (wt w) t) as [th|] eqn:E; auto.
  destruct (step_thread t (ws w) th) as [[s' th'] ev] eqn:Es. simpl.
  destruct B as [PA _ _]. destruct (PA t th E) as (th0 & Hn0 & Hsh).
  eapply step_ext; eauto.
Qed.

Lemma exec_Reach d ths0 sched : forall w, Reach d ths0 w -> Reach d ths0 (exec w sched).
Proof. unfold exec. induction sched as [|t r IH]; simpl; auto. intros w H. apply IH, exec1_Reach, H. Qed.

Lemma reach c d ths sched : disk_ok d -> forallb is_call ths = true ->
  Reach d ths (exec (start c d ths) sched).
Proof. intros. apply exec_Reach, start_Reach; auto. Qed.

(* whatever is on disk when the server dies is again an acceptable cache directory *)
Lemma persist_ok d ths0 w : Reach d ths0 w -> disk_ok (persist (ws w)).
Proof.
  intros ([H1 H2 H3 H4 H5 H6] & _ & [X1 X2 X3 X4]).
  assert (Hd : PL.dir_ok (lru (ws w))).
  { destruct (inited (ws w)); auto. apply PL.good_dir_ok; auto. }
  destruct Hd as (Hs & Hle & Hinj).
  constructor; simpl; auto.
  unfold wf_disk. simpl. rewrite andb_true_iff, !forallb_forall. split.
  - intros [i v] Hin. apply H1 in Hin. simpl. lia.
  - intros [k i] Hin. apply H2 in Hin. simpl. lia.
Qed.

Lemma initial_of_persist d s ths log k v :
  Inv d s ths log -> initial_entry (persist s) k v -> good d log k v.
Proof. intros [_ H2 _ _ _ _] (i & Hin & Hl). simpl in *. apply (H2 k i Hin); auto. Qed.

(* ---------- no call ever fails on its own ---------- *)

Theorem no_errors c d ths sched : disk_ok d -> forallb is_call ths = true ->
  let w := exec (start c d ths) sched in
  forall t, (forall k, nth_error (wt w) t <> Some (TGetDone k GErr)) /\
            (nth_error (wt w) t = Some (TPutDone PErr) -> exists k n ch, nth_error ths t = Some (TPut k n ch true)).
Proof.
  intros Hd Hc w t. destruct (reach c d ths sched Hd Hc) as (_ & _ & [_ _ _ X4]). fold w in X4. split.
  - intros k Hn. apply (X4 t _ Hn).
  - intros Hn. apply (X4 t _ Hn).
Qed.

(* ---------- restart ---------- *)

Lemma reopen_no_temp s c k : PL.ksorted (files s) -> is_temp k = true -> alookup k (files (reopen s c)) = None.
Proof.
  intros Hks Ht. destruct (PL.reopen_J s c Hks) as (_ & _ & _ & preF & F' & _ & _ & Hf).
  destruct (Hf k) as [A B].
  destruct (alookup k (files s)) as [x|] eqn:E.
  - apply A. right. apply alookup_In in E.
    apply (Permutation.Permutation_in _ (Permutation.Permutation_sym (PL.sort_mtime_perm (files s)))) in E.
    unfold PL.keys. apply in_map_iff. exists (k, x). split; auto. apply filter_In. split; auto.
    unfold PL.nkeep, PL.keep. simpl. rewrite Ht. reflexivity.
  - destruct (alookup k (files (reopen s c))) as [y|] eqn:E2; auto.
    assert (Hdec : PL.removed c preF (sort_mtime (files s)) k \/ ~ PL.removed c preF (sort_mtime (files s)) k).
    { unfold PL.removed.
      destruct (in_dec PL.key_eq_dec k (PL.keys preF));
        destruct (in_dec PL.key_eq_dec k (PL.keys (filter (PL.nkeep c) (sort_mtime (files s))))); tauto. }
    destruct Hdec as [Hr|Hr]; auto.
Qed.

Lemma reopen_pending s c : PL.ksorted (files s) -> pending_size (reopen s c) = 0.
Proof. intros Hks. destruct (PL.reopen_J s c Hks) as (_ & Hp & _). exact Hp. Qed.

Fixpoint sum_sizes (l : list (key * N)) : N :=
  match l with [] => 0 | (_, sz) :: r => sz + sum_sizes r end.

Lemma sum_sizes_sumsz l : sum_sizes l = PL.sumsz l.
Proof. induction l as [|[k sz] r IH]; simpl; [reflexivity|]. rewrite IH. reflexivity. Qed.

(* the statement of C06_crash_safe *)
Theorem crash_safe c d ths sched n c' :
  disk_ok d -> forallb is_call ths = true ->
  let w := exec (start c d ths) (firstn n sched) in
  let s' := restart c' (ws w) in
  (* no temp file remains; none is listed, indexed or in the directory *)
  tmps s' = [] /\
  (forall k, is_temp k = true ->
     alookup k (files (lru s')) = None /\ alookup k (index (lru s')) = None /\ alookup k (dir s') = None) /\
  (* every path in the directory holds a complete value: an initial one, or one whose put committed before the crash *)
  (forall k i, alookup k (dir s') = Some i ->
     exists v, hlookup i (inodes s') = Some v /\
       (initial_entry d k v \/
        exists t' n0 chunks f, In (ECommit t' k v) (wlog w) /\
          nth_error ths t' = Some (TPut k n0 chunks f) /\ v = concat chunks)) /\
  (* what is counted is exactly what is served: no reservation, and every indexed entry is a complete
     value of the recorded size *)
  size (lru s') = sum_sizes (index (lru s')) /\
  (forall k sz, alookup k (index (lru s')) = Some sz ->
     exists v, visible s' k = Some v /\ blen v = sz).
Proof.
  intros Hd Hc w s'.
  pose proof (reach c d ths (firstn n sched) Hd Hc) as HR. fold w in HR.
  pose proof (persist_ok _ _ _ HR) as Hd'.
  pose proof (start_Reach c' (persist (ws w)) [] Hd' eq_refl) as (HI0 & _ & HX0).
  unfold WInv, start in HI0; simpl in HI0, HX0.
  pose proof (Inv_ensure_init _ _ _ _ HI0) as HI1.
  pose proof (Ext_ensure_init _ _ _ _ _ HI0 HX0) as HX1.
  fold (restart c' (ws w)) in HI1, HX1. fold s' in HI1, HX1.
  destruct HR as (HIw & [PA PB PC] & HXw).
  assert (Hini : inited s' = true) by apply ensure_init_inited.
  destruct HX1 as [X1 X2 X3 X4]. rewrite Hini in X1.
  assert (Hks : PL.ksorted (files (lru (boot c' (persist (ws w)))))) by (simpl; apply Hd').
  assert (Hfiles : files (lru s') = files (reopen (lru (boot c' (persist (ws w)))) c')) by reflexivity.
  split; [reflexivity|]. split; [|split; [|split]].
  - intros k Ht.
    assert (Hf : alookup k (files (lru s')) = None) by (rewrite Hfiles; apply reopen_no_temp; auto).
    split; auto. split.
    + destruct X1 as (_ & _ & (Hda & _)). destruct (alookup k (index (lru s'))) as [sz|] eqn:Ei; auto.
      apply Hda in Ei as [mt Ei]. congruence.
    + destruct (alookup k (dir s')) as [i|] eqn:Ed; auto. apply alookup_In in Ed. apply X3 in Ed.
      unfold amem in Ed. rewrite Hf in Ed. discriminate.
  - intros k i Hal. pose proof (alookup_In _ _ _ Hal) as Hin.
    pose proof (X3 _ _ Hin) as Ha. unfold amem in Ha.
    destruct (alookup k (files (lru s'))) as [[sz mt]|] eqn:Ef; [|discriminate].
    destruct HI1 as [_ H2 _ _ _ _]. destruct (H2 _ _ Hin) as [_ Hg].
    assert (Hex : exists v, hlookup i (inodes s') = Some v).
    { destruct (X2 _ _ _ Ef) as (i0 & v0 & A & B & C). rewrite Hal in A. inversion A; subst. eauto. }
    destruct Hex as [v Hv]. exists v. split; auto.
    destruct (Hg v Hv) as [Hi|[t' Hcm]]; [|simpl in Hcm; contradiction].
    apply (initial_of_persist d _ _ _ _ _ HIw) in Hi. destruct Hi as [Hi|[t' Hcm]]; auto.
    right. destruct (PB _ Hcm) as (n0 & chunks & f & Hn & ->). exists t', n0, chunks, f. auto.
  - unfold size.
    assert (Hp : pending_size (lru s') = 0) by (apply (reopen_pending _ c' Hks)).
    destruct X1 as ([(Hm & _) _] & _). rewrite sum_sizes_sumsz. lia.
  - intros k sz Hi. destruct X1 as (_ & _ & (Hda & _)). pose proof Hi as Hi2. apply Hda in Hi2 as [mt Hf].
    destruct (X2 _ _ _ Hf) as (i & v & A & B & C). exists v. split; auto.
    unfold visible. unfold ensure_init. rewrite Hini. unfold amem. rewrite Hi, A. auto.
Qed.

(* the statement of C06_crash_then_get: lookups served by the restarted server *)
Theorem crash_then_get c d ths sched c' ths2 sched2 :
  disk_ok d -> forallb is_call ths = true -> forallb is_call ths2 = true ->
  let w1 := exec (start c d ths) sched in
  let w2 := exec (start c' (persist (ws w1)) ths2) sched2 in
  (forall l1 l2 t k v, wlog w2 = l1 ++ ERet t k (GHit v) :: l2 ->
     nth_error ths2 t = Some (TGet k) /\
     (initial_entry d k v \/
      (exists t' n chunks f, In (ECommit t' k v) (wlog w1) /\
         nth_error ths t' = Some (TPut k n chunks f) /\ v = concat chunks) \/
      (exists l0 l0' t' n chunks f, l1 = l0 ++ EOpen t k :: l0' /\ In (ECommit t' k v) l0 /\
         nth_error ths2 t' = Some (TPut k n chunks f) /\ v = concat chunks))) /\
  (forall t k, nth_error (wt w2) t <> Some (TGetDone k GErr)).
Proof.
  intros Hd Hc Hc2 w1 w2.
  pose proof (reach c d ths sched Hd Hc) as HR. fold w1 in HR.
  pose proof (persist_ok _ _ _ HR) as Hd'. destruct HR as (HIw & [PA PB PC] & HXw).
  split.
  - intros l1 l2 t k v Hl.
    destruct (get_complete c' (persist (ws w1)) ths2 sched2 (dk_wf _ Hd') Hc2) as [G1 _].
    destruct (G1 _ _ _ _ _ Hl) as (Hn & l0 & l0' & -> & Hg). split; auto.
    destruct Hg as [Hi|(t' & n & chunks & f & A & B & C)].
    + apply (initial_of_persist d _ _ _ _ _ HIw) in Hi. destruct Hi as [Hi|[t' Hcm]]; auto.
      right; left. destruct (PB _ Hcm) as (n0 & chunks & f & Hn0 & ->). exists t', n0, chunks, f. auto.
    + right; right. exists l0, l0', t', n, chunks, f. auto.
  - intros t k. apply (no_errors c' (persist (ws w1)) ths2 sched2 Hd' Hc2 t).
Qed.

(* ====================================================================== *)
(* H. uncommitted data is invisible                                        *)
(* ====================================================================== *)

Lemma index_write_tmp s h m s' r : write_tmp s h m = (s', r) -> index s' = index s.
Proof. unfold write_tmp. destruct (hlookup h (handles s)); intros H; inversion H; reflexivity. Qed.

Lemma amem_app_r {V} k (a b : list (key * V)) : amem k b = true -> amem k (a ++ b) = true.
Proof.
  unfold amem. induction a as [|[k2 v] r IH]; simpl; auto. destruct (bytes_eqb k k2); auto.
Qed.

Definition view (s : dst) (k : key) : option (list N) :=
  if amem k (index (lru s)) then
    match alookup k (dir s) with Some ino => hlookup ino (inodes s) | None => None end
  else None.

Lemma visible_view s k : visible s k = view (ensure_init s) k.
Proof. reflexivity. Qed.

Lemma view_inited s k : inited s = true -> visible s k = view s k.
Proof. intros H. rewrite visible_view. unfold ensure_init. rewrite H. reflexivity. Qed.

(* a complete lookup returns what [visible] says *)
Theorem lookup_visible t s k :
  let '(s1, th1, _) := step_thread t s (TGet k) in
  let '(_, th2, _) := step_thread t s1 th1 in
  (forall v, th2 = TGetDone k (GHit v) -> visible s k = Some v) /\
  (th2 = TGetDone k GMiss -> visible s k = None).
Proof.
  simpl. rewrite visible_view. set (s1 := ensure_init s). unfold view.
  destruct (get (lru s1) k) as [[l' r] tk] eqn:Eg.
  destruct (get_spec _ _ _ _ _ Eg) as (_ & Hg).
  destruct Hg as [(-> & _ & Hi)|[(-> & _ & _ & Hi)|(-> & sz & mt & mt' & Hf & _)]]; simpl.
  - unfold amem. rewrite Hi. split; [intros v Hv; discriminate|auto].
  - split; [intros v Hv; discriminate|intros Hv; discriminate].
  - assert (Hi : amem k (index (lru s1)) = true).
    { unfold get, lru_get in Eg. unfold amem. destruct (alookup k (index (lru s1))); auto. inversion Eg. }
    rewrite Hi. destruct (alookup k (dir s1)) as [i|] eqn:Ed; simpl.
    + destruct (hlookup i (inodes s1)) as [v|] eqn:El; split; intros; try discriminate.
      inversion H; subst. auto.
    + split; intros; discriminate.
Qed.

(* the statement of C06_uncommitted_invisible *)
Theorem uncommitted_invisible c d ths sched :
  wf_disk d = true -> forallb is_call ths = true ->
  let w := exec (start c d ths) sched in
  forall t th, nth_error (wt w) t = Some th ->
    let s' := fst (fst (step_thread t (ws w) th)) in
    match th with
    | TPut _ _ _ _ => forall k', visible s' k' = visible (ws w) k' \/ visible s' k' = None
    | TPutW _ _ _ (_ :: _) _ | TPutW _ _ _ [] true => forall k', visible s' k' = visible (ws w) k'
    | _ => True
    end.
Proof.
  intros Hwf Hc w t th Hn.
  pose proof (exec_Inv d sched _ (boot_Inv c d ths Hwf Hc)) as HI. fold w in HI. unfold WInv in HI.
  destruct th as [k n chunks f|k h done rest f|r|k|k ino|k r]; simpl; auto.
  - (* Reserve *)
    pose proof (Inv_ensure_init _ _ _ _ HI) as HI1. pose proof (ensure_init_inited (ws w)) as Hini.
    intros k'. rewrite (visible_view (ws w)). set (s1 := ensure_init (ws w)) in *.
    destruct (prepare_add (lru s1) k n) as [l' r] eqn:Epa.
    destruct (PL.shape_prepare_add _ _ _ _ _ Epa) as [pre [Hidx _ _]].
    destruct HI1 as [H1 H2 _ _ _ _].
    assert (Hgen : forall inod, (forall i, i < next_ino s1 -> hlookup i inod = hlookup i (inodes s1)) ->
       (if amem k' (index l') then
          match alookup k' (sync_dir (files l') (dir s1)) with Some ino => hlookup ino inod | None => None end
        else None) = view s1 k' \/
       (if amem k' (index l') then
          match alookup k' (sync_dir (files l') (dir s1)) with Some ino => hlookup ino inod | None => None end
        else None) = None).
    { intros inod Hinod. destruct (amem k' (index l')) eqn:Ea; auto.
      rewrite alookup_sync_dir. destruct (amem k' (files l')); auto.
      left. unfold view. rewrite Hidx, amem_app_r by auto.
      destruct (alookup k' (dir s1)) as [i|] eqn:Ed; auto. apply Hinod.
      apply alookup_In in Ed. apply H2 in Ed. tauto. }
    destruct r; simpl; rewrite view_inited by (simpl; auto); unfold view; simpl; try (apply Hgen; auto).
    intros i Hlt. apply hlookup_app_other. lia.
  - (* a put in flight *)
    destruct HI as [H1 H2 H3 H4 H5 H6]. pose proof (H4 t _ Hn) as Hth. simpl in Hth.
    destruct Hth as (Hini & i & Hin & Hli). destruct (H3 Hini) as [Hok Hinj].
    assert (Hlh : hlookup h (tmps (ws w)) = Some i).
    { apply In_hlookup; auto. intros i' Hi'. symmetry. apply (Hinj h i h i' Hin Hi'). reflexivity. }
    destruct rest as [|c0 rest].
    + destruct f; auto. intros k'.
      destruct (abandon (lru (ws w)) h) as [l' r] eqn:Eab. simpl.
      destruct (abandon_spec _ _ _ _ Eab) as (_ & Hidx & _).
      rewrite !view_inited by auto. unfold view. simpl. rewrite Hidx. reflexivity.
    + intros k'. destruct (write_tmp (lru (ws w)) h (blen c0)) as [l' r] eqn:Ew. simpl.
      apply index_write_tmp in Ew. rewrite Hlh, Hli.
      rewrite !view_inited by auto. unfold view. simpl. rewrite Ew.
      destruct (amem k' (index (lru (ws w)))); auto.
      destruct (alookup k' (dir (ws w))) as [j|] eqn:Ed; auto.
      apply hlookup_hset_other. intros ->. apply alookup_In in Ed.
      destruct (Hok _ _ Hin) as (_ & _ & Hnd). eapply Hnd; eauto.
Qed.

(* ====================================================================== *)
(* I. cache keys are never temp names                                      *)
(* ====================================================================== *)

Lemma file_name_aux_no_slash l : forall acc, forallb (fun c => negb (c =? 47)) l = true ->
  file_name_aux l acc = acc ++ l.
Proof.
  induction l as [|c r IH]; intros acc H; simpl in *.
  - rewrite app_nil_r. reflexivity.
  - apply andb_true_iff in H as [Hc Hr]. destruct (c =? 47); [discriminate|].
    rewrite IH by auto. rewrite <- app_assoc. reflexivity.
Qed.

Lemma is_hex_not_slash c : is_hex c = true -> negb (c =? 47) = true.
Proof. unfold is_hex. intros H. destruct (c =? 47) eqn:E; auto. apply N.eqb_eq in E. subst. discriminate. Qed.

Lemma is_hex_not_dot c : is_hex c = true -> (46 =? c) = false.
Proof. unfold is_hex. intros H. destruct (46 =? c) eqn:E; auto. apply N.eqb_eq in E. subst. discriminate. Qed.

(* the statement of C06_hex_keys_not_temp *)
Theorem hex_keys_not_temp k : is_hex_key k = true -> is_temp (make_key_path k) = false.
Proof.
  unfold is_hex_key. rewrite andb_true_iff. intros [Hh Hl].
  destruct k as [|x [|y r]]; try (unfold blen in Hl; simpl in Hl; discriminate).
  unfold make_key_path, is_temp, file_name. 
  assert (Hns : forallb (fun c => negb (c =? 47)) (x :: y :: r) = true).
  { rewrite forallb_forall in *. intros c Hc. apply is_hex_not_slash. auto. }
  simpl in Hh. apply andb_true_iff in Hh as [Hx Hh]. apply andb_true_iff in Hh as [Hy Hr].
  pose proof (is_hex_not_slash _ Hx) as Sx. pose proof (is_hex_not_slash _ Hy) as Sy.
  change ([x; 47; y; 47] ++ x :: y :: r) with (x :: 47 :: y :: 47 :: x :: y :: r).
  cbn [file_name_aux]. destruct (x =? 47); [discriminate|]. destruct (y =? 47); [discriminate|].
  change (47 =? 47) with true. cbv iota.
  rewrite file_name_aux_no_slash.
  2:{ rewrite forallb_forall in *. intros c Hc. apply is_hex_not_slash. auto. }
  simpl app.
  unfold tempfile_prefix. cbn [starts_with]. rewrite (is_hex_not_dot _ Hx). reflexivity.
Qed.

(* ====================================================================== *)
(* J. what is indexed can be looked up                                     *)
(* ====================================================================== *)

(* the statement of C06_indexed_is_served: in every reachable state of an opened cache, an indexed (and
   therefore counted) key has its file: a lookup returns a complete value of the recorded size.  The look-up in
   the index, utimes and open of a lookup are ONE atomic step, and so are dropping an entry from the index and
   unlinking its file (C06_split_lookup_refuted shows what happens otherwise). *)
Theorem indexed_is_served c d ths sched :
  disk_ok d -> forallb is_call ths = true ->
  let w := exec (start c d ths) sched in
  inited (ws w) = true ->
  forall k sz, alookup k (index (lru (ws w))) = Some sz ->
    exists v, visible (ws w) k = Some v /\ blen v = sz.
Proof.
  intros Hd Hc w Hini k sz Hi.
  destruct (reach c d ths sched Hd Hc) as (_ & _ & [X1 X2 _ _]). fold w in X1, X2.
  rewrite Hini in X1. destruct X1 as (_ & _ & (Hda & _)).
  pose proof Hi as Hi2. apply Hda in Hi2 as [mt Hf].
  destruct (X2 _ _ _ Hf) as (i & v & A & B & C). exists v. split; auto.
  unfold visible, ensure_init. rewrite Hini. unfold amem. rewrite Hi, A. auto.
Qed.

(* ====================================================================== *)
(* K. the scan of a restarted server skips nothing                         *)
(* ====================================================================== *)

(* the statement of C06_restart_indexes_all: after a restart every file that is still below the cache root —
   whatever its name or the names of the directories it sits in — is indexed with its size (and, by
   C06_crash_safe, none of them has a temp name): the scan leaves nothing behind unindexed and uncounted. *)
Theorem restart_indexes_all c d ths sched n c' :
  disk_ok d -> forallb is_call ths = true ->
  let w := exec (start c d ths) (firstn n sched) in
  let s' := restart c' (ws w) in
  forall k sz mt, alookup k (files (lru s')) = Some (sz, mt) ->
    alookup k (index (lru s')) = Some sz /\ is_temp k = false /\
    exists v, visible s' k = Some v /\ blen v = sz.
Proof.
  intros Hd Hc w s' k sz mt Hf.
  pose proof (reach c d ths (firstn n sched) Hd Hc) as HR. fold w in HR.
  pose proof (persist_ok _ _ _ HR) as Hd'.
  pose proof (start_Reach c' (persist (ws w)) [] Hd' eq_refl) as (HI0 & _ & HX0).
  unfold WInv, start in HI0; simpl in HI0, HX0.
  pose proof (Ext_ensure_init _ _ _ _ _ HI0 HX0) as HX1.
  fold (restart c' (ws w)) in HX1. fold s' in HX1.
  assert (Hini : inited s' = true) by apply ensure_init_inited.
  destruct HX1 as [X1 X2 X3 X4]. rewrite Hini in X1.
  destruct X1 as (_ & _ & (Hda & _)).
  assert (Hi : alookup k (index (lru s')) = Some sz) by (apply Hda; eauto).
  split; auto. split.
  - destruct (is_temp k) eqn:Ht; auto.
    destruct (crash_safe c d ths sched n c' Hd Hc) as (_ & Hn & _).
    destruct (Hn k Ht) as (Hf0 & _). fold w in Hf0. fold s' in Hf0. congruence.
  - destruct (X2 _ _ _ Hf) as (i & v & A & B & C). exists v. split; auto.
    unfold visible, ensure_init. rewrite Hini. unfold amem. rewrite Hi, A. auto.
Qed.
