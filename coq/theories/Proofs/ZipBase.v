(* Proofs/ZipBase.v — the tail-recursive helpers of Model/Zip.v are the standard list functions; little-endian
   encode/decode round trips. *)
From Coq Require Import List NArith Bool Lia Arith.
From Sccache Require Import Model.Crc32 Model.Zip.
Import ListNotations.
Local Open Scope N_scope.
#[global] Arguments N.add _ _ : simpl never.
#[global] Arguments N.sub _ _ : simpl never.
#[global] Arguments N.mul _ _ : simpl never.
#[global] Arguments N.div _ _ : simpl never.
#[global] Arguments N.modulo _ _ : simpl never.
#[global] Arguments N.eqb _ _ : simpl never.
#[global] Arguments N.ltb _ _ : simpl never.
#[global] Arguments N.leb _ _ : simpl never.
#[global] Arguments N.min _ _ : simpl never.
#[global] Arguments N.pred _ : simpl never.
#[global] Arguments N.succ _ : simpl never.
#[global] Arguments N.testbit _ _ : simpl never.
#[global] Arguments N.to_nat _ : simpl never.

Lemma lenN_acc l : forall a, fold_left (fun n (_ : N) => N.succ n) l a = a + N.of_nat (length l).
Proof. induction l as [|x l IH]; intro a; simpl; [lia|]. rewrite IH. lia. Qed.

Lemma lenN_length l : lenN l = N.of_nat (length l).
Proof. unfold lenN. rewrite lenN_acc. lia. Qed.

Lemma lenN_nil : lenN [] = 0.
Proof. reflexivity. Qed.

Lemma lenN_cons x l : lenN (x :: l) = 1 + lenN l.
Proof. rewrite !lenN_length. simpl length. lia. Qed.

Lemma lenN_app a b : lenN (a ++ b) = lenN a + lenN b.
Proof. rewrite !lenN_length, app_length. lia. Qed.

Lemma dropN_skipn l : forall n, dropN n l = skipn (N.to_nat n) l.
Proof.
  induction l as [|x l IH]; intro n; simpl.
  - now rewrite skipn_nil.
  - destruct (N.eqb_spec n 0) as [->|Hn]; [reflexivity|].
    rewrite IH. replace (N.to_nat n) with (S (N.to_nat (N.pred n))) by lia. reflexivity.
Qed.

Lemma take_acc_spec l : forall n acc, take_acc n l acc = rev (firstn (N.to_nat n) l) ++ acc.
Proof.
  induction l as [|x l IH]; intros n acc; simpl.
  - now rewrite firstn_nil.
  - destruct (N.eqb_spec n 0) as [->|Hn]; [reflexivity|].
    rewrite IH. replace (N.to_nat n) with (S (N.to_nat (N.pred n))) by lia.
    simpl. now rewrite <- app_assoc.
Qed.

Lemma takeN_firstn n l : takeN n l = firstn (N.to_nat n) l.
Proof. unfold takeN. rewrite rev_append_rev, take_acc_spec, !app_nil_r. apply rev_involutive. Qed.

Lemma cat_acc (cs : list (list N)) : forall acc, fold_left (fun acc c => rev_append c acc) cs acc = rev (concat cs) ++ acc.
Proof.
  induction cs as [|c cs IH]; intro acc; simpl; [reflexivity|].
  rewrite IH, rev_append_rev, rev_app_distr, <- app_assoc. reflexivity.
Qed.

Lemma cat_concat (cs : list (list N)) : cat cs = concat cs.
Proof. unfold cat. rewrite rev_append_rev, cat_acc, !app_nil_r. apply rev_involutive. Qed.

Lemma sumlen_acc (cs : list (list N)) : forall a, fold_left (fun n c => n + lenN c) cs a = a + lenN (concat cs).
Proof.
  induction cs as [|c cs IH]; intro a; simpl; [rewrite lenN_nil; lia|].
  rewrite IH, lenN_app. lia.
Qed.

Lemma sumlen_concat cs : sumlen cs = lenN (concat cs).
Proof. unfold sumlen. rewrite sumlen_acc. lia. Qed.

Lemma beq_eq a : forall b, beq a b = true <-> a = b.
Proof.
  induction a as [|x a IH]; intros [|y b]; simpl; split; intro H; try reflexivity; try discriminate.
  - apply andb_true_iff in H as [H1 H2]. apply N.eqb_eq in H1. apply IH in H2. congruence.
  - inversion H; subst. apply andb_true_iff; split; [apply N.eqb_refl|now apply IH].
Qed.

Lemma beq_refl a : beq a a = true.
Proof. now apply beq_eq. Qed.

Lemma beq_neq a b : a <> b -> beq a b = false.
Proof. intro H. destruct (beq a b) eqn:E; [apply beq_eq in E; contradiction|reflexivity]. Qed.

(* ---- dropN / takeN over ++ *)
Lemma dropN_0 l : dropN 0 l = l.
Proof. destruct l; reflexivity. Qed.

Lemma dropN_app_exact a b : dropN (lenN a) (a ++ b) = b.
Proof.
  rewrite dropN_skipn, lenN_length, Nat2N.id.
  rewrite skipn_app, skipn_all, Nat.sub_diag. reflexivity.
Qed.

Lemma dropN_app_ge a b n : lenN a <= n -> dropN n (a ++ b) = dropN (n - lenN a) b.
Proof.
  intro H. rewrite !dropN_skipn, lenN_length in *.
  rewrite skipn_app, skipn_all2 by lia. simpl. f_equal. lia.
Qed.

Lemma dropN_app_le a b n : n <= lenN a -> dropN n (a ++ b) = dropN n a ++ b.
Proof.
  intro H. rewrite !dropN_skipn, lenN_length in *.
  rewrite skipn_app. replace (N.to_nat n - length a)%nat with 0%nat by lia. reflexivity.
Qed.

Lemma dropN_all l n : lenN l <= n -> dropN n l = [].
Proof. intro H. rewrite dropN_skipn, lenN_length in *. apply skipn_all2. lia. Qed.

Lemma takeN_app_exact a b : takeN (lenN a) (a ++ b) = a.
Proof.
  rewrite takeN_firstn, lenN_length, Nat2N.id.
  rewrite firstn_app, Nat.sub_diag, firstn_all. simpl. apply app_nil_r.
Qed.

Lemma takeN_app_le a b n : n <= lenN a -> takeN n (a ++ b) = takeN n a.
Proof.
  intro H. rewrite !takeN_firstn, lenN_length in *.
  rewrite firstn_app. replace (N.to_nat n - length a)%nat with 0%nat by lia.
  simpl. apply app_nil_r.
Qed.

Lemma lenN_takeN n l : lenN (takeN n l) = N.min n (lenN l).
Proof. rewrite takeN_firstn, !lenN_length, firstn_length. lia. Qed.

Lemma lenN_dropN n l : lenN (dropN n l) = lenN l - n.
Proof. rewrite dropN_skipn, !lenN_length, skipn_length. lia. Qed.

Lemma takeN_dropN n l : takeN n l ++ dropN n l = l.
Proof. rewrite takeN_firstn, dropN_skipn. apply firstn_skipn. Qed.

Lemma split_at_app a b : split_at (lenN a) (a ++ b) = Some (a, b).
Proof.
  unfold split_at. rewrite takeN_app_exact, N.eqb_refl, dropN_app_exact. reflexivity.
Qed.

(* ---- little endian *)
Lemma get16_le16 n r : n < 65536 -> get16 (le16 n ++ r) = Some (n, r).
Proof.
  intro H. unfold le16, get16. simpl. f_equal. f_equal.
  rewrite (N.mod_small (n / 256) 256) by (apply N.div_lt_upper_bound; lia).
  pose proof (N.div_mod n 256 ltac:(discriminate)). lia.
Qed.

Lemma get32_le32 n r : n < 4294967296 -> get32 (le32 n ++ r) = Some (n, r).
Proof.
  intro H. unfold le32, get32. simpl. f_equal. f_equal.
  assert (E3 : (n / 16777216) mod 256 = n / 16777216)
    by (apply N.mod_small; apply N.div_lt_upper_bound; lia).
  rewrite E3.
  pose proof (N.div_mod n 256 ltac:(discriminate)) as D0.
  pose proof (N.div_mod (n / 256) 256 ltac:(discriminate)) as D1.
  pose proof (N.div_mod (n / 65536) 256 ltac:(discriminate)) as D2.
  rewrite N.div_div in D1 by discriminate. change (256 * 256) with 65536 in D1.
  rewrite N.div_div in D2 by discriminate. change (65536 * 256) with 16777216 in D2.
  lia.
Qed.

Lemma lenN_le16 n : lenN (le16 n) = 2.
Proof. reflexivity. Qed.
Lemma lenN_le32 n : lenN (le32 n) = 4.
Proof. reflexivity. Qed.
