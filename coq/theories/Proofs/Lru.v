(* Proofs/Lru.v — invariants and theorems about Model/Lru.v (property C07).

   Layout:
     A  association-list / arithmetic lemmas
     B  specifications of evict / make_space / lru_insert
     C  the accounting invariant [inv] and its preservation by every op
     D  transition shapes: what one op does to index and files
     E  the disk invariants (agreement, mtime bounds, recency order) from the shapes
     F  reopen
     G  recency survives a restart
     H  single-step theorems (get is use, too large refused, never wedges)
     I  run-level statements used by Properties/C07.v *)
From Coq Require Import List NArith Bool Lia ZifyBool Permutation.
From Sccache Require Import Base.Sx Model.Lru.
Import ListNotations.
Local Open Scope N_scope.

#[local] Arguments N.add : simpl never.
#[local] Arguments N.sub : simpl never.
#[local] Arguments N.leb : simpl never.
#[local] Arguments N.ltb : simpl never.
#[local] Arguments N.eqb : simpl never.

(* ====================================================================== *)
(* A. association lists                                                    *)
(* ====================================================================== *)

Lemma bytes_eqb_neq a b : bytes_eqb a b = false <-> a <> b.
Proof. rewrite <- bytes_eqb_eq. destruct (bytes_eqb a b); split; congruence. Qed.

Lemma key_eq_dec (a b : key) : {a = b} + {a <> b}.
Proof. apply (list_eq_dec N.eq_dec). Qed.

Definition keys {V} (l : list (key * V)) : list key := map fst l.

Lemma keys_app {V} (a b : list (key * V)) : keys (a ++ b) = keys a ++ keys b.
Proof. apply map_app. Qed.

Lemma alookup_aremove_eq {V} k (l : list (key * V)) : alookup k (aremove k l) = None.
Proof.
  induction l as [|[k' v] r IH]; simpl; auto.
  destruct (bytes_eqb k k') eqn:E; simpl; auto. rewrite E; auto.
Qed.

Lemma alookup_aremove_neq {V} k k' (l : list (key * V)) :
  k' <> k -> alookup k' (aremove k l) = alookup k' l.
Proof.
  intros Hn. induction l as [|[k2 v] r IH]; simpl; auto.
  destruct (bytes_eqb k k2) eqn:E.
  - apply bytes_eqb_eq in E; subst k2. rewrite IH.
    destruct (bytes_eqb k' k) eqn:E2; auto. apply bytes_eqb_eq in E2; congruence.
  - simpl. rewrite IH; auto.
Qed.

Lemma alookup_ains_eq {V} k (v : V) l : alookup k (ains k v l) = Some v.
Proof.
  induction l as [|[k' v'] r IH]; simpl.
  - rewrite bytes_eqb_refl; auto.
  - destruct (bytes_eqb k k') eqn:E; simpl.
    + rewrite bytes_eqb_refl; auto.
    + destruct (bytes_ltb k k'); simpl.
      * rewrite bytes_eqb_refl; auto.
      * rewrite E; auto.
Qed.

Lemma alookup_ains_neq {V} k k' (v : V) l : k' <> k -> alookup k' (ains k v l) = alookup k' l.
Proof.
  intros Hn. assert (Hf : bytes_eqb k' k = false) by (apply bytes_eqb_neq; auto).
  induction l as [|[k2 v2] r IH]; simpl.
  - rewrite Hf; auto.
  - destruct (bytes_eqb k k2) eqn:E; simpl.
    + apply bytes_eqb_eq in E; subst k2. rewrite Hf; auto.
    + destruct (bytes_ltb k k2); simpl.
      * rewrite Hf; auto.
      * rewrite IH; auto.
Qed.

Lemma alookup_app {V} k (a b : list (key * V)) :
  alookup k (a ++ b) = match alookup k a with Some v => Some v | None => alookup k b end.
Proof.
  induction a as [|[k' v] r IH]; simpl; auto. destruct (bytes_eqb k k'); auto.
Qed.

Lemma alookup_None {V} k (l : list (key * V)) : alookup k l = None <-> ~ In k (keys l).
Proof.
  induction l as [|[k' v] r IH]; simpl.
  - tauto.
  - destruct (bytes_eqb k k') eqn:E.
    + apply bytes_eqb_eq in E; subst. split; [discriminate | intros H; exfalso; apply H; auto].
    + apply bytes_eqb_neq in E. rewrite IH. split; [intros H [H1|H1]; auto | tauto].
Qed.

Lemma alookup_Some_In {V} k (v : V) l : alookup k l = Some v -> In (k, v) l.
Proof.
  induction l as [|[k' v'] r IH]; simpl; [discriminate|].
  destruct (bytes_eqb k k') eqn:E.
  - apply bytes_eqb_eq in E; subst. intros H; inversion H; auto.
  - auto.
Qed.

Lemma alookup_Some_key {V} k (v : V) l : alookup k l = Some v -> In k (keys l).
Proof. intros H. apply alookup_Some_In in H. apply (in_map fst) in H. exact H. Qed.

Lemma In_alookup {V} k (v : V) l : NoDup (keys l) -> In (k, v) l -> alookup k l = Some v.
Proof.
  induction l as [|[k' v'] r IH]; simpl; [tauto|].
  intros Hnd [H|H].
  - inversion H; subst. rewrite bytes_eqb_refl; auto.
  - inversion Hnd; subst. destruct (bytes_eqb k k') eqn:E.
    + apply bytes_eqb_eq in E; subst. exfalso. apply H2. apply (in_map fst) in H. exact H.
    + auto.
Qed.

Lemma In_key_lookup {V} k (l : list (key * V)) : In k (keys l) -> exists v, alookup k l = Some v.
Proof.
  intros H. destruct (alookup k l) eqn:E; eauto. apply alookup_None in E. tauto.
Qed.

Lemma keys_aremove {V} k k' (l : list (key * V)) :
  In k' (keys (aremove k l)) <-> k' <> k /\ In k' (keys l).
Proof.
  induction l as [|[k2 v] r IH]; simpl.
  - tauto.
  - destruct (bytes_eqb k k2) eqn:E.
    + apply bytes_eqb_eq in E; subst k2. rewrite IH. split; [tauto|].
      intros [H1 [H2|H2]]; [congruence | tauto].
    + apply bytes_eqb_neq in E. simpl. rewrite IH. split.
      * intros [H|H]; [subst; split; auto | tauto].
      * tauto.
Qed.

Lemma NoDup_aremove {V} k (l : list (key * V)) : NoDup (keys l) -> NoDup (keys (aremove k l)).
Proof.
  induction l as [|[k2 v] r IH]; simpl; auto.
  intros H; inversion H; subst. destruct (bytes_eqb k k2); auto.
  simpl. constructor; auto. rewrite keys_aremove. tauto.
Qed.

Lemma aremove_notin {V} k (l : list (key * V)) : alookup k l = None -> aremove k l = l.
Proof.
  induction l as [|[k2 v] r IH]; simpl; auto.
  destruct (bytes_eqb k k2); [discriminate|]. intros H. rewrite IH; auto.
Qed.

Lemma aremove_app {V} k (a b : list (key * V)) : aremove k (a ++ b) = aremove k a ++ aremove k b.
Proof.
  induction a as [|[k2 v] r IH]; simpl; auto. destruct (bytes_eqb k k2); simpl; rewrite IH; auto.
Qed.

Lemma aremove_idem {V} k (l : list (key * V)) : aremove k (aremove k l) = aremove k l.
Proof. apply aremove_notin, alookup_aremove_eq. Qed.

Lemma In_aremove {V} k e (l : list (key * V)) : In e (aremove k l) -> In e l.
Proof.
  induction l as [|[k2 v] r IH]; simpl; auto.
  destruct (bytes_eqb k k2); simpl; intuition.
Qed.

Lemma NoDup_app_l {A} (a b : list A) : NoDup (a ++ b) -> NoDup a.
Proof. induction a; simpl; intros H; [constructor|]. inversion H; subst. constructor; auto. rewrite in_app_iff in H2; tauto. Qed.

Lemma NoDup_app_r {A} (a b : list A) : NoDup (a ++ b) -> NoDup b.
Proof. induction a; simpl; auto. intros H; inversion H; auto. Qed.

Lemma NoDup_snoc {A} (l : list A) x : NoDup l -> ~ In x l -> NoDup (l ++ [x]).
Proof.
  induction l; simpl; intros H Hn.
  - constructor; auto.
  - inversion H; subst. constructor; [rewrite in_app_iff; simpl; intuition | apply IHl; tauto].
Qed.

Lemma NoDup_app_disj {A} (a b : list A) x : NoDup (a ++ b) -> In x a -> In x b -> False.
Proof.
  induction a; simpl; [tauto|]. intros H [H1|H1] H2; inversion H; subst.
  - apply H4. rewrite in_app_iff; auto.
  - eauto.
Qed.

(* lookups in a duplicate-free concatenation *)
Lemma alookup_app_r {V} k (a b : list (key * V)) :
  ~ In k (keys a) -> alookup k (a ++ b) = alookup k b.
Proof. intros H. rewrite alookup_app. apply alookup_None in H. rewrite H; auto. Qed.

Lemma alookup_app_None_r {V} k (a b : list (key * V)) :
  NoDup (keys (a ++ b)) -> In k (keys a) -> alookup k b = None.
Proof.
  intros Hnd Hin. apply alookup_None. intros H. rewrite keys_app in Hnd.
  eapply NoDup_app_disj; eauto.
Qed.

Fixpoint sumsz (l : list (key * N)) : N :=
  match l with [] => 0 | (_, sz) :: r => sz + sumsz r end.

Lemma sumsz_app a b : sumsz (a ++ b) = sumsz a + sumsz b.
Proof. induction a as [|[k sz] r IH]; simpl; [lia|]. rewrite IH; lia. Qed.

Lemma sumsz_aremove k sz l :
  NoDup (keys l) -> alookup k l = Some sz -> sumsz l = sz + sumsz (aremove k l).
Proof.
  induction l as [|[k2 v] r IH]; simpl; [discriminate|].
  intros Hnd. inversion Hnd; subst. destruct (bytes_eqb k k2) eqn:E.
  - apply bytes_eqb_eq in E; subst k2. intros H; inversion H; subst.
    rewrite aremove_notin; auto. apply alookup_None; auto.
  - intros H. simpl. rewrite (IH H2 H). lia.
Qed.

Lemma sumsz_lookup_le k sz l : alookup k l = Some sz -> sz <= sumsz l.
Proof.
  induction l as [|[k2 v] r IH]; simpl; [discriminate|].
  destruct (bytes_eqb k k2).
  - intros H; inversion H; subst; lia.
  - intros H. apply IH in H. lia.
Qed.

(* removal of a list of keys from the directory (what the eviction loop does) *)
Definition rmkeys {V} (ks : list key) (fs : list (key * V)) : list (key * V) :=
  fold_left (fun f k => aremove k f) ks fs.

Lemma alookup_rmkeys_in {V} ks : forall (fs : list (key * V)) k, In k ks -> alookup k (rmkeys ks fs) = None.
Proof.
  induction ks as [|k0 r IH]; simpl; [tauto|]. intros fs k [H|H].
  - subst. destruct (in_dec key_eq_dec k r) as [Hi|Hi]; [apply IH; auto|].
    clear IH. revert fs. induction r as [|k1 r IH]; simpl; intros fs.
    + apply alookup_aremove_eq.
    + simpl in Hi. assert (aremove k1 (aremove k fs) = aremove k (aremove k1 fs)) as ->.
      { clear. induction fs as [|[k2 v] fs IH]; simpl; auto.
        destruct (bytes_eqb k k2) eqn:E1, (bytes_eqb k1 k2) eqn:E2; simpl; rewrite ?E1, ?E2, IH; auto. }
      apply IH. tauto.
  - apply IH; auto.
Qed.

Lemma alookup_rmkeys_notin {V} ks : forall (fs : list (key * V)) k, ~ In k ks -> alookup k (rmkeys ks fs) = alookup k fs.
Proof.
  induction ks as [|k0 r IH]; simpl; auto. intros fs k H.
  rewrite IH by tauto. apply alookup_aremove_neq. intros ->; tauto.
Qed.

(* handles *)
Fixpoint sumres (l : list (N * handle)) : N :=
  match l with [] => 0 | (_, h) :: r => h_reserved h + sumres r end.

Lemma hlookup_In {V} h (v : V) l : hlookup h l = Some v -> In (h, v) l.
Proof.
  induction l as [|[h' v'] r IH]; simpl; [discriminate|].
  destruct (h =? h') eqn:E.
  - apply N.eqb_eq in E; subst. intros H; inversion H; auto.
  - auto.
Qed.

Lemma hremove_ids {V} h h' (l : list (N * V)) :
  In h' (map fst (hremove h l)) <-> h' <> h /\ In h' (map fst l).
Proof.
  induction l as [|[h2 v] r IH]; simpl.
  - tauto.
  - destruct (h =? h2) eqn:E.
    + apply N.eqb_eq in E; subst h2. rewrite IH. split; [tauto|]. intros [H1 [H2|H2]]; [congruence|tauto].
    + apply N.eqb_neq in E. simpl. rewrite IH. split.
      * intros [H|H]; [subst; auto | tauto].
      * tauto.
Qed.

Lemma hremove_In {V} h e (l : list (N * V)) : In e (hremove h l) -> In e l.
Proof.
  induction l as [|[h2 v] r IH]; simpl; auto. destruct (h =? h2); simpl; intuition.
Qed.

Lemma NoDup_hremove {V} h (l : list (N * V)) : NoDup (map fst l) -> NoDup (map fst (hremove h l)).
Proof.
  induction l as [|[h2 v] r IH]; simpl; auto.
  intros H; inversion H; subst. destruct (h =? h2); auto.
  simpl. constructor; auto. rewrite hremove_ids. tauto.
Qed.

Lemma hremove_notin {V} h (l : list (N * V)) : ~ In h (map fst l) -> hremove h l = l.
Proof.
  induction l as [|[h2 v] r IH]; simpl; auto. intros H.
  destruct (h =? h2) eqn:E; [apply N.eqb_eq in E; subst; tauto|]. rewrite IH; tauto.
Qed.

Lemma sumres_hremove h hd l :
  NoDup (map fst l) -> hlookup h l = Some hd -> sumres l = h_reserved hd + sumres (hremove h l).
Proof.
  induction l as [|[h2 v] r IH]; simpl; [discriminate|].
  intros Hnd; inversion Hnd; subst. destruct (h =? h2) eqn:E.
  - apply N.eqb_eq in E; subst h2. intros H; inversion H; subst. rewrite hremove_notin; auto.
  - intros H. simpl. rewrite (IH H2 H). lia.
Qed.

Lemma hset_ids {V} h (v : V) (l : list (N * V)) : map fst (hset h v l) = map fst l.
Proof.
  induction l as [|[h2 v2] r IH]; simpl; auto. destruct (h =? h2); simpl; rewrite ?IH; auto.
Qed.

Lemma sumres_hset h hd v l :
  hlookup h l = Some hd -> h_reserved v = h_reserved hd -> sumres (hset h v l) = sumres l.
Proof.
  induction l as [|[h2 v2] r IH]; simpl; [discriminate|].
  destruct (h =? h2).
  - intros H; inversion H; subst. intros Hr. simpl. rewrite Hr. auto.
  - intros H1 H2. simpl. rewrite IH; auto.
Qed.

Lemma hset_In {V} h (v : V) (l : list (N * V)) e : In e (hset h v l) -> In e l \/ snd e = v.
Proof.
  induction l as [|[h2 v2] r IH]; simpl; [tauto|].
  destruct (h =? h2); simpl; intros [H|H]; subst; auto. apply IH in H; tauto.
Qed.

(* ====================================================================== *)
(* B. evict / make_space / lru_insert                                      *)
(* ====================================================================== *)

Lemma lru_trim_noop idx m c : m <= c -> lru_trim idx m c = (idx, m).
Proof. intros H. destruct idx; simpl; destruct (m <=? c) eqn:E; auto; lia. Qed.

Lemma evict_spec : forall idx m fs extra c ok idx' m' fs',
  evict idx m fs extra c = (ok, (idx', m', fs')) ->
  exists pre, idx = pre ++ idx' /\ fs' = rmkeys (keys pre) fs /\
    (m = sumsz idx -> m' = sumsz idx') /\
    (ok = true -> m' + extra <= c) /\
    (m = sumsz idx -> extra <= c -> ok = true).
Proof.
  induction idx as [|[k sz] r IH]; intros m fs extra c ok idx' m' fs' H; simpl in H.
  - destruct (m + extra <=? c) eqn:E; inversion H; subst; exists []; simpl;
      repeat split; auto; try lia; try discriminate.
  - destruct (m + extra <=? c) eqn:E.
    + inversion H; subst. exists []; simpl; repeat split; auto; lia.
    + apply IH in H as (pre & H1 & H2 & H3 & H4 & H5). exists ((k, sz) :: pre). subst. simpl.
      repeat split; auto.
      * intros Hm. apply H3. lia.
      * intros Hm He. apply H5; auto. lia.
Qed.

Lemma evict_noop idx m fs extra c : m + extra <= c -> evict idx m fs extra c = (true, (idx, m, fs)).
Proof. intros H. destruct idx as [|[k sz] r]; simpl; destruct (m + extra <=? c) eqn:E; auto; lia. Qed.

Lemma make_space_spec s n ok s' : make_space s n = (ok, s') ->
  exists pre idx' m',
    s' = set_files (set_lru s idx' m') (rmkeys (keys pre) (files s)) /\
    index s = pre ++ idx' /\
    (measure s = sumsz (index s) -> m' = sumsz idx') /\
    (ok = true -> m' + (pending_size s + n) <= cap s) /\
    (measure s = sumsz (index s) -> pending_size s + n <= cap s -> ok = true) /\
    (measure s = sumsz (index s) -> ok = false -> pre = [] /\ s' = s).
Proof.
  unfold make_space. intros H.
  destruct (negb (n <=? cap s) || negb (pending_size s + n <=? cap s)) eqn:E.
  - inversion H; subst. exists [], (index s'), (measure s'). simpl.
    repeat split; auto; try discriminate; try lia. destruct s'; reflexivity.
  - destruct (evict (index s) (measure s) (files s) (pending_size s + n) (cap s)) as [ok' [[idx m] fs]] eqn:Ev.
    inversion H; subst. apply evict_spec in Ev as (pre & H1 & H2 & H3 & H4 & H5).
    exists pre, idx, m. subst fs.
    assert (Hle : pending_size s + n <= cap s) by lia.
    split; [reflexivity|]. split; [auto|]. split; [auto|]. split; [auto|]. split; [auto|].
    intros Hm Hf. rewrite H5 in Hf; auto; discriminate.
Qed.

Lemma lru_insert_spec s k v :
  measure s = sumsz (index s) -> NoDup (keys (index s)) ->
  sumsz (aremove k (index s)) + v <= cap s ->
  lru_insert s k v = set_lru s (aremove k (index s) ++ [(k, v)]) (sumsz (aremove k (index s)) + v).
Proof.
  intros Hm Hnd Hc. unfold lru_insert.
  set (m2 := match alookup k (index s) with Some old => measure s + v - old | None => measure s + v end).
  assert (Hm2 : m2 = sumsz (aremove k (index s)) + v).
  { unfold m2. destruct (alookup k (index s)) eqn:E.
    - rewrite Hm, (sumsz_aremove k n (index s) Hnd E). lia.
    - rewrite aremove_notin; auto. lia. }
  rewrite lru_trim_noop by lia. rewrite Hm2. reflexivity.
Qed.

(* ====================================================================== *)
(* C. the accounting invariant                                             *)
(* ====================================================================== *)

Definition acct (s : st) : Prop :=
  measure s = sumsz (index s) /\
  measure s + pending_size s <= cap s /\
  NoDup (keys (index s)) /\
  pending_size s = sumres (handles s).

(* handle ids are unique and below the allocation counter *)
Definition hwf (s : st) : Prop :=
  NoDup (map fst (handles s)) /\ (forall h, In h (map fst (handles s)) -> h < next_h s).

Definition inv (s : st) : Prop := acct s /\ hwf s.

Lemma inv_set_files s fs : inv s -> inv (set_files s fs).
Proof. intros H; exact H. Qed.

Lemma inv_tick s : inv s -> inv (tick s).
Proof. intros H; exact H. Qed.

Lemma inv_lru_remove s k : inv s -> inv (lru_remove s k).
Proof.
  intros [(Hm & Hc & Hnd & Hp) Hh]. unfold lru_remove. destruct (alookup k (index s)) eqn:E.
  - split; [|exact Hh]. unfold acct; simpl. pose proof (sumsz_aremove k n (index s) Hnd E).
    repeat split; auto; try lia. apply NoDup_aremove; auto.
  - split; [repeat split|]; auto.
Qed.

Lemma index_lru_remove s k : index (lru_remove s k) = aremove k (index s).
Proof.
  unfold lru_remove. destruct (alookup k (index s)) eqn:E; simpl; auto. rewrite aremove_notin; auto.
Qed.

Lemma inv_make_space s n ok s' : inv s -> make_space s n = (ok, s') ->
  inv s' /\ (ok = true -> measure s' + (pending_size s' + n) <= cap s').
Proof.
  intros [(Hm & Hc & Hnd & Hp) Hh] H.
  apply make_space_spec in H as (pre & idx & m & -> & Hi & Hm' & Hok & _).
  specialize (Hm' Hm). subst m. split; [|simpl; auto].
  split; [|exact Hh]. unfold acct; simpl. rewrite Hi, sumsz_app in Hm.
  repeat split; auto; try lia. rewrite Hi, keys_app in Hnd. eapply NoDup_app_r; eauto.
Qed.

Lemma inv_lru_insert s k v : inv s -> measure s + (pending_size s + v) <= cap s -> inv (lru_insert s k v).
Proof.
  intros [(Hm & Hc & Hnd & Hp) Hh] Hv.
  assert (Hle : sumsz (aremove k (index s)) <= measure s).
  { destruct (alookup k (index s)) eqn:E.
    - rewrite Hm, (sumsz_aremove k n (index s) Hnd E). lia.
    - rewrite aremove_notin; auto. lia. }
  rewrite lru_insert_spec; auto; try lia.
  split; [|exact Hh]. unfold acct; simpl. repeat split; auto; try lia.
  - rewrite sumsz_app. simpl. lia.
  - rewrite keys_app. simpl. apply NoDup_snoc.
    + apply NoDup_aremove; auto.
    + rewrite keys_aremove. tauto.
Qed.

Lemma sumres_app a b : sumres (a ++ b) = sumres a + sumres b.
Proof. induction a as [|[h hd] r IH]; simpl; [lia|]. rewrite IH; lia. Qed.

Lemma inv_insert_by s k d w f s' r t : inv s -> insert_by s k d w f = (s', r, t) -> inv s'.
Proof.
  intros Hi. unfold insert_by.
  destruct (match d with Some d0 => negb (d0 <=? cap s) | None => false end).
  - intros H; inversion H; subst; auto.
  - cbv zeta. pose proof (inv_lru_remove s k Hi) as H1.
    destruct f.
    + intros H; inversion H; subst. apply inv_set_files; auto.
    + destruct (make_space _ _) as [ok s3] eqn:MS.
      apply inv_make_space in MS as [H3 Hb]; [|apply inv_set_files; exact H1].
      destruct ok; intros H; inversion H; subst.
      * apply inv_tick, inv_lru_insert; auto.
      * apply inv_set_files; auto.
Qed.

Lemma inv_prepare_add s k n s' r : inv s -> prepare_add s k n = (s', r) -> inv s'.
Proof.
  intros Hi. unfold prepare_add. destruct (make_space s n) as [ok s1] eqn:MS.
  apply inv_make_space in MS as [[(Hm & Hc & Hnd & Hp) [Hh1 Hh2]] Hb]; auto.
  destruct ok; intros H; inversion H; subst; clear H.
  - specialize (Hb eq_refl). split; [unfold acct|unfold hwf]; simpl.
    + rewrite sumres_app; simpl. repeat split; auto; lia.
    + rewrite map_app; simpl. split.
      * apply NoDup_snoc; auto. intros Hin; apply Hh2 in Hin; lia.
      * intros h; rewrite in_app_iff; simpl; intros [H|[H|[]]]; [apply Hh2 in H; lia | lia].
  - repeat split; auto.
Qed.

Lemma inv_write_tmp s h m s' r : inv s -> write_tmp s h m = (s', r) -> inv s'.
Proof.
  intros [(Hm & Hc & Hnd & Hp) [Hh1 Hh2]]. unfold write_tmp.
  destruct (hlookup h (handles s)) as [hd|] eqn:E; intros H; inversion H; subst; clear H.
  - split; [unfold acct|unfold hwf]; simpl; rewrite ?hset_ids.
    + repeat split; auto. rewrite (sumres_hset h hd); auto.
    + split; auto.
  - repeat split; auto.
Qed.

Lemma inv_release s h hd : inv s -> hlookup h (handles s) = Some hd ->
  inv (release (set_handles s (hremove h (handles s)) (next_h s)) hd).
Proof.
  intros [(Hm & Hc & Hnd & Hp) [Hh1 Hh2]] E. pose proof (sumres_hremove h hd _ Hh1 E) as Hs.
  split; [unfold acct|unfold hwf]; simpl.
  - repeat split; auto; lia.
  - split; [apply NoDup_hremove; auto|]. intros h'; rewrite hremove_ids; intros [_ H]; auto.
Qed.

Lemma inv_commit s h s' r t : inv s -> commit s h = (s', r, t) -> inv s'.
Proof.
  intros Hi. unfold commit. destruct (hlookup h (handles s)) as [hd|] eqn:E.
  - cbv zeta. pose proof (inv_release s h hd Hi E) as H1.
    destruct (make_space _ _) as [ok s2] eqn:MS. apply inv_make_space in MS as [H2 Hb]; auto.
    destruct ok; intros H; inversion H; subst; clear H; auto.
    apply inv_lru_insert; [apply inv_tick, inv_set_files; auto|]. simpl. apply Hb; auto.
  - intros H; inversion H; subst; auto.
Qed.

Lemma inv_abandon s h s' r : inv s -> abandon s h = (s', r) -> inv s'.
Proof.
  intros Hi. unfold abandon. destruct (hlookup h (handles s)) as [hd|] eqn:E;
    intros H; inversion H; subst; auto. apply inv_release; auto.
Qed.

Lemma inv_lru_get s k sz : inv s -> alookup k (index s) = Some sz ->
  inv (set_lru s (aremove k (index s) ++ [(k, sz)]) (measure s)).
Proof.
  intros [(Hm & Hc & Hnd & Hp) Hh] E.
  split; [|exact Hh]. unfold acct; simpl. pose proof (sumsz_aremove k sz _ Hnd E). repeat split; auto.
  - rewrite sumsz_app; simpl; lia.
  - rewrite keys_app; simpl. apply NoDup_snoc; [apply NoDup_aremove; auto | rewrite keys_aremove; tauto].
Qed.

Lemma inv_get s k s' r t : inv s -> get s k = (s', r, t) -> inv s'.
Proof.
  intros Hi. unfold get, lru_get. destruct (alookup k (index s)) as [sz|] eqn:E.
  - pose proof (inv_lru_get s k sz Hi E) as H1.
    match goal with |- context [alookup k (files ?x)] => destruct (alookup k (files x)) as [[fsz mt]|] end;
      intros H; inversion H; subst; auto.
  - intros H; inversion H; subst; auto.
Qed.

Lemma inv_remove s k s' r : inv s -> remove s k = (s', r) -> inv s'.
Proof.
  intros Hi. unfold remove. destruct (alookup k (index s)); [|intros H; inversion H; subst; auto].
  cbv zeta. pose proof (inv_lru_remove s k Hi).
  destruct (alookup k (files (lru_remove s k))); intros H'; inversion H'; subst; auto.
Qed.

Lemma inv_init_add s e : inv s -> inv (init_add s e).
Proof.
  intros Hi. destruct e as [k [sz mt]]. unfold init_add. destruct (is_temp k); [exact Hi|].
  destruct (negb (sz <=? cap s)); [exact Hi|].
  destruct (make_space s sz) as [ok s1] eqn:MS. apply inv_make_space in MS as [H1 Hb]; auto.
  destruct ok; auto. apply inv_lru_insert; auto.
Qed.

Lemma inv_fold_init l : forall s, inv s -> inv (fold_left init_add l s).
Proof. induction l; simpl; auto. intros s H. apply IHl, inv_init_add, H. Qed.

Lemma inv_reopen s c : inv (reopen s c).
Proof.
  unfold reopen. apply inv_fold_init. split; [unfold acct|unfold hwf]; simpl.
  - repeat split; try constructor; lia.
  - split; [constructor|tauto].
Qed.

Lemma step_inv s o : inv s -> inv (fst (step s o)).
Proof.
  intros Hi. destruct o; simpl.
  - destruct (insert_by s k (Some n) n false) as [[s' r] t] eqn:E. simpl. eapply inv_insert_by; eauto.
  - destruct (insert_by s k None n fail) as [[s' r] t] eqn:E. simpl. eapply inv_insert_by; eauto.
  - destruct (insert_by s k (Some n) n false) as [[s' r] t] eqn:E. simpl. eapply inv_insert_by; eauto.
  - destruct (prepare_add s k n) as [s' r] eqn:E. simpl. eapply inv_prepare_add; eauto.
  - destruct (write_tmp s h m) as [s' r] eqn:E. simpl. eapply inv_write_tmp; eauto.
  - destruct (commit s h) as [[s' r] t] eqn:E. simpl. eapply inv_commit; eauto.
  - destruct (abandon s h) as [s' r] eqn:E. simpl. eapply inv_abandon; eauto.
  - destruct (get s k) as [[s' r] t] eqn:E. simpl. eapply inv_get; eauto.
  - destruct (remove s k) as [s' r] eqn:E. simpl. eapply inv_remove; eauto.
  - exact Hi.
  - exact Hi.
  - apply inv_reopen.
Qed.

Lemma run_inv ops : forall s, inv s -> inv (run s ops).
Proof.
  unfold run. induction ops as [|o r IH]; simpl; auto. intros s H. apply IH, step_inv, H.
Qed.

(* ====================================================================== *)
(* D. transition shapes                                                    *)
(* ====================================================================== *)

(* every indexed entry exists on disk with the recorded size, and no other entry file exists *)
Definition dagree (s : st) : Prop :=
  forall k sz, alookup k (index s) = Some sz <-> exists mt, alookup k (files s) = Some (sz, mt).

Definition newpart (k : key) (newi : option N) : list (key * N) :=
  match newi with Some sz => [(k, sz)] | None => [] end.

(* an op on key k: forgets k, evicts the prefix [pre] of what is left (deleting the files),
   optionally re-adds k at the most-recent end; k's file becomes [newf] *)
Record trans_k (s s' : st) (k : key) (pre : list (key * N)) (newi : option N) (newf : option (N * N)) : Prop := {
  tk_idx : exists rest, aremove k (index s) = pre ++ rest /\ index s' = rest ++ newpart k newi;
  tk_fk : alookup k (files s') = newf;
  tk_fo : forall k', k' <> k ->
            (In k' (keys pre) -> alookup k' (files s') = None) /\
            (~ In k' (keys pre) -> alookup k' (files s') = alookup k' (files s));
  tk_clock : clock s <= clock s' <= clock s + 1;
  tk_new : match newf with Some (_, mt) => mt = clock s + 1 /\ clock s' = clock s + 1 | None => True end
}.

Definition cons (s s' : st) (newi : option N) (newf : option (N * N)) : Prop :=
  match newi, newf with
  | Some a, Some (b, mt) => a = b /\ mt = clock s + 1 /\ clock s' = clock s + 1
  | None, None => True
  | _, _ => False
  end.

(* an op that only evicts the prefix [pre] *)
Record trans_ev (s s' : st) (pre : list (key * N)) : Prop := {
  te_idx : index s = pre ++ index s';
  te_f : forall k', (In k' (keys pre) -> alookup k' (files s') = None) /\
                    (~ In k' (keys pre) -> alookup k' (files s') = alookup k' (files s));
  te_clock : clock s' = clock s
}.

Lemma trans_ev_same s s' : index s' = index s -> files s' = files s -> clock s' = clock s -> trans_ev s s' [].
Proof. intros H1 H2 H3. constructor; simpl; auto. rewrite H2. tauto. Qed.

Lemma lru_remove_eq s k : exists m, lru_remove s k = set_lru s (aremove k (index s)) m.
Proof.
  unfold lru_remove. destruct (alookup k (index s)) eqn:E; eauto. exists (measure s).
  rewrite aremove_notin; auto. destruct s; reflexivity.
Qed.

Lemma lru_insert_inv_eq s k v : inv s -> measure s + (pending_size s + v) <= cap s ->
  lru_insert s k v = set_lru s (aremove k (index s) ++ [(k, v)]) (sumsz (aremove k (index s)) + v).
Proof.
  intros [(Hm & Hc & Hnd & Hp) Hh] Hv.
  assert (Hle : sumsz (aremove k (index s)) <= measure s).
  { destruct (alookup k (index s)) eqn:E.
    - rewrite Hm, (sumsz_aremove k n (index s) Hnd E). lia.
    - rewrite aremove_notin; auto. lia. }
  apply lru_insert_spec; auto; lia.
Qed.

Lemma alookup_app_None {V} k (a b : list (key * V)) : alookup k (a ++ b) = None -> alookup k a = None /\ alookup k b = None.
Proof. rewrite alookup_app. destruct (alookup k a); [discriminate|auto]. Qed.

Lemma shape_insert_by s k d w f s' r t :
  inv s -> (d = None \/ d = Some w) -> insert_by s k d w f = (s', r, t) ->
  trans_ev s s' [] \/ exists pre newi newf, trans_k s s' k pre newi newf /\ cons s s' newi newf.
Proof.
  intros Hi Hd. unfold insert_by.
  destruct (match d with Some d0 => negb (d0 <=? cap s) | None => false end).
  { intros H; inversion H; subst. left. apply trans_ev_same; auto. }
  cbv zeta. pose proof (inv_lru_remove s k Hi) as Hi1.
  destruct (lru_remove_eq s k) as [m1 E1]. rewrite E1 in *.
  destruct f.
  { intros H; inversion H; subst; clear H. right. exists [], None, None. split; [|exact I]. constructor; simpl.
    - exists (aremove k (index s)). rewrite app_nil_r; auto.
    - apply alookup_aremove_eq.
    - intros k' Hk. split; [tauto|]. intros _. apply alookup_aremove_neq; auto.
    - lia.
    - exact I. }
  assert (Hsz : match d with Some d0 => d0 | None => w end = w) by (destruct Hd; subst; auto).
  rewrite Hsz.
  destruct (make_space _ w) as [ok s3] eqn:MS.
  pose proof MS as MS2. apply inv_make_space in MS2 as [Hi3 Hb]; [|exact Hi1].
  apply make_space_spec in MS as (pre & idx' & m' & -> & Hidx & Hm' & _ & _ & Hfail). simpl in *.
  destruct ok.
  - rewrite lru_insert_inv_eq by (auto; apply Hb; auto). simpl.
    intros H; inversion H; subst; clear H. right.
    assert (Hk : alookup k (pre ++ idx') = None) by (rewrite <- Hidx; apply alookup_aremove_eq).
    apply alookup_app_None in Hk as [Hk1 Hk2].
    exists pre, (Some w), (Some (w, clock s + 1)). split; [|simpl; auto]. constructor; simpl.
    + exists idx'. split; [exact Hidx | rewrite (aremove_notin k idx') by auto; reflexivity].
    + rewrite alookup_rmkeys_notin by (apply alookup_None; auto). apply alookup_ains_eq.
    + intros k' Hk. split; intros Hin.
      * apply alookup_rmkeys_in; auto.
      * rewrite alookup_rmkeys_notin by auto. apply alookup_ains_neq; auto.
    + lia.
    + simpl; auto.
  - destruct Hi1 as [(Hm1 & _) _]. destruct (Hfail Hm1 eq_refl) as [-> Hs3].
    simpl in *. intros H; inversion H; subst; clear H. right.
    exists [], None, None. split; [|exact I]. constructor; simpl.
    + exists (aremove k (index s)). rewrite app_nil_r. split; auto.
    + apply alookup_aremove_eq.
    + intros k' Hk. split; [tauto|]. intros _. rewrite alookup_aremove_neq by auto. apply alookup_ains_neq; auto.
    + lia.
    + exact I.
Qed.

Lemma shape_make_space s n ok s' : make_space s n = (ok, s') -> exists pre, trans_ev s s' pre.
Proof.
  intros MS. apply make_space_spec in MS as (pre & idx' & m' & -> & Hidx & _).
  exists pre. constructor; simpl; auto. intros k'. split; intros Hin.
  - apply alookup_rmkeys_in; auto.
  - apply alookup_rmkeys_notin; auto.
Qed.

Lemma shape_prepare_add s k n s' r : prepare_add s k n = (s', r) -> exists pre, trans_ev s s' pre.
Proof.
  unfold prepare_add. destruct (make_space s n) as [ok s1] eqn:MS.
  apply shape_make_space in MS as [pre [H1 H2 H3]].
  destruct ok; intros H; inversion H; subst; clear H; exists pre; constructor; simpl; auto.
Qed.

Lemma shape_write_tmp s h m s' r : write_tmp s h m = (s', r) -> trans_ev s s' [].
Proof.
  unfold write_tmp. destruct (hlookup h (handles s)); intros H; inversion H; subst; apply trans_ev_same; auto.
Qed.

Lemma shape_abandon s h s' r : abandon s h = (s', r) -> trans_ev s s' [].
Proof.
  unfold abandon. destruct (hlookup h (handles s)); intros H; inversion H; subst; apply trans_ev_same; auto.
Qed.

Lemma shape_commit s h s' r t : inv s -> commit s h = (s', r, t) ->
  (exists pre, trans_ev s s' pre) \/
  exists hd pre newi newf, hlookup h (handles s) = Some hd /\
    trans_k s s' (h_key hd) pre newi newf /\ cons s s' newi newf.
Proof.
  intros Hi. unfold commit. destruct (hlookup h (handles s)) as [hd|] eqn:E.
  2:{ intros H; inversion H; subst. left. exists []. apply trans_ev_same; auto. }
  cbv zeta. pose proof (inv_release s h hd Hi E) as H1.
  destruct (make_space _ _) as [ok s2] eqn:MS.
  pose proof MS as MS2. apply inv_make_space in MS2 as [H2 Hb]; auto.
  destruct ok.
  2:{ intros H; inversion H; subst; clear H. left.
      apply shape_make_space in MS as [pre [T1 T2 T3]]. exists pre. constructor; auto. }
  apply make_space_spec in MS as (pre & idx' & m' & -> & Hidx & _). simpl in *.
  rewrite lru_insert_inv_eq; [|apply inv_tick, inv_set_files; exact H2 | simpl; apply Hb; auto].
  simpl. intros H; inversion H; subst; clear H. right.
  exists hd, (aremove (h_key hd) pre), (Some (h_written hd)), (Some (h_written hd, clock s + 1)).
  split; auto. split; [|simpl; auto]. constructor; simpl.
  - exists (aremove (h_key hd) idx'). rewrite Hidx, aremove_app. auto.
  - apply alookup_ains_eq.
  - intros k' Hk. rewrite keys_aremove. rewrite alookup_ains_neq by auto. split; intros Hin.
    + apply alookup_rmkeys_in; tauto.
    + apply alookup_rmkeys_notin; tauto.
  - lia.
  - simpl; auto.
Qed.

Lemma shape_get s k s' r t : get s k = (s', r, t) ->
  trans_ev s s' [] \/
  exists newi newf, trans_k s s' k [] newi newf /\ (dagree s -> cons s s' newi newf).
Proof.
  unfold get, lru_get. destruct (alookup k (index s)) as [sz|] eqn:E.
  2:{ intros H; inversion H; subst. left. apply trans_ev_same; auto. }
  simpl. destruct (alookup k (files s)) as [[fsz mt]|] eqn:F; intros H; inversion H; subst; clear H; right.
  - exists (Some sz), (Some (fsz, clock s + 1)). split.
    + constructor; simpl.
      * exists (aremove k (index s)). auto.
      * apply alookup_ains_eq.
      * intros k' Hk. split; [tauto|]. intros _. apply alookup_ains_neq; auto.
      * lia.
      * simpl; auto.
    + intros Hd. apply Hd in E as [mt' E]. rewrite E in F. inversion F; subst. simpl; auto.
  - exists (Some sz), None. split.
    + constructor; simpl.
      * exists (aremove k (index s)). auto.
      * exact F.
      * intros k' Hk. tauto.
      * lia.
      * exact I.
    + intros Hd. apply Hd in E as [mt' E]. rewrite E in F. discriminate.
Qed.

Lemma shape_remove s k s' r : remove s k = (s', r) ->
  trans_ev s s' [] \/ trans_k s s' k [] None None.
Proof.
  unfold remove. destruct (alookup k (index s)) as [sz|] eqn:E.
  2:{ intros H; inversion H; subst. left. apply trans_ev_same; auto. }
  cbv zeta. destruct (lru_remove_eq s k) as [m1 E1]. rewrite E1. simpl.
  destruct (alookup k (files s)) as [[fsz mt]|] eqn:F; intros H; inversion H; subst; clear H; right;
    constructor; simpl.
  - exists (aremove k (index s)). rewrite app_nil_r; auto.
  - apply alookup_aremove_eq.
  - intros k' Hk. split; [tauto|]. intros _. apply alookup_aremove_neq; auto.
  - lia.
  - exact I.
  - exists (aremove k (index s)). rewrite app_nil_r; auto.
  - exact F.
  - intros k' Hk. tauto.
  - lia.
  - exact I.
Qed.

Definition op_key (s : st) (o : op) : option key :=
  match o with
  | InsertBytes k _ | InsertWith k _ _ | InsertFile k _ | Get k | Remove k => Some k
  | Commit h => match hlookup h (handles s) with Some hd => Some (h_key hd) | None => None end
  | _ => None
  end.

Definition plain_op (o : op) : Prop :=
  match o with ExternalDelete _ | Reopen _ => False | _ => True end.

Lemma step_shape s o : inv s -> plain_op o ->
  (exists pre, trans_ev s (fst (step s o)) pre) \/
  (exists k pre newi newf, op_key s o = Some k /\ trans_k s (fst (step s o)) k pre newi newf /\
     (dagree s -> cons s (fst (step s o)) newi newf)).
Proof.
  intros Hi Hp. destruct o; simpl in *; try tauto.
  - destruct (insert_by s k (Some n) n false) as [[s' r] t] eqn:E. simpl.
    apply shape_insert_by in E as [E|(pre & ni & nf & E1 & E2)]; eauto 10.
  - destruct (insert_by s k None n fail) as [[s' r] t] eqn:E. simpl.
    apply shape_insert_by in E as [E|(pre & ni & nf & E1 & E2)]; eauto 10.
  - destruct (insert_by s k (Some n) n false) as [[s' r] t] eqn:E. simpl.
    apply shape_insert_by in E as [E|(pre & ni & nf & E1 & E2)]; eauto 10.
  - destruct (prepare_add s k n) as [s' r] eqn:E. simpl. apply shape_prepare_add in E. auto.
  - destruct (write_tmp s h m) as [s' r] eqn:E. simpl. apply shape_write_tmp in E. eauto.
  - destruct (commit s h) as [[s' r] t] eqn:E. simpl.
    apply shape_commit in E as [E|(hd & pre & ni & nf & E0 & E1 & E2)]; auto.
    right. exists (h_key hd), pre, ni, nf. rewrite E0. auto.
  - destruct (abandon s h) as [s' r] eqn:E. simpl. apply shape_abandon in E. eauto.
  - destruct (get s k) as [[s' r] t] eqn:E. simpl.
    apply shape_get in E as [E|(ni & nf & E1 & E2)]; eauto 10.
  - destruct (remove s k) as [s' r] eqn:E. simpl.
    apply shape_remove in E as [E|E]; eauto. right. exists k, [], None, None. simpl; auto.
  - left. exists []. apply trans_ev_same; auto.
Qed.

(* ====================================================================== *)
(* E. disk invariants from the shapes                                      *)
(* ====================================================================== *)

Definition mtof (fs : list (key * (N * N))) (k : key) : N :=
  match alookup k fs with Some (_, mt) => mt | None => 0 end.

(* strictly ascending *)
Fixpoint ssorted (l : list N) : Prop :=
  match l with [] => True | x :: r => Forall (N.lt x) r /\ ssorted r end.

Lemma ssorted_app a b :
  ssorted (a ++ b) <-> ssorted a /\ ssorted b /\ (forall x y, In x a -> In y b -> x < y).
Proof.
  induction a as [|x a IH]; simpl.
  - intuition.
  - rewrite IH, Forall_app, !Forall_forall. split.
    + intros ((H1 & H2) & H3 & H4 & H5). repeat split; auto. intros x0 y [->|Hx] Hy; auto.
    + intros ((H1 & H2) & H3 & H4). repeat split; auto.
Qed.

Lemma ssorted_keys_aremove (f : key -> N) k (l : list (key * N)) :
  ssorted (map f (keys l)) -> ssorted (map f (keys (aremove k l))).
Proof.
  induction l as [|[k2 v] r IH]; simpl; auto. intros [H1 H2]. destruct (bytes_eqb k k2); simpl; auto.
  split; auto. rewrite Forall_forall in *. intros x Hx. apply H1. rewrite in_map_iff in *.
  destruct Hx as (k' & <- & Hk'). exists k'; split; auto. apply keys_aremove in Hk'. tauto.
Qed.

(* all file mtimes are in the past *)
Definition mt_le (s : st) : Prop :=
  forall k sz mt, alookup k (files s) = Some (sz, mt) -> mt <= clock s.
(* mtimes are distinct *)
Definition mt_inj (s : st) : Prop :=
  forall k1 k2 sz1 sz2 mt, alookup k1 (files s) = Some (sz1, mt) -> alookup k2 (files s) = Some (sz2, mt) -> k1 = k2.
(* index order = strictly ascending mtime order of the entry files *)
Definition ord (s : st) : Prop := ssorted (map (mtof (files s)) (keys (index s))).

Definition disk_ok (s : st) : Prop := dagree s /\ mt_le s /\ mt_inj s /\ ord s.

Lemma tk_index s s' k pre newi newf :
  NoDup (keys (index s)) -> trans_k s s' k pre newi newf ->
  alookup k (index s') = newi /\
  forall k', k' <> k ->
    (In k' (keys pre) -> alookup k' (index s') = None) /\
    (~ In k' (keys pre) -> alookup k' (index s') = alookup k' (index s)).
Proof.
  intros Hnd [(rest & R1 & R2) _ _ _].
  assert (Hnd' : NoDup (keys (pre ++ rest))) by (rewrite <- R1; apply NoDup_aremove; auto).
  assert (Hk : alookup k (pre ++ rest) = None) by (rewrite <- R1; apply alookup_aremove_eq).
  apply alookup_app_None in Hk as [Hk1 Hk2]. rewrite R2. split.
  - rewrite alookup_app, Hk2. destruct newi; simpl; auto. rewrite bytes_eqb_refl; auto.
  - intros k' Hne. assert (Hn : alookup k' (newpart k newi) = None).
    { destruct newi; simpl; auto. destruct (bytes_eqb k' k) eqn:E; auto. apply bytes_eqb_eq in E; tauto. }
    rewrite alookup_app, Hn. split; intros Hin.
    + rewrite (alookup_app_None_r k' pre rest); auto.
    + rewrite <- (alookup_aremove_neq k k' (index s)) by auto. rewrite R1, alookup_app_r by auto.
      destruct (alookup k' rest); auto.
Qed.

Lemma tk_rest_keys s k pre rest :
  NoDup (keys (index s)) -> aremove k (index s) = pre ++ rest ->
  forall k', In k' (keys rest) -> k' <> k /\ ~ In k' (keys pre).
Proof.
  intros Hnd R1 k' Hin.
  assert (Hnd' : NoDup (keys (pre ++ rest))) by (rewrite <- R1; apply NoDup_aremove; auto).
  assert (Hk : alookup k (pre ++ rest) = None) by (rewrite <- R1; apply alookup_aremove_eq).
  apply alookup_app_None in Hk as [Hk1 Hk2]. split.
  - intros ->. apply alookup_None in Hk2. tauto.
  - intros Hp. rewrite keys_app in Hnd'. eapply NoDup_app_disj; eauto.
Qed.

Lemma mtof_le s k : mt_le s -> mtof (files s) k <= clock s.
Proof. intros H. unfold mtof. destruct (alookup k (files s)) as [[sz mt]|] eqn:E; [eapply H; eauto | lia]. Qed.

Lemma disk_ok_trans_k s s' k pre newi newf :
  NoDup (keys (index s)) -> disk_ok s -> trans_k s s' k pre newi newf -> cons s s' newi newf -> disk_ok s'.
Proof.
  intros Hnd (Hd & Hle & Hinj & Ho) T Hc.
  destruct (tk_index _ _ _ _ _ _ Hnd T) as [Ik Io]. destruct T as [(rest & R1 & R2) Fk Fo Ck].
  assert (Fold : forall k0 v, k0 <> k -> alookup k0 (files s') = Some v -> alookup k0 (files s) = Some v).
  { intros k0 v Hne H. destruct (in_dec key_eq_dec k0 (keys pre)) as [Hin|Hin].
    - rewrite (proj1 (Fo k0 Hne) Hin) in H; discriminate.
    - rewrite (proj2 (Fo k0 Hne) Hin) in H; auto. }
  assert (Fnew : forall sz mt, alookup k (files s') = Some (sz, mt) -> mt = clock s + 1 /\ clock s' = clock s + 1).
  { intros sz mt H. rewrite Fk in H. rewrite H in Hc. destruct newi; cbv beta iota delta [cons] in Hc; tauto. }
  split; [|split; [|split]].
  - intros k0 sz0. destruct (key_eq_dec k0 k) as [->|Hne].
    + rewrite Ik, Fk. destruct newi as [a|], newf as [[b mt]|]; cbv beta iota delta [cons] in Hc; try tauto.
      * destruct Hc as (-> & -> & _). split; [intros H; inversion H; subst; eauto | intros [mt H]; inversion H; auto].
      * split; [discriminate | intros [mt H]; discriminate].
    + destruct (in_dec key_eq_dec k0 (keys pre)) as [Hin|Hin].
      * rewrite (proj1 (Io k0 Hne) Hin), (proj1 (Fo k0 Hne) Hin). split; [discriminate | intros [mt H]; discriminate].
      * rewrite (proj2 (Io k0 Hne) Hin), (proj2 (Fo k0 Hne) Hin). apply Hd.
  - intros k0 sz0 mt0 H. destruct (key_eq_dec k0 k) as [->|Hne].
    + apply Fnew in H. lia.
    + apply Fold in H; auto. apply Hle in H. lia.
  - intros k1 k2 sz1 sz2 mt H1 H2.
    destruct (key_eq_dec k1 k) as [->|Hn1], (key_eq_dec k2 k) as [->|Hn2]; auto.
    + apply Fnew in H1. apply Fold in H2; auto. apply Hle in H2. lia.
    + apply Fnew in H2. apply Fold in H1; auto. apply Hle in H1. lia.
    + apply Fold in H1, H2; auto. eapply Hinj; eauto.
  - unfold ord. rewrite R2, keys_app, map_app.
    assert (Hext : map (mtof (files s')) (keys rest) = map (mtof (files s)) (keys rest)).
    { apply map_ext_in. intros k0 Hin. destruct (tk_rest_keys s k pre rest Hnd R1 k0 Hin) as [Hne Hnp].
      unfold mtof. rewrite (proj2 (Fo k0 Hne) Hnp). auto. }
    rewrite Hext. apply ssorted_app. split; [|split].
    + unfold ord in Ho. apply (ssorted_keys_aremove _ k) in Ho. rewrite R1, keys_app, map_app in Ho.
      apply ssorted_app in Ho. tauto.
    + destruct newi; simpl; auto.
    + intros x y Hx Hy. destruct newi as [a|]; simpl in Hy; [|tauto]. destruct Hy as [<-|[]].
      destruct newf as [[b mt]|]; cbv beta iota delta [cons] in Hc; [|tauto]. destruct Hc as (_ & -> & _).
      unfold mtof at 1. rewrite Fk. apply in_map_iff in Hx as (k0 & <- & _).
      pose proof (mtof_le s k0 Hle). lia.
Qed.

Lemma disk_ok_trans_ev s s' pre :
  NoDup (keys (index s)) -> disk_ok s -> trans_ev s s' pre -> disk_ok s'.
Proof.
  intros Hnd (Hd & Hle & Hinj & Ho) [R Fo Ck]. rewrite R in Hnd.
  assert (Fold : forall k0 v, alookup k0 (files s') = Some v -> alookup k0 (files s) = Some v).
  { intros k0 v H. destruct (in_dec key_eq_dec k0 (keys pre)) as [Hin|Hin].
    - rewrite (proj1 (Fo k0) Hin) in H; discriminate.
    - rewrite (proj2 (Fo k0) Hin) in H; auto. }
  split; [|split; [|split]].
  - intros k0 sz0. destruct (in_dec key_eq_dec k0 (keys pre)) as [Hin|Hin].
    + pose proof (alookup_app_None_r k0 pre (index s') Hnd Hin) as E1.
      pose proof (proj1 (Fo k0) Hin) as E2. rewrite E1, E2.
      split; [discriminate | intros [mt H]; discriminate].
    + rewrite (proj2 (Fo k0) Hin). etransitivity; [|apply Hd]. rewrite R, alookup_app_r by auto. tauto.
  - intros k0 sz0 mt0 H. apply Fold, Hle in H. lia.
  - intros k1 k2 sz1 sz2 mt H1 H2. apply Fold in H1, H2. eapply Hinj; eauto.
  - unfold ord in *. rewrite R, keys_app, map_app in Ho. apply ssorted_app in Ho as (_ & Ho & _).
    erewrite map_ext_in; [exact Ho|]. intros k0 Hin. unfold mtof. rewrite (proj2 (Fo k0)); auto.
    intros Hp. rewrite keys_app in Hnd. eapply NoDup_app_disj; eauto.
Qed.

Lemma step_disk_ok s o : inv s -> disk_ok s -> plain_op o -> disk_ok (fst (step s o)).
Proof.
  intros Hi Hd Hp. pose proof Hi as [(_ & _ & Hnd & _) _].
  destruct (step_shape s o Hi Hp) as [[pre T]|(k & pre & ni & nf & _ & T & Hc)].
  - eapply disk_ok_trans_ev; eauto.
  - eapply disk_ok_trans_k; eauto. apply Hc, Hd.
Qed.

(* ---------- the directory listing stays strictly sorted by key ---------- *)

Fixpoint ksorted {V} (l : list (key * V)) : Prop :=
  match l with
  | [] => True
  | (k, _) :: r => (forall k', In k' (keys r) -> bytes_ltb k k' = true) /\ ksorted r
  end.

Lemma bytes_ltb_irrefl a : bytes_ltb a a = false.
Proof. induction a; simpl; auto. rewrite N.ltb_irrefl. auto. Qed.

Lemma bytes_ltb_trans : forall a b c,
  bytes_ltb a b = true -> bytes_ltb b c = true -> bytes_ltb a c = true.
Proof.
  induction a as [|x a IH]; intros [|y b] [|z c]; simpl; auto; try discriminate.
  destruct (x <? y) eqn:E1, (y <? x) eqn:E2, (y <? z) eqn:E3, (z <? y) eqn:E4,
           (x <? z) eqn:E5, (z <? x) eqn:E6; intros H1 H2; auto; try discriminate; try lia.
  eapply IH; eauto.
Qed.

Lemma bytes_ltb_total : forall a b,
  bytes_eqb a b = false -> bytes_ltb a b = false -> bytes_ltb b a = true.
Proof.
  induction a as [|x a IH]; intros [|y b]; simpl; auto; try discriminate.
  destruct (x <? y) eqn:E1, (y <? x) eqn:E2; intros H1 H2; auto; try discriminate.
  assert (E : (x =? y) = true) by lia. rewrite E in H1. simpl in H1. auto.
Qed.

Lemma ksorted_NoDup {V} (l : list (key * V)) : ksorted l -> NoDup (keys l).
Proof.
  induction l as [|[k v] r IH]; simpl; [constructor|]. intros [H1 H2]. constructor; auto.
  intros Hin. apply H1 in Hin. rewrite bytes_ltb_irrefl in Hin. discriminate.
Qed.

Lemma ksorted_aremove {V} k (l : list (key * V)) : ksorted l -> ksorted (aremove k l).
Proof.
  induction l as [|[k2 v] r IH]; simpl; auto. intros [H1 H2]. destruct (bytes_eqb k k2); simpl; auto.
  split; auto. intros k' Hin. apply keys_aremove in Hin. apply H1; tauto.
Qed.

Lemma ksorted_rmkeys {V} ks : forall (l : list (key * V)), ksorted l -> ksorted (rmkeys ks l).
Proof. induction ks; simpl; auto. intros l H. apply IHks, ksorted_aremove, H. Qed.

Lemma keys_ains_sub {V} k (v : V) l k' : In k' (keys (ains k v l)) -> k' = k \/ In k' (keys l).
Proof.
  induction l as [|[k2 v2] r IH]; simpl.
  - intuition.
  - destruct (bytes_eqb k k2); [simpl; intuition|]. destruct (bytes_ltb k k2); simpl; [intuition|].
    intros [H|H]; auto. apply IH in H. tauto.
Qed.

Lemma ksorted_ains {V} k (v : V) l : ksorted l -> ksorted (ains k v l).
Proof.
  induction l as [|[k2 v2] r IH]; simpl.
  - intros _. split; [intros ? []|auto].
  - intros [H1 H2]. destruct (bytes_eqb k k2) eqn:E.
    + apply bytes_eqb_eq in E; subst. simpl. auto.
    + destruct (bytes_ltb k k2) eqn:L.
      * simpl. split; [|auto]. intros k' [<-|Hin]; auto. eapply bytes_ltb_trans; eauto.
      * simpl. split; [|auto]. intros k' Hin. apply keys_ains_sub in Hin as [->|Hin]; auto.
        apply bytes_ltb_total; auto.
Qed.

Lemma files_lru_remove s k : files (lru_remove s k) = files s.
Proof. unfold lru_remove. destruct (alookup k (index s)); auto. Qed.

Lemma files_lru_insert s k v : files (lru_insert s k v) = files s.
Proof. unfold lru_insert. destruct (lru_trim _ _ _); auto. Qed.

Lemma ks_make_space s n ok s' : ksorted (files s) -> make_space s n = (ok, s') -> ksorted (files s').
Proof.
  intros H MS. apply make_space_spec in MS as (pre & idx' & m' & -> & _). simpl. apply ksorted_rmkeys, H.
Qed.

Lemma ks_insert_by s k d w f s' r t : ksorted (files s) -> insert_by s k d w f = (s', r, t) -> ksorted (files s').
Proof.
  intros Hk. unfold insert_by.
  destruct (match d with Some d0 => negb (d0 <=? cap s) | None => false end).
  { intros H; inversion H; subst; auto. }
  cbv zeta. destruct f.
  { intros H; inversion H; subst. simpl. rewrite files_lru_remove. apply ksorted_aremove, Hk. }
  destruct (make_space _ _) as [ok s3] eqn:MS. apply ks_make_space in MS.
  2:{ simpl. rewrite files_lru_remove. apply ksorted_ains, Hk. }
  destruct ok; intros H; inversion H; subst; simpl.
  - rewrite files_lru_insert. auto.
  - apply ksorted_aremove; auto.
Qed.

Lemma ks_step s o : ksorted (files s) -> ksorted (files (fst (step s o))).
Proof.
  intros Hk. destruct o; simpl; auto.
  - destruct (insert_by s k (Some n) n false) as [[s' r] t] eqn:E. simpl. eapply ks_insert_by; eauto.
  - destruct (insert_by s k None n fail) as [[s' r] t] eqn:E. simpl. eapply ks_insert_by; eauto.
  - destruct (insert_by s k (Some n) n false) as [[s' r] t] eqn:E. simpl. eapply ks_insert_by; eauto.
  - unfold prepare_add. destruct (make_space s n) as [ok s1] eqn:MS. apply ks_make_space in MS; auto.
    destruct ok; simpl; auto.
  - unfold write_tmp. destruct (hlookup h (handles s)); simpl; auto.
  - unfold commit. destruct (hlookup h (handles s)) as [hd|]; simpl; auto.
    destruct (make_space _ _) as [ok s2] eqn:MS. apply ks_make_space in MS; auto.
    destruct ok; simpl; auto. rewrite files_lru_insert. simpl. apply ksorted_ains; auto.
  - unfold abandon. destruct (hlookup h (handles s)); simpl; auto.
  - unfold get, lru_get. destruct (alookup k (index s)); simpl; auto.
    destruct (alookup k (files s)) as [[fsz mt]|]; simpl; auto. apply ksorted_ains; auto.
  - unfold remove. destruct (alookup k (index s)); simpl; auto. rewrite files_lru_remove.
    destruct (alookup k (files s)); simpl; rewrite ?files_lru_remove; auto. apply ksorted_aremove; auto.
  - apply ksorted_aremove; auto.
  - unfold reopen.
    assert (G : forall l s0, ksorted (files s0) -> ksorted (files (fold_left init_add l s0))).
    { induction l as [|[k [sz mt]] l IH]; simpl; auto. intros s0 H0. apply IH.
      unfold init_add. destruct (is_temp k); [apply ksorted_aremove; auto|].
      destruct (negb (sz <=? cap s0)); [apply ksorted_aremove; auto|].
      destruct (make_space s0 sz) as [ok s1] eqn:MS. apply ks_make_space in MS; auto.
      destruct ok; auto. rewrite files_lru_insert; auto. }
    apply G. simpl. auto.
Qed.

(* the full state invariant *)
Definition good (s : st) : Prop := inv s /\ ksorted (files s) /\ disk_ok s.

(* ====================================================================== *)
(* F. reopen                                                               *)
(* ====================================================================== *)

Definition proj (e : key * (N * N)) : key * N := (fst e, fst (snd e)).
Definition emt (e : key * (N * N)) : N := snd (snd e).
Definition keep (c : N) (e : key * (N * N)) : bool := negb (is_temp (fst e)) && (fst (snd e) <=? c).
Definition nkeep (c : N) (e : key * (N * N)) : bool := negb (keep c e).

Lemma keys_proj l : keys (map proj l) = keys l.
Proof. unfold keys. rewrite map_map. reflexivity. Qed.

Definition removed (c : N) (preF done : list (key * (N * N))) (k : key) : Prop :=
  In k (keys preF) \/ In k (keys (filter (nkeep c) done)).

(* state of init after the entries [done] of the mtime-sorted listing have been walked *)
Definition J (c : N) (fs0 done : list (key * (N * N))) (s : st) : Prop :=
  cap s = c /\ pending_size s = 0 /\ inv s /\
  exists preF F', filter (keep c) done = preF ++ F' /\ index s = map proj F' /\
    forall k, (removed c preF done k -> alookup k (files s) = None) /\
              (~ removed c preF done k -> alookup k (files s) = alookup k fs0).

Lemma In_keys_inv {V} k (l : list (key * V)) : In k (keys l) -> exists v, In (k, v) l.
Proof. unfold keys. rewrite in_map_iff. intros [[k' v] [<- H]]. eauto. Qed.

Lemma In_keys {V} k (v : V) l : In (k, v) l -> In k (keys l).
Proof. intros H. apply (in_map fst) in H. exact H. Qed.

Lemma J_step c fs0 done e s :
  J c fs0 done s -> ~ In (fst e) (keys done) -> J c fs0 (done ++ [e]) (init_add s e).
Proof.
  intros (Hc & Hp & Hi & preF & F' & HF & HI & Hf) Hnew. destruct e as [k [sz mt]]. simpl in Hnew.
  unfold init_add.
  assert (Hdrop : forall s', cap s' = cap s -> pending_size s' = pending_size s -> inv s' ->
            index s' = index s -> files s' = aremove k (files s) ->
            negb (is_temp k) && (sz <=? c) = false -> J c fs0 (done ++ [(k, (sz, mt))]) s').
  { intros s' E1 E2 E3 E4 E5 Hk. split; [congruence|]. split; [congruence|]. split; [auto|].
    exists preF, F'. rewrite filter_app. simpl. unfold keep at 2. simpl. rewrite Hk, app_nil_r.
    split; auto. split; [congruence|]. intros k0. rewrite E5. unfold removed.
    rewrite filter_app. simpl. unfold nkeep at 2 4, keep. simpl. rewrite Hk. simpl.
    rewrite keys_app, in_app_iff. simpl.
    destruct (key_eq_dec k0 k) as [->|Hne].
    - split; [intros _; apply alookup_aremove_eq | intros H; exfalso; apply H; auto].
    - rewrite alookup_aremove_neq by auto. destruct (Hf k0) as [Hf1 Hf2]. unfold removed in *. split; intros H.
      + apply Hf1. intuition congruence.
      + apply Hf2. intuition. }
  destruct (is_temp k) eqn:Et.
  { apply Hdrop; auto. }
  destruct (negb (sz <=? cap s)) eqn:Es.
  { apply Hdrop; auto. simpl. rewrite <- Hc. destruct (sz <=? cap s); auto; discriminate. }
  assert (Hk : negb (is_temp k) && (sz <=? c) = true).
  { rewrite Et. simpl. rewrite <- Hc. destruct (sz <=? cap s); auto. }
  destruct (make_space s sz) as [ok s1] eqn:MS.
  pose proof MS as MS2. apply inv_make_space in MS2 as [Hi1 Hb]; auto.
  apply make_space_spec in MS as (pre & idx' & m' & -> & Hidx & _ & _ & Hok & _).
  assert (ok = true) as ->. { apply Hok; [apply Hi|]. rewrite Hp. lia. }
  pose proof (inv_lru_insert _ k sz Hi1 (Hb eq_refl)) as Hi2.
  rewrite lru_insert_inv_eq in * by (auto; apply Hb; auto). simpl in *.
  rewrite HI in Hidx. apply map_eq_app in Hidx as (F1 & F2 & -> & <- & <-).
  assert (Hnk : alookup k (map proj F2) = None).
  { apply alookup_None. rewrite keys_proj. intros Hin. apply Hnew.
    apply In_keys_inv in Hin as [v Hin]. apply (In_keys k v).
    assert (Hin2 : In (k, v) (filter (keep c) done)) by (rewrite HF, !in_app_iff; auto).
    apply filter_In in Hin2. tauto. }
  rewrite aremove_notin in * by auto.
  split; [auto|]. split; [auto|]. split; [exact Hi2|].
  exists (preF ++ F1), (F2 ++ [(k, (sz, mt))]). split; [|split].
  - rewrite filter_app. simpl. unfold keep at 2. simpl. rewrite Hk, HF, <- !app_assoc. reflexivity.
  - rewrite map_app. reflexivity.
  - intros k0. unfold removed. rewrite filter_app. simpl. unfold nkeep at 2 4, keep. simpl. rewrite Hk. simpl.
    rewrite app_nil_r, keys_app, in_app_iff, keys_proj.
    destruct (Hf k0) as [Hf1 Hf2]. unfold removed in *.
    destruct (in_dec key_eq_dec k0 (keys F1)) as [Hin|Hin].
    + rewrite alookup_rmkeys_in by auto. split; auto. intros H; exfalso; apply H; auto.
    + rewrite alookup_rmkeys_notin by auto. split; intros H.
      * apply Hf1. tauto.
      * apply Hf2. tauto.
Qed.

Lemma J_fold c fs0 : forall todo done s,
  J c fs0 done s -> NoDup (keys (done ++ todo)) -> J c fs0 (done ++ todo) (fold_left init_add todo s).
Proof.
  induction todo as [|e todo IH]; intros done s HJ Hnd; simpl.
  - rewrite app_nil_r; auto.
  - replace (done ++ e :: todo) with ((done ++ [e]) ++ todo) in * by (rewrite <- app_assoc; auto).
    apply IH; auto. apply J_step; auto.
    rewrite <- app_assoc, keys_app in Hnd. simpl in Hnd. apply NoDup_remove_2 in Hnd.
    rewrite in_app_iff in Hnd. tauto.
Qed.

Lemma ins_mtime_perm e l : Permutation (ins_mtime e l) (e :: l).
Proof.
  induction l as [|e' r IH]; simpl; auto. destruct (snd (snd e) <? snd (snd e')); auto.
  eapply perm_trans; [apply perm_skip, IH | apply perm_swap].
Qed.

Lemma sort_mtime_perm l : Permutation (sort_mtime l) l.
Proof.
  induction l; simpl; auto. eapply perm_trans; [apply ins_mtime_perm | apply perm_skip, IHl].
Qed.

Lemma ins_mtime_ssorted e l :
  ssorted (map emt l) -> ~ In (emt e) (map emt l) -> ssorted (map emt (ins_mtime e l)).
Proof.
  induction l as [|e' r IH]; simpl; intros Hs Hn.
  - auto.
  - destruct Hs as [H1 H2]. change (snd (snd e)) with (emt e). change (snd (snd e')) with (emt e').
    destruct (emt e <? emt e') eqn:E; simpl.
    + split; [|split; auto]. constructor; [lia|]. rewrite Forall_forall in *. intros x Hx. apply H1 in Hx. lia.
    + assert (emt e' < emt e) by (assert (emt e' <> emt e) by tauto; lia).
      split; [|apply IH; tauto].
      rewrite Forall_forall in *. intros x Hx. apply in_map_iff in Hx as (y & <- & Hy).
      apply (Permutation_in _ (ins_mtime_perm e r)) in Hy as [<-|Hy]; auto. apply H1, in_map; auto.
Qed.

Lemma sort_mtime_ssorted l : NoDup (map emt l) -> ssorted (map emt (sort_mtime l)).
Proof.
  induction l as [|e l IH]; simpl; auto. intros H; inversion H; subst.
  apply ins_mtime_ssorted; auto. intros Hin. apply H2.
  eapply Permutation_in; [apply Permutation_map, sort_mtime_perm | exact Hin].
Qed.

Lemma NoDup_map_transfer {A B C} (f : A -> B) (g : A -> C) l :
  NoDup (map g l) -> (forall x y, In x l -> In y l -> f x = f y -> g x = g y) -> NoDup (map f l).
Proof.
  induction l as [|a l IH]; simpl; [constructor|]. intros H Hfg; inversion H; subst. constructor.
  - intros Hin. apply in_map_iff in Hin as (y & Hy1 & Hy2). apply H2.
    rewrite <- (Hfg y a); auto. apply in_map; auto.
  - apply IH; auto.
Qed.

Lemma NoDup_map_filter {A B} (f : A -> B) p l : NoDup (map f l) -> NoDup (map f (filter p l)).
Proof.
  induction l as [|a l IH]; simpl; auto. intros H; inversion H; subst. destruct (p a); simpl; auto.
  constructor; auto. intros Hin. apply H2. apply in_map_iff in Hin as (y & Hy1 & Hy2).
  apply filter_In in Hy2 as [Hy2 _]. rewrite <- Hy1. apply in_map; auto.
Qed.

Lemma ssorted_map_filter {A} (f : A -> N) p l : ssorted (map f l) -> ssorted (map f (filter p l)).
Proof.
  induction l as [|a l IH]; simpl; auto. intros [H1 H2]. destruct (p a); simpl; auto. split; auto.
  rewrite Forall_forall in *. intros x Hx. apply H1. apply in_map_iff in Hx as (y & <- & Hy).
  apply filter_In in Hy as [Hy _]. apply in_map; auto.
Qed.

Lemma clock_init_add s e : clock (init_add s e) = clock s.
Proof.
  destruct e as [k [sz mt]]. unfold init_add. destruct (is_temp k); auto. destruct (negb (sz <=? cap s)); auto.
  destruct (make_space s sz) as [ok s1] eqn:MS. apply make_space_spec in MS as (pre & idx' & m' & -> & _).
  destruct ok; auto. unfold lru_insert. destruct (lru_trim _ _ _); auto.
Qed.

Lemma clock_reopen s c : clock (reopen s c) = clock s.
Proof.
  unfold reopen.
  assert (G : forall l s0, clock (fold_left init_add l s0) = clock s0).
  { induction l; simpl; auto. intros s0. rewrite IHl. apply clock_init_add. }
  rewrite G. reflexivity.
Qed.

(* what a directory must satisfy: a canonical listing, distinct mtimes, none in the future *)
Definition dir_ok (s : st) : Prop := ksorted (files s) /\ mt_le s /\ mt_inj s.

Lemma reopen_J s c : ksorted (files s) -> J c (files s) (sort_mtime (files s)) (reopen s c).
Proof.
  intros Hks. unfold reopen. apply (J_fold c (files s) (sort_mtime (files s)) []).
  - split; [reflexivity|]. split; [reflexivity|]. split.
    + split; [unfold acct|unfold hwf]; simpl.
      * repeat split; try constructor; lia.
      * split; [constructor|tauto].
    + exists [], []. simpl. split; auto. split; auto. intros k. unfold removed. simpl. tauto.
  - simpl. eapply Permutation_NoDup; [apply Permutation_map, Permutation_sym, sort_mtime_perm|].
    apply ksorted_NoDup; auto.
Qed.

Lemma reopen_disk_ok s c : dir_ok s -> disk_ok (reopen s c).
Proof.
  intros (Hks & Hle & Hinj).
  pose proof (sort_mtime_perm (files s)) as P. set (L := sort_mtime (files s)) in *.
  pose proof (ksorted_NoDup _ Hks) as NDf.
  assert (NDL : NoDup (keys L)).
  { eapply Permutation_NoDup; [apply Permutation_map, Permutation_sym, P | exact NDf]. }
  assert (LK : forall k v, alookup k (files s) = Some v <-> In (k, v) L).
  { intros k v. split; intros H.
    - apply alookup_Some_In in H. eapply Permutation_in; [apply Permutation_sym, P | exact H].
    - apply In_alookup; auto. eapply Permutation_in; [apply P | exact H]. }
  assert (SL : ssorted (map emt L)).
  { apply sort_mtime_ssorted. apply (NoDup_map_transfer emt fst); [exact NDf|].
    intros [k1 [sz1 mt1]] [k2 [sz2 mt2]] H1 H2 E. unfold emt in E. simpl in *. subst mt2.
    apply In_alookup in H1, H2; auto. eapply Hinj; eauto. }
  destruct (reopen_J s c Hks) as (Hc & Hp & Hi & preF & F' & HF & HI & Hf). fold L in HF, Hf.
  set (s' := reopen s c) in *.
  assert (NDk : NoDup (keys (preF ++ F'))) by (rewrite <- HF; apply NoDup_map_filter; auto).
  assert (A : forall k sz mt, In (k, (sz, mt)) F' -> alookup k (files s') = Some (sz, mt)).
  { intros k sz mt Hin.
    assert (Hin2 : In (k, (sz, mt)) (filter (keep c) L)) by (rewrite HF, in_app_iff; auto).
    apply filter_In in Hin2 as [Hin2 Hkeep]. rewrite (proj2 (Hf k)); [apply LK; auto|].
    intros [Hr|Hr].
    - rewrite keys_app in NDk. eapply NoDup_app_disj; eauto. eapply In_keys; eauto.
    - apply In_keys_inv in Hr as [v Hr]. apply filter_In in Hr as [Hr Hnk].
      assert (v = (sz, mt)).
      { apply In_alookup in Hr, Hin2; auto. congruence. }
      subst v. unfold nkeep in Hnk. rewrite Hkeep in Hnk. discriminate. }
  assert (B : forall k sz mt, alookup k (files s') = Some (sz, mt) -> In (k, (sz, mt)) F').
  { intros k sz mt H.
    destruct (in_dec key_eq_dec k (keys preF)) as [H1|H1].
    { rewrite (proj1 (Hf k)) in H; [discriminate | left; auto]. }
    destruct (in_dec key_eq_dec k (keys (filter (nkeep c) L))) as [H2|H2].
    { rewrite (proj1 (Hf k)) in H; [discriminate | right; auto]. }
    rewrite (proj2 (Hf k)) in H by (unfold removed; tauto). apply LK in H.
    destruct (keep c (k, (sz, mt))) eqn:Ek.
    - assert (Hin : In (k, (sz, mt)) (filter (keep c) L)) by (apply filter_In; auto).
      rewrite HF, in_app_iff in Hin. destruct Hin as [Hin|Hin]; auto.
      exfalso. apply H1. eapply In_keys; eauto.
    - exfalso. apply H2. apply (In_keys k (sz, mt)). apply filter_In. split; auto.
      unfold nkeep. rewrite Ek. auto. }
  assert (BL : forall k sz mt, alookup k (files s') = Some (sz, mt) -> alookup k (files s) = Some (sz, mt)).
  { intros k sz mt H. apply B in H. apply LK.
    assert (Hin : In (k, (sz, mt)) (filter (keep c) L)) by (rewrite HF, in_app_iff; auto).
    apply filter_In in Hin. tauto. }
  split; [|split; [|split]].
  - intros k sz. split.
    + intros H. apply alookup_Some_In in H. rewrite HI in H. apply in_map_iff in H as ([k' [sz' mt]] & E & Hin).
      unfold proj in E. simpl in E. injection E as -> ->. exists mt. apply A; auto.
    + intros [mt H]. apply B in H. apply In_alookup; [apply Hi|]. rewrite HI.
      apply (in_map proj) in H. exact H.
  - intros k sz mt H. apply BL, Hle in H. pose proof (clock_reopen s c) as Ec. fold s' in Ec. rewrite Ec. auto.
  - intros k1 k2 sz1 sz2 mt H1 H2. apply BL in H1, H2. eapply Hinj; eauto.
  - unfold ord. rewrite HI, keys_proj. unfold keys. rewrite map_map.
    assert (E : map (fun x => mtof (files s') (fst x)) F' = map emt F').
    { apply map_ext_in. intros [k [sz mt]] Hin. simpl. unfold mtof. rewrite (A k sz mt Hin). reflexivity. }
    rewrite E. apply (ssorted_map_filter emt (keep c)) in SL. rewrite HF, map_app in SL.
    apply ssorted_app in SL. tauto.
Qed.

Lemma reopen_good s c : dir_ok s -> good (reopen s c).
Proof.
  intros H. split; [apply inv_reopen|]. split; [|apply reopen_disk_ok; auto].
  apply (ks_step s (Reopen c)). apply H.
Qed.

Lemma good_dir_ok s : good s -> dir_ok s.
Proof. intros (_ & Hk & (_ & Hle & Hinj & _)). repeat split; auto. Qed.

Definition not_extdel (o : op) : Prop := match o with ExternalDelete _ => False | _ => True end.

Lemma step_good s o : good s -> not_extdel o -> good (fst (step s o)).
Proof.
  intros Hg Hn.
  assert (Hp : plain_op o \/ exists c, o = Reopen c).
  { destruct o; simpl in *; eauto; tauto. }
  destruct Hp as [Hp|[c ->]].
  - destruct Hg as (Hi & Hk & Hd). split; [apply step_inv; auto|].
    split; [apply ks_step; auto | apply step_disk_ok; auto].
  - simpl. apply reopen_good, good_dir_ok, Hg.
Qed.

Lemma run_good ops : forall s, good s -> Forall not_extdel ops -> good (run s ops).
Proof.
  unfold run. induction ops as [|o r IH]; simpl; auto. intros s Hg Hf. inversion Hf; subst.
  apply IH; auto. apply step_good; auto.
Qed.

(* ====================================================================== *)
(* G. recency survives a restart                                           *)
(* ====================================================================== *)

Lemma make_space_noop s n : measure s + (pending_size s + n) <= cap s -> make_space s n = (true, s).
Proof.
  intros H. unfold make_space.
  destruct (n <=? cap s) eqn:E1; [|lia]. destruct (pending_size s + n <=? cap s) eqn:E2; [|lia]. simpl.
  rewrite evict_noop by auto. destruct s; reflexivity.
Qed.

Lemma fold_init_noevict : forall L s,
  inv s -> pending_size s = 0 ->
  measure s + sumsz (map proj L) <= cap s ->
  (forall e, In e L -> is_temp (fst e) = false) ->
  NoDup (keys (index s) ++ keys L) ->
  index (fold_left init_add L s) = index s ++ map proj L.
Proof.
  induction L as [|[k [sz mt]] L IH]; intros s Hi Hp Hm Ht Hnd.
  - simpl. rewrite app_nil_r; auto.
  - change (fold_left init_add ((k, (sz, mt)) :: L) s) with (fold_left init_add L (init_add s (k, (sz, mt)))).
    change (map proj ((k, (sz, mt)) :: L)) with ((k, sz) :: map proj L) in *. simpl in Hm.
    assert (Ei : init_add s (k, (sz, mt)) = lru_insert s k sz).
    { unfold init_add. pose proof (Ht (k, (sz, mt)) (or_introl eq_refl)) as Et. simpl in Et. rewrite Et.
      destruct (sz <=? cap s) eqn:E; [|lia]. simpl. rewrite make_space_noop by lia. reflexivity. }
    rewrite Ei.
    assert (Hb : measure s + (pending_size s + sz) <= cap s) by lia.
    pose proof (inv_lru_insert s k sz Hi Hb) as Hi2.
    assert (Hnk : alookup k (index s) = None).
    { apply alookup_None. intros Hin. simpl in Hnd. apply NoDup_remove_2 in Hnd. apply Hnd.
      rewrite in_app_iff; auto. }
    rewrite lru_insert_inv_eq in * by auto. rewrite aremove_notin in * by auto.
    rewrite IH; auto; simpl.
    + rewrite <- app_assoc. reflexivity.
    + destruct Hi as [(Hmm & _) _]. lia.
    + intros e He. apply Ht; right; auto.
    + rewrite keys_app. simpl. rewrite <- app_assoc. exact Hnd.
Qed.

Lemma ssorted_NoDup l : ssorted l -> NoDup l.
Proof.
  induction l as [|x r IH]; simpl; [constructor|]. intros [H1 H2]. constructor; auto.
  intros Hin. rewrite Forall_forall in H1. apply H1 in Hin. lia.
Qed.

Lemma sorted_perm_eq : forall A B : list (key * (N * N)),
  ssorted (map emt A) -> ssorted (map emt B) -> Permutation A B -> A = B.
Proof.
  induction A as [|a A IH]; intros B HA HB P.
  - apply Permutation_nil in P; auto.
  - destruct B as [|b B]. { apply Permutation_sym, Permutation_nil in P; discriminate. }
    assert (a = b).
    { destruct (Permutation_in a P (or_introl eq_refl)) as [E|Hin]; auto.
      destruct (Permutation_in b (Permutation_sym P) (or_introl eq_refl)) as [E|Hin2]; auto.
      simpl in HA, HB. destruct HA as [HA _], HB as [HB _]. rewrite Forall_forall in HA, HB.
      pose proof (HA _ (in_map emt _ _ Hin2)). pose proof (HB _ (in_map emt _ _ Hin)). lia. }
    subst. f_equal. apply IH; [apply HA | apply HB | eapply Permutation_cons_inv; eauto].
Qed.

(* insertion sort of a permutation of a strictly sorted list returns that list *)
Lemma sort_mtime_of_perm l F : Permutation l F -> ssorted (map emt F) -> sort_mtime l = F.
Proof.
  intros P HF. apply sorted_perm_eq; auto.
  - apply sort_mtime_ssorted. eapply Permutation_NoDup; [apply Permutation_map, Permutation_sym, P|].
    apply ssorted_NoDup; auto.
  - eapply perm_trans; [apply sort_mtime_perm | exact P].
Qed.

Definition notemp_idx (s : st) : Prop := forall k, In k (keys (index s)) -> is_temp k = false.

Lemma map_pair_id {A B} (l : list (A * B)) : map (fun e => (fst e, snd e)) l = l.
Proof. induction l as [|[a b] l IH]; simpl; f_equal; auto. Qed.

Lemma recency_restart s c :
  good s -> notemp_idx s -> measure s <= c -> index (reopen s c) = index s.
Proof.
  intros (Hi & Hks & (Hd & Hle & Hinj & Ho)) Hnt Hc.
  pose proof Hi as [(Hm & _ & Hnd & _) _]. pose proof (ksorted_NoDup _ Hks) as NDf.
  set (F := map (fun e : key * N => (fst e, (snd e, mtof (files s) (fst e)))) (index s)).
  assert (EP : map proj F = index s).
  { unfold F. rewrite map_map. unfold proj. simpl. apply map_pair_id. }
  assert (EK : keys F = keys (index s)).
  { unfold F, keys. rewrite map_map. reflexivity. }
  assert (EM : map emt F = map (mtof (files s)) (keys (index s))).
  { unfold F, keys. rewrite !map_map. reflexivity. }
  assert (P : Permutation (files s) F).
  { apply NoDup_Permutation.
    - eapply NoDup_map_inv; exact NDf.
    - apply (NoDup_map_inv fst). fold (keys F). rewrite EK. exact Hnd.
    - intros [k [sz mt]]. unfold F. rewrite in_map_iff. split.
      + intros H. apply In_alookup in H; auto. exists (k, sz). simpl. split.
        * unfold mtof. rewrite H. reflexivity.
        * apply alookup_Some_In. apply Hd. eauto.
      + intros ([k' sz'] & E & Hin). simpl in E. injection E as -> -> <-.
        apply In_alookup in Hin; auto. apply Hd in Hin as [mt Hin]. unfold mtof. rewrite Hin.
        apply alookup_Some_In; auto. }
  unfold reopen. rewrite (sort_mtime_of_perm (files s) F P) by (rewrite EM; exact Ho).
  rewrite fold_init_noevict; simpl; auto.
  - split; [unfold acct|unfold hwf]; simpl.
    + repeat split; try constructor; lia.
    + split; [constructor|tauto].
  - rewrite EP. lia.
  - intros e He. apply Hnt. rewrite <- EK. apply (in_map fst) in He. exact He.
  - rewrite EK. exact Hnd.
Qed.

(* ---------- mtimes stay in the past under EVERY op (external deletes included) ---------- *)

Lemma files_shrink_init_add s e k v :
  alookup k (files (init_add s e)) = Some v -> alookup k (files s) = Some v.
Proof.
  destruct e as [k0 [sz mt]]. unfold init_add.
  assert (Hrm : alookup k (aremove k0 (files s)) = Some v -> alookup k (files s) = Some v).
  { destruct (key_eq_dec k k0) as [->|Hne]; [rewrite alookup_aremove_eq; discriminate|].
    rewrite alookup_aremove_neq; auto. }
  destruct (is_temp k0); auto. destruct (negb (sz <=? cap s)); auto.
  destruct (make_space s sz) as [ok s1] eqn:MS. apply make_space_spec in MS as (pre & idx' & m' & -> & _).
  assert (Hev : alookup k (rmkeys (keys pre) (files s)) = Some v -> alookup k (files s) = Some v).
  { destruct (in_dec key_eq_dec k (keys pre)) as [Hin|Hin].
    - rewrite alookup_rmkeys_in; auto; discriminate.
    - rewrite alookup_rmkeys_notin; auto. }
  destruct ok; [rewrite files_lru_insert|]; simpl; auto.
Qed.

Lemma files_shrink_reopen s c k v :
  alookup k (files (reopen s c)) = Some v -> alookup k (files s) = Some v.
Proof.
  unfold reopen.
  assert (G : forall l s0, alookup k (files (fold_left init_add l s0)) = Some v -> alookup k (files s0) = Some v).
  { induction l; simpl; auto. intros s0 H. apply IHl in H. eapply files_shrink_init_add; eauto. }
  intros H. apply G in H. exact H.
Qed.

Lemma step_mt_le s o : inv s -> mt_le s -> mt_le (fst (step s o)).
Proof.
  intros Hi Hle.
  assert (Hp : plain_op o \/ (exists k, o = ExternalDelete k) \/ exists c, o = Reopen c).
  { destruct o; simpl; eauto; tauto. }
  destruct Hp as [Hp|[[k ->]|[c ->]]].
  - destruct (step_shape s o Hi Hp) as [[pre [R Fo Ck]]|(k & pre & ni & nf & _ & [_ Fk Fo Ck Fn] & _)];
      intros k0 sz0 mt0 H.
    + destruct (in_dec key_eq_dec k0 (keys pre)) as [Hin|Hin].
      * rewrite (proj1 (Fo k0) Hin) in H; discriminate.
      * rewrite (proj2 (Fo k0) Hin) in H. apply Hle in H. lia.
    + destruct (key_eq_dec k0 k) as [->|Hne].
      * rewrite Fk in H. rewrite H in Fn. simpl in Fn. lia.
      * destruct (in_dec key_eq_dec k0 (keys pre)) as [Hin|Hin].
        -- rewrite (proj1 (Fo k0 Hne) Hin) in H; discriminate.
        -- rewrite (proj2 (Fo k0 Hne) Hin) in H. apply Hle in H. lia.
  - simpl. intros k0 sz0 mt0 H. simpl in H. destruct (key_eq_dec k0 k) as [->|Hne].
    + rewrite alookup_aremove_eq in H; discriminate.
    + rewrite alookup_aremove_neq in H by auto. eapply Hle; eauto.
  - simpl. intros k0 sz0 mt0 H. apply files_shrink_reopen, Hle in H. rewrite clock_reopen. auto.
Qed.

Lemma run_inv_mt_le ops : forall s, inv s -> mt_le s -> inv (run s ops) /\ mt_le (run s ops).
Proof.
  unfold run. induction ops as [|o r IH]; simpl; auto. intros s Hi Hle.
  apply IH; [apply step_inv | apply step_mt_le]; auto.
Qed.

(* ---------- no indexed key (or pending key) has a temp-file name ---------- *)

Definition notemp (s : st) : Prop :=
  notemp_idx s /\ (forall h hd, In (h, hd) (handles s) -> is_temp (h_key hd) = false).

(* guard: no operation names a key that looks like one of the cache's own temp files *)
Definition op_notemp (o : op) : Prop :=
  match o with
  | InsertBytes k _ | InsertWith k _ _ | InsertFile k _ | PrepareAdd k _ | Get k | Remove k => is_temp k = false
  | _ => True
  end.

Lemma handles_lru_remove s k : handles (lru_remove s k) = handles s.
Proof. unfold lru_remove. destruct (alookup k (index s)); auto. Qed.

Lemma handles_lru_insert s k v : handles (lru_insert s k v) = handles s.
Proof. unfold lru_insert. destruct (lru_trim _ _ _); auto. Qed.

Lemma handles_make_space s n ok s' : make_space s n = (ok, s') -> handles s' = handles s /\ next_h s' = next_h s.
Proof. intros MS. apply make_space_spec in MS as (pre & idx' & m' & -> & _). auto. Qed.

Lemma handles_insert_by s k d w f s' r t : insert_by s k d w f = (s', r, t) -> handles s' = handles s.
Proof.
  unfold insert_by. destruct (match d with Some d0 => negb (d0 <=? cap s) | None => false end).
  { intros H; inversion H; subst; auto. }
  cbv zeta. destruct f.
  { intros H; inversion H; subst. simpl. apply handles_lru_remove. }
  destruct (make_space _ _) as [ok s3] eqn:MS. apply handles_make_space in MS as [MS _]. simpl in MS.
  rewrite handles_lru_remove in MS.
  destruct ok; intros H; inversion H; subst; simpl; rewrite ?handles_lru_insert; auto.
Qed.

Lemma hset_In_strong {V} h (v : V) l h' x :
  In (h', x) (hset h v l) -> In (h', x) l \/ (x = v /\ h' = h /\ exists v0, hlookup h l = Some v0).
Proof.
  induction l as [|[h2 v2] r IH]; simpl; [tauto|].
  destruct (h =? h2) eqn:E; simpl.
  - apply N.eqb_eq in E; subst h2. intros [H|H]; auto. inversion H; subst. right. eauto.
  - intros [H|H]; auto. apply IH in H. tauto.
Qed.

Lemma handles_reopen s c : handles (reopen s c) = [].
Proof.
  unfold reopen.
  assert (G : forall l s0, handles (fold_left init_add l s0) = handles s0).
  { induction l as [|[k [sz mt]] l IH]; simpl; auto. intros s0. rewrite IH.
    unfold init_add. destruct (is_temp k); auto. destruct (negb (sz <=? cap s0)); auto.
    destruct (make_space s0 sz) as [ok s1] eqn:MS. apply handles_make_space in MS as [MS _].
    destruct ok; rewrite ?handles_lru_insert; auto. }
  rewrite G. reflexivity.
Qed.

Lemma step_handles s o h hd :
  In (h, hd) (handles (fst (step s o))) ->
  (exists hd0, In (h, hd0) (handles s) /\ h_key hd0 = h_key hd) \/ (exists n, o = PrepareAdd (h_key hd) n).
Proof.
  assert (Same : forall s', handles s' = handles s -> In (h, hd) (handles s') ->
            (exists hd0, In (h, hd0) (handles s) /\ h_key hd0 = h_key hd) \/ (exists n, o = PrepareAdd (h_key hd) n)).
  { intros s' E H. rewrite E in H. eauto. }
  destruct o; simpl.
  - destruct (insert_by s k (Some n) n false) as [[s' r] t] eqn:E. apply handles_insert_by in E. simpl. apply Same; auto.
  - destruct (insert_by s k None n fail) as [[s' r] t] eqn:E. apply handles_insert_by in E. simpl. apply Same; auto.
  - destruct (insert_by s k (Some n) n false) as [[s' r] t] eqn:E. apply handles_insert_by in E. simpl. apply Same; auto.
  - unfold prepare_add. destruct (make_space s n) as [ok s1] eqn:MS. apply handles_make_space in MS as [MS _].
    destruct ok; simpl.
    + rewrite MS, in_app_iff. simpl. intros [H|[H|[]]]; [eauto|]. inversion H; subst. simpl. eauto.
    + apply Same; auto.
  - unfold write_tmp. destruct (hlookup h0 (handles s)) as [hd0|] eqn:E; simpl; [|apply Same; auto].
    intros H. apply hset_In_strong in H as [H|(-> & -> & _)]; eauto.
    left. exists hd0. split; [apply hlookup_In; auto | reflexivity].
  - unfold commit. destruct (hlookup h0 (handles s)) as [hd0|] eqn:E; simpl; [|apply Same; auto].
    destruct (make_space _ _) as [ok s2] eqn:MS. apply handles_make_space in MS as [MS _]. simpl in MS.
    destruct ok; simpl; rewrite ?handles_lru_insert; simpl; rewrite MS; intros H; apply hremove_In in H; eauto.
  - unfold abandon. destruct (hlookup h0 (handles s)) as [hd0|] eqn:E; simpl; [|apply Same; auto].
    intros H; apply hremove_In in H; eauto.
  - unfold get, lru_get. destruct (alookup k (index s)); simpl; [|apply Same; auto].
    destruct (alookup k (files s)) as [[fsz mt]|]; simpl; apply Same; auto.
  - unfold remove. destruct (alookup k (index s)); simpl; [|apply Same; auto]. rewrite files_lru_remove.
    destruct (alookup k (files s)); simpl; apply Same; simpl; apply handles_lru_remove.
  - apply Same; auto.
  - apply Same; auto.
  - rewrite handles_reopen. simpl. tauto.
Qed.

Lemma reopen_notemp_idx s c : ksorted (files s) -> notemp_idx (reopen s c).
Proof.
  intros Hks. destruct (reopen_J s c Hks) as (_ & _ & _ & preF & F' & HF & HI & _).
  intros k Hin. rewrite HI, keys_proj in Hin. apply In_keys_inv in Hin as [v Hin].
  assert (Hin2 : In (k, v) (filter (keep c) (sort_mtime (files s)))) by (rewrite HF, in_app_iff; auto).
  apply filter_In in Hin2 as [_ Hk]. unfold keep in Hk. simpl in Hk.
  destruct (is_temp k); auto; discriminate.
Qed.

Lemma step_notemp s o : good s -> notemp s -> op_notemp o -> notemp (fst (step s o)).
Proof.
  intros Hg [Hn1 Hn2] Ho. pose proof Hg as (Hi & Hks & _). split.
  - assert (Hp : plain_op o \/ (exists k, o = ExternalDelete k) \/ exists c, o = Reopen c).
    { destruct o; simpl; eauto; tauto. }
    destruct Hp as [Hp|[[k ->]|[c ->]]].
    + destruct (step_shape s o Hi Hp) as [[pre [R _ _]]|(k & pre & ni & nf & Hk & [(rest & R1 & R2) _ _ _ _] & _)];
        intros k0 Hin.
      * apply Hn1. rewrite R, keys_app, in_app_iff. auto.
      * rewrite R2, keys_app, in_app_iff in Hin. destruct Hin as [Hin|Hin].
        -- apply Hn1. assert (Hin2 : In k0 (keys (aremove k (index s)))) by (rewrite R1, keys_app, in_app_iff; auto).
           apply keys_aremove in Hin2. tauto.
        -- destruct ni; simpl in Hin; [|tauto]. destruct Hin as [<-|[]].
           destruct o; simpl in *; try discriminate; try (inversion Hk; subst; auto).
           destruct (hlookup h (handles s)) as [hd|] eqn:E; [|discriminate]. inversion Hk; subst.
           apply (Hn2 h). apply hlookup_In; auto.
    + simpl. exact Hn1.
    + simpl. apply reopen_notemp_idx; auto.
  - intros h hd Hin. apply step_handles in Hin as [(hd0 & Hin & <-)|[n ->]].
    + eapply Hn2; eauto.
    + exact Ho.
Qed.

Lemma run_good_notemp ops : forall s,
  good s -> notemp s -> Forall not_extdel ops -> Forall op_notemp ops ->
  good (run s ops) /\ notemp (run s ops).
Proof.
  unfold run. induction ops as [|o r IH]; simpl; auto. intros s Hg Hn F1 F2. inversion F1; inversion F2; subst.
  apply IH; auto; [apply step_good | apply step_notemp]; auto.
Qed.

Lemma reopen_notemp s c : ksorted (files s) -> notemp (reopen s c).
Proof.
  intros Hks. split; [apply reopen_notemp_idx; auto|]. rewrite handles_reopen. simpl. tauto.
Qed.

(* ====================================================================== *)
(* H. single-step theorems                                                 *)
(* ====================================================================== *)

(* the key an op acts on, for the LRU-order statement *)
Definition op_key_ok (s : st) (o : op) (k : key) : Prop :=
  match o with
  | Reopen _ => False
  | _ => match op_key s o with Some k0 => k = k0 | None => True end
  end.

Lemma lru_order s o k : inv s -> op_key_ok s o k ->
  exists pre, aremove k (index s) = pre ++ aremove k (index (fst (step s o))) /\
    forall k', In k' (keys pre) -> alookup k' (files (fst (step s o))) = None.
Proof.
  intros Hi Hk. pose proof Hi as [(_ & _ & Hnd & _) _].
  assert (Hp : plain_op o \/ (exists k0, o = ExternalDelete k0) \/ exists c, o = Reopen c).
  { destruct o; simpl; eauto; tauto. }
  destruct Hp as [Hp|[[k0 ->]|[c ->]]].
  - destruct (step_shape s o Hi Hp) as [[pre [R Fo _]]|(k0 & pre & ni & nf & Hk0 & T & _)].
    + exists (aremove k pre). split.
      * rewrite R at 1. apply aremove_app.
      * intros k' Hin. apply keys_aremove in Hin. apply Fo; tauto.
    + assert (k = k0) as ->.
      { unfold op_key_ok in Hk. rewrite Hk0 in Hk. destruct o; auto; contradiction. }
      destruct T as [(rest & R1 & R2) _ Fo _ _]. exists pre.
      assert (Hk1 : alookup k0 (pre ++ rest) = None) by (rewrite <- R1; apply alookup_aremove_eq).
      apply alookup_app_None in Hk1 as [Hk1 Hk2]. split.
      * rewrite R1, R2, aremove_app, (aremove_notin k0 rest) by auto.
        destruct ni; simpl; rewrite ?bytes_eqb_refl, app_nil_r; auto.
      * intros k' Hin. apply Fo; auto. intros ->. apply alookup_None in Hk1. tauto.
  - exists []. simpl. split; auto. tauto.
  - contradiction.
Qed.

Lemma get_is_use s k sz fsz mt :
  alookup k (index s) = Some sz -> alookup k (files s) = Some (fsz, mt) ->
  snd (step s (Get k)) = ORes ROk (Some k) /\
  index (fst (step s (Get k))) = aremove k (index s) ++ [(k, sz)] /\
  alookup k (files (fst (step s (Get k)))) = Some (fsz, clock s + 1) /\
  (forall k', k' <> k -> alookup k' (files (fst (step s (Get k)))) = alookup k' (files s)) /\
  (mt_le s -> forall k' sz' mt', k' <> k ->
     alookup k' (files (fst (step s (Get k)))) = Some (sz', mt') -> mt' < clock s + 1).
Proof.
  intros E F. simpl. unfold get, lru_get. rewrite E. simpl. rewrite F. simpl.
  split; auto. split; auto. split; [apply alookup_ains_eq|].
  split; [intros k' Hne; apply alookup_ains_neq; auto|].
  intros Hle k' sz' mt' Hne H. rewrite alookup_ains_neq in H by auto. apply Hle in H. lia.
Qed.

Lemma too_large_insert s k n : cap s < n -> insert_by s k (Some n) n false = (s, RTooLarge, None).
Proof. intros H. unfold insert_by. destruct (n <=? cap s) eqn:E; [lia|]. reflexivity. Qed.

Lemma too_large_prepare s k n : cap s < n -> prepare_add s k n = (s, RTooLarge).
Proof.
  intros H. unfold prepare_add, make_space. destruct (n <=? cap s) eqn:E; [lia|]. reflexivity.
Qed.

Lemma too_large_insert_with s k n : cap s < n ->
  snd (step s (InsertWith k n false)) = ORes RTooLarge None /\
  index (fst (step s (InsertWith k n false))) = aremove k (index s) /\
  alookup k (files (fst (step s (InsertWith k n false)))) = None /\
  (forall k', k' <> k ->
     alookup k' (index (fst (step s (InsertWith k n false)))) = alookup k' (index s) /\
     alookup k' (files (fst (step s (InsertWith k n false)))) = alookup k' (files s)).
Proof.
  intros H. simpl. unfold insert_by. cbv zeta. destruct (lru_remove_eq s k) as [m1 E1]. rewrite E1.
  unfold make_space. simpl. destruct (n <=? cap s) eqn:E; [lia|]. simpl.
  split; auto. split; auto. split; [apply alookup_aremove_eq|].
  intros k' Hne. split; [apply alookup_aremove_neq; auto|].
  rewrite alookup_aremove_neq by auto. apply alookup_ains_neq; auto.
Qed.

Lemma never_wedges_insert s k n : inv s -> pending_size s + n <= cap s ->
  snd (step s (InsertBytes k n)) = ORes ROk (Some k) /\
  alookup k (index (fst (step s (InsertBytes k n)))) = Some n.
Proof.
  intros Hi Hn. simpl. unfold insert_by. destruct (n <=? cap s) eqn:E; [|lia]. simpl.
  pose proof (inv_lru_remove s k Hi) as Hi1.
  destruct (lru_remove_eq s k) as [m1 E1]. rewrite E1 in *.
  destruct (make_space _ n) as [ok s3] eqn:MS.
  pose proof MS as MS2. apply inv_make_space in MS2 as [Hi3 Hb]; [|exact Hi1].
  apply make_space_spec in MS as (pre & idx' & m' & -> & Hidx & _ & _ & Hok & _). simpl in *.
  assert (ok = true) as ->. { apply Hok; auto. apply Hi1. }
  rewrite lru_insert_inv_eq by (auto; apply Hb; auto). simpl. split; auto.
  rewrite alookup_app, alookup_aremove_eq. simpl. rewrite bytes_eqb_refl. auto.
Qed.

Lemma never_wedges_prepare s k n : inv s -> pending_size s + n <= cap s ->
  snd (step s (PrepareAdd k n)) = ORes ROk None.
Proof.
  intros Hi Hn. simpl. unfold prepare_add. destruct (make_space s n) as [ok s1] eqn:MS.
  apply make_space_spec in MS as (pre & idx' & m' & -> & Hidx & _ & _ & Hok & _).
  assert (ok = true) as ->. { apply Hok; auto. apply Hi. }
  reflexivity.
Qed.

Lemma no_handles_no_pending s : inv s -> handles s = [] -> pending_size s = 0.
Proof. intros [(_ & _ & _ & Hp) _] H. rewrite Hp, H. reflexivity. Qed.

(* ====================================================================== *)
(* I. run-level statements                                                 *)
(* ====================================================================== *)

Lemma acct_all s c ops : inv (run (reopen s c) ops).
Proof. apply run_inv, inv_reopen. Qed.

Lemma disk_agrees_run s ops : good s -> Forall not_extdel ops -> dagree (run s ops).
Proof. intros Hg Hf. apply (run_good ops s Hg Hf). Qed.

Lemma recency_run s0 ops c :
  good s0 -> notemp s0 -> Forall not_extdel ops -> Forall op_notemp ops ->
  measure (run s0 ops) <= c -> index (reopen (run s0 ops) c) = index (run s0 ops).
Proof.
  intros Hg Hn F1 F2 Hc. destruct (run_good_notemp ops s0 Hg Hn F1 F2) as [Hg' [Hn' _]].
  apply recency_restart; auto.
Qed.

Lemma trace_inv ops : forall s, inv s -> Forall (fun x => inv (snd x)) (trace s ops).
Proof.
  induction ops as [|o r IH]; simpl; intros s Hi; [constructor|].
  pose proof (step_inv s o Hi) as H. destruct (step s o) as [s' x]. simpl in H. constructor; auto.
Qed.

Lemma NoDup_map_inj {A B} (f : A -> B) l x y :
  NoDup (map f l) -> In x l -> In y l -> f x = f y -> x = y.
Proof.
  induction l as [|a l IH]; simpl; [tauto|]. intros H; inversion H; subst.
  intros [->|Hx] [->|Hy] E; auto.
  - exfalso. apply H2. rewrite E. apply in_map; auto.
  - exfalso. apply H2. rewrite <- E. apply in_map; auto.
Qed.

(* a checkable sufficient condition for [dir_ok] *)
Lemma dir_ok_of_list s :
  ksorted (files s) -> Forall (fun e => emt e <= clock s) (files s) -> NoDup (map emt (files s)) -> dir_ok s.
Proof.
  intros Hk Hf Hn. split; [auto|]. split.
  - intros k sz mt H. apply alookup_Some_In in H. rewrite Forall_forall in Hf. apply (Hf _ H).
  - intros k1 k2 sz1 sz2 mt H1 H2. apply alookup_Some_In in H1, H2.
    pose proof (NoDup_map_inj emt _ _ _ Hn H1 H2 eq_refl) as E. inversion E; auto.
Qed.

Lemma dir_ok_empty c : dir_ok (empty c).
Proof. apply dir_ok_of_list; simpl; auto; constructor. Qed.

(* ---------- the statements pinned in Properties/C07.v ---------- *)

Lemma C07_accounting_proof :
  (forall s c ops, let s' := run (reopen s c) ops in
     inv s' /\ measure s' = sumsz (index s') /\ measure s' + pending_size s' <= cap s' /\
     NoDup (map fst (index s')) /\ pending_size s' = sumres (handles s')) /\
  (forall s ops, inv s -> inv (run s ops)) /\
  (forall s ops, inv s -> Forall (fun x => inv (snd x)) (trace s ops)).
Proof.
  split; [|split].
  - intros s c ops s'. pose proof (acct_all s c ops) as H. fold s' in H.
    split; auto. destruct H as [(H1 & H2 & H3 & H4) _]. auto.
  - intros s ops. apply run_inv.
  - intros s ops. apply trace_inv.
Qed.

Lemma C07_disk_agrees_proof :
  (forall s c, dir_ok s -> good (reopen s c)) /\
  (forall s ops, good s -> Forall not_extdel ops ->
     good (run s ops) /\
     forall k sz, alookup k (index (run s ops)) = Some sz <->
                  exists mt, alookup k (files (run s ops)) = Some (sz, mt)).
Proof.
  split; [apply reopen_good|]. intros s ops Hg Hf. split; [apply run_good; auto|].
  apply disk_agrees_run; auto.
Qed.

Lemma C07_lru_order_proof :
  forall s o k, inv s -> op_key_ok s o k ->
    exists pre, aremove k (index s) = pre ++ aremove k (index (fst (step s o))) /\
      forall k', In k' (map fst pre) -> alookup k' (files (fst (step s o))) = None.
Proof. exact lru_order. Qed.

Lemma C07_get_is_use_proof :
  (forall s k sz fsz mt,
     alookup k (index s) = Some sz -> alookup k (files s) = Some (fsz, mt) ->
     snd (step s (Get k)) = ORes ROk (Some k) /\
     index (fst (step s (Get k))) = aremove k (index s) ++ [(k, sz)] /\
     alookup k (files (fst (step s (Get k)))) = Some (fsz, clock s + 1) /\
     (forall k', k' <> k -> alookup k' (files (fst (step s (Get k)))) = alookup k' (files s)) /\
     (mt_le s -> forall k' sz' mt', k' <> k ->
        alookup k' (files (fst (step s (Get k)))) = Some (sz', mt') -> mt' < clock s + 1)) /\
  (forall s ops, inv s -> mt_le s -> mt_le (run s ops)) /\
  (forall s k sz, good s -> alookup k (index s) = Some sz ->
     mt_le s /\ exists mt, alookup k (files s) = Some (sz, mt)).
Proof.
  split; [exact get_is_use|]. split.
  - intros s ops Hi Hle. apply run_inv_mt_le; auto.
  - intros s k sz (_ & _ & (Hd & Hle & _)) H. split; auto. apply Hd; auto.
Qed.

Lemma C07_too_large_refused_proof :
  forall s k n, cap s < n ->
    step s (InsertBytes k n) = (s, ORes RTooLarge None) /\
    step s (InsertFile k n) = (s, ORes RTooLarge None) /\
    step s (PrepareAdd k n) = (s, ORes RTooLarge None) /\
    snd (step s (InsertWith k n false)) = ORes RTooLarge None /\
    index (fst (step s (InsertWith k n false))) = aremove k (index s) /\
    alookup k (files (fst (step s (InsertWith k n false)))) = None /\
    (forall k', k' <> k ->
       alookup k' (index (fst (step s (InsertWith k n false)))) = alookup k' (index s) /\
       alookup k' (files (fst (step s (InsertWith k n false)))) = alookup k' (files s)).
Proof.
  intros s k n H. split; [|split; [|split]].
  - simpl. rewrite too_large_insert; auto.
  - simpl. rewrite too_large_insert; auto.
  - simpl. rewrite too_large_prepare; auto.
  - apply too_large_insert_with; auto.
Qed.

Lemma C07_never_wedges_proof :
  (forall s k n, inv s -> pending_size s + n <= cap s ->
     snd (step s (InsertBytes k n)) = ORes ROk (Some k) /\
     alookup k (index (fst (step s (InsertBytes k n)))) = Some n /\
     snd (step s (PrepareAdd k n)) = ORes ROk None) /\
  (forall s, inv s -> handles s = [] -> pending_size s = 0) /\
  (forall s0 c ops k n, let s := run (reopen s0 c) ops in
     handles s = [] -> n <= cap s ->
     snd (step s (InsertBytes k n)) = ORes ROk (Some k) /\
     alookup k (index (fst (step s (InsertBytes k n)))) = Some n).
Proof.
  split; [|split].
  - intros s k n Hi Hn. destruct (never_wedges_insert s k n Hi Hn). repeat split; auto.
    apply never_wedges_prepare; auto.
  - exact no_handles_no_pending.
  - intros s0 c ops k n s Hh Hn. pose proof (acct_all s0 c ops) as Hi. fold s in Hi.
    apply never_wedges_insert; auto. rewrite (no_handles_no_pending s Hi Hh). lia.
Qed.

Lemma C07_recency_survives_restart_proof :
  (forall s c, dir_ok s -> good (reopen s c) /\ notemp (reopen s c)) /\
  (forall s0 ops, good s0 -> notemp s0 -> Forall not_extdel ops -> Forall op_notemp ops ->
     good (run s0 ops) /\ notemp (run s0 ops) /\
     forall c, measure (run s0 ops) <= c -> index (reopen (run s0 ops) c) = index (run s0 ops)).
Proof.
  split.
  - intros s c H. split; [apply reopen_good; auto | apply reopen_notemp; apply H].
  - intros s0 ops Hg Hn F1 F2. destruct (run_good_notemp ops s0 Hg Hn F1 F2) as [Hg' Hn'].
    split; auto. split; auto. intros c Hc. apply recency_run; auto.
Qed.
