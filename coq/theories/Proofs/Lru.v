(* Proofs/Lru.v — invariants and theorems about Model/Lru.v (property C07).

   Layout:
     A  association-list / arithmetic lemmas
     B  specifications of evict / make_space / lru_insert
     C  the accounting invariant [inv] and its preservation by every op
     D  transition shapes: what one op does to index and files
     E  the disk invariants (agreement, mtime bounds, recency order) from the shapes
     F  reopen
     G  recency survives a restart
     H  single-step theorems (get is use, too large refused, never wedges)
     I  run-level statements used by Properties/C07.v *)
From Coq Require Import List NArith Bool Lia ZifyBool Permutation.
From Sccache Require Import Base.Sx Model.Lru.
Import ListNotations.
Local Open Scope N_scope.

#[local] Arguments N.add : simpl never.
#[local] Arguments N.sub : simpl never.
#[local] Arguments N.leb : simpl never.
#[local] Arguments N.ltb : simpl never.
#[local] Arguments N.eqb : simpl never.

(* ====================================================================== *)
(* A. association lists                                                    *)
(* ====================================================================== *)

Lemma bytes_eqb_neq a b : bytes_eqb a b = false <-> a <> b.
Proof. rewrite <- bytes_eqb_eq. destruct (bytes_eqb a b); split; congruence. Qed.

Lemma key_eq_dec (a b : key) : {a = b} + {a <> b}.
Proof. apply (list_eq_dec N.eq_dec). Qed.

Definition keys {V} (l : list (key * V)) : list key := map fst l.

Lemma keys_app {V} (a b : list (key * V)) : keys (a ++ b) = keys a ++ keys b.
Proof. apply map_app. Qed.

Lemma alookup_aremove_eq {V} k (l : list (key * V)) : alookup k (aremove k l) = None.
Proof.
  induction l as [|[k' v] r IH]; simpl; auto.
  destruct (bytes_eqb k k') eqn:E; simpl; auto. rewrite E; auto.
Qed.

Lemma alookup_aremove_neq {V} k k' (l : list (key * V)) :
  k' <> k -> alookup k' (aremove k l) = alookup k' l.
Proof.
  intros Hn. induction l as [|[k2 v] r IH]; simpl; auto.
  destruct (bytes_eqb k k2) eqn:E.
  - apply bytes_eqb_eq in E; subst k2. rewrite IH.
    destruct (bytes_eqb k' k) eqn:E2; auto. apply bytes_eqb_eq in E2; congruence.
  - simpl. rewrite IH; auto.
Qed.

Lemma alookup_ains_eq {V} k (v : V) l : alookup k (ains k v l) = Some v.
Proof.
  induction l as [|[k' v'] r IH]; simpl.
  - rewrite bytes_eqb_refl; auto.
  - destruct (bytes_eqb k k') eqn:E; simpl.
    + rewrite bytes_eqb_refl; auto.
    + destruct (bytes_ltb k k'); simpl.
      * rewrite bytes_eqb_refl; auto.
      * rewrite E; auto.
Qed.

Lemma alookup_ains_neq {V} k k' (v : V) l : k' <> k -> alookup k' (ains k v l) = alookup k' l.
Proof.
  intros Hn. assert (Hf : bytes_eqb k' k = false) by (apply bytes_eqb_neq; auto).
  induction l as [|[k2 v2] r IH]; simpl.
  - rewrite Hf; auto.
  - destruct (bytes_eqb k k2) eqn:E; simpl.
    + apply bytes_eqb_eq in E; subst k2. rewrite Hf; auto.
    + destruct (bytes_ltb k k2); simpl.
      * rewrite Hf; auto.
      * rewrite IH; auto.
Qed.

Lemma alookup_app {V} k (a b : list (key * V)) :
  alookup k (a ++ b) = match alookup k a with Some v => Some v | None => alookup k b end.
Proof.
  induction a as [|[k' v] r IH]; simpl; auto. destruct (bytes_eqb k k'); auto.
Qed.

Lemma alookup_None {V} k (l : list (key * V)) : alookup k l = None <-> ~ In k (keys l).
Proof.
  induction l as [|[k' v] r IH]; simpl.
  - tauto.
  - destruct (bytes_eqb k k') eqn:E.
    + apply bytes_eqb_eq in E; subst. split; [discriminate | intros H; exfalso; apply H; auto].
    + apply bytes_eqb_neq in E. rewrite IH. split; [intros H [H1|H1]; auto | tauto].
Qed.

Lemma alookup_Some_In {V} k (v : V) l : alookup k l = Some v -> In (k, v) l.
Proof.
  induction l as [|[k' v'] r IH]; simpl; [discriminate|].
  destruct (bytes_eqb k k') eqn:E.
  - apply bytes_eqb_eq in E; subst. intros H; inversion H; auto.
  - auto.
Qed.

Lemma alookup_Some_key {V} k (v : V) l : alookup k l = Some v -> In k (keys l).
Proof. intros H. apply alookup_Some_In in H. apply (in_map fst) in H. exact H. Qed.

Lemma In_alookup {V} k (v : V) l : NoDup (keys l) -> In (k, v) l -> alookup k l = Some v.
Proof.
  induction l as [|[k' v'] r IH]; simpl; [tauto|].
  intros Hnd [H|H].
  - inversion H; subst. rewrite bytes_eqb_refl; auto.
  - inversion Hnd; subst. destruct (bytes_eqb k k') eqn:E.
    + apply bytes_eqb_eq in E; subst. exfalso. apply H2. apply (in_map fst) in H. exact H.
    + auto.
Qed.

Lemma In_key_lookup {V} k (l : list (key * V)) : In k (keys l) -> exists v, alookup k l = Some v.
Proof.
  intros H. destruct (alookup k l) eqn:E; eauto. apply alookup_None in E. tauto.
Qed.

Lemma keys_aremove {V} k k' (l : list (key * V)) :
  In k' (keys (aremove k l)) <-> k' <> k /\ In k' (keys l).
Proof.
  induction l as [|[k2 v] r IH]; simpl.
  - tauto.
  - destruct (bytes_eqb k k2) eqn:E.
    + apply bytes_eqb_eq in E; subst k2. rewrite IH. split; [tauto|].
      intros [H1 [H2|H2]]; [congruence | tauto].
    + apply bytes_eqb_neq in E. simpl. rewrite IH. split.
      * intros [H|H]; [subst; split; auto | tauto].
      * tauto.
Qed.

Lemma NoDup_aremove {V} k (l : list (key * V)) : NoDup (keys l) -> NoDup (keys (aremove k l)).
Proof.
  induction l as [|[k2 v] r IH]; simpl; auto.
  intros H; inversion H; subst. destruct (bytes_eqb k k2); auto.
  simpl. constructor; auto. rewrite keys_aremove. tauto.
Qed.

Lemma aremove_notin {V} k (l : list (key * V)) : alookup k l = None -> aremove k l = l.
Proof.
  induction l as [|[k2 v] r IH]; simpl; auto.
  destruct (bytes_eqb k k2); [discriminate|]. intros H. rewrite IH; auto.
Qed.

Lemma aremove_app {V} k (a b : list (key * V)) : aremove k (a ++ b) = aremove k a ++ aremove k b.
Proof.
  induction a as [|[k2 v] r IH]; simpl; auto. destruct (bytes_eqb k k2); simpl; rewrite IH; auto.
Qed.

Lemma aremove_idem {V} k (l : list (key * V)) : aremove k (aremove k l) = aremove k l.
Proof. apply aremove_notin, alookup_aremove_eq. Qed.

Lemma In_aremove {V} k e (l : list (key * V)) : In e (aremove k l) -> In e l.
Proof.
  induction l as [|[k2 v] r IH]; simpl; auto.
  destruct (bytes_eqb k k2); simpl; intuition.
Qed.

Lemma NoDup_app_l {A} (a b : list A) : NoDup (a ++ b) -> NoDup a.
Proof. induction a; simpl; intros H; [constructor|]. inversion H; subst. constructor; auto. rewrite in_app_iff in H2; tauto. Qed.

Lemma NoDup_app_r {A} (a b : list A) : NoDup (a ++ b) -> NoDup b.
Proof. induction a; simpl; auto. intros H; inversion H; auto. Qed.

Lemma NoDup_snoc {A} (l : list A) x : NoDup l -> ~ In x l -> NoDup (l ++ [x]).
Proof.
  induction l; simpl; intros H Hn.
  - constructor; auto.
  - inversion H; subst. constructor; [rewrite in_app_iff; simpl; intuition | apply IHl; tauto].
Qed.

Lemma NoDup_app_disj {A} (a b : list A) x : NoDup (a ++ b) -> In x a -> In x b -> False.
Proof.
  induction a; simpl; [tauto|]. intros H [H1|H1] H2; inversion H; subst.
  - apply H4. rewrite in_app_iff; auto.
  - eauto.
Qed.

(* lookups in a duplicate-free concatenation *)
Lemma alookup_app_r {V} k (a b : list (key * V)) :
  ~ In k (keys a) -> alookup k (a ++ b) = alookup k b.
Proof. intros H. rewrite alookup_app. apply alookup_None in H. rewrite H; auto. Qed.

Lemma alookup_app_None_r {V} k (a b : list (key * V)) :
  NoDup (keys (a ++ b)) -> In k (keys a) -> alookup k b = None.
Proof.
  intros Hnd Hin. apply alookup_None. intros H. rewrite keys_app in Hnd.
  eapply NoDup_app_disj; eauto.
Qed.

Fixpoint sumsz (l : list (key * N)) : N :=
  match l with [] => 0 | (_, sz) :: r => sz + sumsz r end.

Lemma sumsz_app a b : sumsz (a ++ b) = sumsz a + sumsz b.
Proof. induction a as [|[k sz] r IH]; simpl; [lia|]. rewrite IH; lia. Qed.

Lemma sumsz_aremove k sz l :
  NoDup (keys l) -> alookup k l = Some sz -> sumsz l = sz + sumsz (aremove k l).
Proof.
  induction l as [|[k2 v] r IH]; simpl; [discriminate|].
  intros Hnd. inversion Hnd; subst. destruct (bytes_eqb k k2) eqn:E.
  - apply bytes_eqb_eq in E; subst k2. intros H; inversion H; subst.
    rewrite aremove_notin; auto. apply alookup_None; auto.
  - intros H. simpl. rewrite (IH H2 H). lia.
Qed.

Lemma sumsz_lookup_le k sz l : alookup k l = Some sz -> sz <= sumsz l.
Proof.
  induction l as [|[k2 v] r IH]; simpl; [discriminate|].
  destruct (bytes_eqb k k2).
  - intros H; inversion H; subst; lia.
  - intros H. apply IH in H. lia.
Qed.

(* removal of a list of keys from the directory (what the eviction loop does) *)
Definition rmkeys {V} (ks : list key) (fs : list (key * V)) : list (key * V) :=
  fold_left (fun f k => aremove k f) ks fs.

Lemma alookup_rmkeys_in {V} ks : forall (fs : list (key * V)) k, In k ks -> alookup k (rmkeys ks fs) = None.
Proof.
  induction ks as [|k0 r IH]; simpl; [tauto|]. intros fs k [H|H].
  - subst. destruct (in_dec key_eq_dec k r) as [Hi|Hi]; [apply IH; auto|].
    clear IH. revert fs. induction r as [|k1 r IH]; simpl; intros fs.
    + apply alookup_aremove_eq.
    + simpl in Hi. assert (aremove k1 (aremove k fs) = aremove k (aremove k1 fs)) as ->.
      { clear. induction fs as [|[k2 v] fs IH]; simpl; auto.
        destruct (bytes_eqb k k2) eqn:E1, (bytes_eqb k1 k2) eqn:E2; simpl; rewrite ?E1, ?E2, IH; auto. }
      apply IH. tauto.
  - apply IH; auto.
Qed.

Lemma alookup_rmkeys_notin {V} ks : forall (fs : list (key * V)) k, ~ In k ks -> alookup k (rmkeys ks fs) = alookup k fs.
Proof.
  induction ks as [|k0 r IH]; simpl; auto. intros fs k H.
  rewrite IH by tauto. apply alookup_aremove_neq. intros ->; tauto.
Qed.

(* handles *)
Fixpoint sumres (l : list (N * handle)) : N :=
  match l with [] => 0 | (_, h) :: r => h_reserved h + sumres r end.

Lemma hlookup_In {V} h (v : V) l : hlookup h l = Some v -> In (h, v) l.
Proof.
  induction l as [|[h' v'] r IH]; simpl; [discriminate|].
  destruct (h =? h') eqn:E.
  - apply N.eqb_eq in E; subst. intros H; inversion H; auto.
  - auto.
Qed.

Lemma hremove_ids {V} h h' (l : list (N * V)) :
  In h' (map fst (hremove h l)) <-> h' <> h /\ In h' (map fst l).
Proof.
  induction l as [|[h2 v] r IH]; simpl.
  - tauto.
  - destruct (h =? h2) eqn:E.
    + apply N.eqb_eq in E; subst h2. rewrite IH. split; [tauto|]. intros [H1 [H2|H2]]; [congruence|tauto].
    + apply N.eqb_neq in E. simpl. rewrite IH. split.
      * intros [H|H]; [subst; auto | tauto].
      * tauto.
Qed.

Lemma hremove_In {V} h e (l : list (N * V)) : In e (hremove h l) -> In e l.
Proof.
  induction l as [|[h2 v] r IH]; simpl; auto. destruct (h =? h2); simpl; intuition.
Qed.

Lemma NoDup_hremove {V} h (l : list (N * V)) : NoDup (map fst l) -> NoDup (map fst (hremove h l)).
Proof.
  induction l as [|[h2 v] r IH]; simpl; auto.
  intros H; inversion H; subst. destruct (h =? h2); auto.
  simpl. constructor; auto. rewrite hremove_ids. tauto.
Qed.

Lemma hremove_notin {V} h (l : list (N * V)) : ~ In h (map fst l) -> hremove h l = l.
Proof.
  induction l as [|[h2 v] r IH]; simpl; auto. intros H.
  destruct (h =? h2) eqn:E; [apply N.eqb_eq in E; subst; tauto|]. rewrite IH; tauto.
Qed.

Lemma sumres_hremove h hd l :
  NoDup (map fst l) -> hlookup h l = Some hd -> sumres l = h_reserved hd + sumres (hremove h l).
Proof.
  induction l as [|[h2 v] r IH]; simpl; [discriminate|].
  intros Hnd; inversion Hnd; subst. destruct (h =? h2) eqn:E.
  - apply N.eqb_eq in E; subst h2. intros H; inversion H; subst. rewrite hremove_notin; auto.
  - intros H. simpl. rewrite (IH H2 H). lia.
Qed.

Lemma hset_ids {V} h (v : V) (l : list (N * V)) : map fst (hset h v l) = map fst l.
Proof.
  induction l as [|[h2 v2] r IH]; simpl; auto. destruct (h =? h2); simpl; rewrite ?IH; auto.
Qed.

Lemma sumres_hset h hd v l :
  hlookup h l = Some hd -> h_reserved v = h_reserved hd -> sumres (hset h v l) = sumres l.
Proof.
  induction l as [|[h2 v2] r IH]; simpl; [discriminate|].
  destruct (h =? h2).
  - intros H; inversion H; subst. intros Hr. simpl. rewrite Hr. auto.
  - intros H1 H2. simpl. rewrite IH; auto.
Qed.

Lemma hset_In {V} h (v : V) (l : list (N * V)) e : In e (hset h v l) -> In e l \/ snd e = v.
Proof.
  induction l as [|[h2 v2] r IH]; simpl; [tauto|].
  destruct (h =? h2); simpl; intros [H|H]; subst; auto. apply IH in H; tauto.
Qed.

(* ====================================================================== *)
(* B. evict / make_space / lru_insert                                      *)
(* ====================================================================== *)

Lemma lru_trim_noop idx m c : m <= c -> lru_trim idx m c = (idx, m).
Proof. intros H. destruct idx; simpl; destruct (m <=? c) eqn:E; auto; lia. Qed.

Lemma evict_spec : forall idx m fs extra c ok idx' m' fs',
  evict idx m fs extra c = (ok, (idx', m', fs')) ->
  exists pre, idx = pre ++ idx' /\ fs' = rmkeys (keys pre) fs /\
    (m = sumsz idx -> m' = sumsz idx') /\
    (ok = true -> m' + extra <= c) /\
    (m = sumsz idx -> extra <= c -> ok = true).
Proof.
  induction idx as [|[k sz] r IH]; intros m fs extra c ok idx' m' fs' H; simpl in H.
  - destruct (m + extra <=? c) eqn:E; inversion H; subst; exists []; simpl;
      repeat split; auto; try lia; try discriminate.
  - destruct (m + extra <=? c) eqn:E.
    + inversion H; subst. exists []; simpl; repeat split; auto; lia.
    + apply IH in H as (pre & H1 & H2 & H3 & H4 & H5). exists ((k, sz) :: pre). subst. simpl.
      repeat split; auto.
      * intros Hm. apply H3. lia.
      * intros Hm He. apply H5; auto. lia.
Qed.

Lemma evict_noop idx m fs extra c : m + extra <= c -> evict idx m fs extra c = (true, (idx, m, fs)).
Proof. intros H. destruct idx as [|[k sz] r]; simpl; destruct (m + extra <=? c) eqn:E; auto; lia. Qed.

Lemma make_space_spec s n ok s' : make_space s n = (ok, s') ->
  exists pre idx' m',
    s' = set_files (set_lru s idx' m') (rmkeys (keys pre) (files s)) /\
    index s = pre ++ idx' /\
    (measure s = sumsz (index s) -> m' = sumsz idx') /\
    (ok = true -> m' + (pending_size s + n) <= cap s) /\
    (measure s = sumsz (index s) -> pending_size s + n <= cap s -> ok = true) /\
    (measure s = sumsz (index s) -> ok = false -> pre = [] /\ s' = s).
Proof.
  unfold make_space. intros H.
  destruct (negb (n <=? cap s) || negb (pending_size s + n <=? cap s)) eqn:E.
  - inversion H; subst. exists [], (index s'), (measure s'). simpl.
    repeat split; auto; try discriminate; try lia. destruct s'; reflexivity.
  - destruct (evict (index s) (measure s) (files s) (pending_size s + n) (cap s)) as [ok' [[idx m] fs]] eqn:Ev.
    inversion H; subst. apply evict_spec in Ev as (pre & H1 & H2 & H3 & H4 & H5).
    exists pre, idx, m. subst fs.
    assert (Hle : pending_size s + n <= cap s) by lia.
    split; [reflexivity|]. split; [auto|]. split; [auto|]. split; [auto|]. split; [auto|].
    intros Hm Hf. rewrite H5 in Hf; auto; discriminate.
Qed.

Lemma lru_insert_spec s k v :
  measure s = sumsz (index s) -> NoDup (keys (index s)) ->
  sumsz (aremove k (index s)) + v <= cap s ->
  lru_insert s k v = set_lru s (aremove k (index s) ++ [(k, v)]) (sumsz (aremove k (index s)) + v).
Proof.
  intros Hm Hnd Hc. unfold lru_insert.
  set (m2 := match alookup k (index s) with Some old => measure s + v - old | None => measure s + v end).
  assert (Hm2 : m2 = sumsz (aremove k (index s)) + v).
  { unfold m2. destruct (alookup k (index s)) eqn:E.
    - rewrite Hm, (sumsz_aremove k n (index s) Hnd E). lia.
    - rewrite aremove_notin; auto. lia. }
  rewrite lru_trim_noop by lia. rewrite Hm2. reflexivity.
Qed.

(* ====================================================================== *)
(* C. the accounting invariant                                             *)
(* ====================================================================== *)

Definition acct (s : st) : Prop :=
  measure s = sumsz (index s) /\
  measure s + pending_size s <= cap s /\
  NoDup (keys (index s)) /\
  pending_size s = sumres (handles s).

(* handle ids are unique and below the allocation counter *)
Definition hwf (s : st) : Prop :=
  NoDup (map fst (handles s)) /\ (forall h, In h (map fst (handles s)) -> h < next_h s).

Definition inv (s : st) : Prop := acct s /\ hwf s.

Lemma inv_set_files s fs : inv s -> inv (set_files s fs).
Proof. intros H; exact H. Qed.

Lemma inv_tick s : inv s -> inv (tick s).
Proof. intros H; exact H. Qed.

Lemma inv_lru_remove s k : inv s -> inv (lru_remove s k).
Proof.
  intros [(Hm & Hc & Hnd & Hp) Hh]. unfold lru_remove. destruct (alookup k (index s)) eqn:E.
  - split; [|exact Hh]. unfold acct; simpl. pose proof (sumsz_aremove k n (index s) Hnd E).
    repeat split; auto; try lia. apply NoDup_aremove; auto.
  - split; [repeat split|]; auto.
Qed.

Lemma index_lru_remove s k : index (lru_remove s k) = aremove k (index s).
Proof.
  unfold lru_remove. destruct (alookup k (index s)) eqn:E; simpl; auto. rewrite aremove_notin; auto.
Qed.

Lemma inv_make_space s n ok s' : inv s -> make_space s n = (ok, s') ->
  inv s' /\ (ok = true -> measure s' + (pending_size s' + n) <= cap s').
Proof.
  intros [(Hm & Hc & Hnd & Hp) Hh] H.
  apply make_space_spec in H as (pre & idx & m & -> & Hi & Hm' & Hok & _).
  specialize (Hm' Hm). subst m. split; [|simpl; auto].
  split; [|exact Hh]. unfold acct; simpl. rewrite Hi, sumsz_app in Hm.
  repeat split; auto; try lia. rewrite Hi, keys_app in Hnd. eapply NoDup_app_r; eauto.
Qed.

Lemma inv_lru_insert s k v : inv s -> measure s + (pending_size s + v) <= cap s -> inv (lru_insert s k v).
Proof.
  intros [(Hm & Hc & Hnd & Hp) Hh] Hv.
  assert (Hle : sumsz (aremove k (index s)) <= measure s).
  { destruct (alookup k (index s)) eqn:E.
    - rewrite Hm, (sumsz_aremove k n (index s) Hnd E). lia.
    - rewrite aremove_notin; auto. lia. }
  rewrite lru_insert_spec; auto; try lia.
  split; [|exact Hh]. unfold acct; simpl. repeat split; auto; try lia.
  - rewrite sumsz_app. simpl. lia.
  - rewrite keys_app. simpl. apply NoDup_snoc.
    + apply NoDup_aremove; auto.
    + rewrite keys_aremove. tauto.
Qed.
