(* Proofs/ComposeC09C07.v — C09 ⟵ C07: the storage-fault classes of the request machine (Model/ReqSM.v `f_put`) are
   the outcomes the real store's put protocol can produce (Model/LruPut.v `put`: stored | refused | write failed |
   commit refused), and C07's "no history wedges the store" discharges C09_repopulates' premise that the cache is
   writable and working again once the faults stop.

     fault_class : LruPut.pres -> ReqSM.put_fault        POk ↦ WNone, PRefused RTooLarge ↦ WTooLarge, every other ↦ WErr
     with_put f x                                        the fault assignment f with its result-put outcome set to x
   The request machine's cache contents (cstate) stay abstract; the store state s is any state reachable through
   DiskCache::put / put_preprocessor_cache_entry / get histories — with any number of failing writes — from the open
   of ANY directory (C07_put_never_wedges' `drun (reopen s0 c) ops`). *)
From Coq Require Import List NArith Bool Lia.
From Sccache Require Import Base.Sx Model.Stats.
From Sccache Require Import Model.Lru Model.LruPut Proofs.Lru Proofs.LruPut.
From Sccache Require Model.ReqSM Proofs.ReqSM.
Import ListNotations.
Local Open Scope N_scope.

Module RM := Sccache.Model.ReqSM.
Module RP := Sccache.Proofs.ReqSM.

Definition fault_class (p : pres) : RM.put_fault :=
  match p with
  | POk => RM.WNone
  | PRefused RTooLarge => RM.WTooLarge
  | PRefused _ => RM.WErr
  | PWriteErr => RM.WErr
  | PCommitErr _ => RM.WErr
  end.

Definition with_put (f : RM.faults) (x : RM.put_fault) : RM.faults :=
  {| RM.f_ppget := RM.f_ppget f; RM.f_ppupd := RM.f_ppupd f; RM.f_ppput := RM.f_ppput f; RM.f_get := RM.f_get f;
     RM.f_put := x; RM.f_outdir_ok := RM.f_outdir_ok f |}.

(* what the request machine sees of a store of n bytes under key k into store state s, write-fault oracle wf *)
Definition store_faults (s : st) (k : key) (n : N) (wf : option N) : RM.faults :=
  with_put RM.no_faults (fault_class (snd (put s k n wf))).

Lemma drun_snoc s ops o : drun s (ops ++ [o]) = fst (dstep (drun s ops) o).
Proof. unfold drun. rewrite fold_left_app. reflexivity. Qed.

Lemma dstep_put s k n wf : fst (dstep s (DPut k n wf)) = fst (put s k n wf).
Proof. simpl. destruct (put s k n wf). reflexivity. Qed.

(* 1. the classes: an entry larger than the whole cache is WTooLarge, a failing write of an accepted entry is WErr,
      a store that fits is WNone after ANY history, and the class is never WReadOnly / WPanic *)
Theorem put_fault_classes :
  (forall s k n wf, cap s < n -> fault_class (snd (put s k n wf)) = RM.WTooLarge /\ fst (put s k n wf) = s) /\
  (forall s k n m, snd (prepare_add s k n) = ROk -> fault_class (snd (put s k n (Some m))) = RM.WErr) /\
  (forall s0 c ops k n, n <= c ->
     fault_class (snd (put (drun (reopen s0 c) ops) k n None)) = RM.WNone /\
     alookup k (index (fst (put (drun (reopen s0 c) ops) k n None))) = Some n) /\
  (forall s k n wf, fault_class (snd (put s k n wf)) <> RM.WReadOnly /\ fault_class (snd (put s k n wf)) <> RM.WPanic).
Proof.
  split; [|split; [|split]].
  - intros s k n wf Hlt.
    destruct (C07_too_large_refused_proof s k n Hlt) as (_ & _ & Hp & _). simpl in Hp.
    unfold put. destruct (prepare_add s k n) as [s1 r1]. inversion Hp; subst. split; reflexivity.
  - intros s k n m E. unfold put.
    destruct (prepare_add s k n) as [s1 r1]. simpl in E. subst r1. reflexivity.
  - intros s0 c ops k n Hn.
    destruct (C07_put_never_wedges_proof s0 c ops) as (_ & _ & _ & Hc & Hput).
    destruct (Hput k n) as [H1 H2]; [rewrite Hc; exact Hn|]. rewrite H1. split; [reflexivity | exact H2].
  - intros s k n wf. destruct (snd (put s k n wf)) as [|[]| |r]; simpl; split; discriminate.
Qed.

Lemma calm_with_put f x o : RP.calm f o -> RP.calm (with_put f x) o.
Proof. intro H. exact H. Qed.

(* 2. C09_repopulates with its "fault-free store" premise discharged: after ANY history of the real store — failing
      writes included — a fault-free compile of a unit whose packed entry fits the configured size sees the fault
      assignment no_faults, so it re-populates the cache and the next request is a hit that runs no compiler. *)
Theorem repopulates_after_any_store_history
        (w : RM.world) (st : RM.cstate) (t : N) (s0 : Lru.st) (c : N) (ops : list dop) (k : key) (n : N) :
  RP.consistent w -> RP.Inv w st -> RP.sane (w t) -> RP.calm_oracle (w t) -> RM.cs_ro st = false ->
  RM.o_pp_status (w t) = 0 -> RM.o_c_status (w t) = 0 -> RM.o_cacheable (w t) = true ->
  n <= c ->
  let f := store_faults (drun (reopen s0 c) ops) k n None in
  f = RM.no_faults /\
  let '(st1, r1, _) := RM.request f RM.QCompile RM.CCDefault (w t) st in
  let '(st2, r2, _) := RM.request f RM.QCompile RM.CCDefault (w t) st1 in
  RM.kv_get (RM.o_key (w t)) (RM.cs_res st1)
  = Some (RM.RGood (RM.o_c_stdout (w t)) (RM.o_c_stderr (w t)) (RM.o_c_outputs (w t)))
  /\ RP.transparent (w t) r1 /\ RP.is_hit_of (w t) r2 /\ RP.transparent (w t) r2.
Proof.
  intros HC HI HS HCalm Hro Hpp Hcs Hcab Hn f.
  assert (Ef : f = RM.no_faults).
  { unfold f, store_faults. destruct put_fault_classes as (_ & _ & Hfit & _).
    destruct (Hfit s0 c ops k n Hn) as [E _]. rewrite E. reflexivity. }
  split; [exact Ef|]. rewrite Ef. apply RP.repopulates; assumption.
Qed.

(* 3. whatever the store answers to THIS request's put (too large, write error after any number of bytes, commit
      refused), the client gets the compiler's own result, and the store is not wedged by it: every later put that
      fits is accepted *)
Theorem store_fault_transparent_and_recovers
        (w : RM.world) (st : RM.cstate) (t : N) (f0 : RM.faults) (cl : RM.req_class) (cc : RM.cache_control)
        (s0 : Lru.st) (c : N) (ops : list dop) (k : key) (n : N) (wf : option N) :
  RP.consistent w -> RP.Inv w st -> RP.sane (w t) -> RM.f_outdir_ok f0 = true -> RP.calm f0 (w t) ->
  let s := drun (reopen s0 c) ops in
  let f := with_put f0 (fault_class (snd (put s k n wf))) in
  RP.transparent (w t) (snd (fst (RM.request f cl cc (w t) st))) /\
  let s' := fst (put s k n wf) in
  inv s' /\ handles s' = [] /\ pending_size s' = 0 /\
  forall k' n', n' <= c ->
    snd (put s' k' n' None) = POk /\ alookup k' (index (fst (put s' k' n' None))) = Some n'.
Proof.
  intros HC HI HS HO HCalm s f. split.
  - apply RP.request_transparent; try assumption; apply calm_with_put; exact HCalm.
  - intro s'.
    assert (E : s' = drun (reopen s0 c) (ops ++ [DPut k n wf])).
    { unfold s', s. rewrite drun_snoc, dstep_put. reflexivity. }
    destruct (C07_put_never_wedges_proof s0 c (ops ++ [DPut k n wf])) as (H1 & H2 & H3 & H4 & H5).
    rewrite <- E in H1, H2, H3, H4, H5.
    split; [exact H1|]. split; [exact H2|]. split; [exact H3|].
    intros k' n' Hn'. apply H5. rewrite H4. exact Hn'.
Qed.
