(* Proofs/DistRustInputs.v — C13: dependency rlibs are only trimmed when nothing needs their object code. *)
From Coq Require Import List Bool.
From Sccache Require Import Model.DistRustInputs.
Import ListNotations.

Definition any_ty (f : cty -> bool) (opts : list (list cty)) : bool := existsb (existsb f) opts.

Lemma parse_opts_spec opts : forall acc c,
  parse_opts opts acc = Some c ->
  any_ty is_other opts = false
  /\ c_rlib c = c_rlib acc || any_ty is_rlib opts
  /\ c_staticlib c = c_staticlib acc || any_ty is_staticlib opts.
Proof.
  induction opts as [|v rest IH]; intros acc c H; simpl in *.
  - inversion H; subst. rewrite !orb_false_r. auto.
  - destruct (existsb is_other v) eqn:O; [discriminate|].
    apply IH in H as (A & B & C). simpl in B, C. rewrite A, B, C, !orb_assoc. auto.
Qed.

Lemma needs_object_code_cases t : needs_object_code t = is_staticlib t || is_other t.
Proof. destruct t; reflexivity. Qed.

Lemma any_ty_or f g opts :
  any_ty (fun t => f t || g t) opts = any_ty f opts || any_ty g opts.
Proof.
  unfold any_ty. induction opts as [|v rest IH]; simpl; [reflexivity|].
  rewrite IH. assert (E : existsb (fun t => f t || g t) v = existsb f v || existsb g v).
  { clear IH. induction v as [|t v IHv]; simpl; [reflexivity|]. rewrite IHv.
    generalize (f t) (g t) (existsb f v) (existsb g v). intros [] [] [] []; reflexivity. }
  rewrite E.
  generalize (existsb f v) (existsb g v) (existsb (existsb f) rest) (existsb (existsb g) rest).
  intros [] [] [] []; reflexivity.
Qed.

Lemma any_ty_ext f g opts : (forall t, f t = g t) -> any_ty f opts = any_ty g opts.
Proof.
  intros E. unfold any_ty. induction opts as [|v rest IH]; simpl; [reflexivity|]. rewrite IH. f_equal.
  induction v as [|t v IHv]; simpl; [reflexivity|]. rewrite E, IHv. reflexivity.
Qed.

(* a request one of whose crate types needs object code is either not distributed at all or sends every
   dependency rlib complete — whatever the order, grouping and repetition of the --crate-type options *)
Lemma rlibs_complete_when_needed opts sibling legacy :
  any_ty needs_object_code opts = true ->
  packaged opts sibling legacy = None \/ packaged opts sibling legacy = Some Complete.
Proof.
  intros N. unfold packaged, crate_types.
  destruct (parse_opts opts {| c_rlib := false; c_staticlib := false |}) as [c|] eqn:P; [|left; reflexivity].
  apply parse_opts_spec in P as (O & _ & S). simpl in S.
  rewrite (any_ty_ext _ _ opts needs_object_code_cases), any_ty_or, O, orb_false_r in N.
  destruct (c_rlib c || c_staticlib c); [|left; reflexivity].
  right. unfold send_rlib, can_trim_rlibs. rewrite S, N, andb_false_r. reflexivity.
Qed.

(* no dependency rlib is ever left out of the inputs *)
Lemma rlib_never_missing opts sibling meta : packaged opts sibling meta <> Some Missing.
Proof.
  unfold packaged. destruct (crate_types opts); [|discriminate]. unfold send_rlib.
  destruct (can_trim_rlibs c && negb sibling && meta); discriminate.
Qed.

