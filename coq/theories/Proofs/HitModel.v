(* Proofs/HitModel.v — lemmas and proofs about Model/HitModel.v (property C03).

   Layout:
     A  membership lemmas on association lists
     B  the store invariant [sinv] and what get / put / reopen do to it
     C  the world invariant [winv] and its preservation by every event
     D  frame lemmas: what a request on another cache path leaves alone
     E  hit after store
     F  restart: what reopen keeps
     G  the key ignores what is not hashed *)
From Coq Require Import List NArith Bool Lia ZifyBool Permutation.
From Sccache Require Import Base.Sx.
From Sccache Require Import Model.Lru.
From Sccache Require Import Proofs.Lru.
From Sccache Require Import Model.HitModel.
Import ListNotations.
Local Open Scope N_scope.

#[local] Arguments N.add : simpl never.
#[local] Arguments N.sub : simpl never.
#[local] Arguments N.leb : simpl never.
#[local] Arguments N.ltb : simpl never.
#[local] Arguments N.eqb : simpl never.

(* ====================================================================== *)
(* A. membership                                                           *)
(* ====================================================================== *)

Lemma In_keys_alookup {V} k (l : list (key * V)) : In k (keys l) <-> alookup k l <> None.
Proof.
  split.
  - intros H. apply In_key_lookup in H as [v ->]. discriminate.
  - intros H. destruct (alookup k l) eqn:E; [eapply alookup_Some_key; eauto | congruence].
Qed.

Lemma amem_In {V} k (l : list (key * V)) : amem k l = true <-> In k (keys l).
Proof.
  rewrite In_keys_alookup. unfold amem. destruct (alookup k l); split; congruence.
Qed.

Lemma keys_ains {V} k k' (v : V) l : In k' (keys (ains k v l)) <-> k' = k \/ In k' (keys l).
Proof.
  rewrite !In_keys_alookup. destruct (key_eq_dec k' k) as [->|Hn].
  - rewrite alookup_ains_eq. split; [auto | discriminate].
  - rewrite alookup_ains_neq by auto. split; [auto | intros [H|H]; [congruence | auto]].
Qed.

Lemma keys_rmkeys {V} ks k (fs : list (key * V)) :
  In k (keys (rmkeys ks fs)) <-> ~ In k ks /\ In k (keys fs).
Proof.
  rewrite !In_keys_alookup. destruct (in_dec key_eq_dec k ks) as [Hin|Hin].
  - rewrite alookup_rmkeys_in by auto. split; [congruence | tauto].
  - rewrite alookup_rmkeys_notin by auto. tauto.
Qed.

Lemma keys_snoc_aremove {V} k k' (v : V) l :
  In k' (keys (aremove k l ++ [(k, v)])) <-> k' = k \/ In k' (keys l).
Proof.
  rewrite keys_app, in_app_iff, keys_aremove. simpl.
  destruct (key_eq_dec k' k) as [->|Hn]; [tauto|]. split.
  - intros [[_ H]|[H|[]]]; [auto | congruence].
  - intros [H|H]; [congruence | auto].
Qed.

(* ---------- the order on byte strings ---------- *)

Lemma bytes_ltb_irrefl a : bytes_ltb a a = false.
Proof. induction a as [|x a IH]; simpl; auto. replace (x <? x) with false by lia. exact IH. Qed.

Lemma bytes_ltb_trans a : forall b c, bytes_ltb a b = true -> bytes_ltb b c = true -> bytes_ltb a c = true.
Proof.
  induction a as [|x a IH]; intros [|y b] [|z c]; simpl; auto; try discriminate.
  destruct (x <? y) eqn:E1, (y <? x) eqn:E2, (y <? z) eqn:E3, (z <? y) eqn:E4,
           (x <? z) eqn:E5, (z <? x) eqn:E6; try lia; auto; try discriminate.
  apply IH.
Qed.

Lemma bytes_ltb_tri a : forall b, bytes_ltb a b = false -> bytes_ltb b a = false -> a = b.
Proof.
  induction a as [|x a IH]; intros [|y b]; simpl; auto; try discriminate.
  destruct (x <? y) eqn:E1, (y <? x) eqn:E2; try discriminate; try lia.
  intros H1 H2. assert (x = y) by lia. subst. f_equal. apply IH; auto.
Qed.

Lemma bytes_ltb_asym a b : bytes_ltb a b = true -> bytes_ltb b a = false.
Proof.
  intros H. destruct (bytes_ltb b a) eqn:E; auto.
  pose proof (bytes_ltb_trans _ _ _ H E) as H1. rewrite bytes_ltb_irrefl in H1. discriminate.
Qed.

(* strictly ascending keys: the canonical directory listing *)
Fixpoint ksorted (l : list key) : Prop :=
  match l with
  | [] => True
  | x :: r => Forall (fun y => bytes_ltb x y = true) r /\ ksorted r
  end.

Lemma ksorted_NoDup l : ksorted l -> NoDup l.
Proof.
  induction l as [|x r IH]; simpl; [constructor|]. intros [H1 H2]. constructor; auto.
  intros Hin. rewrite Forall_forall in H1. apply H1 in Hin. rewrite bytes_ltb_irrefl in Hin. discriminate.
Qed.

Lemma ksorted_ains {V} k (v : V) l : ksorted (keys l) -> ksorted (keys (ains k v l)).
Proof.
  induction l as [|[k' v'] r IH]; simpl.
  - intros _. split; [constructor | exact I].
  - intros [H1 H2]. destruct (bytes_eqb k k') eqn:E.
    + apply bytes_eqb_eq in E; subst. simpl. auto.
    + apply bytes_eqb_neq in E. destruct (bytes_ltb k k') eqn:L; simpl.
      * split; [|split; auto]. constructor; auto.
        rewrite Forall_forall in *. intros y Hy. eapply bytes_ltb_trans; eauto.
      * split; [|auto]. rewrite Forall_forall in *. intros y Hy.
        apply keys_ains in Hy as [->|Hy]; [|auto].
        destruct (bytes_ltb k' k) eqn:L2; auto. exfalso. apply E. apply bytes_ltb_tri; auto.
Qed.

Lemma ksorted_aremove {V} k (l : list (key * V)) : ksorted (keys l) -> ksorted (keys (aremove k l)).
Proof.
  induction l as [|[k' v'] r IH]; simpl; auto.
  intros [H1 H2]. destruct (bytes_eqb k k'); simpl; auto. split; auto.
  rewrite Forall_forall in *. intros y Hy. apply keys_aremove in Hy as [_ Hy]. auto.
Qed.

Lemma ksorted_rmkeys {V} ks : forall (l : list (key * V)), ksorted (keys l) -> ksorted (keys (rmkeys ks l)).
Proof.
  induction ks as [|k r IH]; simpl; auto. intros l H. apply IH, ksorted_aremove, H.
Qed.

(* ====================================================================== *)
(* B. the store between two requests                                       *)
(* ====================================================================== *)

(* no store in flight *)
Definition quiet (s : st) : Prop := handles s = [].

(* every indexed entry has its file *)
Definition ixf (s : st) : Prop := forall k, In k (keys (index s)) -> In k (keys (files s)).

(* the directory listing is kept in canonical (strictly ascending) order *)
Definition fsorted (s : st) : Prop := ksorted (keys (files s)).

Definition sinv (s : st) : Prop := inv s /\ quiet s /\ ixf s /\ fsorted s.

Lemma sinv_empty c : sinv (Lru.empty c).
Proof.
  split; [|split].
  - split; [unfold acct | unfold hwf]; simpl.
    + repeat split; try constructor; lia.
    + split; [constructor | intros h []].
  - reflexivity.
  - split; [intros k [] | exact I].
Qed.

Lemma quiet_pending s : inv s -> quiet s -> pending_size s = 0.
Proof. intros [(_ & _ & _ & Hp) _] Hq. rewrite Hp, Hq. reflexivity. Qed.

Lemma get_spec s k s' r t : sinv s -> Lru.get s k = (s', r, t) ->
  sinv s' /\ cap s' = cap s /\
  (forall k', In k' (keys (index s')) <-> In k' (keys (index s))) /\
  (forall k', In k' (keys (files s')) <-> In k' (keys (files s))) /\
  (In k (keys (index s)) <-> r = ROk).
Proof.
  intros (Hi & Hq & Hx & Hs) G. pose proof (inv_get _ _ _ _ _ Hi G) as Hi'.
  unfold Lru.get, lru_get in G. destruct (alookup k (index s)) as [sz|] eqn:E.
  - assert (Hk : In k (keys (index s))) by (eapply alookup_Some_key; eauto).
    destruct (In_key_lookup _ _ (Hx _ Hk)) as [[fsz mt] F]. simpl in G. rewrite F in G.
    inversion G; subst; clear G.
    assert (Hidx : forall k', In k' (keys (aremove k (index s) ++ [(k, sz)])) <-> In k' (keys (index s))).
    { intros k'. rewrite keys_snoc_aremove. split; [intros [->|H]; auto | auto]. }
    assert (Hfs : forall k', In k' (keys (ains k (fsz, clock s + 1) (files s))) <-> In k' (keys (files s))).
    { intros k'. rewrite keys_ains. split; [intros [->|H]; auto | auto]. }
    split; [|split; [reflexivity|split; [exact Hidx|split; [exact Hfs|]]]].
    + split; [exact Hi'|split; [exact Hq|split]].
      * intros k' H. simpl in *. apply Hfs, Hx, Hidx, H.
      * unfold fsorted. simpl. apply ksorted_ains, Hs.
    + tauto.
  - inversion G; subst; clear G.
    split; [split; [exact Hi|split; [exact Hq|split; [exact Hx|exact Hs]]]|split; [reflexivity|split; [tauto|split; [tauto|]]]].
    split; [|discriminate]. intros H. apply In_keys_alookup in H. congruence.
Qed.

(* what DiskCache::put does to a quiet store *)
Lemma put_spec s k sz s' b : sinv s -> put s k sz = (s', b) ->
  sinv s' /\ cap s' = cap s /\
  (b = true -> In k (keys (index s'))) /\
  (forall k', In k' (keys (files s')) -> (b = true /\ k' = k) \/ In k' (keys (files s))) /\
  (forall k', k' <> k -> In k' (keys (index s')) -> In k' (keys (index s))).
Proof.
  intros (Hi & Hq & Hx & Hs) P. unfold put in P.
  destruct (prepare_add s k sz) as [s1 r1] eqn:PA.
  pose proof (inv_prepare_add _ _ _ _ _ Hi PA) as Hi1.
  unfold prepare_add in PA. destruct (make_space s sz) as [ok sa] eqn:MS.
  pose proof MS as MS2. apply inv_make_space in MS2 as [Hia Hba]; [|exact Hi].
  apply make_space_spec in MS as (pre & idx' & m' & -> & Hidx & Hm' & _ & _ & Hfail).
  pose proof Hi as [(Hm & _ & Hnd & _) _].
  assert (Hsub : forall k', In k' (keys idx') -> In k' (keys (rmkeys (keys pre) (files s)))).
  { intros k' H. apply keys_rmkeys. split.
    - intros Hp. rewrite Hidx, keys_app in Hnd. eapply NoDup_app_disj; eauto.
    - apply Hx. rewrite Hidx, keys_app, in_app_iff. auto. }
  destruct ok.
  2:{ (* the reservation was refused: nothing happened *)
      inversion PA; subst; clear PA. inversion P; subst; clear P.
      destruct (Hfail Hm eq_refl) as [-> Hsame]. simpl in Hsame.
      split; [|split; [reflexivity|split; [discriminate|split]]].
      - split; [exact Hi1|split; [exact Hq|split; [|exact Hs]]]. intros k' H. simpl in *. apply Hsub in H. exact H.
      - intros k' H. simpl in H. auto.
      - intros k' _ H. simpl in H. rewrite Hidx. simpl. exact H. }
  inversion PA; subst; clear PA. rewrite Hq in P, Hi1. simpl in P, Hi1.
  unfold write_tmp in P. simpl in P. rewrite N.eqb_refl in P. simpl in P.
  (* the commit *)
  revert P. destruct (commit _ _) as [[s3 r3] t3] eqn:C. intros P.
  match type of C with commit ?S _ = _ => assert (Hi2 : inv S) end.
  { eapply inv_write_tmp with (h := next_h s) (m := sz); [exact Hi1|].
    unfold write_tmp. simpl. rewrite N.eqb_refl. reflexivity. }
  pose proof (inv_commit _ _ _ _ _ Hi2 C) as Hi3.
  pose proof (inv_release _ (next_h s) (Build_handle k sz (0 + sz)) Hi2) as Hir.
  unfold commit in C. simpl in C, Hir. rewrite N.eqb_refl in C, Hir.
  specialize (Hir eq_refl). simpl in C, Hir. try rewrite N.eqb_refl in C. try rewrite N.eqb_refl in Hir.
  simpl in C, Hir.
  revert C. destruct (make_space _ _) as [ok2 sb] eqn:MS2. intros C.
  pose proof MS2 as MS3. apply inv_make_space in MS3 as [Hib Hbb]; [|exact Hir].
  apply make_space_spec in MS2 as (pre2 & idx2 & m2 & -> & Hidx2 & _ & _ & _ & _).
  simpl in Hidx2.
  assert (Hnd' : NoDup (keys idx')).
  { rewrite Hidx, keys_app in Hnd. eapply NoDup_app_r; eauto. }
  assert (Hsub2 : forall k', In k' (keys idx2) ->
            In k' (keys (rmkeys (keys pre2) (rmkeys (keys pre) (files s))))).
  { intros k' H. apply keys_rmkeys. split.
    - intros Hp. rewrite Hidx2, keys_app in Hnd'. eapply NoDup_app_disj; eauto.
    - apply Hsub. rewrite Hidx2, keys_app, in_app_iff. auto. }
  assert (Hin2 : forall k', In k' (keys idx2) -> In k' (keys idx')).
  { intros k' H. rewrite Hidx2, keys_app, in_app_iff. auto. }
  destruct ok2.
  - rewrite lru_insert_inv_eq in C; [|apply inv_tick, inv_set_files; exact Hib | simpl; apply Hbb; auto].
    simpl in C. inversion C; subst; clear C. inversion P; subst; clear P.
    split; [|split; [reflexivity|split; [|split]]].
    + split; [exact Hi3|split; [reflexivity|split]].
      * intros k' H. simpl in *.
        apply keys_snoc_aremove in H. apply keys_ains. destruct H as [H|H]; auto.
      * unfold fsorted. simpl. apply ksorted_ains, ksorted_rmkeys, ksorted_rmkeys, Hs.
    + intros _. simpl. apply keys_snoc_aremove. auto.
    + intros k' H. simpl in H. apply keys_ains in H as [H|H]; [auto|].
      right. apply keys_rmkeys in H as [_ H]. apply keys_rmkeys in H. tauto.
    + intros k' Hn H. simpl in H. apply keys_snoc_aremove in H as [H|H]; [congruence|].
      rewrite Hidx, keys_app, in_app_iff. right. apply Hin2, H.
  - inversion C; subst; clear C. inversion P; subst; clear P.
    split; [|split; [reflexivity|split; [discriminate|split]]].
    + split; [exact Hi3|split; [reflexivity|split]].
      * intros k' H. simpl in *. apply Hsub2, H.
      * unfold fsorted. simpl. apply ksorted_rmkeys, ksorted_rmkeys, Hs.
    + intros k' H. simpl in H. right. apply keys_rmkeys in H as [_ H]. apply keys_rmkeys in H. tauto.
    + intros k' _ H. simpl in H.
      rewrite Hidx, keys_app, in_app_iff. right. apply Hin2, H.
Qed.

Lemma get_measure s k s' r t : Lru.get s k = (s', r, t) -> measure s' = measure s.
Proof.
  unfold Lru.get, lru_get. destruct (alookup k (index s)) as [sz|]; [|intros H; inversion H; reflexivity].
  simpl. destruct (alookup k (files s)) as [[fsz mt]|]; intros H; inversion H; reflexivity.
Qed.

(* a store that fits beside what is indexed evicts nothing *)
Lemma put_noevict s k sz s' b : sinv s -> measure s + sz <= cap s -> put s k sz = (s', b) ->
  forall k', In k' (keys (index s)) -> In k' (keys (index s')).
Proof.
  intros (Hi & Hq & Hx & Hs) Hfit P. pose proof (quiet_pending s Hi Hq) as Hp0.
  assert (Hms : make_space s sz = (true, set_files (set_lru s (index s) (measure s)) (files s))).
  { unfold make_space. replace (negb (sz <=? cap s) || negb (pending_size s + sz <=? cap s)) with false by lia.
    rewrite evict_noop by lia. reflexivity. }
  unfold put in P. destruct (prepare_add s k sz) as [s1 r1] eqn:PA.
  pose proof (inv_prepare_add _ _ _ _ _ Hi PA) as Hi1.
  unfold prepare_add in PA. rewrite Hms in PA. inversion PA; subst; clear PA. clear Hms.
  rewrite Hq in P, Hi1. simpl in P, Hi1.
  unfold write_tmp in P. simpl in P. rewrite N.eqb_refl in P. simpl in P.
  revert P. destruct (commit _ _) as [[s3 r3] t3] eqn:C. intros P.
  match type of C with commit ?S _ = _ => assert (Hi2 : inv S) end.
  { eapply inv_write_tmp with (h := next_h s) (m := sz); [exact Hi1|].
    unfold write_tmp. simpl. rewrite N.eqb_refl. reflexivity. }
  pose proof (inv_release _ (next_h s) (Build_handle k sz (0 + sz)) Hi2) as Hir.
  unfold commit in C. simpl in C, Hir. rewrite N.eqb_refl in C, Hir.
  specialize (Hir eq_refl). simpl in C, Hir. try rewrite N.eqb_refl in C. try rewrite N.eqb_refl in Hir.
  simpl in C, Hir.
  revert C. destruct (make_space _ _) as [ok2 sb] eqn:MS2. intros C.
  pose proof MS2 as MS3. apply inv_make_space in MS3 as [Hib Hbb]; [|exact Hir].
  unfold make_space in MS2. simpl in MS2.
  replace (negb (0 + sz <=? cap s) || negb (pending_size s + sz - sz + (0 + sz) <=? cap s)) with false in MS2 by lia.
  rewrite evict_noop in MS2 by (simpl; lia). inversion MS2; subst; clear MS2.
  rewrite lru_insert_inv_eq in C; [|apply inv_tick, inv_set_files; exact Hib | simpl; apply Hbb; auto].
  simpl in C. inversion C; subst; clear C. inversion P; subst; clear P.
  intros k' Hk. simpl. apply keys_snoc_aremove. auto.
Qed.

(* ---------- reopen ---------- *)

Lemma ins_mtime_perm e l : Permutation (ins_mtime e l) (e :: l).
Proof.
  induction l as [|e' r IH]; simpl; auto.
  destruct (snd (snd e) <? snd (snd e')); auto.
  eapply perm_trans; [apply perm_skip, IH | apply perm_swap].
Qed.

Lemma sort_mtime_perm l : Permutation (sort_mtime l) l.
Proof.
  induction l as [|e r IH]; simpl; auto.
  eapply perm_trans; [apply ins_mtime_perm | apply perm_skip, IH].
Qed.

Lemma keys_perm {V} (a b : list (key * V)) : Permutation a b -> Permutation (keys a) (keys b).
Proof. apply Permutation_map. Qed.

Lemma inv_fresh c fs nh ck :
  inv {| cap := c; index := []; measure := 0; pending := []; pending_size := 0;
         files := fs; handles := []; next_h := nh; clock := ck |}.
Proof.
  split; [unfold acct | unfold hwf]; simpl.
  - repeat split; try constructor; lia.
  - split; [constructor | intros h []].
Qed.

(* the general case: whatever init evicts or deletes, every indexed entry has its file *)
Lemma reopen_fold l : forall s,
  NoDup (keys l) -> inv s -> quiet s -> fsorted s ->
  (forall k, In k (keys (index s)) -> In k (keys (files s)) /\ ~ In k (keys l)) ->
  (forall k, In k (keys l) -> In k (keys (files s))) ->
  inv (fold_left init_add l s) /\ quiet (fold_left init_add l s) /\ ixf (fold_left init_add l s) /\
  fsorted (fold_left init_add l s) /\ cap (fold_left init_add l s) = cap s /\
  (forall k, In k (keys (files (fold_left init_add l s))) -> In k (keys (files s))).
Proof.
  induction l as [|[k [sz mt]] l IH]; intros s Hnd Hi Hq Hs H1 H2; simpl.
  - split; [exact Hi|split; [exact Hq|split; [|split; [exact Hs|split; [reflexivity|auto]]]]].
    intros k H. apply H1, H.
  - simpl in Hnd. inversion Hnd as [|? ? Hk Hnd']; subst.
    assert (Hrm : forall s1, inv s1 -> quiet s1 -> cap s1 = cap s -> index s1 = index s ->
              files s1 = aremove k (files s) ->
              inv (fold_left init_add l s1) /\ quiet (fold_left init_add l s1) /\ ixf (fold_left init_add l s1) /\
              fsorted (fold_left init_add l s1) /\ cap (fold_left init_add l s1) = cap s /\
              (forall k0, In k0 (keys (files (fold_left init_add l s1))) -> In k0 (keys (files s)))).
    { intros s1 Hi1 Hq1 Hc1 Hx1 Hf1.
      destruct (IH s1 Hnd' Hi1 Hq1) as (A & B & C & D & E & F).
      - unfold fsorted. rewrite Hf1. apply ksorted_aremove, Hs.
      - intros k0 H. rewrite Hx1 in H. destruct (H1 _ H) as [Ha Hb]. simpl in Hb.
        split; [|tauto]. rewrite Hf1. apply keys_aremove. split; [intros ->; tauto | auto].
      - intros k0 H. rewrite Hf1. apply keys_aremove. split; [intros ->; tauto|]. apply H2. simpl. auto.
      - split; [exact A|split; [exact B|split; [exact C|split; [exact D|split; [congruence|]]]]].
        intros k0 H. apply F in H. rewrite Hf1 in H. apply keys_aremove in H. tauto. }
    destruct (is_temp k); [apply Hrm; auto; apply inv_set_files; auto|].
    destruct (negb (sz <=? cap s)); [apply Hrm; auto; apply inv_set_files; auto|].
    destruct (make_space s sz) as [ok sa] eqn:MS.
    pose proof MS as MS2. apply inv_make_space in MS2 as [Hia Hba]; [|exact Hi].
    apply make_space_spec in MS as (pre & idx' & m' & -> & Hidx & _ & _ & _ & Hfail).
    pose proof Hi as [(Hm & _ & Hndi & _) _].
    assert (Hpre : forall k0, In k0 (keys pre) -> ~ In k0 (k :: keys l)).
    { intros k0 H. apply (H1 k0). rewrite Hidx, keys_app, in_app_iff. auto. }
    assert (Hsub : forall k0, In k0 (keys idx') -> In k0 (keys (rmkeys (keys pre) (files s))) /\ ~ In k0 (k :: keys l)).
    { intros k0 H. assert (Hin : In k0 (keys (index s))) by (rewrite Hidx, keys_app, in_app_iff; auto).
      destruct (H1 _ Hin) as [Ha Hb]. split; [|exact Hb]. apply keys_rmkeys. split; [|exact Ha].
      intros Hp. rewrite Hidx, keys_app in Hndi. eapply NoDup_app_disj; eauto. }
    assert (Hrest : forall k0, In k0 (k :: keys l) -> In k0 (keys (rmkeys (keys pre) (files s)))).
    { intros k0 H. apply keys_rmkeys. split; [intros Hp; exact (Hpre _ Hp H) | apply H2, H]. }
    destruct ok.
    + assert (Heq := lru_insert_inv_eq _ k sz Hia (Hba eq_refl)).
      pose proof (inv_lru_insert _ k sz Hia (Hba eq_refl)) as Hins.
      rewrite Heq in Hins |- *.
      match goal with |- context [fold_left init_add l ?S] => set (s1 := S) in * end.
      destruct (IH s1 Hnd') as (A & B & C & D & E & F).
      * exact Hins.
      * exact Hq.
      * unfold fsorted. simpl. apply ksorted_rmkeys, Hs.
      * intros k0 H. simpl in H. apply keys_snoc_aremove in H as [->|H]; simpl.
        -- split; [apply Hrest; simpl; auto | exact Hk].
        -- destruct (Hsub _ H) as [Ha Hb]. simpl in Hb. tauto.
      * intros k0 H. simpl. apply Hrest. simpl. auto.
      * split; [exact A|split; [exact B|split; [exact C|split; [exact D|split; [exact E|]]]]].
        intros k0 H. apply F in H. simpl in H. apply keys_rmkeys in H. tauto.
    + destruct (Hfail Hm eq_refl) as [-> Hsame]. rewrite Hsame.
      destruct (IH s Hnd' Hi Hq Hs) as (A & B & C & D & E & F).
      * intros k0 H. destruct (H1 _ H) as [Ha Hb]. simpl in Hb. tauto.
      * intros k0 H. apply H2. simpl. auto.
      * split; [exact A|split; [exact B|split; [exact C|split; [exact D|split; [exact E|exact F]]]]].
Qed.

Lemma reopen_spec s : sinv s ->
  sinv (reopen s (cap s)) /\ cap (reopen s (cap s)) = cap s /\
  (forall k, In k (keys (files (reopen s (cap s)))) -> In k (keys (files s))).
Proof.
  intros (Hi & Hq & Hx & Hs). unfold reopen.
  match goal with |- context [fold_left init_add _ ?S] => set (s0 := S) end.
  assert (Hnd : NoDup (keys (sort_mtime (files s)))).
  { eapply Permutation_NoDup; [apply Permutation_sym, keys_perm, sort_mtime_perm | apply ksorted_NoDup, Hs]. }
  destruct (reopen_fold (sort_mtime (files s)) s0 Hnd) as (A & B & C & D & E & F).
  - apply inv_fresh.
  - reflexivity.
  - exact Hs.
  - intros k [].
  - intros k H. simpl. eapply Permutation_in; [apply keys_perm, sort_mtime_perm | exact H].
  - split; [split; [exact A|split; [exact B|split; [exact C|exact D]]]|split; [exact E|exact F]].
Qed.

(* the guarded case: nothing is evicted or deleted, every entry file is re-indexed, in mtime order *)
Definition proj_entry (e : key * (N * N)) : key * N := (fst e, fst (snd e)).

Lemma keys_proj l : keys (map proj_entry l) = keys l.
Proof. unfold keys. rewrite map_map. apply map_ext. intros [k [sz mt]]. reflexivity. Qed.

Lemma reopen_all_fold l : forall s,
  NoDup (keys l) -> inv s -> pending_size s = 0 ->
  (forall k, In k (keys l) -> ~ In k (keys (index s))) ->
  no_temp_names l = true ->
  measure s + files_size l <= cap s ->
  index (fold_left init_add l s) = index s ++ map proj_entry l /\
  files (fold_left init_add l s) = files s /\
  cap (fold_left init_add l s) = cap s /\
  handles (fold_left init_add l s) = handles s.
Proof.
  induction l as [|[k [sz mt]] l IH]; intros s Hnd Hi Hp Hk Ht Hsz; simpl.
  - rewrite app_nil_r. auto.
  - simpl in Hnd, Ht, Hsz. inversion Hnd as [|? ? Hkl Hnd']; subst.
    apply andb_true_iff in Ht as [Ht1 Ht2]. apply negb_true_iff in Ht1. simpl in Ht1. rewrite Ht1.
    replace (negb (sz <=? cap s)) with false by lia.
    pose proof Hi as [(Hm & _ & Hndi & _) _].
    assert (Hms : make_space s sz = (true, set_files (set_lru s (index s) (measure s)) (files s))).
    { unfold make_space. replace (negb (sz <=? cap s) || negb (pending_size s + sz <=? cap s)) with false by lia.
      rewrite evict_noop by lia. reflexivity. }
    rewrite Hms.
    assert (Hia : inv (set_files (set_lru s (index s) (measure s)) (files s))).
    { exact (proj1 (inv_make_space _ _ _ _ Hi Hms)). }
    assert (Hb : measure s + (pending_size s + sz) <= cap s) by lia.
    assert (Heq := lru_insert_inv_eq _ k sz Hia Hb).
    pose proof (inv_lru_insert _ k sz Hia Hb) as Hins.
    rewrite Heq in Hins |- *. simpl in Hins |- *.
    assert (Hnk : alookup k (index s) = None).
    { apply alookup_None. apply Hk. simpl. auto. }
    rewrite (aremove_notin k (index s) Hnk) in Hins |- *.
    match goal with |- context [fold_left init_add l ?S] => set (s1 := S) in * end.
    destruct (IH s1 Hnd' Hins) as (A & B & C & D).
    + exact Hp.
    + intros k0 H Hin. simpl in Hin. rewrite keys_app, in_app_iff in Hin. simpl in Hin.
      destruct Hin as [Hin|[<-|[]]]; [|tauto]. apply (Hk k0); simpl; auto.
    + exact Ht2.
    + simpl. rewrite <- Hm. lia.
    + rewrite A, B, C, D. simpl. rewrite <- app_assoc. auto.
Qed.

Lemma files_size_perm a b : Permutation a b -> files_size a = files_size b.
Proof.
  induction 1 as [|[k [sz mt]] a b H IH|[k1 [s1 m1]] [k2 [s2 m2]] a|a b c H1 IH1 H2 IH2]; simpl; try lia.
Qed.

Lemma no_temp_perm a b : Permutation a b -> no_temp_names a = no_temp_names b.
Proof.
  unfold no_temp_names. induction 1; simpl; auto.
  - rewrite IHPermutation. reflexivity.
  - destruct (negb (is_temp (fst x))), (negb (is_temp (fst y))); reflexivity.
  - congruence.
Qed.

Lemma reopen_all s c :
  NoDup (keys (files s)) -> no_temp_names (files s) = true -> files_size (files s) <= c ->
  index (reopen s c) = map proj_entry (sort_mtime (files s)) /\
  files (reopen s c) = files s /\ cap (reopen s c) = c /\ handles (reopen s c) = [].
Proof.
  intros Hnd Ht Hsz. unfold reopen.
  match goal with |- context [fold_left init_add _ ?S] => set (s0 := S) end.
  pose proof (sort_mtime_perm (files s)) as Hp.
  destruct (reopen_all_fold (sort_mtime (files s)) s0) as (A & B & C & D).
  - eapply Permutation_NoDup; [apply Permutation_sym, keys_perm, Hp | exact Hnd].
  - apply inv_fresh.
  - reflexivity.
  - intros k _ [].
  - rewrite (no_temp_perm _ _ Hp). exact Ht.
  - simpl. rewrite (files_size_perm _ _ Hp). lia.
  - auto.
Qed.

(* ====================================================================== *)
(* C. the world invariant                                                  *)
(* ====================================================================== *)

Lemma restore_ok e outs : forall ws,
  (forall o, In o outs -> o_optional o = false -> alookup (o_role o) e <> None) ->
  fst (restore e outs ws) = true.
Proof.
  induction outs as [|o r IH]; intros ws H; simpl; auto.
  destruct (alookup (o_role o) e) eqn:E.
  - apply IH. intros o' Ho'. apply H. simpl; auto.
  - destruct (o_optional o) eqn:O.
    + apply IH. intros o' Ho'. apply H. simpl; auto.
    + exfalso. apply (H o); simpl; auto.
Qed.

Lemma restore_other e outs : forall ws p,
  ~ In p (map o_path outs) -> alookup p (snd (restore e outs ws)) = alookup p ws.
Proof.
  induction outs as [|o r IH]; intros ws p Hp; simpl; auto.
  simpl in Hp. destruct (alookup (o_role o) e).
  - rewrite IH by tauto. apply alookup_ains_neq. intros ->; tauto.
  - destruct (o_optional o); [apply IH; tauto | reflexivity].
Qed.

Lemma restore_content e outs : forall ws,
  NoDup (map o_path outs) -> fst (restore e outs ws) = true ->
  forall o c, In o outs -> alookup (o_role o) e = Some c ->
  alookup (o_path o) (snd (restore e outs ws)) = Some c.
Proof.
  induction outs as [|o r IH]; intros ws Hnd Hok o' c Hin Hc; simpl in *; [tauto|].
  inversion Hnd as [|? ? Hp Hnd']; subst.
  destruct Hin as [->|Hin].
  - rewrite Hc in *. rewrite restore_other by exact Hp. apply alookup_ains_eq.
  - destruct (alookup (o_role o) e).
    + apply IH; auto.
    + destruct (o_optional o); [apply IH; auto | discriminate].
Qed.

Lemma collect_covers ws outs : forall e, collect ws outs = Some e ->
  forall o, In o outs -> o_optional o = false -> alookup (o_role o) e <> None.
Proof.
  induction outs as [|o r IH]; intros e H o' Hin Hopt; simpl in *; [tauto|].
  destruct (alookup (o_path o) ws) as [c|] eqn:E.
  - destruct (collect ws r) as [e'|] eqn:C; [|discriminate]. inversion H; subst; clear H.
    simpl. destruct Hin as [->|Hin].
    + rewrite bytes_eqb_refl. discriminate.
    + destruct (bytes_eqb (o_role o') (o_role o)); [discriminate | eapply IH; eauto].
  - destruct (o_optional o) eqn:O; [|discriminate].
    destruct Hin as [->|Hin]; [congruence | eapply IH; eauto].
Qed.

Lemma collect_content ws outs : forall e, collect ws outs = Some e ->
  NoDup (map o_role outs) ->
  forall o c, In o outs -> alookup (o_path o) ws = Some c -> alookup (o_role o) e = Some c.
Proof.
  induction outs as [|o r IH]; intros e H Hnd o' c Hin Hc; simpl in *; [tauto|].
  inversion Hnd as [|? ? Hr Hnd']; subst.
  destruct (alookup (o_path o) ws) as [c0|] eqn:E.
  - destruct (collect ws r) as [e'|] eqn:C; [|discriminate]. inversion H; subst; clear H.
    simpl. destruct Hin as [->|Hin].
    + rewrite bytes_eqb_refl. congruence.
    + destruct (bytes_eqb (o_role o') (o_role o)) eqn:B.
      * apply bytes_eqb_eq in B. exfalso. apply Hr. rewrite <- B. apply in_map, Hin.
      * eapply IH; eauto.
  - destruct (o_optional o); [|discriminate].
    destruct Hin as [->|Hin]; [congruence | eapply IH; eauto].
Qed.

Section World.

Variable key_of : fingerprint -> key.
Variable compile : request -> N -> cresult.

Notation do_request := (do_request key_of compile).
Notation req_path := (req_path key_of).
Notation run_events := (run_events key_of compile).
Notation step_event := (step_event key_of compile).

(* between two requests the store is quiet and consistent (the recorded bytes [w_content] are a ghost: a key
   without recorded bytes is a file that cannot be read back as an entry) *)
Definition winv (w : world) : Prop := sinv (w_store w).

Lemma winv_empty c : winv (empty_world c).
Proof. apply sinv_empty. Qed.

(* what a request does, branch by branch *)
Inductive req_shape (w : world) (r : request) (w' : world) (o : outcome) : Prop :=
| RS_error :
    pp_hit key_of w r = false -> cr_pre_ok (compile r (w_compiles w)) = false ->
    w_store w' = w_store w -> w_content w' = w_content w -> w_compiles w' = w_compiles w ->
    oc_kind o = KError -> oc_compiled o = false -> oc_stored o = false -> req_shape w r w' o
| RS_hit s1 res t e ok ws1 :
    Lru.get (w_store w) (req_path r) = (s1, res, t) -> res = ROk ->
    alookup (req_path r) (w_content w) = Some e ->
    restore e (rq_outputs r) (w_ws w) = (ok, ws1) ->
    w_store w' = s1 -> w_content w' = w_content w -> w_ws w' = ws1 -> w_compiles w' = w_compiles w ->
    oc_kind o = (if ok then KHit else KFatal) -> oc_compiled o = false -> oc_stored o = false ->
    req_shape w r w' o
| RS_nostore s1 res t :
    Lru.get (w_store w) (req_path r) = (s1, res, t) ->
    (res <> ROk \/ alookup (req_path r) (w_content w) = None) ->
    w_store w' = s1 -> w_content w' = w_content w -> w_compiles w' = w_compiles w + 1 ->
    oc_compiled o = true -> oc_stored o = false ->
    (oc_kind o = KCompileFailed \/ oc_kind o = KNotCacheable \/ oc_kind o = KFatal) ->
    req_shape w r w' o
| RS_miss s1 res t e s2 stored rerr :
    Lru.get (w_store w) (req_path r) = (s1, res, t) ->
    (res <> ROk \/ alookup (req_path r) (w_content w) = None) ->
    collect (w_ws w') (rq_outputs r) = Some e ->
    put s1 (req_path r) (cr_size (compile r (w_compiles w))) = (s2, stored) ->
    w_store w' = s2 ->
    w_content w' = (if stored then ains (req_path r) e (w_content w) else w_content w) ->
    w_compiles w' = w_compiles w + 1 ->
    oc_kind o = KMiss rerr -> oc_compiled o = true -> oc_stored o = stored ->
    req_shape w r w' o.

Lemma do_request_shape w r w' o : do_request w r = (w', o) -> req_shape w r w' o.
Proof.
  unfold HitModel.do_request.
  assert (Hmiss : forall s1 res t pre_runs pp1 ran,
            Lru.get (w_store w) (req_path r) = (s1, res, t) ->
            (res <> ROk \/ alookup (req_path r) (w_content w) = None) ->
            forall rerr,
            (let cr := compile r (w_compiles w) in
             let ws1 := write_outs (cr_outs cr) (rq_outputs r) (w_ws w) in
             let w1 := {| w_store := s1; w_content := w_content w; w_ws := ws1; w_pp := pp1;
                          w_compiles := w_compiles w + 1; w_pre_runs := pre_runs |} in
             if negb (cr_ok cr) then
               (w1, {| oc_kind := KCompileFailed; oc_compiled := true; oc_pre_ran := ran; oc_stored := false |})
             else if negb (cr_cacheable cr) then
               (w1, {| oc_kind := KNotCacheable; oc_compiled := true; oc_pre_ran := ran; oc_stored := false |})
             else
               match collect ws1 (rq_outputs r) with
               | None => (w1, {| oc_kind := KFatal; oc_compiled := true; oc_pre_ran := ran; oc_stored := false |})
               | Some e =>
                   let '(s2, stored) := put s1 (req_path r) (cr_size cr) in
                   ({| w_store := s2;
                       w_content := if stored then ains (req_path r) e (w_content w) else w_content w;
                       w_ws := ws1; w_pp := pp1; w_compiles := w_compiles w + 1; w_pre_runs := pre_runs |},
                    {| oc_kind := KMiss rerr; oc_compiled := true; oc_pre_ran := ran; oc_stored := stored |})
               end) = (w', o) -> req_shape w r w' o).
  { intros s1 res t pre_runs pp1 ran G Hres rerr. cbv zeta.
    destruct (cr_ok (compile r (w_compiles w))); simpl;
      [destruct (cr_cacheable (compile r (w_compiles w))); simpl|].
    - destruct (collect _ _) as [e|] eqn:C.
      + destruct (put s1 _ _) as [s2 stored] eqn:P. intros H; inversion H; subst; clear H.
        eapply RS_miss; eauto; reflexivity.
      + intros H; inversion H; subst; clear H. eapply RS_nostore; eauto; try reflexivity; simpl; auto.
    - intros H; inversion H; subst; clear H. eapply RS_nostore; eauto; try reflexivity; simpl; auto.
    - intros H; inversion H; subst; clear H. eapply RS_nostore; eauto; try reflexivity; simpl; auto. }
  destruct (negb (pp_hit key_of w r) && negb (cr_pre_ok (compile r (w_compiles w)))) eqn:PE.
  { apply andb_true_iff in PE as [P1 P2]. apply negb_true_iff in P1, P2.
    intros H; inversion H; subst; clear H. eapply RS_error; eauto. }
  destruct (Lru.get (w_store w) (req_path r)) as [[s1 res] t] eqn:G.
  destruct res; try (eapply Hmiss; eauto; left; discriminate).
  destruct (alookup (req_path r) (w_content w)) as [e|] eqn:CT.
  - destruct (restore e (rq_outputs r) (w_ws w)) as [ok ws1] eqn:R.
    intros H; inversion H; subst; clear H. eapply RS_hit; eauto.
  - eapply Hmiss; eauto.
Qed.

Lemma do_request_winv w r w' o : winv w -> do_request w r = (w', o) ->
  winv w' /\ cap (w_store w') = cap (w_store w).
Proof.
  intros Hs H. apply do_request_shape in H. unfold winv in *.
  destruct H as [? ? E1 E2|s1 res t e ok ws1 G ? ? ? E1 E2|s1 res t G ? E1 E2|s1 res t e s2 stored rerr G ? ? P E1 E2];
    rewrite E1.
  - split; [exact Hs|reflexivity].
  - destruct (get_spec _ _ _ _ _ Hs G) as (Hs1 & Hc1 & _). split; [exact Hs1|exact Hc1].
  - destruct (get_spec _ _ _ _ _ Hs G) as (Hs1 & Hc1 & _). split; [exact Hs1|exact Hc1].
  - destruct (get_spec _ _ _ _ _ Hs G) as (Hs1 & Hc1 & _).
    destruct (put_spec _ _ _ _ _ Hs1 P) as (Hs2 & Hc2 & _). split; [exact Hs2|congruence].
Qed.

(* a request on another cache path leaves the recorded bytes of k alone *)
Lemma do_request_frame w r w' o k : do_request w r = (w', o) -> req_path r <> k ->
  alookup k (w_content w') = alookup k (w_content w).
Proof.
  intros H Hn. apply do_request_shape in H.
  destruct H as [? ? E1 E2|s1 res t e ok ws1 G ? ? ? E1 E2|s1 res t G ? E1 E2|s1 res t e s2 stored rerr G ? ? P E1 E2];
    rewrite E2; auto.
  destruct stored; auto. apply alookup_ains_neq. congruence.
Qed.

Lemma damage_winv w p sz : winv w -> winv (damage w p sz) /\ cap (w_store (damage w p sz)) = cap (w_store w).
Proof.
  unfold winv, damage. intros (Hi & Hq & Hx & Hs). destruct (alookup p (files (w_store w))) eqn:F.
  2:{ split; [split; [exact Hi|split; [exact Hq|split; [exact Hx|exact Hs]]]|reflexivity]. }
  simpl. split; [|reflexivity]. split; [apply inv_tick, inv_set_files, Hi|split; [exact Hq|split]].
  - intros k Hk. simpl in *. apply keys_ains. right. apply Hx, Hk.
  - unfold fsorted. simpl. apply ksorted_ains, Hs.
Qed.

Lemma step_event_winv w e : winv w ->
  winv (fst (step_event w e)) /\ cap (w_store (fst (step_event w e))) = cap (w_store w).
Proof.
  intros Hw. destruct e as [r|p| | |r'|p sz]; simpl.
  - destruct (do_request w r) as [w' o] eqn:D. simpl. eapply do_request_winv; eauto.
  - split; [exact Hw | reflexivity].
  - destruct (reopen_spec _ Hw) as (Hs' & Hc' & Hf'). split; [exact Hs'|exact Hc'].
  - split; [exact Hw | reflexivity].
  - split; [exact Hw | reflexivity].
  - apply damage_winv, Hw.
Qed.

Lemma run_events_winv h : forall w, winv w ->
  winv (run_events w h) /\ cap (w_store (run_events w h)) = cap (w_store w).
Proof.
  unfold HitModel.run_events. induction h as [|e h IH]; intros w Hw; simpl; [auto|].
  destruct (step_event_winv w e Hw) as [H1 H2]. destruct (IH _ H1) as [H3 H4]. split; [exact H3|congruence].
Qed.

Lemma run_events_frame h : forall w k,
  (forall r, In r (requests_of h) -> req_path r <> k) ->
  (forall p, In p (damaged_of h) -> p <> k) ->
  alookup k (w_content (run_events w h)) = alookup k (w_content w).
Proof.
  unfold HitModel.run_events. induction h as [|e h IH]; intros w k Hu Hd; simpl; auto.
  destruct e as [r|p| | |r'|p sz]; simpl in *.
  - destruct (do_request w r) as [w' o] eqn:D. simpl. rewrite IH by (intros; auto).
    eapply do_request_frame; eauto.
  - rewrite IH by auto. reflexivity.
  - rewrite IH by auto. reflexivity.
  - apply IH; auto.
  - rewrite IH by auto. reflexivity.
  - rewrite IH by auto. unfold damage. destruct (alookup p (files (w_store w))); [|reflexivity].
    simpl. apply alookup_aremove_neq. intros ->. apply (Hd p); auto.
Qed.

Lemma unrelated_spec r h : unrelated key_of r h = true ->
  (forall r', In r' (requests_of h) -> req_path r' <> req_path r) /\
  (forall p, In p (damaged_of h) -> p <> req_path r).
Proof.
  unfold unrelated. intros H. apply andb_true_iff in H as [H1 H2]. rewrite forallb_forall in H1, H2. split.
  - intros r' Hin E. apply H1 in Hin. rewrite E, bytes_eqb_refl in Hin. discriminate.
  - intros p Hin E. apply H2 in Hin. rewrite E, bytes_eqb_refl in Hin. discriminate.
Qed.

(* ====================================================================== *)
(* E. hit after store                                                      *)
(* ====================================================================== *)

(* a request whose entry is indexed and whose bytes are e is answered from the cache *)
Lemma request_hits w r w' o e : winv w ->
  In (req_path r) (keys (index (w_store w))) ->
  alookup (req_path r) (w_content w) = Some e ->
  (pp_hit key_of w r = true \/ cr_pre_ok (compile r (w_compiles w)) = true) ->
  do_request w r = (w', o) ->
  oc_compiled o = false /\ w_compiles w' = w_compiles w /\
  oc_kind o = (if fst (restore e (rq_outputs r) (w_ws w)) then KHit else KFatal) /\
  w_ws w' = snd (restore e (rq_outputs r) (w_ws w)).
Proof.
  intros Hs Hin Hct Hpre H. unfold winv in Hs. apply do_request_shape in H.
  destruct H as [P1 P2|s1 res t e' ok ws1 G Hr Hct' R E1 E2 E3 E4 K1 K2|s1 res t G Hno|s1 res t e' s2 stored rerr G Hno].
  - destruct Hpre; congruence.
  - rewrite Hct in Hct'. inversion Hct'; subst e'. rewrite R. simpl. auto.
  - exfalso. destruct (get_spec _ _ _ _ _ Hs G) as (_ & _ & _ & _ & Hr). destruct Hno as [Hno|Hno]; [|congruence].
    apply Hno, Hr, Hin.
  - exfalso. destruct (get_spec _ _ _ _ _ Hs G) as (_ & _ & _ & _ & Hr). destruct Hno as [Hno|Hno]; [|congruence].
    apply Hno, Hr, Hin.
Qed.

(* what a request that stored its result leaves behind *)
Lemma request_stored w r w' o : winv w -> do_request w r = (w', o) -> oc_stored o = true ->
  In (req_path r) (keys (index (w_store w'))) /\
  exists e, alookup (req_path r) (w_content w') = Some e /\ collect (w_ws w') (rq_outputs r) = Some e.
Proof.
  intros Hs H Hst. unfold winv in Hs. apply do_request_shape in H.
  destruct H as [? ? ? ? ? ? ? K|s1 res t e ok ws1 G ? ? ? ? ? ? ? ? ? K|s1 res t G ? ? ? ? ? K|s1 res t e s2 stored rerr G Hno C P E1 E2 E3 K1 K2 K3];
    try congruence.
  subst stored.
  destruct (get_spec _ _ _ _ _ Hs G) as (Hs1 & _).
  destruct (put_spec _ _ _ _ _ Hs1 P) as (_ & _ & Hin & _). rewrite E1, E2, Hst. split; [auto|].
  exists e. split; [apply alookup_ains_eq | exact C].
Qed.

Theorem hit_after_store c0 h0 r0 h r1 w1 o0 w3 o1 :
  let w0 := run_events (empty_world c0) h0 in
  do_request w0 r0 = (w1, o0) -> oc_stored o0 = true ->
  unrelated key_of r0 h = true ->
  let w2 := run_events w1 h in
  cached key_of w2 r0 = true ->
  fingerprint_of r1 = fingerprint_of r0 ->
  map (fun o => (o_role o, o_optional o)) (rq_outputs r1) = map (fun o => (o_role o, o_optional o)) (rq_outputs r0) ->
  NoDup (map o_role (rq_outputs r0)) -> NoDup (map o_path (rq_outputs r1)) ->
  (pp_hit key_of w2 r1 = true \/ cr_pre_ok (compile r1 (w_compiles w2)) = true) ->
  do_request w2 r1 = (w3, o1) ->
  oc_kind o1 = KHit /\ oc_compiled o1 = false /\ w_compiles w3 = w_compiles w2 /\
  forall oa ob c, In oa (rq_outputs r0) -> In ob (rq_outputs r1) -> o_role oa = o_role ob ->
    alookup (o_path oa) (w_ws w1) = Some c -> alookup (o_path ob) (w_ws w3) = Some c.
Proof.
  intros w0 D0 St Hun w2 Hca Hfp Hroles Hnr Hnp Hpre D1.
  assert (Hw0 : winv w0) by (apply run_events_winv, winv_empty).
  destruct (do_request_winv _ _ _ _ Hw0 D0) as [Hw1 _].
  destruct (request_stored _ _ _ _ Hw0 D0 St) as (_ & e0 & Hct & Hcol).
  assert (Hw2 : winv w2) by (apply run_events_winv, Hw1).
  assert (Hp : req_path r1 = req_path r0) by (unfold HitModel.req_path; rewrite Hfp; reflexivity).
  assert (Hct2 : alookup (req_path r1) (w_content w2) = Some e0).
  { rewrite Hp. unfold w2. destruct (unrelated_spec _ _ Hun) as [U1 U2]. rewrite run_events_frame; auto. }
  assert (Hin2 : In (req_path r1) (keys (index (w_store w2)))).
  { rewrite Hp. apply amem_In. exact Hca. }
  destruct (request_hits _ _ _ _ _ Hw2 Hin2 Hct2 Hpre D1) as (K1 & K2 & K3 & K4).
  assert (Hok : fst (restore e0 (rq_outputs r1) (w_ws w2)) = true).
  { apply restore_ok. intros ob Hob Hopt.
    assert (Hm : In (o_role ob, o_optional ob) (map (fun o => (o_role o, o_optional o)) (rq_outputs r0))).
    { rewrite <- Hroles. apply (in_map (fun o => (o_role o, o_optional o))), Hob. }
    apply in_map_iff in Hm as (oa & Ha & Hoa). injection Ha as Hr Ho.
    rewrite <- Hr. eapply collect_covers; eauto; congruence. }
  rewrite Hok in K3. split; [exact K3|split; [exact K1|split; [exact K2|]]].
  intros oa ob c Hoa Hob Hr Hc. rewrite K4. apply restore_content; auto.
  rewrite <- Hr. eapply collect_content; eauto.
Qed.

(* ---------- within the capacity nothing is evicted ---------- *)

Notation fits := (fits key_of compile).
Notation event_fits := (event_fits compile).

Lemma step_event_keeps w e : winv w -> event_fits w e = true ->
  forall k, In k (keys (index (w_store w))) -> In k (keys (index (w_store (fst (step_event w e))))).
Proof.
  intros Hw Hf k Hk. destruct e as [r|p| | |r'|p sz]; simpl in *; auto.
  - destruct (do_request w r) as [w' o] eqn:D. simpl. pose proof Hw as Hs. unfold winv in Hs.
    apply do_request_shape in D.
    destruct D as [? ? E1|s1 res t e ok ws1 G ? ? ? E1|s1 res t G ? E1|s1 res t e s2 stored rerr G ? ? P E1]; rewrite E1.
    + exact Hk.
    + destruct (get_spec _ _ _ _ _ Hs G) as (_ & _ & Hi1 & _). apply Hi1, Hk.
    + destruct (get_spec _ _ _ _ _ Hs G) as (_ & _ & Hi1 & _). apply Hi1, Hk.
    + destruct (get_spec _ _ _ _ _ Hs G) as (Hs1 & Hc1 & Hi1 & _).
      eapply put_noevict; [exact Hs1 | | exact P | apply Hi1, Hk].
      rewrite (get_measure _ _ _ _ _ G), Hc1. lia.
  - apply andb_true_iff in Hf as [F1 F2]. destruct Hw as (Hi & Hq & Hx & Hs).
    destruct (reopen_all (w_store w) (cap (w_store w))) as (A & _); auto; [|lia|].
    + apply ksorted_NoDup, Hs.
    + rewrite A, keys_proj.
      eapply Permutation_in; [apply Permutation_sym, keys_perm, sort_mtime_perm | apply Hx, Hk].
  - unfold damage. destruct (alookup p (files (w_store w))); simpl; exact Hk.
Qed.

Lemma run_events_keeps h : forall w, winv w -> fits w h = true ->
  forall k, In k (keys (index (w_store w))) -> In k (keys (index (w_store (run_events w h)))).
Proof.
  unfold HitModel.run_events. induction h as [|e h IH]; intros w Hw Hf k Hk; simpl in *; auto.
  apply andb_true_iff in Hf as [F1 F2]. apply IH; auto.
  - apply step_event_winv, Hw.
  - apply step_event_keeps; auto.
Qed.

Theorem hit_after_store_within_capacity c0 h0 r0 h r1 w1 o0 w3 o1 :
  let w0 := run_events (empty_world c0) h0 in
  do_request w0 r0 = (w1, o0) -> oc_stored o0 = true ->
  unrelated key_of r0 h = true ->
  fits w1 h = true ->
  let w2 := run_events w1 h in
  fingerprint_of r1 = fingerprint_of r0 ->
  map (fun o => (o_role o, o_optional o)) (rq_outputs r1) = map (fun o => (o_role o, o_optional o)) (rq_outputs r0) ->
  NoDup (map o_role (rq_outputs r0)) -> NoDup (map o_path (rq_outputs r1)) ->
  (pp_hit key_of w2 r1 = true \/ cr_pre_ok (compile r1 (w_compiles w2)) = true) ->
  do_request w2 r1 = (w3, o1) ->
  oc_kind o1 = KHit /\ oc_compiled o1 = false /\ w_compiles w3 = w_compiles w2 /\
  forall oa ob c, In oa (rq_outputs r0) -> In ob (rq_outputs r1) -> o_role oa = o_role ob ->
    alookup (o_path oa) (w_ws w1) = Some c -> alookup (o_path ob) (w_ws w3) = Some c.
Proof.
  intros w0 D0 St Hun Hfits w2. 
  assert (Hw0 : winv w0) by (apply run_events_winv, winv_empty).
  destruct (do_request_winv _ _ _ _ Hw0 D0) as [Hw1 _].
  destruct (request_stored _ _ _ _ Hw0 D0 St) as (Hin & _).
  apply (hit_after_store c0 h0 r0 h r1 w1 o0 w3 o1 D0 St Hun).
  unfold cached. apply amem_In. apply run_events_keeps; auto.
Qed.

End World.

(* ====================================================================== *)
(* G. sorting: permutations of the sorted components give the same key     *)
(* ====================================================================== *)

Section Sorting.
Context {A : Type} (le : A -> A -> bool).
Hypothesis le_total : forall x y, le x y = true \/ le y x = true.
Hypothesis le_trans : forall x y z, le x y = true -> le y z = true -> le x z = true.
Hypothesis le_antisym : forall x y, le x y = true -> le y x = true -> x = y.

Fixpoint lsorted (l : list A) : Prop :=
  match l with [] => True | x :: r => Forall (fun y => le x y = true) r /\ lsorted r end.

Lemma ins_sorted_perm x l : Permutation (ins_sorted le x l) (x :: l).
Proof.
  induction l as [|y r IH]; simpl; auto. destruct (le x y); auto.
  eapply perm_trans; [apply perm_skip, IH | apply perm_swap].
Qed.

Lemma isort_perm l : Permutation (isort le l) l.
Proof.
  induction l as [|x r IH]; simpl; auto.
  eapply perm_trans; [apply ins_sorted_perm | apply perm_skip, IH].
Qed.

Lemma ins_sorted_sorted x l : lsorted l -> lsorted (ins_sorted le x l).
Proof.
  induction l as [|y r IH]; simpl.
  - intros _. split; [constructor | exact I].
  - intros [H1 H2]. destruct (le x y) eqn:E; simpl.
    + split; [|split; auto]. constructor; auto. rewrite Forall_forall in *. intros z Hz. eapply le_trans; eauto.
    + split; [|auto]. rewrite Forall_forall in *. intros z Hz.
      apply (Permutation_in _ (ins_sorted_perm x r)) in Hz. destruct Hz as [<-|Hz]; [|auto].
      destruct (le_total x y); congruence.
Qed.

Lemma isort_sorted l : lsorted (isort le l).
Proof. induction l as [|x r IH]; simpl; [exact I | apply ins_sorted_sorted, IH]. Qed.

Lemma sorted_perm_eq a : forall b, lsorted a -> lsorted b -> Permutation a b -> a = b.
Proof.
  induction a as [|x a IH]; intros b Ha Hb Hp.
  - apply Permutation_nil in Hp. auto.
  - destruct b as [|y b]; [apply Permutation_sym, Permutation_nil in Hp; discriminate|].
    simpl in Ha, Hb. destruct Ha as [Ha1 Ha2], Hb as [Hb1 Hb2]. rewrite Forall_forall in Ha1, Hb1.
    assert (x = y).
    { assert (Hx : In x (y :: b)) by (eapply Permutation_in; [exact Hp | simpl; auto]).
      assert (Hy : In y (x :: a)) by (eapply Permutation_in; [apply Permutation_sym, Hp | simpl; auto]).
      destruct Hx as [->|Hx]; auto. destruct Hy as [->|Hy]; auto; try (apply le_antisym; auto). }
    subst y. f_equal. apply IH; auto. eapply Permutation_cons_inv; eauto.
Qed.

Lemma isort_perm_eq a b : Permutation a b -> isort le a = isort le b.
Proof.
  intros H. apply sorted_perm_eq; try apply isort_sorted.
  eapply perm_trans; [apply isort_perm|]. eapply perm_trans; [exact H | apply Permutation_sym, isort_perm].
Qed.

End Sorting.

Lemma bytes_leb_total x y : bytes_leb x y = true \/ bytes_leb y x = true.
Proof.
  unfold bytes_leb. destruct (bytes_ltb y x) eqn:E; auto. right. rewrite (bytes_ltb_asym _ _ E). reflexivity.
Qed.

Lemma bytes_leb_antisym x y : bytes_leb x y = true -> bytes_leb y x = true -> x = y.
Proof.
  unfold bytes_leb. intros H1 H2. apply negb_true_iff in H1, H2. apply bytes_ltb_tri; auto.
Qed.

Lemma bytes_leb_trans x y z : bytes_leb x y = true -> bytes_leb y z = true -> bytes_leb x z = true.
Proof.
  unfold bytes_leb. intros H1 H2. apply negb_true_iff in H1, H2. apply negb_true_iff.
  destruct (bytes_ltb z x) eqn:E; auto.
  destruct (bytes_ltb x y) eqn:E2.
  - rewrite (bytes_ltb_trans _ _ _ E E2) in H2. discriminate.
  - assert (x = y) by (apply bytes_ltb_tri; auto). subst. congruence.
Qed.

(* lexicographic combination with a second order *)
Section Lex.
Context {B : Type} (le2 : B -> B -> bool).
Hypothesis le2_total : forall x y, le2 x y = true \/ le2 y x = true.
Hypothesis le2_trans : forall x y z, le2 x y = true -> le2 y z = true -> le2 x z = true.
Hypothesis le2_antisym : forall x y, le2 x y = true -> le2 y x = true -> x = y.

Definition lex_leb (a b : bytes * B) : bool :=
  if bytes_ltb (fst a) (fst b) then true
  else if bytes_ltb (fst b) (fst a) then false
  else le2 (snd a) (snd b).

Lemma lex_total a b : lex_leb a b = true \/ lex_leb b a = true.
Proof.
  unfold lex_leb. destruct (bytes_ltb (fst a) (fst b)) eqn:E1; auto.
  destruct (bytes_ltb (fst b) (fst a)) eqn:E2; auto.
Qed.

Lemma lex_antisym a b : lex_leb a b = true -> lex_leb b a = true -> a = b.
Proof.
  unfold lex_leb. destruct a as [a1 a2], b as [b1 b2]. simpl.
  destruct (bytes_ltb a1 b1) eqn:E1, (bytes_ltb b1 a1) eqn:E2; try discriminate.
  - rewrite (bytes_ltb_asym _ _ E1) in E2. discriminate.
  - intros H1 H2. f_equal; [apply bytes_ltb_tri; auto | apply le2_antisym; auto].
Qed.

Lemma lex_trans a b c : lex_leb a b = true -> lex_leb b c = true -> lex_leb a c = true.
Proof.
  unfold lex_leb. destruct a as [a1 a2], b as [b1 b2], c as [c1 c2]. simpl.
  destruct (bytes_ltb a1 b1) eqn:E1.
  - intros _. destruct (bytes_ltb b1 c1) eqn:E2.
    + intros _. rewrite (bytes_ltb_trans _ _ _ E1 E2). reflexivity.
    + destruct (bytes_ltb c1 b1) eqn:E3; [discriminate|]. intros _.
      assert (b1 = c1) by (apply bytes_ltb_tri; auto). subst. rewrite E1. reflexivity.
  - destruct (bytes_ltb b1 a1) eqn:E2; [discriminate|].
    assert (a1 = b1) by (apply bytes_ltb_tri; auto). subst. intros H1.
    destruct (bytes_ltb b1 c1) eqn:E3; auto.
    destruct (bytes_ltb c1 b1) eqn:E4; auto. intros H2. eapply le2_trans; eauto.
Qed.

End Lex.

Lemma N_leb_total x y : (x <=? y) = true \/ (y <=? x) = true. Proof. lia. Qed.
Lemma N_leb_trans x y z : (x <=? y) = true -> (y <=? z) = true -> (x <=? z) = true. Proof. lia. Qed.
Lemma N_leb_antisym x y : (x <=? y) = true -> (y <=? x) = true -> x = y. Proof. lia. Qed.

Lemma isort_bytes_perm a b : Permutation a b -> isort bytes_leb a = isort bytes_leb b.
Proof. apply isort_perm_eq; [apply bytes_leb_total | apply bytes_leb_trans | apply bytes_leb_antisym]. Qed.

Lemma isort_pair_perm a b : Permutation a b -> isort pair_leb a = isort pair_leb b.
Proof.
  apply (isort_perm_eq (lex_leb bytes_leb)).
  - apply lex_total, bytes_leb_total.
  - apply lex_trans, bytes_leb_trans.
  - apply lex_antisym, bytes_leb_antisym.
Qed.

Lemma isort_ext_perm a b : Permutation a b -> isort ext_leb a = isort ext_leb b.
Proof.
  apply (isort_perm_eq (lex_leb N.leb)).
  - apply lex_total, N_leb_total.
  - apply lex_trans, N_leb_trans.
  - apply lex_antisym, N_leb_antisym.
Qed.

(* the hashed components: everything else may differ *)
Theorem key_ignores_unhashed r r' :
  rq_lang r' = rq_lang r -> rq_compiler r' = rq_compiler r -> rq_inputs r' = rq_inputs r ->
  hashed_args (rq_args r') = hashed_args (rq_args r) ->
  match rq_lang r with
  | LangC =>
      profile_out r' = profile_out r /\ split_out r' = split_out r /\
      Permutation (filter (fun e => c_env_hashed (fst e)) (rq_env r'))
                  (filter (fun e => c_env_hashed (fst e)) (rq_env r))
  | LangRust =>
      Permutation (cfg_args (rq_args r')) (cfg_args (rq_args r)) /\
      Permutation (extern_args (rq_args r')) (extern_args (rq_args r)) /\
      Permutation (filter (fun e => rust_env_hashed (fst e)) (rq_env r'))
                  (filter (fun e => rust_env_hashed (fst e)) (rq_env r)) /\
      Permutation (rq_env_deps r') (rq_env_deps r) /\
      rq_cwd r' = rq_cwd r
  end ->
  fingerprint_of r' = fingerprint_of r.
Proof.
  intros Hl Hc Hi Ha H. unfold fingerprint_of. rewrite Hl. destruct (rq_lang r).
  - destruct H as (Hp & Hsd & H). rewrite Hc, Hi, Ha, Hp, Hsd, (isort_pair_perm _ _ H). reflexivity.
  - destruct H as (H1 & H2 & H3 & H4 & H5).
    rewrite Hc, Hi, Ha, H5, (isort_bytes_perm _ _ H1), (isort_ext_perm _ _ H2),
      (isort_pair_perm _ _ H3), (isort_pair_perm _ _ H4). reflexivity.
Qed.

(* concrete forms: another output name, another unrelated variable *)
Fixpoint retarget_args (p : bytes) (l : list arg) : list arg :=
  match l with
  | [] => []
  | AOutput _ :: r => AOutput p :: retarget_args p r
  | a :: r => a :: retarget_args p r
  end.

Definition retarget (r : request) (p : bytes) (outs : list output) (tag : N) : request :=
  {| rq_tag := tag; rq_lang := rq_lang r; rq_compiler := rq_compiler r; rq_args := retarget_args p (rq_args r);
     rq_env := rq_env r; rq_env_deps := rq_env_deps r; rq_cwd := rq_cwd r; rq_inputs := rq_inputs r;
     rq_outputs := outs; rq_ppkey := rq_ppkey r |}.

Lemma retarget_hashed p l : hashed_args (retarget_args p l) = hashed_args l.
Proof. induction l as [|[] r IH]; simpl; congruence. Qed.
Lemma retarget_cfg p l : cfg_args (retarget_args p l) = cfg_args l.
Proof. induction l as [|[] r IH]; simpl; congruence. Qed.
Lemma retarget_ext p l : extern_args (retarget_args p l) = extern_args l.
Proof. induction l as [|[] r IH]; simpl; congruence. Qed.

Lemma retarget_profile p l : has_profile (retarget_args p l) = has_profile l.
Proof. induction l as [|[] r IH]; simpl; congruence. Qed.

(* the output name does not matter — unless the object is instrumented for coverage / profiling or split
   DWARF is requested, where the compiler embeds a location derived from it *)
Lemma retarget_split p l : has_split (retarget_args p l) = has_split l.
Proof. induction l as [|[] r IH]; simpl; congruence. Qed.

Theorem key_ignores_output r p outs tag :
  rq_lang r = LangRust \/ (has_profile (rq_args r) = false /\ has_split (rq_args r) = false) ->
  fingerprint_of (retarget r p outs tag) = fingerprint_of r.
Proof.
  intros Hnp. apply key_ignores_unhashed; simpl; auto using retarget_hashed.
  destruct (rq_lang r) eqn:L.
  - destruct Hnp as [Hnp|[Hnp Hns]]; [discriminate|]. split; [|split; [|reflexivity]].
    + unfold profile_out. simpl. rewrite retarget_profile, Hnp. reflexivity.
    + unfold split_out. simpl. rewrite retarget_split, Hns. reflexivity.
  - rewrite retarget_cfg, retarget_ext. auto.
Qed.

Definition env_hashed (l : lang) (v : bytes) : bool :=
  match l with LangC => c_env_hashed v | LangRust => rust_env_hashed v end.

Definition with_env (r : request) (env : list (bytes * bytes)) : request :=
  {| rq_tag := rq_tag r; rq_lang := rq_lang r; rq_compiler := rq_compiler r; rq_args := rq_args r;
     rq_env := env; rq_env_deps := rq_env_deps r; rq_cwd := rq_cwd r; rq_inputs := rq_inputs r;
     rq_outputs := rq_outputs r; rq_ppkey := rq_ppkey r |}.

(* setting / changing / removing any variable that is not on the allow-list, anywhere in the environment,
   and any reordering of the environment *)
Theorem key_ignores_env r env' :
  Permutation (filter (fun e => env_hashed (rq_lang r) (fst e)) env')
              (filter (fun e => env_hashed (rq_lang r) (fst e)) (rq_env r)) ->
  fingerprint_of (with_env r env') = fingerprint_of r.
Proof.
  intros H. apply key_ignores_unhashed; simpl; auto.
  destruct (rq_lang r); simpl in *; [split; [reflexivity|split; [reflexivity|exact H]]|]. auto.
Qed.

(* ====================================================================== *)
(* F. restart                                                              *)
(* ====================================================================== *)

(* store level, any state (also with stores in flight): within capacity, every entry file is re-indexed in
   mtime order, nothing is deleted, the in-flight stores (whose temp files are not entries) are gone *)
Theorem reopen_keeps_everything s c :
  NoDup (keys (files s)) -> no_temp_names (files s) = true -> files_size (files s) <= c ->
  index (reopen s c) = map proj_entry (sort_mtime (files s)) /\
  files (reopen s c) = files s /\ handles (reopen s c) = [] /\
  (forall k, In k (keys (files s)) -> In k (keys (index (reopen s c)))).
Proof.
  intros H1 H2 H3. destruct (reopen_all s c H1 H2 H3) as (A & B & C & D).
  split; [exact A|split; [exact B|split; [exact D|]]].
  intros k Hk. rewrite A, keys_proj. eapply Permutation_in; [apply Permutation_sym, keys_perm, sort_mtime_perm | exact Hk].
Qed.

Section Restart.

Variable key_of : fingerprint -> key.
Variable compile : request -> N -> cresult.

Theorem restart_preserves c0 h0 :
  let w := run_events key_of compile (empty_world c0) h0 in
  no_temp_names (files (w_store w)) = true ->
  files_size (files (w_store w)) <= cap (w_store w) ->
  files (w_store (restart w)) = files (w_store w) /\
  w_content (restart w) = w_content w /\
  (forall k, In k (keys (files (w_store w))) -> In k (keys (index (w_store (restart w))))) /\
  (forall r, cached key_of w r = true -> cached key_of (restart w) r = true).
Proof.
  intros w Ht Hsz.
  assert (Hw : winv w) by (apply run_events_winv, winv_empty).
  destruct Hw as (Hi & Hq & Hx & Hs).
  destruct (reopen_keeps_everything (w_store w) (cap (w_store w))) as (A & B & C & D); auto.
  { apply ksorted_NoDup, Hs. }
  split; [exact B|split; [reflexivity|split; [exact D|]]].
  intros r Hr. unfold cached in *. apply amem_In. apply amem_In in Hr. simpl. apply D, Hx, Hr.
Qed.

End Restart.

(* ====================================================================== *)
(* H. restoring on any mount layout; a damaged entry is replaced           *)
(* ====================================================================== *)

(* the staging file lives in the directory of the output, so the rename never crosses a mount: whatever
   directories are mounted where, the mount-aware restore is the plain one *)
Theorem restore_any_mount_layout (mnt : bytes -> N) e outs : forall ws,
  restore_mounted mnt e outs ws = restore e outs ws.
Proof.
  induction outs as [|o r IH]; intros ws; simpl; auto.
  destruct (alookup (o_role o) e).
  - unfold stage_dir. rewrite N.eqb_refl. apply IH.
  - destruct (o_optional o); auto.
Qed.

(* DiskCache::put of an entry that fits the cache succeeds — also over a key that is already indexed *)
Lemma put_succeeds s k sz s' b : sinv s -> sz <= cap s -> put s k sz = (s', b) -> b = true.
Proof.
  intros (Hi & Hq & Hx & Hs) Hfit P. pose proof (quiet_pending s Hi Hq) as Hp0. unfold put in P.
  destruct (prepare_add s k sz) as [s1 r1] eqn:PA.
  pose proof (inv_prepare_add _ _ _ _ _ Hi PA) as Hi1.
  unfold prepare_add in PA. destruct (make_space s sz) as [ok sa] eqn:MS.
  pose proof MS as MS2. apply inv_make_space in MS2 as [Hia Hba]; [|exact Hi].
  apply make_space_spec in MS as (pre & idx' & m' & -> & Hidx & Hm' & _ & Hok & _).
  pose proof Hi as [(Hm & _ & Hnd & _) _].
  assert (ok = true) by (apply Hok; [exact Hm | lia]). subst ok.
  inversion PA; subst; clear PA. rewrite Hq in P, Hi1. simpl in P, Hi1.
  unfold write_tmp in P. simpl in P. rewrite N.eqb_refl in P. simpl in P.
  revert P. destruct (commit _ _) as [[s3 r3] t3] eqn:C. intros P.
  match type of C with commit ?S _ = _ => assert (Hi2 : inv S) end.
  { eapply inv_write_tmp with (h := next_h s) (m := sz); [exact Hi1|].
    unfold write_tmp. simpl. rewrite N.eqb_refl. reflexivity. }
  pose proof (inv_release _ (next_h s) (Build_handle k sz (0 + sz)) Hi2) as Hir.
  unfold commit in C. simpl in C, Hir. rewrite N.eqb_refl in C, Hir.
  specialize (Hir eq_refl). simpl in C, Hir. try rewrite N.eqb_refl in C. try rewrite N.eqb_refl in Hir.
  simpl in C, Hir.
  revert C. destruct (make_space _ _) as [ok2 sb] eqn:MS2. intros C.
  apply make_space_spec in MS2 as (pre2 & idx2 & m2 & -> & _ & _ & _ & Hok2 & _).
  assert (ok2 = true).
  { apply Hok2; [destruct Hir as [(Hmr & _) _]; exact Hmr | simpl; lia]. }
  subst ok2. inversion C; subst; clear C. inversion P; reflexivity.
Qed.

Section Heal.

Variable key_of : fingerprint -> key.
Variable compile : request -> N -> cresult.

Theorem damaged_entry_replaced c0 h0 r sz w1 o :
  let w := damage (run_events key_of compile (empty_world c0) h0) (req_path key_of r) sz in
  do_request key_of compile w r = (w1, o) ->
  oc_kind o <> KHit /\
  (forall rerr, oc_kind o = KMiss rerr -> cr_size (compile r (w_compiles w)) <= cap (w_store w) ->
     oc_stored o = true) /\
  (oc_stored o = true ->
     In (req_path key_of r) (keys (index (w_store w1))) /\ alookup (req_path key_of r) (w_content w1) <> None).
Proof.
  intros w D.
  assert (Hw0 : winv (run_events key_of compile (empty_world c0) h0)) by (apply run_events_winv, winv_empty).
  assert (Hw : winv w) by (apply damage_winv, Hw0).
  split; [|split].
  - intros K. pose proof D as D'. apply do_request_shape in D'.
    destruct D' as [? ? ? ? ? K1|s1 res t e ok ws1 G Hr Hct|s1 res t G ? ? ? ? ? ? K1|s1 res t e s2 stored rerr G ? ? ? ? ? ? K1];
      try (rewrite K in K1; try discriminate; destruct K1 as [K1|[K1|K1]]; discriminate).
    unfold w, damage in Hct, G. 
    destruct (alookup (req_path key_of r) (files (w_store (run_events key_of compile (empty_world c0) h0)))) eqn:F.
    + simpl in Hct. rewrite alookup_aremove_eq in Hct. discriminate.
    + destruct (get_spec _ _ _ _ _ Hw0 G) as (_ & _ & _ & _ & Hres).
      apply Hres in Hr. destruct Hw0 as (_ & _ & Hx & _). apply Hx, In_keys_alookup in Hr. congruence.
  - intros rerr K Hfit. pose proof D as D'. apply do_request_shape in D'.
    destruct D' as [? ? ? ? ? K1|s1 res t e ok ws1 G ? ? ? ? ? ? ? K1|s1 res t G ? ? ? ? ? ? K1|s1 res t e s2 stored rerr' G ? ? P ? ? ? K1 ? K3].
    + rewrite K in K1; discriminate.
    + rewrite K in K1. destruct ok; discriminate.
    + rewrite K in K1. destruct K1 as [K1|[K1|K1]]; discriminate.
    + rewrite K3. destruct (get_spec _ _ _ _ _ Hw G) as (Hs1 & Hc1 & _).
      eapply put_succeeds; [exact Hs1 | | exact P]. rewrite Hc1. exact Hfit.
  - intros St. destruct (request_stored key_of compile _ _ _ _ Hw D St) as (Hin & e & He & _).
    split; [exact Hin | congruence].
Qed.

End Heal.

(* ====================================================================== *)
(* I. the server's own environment; a failed compiler probe                *)
(* ====================================================================== *)

(* what the server observes for the variables a crate reads is decided by the client's environment alone *)
Theorem request_ignores_server_env srv srv' reads r : request_in srv reads r = request_in srv' reads r.
Proof. reflexivity. Qed.

Theorem key_ignores_server_env srv srv' reads r :
  fingerprint_of (request_in srv reads r) = fingerprint_of (request_in srv' reads r).
Proof. reflexivity. Qed.

(* ... and a client that sets (or does not set) the variables the crate reads the same way gets the same
   observation, whatever else differs in the two client environments *)
Lemma observed_env_deps_ext srv srv' env env' reads :
  (forall v, In v reads -> env_lookup v env' = env_lookup v env) ->
  observed_env_deps srv' env' reads = observed_env_deps srv env reads.
Proof.
  intros H. unfold observed_env_deps, spawn_env. apply map_ext_in. intros v Hv. rewrite H; auto.
Qed.

Section Probe.
Variable key_of : fingerprint -> key.
Variable compile : request -> N -> cresult.

(* a request that could not be served because the compiler could not be probed leaves the server exactly as it
   was: nothing is remembered about the compiler, the cache and the counters are untouched *)
Theorem failed_probe_leaves_no_trace w r : fst (step_event key_of compile w (EProbeFail r)) = w.
Proof. reflexivity. Qed.
End Probe.

Section Promise.
Variable key_of : fingerprint -> key.
Variable compile : request -> N -> cresult.

Theorem response_implies_stored c0 h0 r w1 o :
  do_request key_of compile (run_events key_of compile (empty_world c0) h0) r = (w1, o) ->
  oc_stored o = true ->
  cached key_of w1 r = true /\ alookup (req_path key_of r) (w_content w1) <> None /\
  handles (w_store w1) = [] /\ pending_size (w_store w1) = 0.
Proof.
  intros D St.
  assert (Hw : winv (run_events key_of compile (empty_world c0) h0)) by (apply run_events_winv, winv_empty).
  destruct (request_stored key_of compile _ _ _ _ Hw D St) as (Hin & e & He & _).
  destruct (do_request_winv key_of compile _ _ _ _ Hw D) as [(Hi & Hq & _) _].
  split; [apply amem_In, Hin|split; [congruence|split; [exact Hq|apply quiet_pending; auto]]].
Qed.
End Promise.

(* ====================================================================== *)
(* concrete instances used by the non-vacuity examples of Properties/C03.v *)
(* ====================================================================== *)

Module C03Example.

Definition kof (f : fingerprint) : key :=
  [fp_compiler f + 48; 49 + N.of_nat (length (fp_env f)); 50] ++ fp_inputs f ++ concat (fp_args f).

Definition out (role path : bytes) : output := {| o_role := role; o_path := path; o_optional := false |}.

Definition rq (tag : N) (opt outp : bytes) (env : list (bytes * bytes)) (input : N) : request :=
  {| rq_tag := tag; rq_lang := LangC; rq_compiler := 7;
     rq_args := [AHashed opt; AUnhashed [45; 99]; AOutput outp];
     rq_env := env; rq_env_deps := []; rq_cwd := [47; 119]; rq_inputs := [input];
     rq_outputs := [out [111] outp]; rq_ppkey := None |}.

Definition oracle (r : request) (_ : N) : cresult :=
  {| cr_pre_ok := true; cr_ok := true; cr_cacheable := true; cr_outs := [([111], 100 + rq_tag r)]; cr_size := 400 |}.

Definition a_o : bytes := [97; 46; 111].
Definition b_o : bytes := [98; 46; 111].
Definition c_o : bytes := [99; 46; 111].
Definition r0 := rq 1 [45; 79; 50] a_o [] 11.
Definition rother := rq 2 [45; 79; 50] c_o [] 12.
Definition r1 := rq 3 [45; 79; 50] b_o [([70; 79; 79], [49])] 11.
Definition hist : list event := [EReq rother; EDelete a_o; ERestart; EIdle].

Definition w1 (c : N) : world := fst (do_request kof oracle (empty_world c) r0).
Definition o0 (c : N) : outcome := snd (do_request kof oracle (empty_world c) r0).
Definition w2 (c : N) : world := run_events kof oracle (w1 c) hist.
Definition w3 (c : N) : world := fst (do_request kof oracle (w2 c) r1).
Definition o1 (c : N) : outcome := snd (do_request kof oracle (w2 c) r1).

(* an object instrumented for coverage *)
Definition rcov : request :=
  {| rq_tag := 4; rq_lang := LangC; rq_compiler := 7;
     rq_args := [AProfile [45; 102]; AOutput a_o];
     rq_env := []; rq_env_deps := []; rq_cwd := [47; 119]; rq_inputs := [11];
     rq_outputs := [out obj_role a_o]; rq_ppkey := None |}.

(* r0's entry gets damaged after it was stored; then r0 again, twice *)
Definition wd (c : N) : world := damage (w1 c) (req_path kof r0) 200.
Definition w_heal (c : N) : world := fst (do_request kof oracle (wd c) r0).
Definition o_heal (c : N) : outcome := snd (do_request kof oracle (wd c) r0).
Definition o_again (c : N) : outcome := snd (do_request kof oracle (w_heal c) r0).

(* after r0 was stored: a restart, then r0 arrives while the compiler cannot be probed, then r0 again *)
Definition w_pf (c : N) : world := run_events kof oracle (w1 c) [ERestart; EProbeFail r0; EDelete a_o].
Definition o_pf (c : N) : outcome := snd (do_request kof oracle (w_pf c) r0).
(* a crate reading BUILD_TAG, client without it, two servers started from different environments *)
Definition tag_var : bytes := [66; 84].
Definition r_tag (srv : list (bytes * bytes)) : request :=
  request_in srv [tag_var] (rq 9 [45; 79] a_o [([70], [49])] 5).

End C03Example.
