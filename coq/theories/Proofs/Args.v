(* Proofs/Args.v — lemmas about Model/Args.v, generic in the tables (record [tables]).
   Part 1: where every parsed argument of a successful parse_arguments ends up (no argument lost / hashed).
   Part 2: the table search: extensionality, prefix families (the comparator is not monotone), own spellings.
   Part 3: re-tokenising the re-synthesised command.                                                              *)
From Coq Require Import List NArith Bool Lia Arith.
From Coq Require String.
Import String.StringSyntax.
From Sccache Require Import Base.Sx Model.ArgTypes Model.Args.
Import ListNotations.
Local Open Scope N_scope.

(* ================================================================== Part 1 *)

Definition is_list_dest (d : dest) : bool :=
  match d with DCommon | DUnhashed | DArch | DPre | DDep => true | _ => false end.

Definition dest_of (T : tables) (a : argument) : dest := fst (arg_dest T a).

(* the words the main loop appends to list d for the arguments al *)
Definition main_part (T : tables) (d : dest) (al : list argument) : list bytes :=
  flat_map render_norm (filter (fun a => dest_eqb (dest_of T a) d) al).

Lemma dest_eqb_eq a b : dest_eqb a b = true <-> a = b.
Proof. destruct a, b; cbv; split; intro H; try reflexivity; try discriminate. Qed.

Lemma get_list_push d d' ws l :
  is_list_dest d = true ->
  get_list d (push d' ws l) = get_list d l ++ (if dest_eqb d' d then ws else []).
Proof.
  intros Hd. destruct d; try discriminate; destruct d'; cbn; try rewrite app_nil_r; reflexivity.
Qed.

Lemma get_list_push_nonlist d ws l : is_list_dest d = false -> push d ws l = l.
Proof. destruct d; try discriminate; reflexivity. Qed.

Lemma main_step_lists T E v l a v' l' d :
  main_step T E (v, l) a = inl (v', l') ->
  is_list_dest d = true ->
  get_list d l' = get_list d l ++ main_part T d [a].
Proof.
  unfold main_step, main_part, dest_of. intros H Hd.
  destruct (effect_step T E v a) as [v1|w]; [|discriminate].
  destruct (arg_dest T a) as [d0 eff] eqn:Had. cbn [filter]. rewrite ?Had. cbn [fst].
  destruct d0; inversion H; subst; clear H;
    try (rewrite get_list_push by exact Hd);
    destruct d; try discriminate; cbn; rewrite ?app_nil_r; reflexivity.
Qed.

Lemma main_part_cons T d a al : main_part T d (a :: al) = main_part T d [a] ++ main_part T d al.
Proof.
  unfold main_part. cbn [filter]. destruct (dest_eqb (dest_of T a) d); cbn [flat_map]; rewrite ?app_nil_r; reflexivity.
Qed.

Lemma main_loop_lists T E : forall al v l v' l' d,
  run_loop (main_step T E) (v, l) al = inl (v', l') ->
  is_list_dest d = true ->
  get_list d l' = get_list d l ++ main_part T d al.
Proof.
  induction al as [|a al IH]; intros v l v' l' d H Hd; cbn [run_loop] in H.
  - inversion H; subst. unfold main_part. cbn. rewrite app_nil_r. reflexivity.
  - destruct (main_step T E (v, l) a) as [[v1 l1]|w] eqn:Hs; [|discriminate].
    rewrite (IH _ _ _ _ _ H Hd). rewrite (main_step_lists _ _ _ _ _ _ _ _ Hs Hd).
    rewrite (main_part_cons T d a al), app_assoc. reflexivity.
Qed.

(* ---- the -Xclang loop *)

Definition x_dest_of (T : tables) (a : argument) : option dest :=
  match a with
  | ARaw _ => Some DCommon
  | AUnknown _ => None
  | AFlag _ c | AWith _ c _ _ => match fst (t_x_dest T c) with XList d => Some d | XCannotCache => None end
  end.

Definition x_words (a : argument) : list bytes := interleave_xclang (render_norm a).

Definition x_part (T : tables) (d : dest) (xl : list argument) : list bytes :=
  flat_map x_words (filter (fun a => match x_dest_of T a with Some d' => dest_eqb d' d | None => false end) xl).

Lemma x_step_lists T E v l f a v' l' f' d :
  x_step T E (v, l, f) a = inl (v', l', f') ->
  is_list_dest d = true ->
  get_list d l' = get_list d l ++ x_part T d [a].
Proof.
  unfold x_step, x_part, x_words. intros H Hd. cbn [filter].
  destruct a as [s|s|s c|s c x dd]; cbn [x_dest_of a_flag_str] in *.
  - destruct f; [|discriminate].
    assert (Hl : l' = push DCommon (interleave_xclang (render_norm (ARaw s))) l) by (injection H; intros; subst; reflexivity).
    rewrite Hl. rewrite get_list_push by exact Hd.
    destruct (dest_eqb DCommon d); cbn [flat_map]; rewrite ?app_nil_r; reflexivity.
  - discriminate.
  - destruct (t_x_dest T c) as [[|d0] eff]; [discriminate|]. cbn [fst].
    assert (Hl : l' = push d0 (interleave_xclang (render_norm (AFlag s c))) l) by (injection H; intros; subst; reflexivity).
    rewrite Hl.
    rewrite get_list_push by exact Hd. destruct (dest_eqb d0 d); cbn [flat_map]; rewrite ?app_nil_r; reflexivity.
  - destruct (t_x_dest T c) as [[|d0] eff]; [discriminate|]. cbn [fst].
    assert (Hl : l' = push d0 (interleave_xclang (render_norm (AWith s c x dd))) l) by (injection H; intros; subst; reflexivity).
    rewrite Hl.
    rewrite get_list_push by exact Hd. destruct (dest_eqb d0 d); cbn [flat_map]; rewrite ?app_nil_r; reflexivity.
Qed.

Lemma x_part_cons T d a al : x_part T d (a :: al) = x_part T d [a] ++ x_part T d al.
Proof.
  unfold x_part. cbn [filter].
  destruct (match x_dest_of T a with Some d' => dest_eqb d' d | None => false end); cbn [flat_map];
    rewrite ?app_nil_r; reflexivity.
Qed.

Lemma x_loop_lists T E : forall xl v l f v' l' f' d,
  run_loop (x_step T E) (v, l, f) xl = inl (v', l', f') ->
  is_list_dest d = true ->
  get_list d l' = get_list d l ++ x_part T d xl.
Proof.
  induction xl as [|a xl IH]; intros v l f v' l' f' d H Hd; cbn [run_loop] in H.
  - inversion H; subst. unfold x_part. cbn. rewrite app_nil_r. reflexivity.
  - destruct (x_step T E (v, l, f) a) as [[[v1 l1] f1]|w] eqn:Hs; [|discriminate].
    rewrite (IH _ _ _ _ _ _ _ H Hd). rewrite (x_step_lists _ _ _ _ _ _ _ _ _ _ Hs Hd).
    rewrite (x_part_cons T d a xl), app_assoc. reflexivity.
Qed.

(* every argument of a successful -Xclang loop went to a list *)
Lemma x_loop_all_listed T E : forall xl st st',
  run_loop (x_step T E) st xl = inl st' ->
  Forall (fun a => x_dest_of T a <> None) xl.
Proof.
  induction xl as [|a xl IH]; intros st st' H; cbn [run_loop] in H; constructor.
  - destruct (x_step T E st a) as [st1|w] eqn:Hs; [|discriminate].
    destruct st as [[v l] f]. unfold x_step in Hs.
    destruct a as [s|s|s c|s c x dd]; cbn [x_dest_of]; try discriminate.
    + destruct (t_x_dest T c) as [[|d0] eff]; [discriminate|]. discriminate.
    + destruct (t_x_dest T c) as [[|d0] eff]; [discriminate|]. discriminate.
  - destruct (x_step T E st a) as [st1|w] eqn:Hs; [|discriminate]. eapply IH; eassumption.
Qed.

(* ---- the variables of the main loop, as functions of the argument list *)

Definition is_c (c : argdata) (a : argument) : bool :=
  match a_data a with Some c' => argdata_eqb c' c | None => false end.

Definition is_input (a : argument) : bool :=
  match a with ARaw s => negb (bytes_eqb s dashdash) | _ => false end.

Definition raw_word (a : argument) : bytes := match a with ARaw s => s | _ => [] end.
Definition flag_of (a : argument) : bytes := match a_flag_str a with Some s => s | None => [] end.

Ltac effect_cases H :=
  unfold effect_step in H;
  match type of H with context [at_value ?a] => destruct (at_value a); [discriminate|] end;
  match type of H with context [match ?a with ARaw _ => _ | _ => _ end] =>
    destruct a as [?s|?s|?s ?c|?s ?c ?x ?dd] end;
  [ | | match goal with c : argdata |- _ => destruct c end | match goal with c : argdata |- _ => destruct c end ];
  repeat match type of H with
         | context [if ?b then _ else _] => destruct b eqn:?
         | context [match ?x with _ => _ end] => destruct x eqn:?
         end;
  try discriminate;
  injection H as H; subst.

Lemma effect_output T E v a v1 :
  effect_step T E v a = inl v1 -> v_output v1 = if is_c Output a then Some (a_value a) else v_output v.
Proof. intros H. effect_cases H; reflexivity. Qed.

Lemma effect_cflag T E v a v1 :
  effect_step T E v a = inl v1 ->
  v_cflag v1 = (if is_c DoCompilation a then flag_of a else v_cflag v) /\
  v_compilation v1 = (is_c DoCompilation a || v_compilation v).
Proof. intros H. effect_cases H; split; reflexivity. Qed.

Lemma effect_xclangs T E v a v1 :
  effect_step T E v a = inl v1 -> v_xclangs v1 = v_xclangs v ++ (if is_c XClang a then [a_value a] else []).
Proof. intros H. effect_cases H; cbn; rewrite ?app_nil_r; reflexivity. Qed.

Lemma effect_dep_targets T E v a v1 :
  effect_step T E v a = inl v1 ->
  v_dep_targets v1 = v_dep_targets v ++ (if is_c DepTarget a then [(flag_of a, a_value a)] else []).
Proof. intros H. effect_cases H; cbn; rewrite ?app_nil_r; reflexivity. Qed.

Lemma effect_need_dep T E v a v1 :
  effect_step T E v a = inl v1 -> v_need_dep_target v1 = (is_c NeedDepTarget a || v_need_dep_target v).
Proof. intros H. effect_cases H; reflexivity. Qed.

Lemma effect_split_dwarf T E v a v1 :
  effect_step T E v a = inl v1 -> v_split_dwarf v1 = (is_c SplitDwarf a || v_split_dwarf v).
Proof. intros H. effect_cases H; reflexivity. Qed.

Lemma effect_dia T E v a v1 :
  effect_step T E v a = inl v1 -> v_dia v1 = if is_c SerializeDiagnostics a then Some (a_value a) else v_dia v.
Proof. intros H. effect_cases H; reflexivity. Qed.

Lemma effect_language T E v a v1 :
  effect_step T E v a = inl v1 ->
  v_language v1 = if is_c Language a then assoc (a_value a) (t_xlang T) else v_language v.
Proof. intros H. effect_cases H; cbn; congruence. Qed.

Lemma effect_input T E v a v1 :
  effect_step T E v a = inl v1 ->
  v_input v1 = (if is_input a then Some (raw_word a) else v_input v) /\
  v_multiple_input v1 = (v_multiple_input v || (is_input a && match v_input v with Some _ => true | None => false end)).
Proof.
  intros H. effect_cases H;
    cbn [is_input raw_word set_dd_input set_input v_input v_multiple_input];
    repeat match goal with
           | Hx : bytes_eqb _ dashdash = _ |- _ => rewrite Hx
           | Hx : v_input _ = _ |- _ => rewrite Hx
           end;
    cbn [negb andb]; rewrite ?orb_false_r, ?orb_true_r; split; try reflexivity;
    repeat match goal with |- context [v_multiple_input ?x] => destruct (v_multiple_input x) end; reflexivity.
Qed.

Lemma effect_dep_path T E v a v1 :
  effect_step T E v a = inl v1 ->
  v_dep_path v1 = if is_c DepArgumentPath a then DPProvided
                  else if is_c NeedDepTarget a then match v_dep_path v with DPNotNeeded => DPMissing | x => x end
                  else v_dep_path v.
Proof. intros H. effect_cases H; reflexivity. Qed.

Lemma effect_dd_input T E v a v1 :
  effect_step T E v a = inl v1 ->
  v_dd_input v1 = (v_dd_input v || (match a with ARaw s => bytes_eqb s dashdash | _ => false end
                                    && match v_input v with None => true | Some _ => false end)).
Proof.
  intros H. effect_cases H; cbn [set_dd_input set_input v_dd_input];
    repeat match goal with
           | Hx : bytes_eqb _ dashdash = _ |- _ => rewrite Hx
           | Hx : v_input _ = _ |- _ => rewrite Hx
           end; cbn [andb]; rewrite ?orb_false_r, ?orb_true_r; try reflexivity.
Qed.

(* the fields that only effect_step writes *)
Definition core_eq (a b : vars) : Prop :=
  v_output a = v_output b /\ v_input a = v_input b /\ v_dd_input a = v_dd_input b /\
  v_dep_targets a = v_dep_targets b /\ v_compilation a = v_compilation b /\
  v_multiple_input a = v_multiple_input b /\ v_split_dwarf a = v_split_dwarf b /\
  v_need_dep_target a = v_need_dep_target b /\ v_dep_path a = v_dep_path b /\
  v_language a = v_language b /\ v_cflag a = v_cflag b /\ v_xclangs a = v_xclangs b /\
  v_dia a = v_dia b /\ v_outputs_gcno a = v_outputs_gcno b /\ v_profile_generate a = v_profile_generate b /\
  v_pedantic a = v_pedantic b /\ v_lang_ext a = v_lang_ext b /\ v_color a = v_color b.

Lemma core_eq_refl v : core_eq v v.
Proof. unfold core_eq. repeat split. Qed.

Lemma core_eq_trans a b c : core_eq a b -> core_eq b c -> core_eq a c.
Proof. unfold core_eq. intros H1 H2. intuition congruence. Qed.

Lemma arm_effect_core E eff a v : core_eq v (arm_effect_step E eff a v).
Proof. destruct eff; unfold arm_effect_step, core_eq; cbn; repeat split. Qed.

Lemma main_step_inv T E v l a v' l' :
  main_step T E (v, l) a = inl (v', l') ->
  exists v1, effect_step T E v a = inl v1 /\ core_eq v1 v'.
Proof.
  unfold main_step. intros H.
  destruct (effect_step T E v a) as [v1|w]; [|discriminate]. exists v1. split; [reflexivity|].
  destruct (arg_dest T a) as [d eff].
  destruct d; injection H as Hv _; subst v'; try apply core_eq_refl; apply arm_effect_core.
Qed.

Lemma x_step_core T E v l f a v' l' f' :
  x_step T E (v, l, f) a = inl (v', l', f') -> core_eq v v'.
Proof.
  unfold x_step. intros H.
  destruct a as [s|s|s c|s c x dd].
  - destruct f; [|discriminate]. injection H as Hv _ _. subst. apply core_eq_refl.
  - discriminate.
  - destruct (t_x_dest T c) as [[|d0] eff]; [discriminate|]. injection H as Hv _ _. subst v'.
    destruct eff; try apply core_eq_refl. apply arm_effect_core.
  - destruct (t_x_dest T c) as [[|d0] eff]; [discriminate|]. injection H as Hv _ _. subst v'.
    destruct eff; try apply core_eq_refl. apply arm_effect_core.
Qed.

Lemma x_loop_core T E : forall xl v l f v' l' f',
  run_loop (x_step T E) (v, l, f) xl = inl (v', l', f') -> core_eq v v'.
Proof.
  induction xl as [|a xl IH]; intros v l f v' l' f' H; cbn [run_loop] in H.
  - injection H as -> _ _. apply core_eq_refl.
  - destruct (x_step T E (v, l, f) a) as [[[v1 l1] f1]|w] eqn:Hs; [|discriminate].
    eapply core_eq_trans; [eapply x_step_core; eassumption | eapply IH; eassumption].
Qed.

(* ---- summaries over the argument list *)

Fixpoint last_val (c : argdata) (al : list argument) (init : option bytes) : option bytes :=
  match al with
  | [] => init
  | a :: r => last_val c r (if is_c c a then Some (a_value a) else init)
  end.

Fixpoint last_flag (c : argdata) (al : list argument) (init : bytes) : bytes :=
  match al with
  | [] => init
  | a :: r => last_flag c r (if is_c c a then flag_of a else init)
  end.

Definition exists_c (c : argdata) (al : list argument) : bool := existsb (is_c c) al.

Definition xvals (al : list argument) : list bytes :=
  flat_map (fun a => if is_c XClang a then [a_value a] else []) al.

Definition dep_targets_of (al : list argument) : list (bytes * bytes) :=
  flat_map (fun a => if is_c DepTarget a then [(flag_of a, a_value a)] else []) al.

Definition inputs (al : list argument) : list bytes := map raw_word (filter is_input al).

Fixpoint last_lang (T : tables) (al : list argument) (init : option lang) : option lang :=
  match al with
  | [] => init
  | a :: r => last_lang T r (if is_c Language a then assoc (a_value a) (t_xlang T) else init)
  end.

Fixpoint dep_path_after (s : deppath) (al : list argument) : deppath :=
  match al with
  | [] => s
  | a :: r =>
      dep_path_after (if is_c DepArgumentPath a then DPProvided
                      else if is_c NeedDepTarget a then match s with DPNotNeeded => DPMissing | x => x end
                      else s) r
  end.

Fixpoint multi (i : option bytes) (ins : list bytes) : bool :=
  match ins with
  | [] => false
  | x :: r => (match i with Some _ => true | None => false end) || multi (Some x) r
  end.

Definition last_opt (ins : list bytes) (init : option bytes) : option bytes :=
  fold_left (fun _ x => Some x) ins init.

Record loop_summary (T : tables) (v v' : vars) (al : list argument) : Prop := {
  ls_output : v_output v' = last_val Output al (v_output v);
  ls_cflag : v_cflag v' = last_flag DoCompilation al (v_cflag v);
  ls_compilation : v_compilation v' = (exists_c DoCompilation al || v_compilation v);
  ls_xclangs : v_xclangs v' = v_xclangs v ++ xvals al;
  ls_dep_targets : v_dep_targets v' = v_dep_targets v ++ dep_targets_of al;
  ls_need_dep : v_need_dep_target v' = (exists_c NeedDepTarget al || v_need_dep_target v);
  ls_split_dwarf : v_split_dwarf v' = (exists_c SplitDwarf al || v_split_dwarf v);
  ls_dia : v_dia v' = last_val SerializeDiagnostics al (v_dia v);
  ls_language : v_language v' = last_lang T al (v_language v);
  ls_dep_path : v_dep_path v' = dep_path_after (v_dep_path v) al;
  ls_input : v_input v' = last_opt (inputs al) (v_input v);
  ls_multiple : v_multiple_input v' = (v_multiple_input v || multi (v_input v) (inputs al))
}.

Lemma main_loop_summary T E : forall al v l v' l',
  run_loop (main_step T E) (v, l) al = inl (v', l') -> loop_summary T v v' al.
Proof.
  induction al as [|a al IH]; intros v l v' l' H; cbn [run_loop] in H.
  - injection H as -> _. constructor; cbn; rewrite ?app_nil_r, ?orb_false_r; reflexivity.
  - destruct (main_step T E (v, l) a) as [[v2 l2]|w] eqn:Hs; [|discriminate].
    destruct (main_step_inv _ _ _ _ _ _ _ Hs) as [v1 [He Hc]].
    specialize (IH _ _ _ _ H). destruct IH.
    unfold core_eq in Hc. decompose [and] Hc. clear Hc.
    pose proof (effect_output _ _ _ _ _ He). pose proof (effect_cflag _ _ _ _ _ He) as [? ?].
    pose proof (effect_xclangs _ _ _ _ _ He). pose proof (effect_dep_targets _ _ _ _ _ He).
    pose proof (effect_need_dep _ _ _ _ _ He). pose proof (effect_split_dwarf _ _ _ _ _ He).
    pose proof (effect_dia _ _ _ _ _ He). pose proof (effect_language _ _ _ _ _ He).
    pose proof (effect_dep_path _ _ _ _ _ He) as Hdp. pose proof (effect_input _ _ _ _ _ He) as [? ?].
    constructor; cbn [last_val last_flag exists_c existsb xvals dep_targets_of flat_map last_lang dep_path_after].
    + congruence.
    + congruence.
    + rewrite ls_compilation0. fold (exists_c DoCompilation al).
      destruct (is_c DoCompilation a), (exists_c DoCompilation al), (v_compilation v); cbn in *; congruence.
    + rewrite ls_xclangs0. fold (xvals al). rewrite app_assoc. congruence.
    + rewrite ls_dep_targets0. fold (dep_targets_of al). rewrite app_assoc. congruence.
    + rewrite ls_need_dep0. fold (exists_c NeedDepTarget al).
      destruct (is_c NeedDepTarget a), (exists_c NeedDepTarget al), (v_need_dep_target v); cbn in *; congruence.
    + rewrite ls_split_dwarf0. fold (exists_c SplitDwarf al).
      destruct (is_c SplitDwarf a), (exists_c SplitDwarf al), (v_split_dwarf v); cbn in *; congruence.
    + congruence.
    + congruence.
    + rewrite ls_dep_path0. replace (v_dep_path v2) with (v_dep_path v1) by congruence. rewrite Hdp.
      destruct (is_c DepArgumentPath a), (is_c NeedDepTarget a), (v_dep_path v); reflexivity.
    + rewrite ls_input0. unfold inputs. cbn [filter].
      destruct (is_input a); cbn [map last_opt fold_left]; unfold last_opt; congruence.
    + rewrite ls_multiple0. unfold inputs. cbn [filter].
      destruct (is_input a) eqn:Hi; cbn [map multi].
      * replace (v_input v2) with (Some (raw_word a)) by congruence.
        replace (v_multiple_input v2) with (v_multiple_input v || (true && match v_input v with Some _ => true | None => false end)) by congruence.
        cbn [andb]. rewrite orb_assoc. reflexivity.
      * replace (v_input v2) with (v_input v) by congruence.
        replace (v_multiple_input v2) with (v_multiple_input v || (false && match v_input v with Some _ => true | None => false end)) by congruence.
        cbn [andb]. rewrite orb_false_r. reflexivity.
Qed.

(* ---- the code after the loops *)

Local Open Scope string_scope.

Definition fix_common (v : vars) (output : bytes) : list bytes :=
  if v_split_dwarf v then [bs "-D_gsplit_dwarf_path=" ++ with_extension output (bs "dwo")] else [].

Definition fix_dep (v : vars) (output : bytes) : list bytes :=
  (if v_need_dep_target v
   then match v_dep_targets v with [] => [bs "-MT"; output] | ts => dep_target_words ts end
   else [])
  ++ (match v_dep_path v with DPMissing => [bs "-MF"; with_extension output (bs "d")] | _ => [] end).

Definition fix_words (d : dest) (v : vars) (output : bytes) : list bytes :=
  match d with DCommon => fix_common v output | DDep => fix_dep v output | _ => [] end.

Definition final_language (T : tables) (E : env) (v : vars) (input : bytes) : option lang :=
  match v_language v with
  | Some l => Some l
  | None =>
      match lang_of_file T input with
      | Some LC => if e_plusplus E then Some LCxx else Some LC
      | o => o
      end
  end.

Definition final_output (v : vars) (input : bytes) : option bytes :=
  match v_output v with
  | Some o => Some o
  | None => file_name (with_extension input (bs "o"))
  end.

Lemma finish_ok T E v l p :
  finish T E v l = ROk p ->
  exists input output,
    v_compilation v = true /\ v_multiple_input v = false /\ v_input v = Some input /\
    p_input p = input /\ final_output v input = Some output /\ obj_path p = Some output /\
    p_cflag p = v_cflag v /\ p_dd_input p = v_dd_input v /\
    final_language T E v input = Some (p_language p) /\
    p_extra_hash p = v_extra_hash v /\
    (forall d, is_list_dest d = true -> get_list d (p_lists p) = get_list d l ++ fix_words d v output).
Proof.
  unfold finish. intros H.
  destruct (v_compilation v) eqn:Hc; cbn [negb] in H; [|discriminate].
  destruct (v_multiple_input v) eqn:Hm; [discriminate|].
  destruct (v_input v) as [input|] eqn:Hi; [|discriminate].
  fold (final_language T E v input) in H.
  destruct (final_language T E v input) as [lng|] eqn:Hl; [|discriminate].
  fold (final_output v input) in H.
  destruct (final_output v input) as [output|] eqn:Ho; [|discriminate].
  injection H as H. subst p. exists input, output. cbn [p_input p_cflag p_dd_input p_language p_extra_hash p_lists].
  do 5 (split; [first [reflexivity | assumption]|]).
  split.
  - unfold obj_path. cbn [p_outputs].
    destruct (v_dia v); destruct (v_split_dwarf v); destruct (v_outputs_gcno v); reflexivity.
  - do 4 (split; [first [reflexivity | assumption]|]).
    intros d Hd. unfold fix_words, fix_common, fix_dep.
    destruct (v_split_dwarf v), (v_need_dep_target v), (v_dep_path v), d; try discriminate;
      cbn [push get_list l_common l_arch l_unhashed l_pre l_dep app]; rewrite ?app_nil_r, <- ?app_assoc; reflexivity.
Qed.

(* ---- no argument lost *)

Definition sel_of (E : env) : tblsel := match e_kind E with KGcc => SelGcc | KClang => SelMerged end.
Definition dd_of (E : env) : option bool := match e_kind E with KGcc => None | KClang => Some false end.

(* the words parse_arguments adds on its own to list d *)
Definition fixups (d : dest) (al : list argument) (output : bytes) : list bytes :=
  match d with
  | DCommon =>
      if exists_c SplitDwarf al then [bs "-D_gsplit_dwarf_path=" ++ with_extension output (bs "dwo")] else []
  | DDep =>
      (if exists_c NeedDepTarget al
       then match dep_targets_of al with [] => [bs "-MT"; output] | ts => dep_target_words ts end
       else [])
      ++ (match dep_path_after DPNotNeeded al with
          | DPMissing => [bs "-MF"; with_extension output (bs "d")]
          | _ => []
          end)
  | _ => []
  end.

Lemma multi_single : forall ins i x,
  multi i ins = false -> last_opt ins i = Some x -> i = None -> ins = [x].
Proof.
  intros [|y [|z r]] i x Hm Hl Hi; subst i; cbn in *.
  - discriminate.
  - congruence.
  - discriminate.
Qed.

Record accounted (T : tables) (E : env) (al xl : list argument) (p : parsed) (output : bytes) : Prop := {
  (* each list is: the normalised renderings of the arguments classified into it, in their original order, then the
     -Xclang arguments classified into it, then what sccache itself adds *)
  ac_lists : forall d, is_list_dest d = true ->
      get_list d (p_lists p) = main_part T d al ++ x_part T d xl ++ fixups d al output;
  ac_xl : Forall (fun a => x_dest_of T a <> None) xl;
  (* the arguments that are not kept in a list, one field each *)
  ac_input : inputs al = [p_input p];
  ac_cflag : exists_c DoCompilation al = true /\ p_cflag p = last_flag DoCompilation al [];
  ac_obj : obj_path p = Some output;
  ac_output : Some output = match last_val Output al None with
                            | Some o => Some o
                            | None => file_name (with_extension (p_input p) (bs "o"))
                            end;
  ac_language : Some (p_language p) =
                match last_lang T al None with
                | Some l => Some l
                | None => match lang_of_file T (p_input p) with
                          | Some LC => if e_plusplus E then Some LCxx else Some LC
                          | o => o
                          end
                end
}.

Theorem no_argument_lost T E argv p :
  parse_arguments T E argv = ROk p ->
  exists al xl output,
    tokens_of T (sel_of E) (dd_of E) (e_files E) argv = (al, TEnd) /\
    tokens_of T SelMerged None (e_files E) (xvals al) = (xl, TEnd) /\
    accounted T E al xl p output.
Proof.
  unfold parse_arguments. fold (sel_of E) (dd_of E). intros H.
  destruct (tokens_of T (sel_of E) (dd_of E) (e_files E) argv) as [al te] eqn:Htok.
  destruct (run_loop (main_step T E) (init_vars, empty_lists) al) as [[v l]|w] eqn:Hloop; [|discriminate].
  destruct te; try discriminate.
  pose proof (main_loop_summary _ _ _ _ _ _ _ Hloop) as S. destruct S.
  cbn [init_vars v_output v_cflag v_compilation v_xclangs v_dep_targets v_need_dep_target v_split_dwarf v_dia
       v_language v_dep_path v_input v_multiple_input app] in *.
  rewrite ls_xclangs0 in H.
  destruct (tokens_of T SelMerged None (e_files E) (xvals al)) as [xl xe] eqn:Hx.
  destruct (run_loop (x_step T E) (v, l, false) xl) as [[[v2 l2] f2]|w] eqn:Hxloop; [|discriminate].
  destruct xe; try discriminate.
  exists al, xl.
  destruct (finish_ok _ _ _ _ _ H) as [input [output F]]. decompose [and] F. clear F.
  exists output. split; [reflexivity|]. split; [exact Hx|].
  pose proof (x_loop_core _ _ _ _ _ _ _ _ _ Hxloop) as C. unfold core_eq in C. decompose [and] C. clear C.
  assert (Hin : inputs al = [input]).
  { apply (multi_single _ None); [ | | reflexivity].
    - rewrite orb_false_r in *. cbn [orb] in ls_multiple0. congruence.
    - congruence. }
  constructor.
  - intros d Hd.
    match goal with Hl : forall d, is_list_dest d = true -> _ |- _ => rewrite (Hl d Hd) end.
    rewrite (x_loop_lists _ _ _ _ _ _ _ _ _ d Hxloop Hd).
    rewrite (main_loop_lists _ _ _ _ _ _ _ d Hloop Hd).
    replace (get_list d empty_lists) with (@nil bytes) by (destruct d; reflexivity).
    cbn [app]. rewrite <- app_assoc. f_equal. f_equal.
    unfold fix_words, fixups, fix_common, fix_dep.
    rewrite !orb_false_r in *.
    destruct d; try reflexivity.
    + replace (v_split_dwarf v2) with (exists_c SplitDwarf al) by congruence. reflexivity.
    + replace (v_need_dep_target v2) with (exists_c NeedDepTarget al) by congruence.
      replace (v_dep_targets v2) with (dep_targets_of al) by congruence.
      replace (v_dep_path v2) with (dep_path_after DPNotNeeded al) by congruence. reflexivity.
  - eapply x_loop_all_listed; eassumption.
  - congruence.
  - rewrite !orb_false_r in *. split; congruence.
  - assumption.
  - match goal with Hf : final_output v2 input = Some output |- _ => unfold final_output in Hf end.
    replace (p_input p) with input by congruence.
    replace (v_output v2) with (last_val Output al None) in * by congruence. congruence.
  - match goal with Hf : final_language T E v2 input = Some _ |- _ => unfold final_language in Hf end.
    replace (p_input p) with input by congruence.
    replace (v_language v2) with (last_lang T al None) in * by congruence. congruence.
Qed.

(* every argument of a successful main loop went to a list or to a dedicated variable *)
Definition unreachable_ok (T : tables) : bool :=
  forallb (fun c => match fst (t_main_dest T c) with
                    | DUnreachable => argdata_eqb c TooHardFlag || argdata_eqb c TooHard
                    | _ => true
                    end) all_argdata.

Lemma all_argdata_complete c : In c all_argdata.
Proof. destruct c; cbn; tauto. Qed.

Lemma effect_too_hard T E v a v1 c :
  effect_step T E v a = inl v1 -> a_data a = Some c -> c <> TooHardFlag /\ c <> TooHard.
Proof.
  intros H. revert c. effect_cases H; intros c0 Hc; cbn in Hc; try discriminate; injection Hc as <-; split; discriminate.
Qed.

Lemma main_loop_all_placed T E :
  unreachable_ok T = true ->
  forall al st st',
  run_loop (main_step T E) st al = inl st' ->
  Forall (fun a => is_list_dest (dest_of T a) = true \/ dest_of T a = DSkip) al.
Proof.
  intros HU. induction al as [|a al IH]; intros st st' H; cbn [run_loop] in H; constructor.
  - destruct (main_step T E st a) as [st1|w] eqn:Hs; [|discriminate].
    destruct st as [v l]. destruct st1 as [v1 l1].
    destruct (main_step_inv _ _ _ _ _ _ _ Hs) as [v0 [He _]].
    unfold dest_of. destruct a as [s|s|s c|s c x dd]; cbn [arg_dest fst]; try (right; reflexivity); try (left; reflexivity).
    all: destruct (fst (t_main_dest T c)) eqn:Hd; try (left; reflexivity); try (right; reflexivity).
    all: exfalso; unfold unreachable_ok in HU; rewrite forallb_forall in HU; specialize (HU c (all_argdata_complete c));
         rewrite Hd in HU; destruct (effect_too_hard _ _ _ _ _ c He eq_refl) as [N1 N2];
         destruct c; try discriminate; congruence.
  - destruct (main_step T E st a) as [st1|w] eqn:Hs; [|discriminate]. eapply IH; eassumption.
Qed.

(* ---- the lists together hold exactly the listed arguments (multiset form) *)
Require Import Coq.Sorting.Permutation.

Lemma perm_filter_split {A B} (f : A -> list B) (p1 p2 : A -> bool) :
  (forall a, p1 a && p2 a = false) ->
  forall l, Permutation (flat_map f (filter (fun a => p1 a || p2 a) l))
                        (flat_map f (filter p1 l) ++ flat_map f (filter p2 l)).
Proof.
  intros Hdis. induction l as [|a l IH]; cbn [filter flat_map app]; [constructor|].
  specialize (Hdis a). destruct (p1 a), (p2 a); try discriminate; cbn [orb flat_map].
  - rewrite <- app_assoc. apply Permutation_app_head. exact IH.
  - eapply Permutation_trans; [apply Permutation_app_head; exact IH|]. apply Permutation_app_swap_app.
  - exact IH.
Qed.

Definition in_dest (T : tables) (d : dest) (a : argument) : bool := dest_eqb (dest_of T a) d.

Lemma listed_words_permutation T al :
  Permutation (flat_map render_norm (filter (fun a => is_list_dest (dest_of T a)) al))
              (main_part T DPre al ++ main_part T DDep al ++ main_part T DUnhashed al
               ++ main_part T DCommon al ++ main_part T DArch al).
Proof.
  unfold main_part. fold (in_dest T DPre) (in_dest T DDep) (in_dest T DUnhashed) (in_dest T DCommon) (in_dest T DArch).
  assert (E1 : filter (fun a => is_list_dest (dest_of T a)) al =
               filter (fun a => in_dest T DPre a || (in_dest T DDep a || (in_dest T DUnhashed a || (in_dest T DCommon a || in_dest T DArch a)))) al).
  { apply filter_ext. intros a. unfold in_dest. destruct (dest_of T a); reflexivity. }
  rewrite E1.
  eapply Permutation_trans; [apply perm_filter_split|apply Permutation_app_head].
  { intros a. unfold in_dest. destruct (dest_of T a); reflexivity. }
  eapply Permutation_trans; [apply perm_filter_split|apply Permutation_app_head].
  { intros a. unfold in_dest. destruct (dest_of T a); reflexivity. }
  eapply Permutation_trans; [apply perm_filter_split|apply Permutation_app_head].
  { intros a. unfold in_dest. destruct (dest_of T a); reflexivity. }
  apply perm_filter_split.
  intros a. unfold in_dest. destruct (dest_of T a); reflexivity.
Qed.

(* ================================================================== Part 2: the table search *)

Lemma In_firstn {A} (x : A) n l : In x (firstn n l) -> In x l.
Proof. revert l; induction n as [|n IH]; intros [|y l] H; cbn in *; try tauto. destruct H; [left|right]; auto. Qed.

Lemma In_skipn {A} (x : A) n l : In x (skipn n l) -> In x l.
Proof. revert l; induction n as [|n IH]; intros [|y l] H; cbn in *; try tauto. right; auto. Qed.

(* the search only looks at the key through the comparator *)
Lemma bsearch_ext k1 k2 : forall fuel items,
  (forall i, In i items -> info_cmp i k1 = info_cmp i k2) ->
  bsearch fuel k1 items = bsearch fuel k2 items.
Proof.
  induction fuel as [|f IH]; intros items H; [reflexivity|].
  cbn [bsearch]. destruct items as [|i0 r] eqn:Hit; [reflexivity|]. rewrite <- Hit in *.
  destruct (nth_error items (Nat.div (length items) 2)) as [m|] eqn:Hn; [|reflexivity].
  rewrite <- (H m (nth_error_In _ _ Hn)).
  rewrite (IH (skipn (S (Nat.div (length items) 2)) items)) by (intros i Hi; apply H; eapply In_skipn; exact Hi).
  rewrite (IH (firstn (Nat.div (length items) 2) items)) by (intros i Hi; apply H; eapply In_firstn; exact Hi).
  reflexivity.
Qed.

(* ---- what the comparator answers for EVERY key that starts with p *)

(* [ne] = the rest is known to be non-empty *)
Fixpoint plain_pref (ne : bool) (f p : bytes) : option comparison :=
  match f, p with
  | [], [] => if ne then Some Lt else None
  | [], _ :: _ => Some Lt
  | _ :: _, [] => None
  | x :: f', y :: p' => match N.compare x y with Eq => plain_pref ne f' p' | c => Some c end
  end.

Lemma plain_pref_sound ne : forall f p c, plain_pref ne f p = Some c ->
  forall rest, (ne = true -> rest <> []) -> bytes_cmp f (p ++ rest) = c.
Proof.
  induction f as [|x f IH]; intros [|y p] c H rest Hne; cbn in *; try discriminate.
  - destruct ne; [|discriminate]. destruct rest; [exfalso; apply Hne; reflexivity|]. congruence.
  - congruence.
  - destruct (N.compare x y); [apply IH; assumption | congruence | congruence].
Qed.

Fixpoint sw_pref (s p : bytes) : option bool :=
  match s, p with
  | [], _ => Some true
  | _ :: _, [] => None
  | x :: s', y :: p' => if N.eqb x y then sw_pref s' p' else Some false
  end.

Lemma sw_pref_sound : forall s p b, sw_pref s p = Some b -> forall rest, starts_with s (p ++ rest) = b.
Proof.
  induction s as [|x s IH]; intros [|y p] b H rest; cbn in *; try discriminate; try congruence.
  destruct (N.eqb x y); cbn; [apply IH; exact H | congruence].
Qed.

Lemma sw_pref_true_length : forall s p, sw_pref s p = Some true -> (length s <= length p)%nat.
Proof.
  induction s as [|x s IH]; intros [|y p] H; cbn in *; try discriminate; try lia.
  destruct (N.eqb x y); [|discriminate]. specialize (IH _ H). lia.
Qed.

Definition cmp_pref (ne : bool) (i : arginfo) (p : bytes) : option comparison :=
  match i with
  | ITake s _ (CanBeSeparated None) _ | ITake s _ (Concatenated None) _ =>
      match sw_pref s p with
      | Some true => Some Eq
      | Some false => plain_pref ne s p
      | None => None
      end
  | ITake s _ (CanBeSeparated (Some d)) _ | ITake s _ (Concatenated (Some d)) _ =>
      match sw_pref s p with
      | Some true => if Nat.ltb (length s) (length p) then Some (N.compare (nth (length s) p 0) d) else None
      | Some false => plain_pref ne s p
      | None => None
      end
  | _ => plain_pref ne (flag_str i) p
  end.

Lemma nth_app_l' {A} (l l' : list A) n d : (n < length l)%nat -> nth n (l ++ l') d = nth n l d.
Proof. intros H. apply app_nth1. exact H. Qed.

Lemma cmp_pref_sound ne i p c : cmp_pref ne i p = Some c ->
  forall rest, (ne = true -> rest <> []) -> info_cmp i (p ++ rest) = c.
Proof.
  intros H rest Hne. unfold cmp_pref in H. unfold info_cmp.
  destruct i as [s c0|s vt d c0]; [eapply plain_pref_sound; eassumption|].
  destruct d as [|[dd|]|[dd|]|[dd|]]; cbn [flag_str] in *; try (eapply plain_pref_sound; eassumption).
  all: destruct (sw_pref s p) as [[|]|] eqn:Hsw; try discriminate.
  all: try (rewrite (sw_pref_sound _ _ _ Hsw rest)).
  all: try (rewrite andb_false_r; eapply plain_pref_sound; eassumption).
  all: try (injection H as <-; reflexivity).
  all: try (eapply plain_pref_sound; eassumption).
  all: destruct (Nat.ltb (length s) (length p)) eqn:Hlt; [|discriminate]; injection H as <-;
       apply Nat.ltb_lt in Hlt;
       replace (Nat.ltb (length s) (length (p ++ rest))) with true
         by (symmetry; apply Nat.ltb_lt; rewrite app_length; lia);
       cbn [andb]; rewrite nth_app_l' by exact Hlt; reflexivity.
Qed.

(* the search run on a prefix: Some r = every key with that prefix gives r; None = it depends on the rest *)
Fixpoint bsearch_p (ne : bool) (fuel : nat) (p : bytes) (items : list arginfo) : option (option arginfo) :=
  match fuel with
  | O => Some None
  | S f =>
      match items with
      | [] => Some None
      | _ =>
          let middle := Nat.div (length items) 2 in
          match nth_error items middle with
          | None => Some None
          | Some m =>
              match cmp_pref ne m p with
              | None => None
              | Some Eq =>
                  let after := if Nat.eqb (length items) 1 then Some None
                               else bsearch_p ne f p (skipn (S middle) items) in
                  match after with
                  | None => None
                  | Some (Some a) => Some (Some a)
                  | Some None => Some (Some m)
                  end
              | Some Gt => bsearch_p ne f p (firstn middle items)
              | Some Lt => bsearch_p ne f p (skipn (S middle) items)
              end
          end
      end
  end.

Lemma bsearch_p_sound ne p rest : (ne = true -> rest <> []) -> forall fuel items r,
  bsearch_p ne fuel p items = Some r -> bsearch fuel (p ++ rest) items = r.
Proof.
  intros Hne. induction fuel as [|f IH]; intros items r H; cbn [bsearch_p bsearch] in *; [congruence|].
  destruct items as [|i0 it] eqn:Hit; [congruence|]. rewrite <- Hit in *.
  destruct (nth_error items (Nat.div (length items) 2)) as [m|] eqn:Hn; [|congruence].
  destruct (cmp_pref ne m p) as [c|] eqn:Hc; [|discriminate].
  rewrite (cmp_pref_sound _ _ _ _ Hc rest Hne).
  destruct c.
  - destruct (Nat.eqb (length items) 1).
    + congruence.
    + destruct (bsearch_p ne f p (skipn (S (Nat.div (length items) 2)) items)) as [[a|]|] eqn:Ha; try discriminate;
        rewrite (IH _ _ Ha); congruence.
  - apply IH; exact H.
  - apply IH; exact H.
Qed.

Definition search1_p (ne : bool) (tbl : list arginfo) (p : bytes) : option (option arginfo) :=
  bsearch_p ne (S (length tbl)) p tbl.

Definition search2_p (ne : bool) (t0 t1 : list arginfo) (p : bytes) : option (option arginfo) :=
  match search1_p ne t0 p, search1_p ne t1 p with
  | Some None, Some None => Some None
  | Some (Some a), Some None => Some (Some a)
  | Some None, Some (Some b) => Some (Some b)
  | Some (Some a), Some (Some b) =>
      Some (match bytes_cmp (flag_str a) (flag_str b) with Gt => Some a | _ => Some b end)
  | _, _ => None
  end.

Definition search_p (ne : bool) (T : tables) (sel : tblsel) (p : bytes) : option (option arginfo) :=
  match sel with
  | SelGcc => search1_p ne (t_gcc T) p
  | SelMerged => search2_p ne (t_gcc T) (t_clang T) p
  end.

Lemma search1_p_sound ne tbl p r : search1_p ne tbl p = Some r ->
  forall rest, (ne = true -> rest <> []) -> search1 tbl (p ++ rest) = r.
Proof. intros H rest Hne. eapply bsearch_p_sound; eassumption. Qed.

Lemma search_p_sound ne T sel p r : search_p ne T sel p = Some r ->
  forall rest, (ne = true -> rest <> []) -> search T sel (p ++ rest) = r.
Proof.
  intros H rest Hne. destruct sel; cbn [search_p search] in *.
  - eapply search1_p_sound; eassumption.
  - unfold search2_p in H. unfold search2.
    destruct (search1_p ne (t_gcc T) p) as [r0|] eqn:H0; [|discriminate].
    destruct (search1_p ne (t_clang T) p) as [r1|] eqn:H1; [|destruct r0; discriminate].
    rewrite (search1_p_sound _ _ _ _ H0 rest Hne), (search1_p_sound _ _ _ _ H1 rest Hne).
    destruct r0, r1; congruence.
Qed.

(* ---- decidable equality of table rows *)

Definition optN_eqb (a b : option N) : bool :=
  match a, b with Some x, Some y => N.eqb x y | None, None => true | _, _ => false end.

Definition disp_eqb (a b : disp) : bool :=
  match a, b with
  | Separated, Separated => true
  | CanBeConcatenated x, CanBeConcatenated y | CanBeSeparated x, CanBeSeparated y
  | Concatenated x, Concatenated y => optN_eqb x y
  | _, _ => false
  end.

Definition vtype_eqb (a b : vtype) : bool :=
  match a, b with VOsString, VOsString | VPathBuf, VPathBuf => true | _, _ => false end.

Definition arginfo_eqb (a b : arginfo) : bool :=
  match a, b with
  | IFlag s c, IFlag s' c' => bytes_eqb s s' && argdata_eqb c c'
  | ITake s vt d c, ITake s' vt' d' c' => bytes_eqb s s' && vtype_eqb vt vt' && disp_eqb d d' && argdata_eqb c c'
  | _, _ => false
  end.

Lemma argdata_eqb_eq a b : argdata_eqb a b = true -> a = b.
Proof. destruct a, b; cbv; intros H; try reflexivity; discriminate. Qed.

Lemma optN_eqb_eq a b : optN_eqb a b = true -> a = b.
Proof. destruct a, b; cbn; intros H; try discriminate; try reflexivity. apply N.eqb_eq in H. congruence. Qed.

Lemma disp_eqb_eq a b : disp_eqb a b = true -> a = b.
Proof. destruct a, b; cbn; intros H; try discriminate; try reflexivity; apply optN_eqb_eq in H; congruence. Qed.

Lemma arginfo_eqb_eq a b : arginfo_eqb a b = true -> a = b.
Proof.
  destruct a as [s c|s vt d c], b as [s' c'|s' vt' d' c']; cbn; intros H; try discriminate.
  - apply andb_true_iff in H as [H1 H2]. apply bytes_eqb_eq in H1. apply argdata_eqb_eq in H2. congruence.
  - repeat (apply andb_true_iff in H as [H ?]). apply bytes_eqb_eq in H.
    match goal with Hd : disp_eqb _ _ = true |- _ => apply disp_eqb_eq in Hd end.
    match goal with Hd : argdata_eqb _ _ = true |- _ => apply argdata_eqb_eq in Hd end.
    destruct vt, vt'; try discriminate; congruence.
Qed.

(* ---- every argument that is neither preprocessor-only, dependency-only, declared unhashed nor kept in a dedicated
        field is in the hashed list (common_args ++ arch_args is what hash_key receives) *)

Definition hashed_args (p : parsed) : list bytes := l_common (p_lists p) ++ l_arch (p_lists p).

Lemma main_part_In T d a al w :
  In a al -> dest_of T a = d -> In w (render_norm a) -> In w (main_part T d al).
Proof.
  intros Ha Hd Hw. unfold main_part. apply in_flat_map. exists a. split; [|exact Hw].
  apply filter_In. split; [exact Ha|]. apply dest_eqb_eq. exact Hd.
Qed.

Lemma x_part_In T d a xl w :
  In a xl -> x_dest_of T a = Some d -> In w (x_words a) -> In w (x_part T d xl).
Proof.
  intros Ha Hd Hw. unfold x_part. apply in_flat_map. exists a. split; [|exact Hw].
  apply filter_In. split; [exact Ha|]. rewrite Hd. apply dest_eqb_eq. reflexivity.
Qed.

Definition main_hashed_or_exempt (T : tables) (p : parsed) (a : argument) : Prop :=
  match dest_of T a with
  | DCommon | DArch => forall w, In w (render_norm a) -> In w (hashed_args p)
  | DPre | DDep | DUnhashed | DSkip => True
  | DUnreachable => False
  end.

Definition x_hashed_or_exempt (T : tables) (p : parsed) (a : argument) : Prop :=
  match x_dest_of T a with
  | Some DCommon | Some DArch => forall w, In w (x_words a) -> In w (hashed_args p)
  | Some _ => True
  | None => False
  end.

Theorem every_result_affecting_arg_is_hashed T E argv p :
  unreachable_ok T = true ->
  parse_arguments T E argv = ROk p ->
  exists al xl,
    tokens_of T (sel_of E) (dd_of E) (e_files E) argv = (al, TEnd) /\
    tokens_of T SelMerged None (e_files E) (xvals al) = (xl, TEnd) /\
    Forall (main_hashed_or_exempt T p) al /\
    Forall (x_hashed_or_exempt T p) xl.
Proof.
  intros HU H.
  destruct (no_argument_lost _ _ _ _ H) as [al [xl [output [Htok [Hx A]]]]].
  exists al, xl. split; [exact Htok|]. split; [exact Hx|].
  assert (Hplaced : Forall (fun a => is_list_dest (dest_of T a) = true \/ dest_of T a = DSkip) al).
  { unfold parse_arguments in H. fold (sel_of E) (dd_of E) in H. rewrite Htok in H.
    destruct (run_loop (main_step T E) (init_vars, empty_lists) al) as [[v l]|w] eqn:Hloop; [|discriminate].
    eapply main_loop_all_placed; eassumption. }
  destruct A as [Hl Hxl _ _ _ _ _].
  split.
  - rewrite Forall_forall in *. intros a Ha. specialize (Hplaced a Ha). unfold main_hashed_or_exempt.
    destruct (dest_of T a) eqn:Hd; try exact I.
    + intros w Hw. unfold hashed_args. apply in_or_app. left.
      change (l_common (p_lists p)) with (get_list DCommon (p_lists p)). rewrite (Hl DCommon eq_refl).
      apply in_or_app. left. eapply main_part_In; eassumption.
    + intros w Hw. unfold hashed_args. apply in_or_app. right.
      change (l_arch (p_lists p)) with (get_list DArch (p_lists p)). rewrite (Hl DArch eq_refl).
      apply in_or_app. left. eapply main_part_In; eassumption.
    + destruct Hplaced as [Hp|Hp]; discriminate.
  - rewrite Forall_forall in *. intros a Ha. specialize (Hxl a Ha). unfold x_hashed_or_exempt.
    destruct (x_dest_of T a) as [d|] eqn:Hd; [|congruence].
    destruct d; try exact I.
    + intros w Hw. unfold hashed_args. apply in_or_app. left.
      change (l_common (p_lists p)) with (get_list DCommon (p_lists p)). rewrite (Hl DCommon eq_refl).
      apply in_or_app. right. apply in_or_app. left. eapply x_part_In; eassumption.
    + intros w Hw. unfold hashed_args. apply in_or_app. right.
      change (l_arch (p_lists p)) with (get_list DArch (p_lists p)). rewrite (Hl DArch eq_refl).
      apply in_or_app. right. apply in_or_app. left. eapply x_part_In; eassumption.
Qed.

(* ---- the dedicated kinds on the command line *)

Lemma dep_target_words_In f t ts : In (f, t) ts -> In f (dep_target_words ts) /\ In t (dep_target_words ts).
Proof.
  induction ts as [|[f' t'] r IH]; cbn; [tauto|]. intros [H|H].
  - injection H as -> ->. split; [left; reflexivity | right; left; reflexivity].
  - destruct (IH H). split; right; right; assumption.
Qed.

(* -MT/-MQ targets are on the command line whenever a -MD/-MMD/-MP asks for the dependency file *)
Lemma dep_targets_kept T E al xl p output a :
  accounted T E al xl p output ->
  exists_c NeedDepTarget al = true -> In a al -> is_c DepTarget a = true ->
  In (flag_of a) (l_dep (p_lists p)) /\ In (a_value a) (l_dep (p_lists p)).
Proof.
  intros A Hn Ha Hc. destruct A as [Hl _ _ _ _ _ _].
  change (l_dep (p_lists p)) with (get_list DDep (p_lists p)). rewrite (Hl DDep eq_refl).
  assert (Hin : In (flag_of a, a_value a) (dep_targets_of al)).
  { unfold dep_targets_of. apply in_flat_map. exists a. split; [exact Ha|]. rewrite Hc. left. reflexivity. }
  unfold fixups. rewrite Hn.
  destruct (dep_targets_of al) as [|t0 ts] eqn:Hts; [destruct Hin|].
  destruct (dep_target_words_In _ _ _ Hin) as [H1 H2].
  split; apply in_or_app; right; apply in_or_app; right; apply in_or_app; left; assumption.
Qed.

(* ================================================================== Part 3: re-tokenising a rendered argument *)

Definition first_is_at (w : bytes) : bool := match w with 64 :: _ => true | _ => false end.

Lemma pop_not_at lits left fs w rest : first_is_at w = false -> pop lits left fs (w :: rest) = PopArg w rest left.
Proof.
  intros H. destruct w as [|c w']; [destruct left; reflexivity|].
  destruct c as [|p]; [destruct left; reflexivity|].
  do 7 (destruct p as [p|p|]; try (destruct left; reflexivity)); try discriminate H.
Qed.

Lemma starts_with_app s x : starts_with s (s ++ x) = true.
Proof. induction s as [|c s IH]; cbn; [reflexivity|]. rewrite N.eqb_refl. exact IH. Qed.

Lemma skipn_length_app {A} (s x : list A) : skipn (length s) (s ++ x) = x.
Proof. induction s; cbn; auto. Qed.

Lemma nth_error_length_app {A} (s : list A) c x : nth_error (s ++ c :: x) (length s) = Some c.
Proof. induction s; cbn; auto. Qed.

Lemma bytes_eqb_app_false s x : x <> [] -> bytes_eqb (s ++ x) s = false.
Proof.
  intros Hx. destruct (bytes_eqb (s ++ x) s) eqn:E; [|reflexivity].
  apply bytes_eqb_eq in E. exfalso. apply Hx.
  assert (L : length (s ++ x) = length s) by congruence. rewrite app_length in L.
  destruct x; [reflexivity|]. cbn in L. lia.
Qed.

Definition dd_passes (dd : option bool) (w : bytes) : Prop :=
  dd <> Some true /\ (dd = Some false -> bytes_eqb w dashdash = false).

Lemma dd_step dd w : dd_passes dd w ->
  match dd with Some false => if bytes_eqb w dashdash then Some true else dd | _ => dd end = dd.
Proof. intros [H1 H2]. destruct dd as [[|]|]; try reflexivity. rewrite (H2 eq_refl). reflexivity. Qed.

(* (A) a flag row found by its own spelling: the word is read back as that flag *)
Lemma retokenize_flag T sel dd fs left f s c rest :
  search T sel s = Some (IFlag s c) -> first_is_at s = false -> dd_passes dd s ->
  tokenize (S f) T sel dd fs left (s :: rest) =
  (let '(l, e) := tokenize f T sel dd fs left rest in (AFlag s c :: l, e)).
Proof.
  intros Hs Hat Hdd. cbn [tokenize]. rewrite (pop_not_at _ _ _ _ _ Hat). rewrite (dd_step _ _ Hdd).
  destruct Hdd as [Hd1 _]. rewrite Hs. cbn [process].
  destruct dd as [[|]|]; try congruence; reflexivity.
Qed.

(* (B) a row that takes a separate value, found by its own spelling: spelling and value are read back as one argument *)
Definition sep_disp (d0 : disp) : option disp :=
  match d0 with
  | Separated => Some Separated
  | CanBeSeparated d | CanBeConcatenated d => Some (CanBeConcatenated d)
  | Concatenated _ => None
  end.

Lemma retokenize_separated T sel dd fs left f s vt d0 d c v rest :
  search T sel s = Some (ITake s vt d0 c) -> sep_disp d0 = Some d ->
  first_is_at s = false -> first_is_at v = false -> dd_passes dd s ->
  tokenize (S f) T sel dd fs left (s :: v :: rest) =
  (let '(l, e) := tokenize f T sel dd fs left rest in (AWith s c v d :: l, e)).
Proof.
  intros Hs Hd Hat Hv Hdd. cbn [tokenize]. rewrite (pop_not_at _ _ _ _ _ Hat). rewrite (dd_step _ _ Hdd).
  destruct Hdd as [Hd1 _]. rewrite Hs. rewrite (pop_not_at _ _ _ _ _ Hv).
  destruct d0 as [|x|x|x]; cbn in Hd; try discriminate; injection Hd as <-; cbn [process]; rewrite ?bytes_eqb_refl;
    destruct dd as [[|]|]; try congruence; reflexivity.
Qed.

(* (C) a row that accepts a joined value, all of whose family keys reach it: the joined word is read back *)
Definition joined_word (s : bytes) (d : option N) (v : bytes) : bytes :=
  s ++ (match d with Some c => [c] | None => [] end) ++ v.

Definition joined_disp (d0 : disp) : option (option N * disp) :=
  match d0 with
  | CanBeSeparated d => Some (d, CanBeSeparated d)
  | Concatenated d => Some (d, Concatenated d)
  | _ => None
  end.

Lemma process_conc_joined s c d v : process_conc s c d (joined_word s d v) = v
                                    \/ (d <> None /\ False).
Proof.
  left. unfold process_conc, joined_word. destruct d as [c0|]; cbn [app].
  - rewrite nth_error_length_app. unfold opt_N_eqb. rewrite N.eqb_refl.
    replace (s ++ c0 :: v) with ((s ++ [c0]) ++ v) by (rewrite <- app_assoc; reflexivity).
    replace (S (length s)) with (length (s ++ [c0])) by (rewrite app_length; cbn; lia).
    apply skipn_length_app.
  - apply skipn_length_app.
Qed.

Lemma retokenize_joined T sel dd fs left f s vt d0 dl d c v rest :
  search T sel (joined_word s dl v) = Some (ITake s vt d0 c) -> joined_disp d0 = Some (dl, d) ->
  (dl = None -> v <> []) ->
  first_is_at (joined_word s dl v) = false -> dd_passes dd (joined_word s dl v) ->
  tokenize (S f) T sel dd fs left (joined_word s dl v :: rest) =
  (let '(l, e) := tokenize f T sel dd fs left rest in (AWith s c v d :: l, e)).
Proof.
  intros Hs Hd Hne Hat Hdd. cbn [tokenize]. rewrite (pop_not_at _ _ _ _ _ Hat). rewrite (dd_step _ _ Hdd).
  destruct Hdd as [Hd1 _]. rewrite Hs.
  assert (Hneq : bytes_eqb (joined_word s dl v) s = false).
  { unfold joined_word. apply bytes_eqb_app_false. destruct dl; [discriminate|]. cbn. apply Hne. reflexivity. }
  destruct (process_conc_joined s c dl v) as [Hpc|[_ []]].
  destruct d0 as [|x|x|x]; cbn in Hd; try discriminate; injection Hd as <- <-; cbn [process];
    rewrite ?Hneq, Hpc; destruct dd as [[|]|]; try congruence;
    destruct (pop (t_rsp_literal T) left fs rest); reflexivity.
Qed.

(* ================================================================== Part 4: the fuel of [tokens_of] always suffices *)

Definition mu (fs : fsys) (left : nat) (stack : list bytes) : nat :=
  (length stack + left * S (max_file_tokens fs))%nat.

Lemma assoc_tokens_bound name : forall fs content,
  assoc name fs = Some content -> (length (split_ws content) <= max_file_tokens fs)%nat.
Proof.
  induction fs as [|[k c] r IH]; intros content H; cbn in *; [discriminate|].
  destruct (bytes_eqb name k).
  - injection H as ->. apply Nat.le_max_l.
  - specialize (IH _ H). pose proof (Nat.le_max_r (length (split_ws c)) (max_file_tokens r)). lia.
Qed.

Lemma pop_measure lits fs : forall left stack a rest left',
  pop lits left fs stack = PopArg a rest left' -> (mu fs left' rest < mu fs left stack)%nat.
Proof.
  unfold mu. induction left as [|l IH]; intros stack a rest left' H.
  - destruct stack as [|w r]; cbn in H; [discriminate|].
    destruct w as [|c w']; [injection H as _ <- <-; cbn; lia|].
    destruct c as [|p]; [injection H as _ <- <-; cbn; lia|].
    do 7 (destruct p as [p|p|]; try (injection H as _ <- <-; cbn; lia)).
  - destruct stack as [|w r]; [cbn in H; discriminate|].
    destruct (first_is_at w) eqn:Hat.
    + destruct w as [|c name]; [discriminate|].
      assert (c = 64%N) as ->.
      { destruct c as [|p]; [discriminate|]. do 7 (destruct p as [p|p|]; try discriminate). reflexivity. }
      cbn [pop] in H.
      destruct (assoc name fs) as [content|] eqn:Ha.
      * destruct (has_quote lits content).
        -- injection H as _ <- <-. cbn. lia.
        -- specialize (IH _ _ _ _ H). pose proof (assoc_tokens_bound _ _ _ Ha). rewrite app_length in IH. cbn. lia.
      * injection H as _ <- <-. cbn. lia.
    + rewrite (pop_not_at _ _ _ _ _ Hat) in H. injection H as _ <- <-. cbn. lia.
Qed.

Lemma tokenize_enough_fuel T sel fs : forall fuel dd left stack,
  (mu fs left stack < fuel)%nat -> snd (tokenize fuel T sel dd fs left stack) <> TFuel.
Proof.
  induction fuel as [|f IH]; intros dd left stack Hmu; [lia|].
  cbn [tokenize].
  destruct (pop (t_rsp_literal T) left fs stack) as [|arg rest left1] eqn:Hp; [cbn; discriminate|].
  pose proof (pop_measure _ _ _ _ _ _ _ Hp) as M1.
  set (dd' := match dd with Some false => if bytes_eqb arg dashdash then Some true else dd | _ => dd end).
  assert (Hrest : forall d, snd (tokenize f T sel d fs left1 rest) <> TFuel) by (intros d; apply IH; lia).
  destruct dd' as [[|]|].
  - specialize (Hrest (Some true)). destruct (tokenize f T sel (Some true) fs left1 rest). exact Hrest.
  - destruct (search T sel arg) as [i|].
    + destruct (process i arg _) as [a consumed|]; [|cbn; discriminate].
      destruct consumed.
      * destruct (pop (t_rsp_literal T) left1 fs rest) as [|a2 r2 l2] eqn:Hp2.
        -- assert (H0 : snd (tokenize f T sel (Some false) fs left1 []) <> TFuel) by (apply IH; unfold mu in *; cbn; lia).
           destruct (tokenize f T sel (Some false) fs left1 []). exact H0.
        -- pose proof (pop_measure _ _ _ _ _ _ _ Hp2) as M2.
           assert (H0 : snd (tokenize f T sel (Some false) fs l2 r2) <> TFuel) by (apply IH; lia).
           destruct (tokenize f T sel (Some false) fs l2 r2). exact H0.
      * specialize (Hrest (Some false)). destruct (tokenize f T sel (Some false) fs left1 rest). exact Hrest.
    + specialize (Hrest (Some false)). destruct (tokenize f T sel (Some false) fs left1 rest). exact Hrest.
  - destruct (search T sel arg) as [i|].
    + destruct (process i arg _) as [a consumed|]; [|cbn; discriminate].
      destruct consumed.
      * destruct (pop (t_rsp_literal T) left1 fs rest) as [|a2 r2 l2] eqn:Hp2.
        -- assert (H0 : snd (tokenize f T sel None fs left1 []) <> TFuel) by (apply IH; unfold mu in *; cbn; lia).
           destruct (tokenize f T sel None fs left1 []). exact H0.
        -- pose proof (pop_measure _ _ _ _ _ _ _ Hp2) as M2.
           assert (H0 : snd (tokenize f T sel None fs l2 r2) <> TFuel) by (apply IH; lia).
           destruct (tokenize f T sel None fs l2 r2). exact H0.
      * specialize (Hrest None). destruct (tokenize f T sel None fs left1 rest). exact Hrest.
    + specialize (Hrest None). destruct (tokenize f T sel None fs left1 rest). exact Hrest.
Qed.

Lemma tokens_of_never_fuel T sel dd fs ws : snd (tokens_of T sel dd fs ws) <> TFuel.
Proof. unfold tokens_of, tok_fuel. apply tokenize_enough_fuel. unfold mu. lia. Qed.

(* the model is total in the proper sense: the fuel-exhausted answer never occurs, for any tables and any @-files,
   cyclic ones included (the expansion counter of ExpandIncludeFile bounds the work) *)
Theorem parse_never_out_of_fuel T E argv : parse_arguments T E argv <> RFuel.
Proof.
  unfold parse_arguments.
  pose proof (tokens_of_never_fuel T (match e_kind E with KGcc => SelGcc | KClang => SelMerged end)
                (match e_kind E with KGcc => None | KClang => Some false end) (e_files E) argv) as H1.
  destruct (tokens_of T _ _ (e_files E) argv) as [al te].
  destruct (run_loop (main_step T E) (init_vars, empty_lists) al) as [[v l]|w]; [|discriminate].
  destruct te; try discriminate; [|exfalso; apply H1; reflexivity].
  pose proof (tokens_of_never_fuel T SelMerged None (e_files E) (v_xclangs v)) as H2.
  destruct (tokens_of T SelMerged None (e_files E) (v_xclangs v)) as [xl xe].
  destruct (run_loop (x_step T E) (v, l, false) xl) as [[[v2 l2] f2]|w]; [|discriminate].
  destruct xe; try discriminate; [|exfalso; apply H2; reflexivity].
  unfold finish.
  destruct (negb (v_compilation v2)); [discriminate|].
  destruct (v_multiple_input v2); [discriminate|].
  destruct (v_input v2); [|discriminate].
  destruct (match v_language v2 with Some l0 => Some l0 | None => _ end); [|discriminate].
  destruct (match v_output v2 with Some o => Some o | None => _ end); discriminate.
Qed.

(* ================================================================== Part 5: the re-synthesised command line holds every listed argument *)

Lemma get_list_in_command T E p d w :
  is_list_dest d = true -> In w (get_list d (p_lists p)) -> In w (compile_command T E p).
Proof.
  intros Hd Hw. unfold compile_command.
  apply in_or_app; right. apply in_or_app; right.
  destruct d; try discriminate; cbn [get_list] in Hw.
  - (* common *) do 3 (apply in_or_app; right). apply in_or_app; left. exact Hw.
  - (* unhashed *) do 2 (apply in_or_app; right). apply in_or_app; left. exact Hw.
  - (* arch *) do 4 (apply in_or_app; right). apply in_or_app; left. exact Hw.
  - (* pre *) apply in_or_app; left. exact Hw.
  - (* dep *) apply in_or_app; right. apply in_or_app; left. exact Hw.
Qed.

Theorem command_complete T E argv p :
  parse_arguments T E argv = ROk p ->
  exists al xl output,
    tokens_of T (sel_of E) (dd_of E) (e_files E) argv = (al, TEnd) /\
    tokens_of T SelMerged None (e_files E) (xvals al) = (xl, TEnd) /\
    (* every word of every listed argument, in its normalised rendering, is on the command line ... *)
    (forall a w, In a al -> is_list_dest (dest_of T a) = true -> In w (render_norm a) -> In w (compile_command T E p)) /\
    (* ... every -Xclang argument too, each word behind its own -Xclang ... *)
    (forall a d w, In a xl -> x_dest_of T a = Some d -> is_list_dest d = true -> In w (x_words a) ->
                   In w (compile_command T E p)) /\
    (* ... and the dedicated kinds: the compilation flag, `-o` with the output, the input as the last word *)
    In (p_cflag p) (compile_command T E p) /\ In output (compile_command T E p) /\
    last (compile_command T E p) [] = p_input p /\ inputs al = [p_input p].
Proof.
  intros H. destruct (no_argument_lost _ _ _ _ H) as [al [xl [output [Htok [Hx A]]]]].
  exists al, xl, output. split; [exact Htok|]. split; [exact Hx|].
  destruct A as [Hl Hxl Hin Hcf Hobj Hout Hlang].
  split; [|split; [|split; [|split; [|split]]]].
  - intros a w Ha Hd Hw. apply (get_list_in_command T E p (dest_of T a) w Hd).
    rewrite (Hl _ Hd). apply in_or_app; left. eapply main_part_In; [exact Ha | reflexivity | exact Hw].
  - intros a d w Ha Hxd Hd Hw. apply (get_list_in_command T E p d w Hd).
    rewrite (Hl _ Hd). apply in_or_app; right. apply in_or_app; left. eapply x_part_In; eassumption.
  - unfold compile_command. apply in_or_app; right. apply in_or_app; left. left. reflexivity.
  - unfold compile_command. rewrite Hobj. apply in_or_app; right. apply in_or_app; left. right. right. left. reflexivity.
  - unfold compile_command. rewrite !app_assoc. apply last_last.
  - exact Hin.
Qed.

(* ================================================================== Part 6: what generate_hash_key hands to the key functions *)

Definition has_whole_list (spec : list keycomp) (d : dest) : bool :=
  existsb (fun c => match c with KList d' => dest_eqb d' d | _ => false end) spec.

Lemma key_words_cover spec p po d w :
  has_whole_list spec d = true -> In w (get_list d (p_lists p)) -> In w (key_words spec p po).
Proof.
  unfold has_whole_list, key_words. intros H Hw. apply existsb_exists in H as [c [Hc Hd]].
  apply in_flat_map. exists c. split; [exact Hc|].
  destruct c as [d'| | |]; try discriminate. apply dest_eqb_eq in Hd. subst d'. exact Hw.
Qed.

(* if the result key's vector holds the whole common and arch lists, every hashed argument reaches hash_key *)
Lemma hashed_args_reach_key spec p po :
  has_whole_list spec DCommon = true -> has_whole_list spec DArch = true ->
  incl (hashed_args p) (key_words spec p po).
Proof.
  intros H1 H2 w Hw. unfold hashed_args in Hw. apply in_app_or in Hw as [Hw|Hw].
  - apply (key_words_cover spec p po DCommon); assumption.
  - apply (key_words_cover spec p po DArch); assumption.
Qed.
