(* Proofs about Model/RoConc.v: concurrent lookups on a read-only DiskCache, for property C15. *)
From Coq Require Import List PeanoNat NArith Bool Lia ZifyN ZifyBool.
From Sccache Require Import Base.Sx Model.Lru Model.RoCache Model.RoConc Proofs.RoCache.
Import ListNotations.
Local Open Scope N_scope.

Lemma nth_set_nth {A} (l : list A) : forall i j x,
  nth_error (set_nth i x l) j = if Nat.eqb i j then match nth_error l j with Some _ => Some x | None => None end
                                else nth_error l j.
Proof.
  induction l as [|y r IH]; intros i j x; simpl.
  - destruct i, j; simpl; try reflexivity; destruct (Nat.eqb i j); reflexivity.
  - destruct i, j; simpl; try reflexivity. apply IH.
Qed.

(* what a finished thread must have answered, given the directory d0 the server was started on *)
Definition answer_ok (d0 : dc) (o : op) (r : out1) : Prop :=
  match o with
  | Get k => forall sz mt, alookup (main_path k) (fs d0) = Some (sz, mt) -> is_temp (main_path k) = false ->
                           min_entry <= sz -> r = OHit
  | PpGet k => forall sz mt, alookup (pp_path k) (fs d0) = Some (sz, mt) -> is_temp (pp_path k) = false ->
                             r = OFound
  | _ => True
  end.

Record cinv (d0 : dc) (ops : list op) (c : cst) : Prop := {
  ci_served : served (cdc c);
  ci_listing : map proj (fs (cdc c)) = map proj (fs d0);
  ci_answers : forall i o r, nth_error ops i = Some o -> nth_error (pcs c) i = Some (PDone r) -> answer_ok d0 o r
}.

Lemma present_later d0 d p sz mt :
  map proj (fs d) = map proj (fs d0) -> alookup p (fs d0) = Some (sz, mt) ->
  exists mt1, alookup p (fs d) = Some (sz, mt1).
Proof.
  intros Hp Ha. pose proof (lookup_proj (fs d0) (fs d) p Hp) as E. rewrite Ha in E. simpl in E.
  destruct (alookup p (fs d)) as [[sz1 mt1]|]; [|discriminate]. simpl in E. inversion E; subst. eauto.
Qed.

Lemma tstep_cinv d0 ops scan c i :
  forallb is_lookup ops = true -> cinv d0 ops c -> cinv d0 ops (tstep ops scan c i).
Proof.
  intros Hlk [Hsv Hl Ha]. unfold tstep.
  destruct (nth_error ops i) as [o|] eqn:Eo; [|constructor; assumption].
  destruct (nth_error (pcs c) i) as [[|[|n]|r0]|] eqn:Ep; try (constructor; assumption).
  - (* PStart *)
    destruct (lock_of (on_pp o) c); [constructor; assumption|].
    constructor; simpl; try assumption.
    intros j o' r Ho' Hj. rewrite nth_set_nth in Hj. destruct (Nat.eqb i j) eqn:E.
    + destruct (nth_error (pcs c) j); discriminate.
    + destruct (on_pp o); simpl in Hj; eapply Ha; eauto.
  - (* PHolding 0: the lookup proper *)
    assert (Hin : In o ops) by (eapply nth_error_In; eauto).
    assert (Hlo : is_lookup o = true) by (rewrite forallb_forall in Hlk; apply Hlk, Hin).
    assert (Hfit : ro_op_fits (total_size (fs (cdc c))) o = true) by (destruct o; simpl in *; congruence).
    destruct (step_served (cdc c) o Hsv Hfit) as [Hsv' Hl'].
    destruct (step (cdc c) o) as [d' r] eqn:Es. simpl in Hsv', Hl'.
    constructor.
    + destruct (on_pp o); simpl; exact Hsv'.
    + destruct (on_pp o); simpl; congruence.
    + intros j o' r' Ho' Hj.
      assert (Hj' : nth_error (set_nth i (PDone r) (pcs c)) j = Some (PDone r'))
        by (destruct (on_pp o); simpl in Hj; exact Hj).
      rewrite nth_set_nth in Hj'. destruct (Nat.eqb i j) eqn:E.
      * apply Nat.eqb_eq in E. subst j. rewrite Ep in Hj'. inversion Hj'; subst r'.
        rewrite Eo in Ho'. inversion Ho'; subst o'.
        assert (Er : r = snd (step (cdc c) o)) by (rewrite Es; reflexivity).
        destruct o; simpl in Hlo; try discriminate; simpl; intros sz mt Hpres Ht.
        -- intros Hsz. destruct (present_later d0 (cdc c) _ sz mt Hl Hpres) as [mt1 Hp1].
           rewrite Er. eapply served_hit; eauto.
        -- destruct (present_later d0 (cdc c) _ sz mt Hl Hpres) as [mt1 Hp1].
           rewrite Er. eapply served_found; eauto.
      * eapply Ha; eauto.
  - (* PHolding (S n): scanning *)
    constructor; simpl; try assumption.
    intros j o' r Ho' Hj. rewrite nth_set_nth in Hj. destruct (Nat.eqb i j) eqn:E.
    + destruct (nth_error (pcs c) j); discriminate.
    + eapply Ha; eauto.
Qed.

Lemma crun_cinv d0 ops scan sched : forall c,
  forallb is_lookup ops = true -> cinv d0 ops c -> cinv d0 ops (crun ops scan c sched).
Proof.
  induction sched as [|i r IH]; intros c Hlk Hc; simpl; [exact Hc|].
  apply IH; [exact Hlk|]. apply tstep_cinv; assumption.
Qed.

Lemma nth_repeat_start n i p : nth_error (repeat PStart n) i = Some p -> p = PStart.
Proof.
  revert i. induction n as [|n IH]; intros [|i]; simpl; try discriminate.
  - intros H; inversion H; reflexivity.
  - apply IH.
Qed.

(* For ALL schedules, all scan lengths and any number of simultaneous lookups (both stores) against a
   freshly started read-only cache over a canonical directory that fits its size: a lookup that has
   returned has answered "hit" / "found" if its entry is in the directory — in particular a lookup that
   arrives while another request is still opening the store waits, it is never answered "miss" — and
   the (path, size) listing is literally unchanged at every point. *)
Theorem concurrent_lookups_served : forall d ops scan sched,
  rw d = false -> main d = None -> pp d = None -> ksortedb (fs d) = true -> total_size (fs d) <= dcap d ->
  forallb is_lookup ops = true ->
  let c := crun ops scan (cstart d (length ops)) sched in
  map proj (fs (cdc c)) = map proj (fs d) /\
  forall i r, result_of c i = Some r ->
    forall k sz mt,
      (nth_error ops i = Some (Get k) -> alookup (main_path k) (fs d) = Some (sz, mt) ->
       is_temp (main_path k) = false -> min_entry <= sz -> r = OHit) /\
      (nth_error ops i = Some (PpGet k) -> alookup (pp_path k) (fs d) = Some (sz, mt) ->
       is_temp (pp_path k) = false -> r = OFound).
Proof.
  intros d ops scan sched Hrw Hm Hp Hso Hfit Hlk c.
  assert (H0 : cinv d ops (cstart d (length ops))).
  { constructor; simpl.
    - constructor; auto; [apply ksortedb_ok, Hso|]. intros w s Hs. destruct w; simpl in Hs; congruence.
    - reflexivity.
    - intros i o r _ Hi. apply nth_repeat_start in Hi. discriminate. }
  pose proof (crun_cinv d ops scan sched _ Hlk H0) as [Hsv Hl Ha]. fold c in Hsv, Hl, Ha.
  split; [exact Hl|].
  intros i r Hr k sz mt. unfold result_of in Hr.
  destruct (nth_error (pcs c) i) as [[| |r']|] eqn:Ep; try discriminate. inversion Hr; subst r'.
  split; intros Ho; specialize (Ha i _ r Ho Ep); simpl in Ha; intros; eapply Ha; eauto.
Qed.

(* ------------------------------------------------------------------ progress: nobody waits forever *)

Lemma phi_set_nth scan : forall l i p q,
  nth_error l i = Some p ->
  (fold_right (fun p a => cost scan p + a) 0 (set_nth i q l) + cost scan p =
   fold_right (fun p a => cost scan p + a) 0 l + cost scan q)%nat.
Proof.
  induction l as [|y r IH]; intros [|i] p q H; simpl in *; try discriminate.
  - inversion H; subst. lia.
  - specialize (IH i p q H). lia.
Qed.

(* whoever holds a store's mutex is a thread of that store that is in its critical section *)
Definition lock_ok (ops : list op) (c : cst) : Prop :=
  forall w h, lock_of w c = Some h ->
    exists o n, nth_error ops h = Some o /\ on_pp o = w /\ nth_error (pcs c) h = Some (PHolding n).

Lemma length_set_nth {A} (l : list A) : forall i x, length (set_nth i x l) = length l.
Proof. induction l as [|y r IH]; intros [|i] x; simpl; auto. Qed.

Lemma tstep_shape ops scan c i :
  lock_ok ops c ->
  lock_ok ops (tstep ops scan c i) /\ length (pcs (tstep ops scan c i)) = length (pcs c) /\
  (phi scan (tstep ops scan c i) <= phi scan c)%nat.
Proof.
  intros Hl. unfold tstep.
  destruct (nth_error ops i) as [o|] eqn:Eo; [|auto].
  destruct (nth_error (pcs c) i) as [[|[|n]|r0]|] eqn:Ep; auto.
  - (* PStart *)
    destruct (lock_of (on_pp o) c) eqn:El; [auto|].
    split; [|split].
    + intros w h Hw. destruct (Bool.eqb w (on_pp o)) eqn:Ew.
      * apply eqb_prop in Ew. subst w.
        assert (h = i) by (destruct (on_pp o); simpl in Hw; congruence). subst h.
        eexists o, _. split; [exact Eo|]. split; [reflexivity|].
        simpl. rewrite nth_set_nth, Nat.eqb_refl, Ep. reflexivity.
      * assert (Hw' : lock_of w c = Some h).
        { destruct w, (on_pp o); simpl in *; try discriminate; exact Hw. }
        destruct (Hl w h Hw') as (o' & n & A & B & C). exists o', n. split; [exact A|]. split; [exact B|].
        simpl. rewrite nth_set_nth. destruct (Nat.eqb i h) eqn:E; [|destruct (on_pp o); exact C].
        apply Nat.eqb_eq in E. subst h. rewrite Ep in C. discriminate.
    + simpl. apply length_set_nth.
    + unfold phi.
      remember (match store_of (on_pp o) (cdc c) with Some _ => 0%nat | None => scan end) as k eqn:Ek.
      assert (Hk : (k <= scan)%nat) by (subst k; destruct (store_of (on_pp o) (cdc c)); lia).
      pose proof (phi_set_nth scan (pcs c) i PStart (PHolding k) Ep) as H.
      simpl in *. lia.
  - (* PHolding 0: finish *)
    destruct (step (cdc c) o) as [d' r] eqn:Es.
    split; [|split].
    + intros w h Hw. destruct (Bool.eqb w (on_pp o)) eqn:Ew.
      * apply eqb_prop in Ew. subst w. destruct (on_pp o); simpl in Hw; discriminate.
      * assert (Hw' : lock_of w c = Some h).
        { destruct w, (on_pp o); simpl in *; try discriminate; exact Hw. }
        destruct (Hl w h Hw') as (o' & n & A & B & C). exists o', n. split; [exact A|]. split; [exact B|].
        assert (Hne : Nat.eqb i h = false).
        { destruct (Nat.eqb i h) eqn:E; [|reflexivity]. apply Nat.eqb_eq in E. subst h.
          rewrite Eo in A. inversion A; subst o'. rewrite B in Ew. rewrite eqb_reflx in Ew. discriminate. }
        destruct (on_pp o); simpl; rewrite nth_set_nth, Hne; exact C.
    + destruct (on_pp o); simpl; apply length_set_nth.
    + unfold phi. pose proof (phi_set_nth scan (pcs c) i (PHolding 0) (PDone r) Ep) as H. simpl in H.
      destruct (on_pp o); simpl; lia.
  - (* PHolding (S n) *)
    split; [|split].
    + intros w h Hw. simpl in Hw.
      assert (Hw' : lock_of w c = Some h) by (destruct w; exact Hw).
      destruct (Hl w h Hw') as (o' & m & A & B & C).
      simpl. destruct (Nat.eqb i h) eqn:E.
      * apply Nat.eqb_eq in E. subst h. exists o', n. split; [exact A|]. split; [exact B|].
        rewrite nth_set_nth, Nat.eqb_refl, Ep. reflexivity.
      * exists o', m. split; [exact A|]. split; [exact B|]. rewrite nth_set_nth, E. exact C.
    + simpl. apply length_set_nth.
    + unfold phi. simpl. pose proof (phi_set_nth scan (pcs c) i (PHolding (S n)) (PHolding n) Ep) as H.
      simpl in H. lia.
Qed.

(* in a well-formed state that is not finished some thread can take a step, and that step pays off *)
Lemma tstep_progress ops scan c :
  lock_ok ops c -> length (pcs c) = length ops -> all_done c = false ->
  exists i, (i < length ops)%nat /\ (phi scan (tstep ops scan c i) < phi scan c)%nat.
Proof.
  intros Hl Hlen Hnd.
  (* a holder, if there is one, can move; otherwise every lock is free and any waiting thread can *)
  assert (Hex : exists i p, nth_error (pcs c) i = Some p /\ is_done p = false).
  { unfold all_done in Hnd. clear -Hnd. induction (pcs c) as [|p r IH]; simpl in Hnd; [discriminate|].
    destruct (is_done p) eqn:E.
    - destruct (IH Hnd) as (i & q & A & B). exists (S i), q. auto.
    - exists 0%nat, p. auto. }
  destruct Hex as (j & p & Hj & Hp).
  assert (Hjlt : (j < length ops)%nat) by (rewrite <- Hlen; apply nth_error_Some; congruence).
  destruct (nth_error ops j) as [oj|] eqn:Eoj; [|apply nth_error_None in Eoj; lia].
  assert (Hmove : forall i o n, nth_error ops i = Some o -> nth_error (pcs c) i = Some (PHolding n) ->
                                (phi scan (tstep ops scan c i) < phi scan c)%nat).
  { intros i o n Ho Hi. unfold tstep. rewrite Ho, Hi. destruct n as [|n].
    - destruct (step (cdc c) o) as [d' r]. unfold phi.
      pose proof (phi_set_nth scan (pcs c) i (PHolding 0) (PDone r) Hi) as H. simpl in H.
      destruct (on_pp o); simpl; lia.
    - unfold phi. simpl. pose proof (phi_set_nth scan (pcs c) i (PHolding (S n)) (PHolding n) Hi) as H.
      simpl in H. lia. }
  destruct p as [|n|r]; [|exists j; split; [exact Hjlt | eapply Hmove; eauto]|discriminate].
  destruct (lock_of (on_pp oj) c) as [h|] eqn:El.
  - destruct (Hl _ _ El) as (o' & n & A & B & C).
    exists h. split; [apply nth_error_Some; congruence | eapply Hmove; eauto].
  - exists j. split; [exact Hjlt|]. unfold tstep. rewrite Eoj, Hj, El. unfold phi.
    remember (match store_of (on_pp oj) (cdc c) with Some _ => 0%nat | None => scan end) as k eqn:Ek.
    assert (Hk : (k <= scan)%nat) by (subst k; destruct (store_of (on_pp oj) (cdc c)); lia).
    pose proof (phi_set_nth scan (pcs c) j PStart (PHolding k) Hj) as H.
    simpl in *. lia.
Qed.

Lemma crun_shape ops scan sched : forall c,
  lock_ok ops c ->
  lock_ok ops (crun ops scan c sched) /\ length (pcs (crun ops scan c sched)) = length (pcs c) /\
  (phi scan (crun ops scan c sched) <= phi scan c)%nat.
Proof.
  induction sched as [|i r IH]; intros c Hl; simpl; [auto|].
  destruct (tstep_shape ops scan c i Hl) as (A & B & C).
  destruct (IH _ A) as (A' & B' & C'). split; [exact A'|]. split; lia.
Qed.

Lemma phi_start scan d n : phi scan (cstart d n) = (n * (scan + 2))%nat.
Proof. unfold phi. simpl. induction n as [|n IH]; simpl; [reflexivity|]. rewrite IH. lia. Qed.

(* For ALL configurations (scan length, LOG LEVEL), numbers of threads and schedules, in every reachable
   state: the work left is bounded by threads * (scan + 2) and no tick increases it, and unless every
   lookup has returned SOME thread can take a step that decreases it — no deadlock, in particular no
   thread ever waits for a mutex it holds itself; under any fair schedule every lookup returns after at
   most threads * (scan + 2) effective ticks. *)
Theorem lookups_never_deadlock : forall cfg d ops sched,
  let c := crun_cfg cfg ops (cstart d (length ops)) sched in
  (phi (cc_scan cfg) c <= length ops * (cc_scan cfg + 2))%nat /\
  (forall i, phi (cc_scan cfg) (tstep ops (cc_scan cfg) c i) <= phi (cc_scan cfg) c)%nat /\
  (all_done c = true \/
   exists i, (i < length ops)%nat /\ (phi (cc_scan cfg) (tstep ops (cc_scan cfg) c i) < phi (cc_scan cfg) c)%nat).
Proof.
  intros cfg d ops sched c. unfold crun_cfg in c.
  assert (H0 : lock_ok ops (cstart d (length ops))) by (intros w h Hw; destruct w; discriminate).
  destruct (crun_shape ops (cc_scan cfg) sched _ H0) as (A & B & C). fold c in A, B, C.
  rewrite phi_start in C. simpl in B. rewrite repeat_length in B.
  split; [exact C|]. split.
  - intros i. apply (tstep_shape ops (cc_scan cfg) c i A).
  - destruct (all_done c) eqn:E; [left; reflexivity|right].
    apply tstep_progress; assumption.
Qed.
