(* Proofs about Model/RoConc.v: concurrent lookups on a read-only DiskCache, for property C15. *)
From Coq Require Import List PeanoNat NArith Bool Lia ZifyN ZifyBool.
From Sccache Require Import Base.Sx Model.Lru Model.RoCache Model.RoConc Proofs.RoCache.
Import ListNotations.
Local Open Scope N_scope.

Lemma nth_set_nth {A} (l : list A) : forall i j x,
  nth_error (set_nth i x l) j = if Nat.eqb i j then match nth_error l j with Some _ => Some x | None => None end
                                else nth_error l j.
Proof.
  induction l as [|y r IH]; intros i j x; simpl.
  - destruct i, j; simpl; try reflexivity; destruct (Nat.eqb i j); reflexivity.
  - destruct i, j; simpl; try reflexivity. apply IH.
Qed.

(* what a finished thread must have answered, given the directory d0 the server was started on *)
Definition answer_ok (d0 : dc) (o : op) (r : out1) : Prop :=
  match o with
  | Get k => forall sz mt, alookup (main_path k) (fs d0) = Some (sz, mt) -> is_temp (main_path k) = false ->
                           min_entry <= sz -> r = OHit
  | PpGet k => forall sz mt, alookup (pp_path k) (fs d0) = Some (sz, mt) -> is_temp (pp_path k) = false ->
                             r = OFound
  | _ => True
  end.

Record cinv (d0 : dc) (ops : list op) (c : cst) : Prop := {
  ci_served : served (cdc c);
  ci_listing : map proj (fs (cdc c)) = map proj (fs d0);
  ci_answers : forall i o r, nth_error ops i = Some o -> nth_error (pcs c) i = Some (PDone r) -> answer_ok d0 o r
}.

Lemma present_later d0 d p sz mt :
  map proj (fs d) = map proj (fs d0) -> alookup p (fs d0) = Some (sz, mt) ->
  exists mt1, alookup p (fs d) = Some (sz, mt1).
Proof.
  intros Hp Ha. pose proof (lookup_proj (fs d0) (fs d) p Hp) as E. rewrite Ha in E. simpl in E.
  destruct (alookup p (fs d)) as [[sz1 mt1]|]; [|discriminate]. simpl in E. inversion E; subst. eauto.
Qed.

Lemma tstep_cinv d0 ops scan c i :
  forallb is_lookup ops = true -> cinv d0 ops c -> cinv d0 ops (tstep ops scan c i).
Proof.
  intros Hlk [Hsv Hl Ha]. unfold tstep.
  destruct (nth_error ops i) as [o|] eqn:Eo; [|constructor; assumption].
  destruct (nth_error (pcs c) i) as [[|[|n]|r0]|] eqn:Ep; try (constructor; assumption).
  - (* PStart *)
    destruct (lock_of (on_pp o) c); [constructor; assumption|].
    constructor; simpl; try assumption.
    intros j o' r Ho' Hj. rewrite nth_set_nth in Hj. destruct (Nat.eqb i j) eqn:E.
    + destruct (nth_error (pcs c) j); discriminate.
    + destruct (on_pp o); simpl in Hj; eapply Ha; eauto.
  - (* PHolding 0: the lookup proper *)
    assert (Hin : In o ops) by (eapply nth_error_In; eauto).
    assert (Hlo : is_lookup o = true) by (rewrite forallb_forall in Hlk; apply Hlk, Hin).
    assert (Hfit : ro_op_fits (total_size (fs (cdc c))) o = true) by (destruct o; simpl in *; congruence).
    destruct (step_served (cdc c) o Hsv Hfit) as [Hsv' Hl'].
    destruct (step (cdc c) o) as [d' r] eqn:Es. simpl in Hsv', Hl'.
    constructor.
    + destruct (on_pp o); simpl; exact Hsv'.
    + destruct (on_pp o); simpl; congruence.
    + intros j o' r' Ho' Hj.
      assert (Hj' : nth_error (set_nth i (PDone r) (pcs c)) j = Some (PDone r'))
        by (destruct (on_pp o); simpl in Hj; exact Hj).
      rewrite nth_set_nth in Hj'. destruct (Nat.eqb i j) eqn:E.
      * apply Nat.eqb_eq in E. subst j. rewrite Ep in Hj'. inversion Hj'; subst r'.
        rewrite Eo in Ho'. inversion Ho'; subst o'.
        assert (Er : r = snd (step (cdc c) o)) by (rewrite Es; reflexivity).
        destruct o; simpl in Hlo; try discriminate; simpl; intros sz mt Hpres Ht.
        -- intros Hsz. destruct (present_later d0 (cdc c) _ sz mt Hl Hpres) as [mt1 Hp1].
           rewrite Er. eapply served_hit; eauto.
        -- destruct (present_later d0 (cdc c) _ sz mt Hl Hpres) as [mt1 Hp1].
           rewrite Er. eapply served_found; eauto.
      * eapply Ha; eauto.
  - (* PHolding (S n): scanning *)
    constructor; simpl; try assumption.
    intros j o' r Ho' Hj. rewrite nth_set_nth in Hj. destruct (Nat.eqb i j) eqn:E.
    + destruct (nth_error (pcs c) j); discriminate.
    + eapply Ha; eauto.
Qed.

Lemma crun_cinv d0 ops scan sched : forall c,
  forallb is_lookup ops = true -> cinv d0 ops c -> cinv d0 ops (crun ops scan c sched).
Proof.
  induction sched as [|i r IH]; intros c Hlk Hc; simpl; [exact Hc|].
  apply IH; [exact Hlk|]. apply tstep_cinv; assumption.
Qed.

Lemma nth_repeat_start n i p : nth_error (repeat PStart n) i = Some p -> p = PStart.
Proof.
  revert i. induction n as [|n IH]; intros [|i]; simpl; try discriminate.
  - intros H; inversion H; reflexivity.
  - apply IH.
Qed.

(* For ALL schedules, all scan lengths and any number of simultaneous lookups (both stores) against a
   freshly started read-only cache over a canonical directory that fits its size: a lookup that has
   returned has answered "hit" / "found" if its entry is in the directory — in particular a lookup that
   arrives while another request is still opening the store waits, it is never answered "miss" — and
   the (path, size) listing is literally unchanged at every point. *)
Theorem concurrent_lookups_served : forall d ops scan sched,
  rw d = false -> main d = None -> pp d = None -> ksortedb (fs d) = true -> total_size (fs d) <= dcap d ->
  forallb is_lookup ops = true ->
  let c := crun ops scan (cstart d (length ops)) sched in
  map proj (fs (cdc c)) = map proj (fs d) /\
  forall i r, result_of c i = Some r ->
    forall k sz mt,
      (nth_error ops i = Some (Get k) -> alookup (main_path k) (fs d) = Some (sz, mt) ->
       is_temp (main_path k) = false -> min_entry <= sz -> r = OHit) /\
      (nth_error ops i = Some (PpGet k) -> alookup (pp_path k) (fs d) = Some (sz, mt) ->
       is_temp (pp_path k) = false -> r = OFound).
Proof.
  intros d ops scan sched Hrw Hm Hp Hso Hfit Hlk c.
  assert (H0 : cinv d ops (cstart d (length ops))).
  { constructor; simpl.
    - constructor; auto; [apply ksortedb_ok, Hso|]. intros w s Hs. destruct w; simpl in Hs; congruence.
    - reflexivity.
    - intros i o r _ Hi. apply nth_repeat_start in Hi. discriminate. }
  pose proof (crun_cinv d ops scan sched _ Hlk H0) as [Hsv Hl Ha]. fold c in Hsv, Hl, Ha.
  split; [exact Hl|].
  intros i r Hr k sz mt. unfold result_of in Hr.
  destruct (nth_error (pcs c) i) as [[| |r']|] eqn:Ep; try discriminate. inversion Hr; subst r'.
  split; intros Ho; specialize (Ha i _ r Ho Ep); simpl in Ha; intros; eapply Ha; eauto.
Qed.
