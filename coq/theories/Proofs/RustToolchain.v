(* Proofs/RustToolchain.v — C12, rustc side: a proxy that is asked again for every request never
   serves a request with another toolchain than the one the path leads to; the identity of a rustc
   sees through symbolic links. *)
From Coq Require Import List NArith Bool Lia.
From Sccache Require Import Model.RustToolchain.
Import ListNotations.
Local Open Scope N_scope.

Lemma rkey_eqb_eq (a b : rkey) : rkey_eqb a b = true <-> a = b.
Proof.
  destruct a as [a1 a2], b as [b1 b2]; unfold rkey_eqb; simpl.
  rewrite andb_true_iff, !N.eqb_eq. split; [intros [-> ->]; reflexivity | intros E; inversion E; auto].
Qed.

Lemma elookup_eremove k k' l :
  elookup k (eremove k' l) = if rkey_eqb k k' then None else elookup k l.
Proof.
  induction l as [|[r v] l IH]; simpl.
  - destruct (rkey_eqb k k'); reflexivity.
  - destruct (rkey_eqb k' r) eqn:E1.
    + apply rkey_eqb_eq in E1; subst r. rewrite IH. destruct (rkey_eqb k k'); reflexivity.
    + simpl. rewrite IH. destruct (rkey_eqb k r) eqn:E2; [|reflexivity].
      apply rkey_eqb_eq in E2; subst r. destruct (rkey_eqb k k') eqn:E3; [|reflexivity].
      apply rkey_eqb_eq in E3; subst k'.
      assert (rkey_eqb k k = true) by (apply rkey_eqb_eq; reflexivity). congruence.
Qed.

Section Fresh.
  Variable ident : N -> N.
  Variable H : N -> N -> N.
  Hypothesis ident_collision_free : forall a b, ident a = ident b -> a = b.
  Hypothesis H_collision_free : forall i1 s1 i2 s2, H i1 s1 = H i2 s2 -> i1 = i2 /\ s1 = s2.
  (* the sources reserved for requests with a long detection *)
  Variable resv : N -> Prop.

  Definition rcomps_ok (past : list revent) (c : list (rkey * rentry)) : Prop :=
    forall k e, elookup k c = Some e ->
      exists ev b, In ev past /\ v_sel ev = snd k /\ v_cur ev = Some (b, re_mtime e) /\ re_id e = ident b.

  Definition rresults_ok (r : list (N * N)) : Prop :=
    forall key prod, rrlookup key r = Some prod ->
      exists i s, key = H i s /\ (i = ident prod \/ resv s).

  Definition rheld_ok (past : list revent) (h : option (N * N * N * N)) : Prop :=
    match h with
    | None => True
    | Some (t, src, id0, m0) =>
        resv src /\ exists ev b0, In ev past /\ v_sel ev = t /\ v_cur ev = Some (b0, m0) /\ id0 = ident b0
    end.

  Definition RInv (past : list revent) (s : rstate) : Prop :=
    rcomps_ok past (r_comps s) /\ rresults_ok (r_results s) /\ rheld_ok past (r_held s).

  Lemma rcomps_more past ev c : rcomps_ok past c -> rcomps_ok (past ++ [ev]) c.
  Proof.
    intros C k e L. destruct (C k e L) as [ev0 [b [I R]]]. exists ev0, b.
    split; [apply in_or_app; left; exact I | exact R].
  Qed.

  Lemma rheld_more past ev h : rheld_ok past h -> rheld_ok (past ++ [ev]) h.
  Proof.
    destruct h as [[[[t src] id0] m0]|]; simpl; [|auto].
    intros [R [ev0 [b0 [I X]]]]. split; [exact R|]. exists ev0, b0.
    split; [apply in_or_app; left; exact I | exact X].
  Qed.

  (* a request resolved to the toolchain its path leads to, with the server's own finding *)
  Lemma rserve_right past s memo' direct req sel src held s' ev :
    RInv past s ->
    rserve ident H s memo' direct req sel sel src held None = (s', ev) ->
    (forall a, In a past -> ragree a ev = true) ->
    (~ resv src -> rright ident ev = true) /\ RInv (past ++ [ev]) s' /\ v_held ev = held.
  Proof.
    intros [C [R Hd]] E A. unfold rserve in E.
    destruct (tlookup sel (r_tcs s)) as [[b m]|] eqn:T.
    2:{ inversion E; subst s' ev; clear E. split; [intros _; reflexivity|]. split; [|reflexivity].
        split; [apply rcomps_more; exact C|]. split; [exact R | apply rheld_more; exact Hd]. }
    set (k := (req, sel)) in *.
    assert (Id : forall comps' id,
      (match elookup k (r_comps s) with
       | Some e => if re_mtime e =? m then (r_comps s, re_id e)
                   else ((k, {| re_exe := sel; re_id := ident b; re_mtime := m |}) :: eremove k (r_comps s), ident b)
       | None => ((k, {| re_exe := sel; re_id := ident b; re_mtime := m |}) :: eremove k (r_comps s), ident b)
       end) = (comps', id) ->
      forall ev', v_sel ev' = sel -> v_cur ev' = Some (b, m) -> (forall a, In a past -> ragree a ev' = true) ->
      id = ident b /\ rcomps_ok (past ++ [ev']) comps').
    { intros comps' id Eq ev' Vs Vc A'.
      assert (Fresh : ((k, {| re_exe := sel; re_id := ident b; re_mtime := m |}) :: eremove k (r_comps s), ident b) = (comps', id) ->
                      id = ident b /\ rcomps_ok (past ++ [ev']) comps').
      { intros Eq'; inversion Eq'; subst comps' id. split; [reflexivity|].
        intros k1 e1 L1. simpl in L1. destruct (rkey_eqb k1 k) eqn:K1.
        - apply rkey_eqb_eq in K1; subst k1. inversion L1; subst e1; simpl.
          exists ev', b. split; [apply in_or_app; right; left; reflexivity|]. auto.
        - rewrite elookup_eremove, K1 in L1. exact (rcomps_more _ _ _ C _ _ L1). }
      revert Eq. destruct (elookup k (r_comps s)) as [e|] eqn:L; [|intros Eq; exact (Fresh Eq)].
      destruct (re_mtime e =? m) eqn:M; [|intros Eq; exact (Fresh Eq)].
      intros Eq. inversion Eq; subst comps' id. apply N.eqb_eq in M.
      destruct (C _ _ L) as [ev0 [b0 [I0 [S0 [C0 D0]]]]]. simpl in S0.
      assert (b0 = b).
      { specialize (A' ev0 I0). unfold ragree in A'. rewrite C0, Vc, S0, Vs, M, !N.eqb_refl in A'.
        simpl in A'. apply N.eqb_eq in A'; exact A'. }
      subst b0. split; [exact D0 | apply rcomps_more; exact C]. }
    destruct (match elookup k (r_comps s) with
              | Some e => if re_mtime e =? m then (r_comps s, re_id e)
                          else ((k, {| re_exe := sel; re_id := ident b; re_mtime := m |}) :: eremove k (r_comps s), ident b)
              | None => ((k, {| re_exe := sel; re_id := ident b; re_mtime := m |}) :: eremove k (r_comps s), ident b)
              end) as [comps' id] eqn:Eq.
    destruct (rrlookup (H id src) (r_results s)) as [prod|] eqn:L.
    - inversion E; subst s' ev; clear E.
      match goal with |- (_ -> rright _ ?e = true) /\ _ => destruct (Id _ _ eq_refl e eq_refl eq_refl A) as [-> C'] end.
      split; [|split; [split; [exact C' | split; [exact R | apply rheld_more; exact Hd]] | reflexivity]].
      intros NR. destruct (R _ _ L) as [i0 [s0 [K0 Or]]]. apply H_collision_free in K0 as [K0 K1]. subst i0 s0.
      destruct Or as [Or | Or]; [|contradiction].
      apply ident_collision_free in Or. subst prod.
      unfold rright, rserved; simpl. rewrite !N.eqb_refl. reflexivity.
    - inversion E; subst s' ev; clear E.
      match goal with |- (_ -> rright _ ?e = true) /\ _ => destruct (Id _ _ eq_refl e eq_refl eq_refl A) as [-> C'] end.
      split; [|split; [split; [exact C' | split; [|apply rheld_more; exact Hd]] | reflexivity]].
      + intros _. unfold rright, rserved; simpl. rewrite !N.eqb_refl. reflexivity.
      + simpl. intros key prod L1. simpl in L1. destruct (key =? H (ident b) src) eqn:K1.
        * apply N.eqb_eq in K1. inversion L1; subst. exists (ident prod), src. auto.
        * exact (R _ _ L1).
  Qed.

  Definition rop_ok (o : rop) : Prop :=
    match o with
    | RReq s => ~ resv s
    | RReqDirect _ s => ~ resv s
    | RHoldBegin _ s => resv s
    | _ => True
    end.

  Lemma rstep_inv past s o :
    RInv past s -> rop_ok o ->
    (forall ev, snd (rstep ident H false false s o) = Some ev -> forall a, In a past -> ragree a ev = true) ->
    match snd (rstep ident H false false s o) with
    | Some ev => (v_held ev = false -> rright ident ev = true) /\ RInv (past ++ [ev]) (fst (rstep ident H false false s o))
    | None => RInv past (fst (rstep ident H false false s o))
    end.
  Proof.
    intros I Ok A. destruct o as [t|t b m|src|t src|t src|]; simpl in *.
    - exact I.
    - exact I.
    - destruct (rserve ident H s None None PROXY (r_dflt s) (r_dflt s) src false None) as [s' ev] eqn:E. simpl in *.
      destruct (rserve_right _ _ _ _ _ _ _ _ _ _ I E (A ev eq_refl)) as [Rt [I' _]]. auto.
    - destruct (rserve ident H s (r_memo s) (Some t) t t t src false None) as [s' ev] eqn:E. simpl in *.
      destruct (rserve_right _ _ _ _ _ _ _ _ _ _ I E (A ev eq_refl)) as [Rt [I' _]]. auto.
    - destruct I as [C [R Hd]].
      destruct (r_held s) as [h|] eqn:Hh.
      + simpl. split; [exact C | split; [exact R | rewrite Hh; exact Hd]].
      + destruct (tlookup t (r_tcs s)) as [[b0 m0]|] eqn:T.
        * destruct (memo_hit s t).
          -- destruct (rserve ident H s (r_memo s) (Some t) t t t src true None) as [s' ev] eqn:E. simpl in *.
             assert (I : RInv past s) by (split; [exact C | split; [exact R | rewrite Hh; exact I]]).
             destruct (rserve_right _ _ _ _ _ _ _ _ _ _ I E (A ev eq_refl)) as [_ [I' Vh]].
             split; [rewrite Vh; discriminate | exact I'].
          -- simpl. split; [discriminate|]. split; [apply rcomps_more; exact C|]. split; [exact R|].
             simpl. split; [exact Ok|].
             eexists; exists b0. split; [apply in_or_app; right; left; reflexivity|]. simpl. auto.
        * destruct (rserve ident H s (r_memo s) (Some t) t t t src true None) as [s' ev] eqn:E. simpl in *.
          assert (I : RInv past s) by (split; [exact C | split; [exact R | rewrite Hh; exact I]]).
          destruct (rserve_right _ _ _ _ _ _ _ _ _ _ I E (A ev eq_refl)) as [_ [I' Vh]].
          split; [rewrite Vh; discriminate | exact I'].
    - destruct I as [C [R Hd]].
      destruct (r_held s) as [[[[t src] id0] m0]|] eqn:Hh; [|simpl; split; [exact C | split; [exact R | rewrite Hh; exact Hd]]].
      simpl in Hd. destruct Hd as [Rs [ev0 [b0 [I0 [S0 [C0 D0]]]]]].
      set (k := (t, t)).
      (* the new compilers map *)
      assert (Cn : forall ev' (cur : option (N * N)),
        rcomps_ok (past ++ [ev'])
          (match cur with
           | Some (_, m1) => if m1 =? m0
                             then (k, {| re_exe := t; re_id := id0; re_mtime := m0 |}) :: eremove k (r_comps s)
                             else eremove k (r_comps s)
           | None => eremove k (r_comps s)
           end)).
      { intros ev' cur.
        assert (Rm : rcomps_ok (past ++ [ev']) (eremove k (r_comps s))).
        { intros k1 e1 L1. rewrite elookup_eremove in L1. destruct (rkey_eqb k1 k); [discriminate|].
          exact (rcomps_more _ _ _ C _ _ L1). }
        destruct cur as [[b1 m1]|]; [|exact Rm]. destruct (m1 =? m0); [|exact Rm].
        intros k1 e1 L1. simpl in L1. destruct (rkey_eqb k1 k) eqn:K1.
        - apply rkey_eqb_eq in K1; subst k1. inversion L1; subst e1; simpl.
          exists ev0, b0. split; [apply in_or_app; left; exact I0|]. auto.
        - rewrite elookup_eremove, K1 in L1. exact (rcomps_more _ _ _ C _ _ L1). }
      destruct (tlookup t (r_tcs s)) as [[b1 m1]|] eqn:T.
      + destruct (rrlookup (H id0 src) (r_results s)) as [prod|] eqn:L; simpl.
        * split; [discriminate|]. split; [apply (Cn _ (Some (b1, m1)))|]. split; [exact R | exact I].
        * split; [discriminate|]. split; [apply (Cn _ (Some (b1, m1)))|]. split; [|exact I].
          intros key prod L1. simpl in L1. destruct (key =? H id0 src) eqn:K1.
          -- apply N.eqb_eq in K1. exists id0, src. split; [exact K1 | right; exact Rs].
          -- exact (R _ _ L1).
      + simpl. split; [discriminate|]. split; [apply (Cn _ None)|]. split; [exact R | exact I].
  Qed.

  Lemma rrun_inv ops : forall s past,
    RInv past s -> Forall rop_ok ops ->
    (forall a b, In a (past ++ rexec ident H false false s ops) -> In b (past ++ rexec ident H false false s ops) ->
                 ragree a b = true) ->
    Forall (fun e => v_held e = false -> rright ident e = true) (rexec ident H false false s ops).
  Proof.
    induction ops as [|o r IH]; intros s past I Ok A; simpl; [constructor|]. simpl in A.
    inversion Ok as [|o' r' Oo Or]; subst.
    pose proof (rstep_inv past s o I Oo) as St.
    destruct (snd (rstep ident H false false s o)) as [ev|] eqn:Sn.
    - destruct St as [G I'].
      { intros ev' E a Ia. inversion E; subst ev'. apply A.
        - apply in_or_app; left; exact Ia.
        - apply in_or_app; right; left; reflexivity. }
      constructor; [exact G|]. apply (IH _ (past ++ [ev]) I' Or).
      intros a b Ia Ib. rewrite <- app_assoc in Ia, Ib. simpl in Ia, Ib. apply A; assumption.
    - apply (IH _ past); [|exact Or|exact A]. apply St. intros ev' E; discriminate.
  Qed.
End Fresh.

Lemma proxy_follows_selection (ident : N -> N) (H : N -> N -> N) :
  (forall a b, ident a = ident b -> a = b) ->
  (forall i1 s1 i2 s2, H i1 s1 = H i2 s2 -> i1 = i2 /\ s1 = s2) ->
  forall ops,
  held_srcs_reserved ops = true ->
  rwf (rexec ident H false false rstart ops) = true ->
  forall e, In e (rexec ident H false false rstart ops) -> v_held e = false -> rright ident e = true.
Proof.
  intros I1 I2 ops Rsv W.
  set (resv := fun s => In s (held_srcs ops)).
  assert (I : RInv ident H resv [] rstart).
  { split; [intros k e L; discriminate | split; [intros key prod L; discriminate | exact Logic.I]]. }
  assert (Ok : Forall (rop_ok resv) ops).
  { apply Forall_forall. intros o Io. destruct o as [t|t b m|src|t src|t src|]; simpl; auto.
    - intros Rs. unfold held_srcs_reserved in Rsv. rewrite forallb_forall in Rsv.
      assert (Ip : In src (plain_srcs ops)).
      { unfold plain_srcs. apply in_flat_map. exists (RReq src). split; [exact Io | simpl; auto]. }
      specialize (Rsv src Ip). apply negb_true_iff in Rsv.
      assert (existsb (N.eqb src) (held_srcs ops) = true).
      { apply existsb_exists. exists src. split; [exact Rs | apply N.eqb_refl]. }
      congruence.
    - intros Rs. unfold held_srcs_reserved in Rsv. rewrite forallb_forall in Rsv.
      assert (Ip : In src (plain_srcs ops)).
      { unfold plain_srcs. apply in_flat_map. exists (RReqDirect t src). split; [exact Io | simpl; auto]. }
      specialize (Rsv src Ip). apply negb_true_iff in Rsv.
      assert (existsb (N.eqb src) (held_srcs ops) = true).
      { apply existsb_exists. exists src. split; [exact Rs | apply N.eqb_refl]. }
      congruence.
    - unfold resv, held_srcs. apply in_flat_map. exists (RHoldBegin t src). split; [exact Io | simpl; auto]. }
  pose proof (rrun_inv ident H I1 I2 resv ops rstart [] I Ok) as G. simpl in G.
  assert (A : forall a b, In a (rexec ident H false false rstart ops) -> In b (rexec ident H false false rstart ops) ->
                          ragree a b = true).
  { intros a b Ia Ib. unfold rwf in W. rewrite forallb_forall in W. specialize (W a Ia).
    rewrite forallb_forall in W. exact (W b Ib). }
  specialize (G A). rewrite Forall_forall in G. exact G.
Qed.

(* ---------- the identity of a rustc sees through links ---------- *)

Lemma hashed_follow_is_contents es : lib_hashed true es = lib_contents es.
Proof.
  induction es as [|e es IH]; simpl; [reflexivity|]. rewrite IH.
  destruct e as [[|] c|[|] [c|]|]; reflexivity.
Qed.

Lemma map_injective {A B} (f : A -> B) :
  (forall a b, f a = f b -> a = b) -> forall l1 l2, map f l1 = map f l2 -> l1 = l2.
Proof.
  intros Inj l1; induction l1 as [|x l1 IH]; intros [|y l2] E; simpl in E; try discriminate; [reflexivity|].
  inversion E. f_equal; [apply Inj; assumption | apply IH; assumption].
Qed.

Lemma rust_identity_sees_through_links (dg : N -> N) :
  (forall a b, dg a = dg b -> a = b) ->
  forall es1 es2, lib_contents es1 <> lib_contents es2 ->
                  rust_identity dg true es1 <> rust_identity dg true es2.
Proof.
  intros Inj es1 es2 NE E. apply NE. unfold rust_identity in E.
  apply (map_injective dg Inj) in E. rewrite !hashed_follow_is_contents in E. exact E.
Qed.

(* ---------- witnesses ---------- *)

Definition ident_w (b : N) : N := 1000 + b.
Definition H_w2 (id src : N) : N := id * 1000 + src.

(* default A: one, one; default B: one, two; default A: two   (A = toolchain 1 / build 1, B = 2 / 2) *)
Definition ops_switch : list rop :=
  [RInstall 1 1 5; RInstall 2 2 9; RDefault 1; RReq 0; RReq 0; RDefault 2; RReq 0; RReq 1; RDefault 1; RReq 1].

Lemma proxy_memo_refuted :
  rwf (rexec ident_w H_w2 true false rstart ops_switch) = true /\
  existsb (fun e => negb (rright ident_w e)) (rexec ident_w H_w2 true false rstart ops_switch) = true /\
  rwf (rexec ident_w H_w2 false false rstart ops_switch) = true /\
  map v_out (rexec ident_w H_w2 false false rstart ops_switch) = [RMiss 1; RHit 1; RMiss 2; RMiss 2; RMiss 1].
Proof. vm_compute. auto. Qed.

(* a long detection of build 1 at toolchain 1 (its source 3 is reserved); build 2 is installed while it runs; a
   request arriving inside the window must be keyed on build 2 — a request that JOINS the detection in flight is
   keyed on build 1 while build 2 compiles, and what it stores is handed out when build 1 is back *)
Definition ops_join : list rop :=
  [RInstall 1 1 5; RReqDirect 1 0; RInstall 1 1 7; RHoldBegin 1 3; RInstall 1 2 9; RReqDirect 1 0; RReqDirect 1 1;
   RHoldEnd; RReqDirect 1 1; RInstall 1 1 7; RReqDirect 1 1; RReqDirect 1 0].

Definition plain_right (evs : list revent) : bool :=
  forallb (fun e => v_held e || rright ident_w e) evs.

Lemma join_refuted :
  held_srcs_reserved ops_join = true /\
  rwf (rexec ident_w H_w2 false true rstart ops_join) = true /\
  plain_right (rexec ident_w H_w2 false true rstart ops_join) = false /\
  rwf (rexec ident_w H_w2 false false rstart ops_join) = true /\
  plain_right (rexec ident_w H_w2 false false rstart ops_join) = true.
Proof. vm_compute. auto. Qed.

(* two sysroots whose lib/*.so are links into a store with different contents *)
Definition sysroot_links (c : N) : list lib_entry := [LLink true (Some c); LFile false 7; LDir; LLink true None].

Lemma files_only_refuted :
  lib_contents (sysroot_links 1) <> lib_contents (sysroot_links 2) /\
  rust_identity ident_w false (sysroot_links 1) = rust_identity ident_w false (sysroot_links 2) /\
  rust_identity ident_w true (sysroot_links 1) <> rust_identity ident_w true (sysroot_links 2).
Proof. vm_compute. repeat split; discriminate. Qed.
