(* Proofs/ServerLife.v — idle timer and shutdown phase, for every event sequence. *)
From Coq Require Import List NArith Bool Lia.
From Sccache Require Import Model.ServerLife.
Import ListNotations.
Local Open Scope N_scope.

Fixpoint has_req (q : list msg) : bool :=
  match q with
  | [] => false
  | MRequest :: _ => true
  | MShutdown :: r => has_req r
  end.

Definition bump (t now : N) (d : option N) : option N := if t =? 0 then d else Some (now + t).

Lemma drain_some t now q : forall d d',
  drain_queue t now d q = Some d' ->
  d' = if has_req q then bump t now d else d.
Proof.
  induction q as [|m r IH]; intros d d' H; simpl in *.
  - now inversion H.
  - destruct m; [|discriminate].
    apply IH in H. fold (bump t now d) in H. rewrite H.
    destruct (has_req r); auto. unfold bump. destruct (t =? 0); auto.
Qed.

Lemma drain_stop t now q : forall d, drain_queue t now d (q ++ [MRequest; MShutdown]) = None.
Proof.
  induction q as [|m r IH]; intro d; simpl; auto. destruct m; auto.
Qed.

(* ---------- fields that never change ---------- *)

Lemma lstep_const s e : ltimeout (lstep s e) = ltimeout s /\ lcap (lstep s e) = lcap s.
Proof.
  destruct e; simpl; auto;
    repeat match goal with
           | |- context [match ?x with _ => _ end] => destruct x; simpl; auto
           | |- context [if ?x then _ else _] => destruct x; simpl; auto
           end.
Qed.

Lemma lexec_const s evs : ltimeout (lexec s evs) = ltimeout s /\ lcap (lexec s evs) = lcap s.
Proof.
  revert s. induction evs as [|e r IH]; intro s; simpl; auto.
  destruct (IH (lstep s e)) as [A B]. destruct (lstep_const s e) as [C D]. split; congruence.
Qed.

(* ---------- not before: idle shutdown begins no earlier than last request + T ---------- *)

Definition idle_since (s : lst) : option N :=
  match lphase s with
  | Draining since RIdle => Some since
  | Terminated since _ RIdle _ => Some since
  | _ => None
  end.

Record LInv (s : lst) : Prop := {
  li_recv : llast_recv s <= lnow s;
  li_dl : forall d, ldeadline s = Some d -> ltimeout s <> 0;
  li_serving : lphase s = Serving ->
               has_req (lqueue s) = true \/ (forall d, ldeadline s = Some d -> llast_recv s + ltimeout s <= d);
  li_idle : forall since, idle_since s = Some since -> ltimeout s <> 0 /\ llast_recv s + ltimeout s <= since;
}.

Lemma linit_inv t cap : LInv (linit t cap).
Proof.
  constructor; simpl; try lia.
  - intros d. destruct (N.eqb_spec t 0); [discriminate | auto].
  - intros _. right. intro d. destruct (N.eqb_spec t 0); [discriminate |]. intro H; inversion H; lia.
  - intros since H. discriminate.
Qed.

Lemma has_req_app q r : has_req (q ++ r) = has_req q || has_req r.
Proof. induction q as [|m q IH]; simpl; auto. destruct m; auto. Qed.

Lemma lstep_inv s e : LInv s -> LInv (lstep s e).
Proof.
  intro I. pose proof I as I0. destruct I as [R D S Idl].
  destruct e; simpl.
  - (* tick *) constructor; simpl; auto; lia.
  - (* accept *)
    destruct (lphase s) eqn:Hp; try exact I0.
    destruct (has_conn c (lconns s)); constructor; simpl; auto;
      unfold idle_since in *; simpl in *; rewrite ?Hp in *; auto.
  - (* request *)
    destruct (has_conn c (lconns s)); [|exact I0].
    destruct (lphase s) eqn:Hp.
    + constructor; simpl; auto; try lia.
      * intros _. left. rewrite has_req_app. simpl. apply orb_true_r.
      * unfold idle_since. simpl. discriminate.
    + constructor; simpl; auto.
      all: try (rewrite Hp; discriminate).
      all: try (unfold idle_since in *; simpl; rewrite ?Hp in *; auto).
    + exact I0.
  - (* finish *)
    constructor; simpl; auto.
  - (* close *)
    constructor; simpl; auto.
  - (* poll *)
    destruct (lphase s) eqn:Hp; try exact I0.
    destruct (drain_queue (ltimeout s) (lnow s) (ldeadline s) (lqueue s)) as [d'|] eqn:Hd.
    + apply drain_some in Hd.
      assert (Hd' : forall x, d' = Some x -> ltimeout s <> 0 /\ llast_recv s + ltimeout s <= x).
      { intros x Hx. subst d'. destruct (has_req (lqueue s)) eqn:Hq.
        - unfold bump in Hx. destruct (N.eqb_spec (ltimeout s) 0) as [E|E].
          + destruct (S eq_refl) as [H|H]; [| ]; split; try (now apply (D x)); try lia.
            * exfalso. apply (D x Hx). exact E.
            * exfalso. apply (D x Hx). exact E.
          + inversion Hx. split; auto. lia.
        - destruct (S eq_refl) as [H|H]; [discriminate|]. split; [now apply (D x) | now apply H]. }
      destruct (expired d' (lnow s)) eqn:He.
      * constructor; simpl; auto.
        -- intros d Hx. now apply (Hd' d).
        -- discriminate.
        -- unfold idle_since. simpl. intros since Hs. inversion Hs; subst since.
           unfold expired in He. destruct d' as [x|]; [|discriminate].
           apply N.leb_le in He. destruct (Hd' x eq_refl). split; auto. lia.
      * constructor; simpl; auto.
        -- intros d Hx. now apply (Hd' d).
        -- intros _. right. intros d Hx. now apply (Hd' d).
        -- unfold idle_since. simpl. discriminate.
    + constructor; simpl; auto.
      * discriminate.
      * unfold idle_since. simpl. discriminate.
  - (* wake *)
    destruct (lphase s) eqn:Hp; try exact I0.
    destruct (lconns s) eqn:Hc.
    + constructor; simpl; auto; try discriminate.
      unfold idle_since in *. simpl. rewrite Hp in Idl. destruct r; auto.
    + destruct (since + lcap s <=? lnow s); [|exact I0].
      constructor; simpl; auto; try discriminate.
      unfold idle_since in *. simpl. rewrite Hp in Idl. destruct r; auto.
Qed.

Lemma lexec_inv s evs : LInv s -> LInv (lexec s evs).
Proof.
  revert s. induction evs as [|e r IH]; intros s I; simpl; auto. apply IH. now apply lstep_inv.
Qed.

Lemma idle_not_before t cap evs since :
  let s := lexec (linit t cap) evs in
  idle_since s = Some since -> t <> 0 /\ llast_recv s + t <= since.
Proof.
  intros s H. pose proof (lexec_inv _ evs (linit_inv t cap)) as I.
  destruct (li_idle _ I since H) as [A B].
  destruct (lexec_const (linit t cap) evs) as [Ht _]. simpl in Ht. subst s. rewrite Ht in A, B. auto.
Qed.

(* ---------- exactly: with prompt polling, idle shutdown begins AT last request + T ---------- *)

Definition normal_deadline (s : lst) : option N :=
  if ltimeout s =? 0 then None else Some (llast_recv s + ltimeout s).

Definition PInv (s : lst) : Prop :=
  match lphase s with
  | Serving =>
      (lqueue s = [] /\ ldeadline s = normal_deadline s
       /\ (ltimeout s <> 0 -> lnow s <= llast_recv s + ltimeout s))
      \/ ((lqueue s = [MRequest] \/ lqueue s = [MRequest; MShutdown])
          /\ llast_recv s = lnow s /\ (ltimeout s = 0 -> ldeadline s = None))
  | Draining since RIdle => ltimeout s <> 0 /\ since = llast_recv s + ltimeout s
  | Terminated since _ RIdle _ => ltimeout s <> 0 /\ since = llast_recv s + ltimeout s
  | _ => True
  end.

Lemma pinv_init t cap : PInv (linit t cap).
Proof.
  unfold PInv, normal_deadline. simpl. left. split; [reflexivity|]. split.
  - destruct (t =? 0); auto.
  - intros; lia.
Qed.

Lemma pinv_step s e : PInv s -> event_prompt s e = true -> PInv (lstep s e).
Proof.
  unfold PInv, event_prompt, must_poll. intros I H.
  destruct (lphase s) as [|since r|since fin r cut] eqn:Hp.
  - (* serving *)
    destruct I as [[Q [Dl Le]]|[Q [Lr Z]]].
    + (* nothing queued *)
      rewrite Q in H. simpl in H.
      destruct (expired (ldeadline s) (lnow s)) eqn:Ex.
      * (* the timer fired: only a poll is allowed *)
        destruct e; try discriminate. simpl. rewrite ?Hp; rewrite Q. simpl. rewrite Ex. simpl.
        unfold expired in Ex. rewrite Dl in Ex. unfold normal_deadline in Ex.
        destruct (N.eqb_spec (ltimeout s) 0) as [E|E]; [discriminate|].
        apply N.leb_le in Ex. split; auto. specialize (Le E). lia.
      * destruct e; simpl; rewrite ?Hp.
        -- (* tick *) simpl. left. repeat split; auto.
           intro E. rewrite Dl in H. unfold normal_deadline in H.
           destruct (N.eqb_spec (ltimeout s) 0); [contradiction|]. now apply N.leb_le in H.
        -- destruct (has_conn c (lconns s)); simpl; rewrite ?Hp; left; auto.
        -- destruct (has_conn c (lconns s)); simpl; rewrite ?Hp; [|left; auto].
           right. rewrite Q. simpl. repeat split; auto.
           ++ destruct stop; auto.
           ++ intro E. rewrite Dl. unfold normal_deadline. now rewrite E.
        -- simpl. rewrite ?Hp. left; auto.
        -- simpl. rewrite ?Hp. left; auto.
        -- rewrite Q. simpl. rewrite Ex. simpl. left; auto.
        -- rewrite ?Hp. left; auto.
    + (* a request was just received: only a poll is allowed *)
      assert (Hq : match lqueue s with [] => true | _ :: _ => false end = false)
        by (destruct Q as [Q|Q]; rewrite Q; reflexivity).
      rewrite Hq in H. simpl in H. destruct e; try discriminate. simpl. rewrite ?Hp.
      destruct Q as [Q|Q]; rewrite Q; simpl; auto.
      destruct (N.eqb_spec (ltimeout s) 0) as [E|E].
      * rewrite (Z E). simpl. left. unfold normal_deadline. simpl. rewrite E. simpl.
        repeat split; auto. intro; contradiction.
      * assert (Ex : lnow s + ltimeout s <=? lnow s = false) by (apply N.leb_gt; lia).
        simpl. rewrite Ex. simpl. left. unfold normal_deadline. simpl.
        destruct (N.eqb_spec (ltimeout s) 0); [contradiction|].
        rewrite Lr. repeat split; auto. intros; lia.
  - (* draining *)
    destruct e; simpl; rewrite ?Hp; auto.
    + destruct (has_conn c (lconns s)); simpl; rewrite ?Hp; auto.
    + destruct (lconns s); simpl; auto.
      destruct (since + lcap s <=? lnow s); simpl; rewrite ?Hp; auto.
  - (* terminated *)
    destruct e; simpl; rewrite ?Hp; auto.
    destruct (has_conn c (lconns s)); simpl; rewrite ?Hp; auto.
Qed.

Lemma pinv_exec evs : forall s, PInv s -> prompt s evs = true -> PInv (lexec s evs).
Proof.
  induction evs as [|e r IH]; intros s I H; simpl in *; auto.
  apply andb_true_iff in H as [H1 H2]. apply IH; auto. now apply pinv_step.
Qed.

Lemma idle_exact t cap evs since :
  let s := lexec (linit t cap) evs in
  prompt (linit t cap) evs = true ->
  idle_since s = Some since -> t <> 0 /\ since = llast_recv s + t.
Proof.
  intros s P H. pose proof (pinv_exec evs _ (pinv_init t cap) P) as I. fold s in I.
  destruct (lexec_const (linit t cap) evs) as [Ht _]. simpl in Ht. fold s in Ht.
  unfold PInv in I. unfold idle_since in H.
  destruct (lphase s) as [|x r|x fin r cut]; try discriminate;
    destruct r; try discriminate; inversion H; subst x; rewrite Ht in I; exact I.
Qed.

(* ---------- stop request: drains, waits, and terminates within the cap ---------- *)

Lemma stop_then_poll_drains s c :
  lphase s = Serving -> has_conn c (lconns s) = true ->
  lphase (lstep (lstep s (LRequest c true)) LPoll) = Draining (lnow s) RStop.
Proof.
  intros Hp Hc. simpl. rewrite Hc, Hp. simpl.
  now rewrite (drain_stop (ltimeout s) (lnow s) (lqueue s) (ldeadline s)).
Qed.

(* once the shutdown phase has begun it never ends except by termination, and its start time
   and reason are kept; a termination never cuts a connection before the cap *)
Definition draining_from (since : N) (r : reason) (cap : N) (s : lst) : Prop :=
  lcap s = cap /\
  match lphase s with
  | Serving => False
  | Draining since' r' => since' = since /\ r' = r
  | Terminated since' fin r' cut => since' = since /\ r' = r /\ (cut = [] \/ since + cap <= fin)
  end.

Lemma draining_step since r cap s e : draining_from since r cap s -> draining_from since r cap (lstep s e).
Proof.
  unfold draining_from. intros [Hc H]. split; [destruct (lstep_const s e); congruence|].
  destruct (lphase s) as [|x r'|x fin r' cut] eqn:Hp; [contradiction| |].
  - destruct H as [Hx Hr]. subst x r'.
    destruct e; simpl; rewrite ?Hp; auto.
    + destruct (has_conn c (lconns s)); simpl; rewrite ?Hp; auto.
    + destruct (lconns s); simpl; auto.
      destruct (N.leb_spec (since + lcap s) (lnow s)); simpl; rewrite ?Hp; auto.
      repeat split; auto. right. lia.
  - destruct e; simpl; rewrite ?Hp; auto.
    destruct (has_conn c (lconns s)); simpl; rewrite ?Hp; auto.
Qed.

Lemma draining_exec since r cap evs : forall s, draining_from since r cap s -> draining_from since r cap (lexec s evs).
Proof.
  induction evs as [|e t IH]; intros s H; simpl; auto. apply IH. now apply draining_step.
Qed.

Lemma wake_terminates s since r :
  lphase s = Draining since r -> (lconns s = [] \/ since + lcap s <= lnow s) ->
  exists cut, lphase (lstep s LWake) = Terminated since (lnow s) r cut.
Proof.
  intros Hp H. simpl. rewrite Hp. destruct (lconns s) as [|c l] eqn:Hc.
  - eexists. reflexivity.
  - destruct H as [H|H]; [discriminate|]. apply N.leb_le in H. rewrite H. eexists. reflexivity.
Qed.

Lemma stop_waits t cap evs c evs' :
  let s := lexec (linit t cap) evs in
  lphase s = Serving -> has_conn c (lconns s) = true ->
  let s1 := lstep (lstep s (LRequest c true)) LPoll in
  lphase s1 = Draining (lnow s) RStop /\
  let s2 := lexec s1 evs' in
  match lphase s2 with
  | Serving => False
  | Draining since r =>
      since = lnow s /\ r = RStop /\
      ((lconns s2 = [] \/ since + cap <= lnow s2) ->
       exists cut, lphase (lstep s2 LWake) = Terminated since (lnow s2) r cut)
  | Terminated since fin r cut =>
      since = lnow s /\ r = RStop /\ (cut = [] \/ since + cap <= fin)
  end.
Proof.
  intros s Hp Hc s1. pose proof (stop_then_poll_drains s c Hp Hc) as H1. fold s1 in H1.
  split; auto. intro s2.
  assert (Hcap : lcap s1 = cap).
  { unfold s1. destruct (lstep_const (lstep s (LRequest c true)) LPoll) as [_ A].
    destruct (lstep_const s (LRequest c true)) as [_ B].
    destruct (lexec_const (linit t cap) evs) as [_ C]. simpl in C. fold s in C. congruence. }
  assert (D : draining_from (lnow s) RStop cap s1) by (unfold draining_from; rewrite H1; auto).
  pose proof (draining_exec _ _ _ evs' s1 D) as D2. fold s2 in D2.
  unfold draining_from in D2. destruct D2 as [Hc2 D2].
  destruct (lphase s2) as [|x r|x fin r cut] eqn:Hp2; auto.
  - destruct D2 as [Hx Hr]. repeat split; auto. intro H.
    apply wake_terminates; auto. rewrite Hc2. now subst x.
  - destruct D2 as [Hx [Hr Hcut]]. repeat split; auto. subst x. auto.
Qed.

(* ---------- the idle deadline does not depend on open connections ---------- *)

(* With prompt polling a server is never still SERVING later than last-received-request + T, whatever connections
   are open and silent (LAccept / LClose change nothing about the timer). *)
Lemma serving_bounded t cap evs :
  let s := lexec (linit t cap) evs in
  prompt (linit t cap) evs = true -> t <> 0 ->
  lphase s = Serving -> lnow s <= llast_recv s + t.
Proof.
  intros s P Ht Hp. pose proof (pinv_exec evs _ (pinv_init t cap) P) as I. fold s in I.
  destruct (lexec_const (linit t cap) evs) as [Hc _]. simpl in Hc. fold s in Hc.
  unfold PInv in I. rewrite Hp in I. rewrite Hc in I.
  destruct I as [[_ [_ Le]]|[_ [Lr _]]]; [now apply Le | lia].
Qed.

(* ... and once the idle shutdown phase has begun, open connections delay the exit by at most the cap *)
Lemma idle_drain_ends s since :
  lphase s = Draining since RIdle -> since + lcap s <= lnow s ->
  exists cut, lphase (lstep s LWake) = Terminated since (lnow s) RIdle cut.
Proof. intros Hp H. apply wake_terminates; auto. Qed.
