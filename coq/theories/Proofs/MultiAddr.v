(* Proofs/MultiAddr.v — addresses with different lock files do not interfere. *)
From Coq Require Import List NArith Bool Lia.
From Sccache Require Import Base.Sx.
From Sccache Require Import Model.Startup.
From Sccache Require Import Model.MultiAddr.
Import ListNotations.
Local Open Scope N_scope.

Lemma lock_name_injective p q : lock_name p = lock_name q -> p = q.
Proof. unfold lock_name. apply app_inv_tail. Qed.

Definition injective_on (ln : path -> path) (l : list path) : Prop :=
  forall a b, In b l -> ln b = ln a -> b = a.

Lemma no_foreign ln w a : injective_on ln (addrs w) -> foreign_held ln w a = false.
Proof.
  intro Inj. unfold foreign_held. apply not_true_is_false. intro H.
  apply existsb_exists in H as [b [Hb H]].
  apply andb_true_iff in H as [H _]. apply andb_true_iff in H as [Hne Heq].
  apply bytes_eqb_eq in Heq. rewrite (Inj a b Hb Heq) in Hne.
  rewrite bytes_eqb_refl in Hne. discriminate.
Qed.

Lemma mstep_addrs ln w ae : addrs (mstep ln w ae) = addrs w.
Proof. destruct ae as [a e]. unfold mstep. destruct (foreign_held ln w a); reflexivity. Qed.

Lemma mstep_free ln w a e :
  injective_on ln (addrs w) ->
  forall b, sts (mstep ln w (a, e)) b = if bytes_eqb b a then step (sts w a) e else sts w b.
Proof.
  intros Inj b. unfold mstep. rewrite (no_foreign ln w a Inj). reflexivity.
Qed.

Lemma bytes_eqb_sym_local a b : bytes_eqb a b = bytes_eqb b a.
Proof.
  destruct (bytes_eqb a b) eqn:E1; destruct (bytes_eqb b a) eqn:E2; auto.
  - apply bytes_eqb_eq in E1. subst. rewrite bytes_eqb_refl in E2. discriminate.
  - apply bytes_eqb_eq in E2. subst. rewrite bytes_eqb_refl in E1. discriminate.
Qed.

(* non-interference: with an injective lock-file name, what an address goes through in ANY common schedule is
   exactly its own schedule run alone *)
Lemma independent ln sched : forall w a,
  injective_on ln (addrs w) ->
  sts (mexec ln w sched) a = exec (sts w a) (proj a sched).
Proof.
  unfold mexec. induction sched as [|[b e] r IH]; intros w a Inj; [reflexivity|].
  cbn [fold_left]. rewrite IH by (rewrite mstep_addrs; exact Inj).
  rewrite (mstep_free ln w b e Inj a).
  unfold proj. simpl. rewrite (bytes_eqb_sym_local b a).
  destruct (bytes_eqb a b) eqn:E; simpl; auto.
  apply bytes_eqb_eq in E. subst b. reflexivity.
Qed.

Lemma independent_init ln k r n l sched a :
  injective_on ln l ->
  sts (mexec ln (winit k r n l) sched) a = exec (init k r n false) (proj a sched).
Proof. intro Inj. now rewrite (independent ln sched (winit k r n l) a Inj). Qed.

Lemma lock_name_injective_on l : injective_on lock_name l.
Proof. intros a b _ H. now apply lock_name_injective. Qed.

(* two addresses that differ only in their extension: with the extension-REPLACING name they share a lock file *)
Definition addr_debug : path := [47; 116; 47; 98; 46; 100].     (* /t/b.d *)
Definition addr_release : path := [47; 116; 47; 98; 46; 114].   (* /t/b.r *)

Lemma shared_lock_name_starves :
  with_extension_lock addr_debug = with_extension_lock addr_release /\
  lock_name addr_debug <> lock_name addr_release /\
  let sched := [(addr_debug, EC 0); (addr_debug, EC 0); (addr_debug, ES 0); (addr_debug, ES 0); (addr_debug, ES 0);
                (addr_debug, ES 0); (addr_debug, EC 0); (addr_debug, EC 0);
                (addr_release, EC 0); (addr_release, EC 0); (addr_release, ES 0); (addr_release, ES 0);
                (addr_release, EC 0)] ++ repeat (addr_release, EC 0) 11 in
  let bad := mexec with_extension_lock (winit (UdsPath true) 10 1 [addr_debug; addr_release]) sched in
  let good := mexec lock_name (winit (UdsPath true) 10 1 [addr_debug; addr_release]) sched in
  cl (sts bad addr_debug) 0 = CDone 0 /\ cl (sts bad addr_release) 0 = CFail FRetry
  /\ sv (sts bad addr_release) 0 = SExited false
  /\ cl (sts good addr_debug) 0 = CDone 0 /\ sv (sts good addr_release) 0 = SUnlinked.
Proof. vm_compute. repeat split; try reflexivity. discriminate. Qed.
