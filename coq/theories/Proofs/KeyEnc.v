(* Proofs/KeyEnc.v — injectivity of the two cache-key pre-images of Model/KeyEnc.v, for every spec that meets the
   decidable side conditions [spec_good] (component order as expected, [tags_ok], [allow_ok]).

   Structure:
     1. bytes: little-endian lengths, [lp] is prefix-free, NUL / hex facts by index
     2. token streams  A* X* E* P  (length-prefixed args, 64-hex extras, name=value entries, NUL-free tail):
        [tok_inj]  two well-formed streams with equal bytes have equal tokens, up to 64-hex tokens absorbed by the tail
        [tag_boundary]  text that extends a tag cannot be the start of a token
     3. requests: [encode_c] / [encode_pp] are  fixed-width fields ++ tag ++ stream ; injectivity theorems
     4. the pair families of the property as corollaries *)
From Coq Require Import List NArith Bool Arith Lia ZifyN ZifyBool.
From Sccache Require Import Base.Sx Model.KeyEnc.
Import ListNotations.
Local Open Scope N_scope.

Arguments N.add : simpl never.
Arguments N.mul : simpl never.
Arguments N.div : simpl never.
Arguments N.modulo : simpl never.
Arguments N.pow : simpl never.
Arguments N.ltb : simpl never.
Arguments N.leb : simpl never.
Arguments N.eqb : simpl never.
Arguments N.of_nat : simpl never.
Arguments lp : simpl never.
Arguments le64 : simpl never.

(* ------------------------------------------------------------------ 1. lists and bytes *)

Lemma app_same_length {A} (a b x y : list A) :
  length a = length b -> a ++ x = b ++ y -> a = b /\ x = y.
Proof.
  revert b; induction a as [|c a IH]; intros [|d b] Hl H; simpl in *; try discriminate.
  - split; [reflexivity | exact H].
  - inversion H; subst. destruct (IH b) as [E1 E2]; [lia | assumption |]. subst. split; reflexivity.
Qed.

Lemma app_same_length_r {A} (a b x y : list A) :
  length x = length y -> a ++ x = b ++ y -> a = b /\ x = y.
Proof.
  intros Hl H.
  assert (Hlen : length a = length b).
  { apply (f_equal (@length A)) in H. rewrite !app_length in H. lia. }
  apply app_same_length; assumption.
Qed.

Lemma app_self_nil {A} (l x : list A) : l = l ++ x -> x = [].
Proof.
  intro H. apply (app_inv_head l). rewrite app_nil_r. symmetry. exact H.
Qed.

Lemma le_bytes_length k n : length (le_bytes k n) = k.
Proof. revert n; induction k as [|k IH]; intro n; simpl; [reflexivity | rewrite IH; reflexivity]. Qed.

Lemma le64_length n : length (le64 n) = 8%nat.
Proof. apply le_bytes_length. Qed.

Lemma le_bytes_nth k n i :
  (i < k)%nat -> nth i (le_bytes k n) 1 = (n / 256 ^ N.of_nat i) mod 256.
Proof.
  revert n i; induction k as [|k IH]; intros n i Hi; [lia|].
  destruct i as [|i]; simpl.
  - change (N.of_nat 0) with 0. rewrite N.pow_0_r, N.div_1_r. reflexivity.
  - rewrite IH by lia. rewrite N.div_div by (try lia; apply N.pow_nonzero; lia).
    rewrite Nat2N.inj_succ, N.pow_succ_r'. reflexivity.
Qed.

Definition le_dec (l : bytes) : N := fold_right (fun b acc => b + 256 * acc) 0 l.

Lemma le_dec_le_bytes k n : le_dec (le_bytes k n) = n mod 256 ^ N.of_nat k.
Proof.
  revert n; induction k as [|k IH]; intro n; simpl.
  - change (N.of_nat 0) with 0. rewrite N.pow_0_r, N.mod_1_r. reflexivity.
  - rewrite IH. rewrite Nat2N.inj_succ, N.pow_succ_r'.
    rewrite N.mod_mul_r by (try lia; apply N.pow_nonzero; lia). reflexivity.
Qed.

Definition two56 : N := 72057594037927936.

Lemma le64_inj n m : n < two56 -> m < two56 -> le64 n = le64 m -> n = m.
Proof.
  intros Hn Hm H. apply (f_equal le_dec) in H. unfold le64 in H. rewrite !le_dec_le_bytes in H.
  change (256 ^ N.of_nat 8) with 18446744073709551616 in H.
  unfold two56 in *. rewrite !N.mod_small in H by lia. exact H.
Qed.

Lemma le64_nth7 n : n < two56 -> nth 7 (le64 n) 1 = 0.
Proof.
  intro Hn. unfold le64. rewrite le_bytes_nth by lia.
  change (256 ^ N.of_nat 7) with two56. rewrite N.div_small by assumption. reflexivity.
Qed.

Lemma le64_nth0 n : nth 0 (le64 n) 1 = n mod 256.
Proof.
  unfold le64. rewrite le_bytes_nth by lia. change (N.of_nat 0) with 0.
  rewrite N.pow_0_r, N.div_1_r. reflexivity.
Qed.

Lemma small_lt s : small s = true -> N.of_nat (length s) < two56.
Proof. unfold small, two56. intro H. apply N.ltb_lt in H. exact H. Qed.

Lemma str_ok_small s : str_ok s = true -> small s = true.
Proof. unfold str_ok. intro H. apply andb_true_iff in H. tauto. Qed.

Lemma str_ok_nonul s : str_ok s = true -> nonul s = true.
Proof. unfold str_ok. intro H. apply andb_true_iff in H. tauto. Qed.

Lemma lp_length s : length (lp s) = (8 + length s)%nat.
Proof. unfold lp. rewrite app_length, le64_length. reflexivity. Qed.

Lemma lp_inj a b x y :
  small a = true -> small b = true -> lp a ++ x = lp b ++ y -> a = b /\ x = y.
Proof.
  intros Ha Hb H. unfold lp in H. rewrite <- !app_assoc in H.
  apply app_same_length in H; [|rewrite !le64_length; reflexivity].
  destruct H as [H1 H2].
  apply le64_inj in H1; try (apply small_lt; assumption).
  apply Nat2N.inj in H1.
  apply app_same_length in H2; assumption.
Qed.

(* --- facts by index; the default 1 makes "nth i l 1 = 0" imply i is in range *)

Lemma nonul_nth s i : nonul s = true -> nth i s 1 <> 0.
Proof.
  unfold nonul. intro H. destruct (Nat.lt_ge_cases i (length s)) as [Hi|Hi].
  - rewrite forallb_forall in H. specialize (H (nth i s 1) (nth_In s 1 Hi)).
    intro E. rewrite E in H. discriminate.
  - rewrite nth_overflow by lia. lia.
Qed.

Lemma nonul_app a b : nonul (a ++ b) = nonul a && nonul b.
Proof. unfold nonul. apply forallb_app. Qed.

Lemma is_hex_facts c : is_hex c = true -> c <> 0 /\ c <> 61 /\ c <> 47 /\ 8 <= c.
Proof. unfold is_hex. lia. Qed.

Lemma hex64_length h : is_hex64 h = true -> length h = 64%nat.
Proof. unfold is_hex64. intro H. apply andb_true_iff in H. destruct H as [H _]. apply Nat.eqb_eq in H. exact H. Qed.

Lemma hex64_nth h i : is_hex64 h = true -> (i < 64)%nat -> is_hex (nth i h 1) = true.
Proof.
  intros H Hi. pose proof (hex64_length h H) as Hl.
  unfold is_hex64 in H. apply andb_true_iff in H. destruct H as [_ H].
  rewrite forallb_forall in H. apply H. apply nth_In. lia.
Qed.

Lemma hex64_nonul h : is_hex64 h = true -> nonul h = true.
Proof.
  intro H. unfold is_hex64 in H. apply andb_true_iff in H. destruct H as [_ H].
  unfold nonul. rewrite forallb_forall in *. intros c Hc. specialize (H c Hc).
  apply is_hex_facts in H. destruct H as [H _]. apply negb_true_iff. apply N.eqb_neq. exact H.
Qed.

Lemma lp_nth7 x R : small x = true -> nth 7 (lp x ++ R) 1 = 0.
Proof.
  intro Hx. unfold lp. rewrite <- app_assoc. rewrite app_nth1 by (rewrite le64_length; lia).
  apply le64_nth7. apply small_lt. exact Hx.
Qed.

Lemma lp_nth0 x R : nth 0 (lp x ++ R) 1 = N.of_nat (length x) mod 256.
Proof.
  unfold lp. rewrite <- app_assoc. rewrite app_nth1 by (rewrite le64_length; lia).
  apply le64_nth0.
Qed.

Lemma lp_nth_body x R k : (k < length x)%nat -> nth (8 + k) (lp x ++ R) 1 = nth k x 1.
Proof.
  intro Hk. unfold lp. rewrite <- app_assoc. rewrite app_nth2 by (rewrite le64_length; lia).
  rewrite le64_length. replace (8 + k - 8)%nat with k by lia. apply app_nth1. exact Hk.
Qed.

Lemma prefixb_app p x : prefixb p (p ++ x) = true.
Proof. induction p as [|c p IH]; simpl; [reflexivity | rewrite N.eqb_refl, IH; reflexivity]. Qed.

Lemma strip_prefix_spec a t s : strip_prefix a t = Some s <-> t = a ++ s.
Proof.
  revert t; induction a as [|c a IH]; intros t; simpl.
  - split; intro H; [inversion H; reflexivity | subst; reflexivity].
  - destruct t as [|d t]; [split; intro H; discriminate|].
    destruct (N.eqb c d) eqn:E.
    + apply N.eqb_eq in E. subst d. rewrite IH. split; intro H; [subst; reflexivity | inversion H; reflexivity].
    + apply N.eqb_neq in E. split; intro H; [discriminate | inversion H; congruence].
Qed.

(* ------------------------------------------------------------------ 2. token streams *)

Inductive tok :=
| TA (x : bytes)            (* a hashed argument:       lp x *)
| TX (h : bytes)            (* an extra hash:           64 hex characters *)
| TE (k v : bytes).         (* an allow-listed variable: lp k ++ "=" ++ lp v *)

Definition tok_bytes (t : tok) : bytes :=
  match t with
  | TA x => lp x
  | TX h => h
  | TE k v => lp k ++ [61] ++ lp v
  end.

Definition flat (ts : list tok) : bytes := concat (map tok_bytes ts).

Definition tok_ok (t : tok) : Prop :=
  match t with
  | TA x => str_ok x = true
  | TX h => is_hex64 h = true
  | TE k v => str_ok k = true /\ str_ok v = true
  end.

Definition isX (t : tok) : Prop := match t with TX _ => True | _ => False end.

Lemma flat_cons t ts : flat (t :: ts) = tok_bytes t ++ flat ts.
Proof. reflexivity. Qed.

Lemma flat_app a b : flat (a ++ b) = flat a ++ flat b.
Proof. unfold flat. rewrite map_app, concat_app. reflexivity. Qed.

(* the first bytes of a well-formed stream: it is the tail, or starts with 64 hex characters, or with lp x *)
Lemma stream_cases ts P :
  Forall tok_ok ts ->
  ts = [] \/
  (exists h R, is_hex64 h = true /\ flat ts ++ P = h ++ R) \/
  (exists x R, str_ok x = true /\ flat ts ++ P = lp x ++ R).
Proof.
  intro Hts. destruct ts as [|t ts]; [left; reflexivity|right].
  inversion Hts as [|? ? Ht _]; subst. rewrite flat_cons, <- app_assoc.
  destruct t as [x|h|k v]; simpl in Ht.
  - right. exists x, (flat ts ++ P). split; [assumption | reflexivity].
  - left. exists h, (flat ts ++ P). split; [assumption | reflexivity].
  - right. destruct Ht as [Hk _]. exists k, (([61] ++ lp v) ++ flat ts ++ P). split; [assumption|].
    cbn [tok_bytes]. rewrite <- !app_assoc. reflexivity.
Qed.

(* a NUL among the first 64 bytes means the stream starts with a length prefix *)
Lemma stream_nul_lp ts P j :
  Forall tok_ok ts -> nonul P = true -> (j < 64)%nat -> nth j (flat ts ++ P) 1 = 0 ->
  exists x R, str_ok x = true /\ flat ts ++ P = lp x ++ R.
Proof.
  intros Hts HP Hj H0. destruct (stream_cases ts P Hts) as [E|[(h & R & Hh & E)|Hc]].
  - subst ts. simpl in H0. exfalso. exact (nonul_nth P j HP H0).
  - exfalso. rewrite E in H0. rewrite app_nth1 in H0 by (rewrite (hex64_length h Hh); exact Hj).
    pose proof (hex64_nth h j Hh Hj) as Hx. apply is_hex_facts in Hx. tauto.
  - exact Hc.
Qed.

(* no well-formed stream starts with "=" and has a NUL at index 8 *)
Lemma stream_eq_contra ts P :
  Forall tok_ok ts -> nonul P = true ->
  nth 0 (flat ts ++ P) 1 = 61 -> nth 8 (flat ts ++ P) 1 = 0 -> False.
Proof.
  intros Hts HP H0 H8. destruct (stream_cases ts P Hts) as [E|[(h & R & Hh & E)|(x & R & Hx & E)]].
  - subst ts. simpl in H8. exact (nonul_nth P 8 HP H8).
  - rewrite E in H0. rewrite app_nth1 in H0 by (rewrite (hex64_length h Hh); lia).
    pose proof (hex64_nth h 0 Hh ltac:(lia)) as Hc. apply is_hex_facts in Hc. tauto.
  - rewrite E in H0, H8. rewrite lp_nth0 in H0.
    assert (Hlen : (0 < length x)%nat).
    { destruct (length x) eqn:El; [|lia]. change (N.of_nat 0) with 0 in H0. rewrite N.mod_0_l in H0 by lia. lia. }
    change 8%nat with (8 + 0)%nat in H8. rewrite lp_nth_body in H8 by exact Hlen.
    exact (nonul_nth x 0 (str_ok_nonul x Hx) H8).
Qed.

Lemma all_X ts P :
  Forall tok_ok ts -> nonul (flat ts ++ P) = true -> Forall isX ts.
Proof.
  induction ts as [|t ts IH]; intros Hts Hn; [constructor|].
  inversion Hts as [|? ? Ht Hts']; subst.
  rewrite flat_cons, <- app_assoc in Hn.
  destruct t as [x|h|k v]; simpl in Ht.
  - exfalso. apply (nonul_nth _ 7 Hn). apply lp_nth7. apply str_ok_small. exact Ht.
  - rewrite nonul_app in Hn. apply andb_true_iff in Hn. destruct Hn as [_ Hn].
    constructor; [exact I | apply IH; assumption].
  - exfalso. destruct Ht as [Hk _]. cbn [tok_bytes] in Hn. rewrite <- app_assoc in Hn.
    apply (nonul_nth _ 7 Hn). apply lp_nth7. apply str_ok_small. exact Hk.
Qed.

Lemma lp_vs_hex x R h R' :
  str_ok x = true -> is_hex64 h = true -> lp x ++ R = h ++ R' -> False.
Proof.
  intros Hx Hh E. pose proof (lp_nth7 x R (str_ok_small x Hx)) as H7.
  rewrite E in H7. rewrite app_nth1 in H7 by (rewrite (hex64_length h Hh); lia).
  pose proof (hex64_nth h 7 Hh ltac:(lia)) as Hc. apply is_hex_facts in Hc. tauto.
Qed.

(* an argument against a variable entry: after the common lp, the variable side continues with "=" lp v *)
Lemma ta_vs_te x k v ts P R2 :
  str_ok x = true -> str_ok k = true -> str_ok v = true ->
  Forall tok_ok ts -> nonul P = true ->
  lp x ++ (flat ts ++ P) = (lp k ++ [61] ++ lp v) ++ R2 -> False.
Proof.
  intros Hx Hk Hv Hts HP E. rewrite <- app_assoc in E.
  apply lp_inj in E; try (apply str_ok_small; assumption).
  destruct E as [_ E].
  apply (stream_eq_contra ts P Hts HP).
  - rewrite E. reflexivity.
  - rewrite E. simpl. change (nth 7 (lp v ++ R2) 1 = 0). apply lp_nth7. apply str_ok_small. exact Hv.
Qed.

Lemma head_inj t1 t2 ts1 ts2 P1 P2 :
  tok_ok t1 -> tok_ok t2 -> Forall tok_ok ts1 -> Forall tok_ok ts2 ->
  nonul P1 = true -> nonul P2 = true ->
  tok_bytes t1 ++ (flat ts1 ++ P1) = tok_bytes t2 ++ (flat ts2 ++ P2) ->
  t1 = t2 /\ flat ts1 ++ P1 = flat ts2 ++ P2.
Proof.
  intros H1 H2 Hts1 Hts2 HP1 HP2 E.
  destruct t1 as [x1|h1|k1 v1], t2 as [x2|h2|k2 v2]; simpl in H1, H2; cbn [tok_bytes] in E.
  - apply lp_inj in E; try (apply str_ok_small; assumption). destruct E as [Ea Eb]; subst; split; [reflexivity | exact Eb].
  - exfalso. exact (lp_vs_hex _ _ _ _ H1 H2 E).
  - exfalso. destruct H2 as [Hk Hv]. exact (ta_vs_te _ _ _ _ _ _ H1 Hk Hv Hts1 HP1 E).
  - exfalso. symmetry in E. exact (lp_vs_hex _ _ _ _ H2 H1 E).
  - apply app_same_length in E; [|rewrite (hex64_length _ H1), (hex64_length _ H2); reflexivity].
    destruct E as [Ea Eb]; subst; split; [reflexivity | exact Eb].
  - exfalso. destruct H2 as [Hk _]. symmetry in E. rewrite <- app_assoc in E. exact (lp_vs_hex _ _ _ _ Hk H1 E).
  - exfalso. destruct H1 as [Hk Hv]. symmetry in E. exact (ta_vs_te _ _ _ _ _ _ H2 Hk Hv Hts2 HP2 E).
  - exfalso. destruct H1 as [Hk _]. rewrite <- app_assoc in E. exact (lp_vs_hex _ _ _ _ Hk H2 E).
  - destruct H1 as [Hk1 Hv1], H2 as [Hk2 Hv2]. rewrite <- !app_assoc in E.
    apply lp_inj in E; try (apply str_ok_small; assumption). destruct E as [Ek E]. subst k2.
    apply (app_inv_head [61]) in E. rename E into E'.
    apply lp_inj in E'; try (apply str_ok_small; assumption). destruct E' as [Ev E']. subst v2.
    split; [reflexivity | exact E'].
Qed.

(* equal bytes, equal tokens -- except that 64-hex tokens at the very end may be read as the start of the tail *)
Lemma tok_inj ts1 : forall ts2 P1 P2,
  Forall tok_ok ts1 -> Forall tok_ok ts2 -> nonul P1 = true -> nonul P2 = true ->
  flat ts1 ++ P1 = flat ts2 ++ P2 ->
  exists xs, Forall isX xs /\
             ((ts1 = ts2 ++ xs /\ P2 = flat xs ++ P1) \/ (ts2 = ts1 ++ xs /\ P1 = flat xs ++ P2)).
Proof.
  induction ts1 as [|t1 ts1 IH]; intros ts2 P1 P2 H1 H2 HP1 HP2 E.
  - simpl in E. exists ts2. split.
    + apply (all_X ts2 P2 H2). rewrite <- E. exact HP1.
    + right. split; [reflexivity | exact E].
  - destruct ts2 as [|t2 ts2].
    + simpl flat at 2 in E. simpl app at 2 in E. exists (t1 :: ts1). split.
      * apply (all_X (t1 :: ts1) P1 H1). rewrite E. exact HP2.
      * left. split; [reflexivity | symmetry; exact E].
    + inversion H1 as [|? ? Ht1 H1']; subst. inversion H2 as [|? ? Ht2 H2']; subst.
      rewrite !flat_cons, <- !app_assoc in E.
      destruct (head_inj _ _ _ _ _ _ Ht1 Ht2 H1' H2' HP1 HP2 E) as [Et E'].
      subst t2. destruct (IH ts2 P1 P2 H1' H2' HP1 HP2 E') as (xs & Hxs & [[Ea Eb]|[Ea Eb]]).
      * exists xs. split; [exact Hxs|]. left. split; [simpl; rewrite Ea; reflexivity | exact Eb].
      * exists xs. split; [exact Hxs|]. right. split; [simpl; rewrite Ea; reflexivity | exact Eb].
Qed.

(* text [s] by which a tag extends another tag cannot be followed by a stream so that the whole is again a stream
   that starts with a token *)
Lemma tag_boundary s ts1 P1 ts2 P2 :
  s <> [] -> ext_ok s = true ->
  Forall tok_ok ts1 -> nonul P1 = true -> Forall tok_ok ts2 -> nonul P2 = true ->
  flat ts2 ++ P2 = s ++ (flat ts1 ++ P1) -> ts2 = [].
Proof.
  intros Hs Hext H1 HP1 H2 HP2 E.
  destruct s as [|c s']; [congruence|]. clear Hs.
  unfold ext_ok in Hext. apply andb_true_iff in Hext. destruct Hext as [Hext Hc8].
  apply andb_true_iff in Hext. destruct Hext as [Hsn Hnh].
  set (s := c :: s') in *.
  assert (Hn0 : nth 0 (flat ts2 ++ P2) 1 = c) by (rewrite E; reflexivity).
  destruct (stream_cases ts2 P2 H2) as [E2|[(h & R & Hh & E2)|(x & R & Hx & E2)]]; [exact E2| |]; exfalso.
  - rewrite E2 in Hn0. rewrite app_nth1 in Hn0 by (rewrite (hex64_length h Hh); lia).
    pose proof (hex64_nth h 0 Hh ltac:(lia)) as Hc. rewrite Hn0 in Hc. rewrite Hc in Hnh. discriminate.
  - pose proof (lp_nth7 x R (str_ok_small x Hx)) as H7. rewrite <- E2, E in H7.
    rewrite E2 in Hn0. rewrite lp_nth0 in Hn0.
    assert (Hxlen : (8 <= length x)%nat).
    { pose proof (N.mod_le (N.of_nat (length x)) 256 ltac:(lia)) as Hle. rewrite Hn0 in Hle.
      apply N.leb_le in Hc8. clear - Hc8 Hle. lia. }
    destruct (Nat.le_gt_cases 8 (length s)) as [Hk|Hk].
    + rewrite app_nth1 in H7 by lia. exact (nonul_nth s 7 Hsn H7).
    + rewrite app_nth2 in H7 by lia.
      destruct (stream_nul_lp ts1 P1 (7 - length s) H1 HP1 ltac:(lia) H7) as (y & R' & Hy & E1).
      pose proof (lp_nth7 y R' (str_ok_small y Hy)) as H7'. rewrite <- E1 in H7'.
      assert (Hidx : nth 7 (flat ts1 ++ P1) 1 = nth (7 + length s) (flat ts2 ++ P2) 1).
      { rewrite E. rewrite (app_nth2 s) by lia. replace (7 + length s - length s)%nat with 7%nat by lia. reflexivity. }
      rewrite Hidx, E2 in H7'.
      assert (Hsl : (1 <= length s)%nat) by (simpl; lia).
      replace (7 + length s)%nat with (8 + (length s - 1))%nat in H7' by lia.
      rewrite lp_nth_body in H7' by lia.
      exact (nonul_nth x (length s - 1) (str_ok_nonul x Hx) H7').
Qed.

(* ------------------------------------------------------------------ 3. requests *)

Definition te (kv : bytes * bytes) : tok := TE (fst kv) (snd kv).

Definition toks (al : list bytes) (r : creq) : list tok :=
  map TA (args r) ++ map TX (extra r) ++ map te (fenv al r).

Definition b2n (b : bool) : N := if b then 1 else 0.

Definition hex64P (h : bytes) : Prop := is_hex64 h = true.

Lemma flat_TA l : flat (map TA l) = concat (map lp l).
Proof. induction l as [|a l IH]; [reflexivity|]. simpl map. rewrite flat_cons, IH. reflexivity. Qed.

Lemma flat_TX l : flat (map TX l) = concat l.
Proof. induction l as [|a l IH]; [reflexivity|]. simpl map. rewrite flat_cons, IH. reflexivity. Qed.

Lemma env_item_expected kv : env_item expected_env kv = lp (fst kv) ++ [61] ++ lp (snd kv).
Proof. unfold env_item, expected_env. cbn [map concat put]. rewrite app_nil_r. reflexivity. Qed.

Lemma flat_te l : flat (map te l) = concat (map (env_item expected_env) l).
Proof.
  induction l as [|a l IH]; [reflexivity|]. simpl map. rewrite flat_cons, IH.
  cbn [concat]. rewrite env_item_expected. reflexivity.
Qed.

Lemma flat_toks al r :
  flat (toks al r) =
  concat (map lp (args r)) ++ concat (extra r) ++ concat (map (env_item expected_env) (fenv al r)).
Proof. unfold toks. rewrite !flat_app, flat_TA, flat_TX, flat_te. reflexivity. Qed.

Lemma encode_c_eq H sp r :
  shape_c sp = expected_shape_c ->
  encode_c H sp r =
  digest r ++ [b2n (plusplus r)] ++ version sp ++ tag_of sp (lang r) ++ (flat (toks (allow_main sp) r) ++ pp r).
Proof.
  intro Hs. unfold encode_c, pieces_c. rewrite Hs. unfold expected_shape_c, flatten.
  cbn [flat_map comp_pieces app map concat]. rewrite flat_toks. change (put LP) with lp.
  rewrite <- !app_assoc. rewrite app_nil_r. reflexivity.
Qed.

(* the bytes of the input-file digest component *)
Definition idig (H : bytes -> bytes) (r : creq) : bytes :=
  if salted r then H (input r) ++ [45] ++ H (time_pre r) else H (input r).

Lemma encode_pp_eq H sp r :
  shape_p sp = expected_shape_p ->
  encode_pp H sp r =
  digest r ++ [b2n (plusplus r)] ++ fmt_version sp ++ tag_of sp (lang r)
    ++ (flat (toks (allow_pp sp) r) ++ (path r ++ idig H r)).
Proof.
  intro Hs. unfold encode_pp, pieces_p. rewrite Hs. unfold expected_shape_p, flatten.
  cbn [flat_map comp_pieces]. unfold input_digest_pieces, idig.
  destruct (salted r); cbn [map concat app]; rewrite flat_toks; change (put LP) with lp;
    rewrite <- !app_assoc; rewrite ?app_nil_r; reflexivity.
Qed.

Lemma allowed_in al k : allowed al k = true -> In k al.
Proof.
  unfold allowed. intro H. apply existsb_exists in H. destruct H as (a & Ha & E).
  apply bytes_eqb_eq in E. subst. exact Ha.
Qed.

Lemma toks_ok al r :
  forallb str_ok al = true -> forallb str_ok (args r) = true -> forallb is_hex64 (extra r) = true ->
  env_ok al r = true -> Forall tok_ok (toks al r).
Proof.
  intros Hal Ha Hx He. unfold toks. rewrite !Forall_app. repeat split.
  - rewrite forallb_forall in Ha. apply Forall_forall. intros t Ht. apply in_map_iff in Ht.
    destruct Ht as (a & E & Hin). subst t. simpl. apply Ha. exact Hin.
  - rewrite forallb_forall in Hx. apply Forall_forall. intros t Ht. apply in_map_iff in Ht.
    destruct Ht as (a & E & Hin). subst t. simpl. apply Hx. exact Hin.
  - apply Forall_forall. intros t Ht. apply in_map_iff in Ht. destruct Ht as (kv & E & Hin). subst t.
    unfold fenv in Hin. apply filter_In in Hin. destruct Hin as [Hin Hallow]. simpl. split.
    + rewrite forallb_forall in Hal. apply Hal. apply allowed_in. exact Hallow.
    + unfold env_ok in He. rewrite forallb_forall in He. specialize (He kv Hin). rewrite Hallow in He.
      simpl in He. exact He.
Qed.

Fixpoint getA (ts : list tok) : list bytes :=
  match ts with [] => [] | TA x :: r => x :: getA r | _ :: r => getA r end.
Fixpoint getX (ts : list tok) : list bytes :=
  match ts with [] => [] | TX h :: r => h :: getX r | _ :: r => getX r end.
Fixpoint getE (ts : list tok) : list (bytes * bytes) :=
  match ts with [] => [] | TE k v :: r => (k, v) :: getE r | _ :: r => getE r end.

Lemma getA_app a b : getA (a ++ b) = getA a ++ getA b.
Proof. induction a as [|[x|h|k v] a IH]; simpl; rewrite ?IH; reflexivity. Qed.
Lemma getX_app a b : getX (a ++ b) = getX a ++ getX b.
Proof. induction a as [|[x|h|k v] a IH]; simpl; rewrite ?IH; reflexivity. Qed.
Lemma getE_app a b : getE (a ++ b) = getE a ++ getE b.
Proof. induction a as [|[x|h|k v] a IH]; simpl; rewrite ?IH; reflexivity. Qed.

Lemma get_toks al r :
  getA (toks al r) = args r /\ getX (toks al r) = extra r /\ getE (toks al r) = fenv al r.
Proof.
  unfold toks. rewrite !getA_app, !getX_app, !getE_app.
  assert (A1 : forall l, getA (map TA l) = l /\ getX (map TA l) = [] /\ getE (map TA l) = []).
  { induction l as [|a l (I1 & I2 & I3)]; simpl; rewrite ?I1, ?I2, ?I3; repeat split; reflexivity. }
  assert (A2 : forall l, getA (map TX l) = [] /\ getX (map TX l) = l /\ getE (map TX l) = []).
  { induction l as [|a l (I1 & I2 & I3)]; simpl; rewrite ?I1, ?I2, ?I3; repeat split; reflexivity. }
  assert (A3 : forall l, getA (map te l) = [] /\ getX (map te l) = [] /\ getE (map te l) = l).
  { induction l as [|[k v] l (I1 & I2 & I3)]; simpl; rewrite ?I1, ?I2, ?I3; repeat split; reflexivity. }
  destruct (A1 (args r)) as (a1 & a2 & a3), (A2 (extra r)) as (b1 & b2 & b3), (A3 (fenv al r)) as (c1 & c2 & c3).
  rewrite a1, a2, a3, b1, b2, b3, c1, c2, c3. rewrite !app_nil_r. repeat split; reflexivity.
Qed.

Lemma get_allX xs :
  Forall isX xs -> getA xs = [] /\ getE xs = [] /\ flat xs = concat (getX xs).
Proof.
  induction 1 as [|t xs Ht _ (I1 & I2 & I3)]; [repeat split; reflexivity|].
  destruct t as [x|h|k v]; simpl in Ht; try contradiction.
  simpl. rewrite flat_cons, I3. repeat split; assumption || reflexivity.
Qed.

Lemma getX_ok xs : Forall tok_ok xs -> Forall hex64P (getX xs).
Proof.
  induction 1 as [|t xs Ht _ IH]; [constructor|].
  destruct t as [x|h|k v]; simpl; try assumption. constructor; assumption.
Qed.

(* the stream part of a request determines args and the filtered environment; extras up to the tail ambiguity *)
Lemma toks_inj al r1 r2 P1 P2 :
  Forall tok_ok (toks al r1) -> Forall tok_ok (toks al r2) -> nonul P1 = true -> nonul P2 = true ->
  flat (toks al r1) ++ P1 = flat (toks al r2) ++ P2 ->
  args r1 = args r2 /\ fenv al r1 = fenv al r2 /\
  exists hs, Forall hex64P hs /\
             ((extra r1 = extra r2 ++ hs /\ P2 = concat hs ++ P1) \/
              (extra r2 = extra r1 ++ hs /\ P1 = concat hs ++ P2)).
Proof.
  intros H1 H2 HP1 HP2 E.
  destruct (tok_inj _ _ _ _ H1 H2 HP1 HP2 E) as (xs & Hxs & Hc).
  destruct (get_allX xs Hxs) as (XA & XE & XF).
  destruct (get_toks al r1) as (A1 & X1 & E1), (get_toks al r2) as (A2 & X2 & E2).
  destruct Hc as [[Ea Eb]|[Ea Eb]].
  - pose proof (f_equal getA Ea) as Ha. pose proof (f_equal getX Ea) as Hx. pose proof (f_equal getE Ea) as He.
    rewrite getA_app, XA, app_nil_r, A1, A2 in Ha. rewrite getE_app, XE, app_nil_r, E1, E2 in He.
    rewrite getX_app, X1, X2 in Hx.
    split; [exact Ha|]. split; [exact He|]. exists (getX xs). split.
    + apply getX_ok. rewrite Ea in H1. apply Forall_app in H1. tauto.
    + left. split; [exact Hx | rewrite <- XF; exact Eb].
  - pose proof (f_equal getA Ea) as Ha. pose proof (f_equal getX Ea) as Hx. pose proof (f_equal getE Ea) as He.
    rewrite getA_app, XA, app_nil_r, A1, A2 in Ha. rewrite getE_app, XE, app_nil_r, E1, E2 in He.
    rewrite getX_app, X1, X2 in Hx.
    split; [symmetry; exact Ha|]. split; [symmetry; exact He|]. exists (getX xs). split.
    + apply getX_ok. rewrite Ea in H2. apply Forall_app in H2. tauto.
    + right. split; [exact Hx | rewrite <- XF; exact Eb].
Qed.

(* --- the tag boundary *)

Definition no_ext (sp : spec) (l : bytes) (P : bytes) : Prop :=
  forall e s, In e (tags sp) -> strip_prefix (tag_of sp l) (snd e) = Some s -> s <> [] -> prefixb s P = false.

Lemma no_tag_ext_no_ext sp l P : no_tag_ext sp l P = true -> no_ext sp l P.
Proof.
  unfold no_tag_ext, no_ext. intros H e s He Hs Hne. rewrite forallb_forall in H. specialize (H e He).
  rewrite Hs in H. destruct s as [|x s]; [congruence|]. apply negb_true_iff in H. exact H.
Qed.

Lemma prefixb_app_cases s p y : prefixb s (p ++ y) = true -> prefixb s p = true \/ prefixb p s = true.
Proof.
  revert p; induction s as [|c s IH]; intros p H; [left; reflexivity|].
  destruct p as [|d p]; [right; reflexivity|]. simpl in *.
  apply andb_true_iff in H. destruct H as [Hc H]. rewrite Hc. simpl.
  rewrite N.eqb_sym in Hc. rewrite Hc. simpl. apply IH. exact H.
Qed.

Lemma no_tag_ext_path_no_ext sp l p y : no_tag_ext_path sp l p = true -> no_ext sp l (p ++ y).
Proof.
  unfold no_tag_ext_path, no_ext. intros H e s He Hs Hne. rewrite forallb_forall in H. specialize (H e He).
  rewrite Hs in H. destruct s as [|x s]; [congruence|].
  apply andb_true_iff in H. destruct H as [Ha Hb]. apply negb_true_iff in Ha. apply negb_true_iff in Hb.
  destruct (prefixb (x :: s) (p ++ y)) eqn:E; [|reflexivity].
  apply prefixb_app_cases in E. destruct E as [E|E]; congruence.
Qed.

Lemma tag_entry_some sp l : lang_known sp l = true -> exists e, In e (tags sp) /\ tag_of sp l = snd e.
Proof.
  unfold lang_known, tag_of, tag_entry.
  destruct (find (fun e => bytes_eqb (fst e) l) (tags sp)) as [e|] eqn:E; [|discriminate].
  intros _. apply find_some in E. exists e. split; [tauto | reflexivity].
Qed.

Lemma tags_ok_ext sp e1 e2 s :
  tags_ok sp = true -> In e1 (tags sp) -> In e2 (tags sp) -> snd e1 = snd e2 ++ s -> ext_ok s = true.
Proof.
  unfold tags_ok. intros H H1 H2 E. rewrite forallb_forall in H. specialize (H e1 H1).
  rewrite forallb_forall in H. specialize (H e2 H2). unfold tag_pair_ok in H.
  apply andb_true_iff in H. destruct H as [_ H].
  apply strip_prefix_spec in E. rewrite E in H. exact H.
Qed.

Lemma tag_peel sp l1 l2 ts1 P1 ts2 P2 :
  tags_ok sp = true -> lang_known sp l1 = true -> lang_known sp l2 = true ->
  Forall tok_ok ts1 -> nonul P1 = true -> Forall tok_ok ts2 -> nonul P2 = true ->
  no_ext sp l1 P1 -> no_ext sp l2 P2 ->
  tag_of sp l1 ++ (flat ts1 ++ P1) = tag_of sp l2 ++ (flat ts2 ++ P2) ->
  tag_of sp l1 = tag_of sp l2 /\ flat ts1 ++ P1 = flat ts2 ++ P2.
Proof.
  intros Htags K1 K2 H1 HP1 H2 HP2 N1 N2 E.
  destruct (tag_entry_some sp l1 K1) as (e1 & In1 & T1), (tag_entry_some sp l2 K2) as (e2 & In2 & T2).
  destruct (app_eq_app _ _ _ _ E) as (s & [[Ea Eb]|[Ea Eb]]).
  - destruct s as [|c s'].
    + rewrite app_nil_r in Ea. simpl in Eb. split; [exact Ea | symmetry; exact Eb].
    + exfalso. remember (c :: s') as s eqn:Hs.
      assert (Hext : ext_ok s = true).
      { apply (tags_ok_ext sp e1 e2 s Htags In1 In2). rewrite <- T1, <- T2. exact Ea. }
      assert (Hts2 : ts2 = []).
      { apply (tag_boundary s ts1 P1 ts2 P2); try assumption. subst s; discriminate. }
      subst ts2. simpl in Eb.
      assert (Hpre : prefixb s P2 = false).
      { apply (N2 e1 s In1); [|subst s; discriminate]. apply strip_prefix_spec. rewrite <- T1. exact Ea. }
      rewrite Eb, prefixb_app in Hpre. discriminate.
  - destruct s as [|c s'].
    + rewrite app_nil_r in Ea. simpl in Eb. split; [symmetry; exact Ea | exact Eb].
    + exfalso. remember (c :: s') as s eqn:Hs.
      assert (Hext : ext_ok s = true).
      { apply (tags_ok_ext sp e2 e1 s Htags In2 In1). rewrite <- T1, <- T2. exact Ea. }
      assert (Hts1 : ts1 = []).
      { apply (tag_boundary s ts2 P2 ts1 P1); try assumption. subst s; discriminate. }
      subst ts1. simpl in Eb.
      assert (Hpre : prefixb s P1 = false).
      { apply (N1 e2 s In2); [|subst s; discriminate]. apply strip_prefix_spec. rewrite <- T2. exact Ea. }
      rewrite Eb, prefixb_app in Hpre. discriminate.
Qed.

(* --- well-formedness, unpacked *)

Lemma common_ok_unpack sp r :
  common_ok sp r = true ->
  is_hex64 (digest r) = true /\ lang_known sp (lang r) = true /\
  forallb str_ok (args r) = true /\ forallb is_hex64 (extra r) = true.
Proof.
  unfold common_ok. intro H.
  apply andb_true_iff in H. destruct H as [H H4]. apply andb_true_iff in H. destruct H as [H H3].
  apply andb_true_iff in H. destruct H as [H1 H2]. repeat split; assumption.
Qed.

Lemma wf_c_unpack sp r :
  wf_c sp r = true ->
  common_ok sp r = true /\ env_ok (allow_main sp) r = true /\ nonul (pp r) = true /\
  no_tag_ext sp (lang r) (pp r) = true.
Proof.
  unfold wf_c, pp_ok. intro H.
  apply andb_true_iff in H. destruct H as [H H3]. apply andb_true_iff in H. destruct H as [H1 H2].
  apply andb_true_iff in H3. destruct H3 as [H3 H4]. repeat split; assumption.
Qed.

Lemma wf_p_unpack sp r :
  wf_p sp r = true ->
  common_ok sp r = true /\ env_ok (allow_pp sp) r = true /\ abs_path (path r) = true /\
  nonul (path r) = true /\ no_tag_ext_path sp (lang r) (path r) = true /\
  path_tail_ok (path r) = true /\ time_ok r = true.
Proof.
  unfold wf_p, path_ok. intro H.
  apply andb_true_iff in H. destruct H as [H H7]. apply andb_true_iff in H. destruct H as [H H3].
  apply andb_true_iff in H. destruct H as [H1 H2].
  apply andb_true_iff in H3. destruct H3 as [H3 H6]. apply andb_true_iff in H3. destruct H3 as [H3 H5].
  apply andb_true_iff in H3. destruct H3 as [H3 H4].
  repeat split; assumption.
Qed.

Lemma allow_ok_unpack sp :
  allow_ok sp = true -> forallb str_ok (allow_main sp) = true /\ forallb str_ok (allow_pp sp) = true.
Proof. unfold allow_ok. intro H. apply andb_true_iff in H. exact H. Qed.

Lemma lt0_64 : (0 < 64)%nat.
Proof. lia. Qed.

Lemma abs_path_head p y : abs_path p = true -> nth 0 (p ++ y) 1 = 47.
Proof. destruct p as [|c p]; simpl; [discriminate|]. intro H. apply N.eqb_eq in H. exact H. Qed.

Lemma b2n_inj a b : b2n a = b2n b -> a = b.
Proof. destruct a, b; simpl; intro H; congruence || (exfalso; lia). Qed.

Lemma le_bytes_inj k n m :
  n < 256 ^ N.of_nat k -> m < 256 ^ N.of_nat k -> le_bytes k n = le_bytes k m -> n = m.
Proof.
  intros Hn Hm E. apply (f_equal le_dec) in E. rewrite !le_dec_le_bytes in E.
  rewrite !N.mod_small in E by assumption. exact E.
Qed.

Lemma time_ok_unpack r :
  time_ok r = true ->
  fst (fst (date r)) < 256 ^ N.of_nat 4 /\ snd (fst (date r)) < 256 ^ N.of_nat 4 /\ snd (date r) < 256 ^ N.of_nat 4 /\
  fst (mtime r) < 256 ^ N.of_nat 8 /\ snd (mtime r) < 256 ^ N.of_nat 4.
Proof.
  unfold time_ok. intro H.
  change (256 ^ N.of_nat 4) with 4294967296. change (256 ^ N.of_nat 8) with 18446744073709551616.
  apply andb_true_iff in H. destruct H as [H H5]. apply andb_true_iff in H. destruct H as [H H4].
  apply andb_true_iff in H. destruct H as [H H3]. apply andb_true_iff in H. destruct H as [H1 H2].
  apply N.ltb_lt in H1, H2, H3, H4, H5. repeat split; assumption.
Qed.

Lemma stamp_part_inj m1 m2 :
  fst m1 < 256 ^ N.of_nat 8 -> snd m1 < 256 ^ N.of_nat 4 -> fst m2 < 256 ^ N.of_nat 8 -> snd m2 < 256 ^ N.of_nat 4 ->
  le_bytes 8 (fst m1) ++ le_bytes 4 (snd m1) = le_bytes 8 (fst m2) ++ le_bytes 4 (snd m2) -> m1 = m2.
Proof.
  intros A1 B1 A2 B2 E. apply app_same_length in E; [|rewrite !le_bytes_length; reflexivity].
  destruct E as [Ea Eb]. apply le_bytes_inj in Ea; try assumption. apply le_bytes_inj in Eb; try assumption.
  destruct m1, m2; simpl in *; congruence.
Qed.

(* date / SOURCE_DATE_EPOCH / mtime can be read back from what is fed to the inner digest *)
Lemma time_pre_inj r1 r2 :
  input r1 = input r2 -> time_ok r1 = true -> time_ok r2 = true -> time_pre r1 = time_pre r2 ->
  (has_date r1 = true -> date r1 = date r2 /\ sde_bytes r1 = sde_bytes r2) /\
  (has_stamp r1 = true -> mtime r1 = mtime r2).
Proof.
  intros Ei T1 T2 E.
  destruct (time_ok_unpack _ T1) as (Y1 & M1 & D1 & S1 & N1), (time_ok_unpack _ T2) as (Y2 & M2 & D2 & S2 & N2).
  unfold time_pre in E.
  assert (Hd : has_date r2 = has_date r1) by (unfold has_date; rewrite Ei; reflexivity).
  assert (Hs : has_stamp r2 = has_stamp r1) by (unfold has_stamp; rewrite Ei; reflexivity).
  rewrite Hd, Hs in E.
  destruct (has_date r1), (has_stamp r1).
  - rewrite <- !app_assoc in E. apply app_inv_head in E.
    apply app_same_length in E; [|rewrite !le_bytes_length; reflexivity]. destruct E as [Ey E].
    apply app_same_length in E; [|rewrite !le_bytes_length; reflexivity]. destruct E as [Em E].
    apply app_same_length in E; [|rewrite !le_bytes_length; reflexivity]. destruct E as [Ed E].
    apply app_same_length_r in E; [|rewrite !app_length, !le_bytes_length; reflexivity]. destruct E as [Es E].
    apply app_inv_head in E. apply stamp_part_inj in E; try assumption.
    apply le_bytes_inj in Ey, Em, Ed; try assumption.
    split; intros _; [|exact E]. split; [|exact Es].
    destruct (date r1) as [[y1 m1] d1], (date r2) as [[y2 m2] d2]; simpl in *; congruence.
  - rewrite !app_nil_r in E. rewrite <- ?app_assoc in E. apply app_inv_head in E.
    apply app_same_length in E; [|rewrite !le_bytes_length; reflexivity]. destruct E as [Ey E].
    apply app_same_length in E; [|rewrite !le_bytes_length; reflexivity]. destruct E as [Em E].
    apply app_same_length in E; [|rewrite !le_bytes_length; reflexivity]. destruct E as [Ed Es].
    apply le_bytes_inj in Ey, Em, Ed; try assumption.
    split; [|discriminate]. intros _. split; [|exact Es].
    destruct (date r1) as [[y1 m1] d1], (date r2) as [[y2 m2] d2]; simpl in *; congruence.
  - cbn [app] in E. rewrite <- ?app_assoc in E. apply app_inv_head in E. apply stamp_part_inj in E; try assumption.
    split; [discriminate | intros _; exact E].
  - split; discriminate.
Qed.

Lemma salt_view_eq r1 r2 :
  input r1 = input r2 -> salted r1 = salted r2 -> time_ok r1 = true -> time_ok r2 = true ->
  (salted r1 = true -> time_pre r1 = time_pre r2) -> salt_view r1 = salt_view r2.
Proof.
  intros Ei Es T1 T2 Et. unfold salt_view. rewrite <- Es.
  destruct (salted r1); [|reflexivity]. specialize (Et eq_refl).
  destruct (time_pre_inj r1 r2 Ei T1 T2 Et) as [Hd Hs].
  assert (Ed : has_date r2 = has_date r1) by (unfold has_date; rewrite Ei; reflexivity).
  assert (Est : has_stamp r2 = has_stamp r1) by (unfold has_stamp; rewrite Ei; reflexivity).
  rewrite Ed, Est.
  destruct (has_date r1), (has_stamp r1).
  - destruct (Hd eq_refl) as [A B]. rewrite A, B, (Hs eq_refl). reflexivity.
  - destruct (Hd eq_refl) as [A B]. rewrite A, B. reflexivity.
  - rewrite (Hs eq_refl). reflexivity.
  - reflexivity.
Qed.

(* conversely the digest component depends on the request only through the file contents and [salt_view] *)
Lemma salt_view_pieces r1 r2 :
  input r1 = input r2 -> salt_view r1 = salt_view r2 -> input_digest_pieces r1 = input_digest_pieces r2.
Proof.
  intros Ei Ev. unfold salt_view in Ev. unfold input_digest_pieces.
  assert (Ed : has_date r2 = has_date r1) by (unfold has_date; rewrite Ei; reflexivity).
  assert (Est : has_stamp r2 = has_stamp r1) by (unfold has_stamp; rewrite Ei; reflexivity).
  destruct (salted r1), (salted r2); try discriminate; rewrite Ei; [|reflexivity].
  assert (Et : time_pre r1 = time_pre r2).
  { unfold time_pre. rewrite Ed, Est. rewrite Ed, Est in Ev.
    destruct (has_date r1), (has_stamp r1); inversion Ev; subst; try reflexivity; congruence. }
  rewrite Et. reflexivity.
Qed.

Lemma rev_tail_hex (p a : bytes) :
  is_hex64 a = true -> path_tail_ok (p ++ a ++ [45]) = false.
Proof.
  intro Ha. unfold path_tail_ok.
  assert (E : rev (p ++ a ++ [45]) = 45 :: (rev a ++ rev p)).
  { rewrite app_assoc, rev_app_distr. simpl rev at 1. rewrite rev_app_distr. reflexivity. }
  rewrite E. rewrite firstn_app, rev_length, (hex64_length a Ha).
  replace (64 - 64)%nat with 0%nat by reflexivity. rewrite firstn_O, app_nil_r.
  rewrite firstn_all2 by (rewrite rev_length, (hex64_length a Ha); apply Nat.le_refl).
  rewrite rev_involutive, Ha. reflexivity.
Qed.

Section WithHash.
  Variable H : bytes -> bytes.

  (* the general statement: everything but the extras/output boundary *)
  Theorem encode_c_inj_gen sp r1 r2 :
    spec_good sp -> wf_c sp r1 = true -> wf_c sp r2 = true ->
    encode_c H sp r1 = encode_c H sp r2 ->
    digest r1 = digest r2 /\ plusplus r1 = plusplus r2 /\ tag_of sp (lang r1) = tag_of sp (lang r2) /\
    args r1 = args r2 /\ fenv (allow_main sp) r1 = fenv (allow_main sp) r2 /\
    exists hs, Forall hex64P hs /\
               ((extra r1 = extra r2 ++ hs /\ pp r2 = concat hs ++ pp r1) \/
                (extra r2 = extra r1 ++ hs /\ pp r1 = concat hs ++ pp r2)).
  Proof.
    intros (Hsc & _ & Htags & Hallow) W1 W2 E.
    destruct (wf_c_unpack _ _ W1) as (C1 & En1 & Pn1 & Pt1), (wf_c_unpack _ _ W2) as (C2 & En2 & Pn2 & Pt2).
    destruct (common_ok_unpack _ _ C1) as (D1 & K1 & A1 & X1), (common_ok_unpack _ _ C2) as (D2 & K2 & A2 & X2).
    destruct (allow_ok_unpack _ Hallow) as (Al & _).
    rewrite !encode_c_eq in E by exact Hsc.
    apply app_same_length in E; [|rewrite (hex64_length _ D1), (hex64_length _ D2); reflexivity].
    destruct E as [Ed E]. simpl in E. inversion E as [[Eb E']]. clear E. apply b2n_inj in Eb.
    apply app_inv_head in E'.
    pose proof (toks_ok _ _ Al A1 X1 En1) as T1. pose proof (toks_ok _ _ Al A2 X2 En2) as T2.
    apply tag_peel in E'; try assumption; try (apply no_tag_ext_no_ext; assumption).
    destruct E' as [Et E'].
    destruct (toks_inj _ _ _ _ _ T1 T2 Pn1 Pn2 E') as (Ea & Ee & Hhs).
    repeat (split; [assumption|]). exact Hhs.
  Qed.

  Lemma hs_nil_by_length (x1 x2 hs : list bytes) :
    x1 = x2 ++ hs -> length x1 = length x2 -> hs = [].
  Proof.
    intros E Hl. subst x1. rewrite app_length in Hl. destruct hs; [reflexivity | simpl in Hl; lia].
  Qed.

  Lemma hs_nil_by_nohex hs (p q : bytes) :
    Forall hex64P hs -> p = concat hs ++ q -> nohex64 p = true -> hs = [].
  Proof.
    intros Hhs E Hn. destruct hs as [|h hs]; [reflexivity|]. exfalso.
    inversion Hhs as [|? ? Hh _]; subst. unfold hex64P in Hh.
    unfold nohex64 in Hn. apply negb_true_iff in Hn.
    simpl concat in Hn. rewrite <- !app_assoc in Hn. rewrite firstn_app in Hn.
    rewrite (hex64_length h Hh) in Hn. simpl firstn at 2 in Hn. rewrite app_nil_r in Hn.
    rewrite firstn_all2 in Hn by (rewrite (hex64_length h Hh); lia). congruence.
  Qed.

  Lemma canon_c_eq sp r1 r2 :
    digest r1 = digest r2 -> plusplus r1 = plusplus r2 -> tag_of sp (lang r1) = tag_of sp (lang r2) ->
    args r1 = args r2 -> extra r1 = extra r2 -> fenv (allow_main sp) r1 = fenv (allow_main sp) r2 ->
    pp r1 = pp r2 -> canon_c sp r1 = canon_c sp r2.
  Proof. intros. unfold canon_c. congruence. Qed.

  Lemma canon_c_inv sp r1 r2 :
    canon_c sp r1 = canon_c sp r2 ->
    digest r1 = digest r2 /\ plusplus r1 = plusplus r2 /\ tag_of sp (lang r1) = tag_of sp (lang r2) /\
    args r1 = args r2 /\ extra r1 = extra r2 /\ fenv (allow_main sp) r1 = fenv (allow_main sp) r2 /\
    pp r1 = pp r2.
  Proof. unfold canon_c. intro E. inversion E. tauto. Qed.

  Theorem encode_c_inj sp r1 r2 :
    spec_good sp -> wf_c sp r1 = true -> wf_c sp r2 = true -> extra_pp_ok r1 r2 = true ->
    encode_c H sp r1 = encode_c H sp r2 -> canon_c sp r1 = canon_c sp r2.
  Proof.
    intros G W1 W2 X E.
    destruct (encode_c_inj_gen sp r1 r2 G W1 W2 E) as (Ed & Eb & Et & Ea & Ee & hs & Hhs & Hc).
    assert (Hnil : hs = []).
    { unfold extra_pp_ok in X. apply orb_true_iff in X. destruct X as [X|X].
      - apply Nat.eqb_eq in X. destruct Hc as [[E1 _]|[E1 _]].
        + exact (hs_nil_by_length _ _ _ E1 X).
        + exact (hs_nil_by_length _ _ _ E1 (eq_sym X)).
      - apply andb_true_iff in X. destruct X as [X1 X2]. destruct Hc as [[_ E2]|[_ E2]].
        + exact (hs_nil_by_nohex _ _ _ Hhs E2 X2).
        + exact (hs_nil_by_nohex _ _ _ Hhs E2 X1). }
    subst hs. simpl in Hc. rewrite !app_nil_r in Hc.
    apply canon_c_eq; try assumption; destruct Hc as [[E1 E2]|[E1 E2]]; congruence.
  Qed.

  Lemma canon_c_encode sp r1 r2 :
    shape_c sp = expected_shape_c -> canon_c sp r1 = canon_c sp r2 -> encode_c H sp r1 = encode_c H sp r2.
  Proof.
    intros Hs E. apply canon_c_inv in E. destruct E as (E1 & E2 & E3 & E4 & E5 & E6 & E7).
    rewrite !encode_c_eq by exact Hs. unfold toks. rewrite E1, E2, E3, E4, E5, E6, E7. reflexivity.
  Qed.

  Theorem key_iff sp r1 r2 :
    spec_good sp -> wf_c sp r1 = true -> wf_c sp r2 = true -> extra_pp_ok r1 r2 = true ->
    (H (encode_c H sp r1) = H (encode_c H sp r2) -> encode_c H sp r1 = encode_c H sp r2) ->
    (key H sp r1 = key H sp r2 <-> canon_c sp r1 = canon_c sp r2).
  Proof.
    intros G W1 W2 X Hinj. unfold key. split.
    - intro E. apply encode_c_inj; try assumption. apply Hinj. exact E.
    - intro E. destruct G as (Hs & _). rewrite (canon_c_encode sp r1 r2 Hs E). reflexivity.
  Qed.

  (* --- the preprocessor-level key *)
  Hypothesis H_hex : forall x, is_hex64 (H x) = true.

  Lemma idig_nonul r : nonul (idig H r) = true.
  Proof.
    unfold idig. destruct (salted r); rewrite ?nonul_app, ?(hex64_nonul _ (H_hex _)); reflexivity.
  Qed.

  Lemma idig_head r y : is_hex (nth 0 (idig H r ++ y) 1) = true.
  Proof.
    unfold idig. destruct (salted r); rewrite <- ?app_assoc;
      (rewrite app_nth1 by (rewrite (hex64_length _ (H_hex _)); exact lt0_64)); apply hex64_nth; try exact lt0_64; apply H_hex.
  Qed.

  (* the path is followed by  digest  or  digest "-" digest : unambiguous unless the path itself ends that way *)
  Lemma tail_split r1 r2 :
    path_tail_ok (path r1) = true -> path_tail_ok (path r2) = true ->
    path r1 ++ idig H r1 = path r2 ++ idig H r2 ->
    path r1 = path r2 /\ salted r1 = salted r2 /\ H (input r1) = H (input r2) /\
    (salted r1 = true -> H (time_pre r1) = H (time_pre r2)).
  Proof.
    intros P1 P2 E. unfold idig in E.
    pose proof (fun x => hex64_length _ (H_hex x)) as HL.
    destruct (salted r1) eqn:S1, (salted r2) eqn:S2.
    - apply app_same_length_r in E; [|rewrite !app_length, !HL; reflexivity]. destruct E as [Ep E].
      apply app_same_length in E; [|rewrite !HL; reflexivity]. destruct E as [Ea E].
      apply (app_inv_head [45]) in E. repeat split; try assumption. intros _. exact E.
    - exfalso. rewrite !app_assoc in E. apply app_same_length_r in E; [|rewrite !HL; reflexivity].
      destruct E as [Ep _]. rewrite <- !app_assoc in Ep. rewrite <- Ep in P2.
      rewrite (rev_tail_hex _ _ (H_hex _)) in P2. discriminate.
    - exfalso. rewrite !app_assoc in E. apply app_same_length_r in E; [|rewrite !HL; reflexivity].
      destruct E as [Ep _]. rewrite <- !app_assoc in Ep. rewrite Ep in P1.
      rewrite (rev_tail_hex _ _ (H_hex _)) in P1. discriminate.
    - apply app_same_length_r in E; [|rewrite !HL; reflexivity]. destruct E as [Ep E].
      repeat split; try assumption. discriminate.
  Qed.

  Theorem encode_pp_inj sp r1 r2 :
    spec_good sp -> wf_p sp r1 = true -> wf_p sp r2 = true ->
    encode_pp H sp r1 = encode_pp H sp r2 ->
    digest r1 = digest r2 /\ plusplus r1 = plusplus r2 /\ tag_of sp (lang r1) = tag_of sp (lang r2) /\
    args r1 = args r2 /\ extra r1 = extra r2 /\ fenv (allow_pp sp) r1 = fenv (allow_pp sp) r2 /\
    path r1 = path r2 /\ salted r1 = salted r2 /\ H (input r1) = H (input r2) /\
    (salted r1 = true -> H (time_pre r1) = H (time_pre r2)).
  Proof.
    intros (_ & Hsp & Htags & Hallow) W1 W2 E.
    destruct (wf_p_unpack _ _ W1) as (C1 & En1 & Ab1 & Pn1 & Pt1 & Pl1 & _),
             (wf_p_unpack _ _ W2) as (C2 & En2 & Ab2 & Pn2 & Pt2 & Pl2 & _).
    destruct (common_ok_unpack _ _ C1) as (D1 & K1 & A1 & X1), (common_ok_unpack _ _ C2) as (D2 & K2 & A2 & X2).
    destruct (allow_ok_unpack _ Hallow) as (_ & Al).
    rewrite !encode_pp_eq in E by exact Hsp.
    apply app_same_length in E; [|rewrite (hex64_length _ D1), (hex64_length _ D2); reflexivity].
    destruct E as [Ed E]. simpl in E. inversion E as [[Eb E']]. clear E. apply b2n_inj in Eb.
    apply app_inv_head in E'.
    pose proof (toks_ok _ _ Al A1 X1 En1) as T1. pose proof (toks_ok _ _ Al A2 X2 En2) as T2.
    assert (N1 : nonul (path r1 ++ idig H r1) = true) by (rewrite nonul_app, Pn1, idig_nonul; reflexivity).
    assert (N2 : nonul (path r2 ++ idig H r2) = true) by (rewrite nonul_app, Pn2, idig_nonul; reflexivity).
    apply tag_peel in E'; try assumption; try (apply no_tag_ext_path_no_ext; assumption).
    destruct E' as [Et E'].
    destruct (toks_inj _ _ _ _ _ T1 T2 N1 N2 E') as (Ea & Ee & hs & Hhs & Hc).
    assert (Hnil : hs = []).
    { destruct hs as [|h hs]; [reflexivity|]. exfalso.
      inversion Hhs as [|? ? Hh _]; subst. unfold hex64P in Hh.
      pose proof (hex64_nth h 0 Hh lt0_64) as Hc0. apply is_hex_facts in Hc0.
      destruct Hc0 as (_ & _ & Hc47 & _).
      assert (Hh0 : forall q, nth 0 (concat (h :: hs) ++ q) 1 = nth 0 h 1).
      { intro q. simpl concat. rewrite <- !app_assoc. apply app_nth1. rewrite (hex64_length h Hh). exact lt0_64. }
      destruct Hc as [[_ Ep]|[_ Ep]].
      - apply (f_equal (fun l => nth 0 l 1)) in Ep. rewrite Hh0 in Ep.
        rewrite (abs_path_head _ _ Ab2) in Ep. symmetry in Ep. exact (Hc47 Ep).
      - apply (f_equal (fun l => nth 0 l 1)) in Ep. rewrite Hh0 in Ep.
        rewrite (abs_path_head _ _ Ab1) in Ep. symmetry in Ep. exact (Hc47 Ep). }
    subst hs. simpl in Hc. rewrite !app_nil_r in Hc.
    assert (Ex : extra r1 = extra r2) by (destruct Hc as [[E1 _]|[E1 _]]; congruence).
    assert (Ep : path r1 ++ idig H r1 = path r2 ++ idig H r2) by (destruct Hc as [[_ E2]|[_ E2]]; congruence).
    destruct (tail_split r1 r2 Pl1 Pl2 Ep) as (Epath & Es & Ei & Etp).
    repeat (split; [assumption|]). exact Etp.
  Qed.
End WithHash.

(* ------------------------------------------------------------------ 4. language tags, S16, pair families *)

Lemma lang_injective sp l1 l2 :
  tags_ok sp = true -> lang_known sp l1 = true -> lang_known sp l2 = true ->
  tag_of sp l1 = tag_of sp l2 -> l1 = l2 \/ alias_exempt l1 l2 = true.
Proof.
  unfold lang_known, tag_of, tag_entry. intros Htags K1 K2 E.
  destruct (find (fun e => bytes_eqb (fst e) l1) (tags sp)) as [e1|] eqn:F1; [|discriminate].
  destruct (find (fun e => bytes_eqb (fst e) l2) (tags sp)) as [e2|] eqn:F2; [|discriminate].
  apply find_some in F1. apply find_some in F2. destruct F1 as [In1 N1], F2 as [In2 N2].
  apply bytes_eqb_eq in N1. apply bytes_eqb_eq in N2. subst l1 l2.
  unfold tags_ok in Htags. rewrite forallb_forall in Htags. specialize (Htags e1 In1).
  rewrite forallb_forall in Htags. specialize (Htags e2 In2). unfold tag_pair_ok in Htags.
  apply andb_true_iff in Htags. destruct Htags as [Ht _].
  rewrite E, bytes_eqb_refl in Ht. apply orb_true_iff in Ht. destruct Ht as [Ht|Ht].
  - left. apply bytes_eqb_eq. exact Ht.
  - right. exact Ht.
Qed.

(* S16: what the preprocessor-level key sees of the environment determines what the result key sees *)
Lemma filter_filter_sub {A} (f g : A -> bool) l :
  (forall x, f x = true -> g x = true) -> filter f (filter g l) = filter f l.
Proof.
  intro Hfg. induction l as [|a l IH]; [reflexivity|]. simpl.
  destruct (g a) eqn:Eg; simpl.
  - rewrite IH. reflexivity.
  - destruct (f a) eqn:Ef; [rewrite (Hfg a Ef) in Eg; discriminate | exact IH].
Qed.

Lemma env_covers_main sp r1 r2 :
  env_covers sp = true ->
  fenv (allow_pp sp) r1 = fenv (allow_pp sp) r2 -> fenv (allow_main sp) r1 = fenv (allow_main sp) r2.
Proof.
  intros Hc E. unfold fenv in *.
  assert (Hsub : forall kv : bytes * bytes,
             allowed (allow_main sp) (fst kv) = true -> allowed (allow_pp sp) (fst kv) = true).
  { intros kv Ha. apply allowed_in in Ha. unfold env_covers in Hc. rewrite forallb_forall in Hc. exact (Hc _ Ha). }
  rewrite <- (filter_filter_sub _ _ (env r1) Hsub), <- (filter_filter_sub _ _ (env r2) Hsub), E. reflexivity.
Qed.

Lemma required_allowed sp :
  required_ok sp = true ->
  (forall k, In k required_main -> allowed (allow_main sp) k = true) /\
  (forall k, In k required_pp -> allowed (allow_pp sp) k = true).
Proof.
  unfold required_ok. intro H. apply andb_true_iff in H. destruct H as [H1 H2].
  rewrite forallb_forall in H1, H2. split; assumption.
Qed.

Lemma drivers_ok_spec ids t :
  drivers_ok ids t = true ->
  (forall k b, driver_pp t k = Some b -> b = ends_pp k) /\
  (forall i, In i ids -> ends_pp i = true -> driver_pp t i = Some true).
Proof.
  unfold drivers_ok. intro H. apply andb_true_iff in H. destruct H as [H1 H2].
  rewrite forallb_forall in H1, H2.
  assert (A : forall k b, driver_pp t k = Some b -> b = ends_pp k).
  { intros k b. unfold driver_pp.
    destruct (find (fun e => bytes_eqb (fst (fst e)) k) t) as [e|] eqn:F; [|discriminate].
    intro E. inversion E; subst. apply find_some in F. destruct F as [Hin Hk].
    apply bytes_eqb_eq in Hk. subst k. specialize (H1 e Hin). apply Bool.eqb_prop in H1. exact H1. }
  split; [exact A|].
  intros i Hin Hpp. specialize (H2 i Hin). rewrite Hpp in H2. simpl in H2.
  destruct (driver_pp t i) as [b|] eqn:E; [|discriminate].
  rewrite (A i b E), Hpp. reflexivity.
Qed.

(* the ordered -arch list can be read back from either hashed argument list, the other lists being equal *)
Lemma flow_c_arch p1 p2 :
  pa_common p1 = pa_common p2 -> pa_profile p1 = pa_profile p2 ->
  hashed_args expected_flow_c p1 = hashed_args expected_flow_c p2 -> pa_arch p1 = pa_arch p2.
Proof.
  unfold hashed_args, expected_flow_c. cbn [map concat seg_args]. intros Ec Ep E.
  rewrite Ec, Ep in E. apply app_inv_head in E. rewrite !app_nil_r in E. apply app_inv_tail in E. exact E.
Qed.

Lemma flow_p_arch p1 p2 :
  pa_pre p1 = pa_pre p2 -> pa_common p1 = pa_common p2 -> pa_profile p1 = pa_profile p2 -> pa_cwd p1 = pa_cwd p2 ->
  hashed_args expected_flow_p p1 = hashed_args expected_flow_p p2 -> pa_arch p1 = pa_arch p2.
Proof.
  unfold hashed_args, expected_flow_p. cbn [map concat seg_args]. intros Er Ec Ep Ew E.
  rewrite Er, Ec, Ep, Ew in E. apply app_inv_head in E. apply app_inv_tail in E. exact E.
Qed.

Lemma map_inj_on {A B} (f : A -> B) (l1 l2 : list A) :
  (forall a b, In a l1 -> In b l2 -> f a = f b -> a = b) -> map f l1 = map f l2 -> l1 = l2.
Proof.
  revert l2; induction l1 as [|a l1 IH]; intros [|b l2] Hinj E; simpl in E; try discriminate; [reflexivity|].
  inversion E as [[E1 E2]]. f_equal.
  - apply Hinj; simpl; auto.
  - apply IH; [|exact E2]. intros x y Hx Hy. apply Hinj; simpl; auto.
Qed.

(* whatever the piece boundaries, the digest of a reader is H of all its bytes *)
Lemma loop_fed_all ps : forallb nonempty ps = true -> loop_fed ps = concat ps.
Proof.
  induction ps as [|p ps IH]; [reflexivity|]. simpl forallb. intro Hn. apply andb_true_iff in Hn. destruct Hn as [Hp Hr].
  destruct p as [|c p]; [discriminate|]. simpl. rewrite (IH Hr). reflexivity.
Qed.

Lemma reader_digest_pieces m (H : bytes -> bytes) ps1 ps2 :
  m = StopAtEof -> forallb nonempty ps1 = true -> forallb nonempty ps2 = true -> concat ps1 = concat ps2 ->
  reader_digest m H ps1 = H (concat ps1) /\ reader_digest m H ps1 = reader_digest m H ps2.
Proof.
  intros Em N1 N2 E. subst m. unfold reader_digest. rewrite (loop_fed_all ps1 N1), (loop_fed_all ps2 N2), E.
  split; reflexivity.
Qed.

Section Families.
  Variable H : bytes -> bytes.

  Lemma concat_hex_nil hs : Forall hex64P hs -> concat hs = [] -> hs = [].
  Proof.
    intros Hhs E. destruct hs as [|h hs]; [reflexivity|]. exfalso.
    inversion Hhs as [|? ? Hh _]; subst. apply (f_equal (@length N)) in E.
    simpl in E. rewrite app_length, (hex64_length h Hh) in E. simpl in E. lia.
  Qed.

  Theorem single_change_c sp r1 r2 :
    spec_good sp -> wf_c sp r1 = true -> wf_c sp r2 = true -> one_differs_c sp r1 r2 ->
    encode_c H sp r1 <> encode_c H sp r2.
  Proof.
    intros G W1 W2 Hone E.
    destruct (encode_c_inj_gen H sp r1 r2 G W1 W2 E) as (Ed & Eb & Et & Ea & Ee & hs & Hhs & Hc).
    unfold one_differs_c in Hone. cbv zeta in Hone.
    assert (Hx : extra r1 = extra r2 -> pp r1 = pp r2).
    { intro Ex. destruct Hc as [[E1 E2]|[E1 E2]]; rewrite Ex in E1; apply app_self_nil in E1; subst hs;
        simpl in E2; congruence. }
    assert (Hq : pp r1 = pp r2 -> extra r1 = extra r2).
    { intro Eq. destruct Hc as [[E1 E2]|[E1 E2]]; rewrite Eq in E2.
      - assert (concat hs = []) by (apply (app_inv_tail (pp r2)); simpl; exact (eq_sym E2)).
        rewrite (concat_hex_nil hs Hhs) in E1 by assumption. rewrite app_nil_r in E1. exact E1.
      - assert (concat hs = []) by (apply (app_inv_tail (pp r2)); simpl; exact (eq_sym E2)).
        rewrite (concat_hex_nil hs Hhs) in E1 by assumption. rewrite app_nil_r in E1. symmetry. exact E1. }
    destruct Hone as [Hd|[Hd|[Hd|[Hd|[Hd|[Hd|Hd]]]]]]; try tauto.
  Qed.

  (* the driver mode keeps the C and the C++ driver of one binary apart *)
  Theorem driver_mode_separates sp ids t r k1 k2 b1 b2 :
    spec_good sp -> drivers_ok ids t = true ->
    driver_pp t k1 = Some b1 -> driver_pp t k2 = Some b2 -> ends_pp k1 = true -> ends_pp k2 = false ->
    wf_c sp (set_plusplus r b1) = true -> wf_c sp (set_plusplus r b2) = true ->
    encode_c H sp (set_plusplus r b1) <> encode_c H sp (set_plusplus r b2).
  Proof.
    intros G D E1 E2 P1 P2 W1 W2 E.
    destruct (drivers_ok_spec ids t D) as [A _].
    pose proof (A _ _ E1) as B1. pose proof (A _ _ E2) as B2. rewrite P1 in B1. rewrite P2 in B2. subst b1 b2.
    destruct (encode_c_inj_gen H sp _ _ G W1 W2 E) as (_ & Eb & _). simpl in Eb. discriminate.
  Qed.

  (* order and multiplicity of the -arch arguments are covered by the result key *)
  Theorem arch_list_covered_c sp flow r p1 p2 :
    spec_good sp -> flow = expected_flow_c ->
    pa_common p1 = pa_common p2 -> pa_profile p1 = pa_profile p2 ->
    wf_c sp (set_args r (hashed_args flow p1)) = true -> wf_c sp (set_args r (hashed_args flow p2)) = true ->
    encode_c H sp (set_args r (hashed_args flow p1)) = encode_c H sp (set_args r (hashed_args flow p2)) ->
    pa_arch p1 = pa_arch p2.
  Proof.
    intros G Ef Ec Ep W1 W2 E. subst flow.
    destruct (encode_c_inj_gen H sp _ _ G W1 W2 E) as (_ & _ & _ & Ea & _). simpl in Ea.
    exact (flow_c_arch p1 p2 Ec Ep Ea).
  Qed.

  (* the ORDERED list of the extra files' contents is covered (H collision-free on the contents compared) *)
  Theorem extra_files_ordered_c sp m r c1 c2 :
    spec_good sp -> m = InOrder -> length c1 = length c2 ->
    (forall a b, In a c1 -> In b c2 -> H a = H b -> a = b) ->
    wf_c sp (set_extra r (extra_digests m H c1)) = true -> wf_c sp (set_extra r (extra_digests m H c2)) = true ->
    encode_c H sp (set_extra r (extra_digests m H c1)) = encode_c H sp (set_extra r (extra_digests m H c2)) ->
    c1 = c2.
  Proof.
    intros G Em El Hinj W1 W2 E. subst m. cbn [extra_digests] in *.
    destruct (encode_c_inj_gen H sp _ _ G W1 W2 E) as (_ & _ & _ & _ & _ & hs & Hhs & Hc). simpl in Hc.
    assert (Hnil : hs = []).
    { destruct Hc as [[E1 _]|[E1 _]]; apply (f_equal (@length bytes)) in E1;
        rewrite app_length, !map_length in E1; destruct hs; [reflexivity | simpl in E1; lia | reflexivity | simpl in E1; lia]. }
    subst hs. rewrite !app_nil_r in Hc.
    apply (map_inj_on H c1 c2 Hinj). destruct Hc as [[E1 _]|[E1 _]]; congruence.
  Qed.

  Theorem boundary_shift_c sp r pre a b s post :
    spec_good sp -> s <> [] ->
    wf_c sp (set_args r (pre ++ [a ++ s; b] ++ post)) = true ->
    wf_c sp (set_args r (pre ++ [a; s ++ b] ++ post)) = true ->
    encode_c H sp (set_args r (pre ++ [a ++ s; b] ++ post)) <> encode_c H sp (set_args r (pre ++ [a; s ++ b] ++ post)).
  Proof.
    intros G Hs W1 W2 E.
    destruct (encode_c_inj_gen H sp _ _ G W1 W2 E) as (_ & _ & _ & Ea & _).
    simpl in Ea. apply app_inv_head in Ea. inversion Ea as [[E1 E2]].
    apply Hs. apply (app_inv_head a). rewrite app_nil_r. exact E1.
  Qed.

  Theorem split_merge_c sp r pre a b post :
    spec_good sp ->
    wf_c sp (set_args r (pre ++ [a ++ b] ++ post)) = true ->
    wf_c sp (set_args r (pre ++ [a; b] ++ post)) = true ->
    encode_c H sp (set_args r (pre ++ [a ++ b] ++ post)) <> encode_c H sp (set_args r (pre ++ [a; b] ++ post)).
  Proof.
    intros G W1 W2 E.
    destruct (encode_c_inj_gen H sp _ _ G W1 W2 E) as (_ & _ & _ & Ea & _).
    simpl in Ea. apply (f_equal (@length bytes)) in Ea. rewrite !app_length in Ea. simpl in Ea. lia.
  Qed.

  Lemma fenv_one_entry al pre post x1 x2 :
    filter (fun kv : bytes * bytes => allowed al (fst kv)) (pre ++ [x1] ++ post)
    = filter (fun kv : bytes * bytes => allowed al (fst kv)) (pre ++ [x2] ++ post) ->
    x1 <> x2 -> allowed al (fst x1) = false /\ allowed al (fst x2) = false.
  Proof.
    intros E Hne. rewrite !filter_app in E. apply app_inv_head in E. apply app_inv_tail in E. simpl in E.
    destruct (allowed al (fst x1)) eqn:A1, (allowed al (fst x2)) eqn:A2; try discriminate.
    - inversion E. contradiction.
    - split; reflexivity.
  Qed.

  (* moving bytes between a variable's name and its value (k1 ++ v1 = k2 ++ v2): at least one of the two names is
     allow-listed, otherwise the variable is not a hashed component at all *)
  Theorem name_value_shift_c sp r pre post k1 v1 k2 v2 :
    spec_good sp -> k1 ++ v1 = k2 ++ v2 -> k1 <> k2 ->
    allowed (allow_main sp) k1 = true \/ allowed (allow_main sp) k2 = true ->
    wf_c sp (set_env r (pre ++ [(k1, v1)] ++ post)) = true ->
    wf_c sp (set_env r (pre ++ [(k2, v2)] ++ post)) = true ->
    encode_c H sp (set_env r (pre ++ [(k1, v1)] ++ post)) <> encode_c H sp (set_env r (pre ++ [(k2, v2)] ++ post)).
  Proof.
    intros G _ Hne Hal W1 W2 E.
    destruct (encode_c_inj_gen H sp _ _ G W1 W2 E) as (_ & _ & _ & _ & Ee & _).
    unfold fenv in Ee. simpl in Ee.
    destruct (fenv_one_entry _ _ _ _ _ Ee) as [A1 A2]; [congruence|]. simpl in A1, A2.
    destruct Hal as [Hal|Hal]; congruence.
  Qed.

  (* moves between lists: a 64-hex argument into the extra hashes; a variable's NAME=VALUE text into the arguments *)
  Theorem list_move_c sp r :
    spec_good sp ->
    (forall h, wf_c sp (set_args r (args r ++ [h])) = true -> wf_c sp (set_extra r (h :: extra r)) = true ->
               encode_c H sp (set_args r (args r ++ [h])) <> encode_c H sp (set_extra r (h :: extra r))) /\
    (forall pre post k v,
        env r = pre ++ [(k, v)] ++ post ->
        wf_c sp r = true -> wf_c sp (set_args (set_env r (pre ++ post)) (args r ++ [k ++ [61] ++ v])) = true ->
        encode_c H sp r <> encode_c H sp (set_args (set_env r (pre ++ post)) (args r ++ [k ++ [61] ++ v]))).
  Proof.
    intro G. split.
    - intros h W1 W2 E. destruct (encode_c_inj_gen H sp _ _ G W1 W2 E) as (_ & _ & _ & Ea & _).
      simpl in Ea. apply (f_equal (@length bytes)) in Ea. rewrite app_length in Ea. simpl in Ea. lia.
    - intros pre post k v _ W1 W2 E. destruct (encode_c_inj_gen H sp _ _ G W1 W2 E) as (_ & _ & _ & Ea & _).
      simpl in Ea. apply (f_equal (@length bytes)) in Ea. rewrite app_length in Ea. simpl in Ea. lia.
  Qed.

  (* --- preprocessor-level key *)
  Hypothesis H_hex : forall x, is_hex64 (H x) = true.

  (* from equal pre-images to equal components, given collision-freeness of H on the two inner inputs *)
  Lemma pp_components sp r1 r2 :
    spec_good sp -> wf_p sp r1 = true -> wf_p sp r2 = true ->
    (H (input r1) = H (input r2) -> input r1 = input r2) ->
    (H (time_pre r1) = H (time_pre r2) -> time_pre r1 = time_pre r2) ->
    encode_pp H sp r1 = encode_pp H sp r2 -> canon_p sp r1 = canon_p sp r2.
  Proof.
    intros G W1 W2 Hinj Hinj2 E.
    destruct (encode_pp_inj H H_hex sp r1 r2 G W1 W2 E) as (Ed & Eb & Et & Ea & Ex & Ee & Ep & Es & Ei & Etp).
    apply Hinj in Ei.
    destruct (wf_p_unpack _ _ W1) as (_ & _ & _ & _ & _ & _ & T1), (wf_p_unpack _ _ W2) as (_ & _ & _ & _ & _ & _ & T2).
    assert (Ev : salt_view r1 = salt_view r2).
    { apply salt_view_eq; try assumption. intro S. apply Hinj2. exact (Etp S). }
    unfold canon_p. congruence.
  Qed.

  Lemma canon_p_inv sp r1 r2 :
    canon_p sp r1 = canon_p sp r2 ->
    digest r1 = digest r2 /\ plusplus r1 = plusplus r2 /\ tag_of sp (lang r1) = tag_of sp (lang r2) /\
    args r1 = args r2 /\ extra r1 = extra r2 /\ fenv (allow_pp sp) r1 = fenv (allow_pp sp) r2 /\
    path r1 = path r2 /\ input r1 = input r2 /\ salt_view r1 = salt_view r2.
  Proof. unfold canon_p. intro E. inversion E. repeat split; assumption. Qed.

  Theorem single_change_p sp r1 r2 :
    spec_good sp -> wf_p sp r1 = true -> wf_p sp r2 = true ->
    (H (input r1) = H (input r2) -> input r1 = input r2) ->
    (H (time_pre r1) = H (time_pre r2) -> time_pre r1 = time_pre r2) ->
    one_differs_p sp r1 r2 -> encode_pp H sp r1 <> encode_pp H sp r2.
  Proof.
    intros G W1 W2 Hinj Hinj2 Hone E.
    pose proof (pp_components sp r1 r2 G W1 W2 Hinj Hinj2 E) as Ec. apply canon_p_inv in Ec.
    unfold one_differs_p in Hone. cbv zeta in Hone.
    destruct Hone as [Hd|[Hd|[Hd|[Hd|[Hd|[Hd|[Hd|[Hd|Hd]]]]]]]]; tauto.
  Qed.

  Theorem arch_list_covered_p sp flow r p1 p2 :
    spec_good sp -> flow = expected_flow_p ->
    pa_pre p1 = pa_pre p2 -> pa_common p1 = pa_common p2 -> pa_profile p1 = pa_profile p2 -> pa_cwd p1 = pa_cwd p2 ->
    wf_p sp (set_args r (hashed_args flow p1)) = true -> wf_p sp (set_args r (hashed_args flow p2)) = true ->
    encode_pp H sp (set_args r (hashed_args flow p1)) = encode_pp H sp (set_args r (hashed_args flow p2)) ->
    pa_arch p1 = pa_arch p2.
  Proof.
    intros G Ef Er Ec Ep Ew W1 W2 E. subst flow.
    destruct (encode_pp_inj H H_hex sp _ _ G W1 W2 E) as (_ & _ & _ & Ea & _). simpl in Ea.
    exact (flow_p_arch p1 p2 Er Ec Ep Ew Ea).
  Qed.

  (* two different spellings of the input (both resolved only against cwd) never share a preprocessor-level pre-image *)
  Theorem input_path_as_given sp m r cwd i1 i2 :
    spec_good sp -> m = AsGiven ->
    wf_p sp (set_path r (input_path_of m cwd i1)) = true -> wf_p sp (set_path r (input_path_of m cwd i2)) = true ->
    encode_pp H sp (set_path r (input_path_of m cwd i1)) = encode_pp H sp (set_path r (input_path_of m cwd i2)) ->
    input_path_of AsGiven cwd i1 = input_path_of AsGiven cwd i2.
  Proof.
    intros G Em W1 W2 E. subst m.
    destruct (encode_pp_inj H H_hex sp _ _ G W1 W2 E) as (_ & _ & _ & _ & _ & _ & Ep & _). exact Ep.
  Qed.

  Theorem boundary_shift_p sp r pre a b s post :
    spec_good sp -> s <> [] ->
    wf_p sp (set_args r (pre ++ [a ++ s; b] ++ post)) = true ->
    wf_p sp (set_args r (pre ++ [a; s ++ b] ++ post)) = true ->
    encode_pp H sp (set_args r (pre ++ [a ++ s; b] ++ post)) <> encode_pp H sp (set_args r (pre ++ [a; s ++ b] ++ post)).
  Proof.
    intros G Hs W1 W2 E.
    destruct (encode_pp_inj H H_hex sp _ _ G W1 W2 E) as (_ & _ & _ & Ea & _).
    simpl in Ea. apply app_inv_head in Ea. inversion Ea as [[E1 E2]].
    apply Hs. apply (app_inv_head a). rewrite app_nil_r. exact E1.
  Qed.

  Theorem name_value_shift_p sp r pre post k1 v1 k2 v2 :
    spec_good sp -> k1 ++ v1 = k2 ++ v2 -> k1 <> k2 ->
    allowed (allow_pp sp) k1 = true \/ allowed (allow_pp sp) k2 = true ->
    wf_p sp (set_env r (pre ++ [(k1, v1)] ++ post)) = true ->
    wf_p sp (set_env r (pre ++ [(k2, v2)] ++ post)) = true ->
    encode_pp H sp (set_env r (pre ++ [(k1, v1)] ++ post)) <> encode_pp H sp (set_env r (pre ++ [(k2, v2)] ++ post)).
  Proof.
    intros G _ Hne Hal W1 W2 E.
    destruct (encode_pp_inj H H_hex sp _ _ G W1 W2 E) as (_ & _ & _ & _ & _ & Ee & _).
    unfold fenv in Ee. simpl in Ee.
    destruct (fenv_one_entry _ _ _ _ _ Ee) as [A1 A2]; [congruence|]. simpl in A1, A2.
    destruct Hal as [Hal|Hal]; congruence.
  Qed.

  (* moves: argument <-> extra hash, last byte of the path <-> first byte of the input file *)
  Theorem list_move_p sp r :
    spec_good sp ->
    (forall h, wf_p sp (set_args r (args r ++ [h])) = true -> wf_p sp (set_extra r (h :: extra r)) = true ->
               encode_pp H sp (set_args r (args r ++ [h])) <> encode_pp H sp (set_extra r (h :: extra r))) /\
    (forall c rest, input r = c :: rest ->
               wf_p sp r = true -> wf_p sp (set_input (set_path r (path r ++ [c])) rest) = true ->
               encode_pp H sp r <> encode_pp H sp (set_input (set_path r (path r ++ [c])) rest)).
  Proof.
    intro G. split.
    - intros h W1 W2 E. destruct (encode_pp_inj H H_hex sp _ _ G W1 W2 E) as (_ & _ & _ & Ea & _).
      simpl in Ea. apply (f_equal (@length bytes)) in Ea. rewrite app_length in Ea. simpl in Ea. lia.
    - intros c rest _ W1 W2 E. destruct (encode_pp_inj H H_hex sp _ _ G W1 W2 E) as (_ & _ & _ & _ & _ & _ & Ep & _).
      simpl in Ep. apply app_self_nil in Ep. discriminate.
  Qed.

  Lemma canon_p_encode sp r1 r2 :
    shape_p sp = expected_shape_p -> canon_p sp r1 = canon_p sp r2 -> encode_pp H sp r1 = encode_pp H sp r2.
  Proof.
    intros Hs E. apply canon_p_inv in E. destruct E as (E1 & E2 & E3 & E4 & E5 & E6 & E7 & E8 & E9).
    unfold encode_pp, pieces_p. rewrite Hs. unfold expected_shape_p. cbn [flat_map comp_pieces].
    rewrite (salt_view_pieces r1 r2 E8 E9). rewrite E1, E2, E3, E4, E5, E6, E7. reflexivity.
  Qed.

  Theorem pp_key_iff sp r1 r2 :
    spec_good sp -> wf_p sp r1 = true -> wf_p sp r2 = true ->
    gated sp r1 = false -> gated sp r2 = false ->
    (H (encode_pp H sp r1) = H (encode_pp H sp r2) -> encode_pp H sp r1 = encode_pp H sp r2) ->
    (H (input r1) = H (input r2) -> input r1 = input r2) ->
    (H (time_pre r1) = H (time_pre r2) -> time_pre r1 = time_pre r2) ->
    (pp_key H sp r1 = pp_key H sp r2 <-> canon_p sp r1 = canon_p sp r2).
  Proof.
    intros G W1 W2 G1 G2 Hinj Hinj2 Hinj3. unfold pp_key. rewrite G1, G2. split.
    - intro E. inversion E as [E']. apply Hinj in E'.
      exact (pp_components sp r1 r2 G W1 W2 Hinj2 Hinj3 E').
    - intro E. destruct G as (_ & Hs & _). rewrite (canon_p_encode sp r1 r2 Hs E). reflexivity.
  Qed.

  (* S16 closed: equal preprocessor-level pre-images => the result key's view of the environment is equal too *)
  Theorem pp_env_covers_main sp r1 r2 :
    spec_good sp -> env_covers sp = true -> wf_p sp r1 = true -> wf_p sp r2 = true ->
    encode_pp H sp r1 = encode_pp H sp r2 ->
    fenv (allow_main sp) r1 = fenv (allow_main sp) r2.
  Proof.
    intros G Hc W1 W2 E.
    destruct (encode_pp_inj H H_hex sp r1 r2 G W1 W2 E) as (_ & _ & _ & _ & _ & Ee & _).
    exact (env_covers_main sp r1 r2 Hc Ee).
  Qed.
End Families.
