(* Proofs/Paths.v — lemmas and proofs about Model/Paths.v (property C19). *)
From Coq Require Import List NArith Bool Lia ZifyN ZifyBool Arith.
From Sccache Require Import Base.Sx Model.Paths.
Import ListNotations.
Local Open Scope N_scope.

Lemma SEP_neq_DOT : SEP <> DOT.
Proof. discriminate. Qed.

(* keep [c =? SEP] in the goals as it is written in the model *)
Local Opaque SEP DOT.

(* ------------------------------------------------------------------ names *)

(* a plain file name: what Component::Normal carries *)
Definition clean (n : name) : Prop :=
  n <> [] /\ ~ In SEP n /\ n <> [DOT] /\ n <> [DOT; DOT].

Lemma plain_name_clean n : plain_name n = true -> clean n.
Proof.
  unfold plain_name, clean, is_dot, is_dotdot. intro H.
  repeat (apply andb_true_iff in H; destruct H as [H ?]).
  repeat split.
  - intro E; subst. discriminate.
  - intro HI. apply negb_true_iff in H2.
    assert (existsb (N.eqb SEP) n = true) as E.
    { apply existsb_exists. exists SEP. split; [exact HI | apply N.eqb_refl]. }
    congruence.
  - intro E. apply negb_true_iff in H1. rewrite E in H1. discriminate.
  - intro E. apply negb_true_iff in H0. rewrite E in H0. discriminate.
Qed.

Lemma clean_plain_name n : clean n -> plain_name n = true.
Proof.
  intros (H1 & H2 & H3 & H4). unfold plain_name.
  repeat (apply andb_true_iff; split); apply negb_true_iff.
  - destruct (bytes_eqb n []) eqn:E; [|reflexivity]. apply bytes_eqb_eq in E. contradiction.
  - destruct (existsb (N.eqb SEP) n) eqn:E; [|reflexivity].
    apply existsb_exists in E as (x & Hx & Ex). apply N.eqb_eq in Ex. subst x. contradiction.
  - destruct (is_dot n) eqn:E; [|reflexivity]. apply bytes_eqb_eq in E. contradiction.
  - destruct (is_dotdot n) eqn:E; [|reflexivity]. apply bytes_eqb_eq in E. contradiction.
Qed.

(* ------------------------------------------------------------------ split *)

Lemma split_nonempty s : split s <> [].
Proof.
  destruct s as [|c r]; simpl; [discriminate|].
  destruct (c =? SEP); [discriminate|]. destruct (split r); discriminate.
Qed.

Lemma split_cons_nosep c r : c <> SEP ->
  exists seg rest, split r = seg :: rest /\ split (c :: r) = (c :: seg) :: rest.
Proof.
  intro Hc. simpl. destruct (N.eqb_spec c SEP) as [E|_]; [contradiction|].
  destruct (split r) as [|seg rest] eqn:E.
  - exfalso. eapply split_nonempty; eauto.
  - eauto.
Qed.

Lemma split_app_sep a b : split (a ++ SEP :: b) = split a ++ split b.
Proof.
  induction a as [|c a IH]; simpl.
  - rewrite N.eqb_refl. reflexivity.
  - destruct (N.eqb_spec c SEP) as [E|NE].
    + rewrite IH. reflexivity.
    + rewrite IH. destruct (split a) as [|seg rest] eqn:E.
      * exfalso. eapply split_nonempty; eauto.
      * reflexivity.
Qed.

Lemma split_nosep s : ~ In SEP s -> split s = [s].
Proof.
  induction s as [|c r IH]; intro H; simpl; [reflexivity|].
  destruct (N.eqb_spec c SEP) as [E|NE].
  - exfalso. apply H. left. auto.
  - rewrite IH; [reflexivity|]. intro HI. apply H. right. exact HI.
Qed.

Lemma split_segments_nosep s seg : In seg (split s) -> ~ In SEP seg.
Proof.
  revert seg. induction s as [|c r IH]; intros seg H; simpl in H.
  - destruct H as [<-|[]]. intros [].
  - destruct (N.eqb_spec c SEP) as [E|NE].
    + destruct H as [<-|H]; [intros []|]. apply IH; exact H.
    + destruct (split r) as [|s0 rest] eqn:E.
      * destruct H as [<-|[]]. intros [E1|[]]. congruence.
      * destruct H as [<-|H].
        -- intros [E1|HI]; [congruence|]. apply (IH s0); [left; reflexivity|exact HI].
        -- apply IH. right. exact H.
Qed.

(* ------------------------------------------------------------------ components *)

Lemma is_dot_true seg : is_dot seg = true -> seg = [DOT].
Proof. unfold is_dot. apply bytes_eqb_eq. Qed.

Lemma is_dotdot_true seg : is_dotdot seg = true -> seg = [DOT; DOT].
Proof. unfold is_dotdot. apply bytes_eqb_eq. Qed.

Lemma is_dot_false seg : seg <> [DOT] -> is_dot seg = false.
Proof.
  intro H. destruct (is_dot seg) eqn:E; [|reflexivity]. apply is_dot_true in E. contradiction.
Qed.

Lemma is_dotdot_false seg : seg <> [DOT; DOT] -> is_dotdot seg = false.
Proof.
  intro H. destruct (is_dotdot seg) eqn:E; [|reflexivity]. apply is_dotdot_true in E. contradiction.
Qed.

Lemma seg_comp_clean n : clean n -> seg_comp n = [CNormal n].
Proof.
  intros (Hne & _ & Hd & Hdd). unfold seg_comp.
  destruct n as [|c r]; [contradiction|].
  rewrite is_dot_false, is_dotdot_false; auto.
Qed.

Lemma seg_comp_normal seg n : In (CNormal n) (seg_comp seg) -> n = seg /\ seg <> [] /\ seg <> [DOT] /\ seg <> [DOT; DOT].
Proof.
  unfold seg_comp. destruct seg as [|c r]; [intros []|].
  destruct (is_dot (c :: r)) eqn:E1; [intros []|].
  destruct (is_dotdot (c :: r)) eqn:E2.
  - intros [H|[]]. discriminate.
  - intros [H|[]]. inversion H; subst. repeat split; try discriminate.
    + intro E. rewrite E in E1. discriminate.
    + intro E. rewrite E in E2. discriminate.
Qed.

Lemma body_normal_clean s n : In (CNormal n) (body s) -> clean n.
Proof.
  unfold body. intro H. apply in_flat_map in H as (seg & Hseg & Hn).
  apply seg_comp_normal in Hn as (-> & H1 & H2 & H3).
  repeat split; auto. eapply split_segments_nosep; eauto.
Qed.

Lemma front_no_normal s n : ~ In (CNormal n) (front s).
Proof.
  unfold front. destruct (has_root s).
  - intros [H|[]]. discriminate.
  - destruct (split s) as [|seg rest]; [intros []|].
    destruct (is_dot seg); [intros [H|[]]; discriminate | intros []].
Qed.

Lemma components_normal_clean s n : In (CNormal n) (components s) -> clean n.
Proof.
  unfold components. intro H. apply in_app_or in H as [H|H].
  - exfalso. eapply front_no_normal; eauto.
  - eapply body_normal_clean; eauto.
Qed.

Lemma has_root_app p q : p <> [] -> has_root (p ++ q) = has_root p.
Proof. destruct p; [contradiction|reflexivity]. Qed.

Lemma body_app_sep p q : body (p ++ SEP :: q) = body p ++ body q.
Proof. unfold body. rewrite split_app_sep, flat_map_app. reflexivity. Qed.

Lemma front_app_sep p q : p <> [] -> front (p ++ SEP :: q) = front p.
Proof.
  intro Hp. unfold front. rewrite has_root_app by exact Hp.
  rewrite split_app_sep. destruct (split p) as [|seg rest] eqn:E.
  - exfalso. eapply split_nonempty; eauto.
  - reflexivity.
Qed.

Lemma components_app_sep p q : p <> [] -> components (p ++ SEP :: q) = components p ++ body q.
Proof.
  intro Hp. unfold components. rewrite front_app_sep, body_app_sep by exact Hp.
  rewrite app_assoc. reflexivity.
Qed.

Lemma body_clean n : clean n -> body n = [CNormal n].
Proof.
  intro H. unfold body. rewrite split_nosep by apply H. simpl.
  rewrite seg_comp_clean by exact H. reflexivity.
Qed.

Lemma components_clean n : clean n -> components n = [CNormal n].
Proof.
  intro H. unfold components. rewrite body_clean by exact H.
  unfold front. destruct H as (Hne & Hs & Hd & Hdd).
  destruct n as [|c r]; [contradiction|]. simpl.
  destruct (N.eqb_spec c SEP) as [E|NE]; [exfalso; apply Hs; left; auto|].
  destruct (split_cons_nosep c r NE) as (seg & rest & E1 & E2). simpl in E2.
  destruct (N.eqb_spec c SEP); [contradiction|]. rewrite E2.
  assert (c :: seg = c :: r) as Eseg.
  { assert (split (c :: r) = [c :: r]) as Es by (apply split_nosep; exact Hs).
    simpl in Es. destruct (N.eqb_spec c SEP); [contradiction|]. rewrite E2 in Es. inversion Es. reflexivity. }
  rewrite Eseg. rewrite is_dot_false by exact Hd. reflexivity.
Qed.

Lemma clean_not_root n : clean n -> has_root n = false.
Proof.
  intros (Hne & Hs & _). destruct n as [|c r]; [reflexivity|]. simpl.
  destruct (N.eqb_spec c SEP) as [E|NE]; [exfalso; apply Hs; left; auto | reflexivity].
Qed.

Lemma components_sep_only : components [SEP] = [CRoot].
Proof. reflexivity. Qed.

Lemma components_sep_cons q : components (SEP :: q) = CRoot :: body q.
Proof.
  unfold components, front, body. cbn [has_root split]. rewrite N.eqb_refl. reflexivity.
Qed.

Lemma last_app_single {A} (l : list A) (x d : A) : last (l ++ [x]) d = x.
Proof. induction l as [|a l IH]; [reflexivity|]. simpl. destruct (l ++ [x]) eqn:E; [destruct l; discriminate|]. exact IH. Qed.

(* PathBuf::push of a plain name appends one Normal component *)
Lemma components_push_name p n : clean n -> components (push p n) = components p ++ [CNormal n].
Proof.
  intro Hn. unfold push. rewrite clean_not_root by exact Hn.
  unfold need_sep. destruct p as [|c0 p0] eqn:Ep.
  - simpl. rewrite components_clean by exact Hn. reflexivity.
  - rewrite <- Ep. assert (p <> []) as Hp by (subst; discriminate).
    destruct (N.eqb_spec (last p 0) SEP) as [E|NE]; simpl.
    + (* p ends with a separator *)
      destruct (exists_last Hp) as (p' & x & Ex). rewrite Ex in E. rewrite last_app_single in E. subst x.
      rewrite Ex. rewrite <- app_assoc. simpl.
      destruct p' as [|c1 p1] eqn:Ep'.
      * cbn [app]. rewrite components_sep_cons, components_sep_only.
        rewrite body_clean by exact Hn. reflexivity.
      * rewrite <- Ep'. assert (p' <> []) as Hp' by (subst; discriminate).
        rewrite (components_app_sep p' n Hp'), (components_app_sep p' [] Hp').
        rewrite body_clean by exact Hn.
        assert (body [] = []) as -> by reflexivity. rewrite app_nil_r. reflexivity.
    + rewrite components_app_sep by exact Hp. rewrite body_clean by exact Hn. reflexivity.
Qed.

Lemma components_fold_push ns : forall p, Forall clean ns ->
  components (fold_left push ns p) = components p ++ map CNormal ns.
Proof.
  induction ns as [|n ns IH]; intros p H; simpl.
  - rewrite app_nil_r. reflexivity.
  - inversion H; subst. rewrite IH by assumption. rewrite components_push_name by assumption.
    rewrite <- app_assoc. reflexivity.
Qed.

(* ------------------------------------------------------------------ resolve (no symlinks) *)

Lemma resolve_app st a b : resolve st (a ++ b) = resolve (resolve st a) b.
Proof. unfold resolve. apply fold_left_app. Qed.

Lemma resolve_normals ns : forall st, resolve st (map CNormal ns) = st ++ ns.
Proof.
  induction ns as [|n ns IH]; intro st; simpl.
  - rewrite app_nil_r. reflexivity.
  - unfold resolve in *. simpl. rewrite IH. rewrite <- app_assoc. reflexivity.
Qed.

Lemma is_prefix_app p l : is_prefix p (p ++ l) = true.
Proof. induction p as [|x p IH]; simpl; [reflexivity|]. rewrite bytes_eqb_refl. exact IH. Qed.

Lemma is_prefix_spec p l : is_prefix p l = true <-> exists r, l = p ++ r.
Proof.
  revert l. induction p as [|x p IH]; intro l; simpl.
  - split; [intros _; exists l; reflexivity | reflexivity].
  - destruct l as [|y l].
    + split; [discriminate | intros (r & H); discriminate].
    + split.
      * intro H. apply andb_true_iff in H as [H1 H2]. apply bytes_eqb_eq in H1. subst y.
        apply IH in H2 as (r & ->). exists r. reflexivity.
      * intros (r & H). inversion H; subst. rewrite bytes_eqb_refl. apply IH. exists r. reflexivity.
Qed.

Lemma removelast_rev {A} (l : list A) : removelast (rev l) = rev (tl l).
Proof.
  destruct l as [|x l]; [reflexivity|]. simpl. rewrite removelast_app by discriminate.
  simpl. rewrite app_nil_r. reflexivity.
Qed.

Lemma rstep_js_step st c : rstep (rev st) c = rev (js_step st c).
Proof. destruct c; simpl; auto using removelast_rev. Qed.

Lemma fold_js_step_resolve cs : forall st, rev (fold_left js_step cs st) = resolve (rev st) cs.
Proof.
  induction cs as [|c cs IH]; intro st; simpl; [reflexivity|].
  rewrite IH. unfold resolve. simpl. rewrite rstep_js_step. reflexivity.
Qed.

(* ------------------------------------------------------------------ walk (symlinks) *)

Lemma walk_nil lk b names : walk lk b [] names = Some names.
Proof. destruct b; reflexivity. Qed.

Lemma walk_root lk b rest names : walk lk b (CRoot :: rest) names = walk lk b rest [].
Proof. destruct b; reflexivity. Qed.

Lemma walk_cur lk b rest names : walk lk b (CCur :: rest) names = walk lk b rest names.
Proof. destruct b; reflexivity. Qed.

Lemma walk_up lk b rest names : walk lk b (CUp :: rest) names = walk lk b rest (tl names).
Proof. destruct b; reflexivity. Qed.

Lemma walk_normal lk b n rest names :
  walk lk b (CNormal n :: rest) names =
  match lk (rev (n :: names)) with
  | Some tgt => match b with O => None | S b' => walk lk b' (components tgt ++ rest) names end
  | None => walk lk b rest (n :: names)
  end.
Proof. destruct b; reflexivity. Qed.

(* without links the walk is the plain stack discipline *)
Lemma walk_no_links b cs : forall st, walk no_links b cs st = Some (fold_left js_step cs st).
Proof.
  induction cs as [|c cs IH]; intro st.
  - apply walk_nil.
  - destruct c; rewrite ?walk_root, ?walk_cur, ?walk_up, ?walk_normal; unfold no_links at 1; simpl; apply IH.
Qed.

(* [good lk st]: every name on the stack is a plain name and no directory on the way down is a symlink *)
Fixpoint good (lk : links) (st : list name) : Prop :=
  match st with
  | [] => True
  | n :: st' => lk (rev (n :: st')) = None /\ clean n /\ good lk st'
  end.

Lemma good_tl lk st : good lk st -> good lk (tl st).
Proof. destruct st; simpl; tauto. Qed.

Lemma walk_good lk : forall b todo names r,
  (forall n, In (CNormal n) todo -> clean n) -> good lk names ->
  walk lk b todo names = Some r -> good lk r.
Proof.
  induction b as [|b IHb].
  - induction todo as [|c rest IH]; intros names r Hc Hg H.
    + rewrite walk_nil in H. inversion H; subst. exact Hg.
    + assert (forall n, In (CNormal n) rest -> clean n) as Hr by (intros; apply Hc; right; assumption).
      destruct c.
      * rewrite walk_root in H. exact (IH [] r Hr I H).
      * rewrite walk_cur in H. exact (IH names r Hr Hg H).
      * rewrite walk_up in H. exact (IH (tl names) r Hr (good_tl _ _ Hg) H).
      * rewrite walk_normal in H. destruct (lk (rev (n :: names))) eqn:E; [discriminate|].
        refine (IH (n :: names) r Hr _ H). split; [exact E | split; [apply Hc; left; reflexivity | exact Hg]].
  - induction todo as [|c rest IH]; intros names r Hc Hg H.
    + rewrite walk_nil in H. inversion H; subst. exact Hg.
    + assert (forall n, In (CNormal n) rest -> clean n) as Hr by (intros; apply Hc; right; assumption).
      destruct c.
      * rewrite walk_root in H. exact (IH [] r Hr I H).
      * rewrite walk_cur in H. exact (IH names r Hr Hg H).
      * rewrite walk_up in H. exact (IH (tl names) r Hr (good_tl _ _ Hg) H).
      * rewrite walk_normal in H. destruct (lk (rev (n :: names))) eqn:E.
        -- eapply IHb; [| exact Hg | exact H].
           intros m Hm. apply in_app_or in Hm as [Hm|Hm]; [eapply components_normal_clean; eauto | auto].
        -- refine (IH (n :: names) r Hr _ H). split; [exact E | split; [apply Hc; left; reflexivity | exact Hg]].
Qed.

Lemma good_clean lk st : good lk st -> Forall clean st.
Proof. induction st; simpl; intro H; constructor; tauto. Qed.

Lemma good_firstn lk st : good lk st ->
  forall k, (1 <= k <= length st)%nat -> lk (firstn k (rev st)) = None.
Proof.
  induction st as [|n st IH]; intros Hg k Hk; simpl in *; [lia|].
  destruct Hg as (Hl & _ & Hg).
  destruct (Nat.eq_dec k (S (length st))) as [->|Hne].
  - rewrite firstn_all2; [exact Hl|]. rewrite app_length, rev_length. simpl. lia.
  - rewrite firstn_app. rewrite rev_length.
    replace (k - length st)%nat with 0%nat by lia. simpl. rewrite app_nil_r. apply IH; [exact Hg|lia].
Qed.

(* walking plain names none of which is a symlink follows nothing *)
Lemma walk_plain hl b ns : forall st,
  (forall k, (1 <= k <= length ns)%nat -> hl (rev st ++ firstn k ns) = None) ->
  walk hl b (map CNormal ns) st = Some (rev ns ++ st).
Proof.
  induction ns as [|n ns IH]; intros st H; simpl.
  - apply walk_nil.
  - rewrite walk_normal. simpl.
    assert (hl (rev st ++ [n]) = None) as E.
    { specialize (H 1%nat). simpl in H. apply H. lia. }
    rewrite E. rewrite IH.
    + rewrite <- app_assoc. reflexivity.
    + intros k Hk. simpl. rewrite <- app_assoc. simpl. apply (H (S k)). simpl. lia.
Qed.

(* ------------------------------------------------------------------ join_suffix *)

Lemma js_names_spec lk cs ns : js_names lk cs = Some ns ->
  (forall n, In (CNormal n) cs -> clean n) ->
  Forall clean ns /\ forall k, (1 <= k <= length ns)%nat -> lk (firstn k ns) = None.
Proof.
  unfold js_names. destruct (walk lk MAX_LINKS cs []) as [st|] eqn:E; [|discriminate].
  intros H Hc. inversion H; subst. clear H.
  assert (good lk st) as Hg by (eapply walk_good; eauto; exact I).
  split.
  - apply Forall_rev. eapply good_clean; eauto.
  - intros k Hk. rewrite rev_length in Hk. eapply good_firstn; eauto.
Qed.

(* The central fact: whatever the suffix and whatever symlinks exist below [path], join_suffix returns [path]
   followed by plain names, none of which (as a path below [path]) is a symlink. *)
Lemma join_suffix_spec lk path suffix p : join_suffix lk path suffix = Some p ->
  exists ns, components p = components path ++ map CNormal ns
             /\ Forall clean ns
             /\ forall k, (1 <= k <= length ns)%nat -> lk (firstn k ns) = None.
Proof.
  unfold join_suffix. destruct (js_names lk (components suffix)) as [ns|] eqn:E; [|discriminate].
  intro H. inversion H; subst. clear H.
  apply js_names_spec in E as [Hc Hl]; [|intros; eapply components_normal_clean; eauto].
  exists ns. repeat split; auto. apply components_fold_push. exact Hc.
Qed.

(* without symlinks join_suffix never fails *)
Lemma join_suffix_no_links path suffix : exists p, join_suffix no_links path suffix = Some p.
Proof.
  unfold join_suffix, js_names. rewrite walk_no_links. eauto.
Qed.

(* ------------------------------------------------------------------ push in general: join_c *)

Lemma components_nonempty p : p <> [] -> components p <> [].
Proof.
  intro Hp. destruct p as [|c r]; [contradiction|]. unfold components, front. cbn [has_root].
  destruct (N.eqb_spec c SEP) as [E|NE]; [discriminate|].
  destruct (split_cons_nosep c r NE) as (seg & rest & E1 & E2). rewrite E2.
  unfold body. rewrite E2. cbn [flat_map]. unfold seg_comp.
  destruct (is_dot (c :: seg)); [discriminate|].
  destruct (is_dotdot (c :: seg)); discriminate.
Qed.

Lemma seg_comp_no_cur seg : ~ In CCur (seg_comp seg).
Proof.
  unfold seg_comp. destruct seg; [intros []|]. destruct (is_dot _); [intros []|].
  destruct (is_dotdot _); intros [H|[]]; discriminate.
Qed.

Lemma seg_comp_no_root seg : ~ In CRoot (seg_comp seg).
Proof.
  unfold seg_comp. destruct seg; [intros []|]. destruct (is_dot _); [intros []|].
  destruct (is_dotdot _); intros [H|[]]; discriminate.
Qed.

Lemma body_no_cur s : ~ In CCur (body s).
Proof. unfold body. intro H. apply in_flat_map in H as (seg & _ & H). eapply seg_comp_no_cur; eauto. Qed.

Lemma body_no_root s : ~ In CRoot (body s).
Proof. unfold body. intro H. apply in_flat_map in H as (seg & _ & H). eapply seg_comp_no_root; eauto. Qed.

Lemma drop_cur_components q : has_root q = false -> drop_cur (components q) = body q.
Proof.
  intro H. unfold components, front. rewrite H.
  assert (drop_cur (body q) = body q) as Hb.
  { destruct (body q) as [|c l] eqn:Eb; [reflexivity|].
    destruct c; try reflexivity. exfalso. apply (body_no_cur q). rewrite Eb. left. reflexivity. }
  destruct (split q) as [|seg rest] eqn:E; [exact Hb|].
  destruct (is_dot seg); [reflexivity | exact Hb].
Qed.

Lemma components_rel_not_root q : has_root q = false ->
  match components q with CRoot :: _ => False | _ => True end.
Proof.
  intro H. unfold components, front. rewrite H.
  destruct (split q) as [|seg rest] eqn:E.
  - simpl. destruct (body q) as [|c l] eqn:Eb; [exact I|]. destruct c; try exact I.
    exfalso. apply (body_no_root q). rewrite Eb. left. reflexivity.
  - destruct (is_dot seg); [exact I|]. simpl.
    destruct (body q) as [|c l] eqn:Eb; [exact I|]. destruct c; try exact I.
    exfalso. apply (body_no_root q). rewrite Eb. left. reflexivity.
Qed.

Lemma components_abs q : has_root q = true -> exists l, components q = CRoot :: l.
Proof. intro H. unfold components, front. rewrite H. exists (body q). reflexivity. Qed.

(* Path::join on bytes agrees with the component-level join *)
Lemma components_push p q : components (push p q) = join_c (components p) (components q).
Proof.
  unfold push. destruct (has_root q) eqn:Hq.
  - destruct (components_abs q Hq) as (l & ->). reflexivity.
  - assert (join_c (components p) (components q)
            = match components p with [] => components q | _ => components p ++ body q end) as ->.
    { unfold join_c. pose proof (components_rel_not_root q Hq) as Hn.
      rewrite <- (drop_cur_components q Hq).
      destruct (components q) as [|c l]; [reflexivity|]. destruct c; try reflexivity. contradiction. }
    unfold need_sep. destruct p as [|c0 p0] eqn:Ep.
    + reflexivity.
    + rewrite <- Ep. assert (p <> []) as Hp by (subst; discriminate).
      pose proof (components_nonempty p Hp) as Hc.
      destruct (components p) as [|c1 l1] eqn:Ecp; [contradiction|]. rewrite <- Ecp.
      destruct (N.eqb_spec (last p 0) SEP) as [E|NE]; simpl.
      * destruct (exists_last Hp) as (p' & x & Ex). rewrite Ex in E. rewrite last_app_single in E. subst x.
        rewrite Ex. rewrite <- app_assoc. cbn [app].
        destruct p' as [|c2 p2] eqn:Ep'.
        -- cbn [app]. rewrite components_sep_cons, components_sep_only. reflexivity.
        -- rewrite <- Ep'. assert (p' <> []) as Hp' by (subst; discriminate).
           rewrite (components_app_sep p' q Hp'), (components_app_sep p' [] Hp').
           assert (body [] = []) as -> by reflexivity. rewrite app_nil_r. reflexivity.
      * apply components_app_sep. exact Hp.
Qed.

(* ------------------------------------------------------------------ ids, counters, directory names *)

Lemma SEP_val : SEP = 47. Proof. reflexivity. Qed.
Lemma DOT_val : DOT = 46. Proof. reflexivity. Qed.
Lemma DASH_val : DASH = 45. Proof. reflexivity. Qed.

Lemma is_lhex_range c : is_lhex c = true -> (48 <= c <= 57) \/ (97 <= c <= 102).
Proof.
  unfold is_lhex. intro H. apply orb_true_iff in H as [H|H]; apply andb_true_iff in H as [H1 H2];
    apply N.leb_le in H1; apply N.leb_le in H2; lia.
Qed.

Definition namechar (c : N) : Prop := c <> SEP /\ c <> DOT.

Lemma namechars_clean n : n <> [] -> Forall namechar n -> clean n.
Proof.
  intros Hne H. repeat split; auto.
  - intro HI. rewrite Forall_forall in H. apply H in HI. destruct HI as [HI _]. congruence.
  - intro E. subst n. inversion H; subst. destruct H2 as [_ H2]. congruence.
  - intro E. subst n. inversion H; subst. destruct H2 as [_ H2]. congruence.
Qed.

Lemma lhex_namechar c : is_lhex c = true -> namechar c.
Proof. intro H. apply is_lhex_range in H. unfold namechar. rewrite SEP_val, DOT_val. lia. Qed.

Lemma valid_id_hex id : valid_id id = true -> (2 <= length id)%nat /\ Forall (fun c => is_lhex c = true) id.
Proof.
  unfold valid_id. intro H. apply andb_true_iff in H as [H1 H2]. apply N.leb_le in H1.
  split; [lia|]. apply Forall_forall. apply forallb_forall. exact H2.
Qed.

Lemma valid_id_clean id : valid_id id = true -> clean id.
Proof.
  intro H. apply valid_id_hex in H as [Hl Hh]. apply namechars_clean.
  - destruct id; simpl in Hl; [lia|discriminate].
  - eapply Forall_impl; [|exact Hh]. apply lhex_namechar.
Qed.

Lemma rdec_digits f : forall n, Forall (fun c => 48 <= c <= 57) (rdec f n).
Proof.
  induction f as [|f IH]; intro n; cbn [rdec]; [constructor|].
  constructor.
  - assert (n mod 10 < 10) by (apply N.mod_lt; discriminate). lia.
  - destruct (n / 10 =? 0); [constructor | apply IH].
Qed.

Lemma dec_digits n : Forall (fun c => 48 <= c <= 57) (dec n).
Proof. unfold dec. apply Forall_rev. apply rdec_digits. Qed.

Lemma dec_nonempty n : dec n <> [].
Proof.
  unfold dec. cbn [rdec]. intro H. apply (f_equal (@rev N)) in H. rewrite rev_involutive in H. discriminate.
Qed.

Lemma build_name_clean id n : valid_id id = true -> clean (build_name id n).
Proof.
  intro H. apply valid_id_hex in H as [Hl Hh]. unfold build_name. apply namechars_clean.
  - destruct id; simpl in Hl; [lia|discriminate].
  - apply Forall_app. split.
    + eapply Forall_impl; [|exact Hh]. apply lhex_namechar.
    + constructor.
      * unfold namechar. rewrite SEP_val, DOT_val, DASH_val. lia.
      * eapply Forall_impl; [|apply dec_digits]. intros c Hc. cbv beta in Hc. unfold namechar. rewrite SEP_val, DOT_val. lia.
Qed.

Lemma s_toolchains_clean : clean s_toolchains. Proof. apply plain_name_clean. vm_compute. reflexivity. Qed.
Lemma s_builds_clean : clean s_builds. Proof. apply plain_name_clean. vm_compute. reflexivity. Qed.
Lemma s_work_clean : clean s_work. Proof. apply plain_name_clean. vm_compute. reflexivity. Qed.
Lemma s_upper_clean : clean s_upper. Proof. apply plain_name_clean. vm_compute. reflexivity. Qed.
Lemma s_target_clean : clean s_target. Proof. apply plain_name_clean. vm_compute. reflexivity. Qed.

Lemma toolchain_dir_components dir id : valid_id id = true ->
  components (toolchain_dir dir id) = components dir ++ [CNormal s_toolchains; CNormal id].
Proof.
  intro H. unfold toolchain_dir.
  rewrite components_push_name by (apply valid_id_clean; exact H).
  rewrite components_push_name by apply s_toolchains_clean.
  rewrite <- app_assoc. reflexivity.
Qed.

Lemma build_dir_components dir id n : valid_id id = true ->
  components (build_dir dir id n) = components dir ++ [CNormal s_builds; CNormal (build_name id n)].
Proof.
  intro H. unfold build_dir.
  rewrite components_push_name by (apply build_name_clean; exact H).
  rewrite components_push_name by apply s_builds_clean.
  rewrite <- app_assoc. reflexivity.
Qed.

Lemma build_sub_components dir id n x : valid_id id = true -> clean x ->
  components (push (build_dir dir id n) x)
  = components dir ++ [CNormal s_builds; CNormal (build_name id n); CNormal x].
Proof.
  intros H Hx. rewrite components_push_name by exact Hx. rewrite build_dir_components by exact H.
  rewrite <- app_assoc. reflexivity.
Qed.

(* ------------------------------------------------------------------ every path of a job *)

Lemma all_some_In {A} (l : list (option A)) r : all_some l = Some r -> forall x, In x r -> In (Some x) l.
Proof.
  revert r. induction l as [|o l IH]; intros r H x Hx; simpl in H.
  - inversion H; subst. destruct Hx.
  - destruct o as [a|]; [|discriminate]. destruct (all_some l) as [l'|] eqn:E; [|discriminate].
    inversion H; subst. destruct Hx as [->|Hx]; [left; reflexivity | right; eapply IH; eauto].
Qed.

Definition target_comps (dir id : bytes) (n : N) : list comp :=
  components dir ++ [CNormal s_builds; CNormal (build_name id n); CNormal s_target].

Definition under_target (lk : links) (dir id : bytes) (n : N) (p : bytes) : Prop :=
  exists ns, components p = target_comps dir id n ++ map CNormal ns
             /\ Forall clean ns
             /\ forall k, (1 <= k <= length ns)%nat -> lk (firstn k ns) = None.

Definition effect_ok (lk0 lk1 : links) (dir id : bytes) (n : N) (e : effect) : Prop :=
  match e with
  | Mkdir p =>
      components p = components dir ++ [CNormal s_toolchains; CNormal id]
      \/ components p = components dir ++ [CNormal s_builds; CNormal (build_name id n)]
      \/ exists x, In x [s_work; s_upper; s_target]
                   /\ components p = components dir ++ [CNormal s_builds; CNormal (build_name id n); CNormal x]
  | MkdirAll p => under_target lk0 dir id n p
  | Open p => under_target lk1 dir id n p
  end.

Lemma join_suffix_under_target lk dir id n suffix p : valid_id id = true ->
  join_suffix lk (push (build_dir dir id n) s_target) suffix = Some p -> under_target lk dir id n p.
Proof.
  intros Hv H. apply join_suffix_spec in H as (ns & Hc & Hcl & Hl).
  exists ns. repeat split; auto. rewrite Hc. unfold target_comps.
  rewrite build_sub_components by (auto using s_target_clean). reflexivity.
Qed.

Lemma job_effects_ok lk0 lk1 dir id n cwd outs effs : valid_id id = true ->
  job_effects lk0 lk1 dir id n cwd outs = Some effs -> Forall (effect_ok lk0 lk1 dir id n) effs.
Proof.
  intros Hv H. apply Forall_forall. intros e He. unfold job_effects in H.
  pose proof (all_some_In _ _ H e He) as Hin. clear H He.
  destruct Hin as [Hin|Hin]; [inversion Hin; subst; clear Hin|].
  2: destruct Hin as [Hin|Hin]; [inversion Hin; subst; clear Hin|].
  3: destruct Hin as [Hin|Hin]; [inversion Hin; subst; clear Hin|].
  4: destruct Hin as [Hin|Hin]; [inversion Hin; subst; clear Hin|].
  5: destruct Hin as [Hin|Hin]; [inversion Hin; subst; clear Hin|].
  6: destruct Hin as [Hin|Hin].
  - left. apply toolchain_dir_components. exact Hv.
  - right. left. apply build_dir_components. exact Hv.
  - right. right. exists s_work. split; [simpl; tauto|]. apply build_sub_components; auto using s_work_clean.
  - right. right. exists s_upper. split; [simpl; tauto|]. apply build_sub_components; auto using s_upper_clean.
  - right. right. exists s_target. split; [simpl; tauto|]. apply build_sub_components; auto using s_target_clean.
  - destruct (join_suffix lk0 (push (build_dir dir id n) s_target) cwd) as [p|] eqn:E; [|discriminate].
    simpl in Hin. inversion Hin; subst. simpl. eapply join_suffix_under_target; eauto.
  - cbn [app] in Hin. apply in_app_or in Hin as [Hin|Hin].
    + unfold output_dirs in Hin. apply in_flat_map in Hin as (o & _ & Hin).
      destruct (parent o) as [par|]; [|destruct Hin].
      destruct Hin as [Hin|[]].
      destruct (join_suffix lk0 (push (build_dir dir id n) s_target) (push cwd par)) as [p|] eqn:E; [|discriminate].
      simpl in Hin. inversion Hin; subst. simpl. eapply join_suffix_under_target; eauto.
    + unfold output_opens in Hin. apply in_map_iff in Hin as (o & Hin & _).
      destruct (join_suffix lk1 (push (build_dir dir id n) s_target) (push cwd o)) as [p|] eqn:E; [|discriminate].
      simpl in Hin. inversion Hin; subst. simpl. eapply join_suffix_under_target; eauto.
Qed.

Lemma is_prefix_app_same r a b : is_prefix (r ++ a) (r ++ b) = is_prefix a b.
Proof. induction r as [|x r IH]; simpl; [reflexivity|]. rewrite bytes_eqb_refl. exact IH. Qed.

Lemma resolve_dir_normals start dir ns :
  resolve start (components dir ++ map CNormal ns) = resolve start (components dir) ++ ns.
Proof. rewrite resolve_app, resolve_normals. reflexivity. Qed.

(* the statement pinned as C19_job_confined *)
Lemma job_confined lk0 lk1 dir id n cwd outs effs start e :
  job_paths lk0 lk1 dir id n cwd outs = JOk effs -> In e effs ->
  let r := resolve start (components dir) in
  let p := resolve start (components (effect_path e)) in
  let nm := build_name id n in
  valid_id id = true /\
  match e with
  | Mkdir _ => p = r ++ [s_toolchains; id] \/ p = r ++ [s_builds; nm] \/ p = r ++ [s_builds; nm; s_work]
               \/ p = r ++ [s_builds; nm; s_upper] \/ p = r ++ [s_builds; nm; s_target]
  | MkdirAll _ | Open _ =>
      is_prefix (r ++ [s_builds; nm; s_target]) p = true /\ is_prefix (r ++ [s_toolchains]) p = false
  end.
Proof.
  unfold job_paths. destruct (valid_id id) eqn:Hv; [|discriminate].
  destruct (job_effects lk0 lk1 dir id n cwd outs) as [effs'|] eqn:E; [|discriminate].
  intros H He. inversion H; subst. clear H.
  pose proof (job_effects_ok _ _ _ _ _ _ _ _ Hv E) as Hok. rewrite Forall_forall in Hok.
  specialize (Hok e He). split; [reflexivity|].
  assert (forall lk p, under_target lk dir id n p ->
            is_prefix (resolve start (components dir) ++ [s_builds; build_name id n; s_target])
                      (resolve start (components p)) = true
            /\ is_prefix (resolve start (components dir) ++ [s_toolchains]) (resolve start (components p)) = false) as Hu.
  { intros lk p (ns & Hc & _ & _). rewrite Hc. unfold target_comps.
    rewrite <- app_assoc.
    change ([CNormal s_builds; CNormal (build_name id n); CNormal s_target] ++ map CNormal ns)
      with (map CNormal ([s_builds; build_name id n; s_target] ++ ns)).
    rewrite resolve_dir_normals. split.
    - rewrite is_prefix_app_same. apply is_prefix_app.
    - rewrite is_prefix_app_same. reflexivity. }
  destruct e as [p|p|p]; simpl in *.
  - destruct Hok as [Hc|[Hc|(x & Hx & Hc)]]; rewrite Hc.
    + left. apply (resolve_dir_normals start dir [s_toolchains; id]).
    + right. left. apply (resolve_dir_normals start dir [s_builds; build_name id n]).
    + right. right.
      destruct Hx as [<-|[<-|[<-|[]]]].
      * left. apply (resolve_dir_normals start dir [s_builds; build_name id n; s_work]).
      * right. left. apply (resolve_dir_normals start dir [s_builds; build_name id n; s_upper]).
      * right. right. apply (resolve_dir_normals start dir [s_builds; build_name id n; s_target]).
  - eapply Hu. exact Hok.
  - eapply Hu. exact Hok.
Qed.

(* ------------------------------------------------------------------ the toolchain cache entry *)

Lemma hex_not_cont c : is_lhex c = true -> is_cont c = false.
Proof.
  intro H. apply is_lhex_range in H. unfold is_cont.
  destruct (128 <=? c) eqn:E; [apply N.leb_le in E; lia | reflexivity].
Qed.

Lemma single_hex_clean c : is_lhex c = true -> clean [c].
Proof. intro H. apply namechars_clean; [discriminate|]. constructor; [apply lhex_namechar; exact H | constructor]. Qed.

Lemma cache_file_spec root id : valid_id id = true ->
  exists b0 b1 rest p, id = b0 :: b1 :: rest /\ cache_file root id = Some p /\
    forall start, resolve start (components p) = resolve start (components root) ++ [[b0]; [b1]; id].
Proof.
  intro Hv. pose proof (valid_id_hex id Hv) as [Hl Hh].
  destruct id as [|b0 [|b1 rest]]; simpl in Hl; try lia.
  inversion Hh as [|? ? H0 Hh1]; subst. inversion Hh1 as [|? ? H1 Hh2]; subst.
  unfold cache_file. rewrite Hv. unfold lru_key.
  rewrite (hex_not_cont b1 H1).
  assert ((match rest with b2 :: _ => is_cont b2 | [] => false end) = false) as ->.
  { destruct rest as [|b2 r]; [reflexivity|]. inversion Hh2; subst. apply hex_not_cont. assumption. }
  eexists b0, b1, rest, _. split; [reflexivity|]. split; [reflexivity|].
  intro start. rewrite components_push.
  assert (components (push (push [b0] [b1]) (b0 :: b1 :: rest))
          = map CNormal [[b0]; [b1]; b0 :: b1 :: rest]) as Hk.
  { rewrite components_push_name by (apply valid_id_clean; exact Hv).
    rewrite components_push_name by (apply single_hex_clean; exact H1).
    rewrite components_clean by (apply single_hex_clean; exact H0). reflexivity. }
  rewrite Hk. unfold join_c. cbn [map].
  destruct (components root) as [|c l] eqn:Ec.
  - unfold resolve. simpl. rewrite <- !app_assoc. reflexivity.
  - cbn [drop_cur]. rewrite <- Ec.
    apply (resolve_dir_normals start root [[b0]; [b1]; b0 :: b1 :: rest]).
Qed.

(* ------------------------------------------------------------------ invalid ids are refused everywhere *)

Lemma invalid_refused id : valid_id id = false ->
  (forall lk0 lk1 dir n cwd outs, job_paths lk0 lk1 dir id n cwd outs = JBadId)
  /\ (forall root, cache_file root id = None)
  /\ (forall s j, assign s j id = (s, AErr))
  /\ (forall b c n, prepare b id c n = (b, None)).
Proof.
  intro H. repeat split; intros.
  - unfold job_paths. rewrite H. reflexivity.
  - unfold cache_file. rewrite H. reflexivity.
  - unfold assign. rewrite H. reflexivity.
  - unfold prepare. rewrite H. reflexivity.
Qed.

Lemma valid_id_plain id : valid_id id = true -> plain_name id = true /\ lru_key id <> None.
Proof.
  intro Hv. split; [apply clean_plain_name, valid_id_clean; exact Hv|].
  destruct (cache_file_spec [] id Hv) as (b0 & b1 & rest & p & _ & Hc & _).
  unfold cache_file in Hc. rewrite Hv in Hc. destruct (lru_key id); [discriminate|discriminate].
Qed.

(* ------------------------------------------------------------------ the build counter's rendering is injective *)

Fixpoint unrdec (l : bytes) : N :=
  match l with
  | [] => 0
  | d :: r => (d - 48) + 10 * unrdec r
  end.

Lemma unrdec_rdec f : forall n, n < 10 ^ N.of_nat f -> unrdec (rdec f n) = n.
Proof.
  induction f as [|f IH]; intros n Hn.
  - simpl in Hn. assert (n = 0) by lia. subst. reflexivity.
  - cbn [rdec unrdec].
    assert (n mod 10 < 10) as Hm by (apply N.mod_lt; discriminate).
    pose proof (N.div_mod n 10) as Hd.
    destruct (N.eqb_spec (n / 10) 0) as [E|NE].
    + cbn [unrdec]. rewrite E in Hd. lia.
    + rewrite IH; [lia|].
      apply N.div_lt_upper_bound; [discriminate|].
      rewrite Nat2N.inj_succ, N.pow_succ_r' in Hn. exact Hn.
Qed.

Lemma lt_pow10_log2 n : n < 10 ^ N.of_nat (S (N.to_nat (N.log2 n))).
Proof.
  rewrite Nat2N.inj_succ, N2Nat.id.
  destruct (N.eq_dec n 0) as [->|Hn]; [reflexivity|].
  assert (0 < n) as Hpos by lia.
  pose proof (N.log2_spec n Hpos) as [_ H].
  eapply N.lt_le_trans; [exact H|].
  apply N.pow_le_mono_l. lia.
Qed.

Lemma dec_inj n m : dec n = dec m -> n = m.
Proof.
  unfold dec. intro H. apply (f_equal (@rev N)) in H. rewrite !rev_involutive in H.
  rewrite <- (unrdec_rdec _ n (lt_pow10_log2 n)), <- (unrdec_rdec _ m (lt_pow10_log2 m)).
  rewrite H. reflexivity.
Qed.

Lemma app_dash_inj (a b c d : bytes) :
  ~ In DASH a -> ~ In DASH c -> a ++ DASH :: b = c ++ DASH :: d -> a = c /\ b = d.
Proof.
  revert c. induction a as [|x a IH]; intros c Ha Hc H.
  - destruct c as [|y c]; simpl in H.
    + inversion H. auto.
    + inversion H; subst. exfalso. apply Hc. left. reflexivity.
  - destruct c as [|y c]; simpl in H.
    + inversion H; subst. exfalso. apply Ha. left. reflexivity.
    + inversion H; subst. destruct (IH c) as [-> ->]; auto.
      * intro HI. apply Ha. right. exact HI.
      * intro HI. apply Hc. right. exact HI.
Qed.

Lemma valid_id_no_dash id : valid_id id = true -> ~ In DASH id.
Proof.
  intros Hv HI. apply valid_id_hex in Hv as [_ Hh]. rewrite Forall_forall in Hh.
  apply Hh in HI. apply is_lhex_range in HI. rewrite DASH_val in HI. lia.
Qed.

Lemma build_name_inj id n id' n' : valid_id id = true -> valid_id id' = true ->
  build_name id n = build_name id' n' -> id = id' /\ n = n'.
Proof.
  intros Hv Hv' H. unfold build_name in H.
  apply app_dash_inj in H as [-> Hd]; auto using valid_id_no_dash.
  split; [reflexivity | apply dec_inj; exact Hd].
Qed.

(* ------------------------------------------------------------------ build directories of live jobs *)

Lemma bmem_In k l : bmem k l = true <-> In k l.
Proof.
  induction l as [|x l IH]; simpl; [split; [discriminate|intros []]|].
  rewrite orb_true_iff, IH, bytes_eqb_eq. split; intros [H|H]; auto.
Qed.

Lemma bdel_In k x l : In x (bdel k l) -> In x l /\ x <> k.
Proof.
  induction l as [|y l IH]; simpl; [intros []|].
  destruct (bytes_eqb k y) eqn:E.
  - intro H. apply IH in H as [H1 H2]. auto.
  - intros [<-|H].
    + split; [left; reflexivity|]. intro Ey. subst. rewrite bytes_eqb_refl in E. discriminate.
    + apply IH in H as [H1 H2]. auto.
Qed.

Lemma bdel_NoDup k l : NoDup l -> NoDup (bdel k l).
Proof.
  induction 1 as [|x l Hx Hl IH]; simpl; [constructor|].
  destruct (bytes_eqb k x); [exact IH|]. constructor; [|exact IH].
  intro HI. apply bdel_In in HI as [HI _]. contradiction.
Qed.

(* prepare_overlay_dirs: what a successful call guarantees.  Freshness comes from THE GUARD (create_dir of the
   build directory fails when it exists): the counter alone does not give it, since it restarts at 1 whenever the
   builder has forgotten the toolchain. *)
Lemma prepare_spec b id ic n b' nm : prepare b id ic n = (b', Some nm) ->
  valid_id id = true
  /\ ~ In nm (live b)
  /\ live b' = nm :: live b
  /\ exists k, nm = build_name id k
               /\ (forall c, blookup id (dirmap b) = Some c -> In id (unpacked b) -> k = c + 1)
               /\ (blookup id (dirmap b) = None \/ ~ In id (unpacked b) -> k = 1).
Proof.
  unfold prepare. destruct (valid_id id) eqn:Hv; simpl; [|discriminate].
  destruct (blookup id (dirmap b)) as [c|] eqn:El.
  - destruct (bmem id (unpacked b)) eqn:Em.
    + (* known toolchain: the counter is incremented *)
      cbn [dirmap unpacked live].
      destruct (c + 1) as [|pc] eqn:Ec; [lia|]. rewrite <- Ec in *.
      destruct (bmem (build_name id (c + 1)) (live b)) eqn:Eb; [discriminate|].
      intro H. inversion H; subst. clear H. cbn [dirmap unpacked live].
      split; [reflexivity|]. split.
      { intro HI. apply bmem_In in HI. congruence. }
      split; [reflexivity|]. exists (c + 1). repeat split.
      * intros c' Hc' _. congruence.
      * intros [Hn|Hn]; [discriminate|]. exfalso. apply Hn. apply bmem_In. exact Em.
    + destruct ic; simpl; [|discriminate].
      destruct (prune n (bset id 1 (dirmap b)) (id :: unpacked b)) as [m u].
      cbn [dirmap unpacked live].
      destruct (bmem (build_name id 1) (live b)) eqn:Eb; [discriminate|].
      intro H. inversion H; subst. clear H. cbn [dirmap unpacked live].
      split; [reflexivity|]. split.
      { intro HI. apply bmem_In in HI. congruence. }
      split; [reflexivity|]. exists 1. repeat split.
      intros c' _ Hin. apply bmem_In in Hin. congruence.
  - destruct (bmem id (unpacked b)) eqn:Em; [discriminate|].
    destruct ic; simpl; [|discriminate].
    destruct (prune n (bset id 1 (dirmap b)) (id :: unpacked b)) as [m u].
    cbn [dirmap unpacked live].
    destruct (bmem (build_name id 1) (live b)) eqn:Eb; [discriminate|].
    intro H. inversion H; subst. clear H. cbn [dirmap unpacked live].
    split; [reflexivity|]. split.
    { intro HI. apply bmem_In in HI. congruence. }
    split; [reflexivity|]. exists 1. repeat split.
    intros c' Hc' _. discriminate.
Qed.

Lemma prepare_live b id ic n b' o : prepare b id ic n = (b', o) ->
  match o with Some nm => live b' = nm :: live b /\ ~ In nm (live b) | None => live b' = live b end.
Proof.
  destruct o as [nm|].
  - intro H. apply prepare_spec in H as (_ & H1 & H2 & _). auto.
  - unfold prepare. destruct (valid_id id); simpl; [|intro H; inversion H; reflexivity].
    destruct (blookup id (dirmap b)) as [c|].
    + destruct (bmem id (unpacked b)).
      * cbn [dirmap unpacked live]. destruct (c + 1) eqn:Ec; [lia|]. rewrite <- Ec.
        destruct (bmem (build_name id (c + 1)) (live b)); intro H; inversion H; reflexivity.
      * destruct ic; simpl.
        -- destruct (prune n (bset id 1 (dirmap b)) (id :: unpacked b)) as [m u].
           cbn [dirmap unpacked live]. destruct (bmem (build_name id 1) (live b)); intro H; inversion H; reflexivity.
        -- intro H; inversion H; reflexivity.
    + destruct (bmem id (unpacked b)); [intro H; inversion H; reflexivity|].
      destruct ic; simpl.
      * destruct (prune n (bset id 1 (dirmap b)) (id :: unpacked b)) as [m u].
        cbn [dirmap unpacked live]. destruct (bmem (build_name id 1) (live b)); intro H; inversion H; reflexivity.
      * intro H; inversion H; reflexivity.
Qed.

(* the guard at work: when the name the counter yields belongs to a live job, nothing is handed out *)
Lemma prepare_guard b id ic n b' o : prepare b id ic n = (b', o) ->
  forall k, In (build_name id k) (live b) ->
    (forall c, blookup id (dirmap b) = Some c -> In id (unpacked b) -> k = c + 1) ->
    (blookup id (dirmap b) = None \/ ~ In id (unpacked b) -> k = 1) ->
    o = None.
Proof.
  intros H k Hlive Hk1 Hk2. destruct o as [nm|]; [|reflexivity]. exfalso.
  apply prepare_spec in H as (Hv & Hn & _ & k' & -> & H1 & H2).
  assert (k' = k) as ->.
  { destruct (blookup id (dirmap b)) as [c|] eqn:El.
    - destruct (bmem id (unpacked b)) eqn:Em.
      + apply bmem_In in Em. rewrite (H1 c eq_refl Em), (Hk1 c eq_refl Em). reflexivity.
      + assert (~ In id (unpacked b)) as Hni by (intro HI; apply bmem_In in HI; congruence).
        rewrite H2, Hk2; auto.
    - rewrite H2, Hk2; auto. }
  contradiction.
Qed.

Lemma bstep_NoDup b o : NoDup (live b) -> NoDup (live (fst (bstep b o))).
Proof.
  intro H. destruct o as [id ic n|nm|id]; simpl.
  - destruct (prepare b id ic n) as [b' [nm|]] eqn:E; apply prepare_live in E; simpl.
    + destruct E as [-> Hn]. constructor; assumption.
    + rewrite E. exact H.
  - apply bdel_NoDup. exact H.
  - exact H.
Qed.

Lemma brun_NoDup ops : NoDup (live (brun ops)).
Proof.
  unfold brun. assert (forall b, NoDup (live b) -> NoDup (live (fold_left (fun b o => fst (bstep b o)) ops b))) as H.
  { induction ops as [|o ops IH]; intros b Hb; simpl; [exact Hb|]. apply IH. apply bstep_NoDup. exact Hb. }
  apply H. constructor.
Qed.

(* two different build directories: neither is inside the other *)
Lemma build_roots_disjoint r nm1 nm2 rest : nm1 <> nm2 ->
  is_prefix (r ++ [s_builds; nm1]) (r ++ [s_builds; nm2] ++ rest) = false.
Proof.
  intro H. rewrite is_prefix_app_same. cbn [is_prefix app]. rewrite bytes_eqb_refl.
  destruct (bytes_eqb nm1 nm2) eqn:E; [apply bytes_eqb_eq in E; contradiction | reflexivity].
Qed.

(* ------------------------------------------------------------------ the server only ever stores valid ids *)

Definition vid (id : bytes) : Prop := valid_id id = true.

Definition builder_ok (b : builder) : Prop :=
  Forall vid (unpacked b) /\ Forall (fun e => vid (fst e)) (dirmap b).

Definition srv_ok (s : server) : Prop :=
  Forall vid (cached s) /\ Forall (fun e => vid (snd e)) (jobs s) /\ builder_ok (bld s).

Lemma bremove_Forall (P : bytes * N -> Prop) k l : Forall P l -> Forall P (bremove k l).
Proof.
  induction 1 as [|[k' v] l Hx Hl IH]; simpl; [constructor|].
  destruct (bytes_eqb k k'); [exact IH | constructor; assumption].
Qed.

Lemma jremove_Forall (P : N * bytes -> Prop) j l : Forall P l -> Forall P (jremove j l).
Proof.
  induction 1 as [|[j' v] l Hx Hl IH]; simpl; [constructor|].
  destruct (j =? j'); [exact IH | constructor; assumption].
Qed.

Lemma jlookup_In j l id : jlookup j l = Some id -> In (j, id) l.
Proof.
  induction l as [|[j' v] l IH]; simpl; [discriminate|].
  destruct (N.eqb_spec j j') as [->|NE]; [intro H; inversion H; left; reflexivity | intro H; right; auto].
Qed.

Lemma bdel_Forall (P : bytes -> Prop) k l : Forall P l -> Forall P (bdel k l).
Proof.
  induction 1 as [|x l Hx Hl IH]; simpl; [constructor|].
  destruct (bytes_eqb k x); [exact IH | constructor; assumption].
Qed.

Lemma bupd_Forall (P : bytes * N -> Prop) k v l :
  (forall k' v', P (k', v') -> P (k', v)) -> Forall P l -> Forall P (bupd k v l).
Proof.
  intro HP. induction 1 as [|[k' v'] l Hx Hl IH]; simpl; [constructor|].
  destruct (bytes_eqb k k'); constructor; eauto.
Qed.

Lemma Forall_skipn {A} (P : A -> Prop) k : forall l, Forall P l -> Forall P (skipn k l).
Proof.
  induction k as [|k IH]; intros l H; simpl; [exact H|].
  destruct l; [constructor|]. inversion H; subst. apply IH. assumption.
Qed.

Lemma prune_ok n m u : Forall (fun e => vid (fst e)) m -> Forall vid u ->
  Forall (fun e => vid (fst e)) (fst (prune n m u)) /\ Forall vid (snd (prune n m u)).
Proof.
  intros Hm Hu. unfold prune. destruct (Nat.ltb n (length m)); cbn [fst snd]; [|split; assumption].
  split; [apply Forall_skipn; exact Hm|].
  generalize (firstn (Nat.div (length m) 2) m). intro l. revert u Hu.
  induction l as [|e l IH]; intros u Hu; simpl; [exact Hu|]. apply IH. apply bdel_Forall. exact Hu.
Qed.

Lemma prepare_ok b id ic n : builder_ok b -> builder_ok (fst (prepare b id ic n)).
Proof.
  intros [Hu Hd]. unfold prepare. destruct (valid_id id) eqn:Hv; simpl; [|split; assumption].
  assert (Forall (fun e => vid (fst e)) (bset id 1 (dirmap b))) as Hs1.
  { unfold bset. apply Forall_app. split; [apply bremove_Forall; exact Hd | constructor; [exact Hv | constructor]]. }
  assert (Forall vid (id :: unpacked b)) as Hu1 by (constructor; assumption).
  pose proof (prune_ok n _ _ Hs1 Hu1) as [Hp1 Hp2].
  destruct (blookup id (dirmap b)) as [c|].
  - destruct (bmem id (unpacked b)).
    + cbn [dirmap unpacked live]. destruct (c + 1) eqn:Ec; [lia|]. rewrite <- Ec.
      assert (Forall (fun e => vid (fst e)) (bupd id (c + 1) (dirmap b))) as Hs.
      { apply bupd_Forall; [intros k' v' H; exact H | exact Hd]. }
      destruct (bmem (build_name id (c + 1)) (live b)); simpl; split; assumption.
    + destruct ic; simpl.
      * destruct (prune n (bset id 1 (dirmap b)) (id :: unpacked b)) as [m u]. simpl in Hp1, Hp2.
        cbn [dirmap unpacked live].
        destruct (bmem (build_name id 1) (live b)); simpl; split; assumption.
      * split; assumption.
  - destruct (bmem id (unpacked b)); simpl; [split; assumption|].
    destruct ic; simpl.
    + destruct (prune n (bset id 1 (dirmap b)) (id :: unpacked b)) as [m u]. simpl in Hp1, Hp2.
      cbn [dirmap unpacked live].
      destruct (bmem (build_name id 1) (live b)); simpl; split; assumption.
    + split; assumption.
Qed.

Lemma firstn_Forall {A} (P : A -> Prop) k : forall l, Forall P l -> Forall P (firstn k l).
Proof.
  induction k as [|k IH]; intros l H; simpl; [constructor|].
  destruct l; [constructor|]. inversion H; subst. constructor; auto.
Qed.

Lemma assign_ok s j id : srv_ok s -> srv_ok (fst (assign s j id)).
Proof.
  intros (Hc & Hj & Hb). unfold assign.
  destruct (valid_id id) eqn:Hv; simpl; [|split; [|split]; assumption].
  split; [exact Hc|]. split; [constructor; assumption | exact Hb].
Qed.

Lemma submit_ok s j g : srv_ok s -> srv_ok (fst (submit s j g)).
Proof.
  intros (Hc & Hj & Hb). unfold submit.
  destruct (jlookup j (jobs s)) as [id|] eqn:E; simpl; [|split; [|split]; assumption].
  destruct (bmem id (cached s)); simpl; [split; [|split]; assumption|].
  destruct (valid_id id) eqn:Hv; simpl; [|split; [|split]; assumption].
  destruct (g =? 0); simpl; [split; [|split]; assumption|].
  split; [|split; assumption]. cbn [cached]. unfold cache_store.
  destruct (cap s =? 0); [constructor; assumption|]. apply firstn_Forall. constructor; assumption.
Qed.

Lemma finish_ok s nm : srv_ok s -> srv_ok (finish s nm).
Proof. intros (Hc & Hj & Hb). split; [exact Hc|]. split; [exact Hj|]. exact Hb. Qed.

Lemma with_held_ok s h : srv_ok s -> srv_ok (with_held s h).
Proof. intros (Hc & Hj & Hb). split; [exact Hc|]. split; [exact Hj|]. exact Hb. Qed.

Lemma run_begin_ok s j r : srv_ok s -> srv_ok (fst (run_begin s j r)).
Proof.
  intros (Hc & Hj & Hb). unfold run_begin.
  destruct (jlookup j (jobs s)) as [id|] eqn:E; simpl; [|split; [|split]; assumption].
  cbn [cached jobs bld with_jobs].
  pose proof (prepare_ok (bld s) id (bmem id (cached s)) (length (cached s)) Hb) as Hp.
  destruct (prepare (bld s) id (bmem id (cached s)) (length (cached s))) as [b' [nm|]] eqn:Ep; simpl in Hp.
  - assert (srv_ok (with_bld (with_jobs s (jremove j (jobs s))) b')) as Hok.
    { split; [exact Hc|]. split; [apply jremove_Forall; exact Hj|]. exact Hp. }
    destruct (negb (ovl_ok s)); [exact Hok|].
    destruct (fold_left unpack1 (r_inputs r) _); [|exact Hok].
    destruct (make_dirs _ _ _); [|exact Hok].
    destruct (_ || _); exact Hok.
  - split; [exact Hc|]. split; [apply jremove_Forall; exact Hj|]. exact Hp.
Qed.

Lemma run_ok s j r : srv_ok s -> srv_ok (fst (run s j r)).
Proof.
  intro H. unfold run. pose proof (run_begin_ok s j r H) as Hb.
  destruct (run_begin s j r) as [s' [| |nm|nm t1 t2]]; simpl in Hb; simpl; auto using finish_ok.
  destruct (collect t2 (r_cwd r) (r_outs r)); simpl; auto using finish_ok.
Qed.

Lemma assign_submit_ok s j r : srv_ok s -> srv_ok (fst (fst (assign_submit s j r))).
Proof.
  intro H. unfold assign_submit.
  pose proof (assign_ok s j (r_id r) H) as H1. destruct (assign s j (r_id r)) as [s1 a]. simpl in H1.
  destruct a; simpl; auto; pose proof (submit_ok s1 j (r_genuine r) H1) as H2;
    destruct (submit s1 j (r_genuine r)); exact H2.
Qed.

Lemma do_job_ok s j r : srv_ok s -> srv_ok (fst (do_job s j r)).
Proof.
  intro H. unfold do_job. pose proof (assign_submit_ok s j r H) as H2.
  destruct (assign_submit s j r) as [[s2 a] sb]. simpl in H2.
  destruct (r_run r); [|exact H2].
  pose proof (run_ok s2 j r H2) as H3. destruct (run s2 j r) as [s3 [[[rr tg] sn] outs]]. exact H3.
Qed.

Lemma do_start_ok s j k r : srv_ok s -> srv_ok (fst (do_start s j k r)).
Proof.
  intro H. unfold do_start. pose proof (assign_submit_ok s j r H) as H2.
  destruct (assign_submit s j r) as [[s2 a] sb]. simpl in H2.
  destruct (r_run r); [|exact H2].
  pose proof (run_begin_ok s2 j r H2) as Hb.
  destruct (run_begin s2 j r) as [s' [| |nm|nm t1 t2]]; simpl in Hb; simpl; auto using finish_ok, with_held_ok.
Qed.

Lemma do_release_ok s k : srv_ok s -> srv_ok (fst (do_release s k)).
Proof.
  intro H. unfold do_release. destruct (take_held k (held s)) as [[h rest]|]; [|exact H].
  destruct (collect _ _ _); simpl; auto using finish_ok, with_held_ok.
Qed.

Lemma do_ops_ok ops : forall s j, srv_ok s -> Forall (fun x => srv_ok (snd x)) (do_ops s j ops).
Proof.
  induction ops as [|o ops IH]; intros s j H; simpl; [constructor|].
  destruct o as [r|k r|k].
  - pose proof (do_job_ok s j r H) as H1. destruct (do_job s j r) as [s' ob]. simpl in H1.
    constructor; [exact H1 | apply IH; exact H1].
  - pose proof (do_start_ok s j k r H) as H1. destruct (do_start s j k r) as [s' ob]. simpl in H1.
    constructor; [exact H1 | apply IH; exact H1].
  - pose proof (do_release_ok s k H) as H1. destruct (do_release s k) as [s' ob]. simpl in H1.
    constructor; [exact H1 | apply IH; exact H1].
Qed.

Lemma server1_ok ok c : srv_ok (server1 ok c).
Proof. repeat split; constructor. Qed.

Lemma server0_ok c : srv_ok (server0 c).
Proof. apply server1_ok. Qed.

(* no overlay, no job: when the overlay cannot be mounted the job is refused before anything of it is unpacked,
   created or run - there is no other way to give a job a root *)
Lemma no_overlay_no_job s j r : ovl_ok s = false ->
  forall s' nm t1 t2, run_begin s j r <> (s', BRunning nm t1 t2).
Proof.
  intros Ho s' nm t1 t2. unfold run_begin.
  destruct (jlookup j (jobs s)); [|discriminate].
  destruct (prepare _ _ _ _) as [b' [nm'|]]; [|discriminate].
  cbn [ovl_ok with_jobs]. rewrite Ho. discriminate.
Qed.

(* ---- the launcher *)
Lemma launcher_env_independent senv t c env exe args t' c' env' exe' args' :
  l_env (spawn_launcher senv t c env exe args) = l_env (spawn_launcher senv t' c' env' exe' args') /\
  l_env (spawn_launcher senv t c env exe args) = senv.
Proof. split; reflexivity. Qed.

Lemma in_flat_setenv (l : list (bytes * bytes)) k v : In (k, v) l ->
  exists pre post, flat_map (fun e => [s_setenv; fst e; snd e]) l = pre ++ [s_setenv; k; v] ++ post.
Proof.
  induction l as [|e l IH]; intro H; [destruct H|].
  destruct H as [->|H].
  - exists [], (flat_map (fun e => [s_setenv; fst e; snd e]) l). reflexivity.
  - destruct (IH H) as (p1 & p2 & E). exists ([s_setenv; fst e; snd e] ++ p1), p2.
    cbn [flat_map]. rewrite E. rewrite <- !app_assoc. reflexivity.
Qed.

Lemma client_env_after_setenv t c env k v : In (k, v) (client_env env) ->
  exists pre post, bwrap_argv t c env = pre ++ [s_setenv; k; v] ++ post.
Proof.
  intro H. destruct (in_flat_setenv _ _ _ H) as (p1 & p2 & E). unfold bwrap_argv. rewrite E.
  match goal with |- exists pre post, ?hd ++ _ ++ ?tl = _ => generalize hd, tl end.
  intros hd tl. exists (hd ++ p1), (p2 ++ tl).
  repeat rewrite <- app_assoc. reflexivity.
Qed.

(* a job root handed to a job is builds/<valid id>-<k>/target, and no job that is still running has it *)
Lemma run_begin_fresh s j r s' nm t1 t2 : run_begin s j r = (s', BRunning nm t1 t2) ->
  (exists id k, valid_id id = true /\ nm = build_name id k)
  /\ ~ In nm (live (bld s)) /\ live (bld s') = nm :: live (bld s).
Proof.
  unfold run_begin. destruct (jlookup j (jobs s)) as [id|] eqn:E; [|discriminate].
  cbn [cached jobs bld with_jobs].
  destruct (prepare (bld s) id (bmem id (cached s)) (length (cached s))) as [b' [nm'|]] eqn:Ep; [|discriminate].
  apply prepare_spec in Ep as (Hv & Hn & Hl & k & -> & _).
  destruct (negb (ovl_ok s)); [discriminate|].
  destruct (fold_left unpack1 (r_inputs r) _); [|discriminate].
  destruct (make_dirs _ _ _); [|discriminate].
  destruct (_ || _); [discriminate|].
  intro H. inversion H; subst. cbn [bld with_bld with_jobs]. eauto 6.
Qed.

(* what a job finds in its root and what is returned for it depend on its own request and its toolchain only,
   not on the server's history (under the overlay assumption built into the model: every job starts from the
   unpacked toolchain) *)
Lemma run_view_independent s j s' j' r id id' s1 rr tg sn outs s1' rr' tg' sn' outs' :
  jlookup j (jobs s) = Some id -> jlookup j' (jobs s') = Some id' -> kind_of s id = kind_of s' id' ->
  run s j r = (s1, (rr, Some tg, sn, outs)) ->
  run s' j' r = (s1', (rr', Some tg', sn', outs')) ->
  rr = rr' /\ sn = sn' /\ outs = outs'.
Proof.
  intros E E' Hk. unfold run, run_begin. rewrite E, E'.
  unfold kind_of in *. cbn [cached jobs bld with_jobs kinds].
  rewrite Hk.
  destruct (prepare (bld s) id _ _) as [b1 [nm|]]; [|discriminate].
  destruct (prepare (bld s') id' _ _) as [b1' [nm'|]]; [|discriminate].
  destruct (negb (ovl_ok s)); [discriminate|].
  destruct (negb (ovl_ok s')); [discriminate|].
  destruct (fold_left unpack1 (r_inputs r) _) as [t0|]; [|discriminate].
  destruct (make_dirs t0 (r_cwd r) (r_outs r)) as [t1|]; [|discriminate].
  destruct (_ || _); [discriminate|].
  destruct (collect _ (r_cwd r) (r_outs r)) as [o|]; intros H H'; inversion H; inversion H'; subst; auto.
Qed.

(* ------------------------------------------------------------------ the statements pinned in Properties/C19.v *)

Lemma Forall_clean_forallb ns : Forall clean ns -> forallb plain_name ns = true.
Proof.
  intro H. apply forallb_forall. intros n Hn. rewrite Forall_forall in H. apply clean_plain_name. auto.
Qed.

Lemma join_suffix_confined lk root suffix p start : join_suffix lk root suffix = Some p ->
  exists ns,
    resolve start (components p) = resolve start (components root) ++ ns
    /\ is_prefix (resolve start (components root)) (resolve start (components p)) = true
    /\ forallb plain_name ns = true
    /\ (forall k, (1 <= k <= length ns)%nat -> lk (firstn k ns) = None).
Proof.
  intro H. apply join_suffix_spec in H as (ns & Hc & Hcl & Hl). exists ns.
  assert (resolve start (components p) = resolve start (components root) ++ ns) as E.
  { rewrite Hc. apply resolve_dir_normals. }
  repeat split; auto.
  - rewrite E. apply is_prefix_app.
  - apply Forall_clean_forallb. exact Hcl.
Qed.

Lemma no_symlink_followed (hl : links) (R : list name) root suffix p b :
  join_suffix (fun q => hl (R ++ q)) root suffix = Some p ->
  exists ns, components p = components root ++ map CNormal ns
             /\ walk hl b (map CNormal ns) (rev R) = Some (rev (R ++ ns)).
Proof.
  intro H. apply join_suffix_spec in H as (ns & Hc & _ & Hl). exists ns. split; [exact Hc|].
  rewrite walk_plain.
  - rewrite rev_app_distr. reflexivity.
  - intros k Hk. rewrite rev_involutive. apply Hl. exact Hk.
Qed.

Lemma toolchain_untouched lk0 lk1 dir id n cwd outs effs start e :
  job_paths lk0 lk1 dir id n cwd outs = JOk effs -> In e effs ->
  match e with
  | Mkdir _ => True
  | MkdirAll p | Open p =>
      is_prefix (resolve start (components dir) ++ [s_toolchains]) (resolve start (components p)) = false
  end.
Proof.
  intros H He. pose proof (job_confined lk0 lk1 dir id n cwd outs effs start e H He) as [_ Hj].
  destruct e; [exact I | apply Hj | apply Hj].
Qed.
