(* Proofs about Model/DiskConfig.v (effective disk-cache configuration) and its tie to the
   read-only DiskCache of Model/RoCache.v, for property C15. *)
From Coq Require Import List NArith Bool.
From Sccache Require Import Base.Sx Model.Lru Model.RoCache Model.DiskConfig Proofs.RoCache.
Import ListNotations.
Local Open Scope N_scope.

Lemma effective_inv e f cfg :
  effective e f = Some cfg ->
  exists direct, env_direct e = Some direct /\
    c_dir cfg = match e_dir e with Some d => Some d | None => c_dir (file_cfg f) end /\
    c_size cfg = or_default (env_size e) (c_size (file_cfg f)) /\
    c_pp cfg = match direct with Some b => set_use (c_pp (file_cfg f)) b | None => c_pp (file_cfg f) end /\
    c_mode cfg = or_default (env_mode e) (c_mode (file_cfg f)).
Proof.
  unfold effective. destruct (env_direct e) as [direct|]; [|discriminate].
  intros H. inversion H; subst; clear H. exists direct. simpl. repeat split; reflexivity.
Qed.

(* the effective mode is read-only whenever either source says so and the environment does not
   explicitly say READ_WRITE *)
Theorem mode_effective : forall e f cfg,
  effective e f = Some cfg ->
  (file_mode f = ReadOnly \/ env_mode e = Some ReadOnly) ->
  env_mode e <> Some ReadWrite ->
  c_mode cfg = ReadOnly.
Proof.
  intros e f cfg H Hro Hnrw. apply effective_inv in H as (direct & _ & _ & _ & _ & Hm).
  rewrite Hm. unfold file_mode in Hro.
  destruct (env_mode e) as [[|]|]; simpl; try reflexivity.
  - congruence.
  - destruct Hro as [Hf|Hf]; [exact Hf | discriminate].
Qed.

(* every variable overrides its own setting and nothing else; loading fails only on an invalid
   SCCACHE_DIRECT *)
Theorem env_overrides_own_key_only : forall e f,
  (effective e f = None <-> env_direct e = None) /\
  forall cfg, effective e f = Some cfg ->
    c_dir cfg = match e_dir e with Some d => Some d | None => c_dir (file_cfg f) end /\
    c_size cfg = match env_size e with Some n => n | None => c_size (file_cfg f) end /\
    c_mode cfg = match env_mode e with Some m => m | None => c_mode (file_cfg f) end /\
    pp_use (c_pp cfg) = match env_direct e with Some (Some b) => b | _ => pp_use (c_pp (file_cfg f)) end /\
    pp_stat (c_pp cfg) = pp_stat (c_pp (file_cfg f)) /\
    pp_ctime (c_pp cfg) = pp_ctime (c_pp (file_cfg f)) /\
    pp_ignore_time (c_pp cfg) = pp_ignore_time (c_pp (file_cfg f)) /\
    pp_skip_sys (c_pp cfg) = pp_skip_sys (c_pp (file_cfg f)) /\
    pp_hash_wd (c_pp cfg) = pp_hash_wd (c_pp (file_cfg f)).
Proof.
  intros e f. split.
  - unfold effective. destruct (env_direct e); split; intros H; try discriminate; reflexivity.
  - intros cfg H. apply effective_inv in H as (direct & Hd & H1 & H2 & H3 & H4).
    rewrite H1, H2, H3, H4, Hd. unfold or_default.
    destruct direct as [b|]; simpl; repeat split; reflexivity.
Qed.

(* the DiskCache the server builds from a configuration (storage_from_config + start_server) *)
Definition server_cache (cfg : diskcfg) (psz : N) (l : fmap) (cs : list (key * N)) (ds : dset) (clk0 : N) : dc :=
  start (negb (is_ro (c_mode cfg))) (c_size cfg) psz l cs ds clk0.

(* configurations x histories: however read-only mode was configured, no history of requests and
   restarts (with the same kind of configuration) changes the directory *)
Theorem configured_read_only_frozen : forall e f cfg psz l cs ds clk0 items,
  effective e f = Some cfg ->
  (file_mode f = ReadOnly \/ env_mode e = Some ReadOnly) ->
  env_mode e <> Some ReadWrite ->
  forallb ro_item items = true ->
  let d0 := server_cache cfg psz l cs ds clk0 in
  (forall p, entry (run_items d0 items) p = entry d0 p) /\ dirs (run_items d0 items) = dirs d0.
Proof.
  intros e f cfg psz l cs ds clk0 items H Hro Hnrw Hit d0.
  apply frozen_items; [|exact Hit].
  unfold d0, server_cache, start. simpl. rewrite (mode_effective e f cfg H Hro Hnrw). reflexivity.
Qed.
