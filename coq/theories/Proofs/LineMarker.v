(* Proofs/LineMarker.v — the line-marker scan sees every marker of a well-formed preprocessor output. *)
From Coq Require Import List NArith Bool Arith Lia.
From Sccache Require Import Base.Sx Gen.C04Consts Model.PpPaths Model.TimeMacro Model.PpCache Model.LineMarker
     Proofs.TimeMacro Proofs.PpCache.
Import ListNotations.
Local Open Scope N_scope.

(* ---------------- the shape of a preprocessor output ---------------- *)
Inductive line :=
| LMarker (ds p fl : bytes)     (* # <ds> "<p>"<fl>\n *)
| LBody (b : bytes).            (* <b>\n *)

Definition render_line (l : line) : bytes :=
  match l with
  | LMarker ds p fl => 35 :: 32 :: ds ++ 32 :: 34 :: p ++ 34 :: fl ++ [10]
  | LBody b => b ++ [10]
  end.

Definition render_lines (ls : list line) : bytes := concat (map render_line ls).

Definition no_byte (c : N) (b : bytes) : bool := forallb (fun x => negb (N.eqb x c)) b.

Definition flag_byte (c : N) : bool := is_digit c || N.eqb c 32.

Definition wf_line (l : line) : bool :=
  match l with
  | LMarker ds p fl =>
      match ds with
      | d :: _ => negb (N.eqb d 51) && forallb is_digit ds     (* line numbers 3x are the GCC-6 special cases *)
      | [] => false
      end && nonempty p && no_byte 34 p && no_byte 10 p && forallb flag_byte fl
  | LBody b =>
      no_byte 10 b && negb (N.eqb (hd 0 b) 35) && negb (N.eqb (hd 0 b) 95)
      && negb (containsb INCBIN_DIRECTIVE b)
  end.

(* ---------------- helpers ---------------- *)
Ltac lnorm := repeat (first [rewrite <- app_assoc | rewrite <- app_comm_cons]); cbn [app].

Definition bolb (prev : option N) : bool := match prev with None => true | Some c => N.eqb c b_nl end.
Definition last_of (seg : bytes) (prev : option N) : option N := fold_left (fun _ c => Some c) seg prev.

Lemma take_until_app stop a x r :
  forallb (fun c => negb (stop c)) a = true -> stop x = true -> take_until stop (a ++ x :: r) = (a, x :: r).
Proof.
  induction a as [|c a IH]; simpl; intros Ha Hx.
  - rewrite Hx. reflexivity.
  - apply andb_true_iff in Ha as [Hc Ha]. apply negb_true_iff in Hc. rewrite Hc, (IH Ha Hx). reflexivity.
Qed.

Lemma last_byte_last_of consumed prev : last_byte consumed prev = last_of consumed prev.
Proof.
  unfold last_byte, last_of. revert prev. induction consumed as [|c cs IH] using rev_ind; intros prev; [reflexivity|].
  rewrite rev_app_distr, fold_left_app. reflexivity.
Qed.

Lemma last_of_app a b prev : last_of (a ++ b) prev = last_of b (last_of a prev).
Proof. unfold last_of. apply fold_left_app. Qed.

Lemma prefixb_nl p x y :
  no_byte 10 p = true -> prefixb p (x ++ 10 :: y) = true -> is_prefix p x.
Proof.
  revert x; induction p as [|c p IH]; intros x Hn Hp.
  - exists x. reflexivity.
  - simpl in Hn. apply andb_true_iff in Hn as [Hc Hn]. destruct x as [|d x]; simpl in Hp.
    + apply andb_true_iff in Hp as [Hcd _]. apply N.eqb_eq in Hcd. subst c. discriminate.
    + apply andb_true_iff in Hp as [Hcd Hp]. apply N.eqb_eq in Hcd. subst d.
      destruct (IH x Hn Hp) as [post ->]. exists post. reflexivity.
Qed.

Section Scan.
Variable D : Type.
Variable H : bytes -> D.
Variable HT : option bytes -> option N -> D.
Variable cfg : config.
Variable fs : fsnap.
Variable start : N.
Variable date : bytes.
Variable input : path.
Variable cwd : bytes.

Local Notation scan := (scan D H HT cfg fs start date input cwd).
Local Notation process_line := (process_line D H HT cfg fs start date input cwd).
Local Notation incl := (list (path * idigest D)).

(* what the scan does with one marker: exactly the recorder call *)
Definition marker_step (p fl : bytes) (inc : incl) : option incl :=
  let pn := normalized_include_path p in
  if is_angle pn then Some inc
  else remember_include_file D H HT cfg fs start date input inc (resolve cwd pn) (existsb (fun c => N.eqb c 51) fl).

Fixpoint fold_lines (ls : list line) (inc : incl) : option incl :=
  match ls with
  | [] => Some inc
  | LBody _ :: r => fold_lines r inc
  | LMarker _ p fl :: r =>
      match marker_step p fl inc with
      | Some inc' => fold_lines r inc'
      | None => None
      end
  end.

(* a marker whose path does not resolve to the input file (however much it looks like it: "x.c" when the input is
   sub/x.c) and names a regular file is recorded *)
Theorem marker_recorded (p fl : bytes) (inc inc' : incl) (nd : node) :
  marker_step p fl inc = Some inc' ->
  is_angle (normalized_include_path p) = false ->
  is_angle (resolve cwd (normalized_include_path p)) = false ->
  (existsb (fun c => N.eqb c 51) fl && skip_system_headers cfg) = false ->
  bytes_eqb (resolve cwd (normalized_include_path p)) input = false ->
  fs_get fs (resolve cwd (normalized_include_path p)) = Some nd -> n_kind nd = KFile ->
  inc_mem D (resolve cwd (normalized_include_path p)) inc' = true.
Proof.
  intros Hstep Ha Haq Hsys Hin Hg Hk. unfold marker_step in Hstep. cbv zeta in Hstep. rewrite Ha in Hstep.
  pose proof (Proofs.PpCache.remember_one D H HT cfg fs start date input inc
                (resolve cwd (normalized_include_path p)) (existsb (fun c => N.eqb c 51) fl)) as R.
  rewrite Hstep in R. destruct R as [_ [Hmem _]].
  apply (Hmem (conj Haq (conj Hsys Hin)) nd). split; assumption.
Qed.

Lemma scan_unfold fuel n prev rest out inc :
  scan (S fuel) n prev rest out inc =
  if Nat.leb n 7 then LmOk D inc (rev out ++ rest)
  else
    if marker_start rest && bolb prev then
      match process_line rest inc with
      | PLContinue _ consumed rest' inc' =>
          scan fuel (n - length consumed)%nat (last_byte consumed prev) rest' (rev consumed ++ out) inc'
      | PLDisabled _ => LmDisabled D
      | PLErr _ => LmErr D
      end
    else if incbin_start rest then LmDisabled D
    else if prefixb UNDERSCORES rest && bolb prev then
      let '(a, r1) := take_until (fun c => N.eqb c b_nl) rest in
      match r1 with
      | [] => scan fuel 0%nat (last_byte a prev) [] (rev a ++ out) inc
      | c :: r2 => scan fuel (n - length a - 1)%nat (Some c) r2 (c :: rev a ++ out) inc
      end
    else
      match rest with
      | c :: r => scan fuel (n - 1)%nat (Some c) r (c :: out) inc
      | [] => LmOk D inc (rev out)
      end.
Proof. reflexivity. Qed.

(* positions at which the scan just moves on *)
Fixpoint inert (prev : option N) (seg more : bytes) : Prop :=
  match seg with
  | [] => True
  | c :: seg' =>
      (marker_start (seg ++ more) && bolb prev) = false /\
      incbin_start (seg ++ more) = false /\
      (prefixb UNDERSCORES (seg ++ more) && bolb prev) = false /\
      inert (Some c) seg' more
  end.

Lemma scan_inert seg : forall more prev out inc fuel n,
  n = length (seg ++ more) -> (n < fuel)%nat -> inert prev seg more ->
  scan fuel n prev (seg ++ more) out inc =
  scan (fuel - length seg) (n - length seg) (last_of seg prev) more (rev seg ++ out) inc.
Proof.
  induction seg as [|c seg IH]; intros more prev out inc fuel n Hn Hfuel Hin.
  - simpl. rewrite !Nat.sub_0_r. reflexivity.
  - destruct fuel as [|fuel]; [lia|].
    destruct Hin as [Hm [Hi [Hu Hin]]].
    rewrite scan_unfold. simpl length in *. rewrite app_length in Hn.
    destruct (Nat.leb n 7) eqn:Hcut.
    + apply Nat.leb_le in Hcut.
      replace (S fuel - S (length seg))%nat with (S (fuel - S (length seg))) by lia.
      rewrite scan_unfold.
      replace (Nat.leb (n - S (length seg)) 7) with true by (symmetry; apply Nat.leb_le; lia).
      rewrite rev_app_distr, rev_involutive. rewrite <- app_assoc. reflexivity.
    + rewrite Hm, Hi, Hu. cbn [app].
      rewrite (IH more (Some c) (c :: out) inc fuel (n - 1)%nat); [| rewrite app_length; lia | lia | exact Hin].
      replace (S fuel - S (length seg))%nat with (fuel - length seg)%nat by lia.
      replace (n - 1 - length seg)%nat with (n - S (length seg))%nat by lia.
      cbn [last_of fold_left rev]. rewrite <- app_assoc. reflexivity.
Qed.

(* ---- bodies and flag tails are inert ---- *)

Lemma marker_start_head c r : c <> 35 -> marker_start (c :: r) = false.
Proof.
  intros Hc. unfold marker_start. destruct r as [|c1 [|c2 r]]; try reflexivity.
  apply N.eqb_neq in Hc. rewrite Hc. reflexivity.
Qed.

Lemma prefixb_head_ne p0 p c r : p0 <> c -> prefixb (p0 :: p) (c :: r) = false.
Proof. intros Hne. simpl. destruct (N.eqb p0 c) eqn:He; [apply N.eqb_eq in He; contradiction | reflexivity]. Qed.

Lemma incbin_head c r : c <> 46 -> incbin_start (c :: r) = false.
Proof.
  intros Hc. unfold incbin_start, INCBIN_DIRECTIVE. rewrite prefixb_head_ne; [reflexivity | congruence].
Qed.

Lemma underscores_head c r : c <> 95 -> prefixb UNDERSCORES (c :: r) = false.
Proof. intros Hc. unfold UNDERSCORES. cbn [repeat]. apply prefixb_head_ne. congruence. Qed.

(* a tail of bytes none of which can start anything, reached in the middle of a line *)
Lemma inert_mid seg more prev :
  bolb prev = false ->
  forallb (fun c => negb (N.eqb c 46) && negb (N.eqb c 10)) seg = true ->
  inert prev seg more.
Proof.
  revert prev; induction seg as [|c seg IH]; intros prev Hb Hs; simpl; [exact I|].
  simpl in Hs. apply andb_true_iff in Hs as [Hc Hs]. apply andb_true_iff in Hc as [H46 H10].
  apply negb_true_iff in H46. apply negb_true_iff in H10. apply N.eqb_neq in H46. apply N.eqb_neq in H10.
  rewrite Hb, !andb_false_r. split; [reflexivity|]. split; [apply incbin_head; exact H46|]. split; [reflexivity|].
  apply IH; [|exact Hs]. simpl. apply N.eqb_neq. exact H10.
Qed.

Lemma inert_nl more prev : inert prev [10] more.
Proof.
  cbn [inert app]. rewrite marker_start_head by discriminate. rewrite incbin_head by discriminate.
  rewrite underscores_head by discriminate. repeat split; reflexivity.
Qed.

Lemma inert_app a b more prev :
  inert prev a (b ++ more) -> inert (last_of a prev) b more -> inert prev (a ++ b) more.
Proof.
  revert prev; induction a as [|c a IH]; intros prev Ha Hb; [exact Hb|].
  simpl in Ha. destruct Ha as [Hm [Hi [Hu Ha]]].
  cbn [app inert]. rewrite <- app_assoc. repeat split; try assumption.
  apply IH; [exact Ha | exact Hb].
Qed.

(* a body line, from its first byte (at the beginning of a line) to its newline *)
Lemma inert_body_from b1 b2 more prev :
  no_byte 10 (b1 ++ b2) = true ->
  containsb INCBIN_DIRECTIVE (b1 ++ b2) = false ->
  (b1 = [] -> negb (N.eqb (hd 0 b2) 35) && negb (N.eqb (hd 0 b2) 95) = true) ->
  (b1 <> [] -> bolb prev = false) ->
  inert prev b2 (10 :: more).
Proof.
  revert b1 prev; induction b2 as [|c b2 IH]; intros b1 prev Hnl Hinc Hhd Hprev; [exact I|].
  cbn [inert].
  assert (Hc10 : c <> 10).
  { unfold no_byte in Hnl. rewrite forallb_app in Hnl. apply andb_true_iff in Hnl as [_ Hnl]. simpl in Hnl.
    apply andb_true_iff in Hnl as [Hc _]. apply negb_true_iff in Hc. apply N.eqb_neq in Hc. exact Hc. }
  assert (Hincb : incbin_start ((c :: b2) ++ 10 :: more) = false).
  { destruct (incbin_start ((c :: b2) ++ 10 :: more)) eqn:Hi; [|reflexivity]. exfalso.
    unfold incbin_start in Hi. apply andb_true_iff in Hi as [Hp _].
    apply prefixb_nl in Hp; [|reflexivity]. destruct Hp as [post Hpost].
    assert (Ho : occurs INCBIN_DIRECTIVE (b1 ++ c :: b2)) by (exists b1, post; rewrite Hpost; reflexivity).
    apply containsb_spec in Ho. congruence. }
  split; [|split; [exact Hincb | split]].
  - destruct b1 as [|x b1].
    + specialize (Hhd eq_refl). simpl in Hhd. apply andb_true_iff in Hhd as [H35 _].
      apply negb_true_iff in H35. apply N.eqb_neq in H35. cbn [app]. rewrite marker_start_head by exact H35. reflexivity.
    + rewrite Hprev by discriminate. apply andb_false_r.
  - destruct b1 as [|x b1].
    + specialize (Hhd eq_refl). simpl in Hhd. apply andb_true_iff in Hhd as [_ H95].
      apply negb_true_iff in H95. apply N.eqb_neq in H95. cbn [app]. rewrite underscores_head by exact H95. reflexivity.
    + rewrite Hprev by discriminate. apply andb_false_r.
  - apply (IH (b1 ++ [c])).
    + rewrite <- app_assoc. exact Hnl.
    + rewrite <- app_assoc. exact Hinc.
    + intros He. destruct b1; discriminate.
    + intros _. simpl. apply N.eqb_neq. exact Hc10.
Qed.

(* ---- one marker line ---- *)
Lemma process_marker d ds p fl more inc :
  wf_line (LMarker (d :: ds) p fl) = true ->
  process_line (render_line (LMarker (d :: ds) p fl) ++ more) inc =
  match marker_step p fl inc with
  | Some inc' => PLContinue D (35 :: 32 :: (d :: ds) ++ 32 :: 34 :: p) (34 :: fl ++ 10 :: more) inc'
  | None => PLDisabled D
  end.
Proof.
  intros Hwf. cbn [wf_line] in Hwf.
  repeat (apply andb_true_iff in Hwf as [Hwf ?]).
  rename H0 into Hfl, H1 into Hp10, H2 into Hp34, H3 into Hpne, H4 into Hdig.
  apply negb_true_iff in Hwf.
  unfold LineMarker.process_line. cbn [render_line app nth_error].
  rewrite Hwf. cbn [andb].
  set (rest := 35 :: 32 :: d :: (ds ++ 32 :: 34 :: p ++ 34 :: fl ++ [10]) ++ more).
  assert (Hrest : rest = (35 :: 32 :: (d :: ds) ++ [32]) ++ 34 :: (p ++ 34 :: (fl ++ 10 :: more))).
  { unfold rest. lnorm. reflexivity. }
  rewrite Hrest.
  rewrite take_until_app.
  2:{ apply forallb_forall. intros c Hc. apply negb_true_iff. apply orb_false_iff. unfold b_quote, b_nl.
      assert (Hcases : c = 35 \/ c = 32 \/ is_digit c = true).
      { destruct Hc as [<- | [<- | Hc]]; [left; reflexivity | right; left; reflexivity|].
        apply in_app_or in Hc as [Hc | [<- | []]].
        - right; right. rewrite forallb_forall in Hdig. apply Hdig. exact Hc.
        - right; left; reflexivity. }
      destruct Hcases as [-> | [-> | Hdg]]; [split; reflexivity | split; reflexivity |].
      unfold is_digit in Hdg. apply andb_true_iff in Hdg as [H1 H2]. apply N.leb_le in H1. apply N.leb_le in H2.
      split; apply N.eqb_neq; lia. }
  2:{ reflexivity. }
  cbn [N.eqb b_quote b_nl Pos.eqb].
  destruct p as [|p0 p']; [discriminate|].
  cbn [app].
  change (p0 :: p' ++ 34 :: fl ++ 10 :: more) with ((p0 :: p') ++ 34 :: (fl ++ 10 :: more)).
  rewrite take_until_app.
  2:{ unfold no_byte in Hp34. exact Hp34. }
  2:{ reflexivity. }
  cbn [tl].
  rewrite take_until_app.
  2:{ apply forallb_forall. intros c Hc. rewrite forallb_forall in Hfl. specialize (Hfl c Hc).
      unfold flag_byte, is_digit in Hfl. apply negb_true_iff. unfold b_nl. apply N.eqb_neq.
      apply orb_true_iff in Hfl as [Hfl | Hfl].
      - apply andb_true_iff in Hfl as [H1 _]. apply N.leb_le in H1. lia.
      - apply N.eqb_eq in Hfl. lia. }
  2:{ reflexivity. }
  unfold marker_step.
  destruct (is_angle (normalized_include_path (p0 :: p'))).
  - f_equal; lnorm; reflexivity.
  - destruct (remember_include_file D H HT cfg fs start date input inc
                (resolve cwd (normalized_include_path (p0 :: p'))) (existsb (fun c => N.eqb c 51) fl)); [|reflexivity].
    f_equal; lnorm; reflexivity.
Qed.

Lemma marker_start_marker d ds r : is_digit d = true -> marker_start (35 :: 32 :: (d :: ds) ++ r) = true.
Proof. intros Hd. unfold marker_start. cbn [app]. rewrite Hd. reflexivity. Qed.

(* lines that fit into the last 7 bytes are not markers *)
Lemma short_no_markers ls inc :
  forallb wf_line ls = true -> (length (render_lines ls) <= 7)%nat -> fold_lines ls inc = Some inc.
Proof.
  induction ls as [|l ls IH]; intros Hwf Hlen; [reflexivity|].
  simpl in Hwf. apply andb_true_iff in Hwf as [Hl Hwf].
  unfold render_lines in Hlen. cbn [map concat] in Hlen. rewrite app_length in Hlen.
  destruct l as [ds p fl | b].
  - exfalso. cbn [wf_line] in Hl. destruct ds as [|d ds]; [discriminate|]. destruct p as [|p0 p]; [rewrite !andb_false_r in Hl; discriminate|].
    cbn [render_line] in Hlen. repeat (rewrite app_length in Hlen || cbn [length app] in Hlen). lia.
  - cbn [fold_lines]. apply IH; [exact Hwf|]. unfold render_lines. lia.
Qed.

(* ---------------- the scan over a whole output ---------------- *)
Lemma scan_lines ls : forall prev out inc fuel,
  forallb wf_line ls = true -> bolb prev = true -> (length (render_lines ls) < fuel)%nat ->
  scan fuel (length (render_lines ls)) prev (render_lines ls) out inc =
  match fold_lines ls inc with
  | Some inc' => LmOk D inc' (rev out ++ render_lines ls)
  | None => LmDisabled D
  end.
Proof.
  induction ls as [|l ls IH]; intros prev out inc fuel Hwf Hbol Hfuel.
  - destruct fuel as [|fuel]; [lia|]. rewrite scan_unfold. reflexivity.
  - pose proof Hwf as Hwf0. simpl in Hwf. apply andb_true_iff in Hwf as [Hl Hwf].
    destruct (Nat.leb (length (render_lines (l :: ls))) 7) eqn:Hcut.
    + apply Nat.leb_le in Hcut. rewrite (short_no_markers _ inc Hwf0 Hcut).
      destruct fuel as [|fuel]; [lia|]. rewrite scan_unfold.
      replace (Nat.leb (length (render_lines (l :: ls))) 7) with true by (symmetry; apply Nat.leb_le; exact Hcut).
      reflexivity.
    + apply Nat.leb_gt in Hcut.
      unfold render_lines in *. cbn [map concat] in *. fold (render_lines ls) in *.
      destruct l as [ds p fl | b].
      * (* a marker *)
        pose proof Hl as Hl0. cbn [wf_line] in Hl. destruct ds as [|d ds]; [discriminate|].
        apply andb_true_iff in Hl as [Hl Hflags]. apply andb_true_iff in Hl as [Hl Hp10].
        apply andb_true_iff in Hl as [Hl Hp34]. apply andb_true_iff in Hl as [Hl Hpne0].
        apply andb_true_iff in Hl as [Hd3 Hdig].
        assert (Hd : is_digit d = true) by (simpl in Hdig; apply andb_true_iff in Hdig as [Hd _]; exact Hd).
        assert (Hpne : p <> []) by (destruct p; [discriminate | discriminate]).
        destruct fuel as [|fuel]; [lia|]. rewrite scan_unfold.
        replace (Nat.leb (length (render_line (LMarker (d :: ds) p fl) ++ render_lines ls)) 7) with false
          by (symmetry; apply Nat.leb_gt; exact Hcut).
        assert (Hms : marker_start (render_line (LMarker (d :: ds) p fl) ++ render_lines ls) = true).
        { cbn [render_line]. cbn [app]. rewrite <- app_assoc.
          change (35 :: 32 :: d :: ds ++ (32 :: 34 :: p ++ 34 :: fl ++ [10]) ++ render_lines ls)
            with (35 :: 32 :: (d :: ds) ++ ((32 :: 34 :: p ++ 34 :: fl ++ [10]) ++ render_lines ls)).
          apply marker_start_marker. exact Hd. }
        rewrite Hms, Hbol. cbn [andb].
        rewrite (process_marker d ds p fl (render_lines ls) inc Hl0).
        cbn [fold_lines]. destruct (marker_step p fl inc) as [inc'|]; [|reflexivity].
        (* the rest of the marker line: quote, flags, newline *)
        set (consumed := 35 :: 32 :: (d :: ds) ++ 32 :: 34 :: p).
        assert (Hsplit : render_line (LMarker (d :: ds) p fl) ++ render_lines ls
                         = consumed ++ (34 :: fl ++ [10]) ++ render_lines ls).
        { unfold consumed. cbn [render_line]. lnorm. reflexivity. }
        assert (Hlenc : Nat.sub (length (render_line (LMarker (d :: ds) p fl) ++ render_lines ls)) (length consumed)
                         = length ((34 :: fl ++ [10]) ++ render_lines ls)).
        { rewrite Hsplit. rewrite (app_length consumed). lia. }
        rewrite Hlenc.
        change (34 :: fl ++ 10 :: render_lines ls) with ((34 :: fl) ++ 10 :: render_lines ls).
        replace ((34 :: fl) ++ 10 :: render_lines ls) with ((34 :: fl ++ [10]) ++ render_lines ls)
          by (cbn [app]; rewrite <- app_assoc; reflexivity).
        assert (Hprev : bolb (last_byte consumed prev) = false).
        { rewrite last_byte_last_of. unfold consumed.
          change (35 :: 32 :: (d :: ds) ++ 32 :: 34 :: p) with ((35 :: 32 :: (d :: ds)) ++ 32 :: 34 :: p).
          replace ((35 :: 32 :: d :: ds) ++ 32 :: 34 :: p) with (((35 :: 32 :: d :: ds) ++ [32; 34]) ++ p)
            by (rewrite <- app_assoc; reflexivity).
          rewrite last_of_app. destruct p as [|p0 p'] using rev_ind; [contradiction|].
          rewrite last_of_app. cbn. unfold no_byte in Hp10. rewrite forallb_app in Hp10.
          apply andb_true_iff in Hp10 as [_ Hp10]. simpl in Hp10. rewrite andb_true_r in Hp10.
          apply negb_true_iff in Hp10. exact Hp10. }
        assert (Hcpos : (1 <= length consumed)%nat) by (unfold consumed; cbn [length]; lia).
        rewrite scan_inert; [| reflexivity | | ].
        2:{ rewrite Hsplit in Hfuel. rewrite (app_length consumed) in Hfuel. lia. }
        2:{ replace (34 :: fl ++ [10]) with ((34 :: fl) ++ [10]) by reflexivity.
            apply inert_app; [|apply inert_nl].
            apply inert_mid; [exact Hprev|].
            cbn [forallb]. apply andb_true_iff. split; [reflexivity|].
            apply forallb_forall. intros c Hc. rewrite forallb_forall in Hflags. specialize (Hflags c Hc).
            unfold flag_byte, is_digit in Hflags. apply andb_true_iff.
            apply orb_true_iff in Hflags as [Hf | Hf].
            - apply andb_true_iff in Hf as [H1 H2]. apply N.leb_le in H1. apply N.leb_le in H2.
              split; apply negb_true_iff; apply N.eqb_neq; lia.
            - apply N.eqb_eq in Hf. subst c. split; reflexivity. }
        replace (Nat.sub (length ((34 :: fl ++ [10]) ++ render_lines ls)) (length (34 :: fl ++ [10])))
          with (length (render_lines ls)) by (rewrite app_length; lia).
        rewrite IH; [| exact Hwf | | ].
        2:{ replace (34 :: fl ++ [10]) with ((34 :: fl) ++ [10]) by reflexivity. rewrite last_of_app. reflexivity. }
        2:{ rewrite Hsplit in Hfuel. repeat (rewrite app_length in Hfuel || cbn [length] in Hfuel).
            repeat (rewrite app_length || cbn [length]). lia. }
        destruct (fold_lines ls inc') as [inc''|]; [|reflexivity].
        f_equal. rewrite Hsplit. rewrite !rev_app_distr, !rev_involutive. repeat rewrite <- app_assoc. reflexivity.
      * (* a body line *)
        cbn [wf_line] in Hl. repeat (apply andb_true_iff in Hl as [Hl ?]).
        rename H0 into Hinc, H1 into H95, H2 into H35. apply negb_true_iff in Hinc.
        cbn [render_line fold_lines]. cbn [render_line] in Hfuel.
        rewrite scan_inert; [| reflexivity | exact Hfuel | ].
        2:{ apply inert_app; [|apply inert_nl].
            replace ([10] ++ render_lines ls) with (10 :: render_lines ls) by reflexivity.
            apply (inert_body_from [] b).
            - exact Hl.
            - exact Hinc.
            - intros _. rewrite H35, H95. reflexivity.
            - intros Hc. contradiction. }
        replace (Nat.sub (length ((b ++ [10]) ++ render_lines ls)) (length (b ++ [10])))
          with (length (render_lines ls)) by (rewrite app_length; lia).
        rewrite IH; [| exact Hwf | rewrite last_of_app; reflexivity | ].
        2:{ cbn [render_line] in Hfuel. repeat (rewrite app_length in Hfuel || cbn [length] in Hfuel).
            repeat (rewrite app_length || cbn [length]). lia. }
        destruct (fold_lines ls inc) as [inc'|]; [|reflexivity].
        f_equal. rewrite rev_app_distr, rev_involutive. rewrite <- app_assoc. reflexivity.
Qed.

(* the include list the recorder of Model/PpCache.v is run on: what the markers announce *)
Fixpoint incs_of (ls : list line) : list (path * bool) :=
  match ls with
  | [] => []
  | LBody _ :: r => incs_of r
  | LMarker _ p fl :: r =>
      let pn := normalized_include_path p in
      if is_angle pn then incs_of r
      else (resolve cwd pn, existsb (fun c => N.eqb c 51) fl) :: incs_of r
  end.

Lemma fold_lines_remember_all ls : forall inc,
  fold_lines ls inc = remember_all D H HT cfg fs start date input inc (incs_of ls).
Proof.
  induction ls as [|l ls IH]; intros inc; [reflexivity|].
  destruct l as [ds p fl | b]; cbn [fold_lines incs_of]; [|apply IH].
  unfold marker_step. destruct (is_angle (normalized_include_path p)); [apply IH|].
  cbn [remember_all].
  destruct (remember_include_file D H HT cfg fs start date input inc (resolve cwd (normalized_include_path p))
              (existsb (fun c => N.eqb c 51) fl)); [apply IH | reflexivity].
Qed.

(* C04_markers_complete *)
Theorem markers_complete (ls : list line) :
  forallb wf_line ls = true ->
  process_preprocessed_file D H HT cfg fs start date input cwd (render_lines ls) =
  match fold_lines ls [] with
  | Some inc => LmOk D inc (render_lines ls)
  | None => LmDisabled D
  end.
Proof.
  intros Hwf. unfold process_preprocessed_file.
  rewrite (scan_lines ls None [] [] (S (length (render_lines ls))) Hwf eq_refl); [|lia].
  reflexivity.
Qed.

Corollary markers_complete_recorder (ls : list line) :
  forallb wf_line ls = true ->
  process_preprocessed_file D H HT cfg fs start date input cwd (render_lines ls) =
  match remember_all D H HT cfg fs start date input [] (incs_of ls) with
  | Some inc => LmOk D inc (render_lines ls)
  | None => LmDisabled D
  end.
Proof. intros Hwf. rewrite (markers_complete ls Hwf), fold_lines_remember_all. reflexivity. Qed.

End Scan.
