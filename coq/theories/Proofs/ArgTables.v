(* Proofs/ArgTables.v — the side conditions on the GENERATED tables (Gen/C01ArgTables.v), each closed by vm_compute:
   sortedness, own spellings, which keys reach which row (the comparator is not monotone), the reviewed class lists. *)
From Coq Require Import List NArith Bool.
From Coq Require String.
Import String.StringSyntax.
From Sccache Require Import Base.Sx Model.ArgTypes Model.Args Gen.C01ArgTables Model.ArgsInst Proofs.Args.
Import ListNotations.
Local Open Scope string_scope.

Definition T := the_tables.

Definition rows (sel : tblsel) : list arginfo :=
  match sel with SelGcc => gcc_args | SelMerged => gcc_args ++ clang_args end.

(* gcc rows that the merged (clang) search never returns: a clang row of the same spelling replaces them *)
Definition overridden : list bytes := [bs "-MF"; bs "-MQ"; bs "-MT"; bs "-fprofile-use"].

Definition clang_row (s : bytes) : option arginfo :=
  find (fun j => bytes_eqb (flag_str j) s) clang_args.

(* the row the search returns for the spelling of row i *)
Definition effective (sel : tblsel) (i : arginfo) : arginfo :=
  match sel with
  | SelGcc => i
  | SelMerged => match clang_row (flag_str i) with Some j => j | None => i end
  end.

(* the keys that reach a row in joined form: s ++ [d] ++ anything, resp. s ++ anything non-empty *)
Definition family_prefix (i : arginfo) : option (bool * bytes) :=
  match i with
  | ITake s _ (CanBeSeparated d) _ | ITake s _ (Concatenated d) _ =>
      Some (match d with Some c => (false, s ++ [c]) | None => (true, s) end)
  | _ => None
  end.

(* rows whose joined family is NOT claimed: another row extends their spelling, so the answer depends on the rest
   (`-iwithprefixbefore...`, `-include-pch...`, and gcc's `-fprofile-use<x>` vs clang's `-fprofile-use=<x>`).
   None of them is ever re-rendered in joined form (their spellings are longer than two characters / TooHard). *)
Definition sel_eqb (a b : tblsel) : bool :=
  match a, b with SelGcc, SelGcc | SelMerged, SelMerged => true | _, _ => false end.

Definition family_exceptions : list (tblsel * bytes) :=
  [ (SelGcc, bs "-iwithprefix"); (SelMerged, bs "-iwithprefix"); (SelMerged, bs "-include");
    (SelMerged, bs "-fprofile-use") ].

Definition is_exception (sel : tblsel) (s : bytes) : bool :=
  existsb (fun e => sel_eqb (fst e) sel && bytes_eqb (snd e) s) family_exceptions.

Definition found_as (r : option arginfo) (i : arginfo) : bool :=
  match r with Some j => arginfo_eqb j i | None => false end.

Definition own_ok (sel : tblsel) : bool :=
  forallb (fun i => found_as (search T sel (flag_str i)) (effective sel i)) (rows sel).

Definition family_ok (sel : tblsel) : bool :=
  forallb (fun i =>
             match family_prefix i with
             | None => true
             | Some (ne, p) =>
                 is_exception sel (flag_str i)
                 || match search_p ne T sel p with
                    | Some r => found_as r (effective sel i)
                    | None => false
                    end
             end) (rows sel).

Lemma sorted_ok : sorted_strict gcc_args = true /\ sorted_strict clang_args = true.
Proof. split; vm_compute; reflexivity. Qed.

Lemma clang_single_ok :
  forallb (fun i => found_as (search1 clang_args (flag_str i)) i) clang_args = true.
Proof. vm_compute. reflexivity. Qed.

Lemma own_ok_gcc : own_ok SelGcc = true.
Proof. vm_compute. reflexivity. Qed.
Lemma own_ok_merged : own_ok SelMerged = true.
Proof. vm_compute. reflexivity. Qed.
Lemma family_ok_gcc : family_ok SelGcc = true.
Proof. vm_compute. reflexivity. Qed.
Lemma family_ok_merged : family_ok SelMerged = true.
Proof. vm_compute. reflexivity. Qed.

Lemma overridden_exact :
  map flag_str (filter (fun i => negb (arginfo_eqb (effective SelMerged i) i)) gcc_args) = overridden.
Proof. vm_compute. reflexivity. Qed.

Lemma found_as_eq r i : found_as r i = true -> r = Some i.
Proof. destruct r as [j|]; cbn; intros H; [|discriminate]. apply arginfo_eqb_eq in H. congruence. Qed.

Theorem table_wf :
  (* the binary search's precondition (also a debug assertion in ArgsIter::new) *)
  sorted_strict gcc_args = true /\ sorted_strict clang_args = true /\
  (* every row is found by its own spelling; in the merged search a clang row of the same spelling wins *)
  (forall sel i, In i (rows sel) -> search T sel (flag_str i) = Some (effective sel i)) /\
  (forall i, In i clang_args -> search1 clang_args (flag_str i) = Some i) /\
  (* every key of a row's joined family reaches that row, for ALL continuations, except the listed families *)
  (forall sel i ne p rest,
      In i (rows sel) -> family_prefix i = Some (ne, p) -> is_exception sel (flag_str i) = false ->
      (ne = true -> rest <> []) ->
      search T sel (p ++ rest) = Some (effective sel i)).
Proof.
  split; [apply sorted_ok|]. split; [apply sorted_ok|]. split; [|split].
  - intros sel i Hi.
    assert (H : own_ok sel = true) by (destruct sel; [apply own_ok_gcc | apply own_ok_merged]).
    unfold own_ok in H. rewrite forallb_forall in H. apply found_as_eq. apply H. exact Hi.
  - intros i Hi. pose proof clang_single_ok as H. rewrite forallb_forall in H. apply found_as_eq. apply H. exact Hi.
  - intros sel i ne p rest Hi Hf He Hne.
    assert (H : family_ok sel = true) by (destruct sel; [apply family_ok_gcc | apply family_ok_merged]).
    unfold family_ok in H. rewrite forallb_forall in H. specialize (H i Hi). rewrite Hf, He in H. cbn [orb] in H.
    destruct (search_p ne T sel p) as [r|] eqn:Hs; [|discriminate].
    rewrite (search_p_sound _ _ _ _ _ Hs rest Hne). apply found_as_eq. exact H.
Qed.

(* the two spellings DESIGN.md singles out: `-Wp,<anything>` is the preprocessor option, `-Wpedantic` the flag *)
Example wp_family : forall rest, search T SelGcc (bs "-Wp," ++ rest) =
                                 Some (ITake (bs "-Wp") VOsString (Concatenated (Some 44%N)) PreprocessorArgument).
Proof.
  intros rest. apply (search_p_sound false T SelGcc (bs "-Wp,")); [vm_compute; reflexivity | discriminate].
Qed.
Example wpedantic_own : search T SelGcc (bs "-Wpedantic") = Some (IFlag (bs "-Wpedantic") PedanticFlag).
Proof. vm_compute. reflexivity. Qed.
(* ... and a continuation that is neither: the bare prefix search would say Equal for `-Wp`, the delimiter rule
   sends `-Wpx` away from it *)
Example wpx_unknown : search T SelGcc (bs "-Wpx") = None.
Proof. vm_compute. reflexivity. Qed.

(* ------------------------------------------------------------------ the reviewed class lists *)

Definition main_list_of (i : arginfo) : dest := fst (main_dest (info_data i)).
Definition x_list_of (i : arginfo) : xdest := fst (xclang_dest (info_data i)).

Definition all_rows : list arginfo := gcc_args ++ clang_args.

(* rows whose arguments are excluded from the hash by declaration *)
Definition unhashed_class : list bytes :=
  map flag_str (filter (fun i => dest_eqb (main_list_of i) DUnhashed
                                 || match x_list_of i with XList DUnhashed => true | _ => false end) all_rows).

(* rows whose arguments only reach the key through the preprocessor output *)
Definition preproc_class : list bytes :=
  map flag_str (filter (fun i => dest_eqb (main_list_of i) DPre
                                 || match x_list_of i with XList DPre => true | _ => false end) all_rows).

Definition dependency_class : list bytes :=
  map flag_str (filter (fun i => dest_eqb (main_list_of i) DDep
                                 || match x_list_of i with XList DDep => true | _ => false end) all_rows).

(* REVIEWED (gcc 12 / clang 14 manuals): options that act on the preprocessor only — header search paths and
   forced includes (-I -F -i* -include -imacros -include-pch -nostdinc[++] -remap -isysroot -stdlib= for a -c compile),
   pass-through to cpp (-Wp, -Xpreprocessor), line-marker / lexing switches whose effect is visible in the -E output
   (-f[no-]working-directory, -trigraphs).  Whatever they change, the preprocessed text that is hashed changes. *)
Definition PreprocOnly : list bytes :=
  [ bs "-F"; bs "-I"; bs "-Wp"; bs "-Xpreprocessor"; bs "-fno-working-directory"; bs "-fworking-directory";
    bs "-idirafter"; bs "-iframework"; bs "-imacros"; bs "-imultilib"; bs "-include"; bs "-include-pch";
    bs "-iprefix"; bs "-iquote"; bs "-isysroot"; bs "-isystem"; bs "-iwithprefix"; bs "-iwithprefixbefore";
    bs "-nostdinc"; bs "-nostdinc++"; bs "-remap"; bs "-stdlib"; bs "-trigraphs" ].

(* REVIEWED, S19: classified preprocessor-only by sccache although they act on the compile proper (-verify changes
   the exit status / diagnostics, -no-opaque-pointers the IR).  Both are cc1 options reachable only through -Xclang.
   Not reproduced as a wrong result with clang 14: under -verify the -E run itself fails, -no-opaque-pointers is not a
   clang 14 option.  Kept as a named exception so that any NEW row in the class fails the side condition. *)
Definition PreprocDebatable : list bytes := [ bs "-no-opaque-pointers"; bs "-verify" ].

(* REVIEWED: dependency-file options; they never change the object, the .d file is written by the preprocessor run *)
Definition DependencyOnly : list bytes :=
  [ bs "-MD"; bs "-MF"; bs "-MMD"; bs "-MP"; bs "-MQ"; bs "-MT"; bs "-dependency-file" ].

Definition subset_b (a b : list bytes) : bool := forallb (fun s => mem_bytes s b) a.

Theorem class_side_conditions :
  unhashed_class = [] /\
  subset_b preproc_class (PreprocOnly ++ PreprocDebatable) = true /\
  subset_b dependency_class DependencyOnly = true /\
  unreachable_ok T = true.
Proof. repeat split; vm_compute; reflexivity. Qed.

(* first match of the main loop: exactly these constructors have no effect on the parser's variables *)
Theorem noeffect_reviewed :
  noeffect_class = [ ExtraHashFile; PassThroughFlag; PreprocessorArgumentFlag; PreprocessorArgument;
                     PreprocessorArgumentPath; PassThrough; PassThroughPath; UnhashedFlag; Unhashed ].
Proof. reflexivity. Qed.

(* the value type of a row agrees with its constructor (a take_arg! of a unit constructor would not compile in Rust) *)
Theorem value_types_ok :
  forallb (fun i => match i with
                    | IFlag _ c => match argdata_value c with None => true | Some _ => false end
                    | ITake _ vt _ c => match argdata_value c with Some vt' => vtype_eqb vt vt' | None => false end
                    end) all_rows = true.
Proof. vm_compute. reflexivity. Qed.

(* ------------------------------------------------------------------ witnesses on the generated tables *)

Definition gcc_env : env := {| e_kind := KGcc; e_plusplus := false; e_multiarch := false; e_cwd := bs "/w";
                               e_files := []; e_dirs := [] |}.
Definition clang_env : env := {| e_kind := KClang; e_plusplus := false; e_multiarch := false; e_cwd := bs "/w";
                                 e_files := []; e_dirs := [] |}.

Definition is_ok (r : presult_args) : bool := match r with ROk _ => true | _ => false end.

Definition cmd_of (E : env) (argv : list bytes) : list bytes :=
  match parse_arguments T E argv with ROk p => compile_command T E p | _ => [] end.

(* non-vacuity: an ordinary command line parses, and its re-synthesised form is the expected one *)
Example ordinary_parses :
  cmd_of gcc_env [bs "-c"; bs "foo.c"; bs "-DX=1"; bs "-I"; bs "inc"; bs "-MD"; bs "-Wall"; bs "-o"; bs "out.o"]
  = [bs "-x"; bs "c"; bs "-c"; bs "-o"; bs "out.o"; bs "-Iinc"; bs "-MD"; bs "-MT"; bs "out.o"; bs "-MF"; bs "out.d";
     bs "-DX=1"; bs "-Wall"; bs "foo.c"].
Proof. vm_compute. reflexivity. Qed.

(* S23 (open finding): a dependency target without -MD/-MMD/-MP is parsed and then appears nowhere *)
Theorem dep_target_without_md_dropped :
  exists argv p, parse_arguments T gcc_env argv = ROk p /\ In (bs "-MT") argv /\
                 ~ In (bs "-MT") (compile_command T gcc_env p).
Proof.
  exists [bs "-c"; bs "foo.c"; bs "-MT"; bs "x"].
  destruct (parse_arguments T gcc_env [bs "-c"; bs "foo.c"; bs "-MT"; bs "x"]) as [p| | | |] eqn:H;
    try (vm_compute in H; discriminate).
  exists p. split; [reflexivity|]. split; [right; right; left; reflexivity|].
  vm_compute in H. injection H as <-. vm_compute. intuition discriminate.
Qed.

(* S28 (open finding): `-x rs` is parsed, but no `-x` is re-emitted for Language::Rust *)
Theorem x_rs_dropped :
  exists argv p, parse_arguments T gcc_env argv = ROk p /\ In (bs "rs") argv /\ p_language p = LRust /\
                 ~ In (bs "-x") (compile_command T gcc_env p).
Proof.
  exists [bs "-x"; bs "rs"; bs "-c"; bs "foo.c"].
  destruct (parse_arguments T gcc_env [bs "-x"; bs "rs"; bs "-c"; bs "foo.c"]) as [p| | | |] eqn:H;
    try (vm_compute in H; discriminate).
  exists p. split; [reflexivity|]. split; [right; left; reflexivity|].
  vm_compute in H. injection H as <-. split; [reflexivity|]. vm_compute. intuition discriminate.
Qed.

(* S24 (open finding): the full-strength re-synthesis statement is refuted by an option without its value *)
Theorem resynthesis_fixpoint_refuted :
  exists argv p, parse_arguments T gcc_env argv = ROk p /\
                 is_ok (parse_arguments T gcc_env (compile_command T gcc_env p)) = false.
Proof.
  exists [bs "-c"; bs "foo.c"; bs "-I"].
  destruct (parse_arguments T gcc_env [bs "-c"; bs "foo.c"; bs "-I"]) as [p| | | |] eqn:H;
    try (vm_compute in H; discriminate).
  exists p. split; [reflexivity|]. vm_compute in H. injection H as <-. vm_compute. reflexivity.
Qed.

(* ------------------------------------------------------------------ re-reading a re-rendered argument *)

Lemma first_is_at_app s x : s <> [] -> first_is_at (s ++ x) = first_is_at s.
Proof. destruct s; [congruence|reflexivity]. Qed.

Lemma rows_nonempty_spelling : forallb (fun i => negb (Nat.eqb (length (flag_str i)) 0)) all_rows = true.
Proof. vm_compute. reflexivity. Qed.

Lemma rows_in_all sel i : In i (rows sel) -> In i all_rows.
Proof. destruct sel; cbn [rows]; unfold all_rows; intros H; [apply in_or_app; left; exact H | exact H]. Qed.

(* For every row that the search returns for its own spelling (every row of the gcc table / every row of the merged
   tables that is not overridden), and EVERY value:
   - a flag is read back as that flag;
   - spelling and value as two words are read back as one argument of that row, the value untouched;
   - the joined word `spelling[delimiter]value` is read back as an argument of that row with exactly that value
     (for a row without delimiter the value must be non-empty: finding C01-S24 is the empty case), unless the row is
     one of the named family exceptions;
   and the words that follow are tokenised as if the argument had not been there.  This is the per-argument core of
   "the re-synthesised command means what the original meant to sccache". *)
Theorem rerender_retokenizes :
  forall sel i, In i (rows sel) -> effective sel i = i -> first_is_at (flag_str i) = false ->
  forall dd fs left f rest,
  match i with
  | IFlag s c =>
      dd_passes dd s ->
      tokenize (S f) T sel dd fs left (s :: rest) =
      (let '(l, e) := tokenize f T sel dd fs left rest in (AFlag s c :: l, e))
  | ITake s vt d0 c =>
      (forall d v, sep_disp d0 = Some d -> first_is_at v = false -> dd_passes dd s ->
         tokenize (S f) T sel dd fs left (s :: v :: rest) =
         (let '(l, e) := tokenize f T sel dd fs left rest in (AWith s c v d :: l, e))) /\
      (forall dl d v, joined_disp d0 = Some (dl, d) -> is_exception sel s = false -> (dl = None -> v <> []) ->
         dd_passes dd (joined_word s dl v) ->
         tokenize (S f) T sel dd fs left (joined_word s dl v :: rest) =
         (let '(l, e) := tokenize f T sel dd fs left rest in (AWith s c v d :: l, e)))
  end.
Proof.
  intros sel i Hi Heff Hat dd fs left f rest.
  destruct table_wf as [_ [_ [Hown [_ Hfam]]]].
  pose proof (Hown sel i Hi) as Hs. rewrite Heff in Hs.
  destruct i as [s c|s vt d0 c]; cbn [flag_str] in *.
  - intros Hdd. apply retokenize_flag; assumption.
  - split.
    + intros d v Hd Hv Hdd. eapply retokenize_separated; eassumption.
    + intros dl d v Hd Hex Hne Hdd.
      assert (Hsne : s <> []).
      { pose proof rows_nonempty_spelling as R. rewrite forallb_forall in R.
        specialize (R _ (rows_in_all _ _ Hi)). cbn [flag_str] in R. destruct s; [discriminate R|congruence]. }
      assert (Hfp : family_prefix (ITake s vt d0 c) =
                    Some (match dl with Some _ => false | None => true end,
                          match dl with Some c0 => s ++ [c0] | None => s end)).
      { destruct d0 as [|x|x|x]; cbn in Hd; try discriminate; injection Hd as <- <-; destruct x; reflexivity. }
      assert (Hsearch : search T sel (joined_word s dl v) = Some (ITake s vt d0 c)).
      { replace (joined_word s dl v) with ((match dl with Some c0 => s ++ [c0] | None => s end) ++ v)
          by (unfold joined_word; destruct dl; cbn [app]; [rewrite <- app_assoc|]; reflexivity).
        rewrite <- Heff.
        eapply Hfam; [exact Hi | exact Hfp | exact Hex |].
        destruct dl; [discriminate | intros _; apply Hne; reflexivity]. }
      eapply retokenize_joined; try eassumption.
      unfold joined_word. rewrite first_is_at_app by exact Hsne. exact Hat.
Qed.

(* the only spelling that begins with `@` is the response-file row, which is never rendered (TooHard) *)
Lemma at_rows : map flag_str (filter (fun i => first_is_at (flag_str i)) all_rows) = [bs "@"].
Proof. vm_compute. reflexivity. Qed.

(* ------------------------------------------------------------------ generate_hash_key (c.rs), as transcribed by the translator *)

Definition dropped_preds (spec : list keycomp) : list bytes :=
  flat_map (fun c => match c with KFiltered _ pr => [pr] | _ => [] end) spec.

(* REVIEWED: predicates by which generate_hash_key may remove words from an argument vector AFTER parse_arguments has
   classified them.  Empty: whatever parse_arguments puts into common_args / arch_args / preprocessor_args reaches the
   keys.  (Stored entries carry the compiler's stderr, so even an option that "only" changes how diagnostics are
   rendered - colour, -fmessage-length, -fdiagnostics-show-option - changes the replayed result.) *)
Definition DroppedFromKey : list bytes := [].

Definition key_order_expected : list bytes :=
  [ bs "start_of_compilation"; bs "preprocessor_cache_entry_hash_key"; bs "preprocess";
    bs "process_preprocessed_file"; bs "hash_key"; bs "add_result" ].

Theorem hash_key_side_conditions :
  (* nothing is filtered out of the vectors except by a reviewed predicate *)
  subset_b (dropped_preds main_key_args ++ dropped_preds pp_key_args) DroppedFromKey = true /\
  (* the result key sees all of common_args and arch_args; the preprocessor-level key all three lists it depends on *)
  has_whole_list main_key_args DCommon = true /\ has_whole_list main_key_args DArch = true /\
  has_whole_list pp_key_args DPre = true /\ has_whole_list pp_key_args DArch = true /\
  has_whole_list pp_key_args DCommon = true /\
  (* profile / coverage builds: the output path is part of both *)
  existsb (fun c => match c with KProfileOutput => true | _ => false end) main_key_args = true /\
  existsb (fun c => match c with KProfileOutput => true | _ => false end) pp_key_args = true /\
  (* with hash_working_directory = true (the documented default) the working directory is part of the
     preprocessor-level key: relative include paths and the recorded absolute header paths belong to one directory *)
  existsb (fun c => match c with KCwd => true | _ => false end) pp_key_args = true /\
  (* both key functions filter the environment by their OWN list: if generate_hash_key cuts the environment down
     beforehand, the cut must keep every variable of both lists *)
  match env_prefilter with
  | None => true
  | Some l => subset_b (main_key_env ++ pp_key_env) l
  end = true /\
  (* the variables of the result key are among those of the preprocessor-level key (S16) *)
  subset_b main_key_env pp_key_env = true /\
  (* the reference time of the "include is too new" guard is taken before the preprocessor runs *)
  key_order = key_order_expected.
Proof. repeat split; vm_compute; reflexivity. Qed.

Theorem hashed_args_reach_hash_key :
  forall (p : parsed) (po : option bytes), incl (hashed_args p) (key_words main_key_args p po).
Proof.
  intros p po. apply hashed_args_reach_key; apply hash_key_side_conditions.
Qed.

(* ------------------------------------------------------------------ Language::from_file_name: already-preprocessed inputs *)

(* REVIEWED (gcc "Overall Options"): suffixes of source that must NOT be preprocessed (.i .ii .mi .mii) and of assembler
   input (.s needs none, .S would).  sccache re-emits `-x <language>` and runs `-E` itself, which would preprocess such
   input a second time (macro names in the text replaced again, __LINE__ renumbered, -D applied): as long as
   language_to_*_arg has no `*-cpp-output`, these suffixes must have NO language, so that the request is handed back
   ("unknown source language") and the client runs the compiler itself. *)
Definition AlreadyPreprocessed : list bytes := [ bs "i"; bs "ii"; bs "mi"; bs "mii"; bs "s"; bs "S"; bs "sx" ].

Theorem preprocessed_suffixes_have_no_language :
  forallb (fun e => match assoc e ext_lang_table with None => true | Some _ => false end) AlreadyPreprocessed = true.
Proof. vm_compute. reflexivity. Qed.

(* ------------------------------------------------------------------ the environment of the preprocessor run and of the compile *)

(* both commands are built with `.env_clear().envs(client variables)` (transcribed by the translator): whatever
   environment the server was started in, the compiler sees exactly the client's *)
Theorem commands_run_in_client_env :
  forall server client : envmap,
    child_env preprocess_env_cleared server client = client /\
    child_env compile_env_cleared server client = client.
Proof. intros server client. split; reflexivity. Qed.

(* ... and why that matters: without the clearing, a variable of the server's environment that the client does not set
   reaches the compiler *)
Example uncleared_env_leaks :
  child_env false [(bs "SOURCE_DATE_EPOCH", bs "86400")] [(bs "PATH", bs "/usr/bin")]
  = [(bs "PATH", bs "/usr/bin"); (bs "SOURCE_DATE_EPOCH", bs "86400")].
Proof. vm_compute. reflexivity. Qed.
