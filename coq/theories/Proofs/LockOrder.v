(* Proofs/LockOrder.v — the standard lock-ordering argument, for any number of threads and locks:
   if every thread follows the discipline `path_ok`, a configuration in which some thread is unfinished always
   has an enabled thread (the wait-for relation climbs strictly in the lock order, so it cannot cycle), the
   discipline is preserved by every step, and every step consumes one event: no run gets stuck, all runs end
   with every handler finished. *)
From Coq Require Import List NArith Bool Lia ZifyN ZifyBool.
From Sccache Require Import Model.LockOrder.
Import ListNotations.
Local Open Scope N_scope.

Arguments N.ltb : simpl never.
Arguments N.eqb : simpl never.

Definition wf (cfg : list thread) : Prop := forall t, In t cfg -> path_ok (fst t) (snd t) = true.

Lemma lmem_In l h : lmem l h = true <-> In l h.
Proof.
  induction h as [|x r IH]; simpl; [split; [discriminate | tauto]|].
  rewrite orb_true_iff, IH, N.eqb_eq. split; intros [H|H]; auto.
Qed.

Lemma is_nil_true {A} (l : list A) : is_nil l = true <-> l = [].
Proof. destruct l; simpl; split; congruence. Qed.

(* a thread that holds something has something left to do *)
Lemma holder_unfinished held p l : path_ok held p = true -> In l held -> p <> [].
Proof.
  intros H Hin E; subst p. simpl in H. apply is_nil_true in H. subst held. exact Hin.
Qed.

(* a disciplined thread only waits for locks above everything it holds *)
Lemma waits_above held l r h : path_ok held (Acq l :: r) = true -> In h held -> h < l.
Proof.
  simpl. intros H Hin. apply andb_true_iff in H as [H _].
  rewrite forallb_forall in H. specialize (H h Hin). lia.
Qed.

(* the key step: if nobody is enabled, a thread waiting for l yields a thread waiting for a larger lock *)
Lemma blocked_climbs cfg t l r :
  wf cfg -> (forall u, In u cfg -> enabled cfg u = false) ->
  In t cfg -> snd t = Acq l :: r ->
  exists u l' r', In u cfg /\ snd u = Acq l' :: r' /\ l < l'.
Proof.
  intros W Stuck Hin Hs. pose proof (Stuck t Hin) as E. unfold enabled in E. rewrite Hs in E.
  apply negb_false_iff in E. unfold held_by_any in E. apply existsb_exists in E as [u [Hu Hl]].
  apply lmem_In in Hl. pose proof (W u Hu) as Wu.
  pose proof (holder_unfinished _ _ _ Wu Hl) as Nf.
  pose proof (Stuck u Hu) as Eu. unfold enabled in Eu.
  destruct (snd u) as [|[l'|l'|] r'] eqn:Su; try congruence.
  exists u, l', r'. split; [exact Hu|]. split; [exact Su|].
  exact (waits_above _ _ _ _ Wu Hl).
Qed.

Definition top (cfg : list thread) : N :=
  fold_right (fun t m => match snd t with Acq l :: _ => N.max l m | _ => m end) 0 cfg.

Lemma top_bound cfg t l r : In t cfg -> snd t = Acq l :: r -> l <= top cfg.
Proof.
  induction cfg as [|x c IH]; simpl; [tauto|]. intros [->|Hin] Hs.
  - rewrite Hs. lia.
  - specialize (IH Hin Hs). destruct (snd x) as [|[l0|l0|] r0]; lia.
Qed.

Theorem no_deadlock cfg :
  wf cfg -> all_finished cfg = false -> exists t, In t cfg /\ enabled cfg t = true.
Proof.
  intros W NF.
  destruct (existsb (enabled cfg) cfg) eqn:Ex.
  { apply existsb_exists in Ex as [t [Hin He]]. eauto. }
  exfalso.
  assert (Stuck : forall u, In u cfg -> enabled cfg u = false).
  { intros u Hu. destruct (enabled cfg u) eqn:E; auto.
    assert (existsb (enabled cfg) cfg = true) by (apply existsb_exists; eauto). congruence. }
  (* some thread is unfinished, hence (not being enabled) waits for a lock *)
  assert (Hw : exists t l r, In t cfg /\ snd t = Acq l :: r).
  { unfold all_finished in NF.
    assert (exists t, In t cfg /\ finished t = false) as [t [Hin Hf]].
    { clear -NF. induction cfg as [|x c IH]; simpl in NF; [discriminate|].
      destruct (finished x) eqn:F; [destruct (IH NF) as [t [? ?]]; exists t; simpl; auto|].
      exists x; simpl; auto. }
    pose proof (Stuck t Hin) as E. unfold enabled in E. unfold finished in Hf.
    destruct (snd t) as [|[l|l|] r] eqn:Hs; simpl in Hf; try discriminate. eauto. }
  destruct Hw as [t [l [r [Hin Hs]]]].
  (* climb: the awaited lock grows for ever but is bounded by top cfg *)
  assert (Climb : forall n t l r, In t cfg -> snd t = Acq l :: r -> (N.to_nat (top cfg - l) < n)%nat -> False).
  { induction n as [|n IH]; intros t0 l0 r0 Hin0 Hs0 Hlt; [lia|].
    destruct (blocked_climbs cfg t0 l0 r0 W Stuck Hin0 Hs0) as [u [l' [r' [Hu [Su Hl]]]]].
    pose proof (top_bound cfg u l' r' Hu Su). apply (IH u l' r' Hu Su). lia. }
  apply (Climb (S (N.to_nat (top cfg - l))) t l r Hin Hs). lia.
Qed.

Lemma path_ok_advance t : path_ok (fst t) (snd t) = true -> path_ok (fst (advance t)) (snd (advance t)) = true.
Proof.
  destruct t as [held p]. unfold advance. simpl.
  destruct p as [|[l|l|] r]; simpl; auto; intro H; apply andb_true_iff in H as [_ H]; exact H.
Qed.

Lemma cstep_wf c c' : cstep c c' -> wf c -> wf c'.
Proof.
  intros [pre t post _] W u Hu. apply in_app_or in Hu as [Hu|[<-|Hu]].
  - apply W. apply in_or_app. auto.
  - apply path_ok_advance. apply W. apply in_or_app. right; left; reflexivity.
  - apply W. apply in_or_app. right; right; exact Hu.
Qed.

Lemma creach_wf c c' : creach c c' -> wf c -> wf c'.
Proof. induction 1; auto. intro W. eapply cstep_wf; eauto. Qed.

Lemma start_wf paths : lock_order_ok paths = true -> wf (start paths).
Proof.
  unfold lock_order_ok, start. rewrite forallb_forall. intros H t Hin.
  apply in_map_iff in Hin as [p [<- Hp]]. simpl. auto.
Qed.

Lemma In_split_thread (t : thread) cfg : In t cfg -> exists pre post, cfg = pre ++ t :: post.
Proof. apply in_split. Qed.

Lemma todo_app a b : todo (a ++ b) = (todo a + todo b)%nat.
Proof. unfold todo. induction a as [|x a IH]; simpl; [reflexivity|]. rewrite IH. lia. Qed.

Lemma cstep_todo c c' : cstep c c' -> (todo c' < todo c)%nat.
Proof.
  intros [pre t post E]. rewrite !todo_app. simpl.
  unfold enabled in E. unfold advance. destruct (snd t) as [|[l|l|] r] eqn:Hs; simpl; try discriminate; lia.
Qed.

(* Progress: from handlers that all follow the discipline, whatever has happened so far, either every handler
   has finished or some thread can take its next step; and every step uses up one event (so no run is infinite). *)
Theorem disciplined_handlers_never_deadlock paths cfg :
  lock_order_ok paths = true -> creach (start paths) cfg ->
  all_finished cfg = true \/ exists cfg', cstep cfg cfg' /\ (todo cfg' < todo cfg)%nat.
Proof.
  intros Ok R. destruct (all_finished cfg) eqn:F; [left; reflexivity|right].
  pose proof (creach_wf _ _ R (start_wf _ Ok)) as W.
  destruct (no_deadlock cfg W F) as [t [Hin He]].
  destruct (In_split_thread t cfg Hin) as [pre [post ->]].
  exists (pre ++ advance t :: post).
  assert (S : cstep (pre ++ t :: post) (pre ++ advance t :: post)) by (constructor; exact He).
  split; [exact S | exact (cstep_todo _ _ S)].
Qed.

(* the converse direction matters too: two paths taking two locks in opposite orders DO deadlock *)
Example opposite_orders_deadlock :
  let cfg := [([1], [Acq 0; Rel 0; Rel 1]); ([0], [Acq 1; Rel 1; Rel 0])] in
  creach (start [[Acq 1; Acq 0; Rel 0; Rel 1]; [Acq 0; Acq 1; Rel 1; Rel 0]]) cfg /\
  all_finished cfg = false /\ forallb (fun t => negb (enabled cfg t)) cfg = true.
Proof.
  simpl. split; [|split; reflexivity].
  eapply creach_step; [eapply creach_step; [apply creach_refl|]|].
  - apply (cstep_at [] ([], [Acq 1; Acq 0; Rel 0; Rel 1]) [([], [Acq 0; Acq 1; Rel 1; Rel 0])]). reflexivity.
  - apply (cstep_at [([1], [Acq 0; Rel 0; Rel 1])] ([], [Acq 0; Acq 1; Rel 1; Rel 0]) []). reflexivity.
Qed.
