(* Proofs/ComposeEx2.v — non-vacuity witnesses for the second group of composition theorems
   (ComposeC20, ComposeC09C07, ComposeHitBytes): concrete instances on which every hypothesis holds. *)
From Coq Require Import List NArith Bool.
From Sccache Require Import Base.Sx.
From Sccache Require Model.Client Proofs.Client Model.ServerLife Model.ServerExit Proofs.ComposeC20.
From Sccache Require Model.Lru Model.LruPut Model.Stats Model.ReqSM Proofs.ReqSM Proofs.ComposeC09C07.
From Sccache Require Model.FsModel Model.Extract Model.Zip Proofs.Zip Proofs.ComposeHitBytes.
Import ListNotations.
Local Open Scope N_scope.

(* ------------------------------------------------------------------ C20 ⟵ C11 *)
Module C20Ex.
Import Sccache.Model.Client Sccache.Proofs.Client Sccache.Model.ServerLife Sccache.Model.ServerExit.

Definition fin : finished :=
  {| f_retcode := Some 0; f_signal := None; f_stdout := [104; 105]; f_stderr := [119]; f_color := 2 |}.
Definition evs : list levent := [LAccept 1; LRequest 1 false; LPoll; LTick 1000; LAccept 2].
Definition evs' : list levent := [LFinish 2; LClose 2; LWake; LTick 500].
Definition later : list conn_attempt := [ARefused; ARefused; AOk].

(* connection 2 asks the server to stop while connection 1's compile is in flight; a third client arrives later *)
Lemma instance :
  lphase (lexec (linit 0 10000) evs) = Serving /\ has_conn 2 (lconns (lexec (linit 0 10000) evs)) = true /\
  connect_with_retry later = true /\ wf_finished fin /\ blen (encode_finished fin) < 4294967296 /\
  arrival (lexec (lstep (lstep (lexec (linit 0 10000) evs) (LRequest 2 true)) LPoll) evs') = ARefused.
Proof. unfold wf_finished; simpl. repeat split; try reflexivity; vm_compute; reflexivity. Qed.
End C20Ex.

(* ------------------------------------------------------------------ C09 ⟵ C07 *)
Module C09C07Ex.
Import Sccache.Model.Lru Sccache.Model.LruPut Sccache.Model.ReqSM Sccache.Proofs.ReqSM Sccache.Proofs.ComposeC09C07.

Definition ka : key := [97; 47; 97; 47; 97].
Definition kb : key := [98; 47; 98; 47; 98].
(* a store history with a write that fails after 3 bytes, an entry larger than the cache, and a good store *)
Definition hist : list dop := [DPut ka 40 (Some 3); DPut kb 200 None; DPut kb 60 None; DGet ka].

Lemma instance :
  consistent demo_oracle /\ Inv demo_oracle empty_cache /\ sane (demo_oracle 3) /\ calm_oracle (demo_oracle 3) /\
  cs_ro empty_cache = false /\ o_pp_status (demo_oracle 3) = 0 /\ o_c_status (demo_oracle 3) = 0 /\
  o_cacheable (demo_oracle 3) = true /\ 40 <= 100 /\
  (* the classes, on this history: write error, too large, stored *)
  fault_class (snd (put (reopen (empty 100) 100) ka 40 (Some 3))) = WErr /\
  fault_class (snd (put (reopen (empty 100) 100) kb 200 None)) = WTooLarge /\
  store_faults (drun (reopen (empty 100) 100) hist) ka 40 None = no_faults /\
  f_outdir_ok no_faults = true /\ calm no_faults (demo_oracle 3).
Proof.
  split; [exact demo_consistent|]. split; [apply Inv_empty|]. split; [apply demo_sane|].
  split; [split; reflexivity|]. split; [reflexivity|]. split; [reflexivity|]. split; [reflexivity|].
  split; [reflexivity|]. split; [discriminate|].
  split; [vm_compute; reflexivity|]. split; [vm_compute; reflexivity|]. split; [vm_compute; reflexivity|].
  split; [reflexivity|]. apply calm_no_faults. split; reflexivity.
Qed.
End C09C07Ex.

(* ------------------------------------------------------------------ C01 ⟵ C08 ⟵ C10 *)
Module HitEx.
Import Sccache.Model.FsModel Sccache.Model.Extract Sccache.Model.Zip Sccache.Proofs.Zip
       Sccache.Proofs.ComposeHitBytes.

Definition pa : path := ([100], [97]).          (* d/a *)
Definition pb : path := ([100], [98]).          (* d/b *)
Definition f0 : fs := mk_fs_from [(pa, ([1; 2; 3], 420))] 0.
(* the two members of C08's example entry (obj 0o755 "\x7fELF", dwo 0o644 [1;2]), decoded in two writes / one write *)
Definition objs : list obj :=
  [ mkObj pa [120] [[127; 69]; [76; 70]] (DecOk (Some 33261)) false FNone false;
    mkObj pb [121] [[1; 2]] (DecOk (Some 33188)) true FNone false ].
Definition sched : list nat := repeat 0%nat 40.

Lemma instance :
  (forall x, ex_decompress (ex_compress x) = Some x) /\
  objs_ok ex_objs /\ writable (cache_members ex_compress ex_objs [] ex_stderr) = true /\
  no_z64_locator (cache_write ex_compress ex_objs [] ex_stderr) = true /\
  map fst ex_reqs = map obj_name ex_objs /\
  match unpack ex_decompress (cache_write ex_compress ex_objs [] ex_stderr) ex_reqs with
  | UHit _ _ files => Forall2 decodes files objs
  | _ => False
  end /\
  fs_okb f0 = true /\ outputs_okb objs = true /\ forallb (observerb f0) [] = true /\ NoDup (map o_path objs) /\
  match snd (run sched f0 objs []) with (l, []) :: _ => l_dead l = false | _ => False end /\
  content (fst (run sched f0 objs [])) pa = Some [127; 69; 76; 70] /\
  content (fst (run sched f0 objs [])) pb = Some [1; 2].
Proof.
  split; [exact ex_zstd_law|]. split; [exact ex_objs_ok|].
  destruct ex_hypotheses as (Hw & Hz & _). split; [exact Hw|]. split; [exact Hz|]. split; [reflexivity|].
  split; [vm_compute; repeat constructor|].
  split; [vm_compute; reflexivity|]. split; [vm_compute; reflexivity|]. split; [reflexivity|].
  split; [repeat constructor; simpl; intuition discriminate|].
  vm_compute. repeat split; reflexivity.
Qed.
End HitEx.

(* ------------------------------------------------------------------ C15 ⟵ C07 *)
From Sccache Require Proofs.Lru Model.RoCache Proofs.RoCache Proofs.ComposeC15.
Module C15Ex.
Import Sccache.Model.Lru Sccache.Model.LruPut Sccache.Proofs.Lru Sccache.Proofs.ComposeC15.
Module RC := Sccache.Model.RoCache.
Module RCP := Sccache.Proofs.RoCache.

Definition k1 : key := [97; 98; 99; 100].      (* abcd -> a/b/abcd *)
Definition k2 : key := [99; 100; 101; 102].    (* cdef -> c/d/cdef *)
(* a read-write history: a write fails after 3 bytes, the retry stores 40 bytes; an entry larger than the cache is
   refused; a second entry and a preprocessor entry are stored; a lookup *)
Definition hist : list dop :=
  [DPut (RC.main_path k1) 40 (Some 3); DPut (RC.main_path k1) 40 None; DPut (RC.main_path k2) 200 None;
   DPut (RC.main_path k2) 30 None; DPutPp (RC.pp_path k1) 10 (Some 2); DPutPp (RC.pp_path k1) 10 None;
   DGet (RC.main_path k1)].
Definition s : st := drun (reopen (empty 100) 100) hist.
Definition ro_ops : list RC.op := [RC.Get k2; RC.Put k2 30 7; RC.PpPut k1; RC.Restart false true 100; RC.Get [120; 121]].
Definition d' : RC.dc := RC.run (RC.start false 120 17 (files s) [] [] 1000) ro_ops.

Lemma instance :
  dir_ok (empty 100) /\ 100 <= 120 /\
  forallb (RCP.ro_op_fits (RC.total_size (files s))) ro_ops = true /\
  forallb RC.ro_item (map RC.IOp ro_ops) = true /\
  (* both entries and the preprocessor entry are indexed by the read-write store, and served read-only *)
  alookup (RC.main_path k1) (index s) = Some 40 /\ alookup (RC.main_path k2) (index s) = Some 30 /\
  alookup (RC.pp_path k1) (index s) = Some 10 /\
  is_temp (RC.main_path k1) = false /\ RC.min_entry <= 40 /\
  snd (RC.step d' (RC.Get k1)) = RC.OHit /\ snd (RC.step d' (RC.Get k2)) = RC.OHit /\
  snd (RC.step d' (RC.PpGet k1)) = RC.OFound /\ snd (RC.step d' (RC.Get [120; 121])) = RC.OMiss.
Proof.
  split; [repeat split; try exact I; intros; discriminate|].
  split; [discriminate|].
  vm_compute. repeat split; try reflexivity; discriminate.
Qed.
End C15Ex.
