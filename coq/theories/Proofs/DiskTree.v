(* Proofs/DiskTree.v — the crash clause of C06 for BOTH stores of DiskCache over one tree
   (Model/DiskTree.v): whatever calls on the result store and on the nested preprocessor-entry store
   were in flight when the server died, once the restarted server has opened its two stores no file
   with a temp name is left ANYWHERE in the tree, neither store indexes one, and each store's size is
   the sum of what it indexes.

   The proof goes through LruDiskCache::init itself (Lru.init_add): files are only ever removed by an
   init, a walked file whose FILE NAME starts with TEMPFILE_PREFIX is removed, only non-temp paths are
   indexed.  The result store walks the whole tree, so the order in which the stores are opened does
   not matter.  The only invariant needed of the running system is that the directory listing stays a
   well-formed (key-sorted, duplicate-free) map. *)
From Coq Require Import List NArith PeanoNat Bool Lia ZifyBool Permutation.
From Sccache Require Import Base.Sx Model.Lru Model.DiskCache Model.DiskTree.
From Sccache Require Model.RoCache.
From Sccache Require Proofs.Lru Proofs.DiskCache.
Import ListNotations.
Local Open Scope N_scope.

#[local] Arguments N.add : simpl never.
#[local] Arguments N.sub : simpl never.
#[local] Arguments N.leb : simpl never.
#[local] Arguments N.ltb : simpl never.
#[local] Arguments N.eqb : simpl never.

Module PL := Sccache.Proofs.Lru.
Module PD := Sccache.Proofs.DiskCache.

(* ====================================================================== *)
(* A. LruDiskCache::init, entry by entry                                   *)
(* ====================================================================== *)

Lemma aremove_sub {V} k k' (l : list (key * V)) x : alookup k (aremove k' l) = Some x -> alookup k l = Some x.
Proof.
  intros H. destruct (PL.key_eq_dec k k') as [->|Hne].
  - rewrite PL.alookup_aremove_eq in H. discriminate.
  - rewrite PL.alookup_aremove_neq in H by auto. exact H.
Qed.

Lemma make_space_files_sub s n ok s' k x :
  make_space s n = (ok, s') -> alookup k (files s') = Some x -> alookup k (files s) = Some x.
Proof.
  intros H Hf. apply PL.make_space_spec in H as (pre & idx' & m' & -> & _). simpl in Hf.
  eapply PD.rmkeys_sub; eauto.
Qed.

Lemma init_add_files_sub s e k x :
  alookup k (files (init_add s e)) = Some x -> alookup k (files s) = Some x.
Proof.
  unfold init_add. destruct e as [k0 [sz mt]]. destruct (is_temp k0).
  - simpl. apply aremove_sub.
  - destruct (negb (sz <=? cap s)).
    + simpl. apply aremove_sub.
    + destruct (make_space s sz) as [ok s1] eqn:E. destruct ok.
      * rewrite PL.files_lru_insert. eapply make_space_files_sub; eauto.
      * eapply make_space_files_sub; eauto.
Qed.

Lemma init_add_temp_gone s k v : is_temp k = true -> alookup k (files (init_add s (k, v))) = None.
Proof. intros H. unfold init_add. destruct v as [sz mt]. rewrite H. simpl. apply PL.alookup_aremove_eq. Qed.

Lemma fold_init_files_sub l : forall s k x,
  alookup k (files (fold_left init_add l s)) = Some x -> alookup k (files s) = Some x.
Proof.
  induction l as [|e l IH]; intros s k x H; simpl in *; auto.
  apply IH in H. eapply init_add_files_sub; eauto.
Qed.

Lemma fold_init_none l s k : alookup k (files s) = None -> alookup k (files (fold_left init_add l s)) = None.
Proof.
  intros H. destruct (alookup k (files (fold_left init_add l s))) as [x|] eqn:E; auto.
  apply fold_init_files_sub in E. congruence.
Qed.

(* every walked temp file is gone afterwards *)
Lemma fold_init_no_temp l : forall s k, is_temp k = true ->
  alookup k (files s) = None \/ In k (PL.keys l) ->
  alookup k (files (fold_left init_add l s)) = None.
Proof.
  induction l as [|[k0 v0] l IH]; intros s k Ht H; simpl in *.
  - destruct H as [H|[]]; auto.
  - destruct (PL.key_eq_dec k k0) as [->|Hne].
    + apply fold_init_none. apply init_add_temp_gone; auto.
    + apply IH; auto. destruct H as [H|[H|H]]; auto; [|congruence].
      left. destruct (alookup k (files (init_add s (k0, v0)))) as [x|] eqn:E; auto.
      apply init_add_files_sub in E. congruence.
Qed.

Lemma lru_trim_suffix : forall idx m c idx' m', lru_trim idx m c = (idx', m') -> exists pre, idx = pre ++ idx'.
Proof.
  induction idx as [|[k sz] r IH]; intros m c idx' m' H; simpl in H.
  - destruct (m <=? c); inversion H; subst; exists []; auto.
  - destruct (m <=? c).
    + inversion H; subst. exists []; auto.
    + apply IH in H as [pre ->]. exists ((k, sz) :: pre). auto.
Qed.

Definition idx_clean (s : st) : Prop := forall k, is_temp k = true -> alookup k (index s) = None.

Lemma lru_insert_clean s k v : idx_clean s -> is_temp k = false -> idx_clean (lru_insert s k v).
Proof.
  intros Hc Hk k' Ht. unfold lru_insert.
  destruct (lru_trim _ _ _) as [idx' m3] eqn:E. simpl.
  apply lru_trim_suffix in E as [pre E].
  assert (Hn : alookup k' (aremove k (index s) ++ [(k, v)]) = None).
  { rewrite PL.alookup_app. assert (k' <> k) by congruence.
    rewrite PL.alookup_aremove_neq by auto. rewrite (Hc k' Ht). simpl.
    destruct (bytes_eqb k' k) eqn:Eb; auto. apply bytes_eqb_eq in Eb. contradiction. }
  rewrite E in Hn. apply PL.alookup_app_None in Hn. tauto.
Qed.

Lemma make_space_clean s n ok s' : idx_clean s -> make_space s n = (ok, s') -> idx_clean s'.
Proof.
  intros Hc H k Ht. apply PL.make_space_spec in H as (pre & idx' & m' & -> & Hi & _). simpl.
  specialize (Hc k Ht). rewrite Hi in Hc. apply PL.alookup_app_None in Hc. tauto.
Qed.

Lemma init_add_clean s e : idx_clean s -> idx_clean (init_add s e).
Proof.
  intros Hc. unfold init_add. destruct e as [k [sz mt]]. destruct (is_temp k) eqn:Ht; [exact Hc|].
  destruct (negb (sz <=? cap s)); [exact Hc|].
  destruct (make_space s sz) as [ok s1] eqn:E. pose proof (make_space_clean _ _ _ _ Hc E) as H1.
  destruct ok; auto. apply lru_insert_clean; auto.
Qed.

Lemma fold_init_clean l : forall s, idx_clean s -> idx_clean (fold_left init_add l s).
Proof. induction l as [|e l IH]; intros s H; simpl; auto. apply IH, init_add_clean, H. Qed.

Lemma handles_init_add s e : handles (init_add s e) = handles s.
Proof.
  unfold init_add. destruct e as [k [sz mt]]. destruct (is_temp k); [reflexivity|].
  destruct (negb (sz <=? cap s)); [reflexivity|].
  destruct (make_space s sz) as [ok s1] eqn:E. apply PD.handles_make_space in E.
  destruct ok; [rewrite PD.handles_lru_insert|]; auto.
Qed.

Lemma handles_fold_init l : forall s, handles (fold_left init_add l s) = handles s.
Proof. induction l as [|e l IH]; intros s; simpl; auto. rewrite IH. apply handles_init_add. Qed.

(* an opened store counts exactly what it indexes *)
Lemma fold_init_size l s :
  PL.inv s -> handles s = [] -> size (fold_left init_add l s) = PD.sum_sizes (index (fold_left init_add l s)).
Proof.
  intros Hi Hh. pose proof (PL.inv_fold_init l s Hi) as [(Hm & _ & _ & Hp) _].
  rewrite handles_fold_init, Hh in Hp. simpl in Hp. unfold size. rewrite PD.sum_sizes_sumsz. lia.
Qed.

Lemma inv_fresh c fs clk : PL.inv (RoCache.fresh c fs clk).
Proof.
  split; [unfold PL.acct|unfold PL.hwf]; simpl.
  - repeat split; try constructor; lia.
  - split; [constructor|tauto].
Qed.

Lemma ks_init_add s e : PL.ksorted (files s) -> PL.ksorted (files (init_add s e)).
Proof.
  intros H. unfold init_add. destruct e as [k [sz mt]]. destruct (is_temp k).
  - simpl. apply PL.ksorted_aremove; auto.
  - destruct (negb (sz <=? cap s)).
    + simpl. apply PL.ksorted_aremove; auto.
    + destruct (make_space s sz) as [ok s1] eqn:E. pose proof (PL.ks_make_space _ _ _ _ H E).
      destruct ok; auto. rewrite PL.files_lru_insert. auto.
Qed.

Lemma ks_fold_init l : forall s, PL.ksorted (files s) -> PL.ksorted (files (fold_left init_add l s)).
Proof. induction l as [|e l IH]; intros s H; simpl; auto. apply IH, ks_init_add, H. Qed.

Lemma in_sort_mtime l k : In k (PL.keys l) -> In k (PL.keys (sort_mtime l)).
Proof.
  unfold PL.keys. intros H. eapply Permutation_in; [|exact H].
  apply Permutation_map, Permutation_sym, PL.sort_mtime_perm.
Qed.

(* ---------- the two opens ---------- *)

Lemma reopen_no_temp_any s c k : is_temp k = true -> alookup k (files (reopen s c)) = None.
Proof.
  intros Ht. unfold reopen. apply fold_init_no_temp; auto. simpl.
  destruct (alookup k (files s)) as [x|] eqn:E; auto. right.
  apply in_sort_mtime. eapply PL.alookup_Some_key; eauto.
Qed.

Lemma reopen_clean s c : idx_clean (reopen s c).
Proof. unfold reopen. apply fold_init_clean. intros k _. reflexivity. Qed.

Lemma reopen_size s c : size (reopen s c) = PD.sum_sizes (index (reopen s c)).
Proof.
  unfold reopen. apply fold_init_size; auto.
  split; [unfold PL.acct|unfold PL.hwf]; simpl.
  - repeat split; try constructor; lia.
  - split; [constructor|tauto].
Qed.

Lemma open_rw_sub which c fs clk k x :
  alookup k (files (RoCache.open_rw which c fs clk)) = Some x -> alookup k fs = Some x.
Proof. unfold RoCache.open_rw. intros H. apply fold_init_files_sub in H. exact H. Qed.

Lemma open_rw_clean which c fs clk : idx_clean (RoCache.open_rw which c fs clk).
Proof. unfold RoCache.open_rw. apply fold_init_clean. intros k _. reflexivity. Qed.

Lemma open_rw_size which c fs clk :
  size (RoCache.open_rw which c fs clk) = PD.sum_sizes (index (RoCache.open_rw which c fs clk)).
Proof. unfold RoCache.open_rw. apply fold_init_size; [apply inv_fresh|reflexivity]. Qed.

(* the nested store's open removes every temp file under preprocessor/ *)
Lemma open_rw_pp_no_temp c fs clk k :
  is_temp k = true -> RoCache.under_pp k = true -> alookup k (files (RoCache.open_rw true c fs clk)) = None.
Proof.
  intros Ht Hu. unfold RoCache.open_rw. apply fold_init_no_temp; auto. simpl.
  destruct (alookup k fs) as [x|] eqn:E; auto. right. unfold RoCache.walked.
  apply in_sort_mtime. unfold PL.keys. apply in_map_iff. exists (k, x). split; auto.
  apply filter_In. split; [apply PD.alookup_In; auto|]. simpl. exact Hu.
Qed.

(* ====================================================================== *)
(* B. the restarted server                                                 *)
(* ====================================================================== *)

Definition tree_clean (r : tst) : Prop :=
  (forall p, is_temp p = true -> alookup p (disk_files r) = None) /\
  tmps (base r) = [] /\ pp_tmps r = [] /\
  (forall p, is_temp p = true ->
     alookup p (index (lru (base r))) = None /\ alookup p (index (pps r)) = None) /\
  size (lru (base r)) = PD.sum_sizes (index (lru (base r))) /\
  size (pps r) = PD.sum_sizes (index (pps r)).

(* the statement of C06_crash_safe_tree, for any state the dead server may have left *)
Theorem restart_clean (t : tst) (c' : N) (pp_first : bool) :
  tree_clean (open_both pp_first (trestart c' t)).
Proof.
  unfold tree_clean, open_both, trestart, tboot, main_open, pp_ensure_init, ensure_init, disk_files.
  destruct pp_first; simpl.
  - (* nested store first *)
    set (d := materialise t).
    set (l := RoCache.open_rw true c' (d_files d) (d_clock d)).
    split; [|split; [|split; [|split; [|split]]]]; auto.
    + intros p Ht. apply reopen_no_temp_any; auto.
    + intros p Ht. split; [apply reopen_clean|apply open_rw_clean]; auto.
    + apply reopen_size.
    + apply open_rw_size.
  - (* result store first *)
    set (d := materialise t).
    set (m := reopen _ c').
    split; [|split; [|split; [|split; [|split]]]]; auto.
    + intros p Ht.
      destruct (alookup p (files (RoCache.open_rw true c' (files m) (clock m)))) as [x|] eqn:E; auto.
      apply open_rw_sub in E. unfold m in E. rewrite reopen_no_temp_any in E by auto. discriminate.
    + intros p Ht. split; [apply reopen_clean|apply open_rw_clean]; auto.
    + apply reopen_size.
    + apply open_rw_size.
Qed.

(* ====================================================================== *)
(* C. what the dead server leaves behind really is in the tree             *)
(* ====================================================================== *)

Lemma temp_name_root_is_temp h : is_temp (temp_name [] h) = true.
Proof.
  unfold temp_name, is_temp, file_name, tempfile_prefix. simpl.
  destruct (h + 256 =? 47) eqn:E; [lia|]. reflexivity.
Qed.

Lemma temp_name_pp_is_temp h : is_temp (temp_name RoCache.pp_prefix h) = true.
Proof.
  unfold temp_name, is_temp, file_name, tempfile_prefix, RoCache.pp_prefix, RoCache.pp_dir. simpl.
  destruct (h + 256 =? 47) eqn:E; [lia|]. reflexivity.
Qed.

Lemma temp_name_pp_under h : RoCache.under_pp (temp_name RoCache.pp_prefix h) = true.
Proof. reflexivity. Qed.

Lemma alookup_ains_some {V} k k' (v : V) l : alookup k l <> None -> alookup k (ains k' v l) <> None.
Proof.
  intros H. destruct (PL.key_eq_dec k k') as [->|Hne].
  - rewrite PL.alookup_ains_eq. discriminate.
  - rewrite PL.alookup_ains_neq by auto. exact H.
Qed.

Lemma add_temp_keeps dirp inod acc e k :
  alookup k (fst (fst acc)) <> None -> alookup k (fst (fst (add_temp dirp inod acc e))) <> None.
Proof.
  destruct acc as [[fs d] clk]. destruct e as [h ino]. unfold add_temp.
  destruct (hlookup ino inod); simpl; auto. apply alookup_ains_some.
Qed.

Lemma fold_add_temp_keeps dirp inod l : forall acc k,
  alookup k (fst (fst acc)) <> None -> alookup k (fst (fst (fold_left (add_temp dirp inod) l acc))) <> None.
Proof. induction l as [|e l IH]; intros acc k H; simpl; auto. apply IH, add_temp_keeps, H. Qed.

Lemma fold_add_temp_lists dirp inod l : forall acc h ino v,
  In (h, ino) l -> hlookup ino inod = Some v ->
  alookup (temp_name dirp h) (fst (fst (fold_left (add_temp dirp inod) l acc))) <> None.
Proof.
  induction l as [|e l IH]; intros acc h ino v Hin Hl; simpl in *; [tauto|].
  destruct Hin as [->|Hin]; [|eapply IH; eauto].
  apply fold_add_temp_keeps. destruct acc as [[fs d] clk]. unfold add_temp. rewrite Hl. simpl.
  rewrite PL.alookup_ains_eq. discriminate.
Qed.

(* every temp file of a call in flight — of either store — is a file of the tree the restarted server finds *)
Theorem materialise_lists_temps (t : tst) :
  (forall h ino v, In (h, ino) (tmps (base t)) -> hlookup ino (inodes (base t)) = Some v ->
     alookup (temp_name [] h) (d_files (materialise t)) <> None) /\
  (forall h ino v, In (h, ino) (pp_tmps t) -> hlookup ino (inodes (base t)) = Some v ->
     alookup (temp_name RoCache.pp_prefix h) (d_files (materialise t)) <> None).
Proof.
  unfold materialise.
  set (a0 := (files (lru (base t)), dir (base t), clock (lru (base t)))).
  set (a1 := fold_left (add_temp [] (inodes (base t))) (tmps (base t)) a0).
  destruct (fold_left (add_temp RoCache.pp_prefix (inodes (base t))) (pp_tmps t) a1) as [[fs d] clk] eqn:E.
  simpl. split.
  - intros h ino v Hin Hl.
    change fs with (fst (fst (fs, d, clk))). rewrite <- E. apply fold_add_temp_keeps.
    unfold a1. eapply fold_add_temp_lists; eauto.
  - intros h ino v Hin Hl.
    change fs with (fst (fst (fs, d, clk))). rewrite <- E. eapply fold_add_temp_lists; eauto.
Qed.

(* ====================================================================== *)
(* D. with result-store calls only, the tree model IS Model/DiskCache.v     *)
(* ====================================================================== *)

Lemma set_nth_map {A B} (f : A -> B) t x l : set_nth t (f x) (map f l) = map f (set_nth t x l).
Proof. revert l; induction t as [|t IH]; intros [|a l]; simpl; auto. f_equal. apply IH. Qed.

Definition main_rel (w : world) (tw : tworld) : Prop :=
  base (tws tw) = ws w /\ twt tw = map TMain (wt w) /\ twlog tw = map EMain (wlog w).

Lemma texec1_main w tw t : main_rel w tw -> main_rel (exec1 w t) (texec1 tw t).
Proof.
  intros (Hb & Ht & Hl). unfold exec1, texec1. rewrite Ht, nth_error_map.
  destruct (nth_error (wt w) t) as [th|] eqn:E; simpl; [|repeat split; auto].
  rewrite Hb. destruct (step_thread t (ws w) th) as [[s' th'] ev] eqn:Es. simpl.
  repeat split; simpl; auto.
  - apply set_nth_map.
  - rewrite Hl, map_app. reflexivity.
Qed.

(* so every theorem about [exec (start c d ths) sched] (C06_get_complete, C06_no_errors,
   C06_uncommitted_invisible, ...) speaks about the result store of the tree model as long as no
   nested-store call is made *)
Theorem tree_refines_main c d ths sched :
  main_rel (exec (start c d ths) sched) (texec (tstart c d (map TMain ths)) sched).
Proof.
  unfold exec, texec.
  assert (H0 : main_rel (start c d ths) (tstart c d (map TMain ths))) by (repeat split; auto).
  revert H0. generalize (start c d ths) (tstart c d (map TMain ths)).
  induction sched as [|t r IH]; intros w tw H; simpl; auto. apply IH, texec1_main, H.
Qed.
