(* Proofs/Jobserver.v — invariants and theorems about Model/Jobserver.v (property C16).

   A  list lemmas (mem / del / len)
   B  the invariant [Inv] and its preservation by every event
   C  safety: conservation, bound, no leak, quiescence, the saturating burst
   D  shape of the queue (FIFO) and of the non-helper steps
   E  deadlock freedom
   F  progress on fair infinite schedules *)
From Coq Require Import List NArith Bool Lia ZifyN ZifyBool Arith.
From Sccache Require Import Model.Jobserver.
Import ListNotations.
Local Open Scope N_scope.

#[local] Arguments N.add : simpl never.
#[local] Arguments N.sub : simpl never.
#[local] Arguments N.eqb : simpl never.
#[local] Arguments N.leb : simpl never.
#[local] Arguments N.of_nat : simpl never.

(* ====================================================================== *)
(* A. lists                                                                *)
(* ====================================================================== *)

Lemma mem_In r l : mem r l = true <-> In r l.
Proof.
  induction l as [|x t IH]; simpl.
  - split; [discriminate | tauto].
  - destruct (x =? r) eqn:E.
    + apply N.eqb_eq in E. split; auto.
    + apply N.eqb_neq in E. rewrite IH. split; [auto | intros [H|H]; [congruence | auto]].
Qed.

Lemma mem_false_In r l : mem r l = false <-> ~ In r l.
Proof. rewrite <- mem_In. destruct (mem r l); split; congruence. Qed.

Lemma mem_app r a b : mem r (a ++ b) = mem r a || mem r b.
Proof.
  induction a as [|x t IH]; simpl; auto. destruct (x =? r); auto.
Qed.

Lemma mem_single r x : mem r [x] = (x =? r).
Proof. simpl. destruct (x =? r); auto. Qed.

Lemma len_nil : len [] = 0.
Proof. reflexivity. Qed.

Lemma len_cons x l : len (x :: l) = len l + 1.
Proof. unfold len. simpl length. lia. Qed.

Lemma len_app a b : len (a ++ b) = len a + len b.
Proof. unfold len. rewrite app_length. lia. Qed.

Lemma len_snoc l r : len (l ++ [r]) = len l + 1.
Proof. rewrite len_app. reflexivity. Qed.

Lemma len_del r l : mem r l = true -> len (del r l) + 1 = len l.
Proof.
  induction l as [|x t IH]; simpl; [discriminate|].
  destruct (x =? r) eqn:E; intros H.
  - rewrite len_cons. reflexivity.
  - rewrite !len_cons. rewrite <- (IH H). lia.
Qed.

Lemma len_zero l : len l = 0 -> l = [].
Proof. destruct l; auto. rewrite len_cons. lia. Qed.

Lemma In_del r x l : In x (del r l) -> In x l.
Proof.
  induction l as [|y t IH]; simpl; auto.
  destruct (y =? r); simpl; intuition.
Qed.

Lemma In_del_neq r x l : x <> r -> In x l -> In x (del r l).
Proof.
  intros Hn. induction l as [|y t IH]; simpl; auto.
  destruct (y =? r) eqn:E; simpl.
  - apply N.eqb_eq in E. intros [H|H]; [congruence | auto].
  - intros [H|H]; auto.
Qed.

Lemma NoDup_del r l : NoDup l -> NoDup (del r l).
Proof.
  induction 1 as [|x t Hx Hn IH]; simpl; [constructor|].
  destruct (x =? r); auto. constructor; auto. intro H. apply Hx. eapply In_del; eauto.
Qed.

Lemma NoDup_del_notin r l : NoDup l -> ~ In r (del r l).
Proof.
  induction 1 as [|x t Hx Hn IH]; simpl; auto.
  destruct (x =? r) eqn:E.
  - apply N.eqb_eq in E. subst; auto.
  - apply N.eqb_neq in E. simpl. intros [H|H]; auto.
Qed.

Lemma NoDup_snoc (r : rid) l : NoDup l -> ~ In r l -> NoDup (l ++ [r]).
Proof.
  intros Hn Hr. induction Hn as [|x t Hx Hn IH]; simpl.
  - constructor; auto. constructor.
  - constructor.
    + rewrite in_app_iff. simpl. intros [H|[H|[]]]; [auto | subst; apply Hr; left; auto].
    + apply IH. intro; apply Hr; right; auto.
Qed.

(* ====================================================================== *)
(* B. the invariant                                                        *)
(* ====================================================================== *)

Record Inv (n : N) (s : st) : Prop := {
  inv_tokens : pool s + b2n (hand s) + len (slots s) + len (held s) + len (running s) = n;
  inv_cycles : reqs s + b2n (hand s) = len (queue s);
  inv_gone   : forall r, In r (gone s) -> In r (queue s);
  inv_ndq    : NoDup (queue s);
  inv_ndg    : NoDup (gone s)
}.

Lemma Inv_init n : Inv n (init n).
Proof.
  constructor; simpl; try (rewrite ?len_nil; unfold b2n; lia); try constructor; intros r [].
Qed.

Ltac inv_step H :=
  match type of H with
  | (if ?c then _ else _) = Some _ => let E := fresh "E" in destruct c eqn:E; [|try discriminate]; try discriminate
  | match ?q with [] => _ | _ :: _ => _ end = Some _ => let x := fresh "x" in let q' := fresh "q" in destruct q as [|x q'] eqn:?; try discriminate
  end.

Lemma Inv_step n s e s' : Inv n s -> step s e = Some s' -> Inv n s'.
Proof.
  intros [I1 I2 I3 I4 I5] H.
  destruct s as [p q h qu g sl he ru orp dr]; simpl in *.
  destruct e; simpl in H.
  - (* Request *)
    destruct (active _ r) eqn:A; [discriminate|]. inversion H; subst; clear H.
    unfold active in A; simpl in A. rewrite !orb_false_iff in A. destruct A as [[[[[A1 _] _] _] _] _].
    apply mem_false_In in A1.
    constructor; simpl; auto.
    + rewrite len_snoc. lia.
    + intros x Hx. apply in_or_app. left; auto.
    + apply NoDup_snoc; auto.
  - (* HelperAcquire *)
    destruct h; [discriminate|]. destruct (q =? 0) eqn:Eq; [discriminate|].
    destruct (p =? 0) eqn:Ep; [discriminate|]. inversion H; subst; clear H.
    apply N.eqb_neq in Eq, Ep. unfold b2n in *.
    constructor; simpl; auto; lia.
  - (* Deliver *)
    destruct h; [|discriminate]. destruct qu as [|x qu']; [discriminate|].
    destruct (mem x g) eqn:Eg; inversion H; subst; clear H; unfold b2n in *.
    + apply mem_In in Eg.
      constructor; simpl; auto.
      * lia.
      * rewrite len_cons in I2. lia.
      * intros r Hr. assert (Hr' := In_del _ _ _ Hr). apply I3 in Hr'. destruct Hr' as [Hx|Hx]; auto.
        subst r. exfalso. eapply NoDup_del_notin; eauto.
      * inversion I4; auto.
      * apply NoDup_del; auto.
    + apply mem_false_In in Eg.
      constructor; simpl; auto.
      * rewrite len_snoc. lia.
      * rewrite len_cons in I2. lia.
      * intros r Hr. destruct (I3 r Hr) as [Hx|Hx]; auto. subst; contradiction.
      * inversion I4; auto.
  - (* Receive *)
    destruct (mem r sl) eqn:E; [|discriminate]. inversion H; subst; clear H.
    constructor; simpl; auto. rewrite len_snoc. pose proof (len_del _ _ E). lia.
  - (* Cancel *)
    destruct (mem r sl) eqn:E.
    + inversion H; subst; clear H. constructor; simpl; auto. pose proof (len_del _ _ E). lia.
    + destruct (mem r qu && negb (mem r g)) eqn:E2; [|discriminate]. inversion H; subst; clear H.
      apply andb_true_iff in E2. destruct E2 as [E2 E3]. apply mem_In in E2.
      apply negb_true_iff in E3. apply mem_false_In in E3.
      constructor; simpl; auto.
      * intros x [Hx|Hx]; subst; auto.
      * constructor; auto.
  - (* DropHeld *)
    destruct (mem r he) eqn:E; [|discriminate]. inversion H; subst; clear H.
    constructor; simpl; auto. pose proof (len_del _ _ E). lia.
  - (* Start *)
    destruct (mem r he) eqn:E; [|discriminate]. inversion H; subst; clear H.
    constructor; simpl; auto. rewrite len_snoc. pose proof (len_del _ _ E). lia.
  - (* SpawnFail *)
    destruct (mem r he) eqn:E; [|discriminate]. inversion H; subst; clear H.
    constructor; simpl; auto. pose proof (len_del _ _ E). lia.
  - (* Exit *)
    destruct (mem r ru) eqn:E; [|discriminate]. inversion H; subst; clear H.
    constructor; simpl; auto. pose proof (len_del _ _ E). lia.
  - (* DropRunning *)
    destruct (mem r ru) eqn:E; [|discriminate]. inversion H; subst; clear H.
    constructor; simpl; auto. pose proof (len_del _ _ E). lia.
  - (* OrphanExit *)
    destruct (mem r orp) eqn:E; [|discriminate]. inversion H; subst; clear H.
    constructor; simpl; auto.
  - (* Done *)
    destruct (mem r dr) eqn:E; [|discriminate]. inversion H; subst; clear H.
    constructor; simpl; auto.
Qed.

Lemma Inv_run n es : forall s s', Inv n s -> run s es = Some s' -> Inv n s'.
Proof.
  induction es as [|e r IH]; simpl; intros s s' I H.
  - inversion H; subst; auto.
  - destruct (step s e) eqn:E; [|discriminate]. eapply IH; [|eauto]. eapply Inv_step; eauto.
Qed.

Lemma Inv_reach n es s : run (init n) es = Some s -> Inv n s.
Proof. apply Inv_run. apply Inv_init. Qed.

Lemma run_app s a b : run s (a ++ b) = match run s a with Some s1 => run s1 b | None => None end.
Proof.
  revert s. induction a as [|e r IH]; simpl; intros s; auto.
  destruct (step s e); auto.
Qed.

(* ====================================================================== *)
(* C. safety                                                               *)
(* ====================================================================== *)

Lemma conservation n es s :
  run (init n) es = Some s -> pool s + in_hand_off s + holding s = n.
Proof.
  intros H. destruct (Inv_reach _ _ _ H) as [I1 _ _ _ _]. unfold in_hand_off, holding. lia.
Qed.

Lemma bound n es s :
  run (init n) es = Some s -> len (running s) <= n /\ holding s <= n.
Proof.
  intros H. pose proof (conservation _ _ _ H). unfold holding in *. lia.
Qed.

(* orphans are created by DropRunning only *)
Definition is_drop_running (e : event) : bool :=
  match e with DropRunning _ => true | _ => false end.

Lemma orphans_step s e s' :
  step s e = Some s' -> is_drop_running e = false -> orphans s = [] -> orphans s' = [].
Proof.
  destruct s as [p q h qu g sl he ru orp dr]; simpl. intros H Hd Ho. subst orp.
  destruct e; simpl in *; try discriminate;
    repeat match type of H with
           | (if ?c then _ else _) = Some _ => destruct c; try discriminate
           | match ?l with [] => _ | _ :: _ => _ end = Some _ => destruct l; try discriminate
           end; inversion H; subst; reflexivity.
Qed.

Lemma orphans_run es : forall s s',
  run s es = Some s' -> forallb (fun e => negb (is_drop_running e)) es = true -> orphans s = [] -> orphans s' = [].
Proof.
  induction es as [|e r IH]; simpl; intros s s' H Hf Ho.
  - inversion H; subst; auto.
  - destruct (step s e) eqn:E; [|discriminate]. apply andb_true_iff in Hf. destruct Hf as [H1 H2].
    apply negb_true_iff in H1. eapply IH; eauto. eapply orphans_step; eauto.
Qed.

Lemma bound_live n es s :
  run (init n) es = Some s ->
  live_procs s <= n + len (orphans s) /\
  (forallb (fun e => negb (is_drop_running e)) es = true -> live_procs s <= n).
Proof.
  intros H. pose proof (bound _ _ _ H) as [B _]. unfold live_procs. split; [lia|].
  intros Hf. rewrite (orphans_run _ _ _ H Hf eq_refl). rewrite len_nil. lia.
Qed.

(* every way a requester lets go of a token: the token is back in the pipe at once *)
Definition gives_back (s : st) (e : event) : bool :=
  match e with
  | DropHeld _ | SpawnFail _ | Exit _ _ | DropRunning _ => true
  | Cancel r => mem r (slots s)
  | _ => false
  end.

Lemma no_leak_step s e s' :
  step s e = Some s' -> gives_back s e = true ->
  pool s' = pool s + 1 /\ in_hand_off s' + holding s' + 1 = in_hand_off s + holding s.
Proof.
  destruct s as [p q h qu g sl he ru orp dr]; unfold in_hand_off, holding; simpl. intros H G.
  destruct e; simpl in *; try discriminate;
    match type of H with
    | (if ?c then _ else _) = Some _ => destruct c eqn:E; try discriminate
    end; inversion H; subst; simpl; split; auto;
    pose proof (len_del _ _ E); lia.
Qed.

(* a cancelled waiter costs nothing: the helper gives the token it took for it straight back *)
Lemma no_leak_gone s s' h q :
  step s Deliver = Some s' -> queue s = h :: q -> mem h (gone s) = true ->
  pool s' = pool s + 1 /\ hand s' = false /\ slots s' = slots s.
Proof.
  destruct s as [p rq hd qu g sl he ru orp dr]; simpl. intros H Hq Hg. subst qu.
  destruct hd; [|discriminate]. rewrite Hg in H. inversion H; subst; simpl; auto.
Qed.

Lemma quiescent_spec s :
  quiescent s = true <-> queue s = [] /\ slots s = [] /\ held s = [] /\ running s = [] /\ hand s = false.
Proof.
  unfold quiescent. destruct (queue s), (slots s), (held s), (running s), (hand s); simpl;
    split; intros H; try discriminate; try tauto; try (destruct H as (?&?&?&?&?); discriminate).
Qed.

Lemma no_leak_quiescent n es s :
  run (init n) es = Some s -> quiescent s = true -> pool s = n /\ reqs s = 0 /\ gone s = [].
Proof.
  intros H Q. apply quiescent_spec in Q. destruct Q as (Q1&Q2&Q3&Q4&Q5).
  destruct (Inv_reach _ _ _ H) as [I1 I2 I3 _ _].
  rewrite Q1, ?Q2, ?Q3, ?Q4, ?Q5 in *. rewrite ?len_nil in *. unfold b2n in *.
  split; [lia|]. split; [lia|].
  destruct (gone s) as [|x t]; auto. exfalso. apply (I3 x). left; auto.
Qed.

(* the saturating burst *)
Lemma burst_run m : forall s r0,
  queue s = [] -> gone s = [] -> slots s = [] -> hand s = false -> reqs s = 0 ->
  N.of_nat m <= pool s ->
  (forall i, (i < m)%nat -> active s (r0 + N.of_nat i) = false) ->
  exists s', run s (burst m r0) = Some s' /\
             queue s' = [] /\ gone s' = [] /\ slots s' = [] /\ hand s' = false /\ reqs s' = 0 /\
             pool s' + N.of_nat m = pool s /\ len (held s') = len (held s) + N.of_nat m /\
             running s' = running s /\ orphans s' = orphans s.
Proof.
  induction m as [|m IH]; intros s r0 Hq Hg Hs Hh Hr Hp Hf.
  - exists s. simpl. repeat split; auto; lia.
  - destruct s as [p q h qu g sl he ru orp dr]; simpl in *. subst qu g sl h q.
    assert (A0 : active (mk p 0 false [] [] [] he ru orp dr) r0 = false).
    { specialize (Hf 0%nat ltac:(lia)). replace (r0 + N.of_nat 0) with r0 in Hf by lia. exact Hf. }
    rewrite A0.
    unfold active in A0; simpl in A0.
    assert (Ep : (p =? 0) = false) by (apply N.eqb_neq; lia).
    assert (E1 : (0 + 1 =? 0) = false) by (apply N.eqb_neq; lia).
    cbn [run step app]. rewrite E1, Ep. cbn [run step mem app del]. rewrite N.eqb_refl.
    set (s1 := mk (p - 1) (0 + 1 - 1) false [] [] [] (he ++ [r0]) ru orp dr).
    destruct (IH s1 (r0 + 1)) as (s' & R & Q1 & Q2 & Q3 & Q4 & Q5 & Q6 & Q7 & Q8 & Q9); subst s1; simpl; auto; try lia.
    + intros i Hi. specialize (Hf (S i) ltac:(lia)).
      replace (r0 + 1 + N.of_nat i) with (r0 + N.of_nat (S i)) by lia.
      unfold active in *; simpl in *. rewrite mem_app, mem_single.
      destruct (mem (r0 + N.of_nat (S i)) he); simpl in *; auto.
      replace (r0 =? r0 + N.of_nat (S i)) with false by (symmetry; apply N.eqb_neq; lia).
      simpl. exact Hf.
    + exists s'. split; [exact R|]. simpl in *. repeat split; auto; try lia.
      rewrite Q7, len_snoc. lia.
Qed.

Lemma full_parallelism_restored n es s r0 :
  run (init n) es = Some s -> quiescent s = true ->
  (forall i, (i < N.to_nat n)%nat -> active s (r0 + N.of_nat i) = false) ->
  exists s', run s (burst (N.to_nat n) r0) = Some s' /\
             holding s' = n /\ pool s' = 0 /\
             (forall r s1, step s' (Request r) = Some s1 -> helper_enabled s1 = None).
Proof.
  intros H Q Hf. destruct (no_leak_quiescent _ _ _ H Q) as (P & R & G).
  apply quiescent_spec in Q. destruct Q as (Q1&Q2&Q3&Q4&Q5).
  destruct (burst_run (N.to_nat n) s r0) as (s' & R' & A1 & A2 & A3 & A4 & A5 & A6 & A7 & A8 & A9); auto; try lia.
  exists s'. split; [exact R'|].
  assert (Hp : pool s' = 0) by lia.
  unfold holding. rewrite A7, A8, Q3, Q4, len_nil. split; [lia|]. split; [exact Hp|].
  intros r s1 Hs. destruct s' as [p q h qu g sl he ru orp dr]; simpl in *. subst.
  destruct (active _ r); [discriminate|]. inversion Hs; subst. unfold helper_enabled; simpl.
  rewrite ?orb_true_r. reflexivity.
Qed.

(* ====================================================================== *)
(* D. the queue is a FIFO: appended at the tail, consumed at the head, and  *)
(*    a token only ever goes to the head                                    *)
(* ====================================================================== *)

Lemma fifo_step s e s' :
  step s e = Some s' ->
  (queue s' = queue s /\ e <> Deliver /\ (forall r, e <> Request r)) \/
  (exists r, e = Request r /\ queue s' = queue s ++ [r]) \/
  (e = Deliver /\ exists h, queue s = h :: queue s' /\
     ((mem h (gone s) = false /\ slots s' = slots s ++ [h] /\ pool s' = pool s) \/
      (mem h (gone s) = true /\ slots s' = slots s /\ pool s' = pool s + 1))).
Proof.
  destruct s as [p q h qu g sl he ru orp dr]; simpl. intros H.
  destruct e; simpl in *;
    try (left; repeat match type of H with
           | (if ?c then _ else _) = Some _ => destruct c; try discriminate
           end; inversion H; subst; simpl; repeat split; auto; try discriminate; intros; discriminate).
  - right; left. destruct (active _ r); [discriminate|]. inversion H; subst. exists r; auto.
  - right; right. destruct h; [|discriminate]. destruct qu as [|x t]; [discriminate|].
    split; auto. exists x. destruct (mem x g) eqn:E; inversion H; subst; simpl; split; auto.
Qed.

(* what a non-helper event can and cannot do *)
Lemma nonhelper_step s e s' :
  step s e = Some s' -> is_helper e = false ->
  hand s' = hand s /\ pool s <= pool s' /\ reqs s <= reqs s' /\
  (exists t, queue s' = queue s ++ t) /\
  (gives_back s e = true -> pool s' = pool s + 1).
Proof.
  destruct s as [p q h qu g sl he ru orp dr]; simpl. intros H Hh.
  destruct e; simpl in *; try discriminate;
    repeat match type of H with
           | (if ?c then _ else _) = Some _ => let E := fresh "E" in destruct c eqn:E; try discriminate
           end; inversion H; subst; simpl; repeat split; try lia;
    try (exists []; rewrite app_nil_r; reflexivity); try (eexists; reflexivity); try discriminate; auto.
Qed.

(* ====================================================================== *)
(* E. never stuck                                                          *)
(* ====================================================================== *)

Lemma helper_enabled_sound s e : helper_enabled s = Some e -> exists s', step s e = Some s' /\ is_helper e = true.
Proof.
  destruct s as [p q h qu g sl he ru orp dr]; unfold helper_enabled; simpl.
  destruct h.
  - destruct qu as [|x t]; [discriminate|]. intros H; inversion H; subst. simpl.
    destruct (mem x g); eexists; split; eauto.
  - destruct (q =? 0) eqn:Eq; simpl; [discriminate|]. destruct (p =? 0) eqn:Ep; simpl; [discriminate|].
    intros H; inversion H; subst. simpl. rewrite ?Eq, ?Ep. eexists; split; eauto.
Qed.

(* someone waits => either the helper can move, or every token is out with some requester, each of which
   can (and by assumption eventually will) let go of it *)
Lemma never_stuck n es s :
  run (init n) es = Some s -> 0 < n -> queue s <> [] ->
  (exists e s', helper_enabled s = Some e /\ step s e = Some s') \/
  (pool s = 0 /\ hand s = false /\
   exists r e s', (mem r (slots s) || mem r (held s) || mem r (running s)) = true /\
                  step s e = Some s' /\ gives_back s e = true).
Proof.
  intros H Hn Hq. destruct (Inv_reach _ _ _ H) as [I1 I2 _ _ _].
  destruct (helper_enabled s) as [e|] eqn:He.
  - left. destruct (helper_enabled_sound _ _ He) as (s' & Hs & _). eauto.
  - right. destruct s as [p q h qu g sl he ru orp dr]; unfold helper_enabled in He; simpl in *.
    destruct h.
    { destruct qu; [congruence | discriminate]. }
    assert (Hlen : 0 < len qu).
    { destruct qu; [congruence|]. rewrite len_cons. lia. }
    unfold b2n in *.
    destruct (q =? 0) eqn:Eq; [apply N.eqb_eq in Eq; lia|].
    destruct (p =? 0) eqn:Ep; [|discriminate]. apply N.eqb_eq in Ep. subst p.
    split; auto. split; auto.
    destruct sl as [|x t].
    + destruct he as [|x t].
      * destruct ru as [|x t]; [rewrite !len_nil in I1; lia|].
        exists x, (Exit x true). simpl. rewrite N.eqb_refl. simpl. rewrite ?orb_true_r. eauto.
      * exists x, (DropHeld x). simpl. rewrite N.eqb_refl. simpl. eauto.
    + exists x, (Cancel x). simpl. rewrite N.eqb_refl. simpl. eauto.
Qed.

(* ====================================================================== *)
(* F. progress on fair infinite schedules                                  *)
(* ====================================================================== *)

Lemma first_from (P : nat -> bool) : forall d i,
  P (i + d)%nat = true ->
  exists k, (i <= k <= i + d)%nat /\ P k = true /\ forall m, (i <= m < k)%nat -> P m = false.
Proof.
  induction d as [|d IH]; intros i Hp.
  - exists i. replace (i + 0)%nat with i in Hp by lia. repeat split; auto; try lia; try (intros m Hm; lia).
  - destruct (P i) eqn:Ei.
    + exists i. repeat split; auto; try lia; try (intros m Hm; lia).
    + destruct (IH (S i)) as (k & Hk & Pk & Hm).
      { replace (S i + d)%nat with (i + S d)%nat by lia. exact Hp. }
      exists k. repeat split; auto; try lia.
      intros m Hm'. destruct (Nat.eq_dec m i) as [->|Hne]; auto. apply Hm. lia.
Qed.

Definition is_deliver (e : event) : bool := match e with Deliver => true | _ => false end.

Lemma is_deliver_spec e : is_deliver e = true <-> e = Deliver.
Proof. destruct e; simpl; split; intros; try discriminate; auto. Qed.

Lemma gives_back_nonhelper s e : gives_back s e = true -> is_helper e = false.
Proof. destruct e; simpl; auto; discriminate. Qed.

Section Progress.
  Variable n : N.
  Variable sched : nat -> event.
  Variable tr : nat -> st.
  Hypothesis Hn : 0 < n.
  Hypothesis H0 : tr 0%nat = init n.
  Hypothesis Hstep : forall i, step (tr i) (sched i) = Some (tr (S i)).
  (* weak fairness of the helper thread: whenever it can move, a helper step eventually happens *)
  Hypothesis Hfair : forall i, helper_enabled (tr i) <> None ->
                               exists j, (i <= j)%nat /\ is_helper (sched j) = true.
  (* whenever somebody waits while every token is out with the requesters, one of them eventually lets go
     (a running process exits, a child or an Acquired is dropped, a delivered request is dropped) *)
  Hypothesis Hrel : forall i, queue (tr i) <> [] -> pool (tr i) = 0 -> hand (tr i) = false ->
                              exists j, (i <= j)%nat /\ gives_back (tr j) (sched j) = true.

  Lemma Inv_tr i : Inv n (tr i).
  Proof.
    induction i as [|i IH]; [rewrite H0; apply Inv_init|]. eapply Inv_step; eauto.
  Qed.

  Lemma stableQ : forall k i,
    (forall m, (i <= m < i + k)%nat -> is_deliver (sched m) = false) ->
    exists t, queue (tr (i + k)) = queue (tr i) ++ t.
  Proof.
    induction k as [|k IH]; intros i Hm.
    - exists []. rewrite app_nil_r. f_equal. f_equal. lia.
    - destruct (IH i) as (t & Ht). { intros m Hm'. apply Hm. lia. }
      replace (i + S k)%nat with (S (i + k)) by lia.
      destruct (fifo_step _ _ _ (Hstep (i + k)%nat)) as [(Hq & _)|[(r & _ & Hq)|(Hd & _)]].
      + exists t. rewrite Hq. exact Ht.
      + exists (t ++ [r]). rewrite Hq, Ht. rewrite app_assoc. reflexivity.
      + specialize (Hm (i + k)%nat ltac:(lia)). rewrite Hd in Hm. discriminate.
  Qed.

  Lemma stableH : forall k i,
    (forall m, (i <= m < i + k)%nat -> is_helper (sched m) = false) ->
    hand (tr (i + k)) = hand (tr i) /\ pool (tr i) <= pool (tr (i + k)) /\ reqs (tr i) <= reqs (tr (i + k)) /\
    exists t, queue (tr (i + k)) = queue (tr i) ++ t.
  Proof.
    induction k as [|k IH]; intros i Hm.
    - replace (i + 0)%nat with i by lia. repeat split; try lia. exists []. rewrite app_nil_r. reflexivity.
    - destruct (IH i) as (A & B & C & t & D). { intros m Hm'. apply Hm. lia. }
      replace (i + S k)%nat with (S (i + k)) by lia.
      destruct (nonhelper_step _ _ _ (Hstep (i + k)%nat) (Hm (i + k)%nat ltac:(lia))) as (A' & B' & C' & (t' & D') & _).
      repeat split; try congruence; try lia.
      exists (t ++ t'). rewrite D', D, app_assoc. reflexivity.
  Qed.

  Lemma first_helper i :
    helper_enabled (tr i) <> None ->
    exists j, (i <= j)%nat /\ is_helper (sched j) = true /\ forall m, (i <= m < j)%nat -> is_helper (sched m) = false.
  Proof.
    intros He. destruct (Hfair i He) as (j & Hj & Pj).
    destruct (first_from (fun m => is_helper (sched m)) (j - i) i) as (k & Hk & Pk & Hm).
    { replace (i + (j - i))%nat with j by lia. exact Pj. }
    exists k. repeat split; auto. lia.
  Qed.

  Lemma queue_nonempty_app (a t : list rid) : a <> [] -> a ++ t <> [].
  Proof. destruct a; simpl; congruence. Qed.

  (* the helper holds a token and somebody is queued: the next helper event is the hand-over *)
  Lemma deliver_when_hand i :
    hand (tr i) = true -> queue (tr i) <> [] -> exists j, (i <= j)%nat /\ sched j = Deliver.
  Proof.
    intros Hh Hq.
    assert (He : helper_enabled (tr i) <> None).
    { unfold helper_enabled. rewrite Hh. destruct (queue (tr i)); congruence. }
    destruct (first_helper i He) as (j & Hj & Pj & Hm).
    destruct (stableH (j - i) i) as (A & _). { intros m Hm'. apply Hm. lia. }
    replace (i + (j - i))%nat with j in A by lia.
    exists j. split; auto.
    pose proof (Hstep j) as St. destruct (sched j) eqn:E; simpl in Pj; try discriminate; auto.
    exfalso. destruct (tr j) as [p q h qu g sl he ru orp dr]; simpl in *. subst h. rewrite Hh in St. discriminate.
  Qed.

  (* a token is free and somebody is queued: the helper picks it up *)
  Lemma acquire_when_free i :
    hand (tr i) = false -> queue (tr i) <> [] -> 0 < pool (tr i) ->
    exists j, (i <= j)%nat /\ hand (tr j) = true /\ queue (tr j) <> [].
  Proof.
    intros Hh Hq Hp.
    destruct (Inv_tr i) as [_ I2 _ _ _]. rewrite Hh in I2. unfold b2n in I2.
    assert (Hr : 0 < reqs (tr i)).
    { destruct (queue (tr i)); [congruence|]. rewrite len_cons in I2. lia. }
    assert (He : helper_enabled (tr i) <> None).
    { unfold helper_enabled. rewrite Hh.
      replace (reqs (tr i) =? 0) with false by (symmetry; apply N.eqb_neq; lia).
      replace (pool (tr i) =? 0) with false by (symmetry; apply N.eqb_neq; lia). simpl. congruence. }
    destruct (first_helper i He) as (j & Hj & Pj & Hm).
    destruct (stableH (j - i) i) as (A & B & C & t & D). { intros m Hm'. apply Hm. lia. }
    replace (i + (j - i))%nat with j in * by lia.
    exists (S j). split; [lia|].
    pose proof (Hstep j) as St. destruct (sched j) eqn:E; simpl in Pj; try discriminate.
    - destruct (tr j) as [p q h qu g sl he ru orp dr]; simpl in *.
      destruct h; [discriminate|]. destruct (q =? 0); [discriminate|]. destruct (p =? 0); [discriminate|].
      inversion St as [S']. simpl. split; auto. subst qu. apply queue_nonempty_app; auto.
    - exfalso. destruct (tr j) as [p q h qu g sl he ru orp dr]; simpl in *. rewrite A, Hh in St. discriminate.
  Qed.

  (* every token is out and somebody is queued: a requester lets go, or the helper got one meanwhile *)
  Lemma release_when_empty i :
    hand (tr i) = false -> queue (tr i) <> [] -> pool (tr i) = 0 ->
    exists j, (i <= j)%nat /\ queue (tr j) <> [] /\
              (hand (tr j) = true \/ (hand (tr j) = false /\ 0 < pool (tr j))).
  Proof.
    intros Hh Hq Hp.
    destruct (Hrel i Hq Hp Hh) as (j & Hj & Gj).
    destruct (first_from (fun m => is_helper (sched m) || gives_back (tr m) (sched m)) (j - i) i) as (k & Hk & Pk & Hm).
    { replace (i + (j - i))%nat with j by lia. rewrite Gj. apply orb_true_r. }
    destruct (stableH (k - i) i) as (A & B & C & t & D).
    { intros m Hm'. specialize (Hm m ltac:(lia)). apply orb_false_iff in Hm. tauto. }
    replace (i + (k - i))%nat with k in * by lia.
    assert (Hqk : queue (tr k) <> []) by (rewrite D; apply queue_nonempty_app; auto).
    exists (S k). split; [lia|].
    pose proof (Hstep k) as St.
    destruct (is_helper (sched k)) eqn:Eh.
    - (* a helper event with empty hands is an acquisition *)
      destruct (sched k) eqn:E; simpl in Eh; try discriminate.
      + destruct (tr k) as [p q h qu g sl he ru orp dr]; simpl in *.
        destruct h; [discriminate|]. destruct (q =? 0); [discriminate|]. destruct (p =? 0); [discriminate|].
        inversion St. simpl. split; auto.
      + exfalso. destruct (tr k) as [p q h qu g sl he ru orp dr]; simpl in *. rewrite A, Hh in St. discriminate.
    - simpl in Pk.
      destruct (nonhelper_step _ _ _ St Eh) as (A' & B' & C' & (t' & D') & G').
      specialize (G' Pk). split.
      + rewrite D'. apply queue_nonempty_app; auto.
      + right. split; [congruence | lia].
  Qed.

  Lemma eventually_deliver i : queue (tr i) <> [] -> exists j, (i <= j)%nat /\ sched j = Deliver.
  Proof.
    intros Hq.
    assert (Hand : forall i', (i <= i')%nat -> hand (tr i') = true -> queue (tr i') <> [] ->
                              exists j, (i <= j)%nat /\ sched j = Deliver).
    { intros i' Hi Hh Hq'. destruct (deliver_when_hand i' Hh Hq') as (j & Hj & Dj). exists j. split; [lia | auto]. }
    assert (Free : forall i', (i <= i')%nat -> hand (tr i') = false -> queue (tr i') <> [] -> 0 < pool (tr i') ->
                              exists j, (i <= j)%nat /\ sched j = Deliver).
    { intros i' Hi Hh Hq' Hp. destruct (acquire_when_free i' Hh Hq' Hp) as (j & Hj & Hhj & Hqj).
      apply (Hand j); auto. lia. }
    destruct (hand (tr i)) eqn:Hh.
    - apply (Hand i); auto.
    - destruct (N.eq_dec (pool (tr i)) 0) as [Hp|Hp].
      + destruct (release_when_empty i Hh Hq Hp) as (j & Hj & Hqj & [Hhj|[Hhj Hpj]]).
        * apply (Hand j); auto.
        * apply (Free j); auto.
      + apply (Free i); auto. lia.
  Qed.

  (* the next hand-over: nothing left the queue before it *)
  Lemma next_deliver i :
    queue (tr i) <> [] -> exists j t, (i <= j)%nat /\ sched j = Deliver /\ queue (tr j) = queue (tr i) ++ t.
  Proof.
    intros Hq. destruct (eventually_deliver i Hq) as (j & Hj & Dj).
    destruct (first_from (fun m => is_deliver (sched m)) (j - i) i) as (k & Hk & Pk & Hm).
    { replace (i + (j - i))%nat with j by lia. rewrite Dj. reflexivity. }
    destruct (stableQ (k - i) i) as (t & Ht). { intros m Hm'. apply Hm. lia. }
    replace (i + (k - i))%nat with k in Ht by lia.
    exists k, t. split; [lia|]. split; auto. apply is_deliver_spec; auto.
  Qed.

  Lemma served_at_position : forall (p : nat) i (r : rid) a b,
    queue (tr i) = a ++ r :: b -> length a = p ->
    exists j q, (i <= j)%nat /\ sched j = Deliver /\ queue (tr j) = r :: q.
  Proof.
    induction p as [|p IH]; intros i r a b Hq Hl.
    - destruct a; [|discriminate]. simpl in Hq.
      destruct (next_deliver i) as (j & t & Hj & Dj & Qj). { rewrite Hq; discriminate. }
      exists j, (b ++ t). rewrite Qj, Hq. auto.
    - destruct a as [|h a']; [discriminate|]. simpl in Hl. injection Hl as Hl.
      destruct (next_deliver i) as (j & t & Hj & Dj & Qj). { rewrite Hq; discriminate. }
      pose proof (Hstep j) as St. rewrite Dj in St.
      destruct (fifo_step _ _ _ St) as [(_ & Hd & _)|[(x & Hd & _)|(_ & h' & Hh & _)]]; try congruence.
      rewrite Qj, Hq in Hh. simpl in Hh. rewrite <- app_assoc in Hh. simpl in Hh. injection Hh as _ Hh.
      destruct (IH (S j) r a' (b ++ t)) as (j' & q & Hj' & Dj' & Qj'); auto.
      exists j', q. split; [lia|]. auto.
  Qed.

  Lemma progress_section i r :
    In r (queue (tr i)) ->
    exists j q, (i <= j)%nat /\ sched j = Deliver /\ queue (tr j) = r :: q /\
                (mem r (gone (tr j)) = false -> In r (slots (tr (S j)))).
  Proof.
    intros Hin. apply in_split in Hin. destruct Hin as (a & b & Hq).
    destruct (served_at_position (length a) i r a b Hq eq_refl) as (j & q & Hj & Dj & Qj).
    exists j, q. repeat split; auto.
    intros Hg. pose proof (Hstep j) as St. rewrite Dj in St.
    destruct (fifo_step _ _ _ St) as [(_ & Hd & _)|[(x & Hd & _)|(_ & h' & Hh & Hc)]]; try congruence.
    rewrite Qj in Hh. injection Hh as Hh _. subst h'.
    destruct Hc as [(_ & Hs & _)|(Hg' & _)]; [|congruence].
    rewrite Hs. apply in_or_app. right. left. reflexivity.
  Qed.
End Progress.

Definition execution (n : N) (sched : nat -> event) (tr : nat -> st) : Prop :=
  tr 0%nat = init n /\ forall i, step (tr i) (sched i) = Some (tr (S i)).

Definition helper_fair (sched : nat -> event) (tr : nat -> st) : Prop :=
  forall i, helper_enabled (tr i) <> None -> exists j, (i <= j)%nat /\ is_helper (sched j) = true.

Definition holders_let_go (sched : nat -> event) (tr : nat -> st) : Prop :=
  forall i, queue (tr i) <> [] -> pool (tr i) = 0 -> hand (tr i) = false ->
            exists j, (i <= j)%nat /\ gives_back (tr j) (sched j) = true.

Lemma progress n sched tr :
  0 < n -> execution n sched tr -> helper_fair sched tr -> holders_let_go sched tr ->
  forall i r, In r (queue (tr i)) ->
    exists j q, (i <= j)%nat /\ sched j = Deliver /\ queue (tr j) = r :: q /\
                (mem r (gone (tr j)) = false -> In r (slots (tr (S j)))).
Proof.
  intros Hn [H0 Hs] Hf Hr i r. eapply progress_section; eauto.
Qed.

(* ====================================================================== *)
(* G. non-vacuity: a concrete infinite fair execution with one token        *)
(*    (request 1, helper acquires, hands over, 1 receives, 1 lets go, ...)  *)
(* ====================================================================== *)

Definition w_next (p : nat) : nat := match p with 4%nat => 0%nat | _ => S p end.
Fixpoint w_phase (i : nat) : nat := match i with O => O | S j => w_next (w_phase j) end.

Definition w_ev (p : nat) : event :=
  match p with
  | 0%nat => Request 1
  | 1%nat => HelperAcquire
  | 2%nat => Deliver
  | 3%nat => Receive 1
  | _ => DropHeld 1
  end.

Definition w_st (p : nat) : st :=
  match p with
  | 0%nat => init 1
  | 1%nat => mk 1 1 false [1] [] [] [] [] [] []
  | 2%nat => mk 0 0 true [1] [] [] [] [] [] []
  | 3%nat => mk 0 0 false [] [] [1] [] [] [] []
  | _ => mk 0 0 false [] [] [] [1] [] [] []
  end.

Definition w_sched (i : nat) : event := w_ev (w_phase i).
Definition w_tr (i : nat) : st := w_st (w_phase i).

Lemma w_phase_lt i : (w_phase i < 5)%nat.
Proof.
  induction i as [|i IH]; simpl; [lia|].
  destruct (w_phase i) as [|[|[|[|[|k]]]]]; simpl; lia.
Qed.

Lemma w_phase_cases i :
  w_phase i = 0%nat \/ w_phase i = 1%nat \/ w_phase i = 2%nat \/ w_phase i = 3%nat \/ w_phase i = 4%nat.
Proof. pose proof (w_phase_lt i). lia. Qed.

Lemma w_phase_add i d : w_phase (d + i) = Nat.iter d w_next (w_phase i).
Proof. induction d as [|d IH]; simpl; auto; rewrite ?IH; reflexivity. Qed.

Lemma w_execution : execution 1 w_sched w_tr.
Proof.
  split; [reflexivity|]. intros i. unfold w_tr, w_sched. simpl w_phase.
  destruct (w_phase_cases i) as [H|[H|[H|[H|H]]]]; rewrite H; vm_compute; reflexivity.
Qed.

Lemma w_event_within i (P : nat -> bool) :
  (exists d, (d < 5)%nat /\ P (Nat.iter d w_next (w_phase i)) = true) ->
  exists j, (i <= j)%nat /\ P (w_phase j) = true.
Proof.
  intros (d & _ & Hd). exists (d + i)%nat. split; [lia|]. rewrite w_phase_add. exact Hd.
Qed.

Lemma w_helper_fair : helper_fair w_sched w_tr.
Proof.
  intros i _. unfold w_sched.
  apply (w_event_within i (fun p => is_helper (w_ev p))).
  destruct (w_phase_cases i) as [H|[H|[H|[H|H]]]]; rewrite H.
  - exists 1%nat; split; [lia | reflexivity].
  - exists 0%nat; split; [lia | reflexivity].
  - exists 0%nat; split; [lia | reflexivity].
  - exists 3%nat; split; [lia | reflexivity].
  - exists 2%nat; split; [lia | reflexivity].
Qed.

Lemma w_holders_let_go : holders_let_go w_sched w_tr.
Proof.
  intros i _ _ _. unfold w_sched, w_tr.
  apply (w_event_within i (fun p => gives_back (w_st p) (w_ev p))).
  destruct (w_phase_cases i) as [H|[H|[H|[H|H]]]]; rewrite H.
  - exists 4%nat; split; [lia | reflexivity].
  - exists 3%nat; split; [lia | reflexivity].
  - exists 2%nat; split; [lia | reflexivity].
  - exists 1%nat; split; [lia | reflexivity].
  - exists 0%nat; split; [lia | reflexivity].
Qed.

Lemma w_waits : In 1 (queue (w_tr 1)).
Proof. vm_compute. left; reflexivity. Qed.

(* ====================================================================== *)
(* H. the release point: process exit, not end-of-file on its pipes        *)
(* ====================================================================== *)

Lemma release_at_exit s r ok s' :
  step s (Exit r ok) = Some s' ->
  pool s' = pool s + 1 /\ In r (draining s') /\ mem r (running s') = mem r (del r (running s)) /\
  queue s' = queue s /\ hand s' = hand s /\ reqs s' = reqs s.
Proof.
  destruct s as [p q h qu g sl he ru orp dr]; simpl.
  destruct (mem r ru) eqn:E; [|discriminate]. intros H; inversion H; subst; simpl.
  repeat split; auto. apply in_or_app. right. left. reflexivity.
Qed.

(* the end of the request (EOF on the pipes of a process that has exited, or the request being dropped) moves no token *)
Lemma done_moves_no_token s r s' :
  step s (Done r) = Some s' ->
  pool s' = pool s /\ reqs s' = reqs s /\ hand s' = hand s /\ queue s' = queue s /\ gone s' = gone s /\
  slots s' = slots s /\ held s' = held s /\ running s' = running s.
Proof.
  destruct s as [p q h qu g sl he ru orp dr]; simpl.
  destruct (mem r dr); [|discriminate]. intros H; inversion H; subst; simpl. repeat split; auto.
Qed.

(* hence: a compiler that has exited while something still holds its pipes keeps nothing from the next request.
   With one token: r runs, exits, its request is NEVER completed (no Done), and a later request still gets the token. *)
Lemma next_runs_without_eof n es s r ok s1 r2 :
  run (init n) es = Some s -> step s (Exit r ok) = Some s1 ->
  queue s = [] -> hand s = false -> active s1 r2 = false ->
  exists s', run s1 [Request r2; HelperAcquire; Deliver; Receive r2; Start r2] = Some s' /\
             In r2 (running s') /\ In r (draining s').
Proof.
  intros H E Hq Hh A.
  destruct (Inv_reach _ _ _ H) as [_ I2 I3 _ _].
  destruct s as [p q h qu g sl he ru orp dr]; simpl in *. subst qu h.
  rewrite len_nil in I2. unfold b2n in I2. assert (q = 0) by lia. subst q.
  assert (g = []). { destruct g as [|x t]; auto. exfalso. apply (I3 x). left; auto. } subst g.
  destruct (mem r ru) eqn:Er; [|discriminate]. inversion E; subst s1; clear E.
  cbn [run step]. rewrite A. cbn [app].
  assert (E1 : (0 + 1 =? 0) = false) by (apply N.eqb_neq; lia).
  assert (E2 : (p + 1 =? 0) = false) by (apply N.eqb_neq; lia).
  cbn [run step]. rewrite E1, E2. cbn [run step mem].
  rewrite mem_app, mem_single, N.eqb_refl, orb_true_r.
  cbn [run step]. rewrite mem_app, mem_single, N.eqb_refl, orb_true_r.
  eexists. split; [reflexivity|]. simpl. split.
  - apply in_or_app. right. left. reflexivity.
  - apply in_or_app. right. left. reflexivity.
Qed.

(* ====================================================================== *)
(* I. how the server's client is built                                     *)
(* ====================================================================== *)

Lemma server_client_owns_its_pool ncpus mf :
  c_limited (client_new ncpus mf) = true /\ c_tokens (client_new ncpus mf) = ncpus.
Proof. split; reflexivity. Qed.

Lemma server_client_bound ncpus mf m :
  granted_at_once (client_new ncpus mf) m <= ncpus /\ empty_acquireds (client_new ncpus mf) m = 0.
Proof. unfold granted_at_once, empty_acquireds, client_new, client_new_num; simpl. split; [lia | reflexivity]. Qed.

Lemma inherited_mode_unbounded m : granted_at_once client_inherited m = m /\ empty_acquireds client_inherited m = m.
Proof. split; reflexivity. Qed.

(* ====================================================================== *)
(* J. start-up: the pool's own pipe survives whatever the environment says *)
(* ====================================================================== *)

Definition pool_intact (s : fdst) : Prop :=
  pool_alive s = true /\ exists r w, pool_fds s = Some (r, w) /\ In r (open_fds s) /\ In w (open_fds s).

Lemma new_client_intact ann s : pool_intact (sstep ann s SNewClient).
Proof.
  unfold pool_intact; simpl. split; auto. eexists; eexists. split; [reflexivity|]. simpl. auto.
Qed.

Lemma only_new_intact ann l : forall s, only_new l = true -> pool_intact s -> pool_intact (fold_left (sstep ann) l s).
Proof.
  induction l as [|a t IH]; intros s H I; simpl; auto.
  destruct a; simpl in H; [discriminate|]. apply IH; auto. apply new_client_intact.
Qed.

Lemma startup_ok_intact ann l : forall s, startup_ok l = true -> pool_intact (fold_left (sstep ann) l s).
Proof.
  induction l as [|a t IH]; intros s H; simpl in *; [discriminate|].
  destruct a.
  - apply IH; auto.
  - apply only_new_intact; auto. apply new_client_intact.
Qed.

Lemma pool_survives_startup ann open0 acts :
  startup_ok acts = true ->
  let s := startup ann open0 acts in
  pool_alive s = true /\ exists r w, pool_fds s = Some (r, w) /\ In r (open_fds s) /\ In w (open_fds s).
Proof. intros H. apply startup_ok_intact; auto. Qed.

(* ====================================================================== *)
(* K. a process is only ever started on a token, and a token only ever     *)
(*    reaches a request through the hand-over — never through waiting      *)
(* ====================================================================== *)

Lemma start_needs_token s r s' :
  step s (Start r) = Some s' ->
  mem r (held s) = true /\ pool s' = pool s /\ in_hand_off s' = in_hand_off s /\ holding s' = holding s.
Proof.
  destruct s as [p q h qu g sl he ru orp dr]; unfold in_hand_off, holding; simpl.
  destruct (mem r he) eqn:E; [|discriminate]. intros H; inversion H; subst; simpl.
  repeat split; auto. rewrite len_snoc. pose proof (len_del _ _ E). lia.
Qed.

Lemma mem_del_true x r l : mem x (del r l) = true -> mem x l = true.
Proof. rewrite !mem_In. apply In_del. Qed.

(* the only way into `held` is Receive r, which takes the token out of r's one-shot slot *)
Lemma token_only_by_receive s e s' x :
  step s e = Some s' -> mem x (held s') = true ->
  mem x (held s) = true \/ (e = Receive x /\ mem x (slots s) = true).
Proof.
  destruct s as [p q h qu g sl he ru orp dr]; simpl. intros H M.
  destruct e; simpl in H;
    repeat match type of H with
           | (if ?c then _ else _) = Some _ => let E := fresh "E" in destruct c eqn:E; try discriminate
           | match ?l with [] => _ | _ :: _ => _ end = Some _ => destruct l; try discriminate
           end; inversion H; subst; simpl in *; auto;
    try (left; eapply mem_del_true; eassumption).
  (* Receive r *)
  rewrite mem_app, mem_single in M. apply orb_true_iff in M. destruct M as [M|M]; auto.
  apply N.eqb_eq in M. subst. right; auto.
Qed.

(* ... and the only way into a slot is the helper's hand-over of a token taken from the pipe *)
Lemma slot_only_by_deliver s e s' x :
  step s e = Some s' -> mem x (slots s') = true ->
  mem x (slots s) = true \/ (e = Deliver /\ hand s = true /\ exists q, queue s = x :: q).
Proof.
  destruct s as [p q h qu g sl he ru orp dr]; simpl. intros H M.
  destruct e; simpl in H;
    repeat match type of H with
           | (if ?c then _ else _) = Some _ => let E := fresh "E" in destruct c eqn:E; try discriminate
           | match ?l with [] => _ | _ :: _ => _ end = Some _ => destruct l; try discriminate
           end; inversion H; subst; simpl in *; auto;
    try (left; eapply mem_del_true; eassumption).
  rewrite mem_app, mem_single in M. apply orb_true_iff in M. destruct M as [M|M]; auto.
  apply N.eqb_eq in M. subst. right. repeat split; auto. eexists; reflexivity.
Qed.
