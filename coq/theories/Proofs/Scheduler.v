(* Proofs/Scheduler.v — invariants of Model/Scheduler.v (the scheduler after the fix: commit, fx = true)
   for ALL message sequences, and the lemmas the pinned theorems of Properties/C18.v are instances of. *)
From Coq Require Import List NArith Bool Lia ZifyN ZifyBool Sorted Permutation.
From Sccache Require Import Base.Sx Gen.C18Consts Model.Scheduler.
Import ListNotations.
Local Open Scope N_scope.

Arguments N.add : simpl never.
Arguments N.sub : simpl never.
Arguments N.mul : simpl never.
Arguments N.div : simpl never.
Arguments N.ltb : simpl never.
Arguments N.leb : simpl never.
Arguments N.eqb : simpl never.

(* ================= sorted lists of N as sets ================= *)

Definition ssorted (l : list N) : Prop := StronglySorted N.lt l.

Lemma smem_In k l : smem k l = true <-> In k l.
Proof.
  induction l as [|x r IH]; simpl; [split; [discriminate | tauto]|].
  rewrite orb_true_iff, IH, N.eqb_eq. split; intros [H|H]; auto.
Qed.

Lemma smem_false k l : smem k l = false <-> ~ In k l.
Proof. rewrite <- smem_In. destruct (smem k l); split; congruence. Qed.

Lemma In_sins x k l : In x (sins k l) <-> x = k \/ In x l.
Proof.
  induction l as [|y r IH]; simpl; [intuition|].
  destruct (k =? y) eqn:E; [apply N.eqb_eq in E; subst; simpl; intuition|].
  destruct (k <? y) eqn:L; simpl; [intuition|]. rewrite IH. intuition.
Qed.

Lemma In_srem x k l : In x (srem k l) <-> In x l /\ x <> k.
Proof.
  unfold srem. rewrite filter_In, negb_true_iff, N.eqb_neq. intuition.
Qed.

Lemma ssorted_filter p l : ssorted l -> ssorted (filter p l).
Proof.
  unfold ssorted. induction 1 as [|a l Hs IH Hf]; simpl; [constructor|].
  destruct (p a); auto. constructor; auto.
  rewrite Forall_forall in *. intros x Hx. apply filter_In in Hx. apply Hf, Hx.
Qed.

Lemma ssorted_srem k l : ssorted l -> ssorted (srem k l).
Proof. apply ssorted_filter. Qed.

Lemma ssorted_sins k l : ssorted l -> ssorted (sins k l).
Proof.
  unfold ssorted. induction 1 as [|a l Hs IH Hf]; simpl; [repeat constructor|].
  destruct (k =? a) eqn:E; [constructor; auto|].
  destruct (k <? a) eqn:L.
  - constructor; [constructor; auto|]. constructor; [lia|].
    rewrite Forall_forall in *. intros x Hx. specialize (Hf x Hx). lia.
  - constructor; auto. rewrite Forall_forall in *. intros x Hx.
    apply In_sins in Hx as [->|Hx]; [lia | auto].
Qed.

Lemma ssorted_NoDup l : ssorted l -> NoDup l.
Proof.
  induction 1 as [|a l Hs IH Hf]; constructor; auto.
  intro Hin. rewrite Forall_forall in Hf. specialize (Hf a Hin). lia.
Qed.

Lemma length_sins k l : ~ In k l -> length (sins k l) = S (length l).
Proof.
  induction l as [|y r IH]; simpl; intro H; [reflexivity|].
  destruct (k =? y) eqn:E; [apply N.eqb_eq in E; subst; tauto|].
  destruct (k <? y); simpl; [reflexivity|]. rewrite IH; tauto.
Qed.

Lemma length_srem_le k l : (length (srem k l) <= length l)%nat.
Proof.
  unfold srem. induction l as [|x r IH]; simpl; [lia|]. destruct (negb (k =? x)); simpl; lia.
Qed.

(* ================= association lists keyed by N ================= *)

Definition keys {V} (l : list (N * V)) : list N := map fst l.
Definition ksorted {V} (l : list (N * V)) : Prop := ssorted (keys l).

Lemma aget_aset_same {V} k (v : V) l : aget k (aset k v l) = Some v.
Proof.
  induction l as [|[k' v'] r IH]; simpl; [rewrite N.eqb_refl; reflexivity|].
  destruct (k =? k') eqn:E; simpl; [rewrite N.eqb_refl; reflexivity|].
  destruct (k <? k'); simpl; [rewrite N.eqb_refl; reflexivity|]. rewrite E. exact IH.
Qed.

Lemma aget_aset_other {V} k k' (v : V) l : k' <> k -> aget k' (aset k v l) = aget k' l.
Proof.
  intro Hne. induction l as [|[k2 v2] r IH]; simpl.
  - destruct (k' =? k) eqn:E; [apply N.eqb_eq in E; congruence | reflexivity].
  - destruct (k =? k2) eqn:E; simpl.
    + apply N.eqb_eq in E; subst k2.
      destruct (k' =? k) eqn:E2; [apply N.eqb_eq in E2; congruence | reflexivity].
    + destruct (k <? k2); simpl.
      * destruct (k' =? k) eqn:E2; [apply N.eqb_eq in E2; congruence | reflexivity].
      * destruct (k' =? k2); [reflexivity | exact IH].
Qed.

Lemma aget_aset {V} k k' (v : V) l :
  aget k' (aset k v l) = if k' =? k then Some v else aget k' l.
Proof.
  destruct (k' =? k) eqn:E.
  - apply N.eqb_eq in E; subst. apply aget_aset_same.
  - apply N.eqb_neq in E. apply aget_aset_other; assumption.
Qed.

Lemma aget_filter_key {V} (p : N -> bool) k (l : list (N * V)) :
  aget k (filter (fun kv => p (fst kv)) l) = if p k then aget k l else None.
Proof.
  induction l as [|[k' v'] r IH]; simpl; [destruct (p k); reflexivity|].
  destruct (p k') eqn:P; simpl.
  - destruct (k =? k') eqn:E; [apply N.eqb_eq in E; subst; rewrite P; reflexivity | exact IH].
  - rewrite IH. destruct (k =? k') eqn:E; [apply N.eqb_eq in E; subst; rewrite P; reflexivity | reflexivity].
Qed.

Lemma aget_adel {V} k k' (l : list (N * V)) :
  aget k' (adel k l) = if k' =? k then None else aget k' l.
Proof.
  unfold adel. rewrite (aget_filter_key (fun x => negb (k =? x))).
  rewrite (N.eqb_sym k k'). destruct (k' =? k); reflexivity.
Qed.

Lemma aget_In {V} k (v : V) l : aget k l = Some v -> In (k, v) l.
Proof.
  induction l as [|[k' v'] r IH]; simpl; [discriminate|].
  destruct (k =? k') eqn:E; [apply N.eqb_eq in E; subst; intro H; inversion H; auto | auto].
Qed.

Lemma aget_In_keys {V} k (v : V) l : aget k l = Some v -> In k (keys l).
Proof. intro H. apply aget_In in H. apply (in_map fst) in H. exact H. Qed.

Lemma aget_None_keys {V} k (l : list (N * V)) : aget k l = None <-> ~ In k (keys l).
Proof.
  induction l as [|[k' v'] r IH]; simpl; [tauto|].
  destruct (k =? k') eqn:E.
  - apply N.eqb_eq in E; subst. split; [discriminate | tauto].
  - apply N.eqb_neq in E. rewrite IH. intuition.
Qed.

Lemma In_aget {V} k (v : V) l : ksorted l -> In (k, v) l -> aget k l = Some v.
Proof.
  unfold ksorted, keys, ssorted. induction l as [|[k' v'] r IH]; simpl; [tauto|].
  intros Hs [H|H].
  - inversion H; subst. rewrite N.eqb_refl. reflexivity.
  - inversion Hs as [|? ? Hs' Hf]; subst.
    destruct (k =? k') eqn:E; [|auto].
    apply N.eqb_eq in E; subst. rewrite Forall_forall in Hf.
    specialize (Hf k' (in_map fst _ _ H)). simpl in Hf. lia.
Qed.

Lemma In_keys_aset {V} x k (v : V) l : In x (keys (aset k v l)) <-> x = k \/ In x (keys l).
Proof.
  unfold keys. induction l as [|[k' v'] r IH]; simpl; [intuition|].
  destruct (k =? k') eqn:E; [apply N.eqb_eq in E; subst; simpl; intuition|].
  destruct (k <? k'); simpl; [intuition|]. rewrite IH. intuition.
Qed.

Lemma ksorted_aset {V} k (v : V) l : ksorted l -> ksorted (aset k v l).
Proof.
  unfold ksorted, ssorted. induction l as [|[k' v'] r IH]; simpl; intro Hs; [repeat constructor|].
  inversion Hs as [|? ? Hs' Hf]; subst.
  destruct (k =? k') eqn:E.
  - apply N.eqb_eq in E; subst. simpl. constructor; assumption.
  - destruct (k <? k') eqn:L; simpl.
    + constructor; [exact Hs|]. constructor; [lia|].
      rewrite Forall_forall in *. intros x Hx. specialize (Hf x Hx). lia.
    + constructor; [auto|]. rewrite Forall_forall in *. intros x Hx.
      apply (In_keys_aset x k v r) in Hx as [->|Hx]; [lia | auto].
Qed.

Lemma keys_filter {V} (p : N -> bool) (l : list (N * V)) :
  keys (filter (fun kv => p (fst kv)) l) = filter p (keys l).
Proof.
  unfold keys. induction l as [|[k v] r IH]; simpl; [reflexivity|].
  destruct (p k); simpl; rewrite IH; reflexivity.
Qed.

Lemma ksorted_filter_key {V} (p : N -> bool) (l : list (N * V)) :
  ksorted l -> ksorted (filter (fun kv => p (fst kv)) l).
Proof. unfold ksorted. rewrite keys_filter. apply ssorted_filter. Qed.

Lemma ksorted_adel {V} k (l : list (N * V)) : ksorted l -> ksorted (adel k l).
Proof. apply (ksorted_filter_key (fun x => negb (k =? x))). Qed.

Lemma amem_false {V} k (l : list (N * V)) : amem k l = false <-> aget k l = None.
Proof. unfold amem. destruct (aget k l); split; congruence. Qed.

Lemma len_le {A B} (a : list A) (b : list B) : (length a <= length b)%nat -> len a <= len b.
Proof. unfold len. lia. Qed.

Lemma aget_drop {V} (a : list N) k (js : list (N * V)) :
  aget k (filter (fun kv => negb (smem (fst kv) a)) js) = if smem k a then None else aget k js.
Proof.
  rewrite (aget_filter_key (fun x => negb (smem x a))). destruct (smem k a); reflexivity.
Qed.

Lemma ksorted_drop {V} (a : list N) (js : list (N * V)) :
  ksorted js -> ksorted (filter (fun kv => negb (smem (fst kv) a)) js).
Proof. apply (ksorted_filter_key (fun x => negb (smem x a))). Qed.

(* ================= the invariant ================= *)

Definition sets_sorted (sv : list (N * server)) : Prop :=
  forall sid v, aget sid sv = Some v -> ssorted (sv_assigned v) /\ ssorted (sv_unclaimed v).

(* every recorded job belongs to a registered server whose jobs_assigned holds it *)
Definition attr (js : list (N * (N * jstate))) (sv : list (N * server)) : Prop :=
  forall j sid stt, aget j js = Some (sid, stt) ->
    exists v, aget sid sv = Some v /\ In j (sv_assigned v).

(* no job id is in the jobs_assigned of two servers *)
Definition disj (sv : list (N * server)) : Prop :=
  forall j s1 v1 s2 v2, aget s1 sv = Some v1 -> aget s2 sv = Some v2 ->
    In j (sv_assigned v1) -> In j (sv_assigned v2) -> s1 = s2.

Definition fresh_srv (c : N) (sv : list (N * server)) : Prop :=
  forall sid v j, aget sid sv = Some v -> In j (sv_assigned v) \/ In j (sv_unclaimed v) -> j < c.

Definition fresh_jobs (c : N) (js : list (N * (N * jstate))) : Prop :=
  forall j x, aget j js = Some x -> j < c.

(* a call inside its window holds an id that is not recorded yet *)
Definition fl_ok (c : N) (js : list (N * (N * jstate))) (fl : list (N * N)) : Prop :=
  forall j sid, aget j fl = Some sid -> j < c /\ aget j js = None.

Definition cap_ok (sv : list (N * server)) : Prop :=
  forall sid v, aget sid sv = Some v -> 1 <= sv_cpus v /\ len (sv_assigned v) <= slack (sv_cpus v).

Record Inv (s : st) : Prop := mkInv {
  inv_pj : pois_jobs s = false;
  inv_ps : pois_servers s = false;
  inv_jobs_sorted : ksorted (jobs s);
  inv_srv_sorted : ksorted (servers s);
  inv_sets : sets_sorted (servers s);
  inv_attr : attr (jobs s) (servers s);
  inv_disj : disj (servers s);
  inv_fresh_srv : fresh_srv (job_count s) (servers s);
  inv_fresh_jobs : fresh_jobs (job_count s) (jobs s);
  inv_fl : fl_ok (job_count s) (jobs s) (inflight s);
  inv_cap : cap_ok (servers s)
}.

Lemma Inv_init : Inv init.
Proof.
  apply mkInv; simpl; try reflexivity; try (constructor; fail);
    repeat intro; simpl in *; discriminate.
Qed.

(* ---- replacing / adding one server ---- *)

Lemma aget_aset_cases {V} k k' (v v' : V) l :
  aget k' (aset k v l) = Some v' -> (k' = k /\ v' = v) \/ (k' <> k /\ aget k' l = Some v').
Proof.
  rewrite aget_aset. destruct (k' =? k) eqn:E.
  - apply N.eqb_eq in E. intro H; inversion H; auto.
  - apply N.eqb_neq in E. auto.
Qed.

Lemma sets_sorted_aset sid v' sv :
  sets_sorted sv -> ssorted (sv_assigned v') -> ssorted (sv_unclaimed v') -> sets_sorted (aset sid v' sv).
Proof.
  intros H Ha Hu k v G. apply aget_aset_cases in G as [[-> ->]|[_ G]]; eauto.
Qed.

Lemma attr_aset js sid v' sv :
  attr js sv -> (forall j stt, aget j js = Some (sid, stt) -> In j (sv_assigned v')) -> attr js (aset sid v' sv).
Proof.
  intros H Hn j k stt G. rewrite aget_aset. destruct (k =? sid) eqn:E.
  - apply N.eqb_eq in E; subst. eauto.
  - apply (H j k stt G).
Qed.

Lemma disj_aset sid v' sv :
  disj sv ->
  (forall j, In j (sv_assigned v') ->
     (exists v, aget sid sv = Some v /\ In j (sv_assigned v)) \/
     (forall s2 v2, aget s2 sv = Some v2 -> ~ In j (sv_assigned v2))) ->
  disj (aset sid v' sv).
Proof.
  intros H Hn j s1 v1 s2 v2 G1 G2 I1 I2.
  apply aget_aset_cases in G1 as [[-> ->]|[N1 G1]];
    apply aget_aset_cases in G2 as [[-> ->]|[N2 G2]]; auto.
  - destruct (Hn j I1) as [[v [Gv Iv]]|Hno].
    + exact (H j _ _ _ _ Gv G2 Iv I2).
    + exfalso. exact (Hno _ _ G2 I2).
  - destruct (Hn j I2) as [[v [Gv Iv]]|Hno].
    + exact (H j _ _ _ _ G1 Gv I1 Iv).
    + exfalso. exact (Hno _ _ G1 I1).
  - exact (H j _ _ _ _ G1 G2 I1 I2).
Qed.

Lemma fresh_srv_aset c sid v' sv :
  fresh_srv c sv -> (forall j, In j (sv_assigned v') \/ In j (sv_unclaimed v') -> j < c) ->
  fresh_srv c (aset sid v' sv).
Proof.
  intros H Hn k v j G. apply aget_aset_cases in G as [[-> ->]|[_ G]]; eauto.
Qed.

Lemma fresh_srv_mono c c' sv : fresh_srv c sv -> c <= c' -> fresh_srv c' sv.
Proof. intros H L k v j G I. specialize (H k v j G I). lia. Qed.

Lemma cap_ok_aset sid v' sv :
  cap_ok sv -> 1 <= sv_cpus v' -> len (sv_assigned v') <= slack (sv_cpus v') -> cap_ok (aset sid v' sv).
Proof.
  intros H H1 H2 k v G. apply aget_aset_cases in G as [[-> ->]|[_ G]]; eauto.
Qed.

Ltac inv_facts I :=
  pose proof (inv_pj _ I) as Hpj; pose proof (inv_ps _ I) as Hps;
  pose proof (inv_jobs_sorted _ I) as Hjs; pose proof (inv_srv_sorted _ I) as Hss;
  pose proof (inv_sets _ I) as Hsets; pose proof (inv_attr _ I) as Hattr;
  pose proof (inv_disj _ I) as Hdisj; pose proof (inv_fresh_srv _ I) as Hfs;
  pose proof (inv_fresh_jobs _ I) as Hfj; pose proof (inv_fl _ I) as Hfl;
  pose proof (inv_cap _ I) as Hcap.

(* ---- heartbeat ---- *)

Lemma heartbeat_Inv sid n c s : Inv s -> Inv (fst (heartbeat sid n c s)).
Proof.
  intros I. inv_facts I. unfold heartbeat. destruct (c =? 0) eqn:C; [exact I|].
  apply N.eqb_neq in C. unfold lock_both. rewrite Hpj, Hps.
  destruct (aget sid (servers s)) as [sv|] eqn:G.
  - destruct (sv_nonce sv =? n); [exact I|]. apply mkInv; simpl; auto.
    + apply ksorted_drop; auto.
    + apply ksorted_aset; auto.
    + apply sets_sorted_aset; simpl; auto; constructor.
    + intros j k stt Gj. rewrite aget_drop in Gj.
      destruct (smem j (sv_assigned sv)) eqn:M; [discriminate|].
      destruct (Hattr j k stt Gj) as [v [Gv Iv]].
      rewrite aget_aset. destruct (k =? sid) eqn:E; [|eauto].
      apply N.eqb_eq in E; subst. rewrite G in Gv. inversion Gv; subst.
      apply smem_false in M. tauto.
    + apply disj_aset; auto. simpl. tauto.
    + apply fresh_srv_aset; auto. simpl. tauto.
    + intros j x Gj. rewrite aget_drop in Gj. destruct (smem j _); [discriminate|]. eauto.
    + intros j k Gj. destruct (Hfl j k Gj) as [L Nn]. split; auto.
      rewrite aget_drop, Nn. destruct (smem _ _); reflexivity.
    + apply cap_ok_aset; auto; simpl; unfold len; simpl; lia.
  - apply mkInv; simpl; auto.
    + apply ksorted_aset; auto.
    + apply sets_sorted_aset; simpl; auto; constructor.
    + apply attr_aset; auto. intros j stt Gj. destruct (Hattr _ _ _ Gj) as [v [Gv _]]. congruence.
    + apply disj_aset; auto. simpl. tauto.
    + apply fresh_srv_aset; auto. simpl. tauto.
    + apply cap_ok_aset; auto; simpl; unfold len; simpl; lia.
Qed.

(* ---- the choice of the server ---- *)

Definition sel_good (L : list (N * server)) (a : sel) : Prop :=
  (forall kv, sel_best a = Some kv ->
     In kv L /\ len (sv_assigned (snd kv)) < slack (sv_cpus (snd kv))) /\
  (forall kv e, sel_err a = Some (kv, e) ->
     In kv L /\ len (sv_assigned (snd kv)) < slack (sv_cpus (snd kv))).

Lemma load_lt_slack n c bn bd : load_lt (load_weight n c) bn bd = true -> n < slack c.
Proof.
  unfold load_weight. destruct (slack c <=? n) eqn:E; simpl; [discriminate|]. intros _. lia.
Qed.

Lemma sel_step_good L a kv : sel_good L a -> In kv L -> sel_good L (sel_step a kv).
Proof.
  intros [Hb He] Hin. unfold sel_step. destruct (sel_stop a); [split; auto|].
  destruct (sv_last_error (snd kv)) as [e|].
  - destruct (load_lt _ max_per_core_load 1) eqn:LL; [|split; auto].
    apply load_lt_slack in LL.
    destruct (sel_err a) as [[kv0 be]|] eqn:SE.
    + destruct (e <? be); [|split; auto].
      split; simpl; auto. intros kv1 e1 H; inversion H; subst; auto.
    + split; simpl; auto. intros kv1 e1 H; inversion H; subst; auto.
  - destruct (load_lt _ (sel_bn a) (sel_bd a)) eqn:LL; [|split; auto].
    apply load_lt_slack in LL.
    split; simpl; auto. intros kv1 H; inversion H; subst; auto.
Qed.

Lemma fold_sel_good L l : forall a, sel_good L a -> incl l L -> sel_good L (fold_left sel_step l a).
Proof.
  induction l as [|kv r IH]; simpl; intros a Ha Hi; [exact Ha|].
  apply IH.
  - apply sel_step_good; auto. apply Hi. left; reflexivity.
  - intros x Hx. apply Hi. right; exact Hx.
Qed.

Lemma choose_good l kv :
  choose l = Some kv -> In kv l /\ len (sv_assigned (snd kv)) < slack (sv_cpus (snd kv)).
Proof.
  unfold choose. intro H.
  assert (G : sel_good l (fold_left sel_step l sel_init)).
  { apply fold_sel_good; [|apply incl_refl]. split; simpl; intros; discriminate. }
  destruct G as [Gb Ge].
  destruct (sel_best (fold_left sel_step l sel_init)) as [kv0|] eqn:B.
  - inversion H; subst. apply Gb; reflexivity.
  - destruct (sel_err (fold_left sel_step l sel_init)) as [[kv0 e]|] eqn:E; [|discriminate].
    inversion H; subst. eapply Ge; reflexivity.
Qed.

Lemma take_pref_In ord srv k v : forall seen, In (k, v) (take_pref ord seen srv) -> aget k srv = Some v.
Proof.
  induction ord as [|x r IH]; simpl; intros seen H; [tauto|].
  destruct (smem x seen); [eauto|].
  destruct (aget x srv) as [vx|] eqn:G; [|eauto].
  destruct H as [H|H]; [inversion H; subst; exact G | eauto].
Qed.

Lemma iter_order_In ord srv k v : ksorted srv -> In (k, v) (iter_order ord srv) -> aget k srv = Some v.
Proof.
  intros Hs H. unfold iter_order in H. apply in_app_or in H as [H|H].
  - eapply take_pref_In; eauto.
  - apply filter_In in H as [H _]. apply In_aget; auto.
Qed.

(* ---- alloc_begin ---- *)

Lemma alloc_begin_Inv ord s : Inv s -> Inv (fst (alloc_begin ord s)).
Proof.
  intros I. inv_facts I. unfold alloc_begin. rewrite Hps.
  destruct (choose _) as [[sid sv]|] eqn:CH; [|exact I].
  apply choose_good in CH as [Hin Hlt]. simpl in Hlt. apply iter_order_In in Hin; auto.
  assert (Hnj : ~ In (job_count s) (sv_assigned sv)).
  { intro X. specialize (Hfs sid sv _ Hin (or_introl X)). lia. }
  assert (Hnu : ~ In (job_count s) (sv_unclaimed sv)).
  { intro X. specialize (Hfs sid sv _ Hin (or_intror X)). lia. }
  rewrite (proj2 (smem_false _ _) Hnj). simpl. rewrite (proj2 (smem_false _ _) Hnu). simpl.
  destruct (Hsets _ _ Hin) as [Sa Su]. destruct (Hcap _ _ Hin) as [C1 C2].
  apply mkInv; simpl; auto.
  - apply ksorted_aset; auto.
  - apply sets_sorted_aset; simpl; auto; apply ssorted_sins; auto.
  - apply attr_aset; auto. intros j stt Gj. destruct (Hattr j sid stt Gj) as [v [Gv Iv]].
    rewrite Hin in Gv; inversion Gv; subst. simpl. apply In_sins; auto.
  - apply disj_aset; auto. simpl. intros j Ij. apply In_sins in Ij as [->|Ij].
    + right. intros s2 v2 G2 I2. specialize (Hfs s2 v2 _ G2 (or_introl I2)). lia.
    + left; eauto.
  - apply fresh_srv_aset; [eapply fresh_srv_mono; eauto; lia|]. simpl.
    intros j [Ij|Ij]; apply In_sins in Ij as [->|Ij]; try lia.
    + specialize (Hfs sid sv j Hin (or_introl Ij)). lia.
    + specialize (Hfs sid sv j Hin (or_intror Ij)). lia.
  - intros j x Gj. specialize (Hfj j x Gj). lia.
  - intros j k Gj. rewrite aget_aset in Gj. destruct (j =? job_count s) eqn:E.
    + apply N.eqb_eq in E; subst. split; [lia|].
      destruct (aget (job_count s) (jobs s)) eqn:X; auto. specialize (Hfj _ _ X). lia.
    + destruct (Hfl j k Gj). split; [lia | auto].
  - apply cap_ok_aset; auto. simpl. unfold len in *. rewrite length_sins; auto. lia.
Qed.

(* ---- alloc_end_fail / alloc_end_ok ---- *)

Lemma leave_window_Inv j s : Inv s -> Inv (set_inflight s (adel j (inflight s))).
Proof.
  intros I. inv_facts I. apply mkInv; simpl; auto.
  intros j' k Gj. rewrite aget_adel in Gj. destruct (j' =? j); [discriminate|]. eauto.
Qed.

Lemma alloc_end_fail_Inv j s : Inv s -> Inv (fst (alloc_end_fail j s)).
Proof.
  intros I. unfold alloc_end_fail. destruct (aget j (inflight s)) as [sid|] eqn:F; [|exact I].
  destruct (inv_fl _ I _ _ F) as [_ Nj].
  pose proof (leave_window_Inv j s I) as I0. inv_facts I. rewrite Hps.
  destruct (aget sid (servers s)) as [sv|] eqn:G; [|exact I0].
  clear I0. destruct (Hsets _ _ G) as [Sa Su]. destruct (Hcap _ _ G) as [C1 C2].
  apply mkInv; simpl; auto.
  - apply ksorted_aset; auto.
  - apply sets_sorted_aset; simpl; auto; apply ssorted_srem; auto.
  - apply attr_aset; auto. intros j' stt Gj. destruct (Hattr _ _ _ Gj) as [v [Gv Iv]].
    rewrite G in Gv; inversion Gv; subst v. simpl. apply In_srem. split; auto.
    intro; subst j'. congruence.
  - apply disj_aset; auto. simpl. intros j' Ij. apply In_srem in Ij as [Ij _]. left; eauto.
  - apply fresh_srv_aset; auto. simpl.
    intros j' [Ij|Ij]; apply In_srem in Ij as [Ij _]; eapply Hfs; eauto.
  - intros j' k Gj. rewrite aget_adel in Gj. destruct (j' =? j); [discriminate|]. eauto.
  - apply cap_ok_aset; auto. simpl.
    eapply N.le_trans; [apply len_le, length_srem_le | exact C2].
Qed.

Lemma alloc_end_ok_Inv j stt s : Inv s -> Inv (fst (alloc_end_ok true j stt s)).
Proof.
  intros I. unfold alloc_end_ok. destruct (aget j (inflight s)) as [sid|] eqn:F; [|exact I].
  destruct (inv_fl _ I _ _ F) as [Lj Nj].
  pose proof (leave_window_Inv j s I) as I0. inv_facts I. rewrite Hpj, Hps.
  destruct (aget sid (servers s)) as [sv|] eqn:G; [|exact I0].
  destruct (smem j (sv_assigned sv)) eqn:M; [|exact I0].
  clear I0. unfold record_job. simpl. rewrite (proj2 (amem_false _ _) Nj). simpl.
  apply mkInv; simpl; auto.
  - apply ksorted_aset; auto.
  - intros j' k stt' Gj. rewrite aget_aset in Gj. destruct (j' =? j) eqn:E; [|eauto].
    apply N.eqb_eq in E; subst. inversion Gj; subst. exists sv; split; auto. apply smem_In; auto.
  - intros j' x Gj. rewrite aget_aset in Gj. destruct (j' =? j) eqn:E; [|eauto].
    apply N.eqb_eq in E; subst. exact Lj.
  - intros j' k Gj. rewrite aget_adel in Gj. destruct (j' =? j) eqn:E; [discriminate|].
    destruct (Hfl _ _ Gj). split; auto. rewrite aget_aset, E. auto.
Qed.

(* ---- update_job_state ---- *)

Lemma set_state_Inv j sid cur stt s :
  Inv s -> aget j (jobs s) = Some (sid, cur) -> Inv (set_jobs s (aset j (sid, stt) (jobs s))).
Proof.
  intros I G. inv_facts I. apply mkInv; simpl; auto.
  - apply ksorted_aset; auto.
  - intros j' k stt' Gj. rewrite aget_aset in Gj. destruct (j' =? j) eqn:E; [|eauto].
    apply N.eqb_eq in E; subst. inversion Gj; subst. eauto.
  - intros j' x Gj. rewrite aget_aset in Gj. destruct (j' =? j) eqn:E; [|eauto].
    apply N.eqb_eq in E; subst. eauto.
  - intros j' k Gj. destruct (Hfl _ _ Gj) as [L Nn]. split; auto.
    rewrite aget_aset. destruct (j' =? j) eqn:E; auto.
    apply N.eqb_eq in E; subst. congruence.
Qed.

Lemma claim_Inv j sid sv s :
  Inv s -> aget sid (servers s) = Some sv ->
  Inv (set_servers s (aset sid (sv_set_unclaimed sv (srem j (sv_unclaimed sv))) (servers s))).
Proof.
  intros I G. inv_facts I. destruct (Hsets _ _ G) as [Sa Su]. destruct (Hcap _ _ G) as [C1 C2].
  apply mkInv; simpl; auto.
  - apply ksorted_aset; auto.
  - apply sets_sorted_aset; simpl; auto. apply ssorted_srem; auto.
  - apply attr_aset; auto. intros j' stt Gj. destruct (Hattr _ _ _ Gj) as [v [Gv Iv]].
    rewrite G in Gv; inversion Gv; subst v. exact Iv.
  - apply disj_aset; auto. simpl. intros j' Ij. left; eauto.
  - apply fresh_srv_aset; auto. simpl.
    intros j' [Ij|Ij]; [|apply In_srem in Ij as [Ij _]]; eapply Hfs; eauto.
  - apply cap_ok_aset; auto.
Qed.

Lemma complete_Inv j sid cur sv s :
  Inv s -> aget j (jobs s) = Some (sid, cur) -> aget sid (servers s) = Some sv ->
  Inv (set_servers (set_jobs s (adel j (jobs s)))
         (aset sid (sv_set_assigned sv (srem j (sv_assigned sv))) (servers s))).
Proof.
  intros I Gj0 G. inv_facts I. destruct (Hsets _ _ G) as [Sa Su]. destruct (Hcap _ _ G) as [C1 C2].
  apply mkInv; simpl; auto.
  - apply ksorted_adel; auto.
  - apply ksorted_aset; auto.
  - apply sets_sorted_aset; simpl; auto. apply ssorted_srem; auto.
  - intros j' k stt' Gj. rewrite aget_adel in Gj. destruct (j' =? j) eqn:E; [discriminate|].
    destruct (Hattr _ _ _ Gj) as [v [Gv Iv]]. rewrite aget_aset.
    destruct (k =? sid) eqn:E2; [|eauto].
    apply N.eqb_eq in E2; subst. rewrite G in Gv; inversion Gv; subst.
    eexists; split; eauto. simpl. apply In_srem; split; auto. apply N.eqb_neq in E; auto.
  - apply disj_aset; auto. simpl. intros j' Ij. apply In_srem in Ij as [Ij _]. left; eauto.
  - apply fresh_srv_aset; auto. simpl.
    intros j' [Ij|Ij]; [apply In_srem in Ij as [Ij _]|]; eapply Hfs; eauto.
  - intros j' x Gj. rewrite aget_adel in Gj. destruct (j' =? j); [discriminate|]. eauto.
  - intros j' k Gj. destruct (Hfl _ _ Gj) as [L Nn]. split; auto.
    rewrite aget_adel, Nn. destruct (j' =? j); reflexivity.
  - apply cap_ok_aset; auto. simpl.
    eapply N.le_trans; [apply len_le, length_srem_le | exact C2].
Qed.

Lemma update_Inv j sid stt s : Inv s -> Inv (fst (update true j sid stt s)).
Proof.
  intros I. pose proof (inv_pj _ I) as Hpj. pose proof (inv_ps _ I) as Hps.
  unfold update, lock_both. rewrite Hpj, Hps.
  destruct (aget j (jobs s)) as [[owner cur]|] eqn:G; [|exact I].
  destruct (owner =? sid) eqn:O; simpl; [|exact I]. apply N.eqb_eq in O; subst owner.
  destruct (trans_ok cur stt); simpl; [|exact I].
  destruct (inv_attr _ I _ _ _ G) as [sv [Gs Is]].
  destruct stt; simpl.
  - eapply set_state_Inv; eauto.
  - eapply set_state_Inv; eauto.
  - rewrite Gs. simpl.
    apply (claim_Inv j sid sv (set_jobs s (aset j (sid, Started) (jobs s)))); [|exact Gs].
    eapply set_state_Inv; eauto.
  - rewrite Gs. rewrite (proj2 (smem_In _ _) Is). simpl. eapply complete_Inv; eauto.
Qed.

Lemma status_same s : Inv s -> fst (status s) = s.
Proof.
  intro I. unfold status, lock_both. rewrite (inv_pj _ I), (inv_ps _ I). reflexivity.
Qed.

Theorem step_Inv s m : Inv s -> Inv (fst (step true s m)).
Proof.
  intro I. destruct m; simpl.
  - apply heartbeat_Inv; auto.
  - apply alloc_begin_Inv; auto.
  - apply alloc_end_ok_Inv; auto.
  - apply alloc_end_fail_Inv; auto.
  - apply update_Inv; auto.
  - rewrite status_same; auto.
Qed.

Theorem run_Inv ms : forall s, Inv s -> Inv (run true s ms).
Proof.
  unfold run. induction ms as [|m r IH]; simpl; intros s I; [exact I|].
  apply IH. apply step_Inv. exact I.
Qed.

Corollary reachable_Inv ms : Inv (run true init ms).
Proof. apply run_Inv, Inv_init. Qed.
