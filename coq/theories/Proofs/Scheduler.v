(* Proofs/Scheduler.v — invariants of Model/Scheduler.v (the scheduler after the fix: commit, fx = true)
   for ALL message sequences, and the lemmas the pinned theorems of Properties/C18.v are instances of. *)
From Coq Require Import List NArith Bool Lia ZifyN ZifyBool Sorted Permutation.
From Sccache Require Import Base.Sx Gen.C18Consts Model.Scheduler.
Import ListNotations.
Local Open Scope N_scope.

Arguments N.add : simpl never.
Arguments N.sub : simpl never.
Arguments N.mul : simpl never.
Arguments N.div : simpl never.
Arguments N.ltb : simpl never.
Arguments N.leb : simpl never.
Arguments N.eqb : simpl never.

(* ================= sorted lists of N as sets ================= *)

Definition ssorted (l : list N) : Prop := StronglySorted N.lt l.

Lemma smem_In k l : smem k l = true <-> In k l.
Proof.
  induction l as [|x r IH]; simpl; [split; [discriminate | tauto]|].
  rewrite orb_true_iff, IH, N.eqb_eq. split; intros [H|H]; auto.
Qed.

Lemma smem_false k l : smem k l = false <-> ~ In k l.
Proof. rewrite <- smem_In. destruct (smem k l); split; congruence. Qed.

Lemma In_sins x k l : In x (sins k l) <-> x = k \/ In x l.
Proof.
  induction l as [|y r IH]; simpl; [intuition|].
  destruct (k =? y) eqn:E; [apply N.eqb_eq in E; subst; simpl; intuition|].
  destruct (k <? y) eqn:L; simpl; [intuition|]. rewrite IH. intuition.
Qed.

Lemma In_srem x k l : In x (srem k l) <-> In x l /\ x <> k.
Proof.
  unfold srem. rewrite filter_In, negb_true_iff, N.eqb_neq. intuition.
Qed.

Lemma ssorted_filter p l : ssorted l -> ssorted (filter p l).
Proof.
  unfold ssorted. induction 1 as [|a l Hs IH Hf]; simpl; [constructor|].
  destruct (p a); auto. constructor; auto.
  rewrite Forall_forall in *. intros x Hx. apply filter_In in Hx. apply Hf, Hx.
Qed.

Lemma ssorted_srem k l : ssorted l -> ssorted (srem k l).
Proof. apply ssorted_filter. Qed.

Lemma ssorted_sins k l : ssorted l -> ssorted (sins k l).
Proof.
  unfold ssorted. induction 1 as [|a l Hs IH Hf]; simpl; [repeat constructor|].
  destruct (k =? a) eqn:E; [constructor; auto|].
  destruct (k <? a) eqn:L.
  - constructor; [constructor; auto|]. constructor; [lia|].
    rewrite Forall_forall in *. intros x Hx. specialize (Hf x Hx). lia.
  - constructor; auto. rewrite Forall_forall in *. intros x Hx.
    apply In_sins in Hx as [->|Hx]; [lia | auto].
Qed.

Lemma ssorted_NoDup l : ssorted l -> NoDup l.
Proof.
  induction 1 as [|a l Hs IH Hf]; constructor; auto.
  intro Hin. rewrite Forall_forall in Hf. specialize (Hf a Hin). lia.
Qed.

Lemma length_sins k l : ~ In k l -> length (sins k l) = S (length l).
Proof.
  induction l as [|y r IH]; simpl; intro H; [reflexivity|].
  destruct (k =? y) eqn:E; [apply N.eqb_eq in E; subst; tauto|].
  destruct (k <? y); simpl; [reflexivity|]. rewrite IH; tauto.
Qed.

Lemma length_srem_le k l : (length (srem k l) <= length l)%nat.
Proof.
  unfold srem. induction l as [|x r IH]; simpl; [lia|]. destruct (negb (k =? x)); simpl; lia.
Qed.

(* ================= association lists keyed by N ================= *)

Definition ksorted {V} (l : list (N * V)) : Prop := ssorted (keys l).

Lemma aget_aset_same {V} k (v : V) l : aget k (aset k v l) = Some v.
Proof.
  induction l as [|[k' v'] r IH]; simpl; [rewrite N.eqb_refl; reflexivity|].
  destruct (k =? k') eqn:E; simpl; [rewrite N.eqb_refl; reflexivity|].
  destruct (k <? k'); simpl; [rewrite N.eqb_refl; reflexivity|]. rewrite E. exact IH.
Qed.

Lemma aget_aset_other {V} k k' (v : V) l : k' <> k -> aget k' (aset k v l) = aget k' l.
Proof.
  intro Hne. induction l as [|[k2 v2] r IH]; simpl.
  - destruct (k' =? k) eqn:E; [apply N.eqb_eq in E; congruence | reflexivity].
  - destruct (k =? k2) eqn:E; simpl.
    + apply N.eqb_eq in E; subst k2.
      destruct (k' =? k) eqn:E2; [apply N.eqb_eq in E2; congruence | reflexivity].
    + destruct (k <? k2); simpl.
      * destruct (k' =? k) eqn:E2; [apply N.eqb_eq in E2; congruence | reflexivity].
      * destruct (k' =? k2); [reflexivity | exact IH].
Qed.

Lemma aget_aset {V} k k' (v : V) l :
  aget k' (aset k v l) = if k' =? k then Some v else aget k' l.
Proof.
  destruct (k' =? k) eqn:E.
  - apply N.eqb_eq in E; subst. apply aget_aset_same.
  - apply N.eqb_neq in E. apply aget_aset_other; assumption.
Qed.

Lemma aget_filter_key {V} (p : N -> bool) k (l : list (N * V)) :
  aget k (filter (fun kv => p (fst kv)) l) = if p k then aget k l else None.
Proof.
  induction l as [|[k' v'] r IH]; simpl; [destruct (p k); reflexivity|].
  destruct (p k') eqn:P; simpl.
  - destruct (k =? k') eqn:E; [apply N.eqb_eq in E; subst; rewrite P; reflexivity | exact IH].
  - rewrite IH. destruct (k =? k') eqn:E; [apply N.eqb_eq in E; subst; rewrite P; reflexivity | reflexivity].
Qed.

Lemma aget_adel {V} k k' (l : list (N * V)) :
  aget k' (adel k l) = if k' =? k then None else aget k' l.
Proof.
  unfold adel. rewrite (aget_filter_key (fun x => negb (k =? x))).
  rewrite (N.eqb_sym k k'). destruct (k' =? k); reflexivity.
Qed.

Lemma aget_In {V} k (v : V) l : aget k l = Some v -> In (k, v) l.
Proof.
  induction l as [|[k' v'] r IH]; simpl; [discriminate|].
  destruct (k =? k') eqn:E; [apply N.eqb_eq in E; subst; intro H; inversion H; auto | auto].
Qed.

Lemma aget_In_keys {V} k (v : V) l : aget k l = Some v -> In k (keys l).
Proof. intro H. apply aget_In in H. apply (in_map fst) in H. exact H. Qed.

Lemma aget_None_keys {V} k (l : list (N * V)) : aget k l = None <-> ~ In k (keys l).
Proof.
  induction l as [|[k' v'] r IH]; simpl; [tauto|].
  destruct (k =? k') eqn:E.
  - apply N.eqb_eq in E; subst. split; [discriminate | tauto].
  - apply N.eqb_neq in E. rewrite IH. intuition.
Qed.

Lemma In_aget {V} k (v : V) l : ksorted l -> In (k, v) l -> aget k l = Some v.
Proof.
  unfold ksorted, keys, ssorted. induction l as [|[k' v'] r IH]; simpl; [tauto|].
  intros Hs [H|H].
  - inversion H; subst. rewrite N.eqb_refl. reflexivity.
  - inversion Hs as [|? ? Hs' Hf]; subst.
    destruct (k =? k') eqn:E; [|auto].
    apply N.eqb_eq in E; subst. rewrite Forall_forall in Hf.
    specialize (Hf k' (in_map fst _ _ H)). simpl in Hf. lia.
Qed.

Lemma In_keys_aset {V} x k (v : V) l : In x (keys (aset k v l)) <-> x = k \/ In x (keys l).
Proof.
  unfold keys. induction l as [|[k' v'] r IH]; simpl; [intuition|].
  destruct (k =? k') eqn:E; [apply N.eqb_eq in E; subst; simpl; intuition|].
  destruct (k <? k'); simpl; [intuition|]. rewrite IH. intuition.
Qed.

Lemma ksorted_aset {V} k (v : V) l : ksorted l -> ksorted (aset k v l).
Proof.
  unfold ksorted, ssorted. induction l as [|[k' v'] r IH]; simpl; intro Hs; [repeat constructor|].
  inversion Hs as [|? ? Hs' Hf]; subst.
  destruct (k =? k') eqn:E.
  - apply N.eqb_eq in E; subst. simpl. constructor; assumption.
  - destruct (k <? k') eqn:L; simpl.
    + constructor; [exact Hs|]. constructor; [lia|].
      rewrite Forall_forall in *. intros x Hx. specialize (Hf x Hx). lia.
    + constructor; [auto|]. rewrite Forall_forall in *. intros x Hx.
      apply (In_keys_aset x k v r) in Hx as [->|Hx]; [lia | auto].
Qed.

Lemma keys_filter {V} (p : N -> bool) (l : list (N * V)) :
  keys (filter (fun kv => p (fst kv)) l) = filter p (keys l).
Proof.
  unfold keys. induction l as [|[k v] r IH]; simpl; [reflexivity|].
  destruct (p k); simpl; rewrite IH; reflexivity.
Qed.

Lemma ksorted_filter_key {V} (p : N -> bool) (l : list (N * V)) :
  ksorted l -> ksorted (filter (fun kv => p (fst kv)) l).
Proof. unfold ksorted. rewrite keys_filter. apply ssorted_filter. Qed.

Lemma ksorted_adel {V} k (l : list (N * V)) : ksorted l -> ksorted (adel k l).
Proof. apply (ksorted_filter_key (fun x => negb (k =? x))). Qed.

Lemma amem_false {V} k (l : list (N * V)) : amem k l = false <-> aget k l = None.
Proof. unfold amem. destruct (aget k l); split; congruence. Qed.

Lemma len_le {A B} (a : list A) (b : list B) : (length a <= length b)%nat -> len a <= len b.
Proof. unfold len. lia. Qed.

Lemma aget_drop {V} (a : list N) k (js : list (N * V)) :
  aget k (filter (fun kv => negb (smem (fst kv) a)) js) = if smem k a then None else aget k js.
Proof.
  rewrite (aget_filter_key (fun x => negb (smem x a))). destruct (smem k a); reflexivity.
Qed.

Lemma ksorted_drop {V} (a : list N) (js : list (N * V)) :
  ksorted js -> ksorted (filter (fun kv => negb (smem (fst kv) a)) js).
Proof. apply (ksorted_filter_key (fun x => negb (smem x a))). Qed.

(* ================= the invariant ================= *)

Definition sets_sorted (sv : list (N * server)) : Prop :=
  forall sid v, aget sid sv = Some v -> ssorted (sv_assigned v) /\ ssorted (sv_unclaimed v).

(* every recorded job belongs to a registered server whose jobs_assigned holds it *)
Definition attr (js : list (N * (N * jstate))) (sv : list (N * server)) : Prop :=
  forall j sid stt, aget j js = Some (sid, stt) ->
    exists v, aget sid sv = Some v /\ In j (sv_assigned v).

(* no job id is in the jobs_assigned of two servers *)
Definition disj (sv : list (N * server)) : Prop :=
  forall j s1 v1 s2 v2, aget s1 sv = Some v1 -> aget s2 sv = Some v2 ->
    In j (sv_assigned v1) -> In j (sv_assigned v2) -> s1 = s2.

Definition fresh_srv (c : N) (sv : list (N * server)) : Prop :=
  forall sid v j, aget sid sv = Some v -> In j (sv_assigned v) \/ In j (sv_unclaimed v) -> j < c.

Definition fresh_jobs (c : N) (js : list (N * (N * jstate))) : Prop :=
  forall j x, aget j js = Some x -> j < c.

(* a call inside its window holds an id that is not recorded yet *)
Definition fl_ok (c : N) (js : list (N * (N * jstate))) (fl : list (N * N)) : Prop :=
  forall j sid, aget j fl = Some sid -> j < c /\ aget j js = None.

Definition cap_ok (sv : list (N * server)) : Prop :=
  forall sid v, aget sid sv = Some v -> 1 <= sv_cpus v /\ len (sv_assigned v) <= slack (sv_cpus v).

(* no leaked reservation: every id in a server's jobs_assigned is a live job of that server or belongs to a
   call of handle_alloc_job that is still inside its window for that server *)
Definition noleak (js : list (N * (N * jstate))) (fl : list (N * N)) (sv : list (N * server)) : Prop :=
  forall sid v j, aget sid sv = Some v -> In j (sv_assigned v) ->
    (exists stt, aget j js = Some (sid, stt)) \/ aget j fl = Some sid.

Record Inv (s : st) : Prop := mkInv {
  inv_pj : pois_jobs s = false;
  inv_ps : pois_servers s = false;
  inv_jobs_sorted : ksorted (jobs s);
  inv_srv_sorted : ksorted (servers s);
  inv_sets : sets_sorted (servers s);
  inv_attr : attr (jobs s) (servers s);
  inv_disj : disj (servers s);
  inv_fresh_srv : fresh_srv (job_count s) (servers s);
  inv_fresh_jobs : fresh_jobs (job_count s) (jobs s);
  inv_fl : fl_ok (job_count s) (jobs s) (inflight s);
  inv_cap : cap_ok (servers s);
  inv_noleak : noleak (jobs s) (inflight s) (servers s)
}.

Lemma Inv_init : Inv init.
Proof.
  apply mkInv; simpl; try reflexivity; try (constructor; fail);
    repeat intro; simpl in *; discriminate.
Qed.

(* ---- replacing / adding one server ---- *)

Lemma aget_aset_cases {V} k k' (v v' : V) l :
  aget k' (aset k v l) = Some v' -> (k' = k /\ v' = v) \/ (k' <> k /\ aget k' l = Some v').
Proof.
  rewrite aget_aset. destruct (k' =? k) eqn:E.
  - apply N.eqb_eq in E. intro H; inversion H; auto.
  - apply N.eqb_neq in E. auto.
Qed.

Lemma sets_sorted_aset sid v' sv :
  sets_sorted sv -> ssorted (sv_assigned v') -> ssorted (sv_unclaimed v') -> sets_sorted (aset sid v' sv).
Proof.
  intros H Ha Hu k v G. apply aget_aset_cases in G as [[-> ->]|[_ G]]; eauto.
Qed.

Lemma attr_aset js sid v' sv :
  attr js sv -> (forall j stt, aget j js = Some (sid, stt) -> In j (sv_assigned v')) -> attr js (aset sid v' sv).
Proof.
  intros H Hn j k stt G. rewrite aget_aset. destruct (k =? sid) eqn:E.
  - apply N.eqb_eq in E; subst. eauto.
  - apply (H j k stt G).
Qed.

Lemma disj_aset sid v' sv :
  disj sv ->
  (forall j, In j (sv_assigned v') ->
     (exists v, aget sid sv = Some v /\ In j (sv_assigned v)) \/
     (forall s2 v2, aget s2 sv = Some v2 -> ~ In j (sv_assigned v2))) ->
  disj (aset sid v' sv).
Proof.
  intros H Hn j s1 v1 s2 v2 G1 G2 I1 I2.
  apply aget_aset_cases in G1 as [[-> ->]|[N1 G1]];
    apply aget_aset_cases in G2 as [[-> ->]|[N2 G2]]; auto.
  - destruct (Hn j I1) as [[v [Gv Iv]]|Hno].
    + exact (H j _ _ _ _ Gv G2 Iv I2).
    + exfalso. exact (Hno _ _ G2 I2).
  - destruct (Hn j I2) as [[v [Gv Iv]]|Hno].
    + exact (H j _ _ _ _ G1 Gv I1 Iv).
    + exfalso. exact (Hno _ _ G1 I1).
  - exact (H j _ _ _ _ G1 G2 I1 I2).
Qed.

Lemma fresh_srv_aset c sid v' sv :
  fresh_srv c sv -> (forall j, In j (sv_assigned v') \/ In j (sv_unclaimed v') -> j < c) ->
  fresh_srv c (aset sid v' sv).
Proof.
  intros H Hn k v j G. apply aget_aset_cases in G as [[-> ->]|[_ G]]; eauto.
Qed.

Lemma fresh_srv_mono c c' sv : fresh_srv c sv -> c <= c' -> fresh_srv c' sv.
Proof. intros H L k v j G I. specialize (H k v j G I). lia. Qed.

Lemma cap_ok_aset sid v' sv :
  cap_ok sv -> 1 <= sv_cpus v' -> len (sv_assigned v') <= slack (sv_cpus v') -> cap_ok (aset sid v' sv).
Proof.
  intros H H1 H2 k v G. apply aget_aset_cases in G as [[-> ->]|[_ G]]; eauto.
Qed.

Ltac inv_facts I :=
  pose proof (inv_pj _ I) as Hpj; pose proof (inv_ps _ I) as Hps;
  pose proof (inv_jobs_sorted _ I) as Hjs; pose proof (inv_srv_sorted _ I) as Hss;
  pose proof (inv_sets _ I) as Hsets; pose proof (inv_attr _ I) as Hattr;
  pose proof (inv_disj _ I) as Hdisj; pose proof (inv_fresh_srv _ I) as Hfs;
  pose proof (inv_fresh_jobs _ I) as Hfj; pose proof (inv_fl _ I) as Hfl;
  pose proof (inv_cap _ I) as Hcap; pose proof (inv_noleak _ I) as Hnl.

(* ---- heartbeat ---- *)

Lemma heartbeat_Inv sid n c tf s : Inv s -> Inv (fst (heartbeat sid n c tf s)).
Proof.
  intros I. inv_facts I. unfold heartbeat. destruct (c =? 0) eqn:C; [exact I|].
  apply N.eqb_neq in C. unfold lock_both. rewrite Hpj, Hps.
  destruct (aget sid (servers s)) as [sv|] eqn:G.
  - destruct (sv_nonce sv =? n); [exact I|]. apply mkInv; simpl; auto.
    + apply ksorted_drop; auto.
    + apply ksorted_aset; auto.
    + apply sets_sorted_aset; simpl; auto; constructor.
    + intros j k stt Gj. rewrite aget_drop in Gj.
      destruct (smem j (sv_assigned sv)) eqn:M; [discriminate|].
      destruct (Hattr j k stt Gj) as [v [Gv Iv]].
      rewrite aget_aset. destruct (k =? sid) eqn:E; [|eauto].
      apply N.eqb_eq in E; subst. rewrite G in Gv. inversion Gv; subst.
      apply smem_false in M. tauto.
    + apply disj_aset; auto; simpl; tauto.
    + apply fresh_srv_aset; auto; simpl; tauto.
    + intros j x Gj. rewrite aget_drop in Gj. destruct (smem j _); [discriminate|]. eauto.
    + intros j k Gj. destruct (Hfl j k Gj) as [L Nn]. split; auto.
      rewrite aget_drop, Nn. destruct (smem _ _); reflexivity.
    + apply cap_ok_aset; auto; simpl; unfold len; simpl; lia.
    + intros k v j Gk Ij. apply aget_aset_cases in Gk as [[-> ->]|[Nk Gk]]; [simpl in Ij; tauto|].
      destruct (Hnl k v j Gk Ij) as [[stt Gj]|F]; [|auto]. left. exists stt. rewrite aget_drop.
      destruct (smem j (sv_assigned sv)) eqn:M; [|exact Gj].
      exfalso. apply Nk. apply smem_In in M. exact (Hdisj j _ _ _ _ Gk G Ij M).
  - apply mkInv; simpl; auto.
    + apply ksorted_aset; auto.
    + apply sets_sorted_aset; simpl; auto; constructor.
    + apply attr_aset; auto. intros j stt Gj. destruct (Hattr _ _ _ Gj) as [v [Gv _]]. congruence.
    + apply disj_aset; auto; simpl; tauto.
    + apply fresh_srv_aset; auto; simpl; tauto.
    + apply cap_ok_aset; auto; simpl; unfold len; simpl; lia.
    + intros k v j Gk Ij. apply aget_aset_cases in Gk as [[-> ->]|[Nk Gk]]; [simpl in Ij; tauto|].
      exact (Hnl k v j Gk Ij).
Qed.

(* ---- the choice of the server ---- *)

Definition sel_good (L : list (N * server)) (a : sel) : Prop :=
  (forall kv, sel_best a = Some kv ->
     In kv L /\ len (sv_assigned (snd kv)) < slack (sv_cpus (snd kv))) /\
  (forall kv e, sel_err a = Some (kv, e) ->
     In kv L /\ len (sv_assigned (snd kv)) < slack (sv_cpus (snd kv))).

Lemma load_lt_slack n c bn bd : load_lt (load_weight n c) bn bd = true -> n < slack c.
Proof.
  unfold load_weight. destruct (slack c <=? n) eqn:E; simpl; [discriminate|]. intros _. lia.
Qed.

Lemma sel_step_good L a kv : sel_good L a -> In kv L -> sel_good L (sel_step a kv).
Proof.
  intros [Hb He] Hin. unfold sel_step. destruct (sel_stop a); [split; auto|].
  destruct (sv_last_error (snd kv)) as [e|].
  - destruct (load_lt _ max_per_core_load 1) eqn:LL; [|split; auto].
    apply load_lt_slack in LL.
    destruct (sel_err a) as [[kv0 be]|] eqn:SE.
    + destruct (e <? be); [|split; [auto | intros kv1 e1 H; rewrite SE in H; eauto]].
      split; simpl; auto. intros kv1 e1 H; inversion H; subst; auto.
    + split; simpl; auto. intros kv1 e1 H; inversion H; subst; auto.
  - destruct (load_lt _ (sel_bn a) (sel_bd a)) eqn:LL; [|split; auto].
    apply load_lt_slack in LL.
    split; simpl; auto. intros kv1 H; inversion H; subst; auto.
Qed.

Lemma fold_sel_good L l : forall a, sel_good L a -> incl l L -> sel_good L (fold_left sel_step l a).
Proof.
  induction l as [|kv r IH]; simpl; intros a Ha Hi; [exact Ha|].
  apply IH.
  - apply sel_step_good; auto. apply Hi. left; reflexivity.
  - intros x Hx. apply Hi. right; exact Hx.
Qed.

Lemma choose_good l kv :
  choose l = Some kv -> In kv l /\ len (sv_assigned (snd kv)) < slack (sv_cpus (snd kv)).
Proof.
  unfold choose. intro H.
  assert (G : sel_good l (fold_left sel_step l sel_init)).
  { apply fold_sel_good; [|apply incl_refl]. split; simpl; intros; discriminate. }
  destruct G as [Gb Ge].
  destruct (sel_best (fold_left sel_step l sel_init)) as [kv0|] eqn:B.
  - inversion H; subst. apply Gb; reflexivity.
  - destruct (sel_err (fold_left sel_step l sel_init)) as [[kv0 e]|] eqn:E; [|discriminate].
    inversion H; subst. eapply Ge; reflexivity.
Qed.

Lemma take_pref_In ord srv k v : forall seen, In (k, v) (take_pref ord seen srv) -> aget k srv = Some v.
Proof.
  induction ord as [|x r IH]; simpl; intros seen H; [tauto|].
  destruct (smem x seen); [eauto|].
  destruct (aget x srv) as [vx|] eqn:G; [|eauto].
  destruct H as [H|H]; [inversion H; subst; exact G | eauto].
Qed.

Lemma iter_order_In ord srv k v : ksorted srv -> In (k, v) (iter_order ord srv) -> aget k srv = Some v.
Proof.
  intros Hs H. unfold iter_order in H. apply in_app_or in H as [H|H].
  - eapply take_pref_In; eauto.
  - apply filter_In in H as [H _]. apply In_aget; auto.
Qed.

(* ---- alloc_begin ---- *)

Lemma bump_Inv s : Inv s -> Inv (set_job_count s (job_count s + 1)).
Proof.
  intros I. inv_facts I. apply mkInv; simpl; auto.
  - eapply fresh_srv_mono; eauto. lia.
  - intros j x Gj. specialize (Hfj j x Gj). lia.
  - intros j k Gj. destruct (Hfl j k Gj). split; [lia | auto].
Qed.

Lemma alloc_begin_Inv ord s : Inv s -> Inv (fst (alloc_begin true ord s)).
Proof.
  intros I. inv_facts I. unfold alloc_begin. rewrite Hps.
  destruct (choose _) as [[sid sv]|] eqn:CH; [|exact I].
  simpl. destruct (sv_tokfail sv); [apply bump_Inv; exact I|].
  apply choose_good in CH as [Hin Hlt]. simpl in Hlt. apply iter_order_In in Hin; auto.
  assert (Hnj : ~ In (job_count s) (sv_assigned sv)).
  { intro X. specialize (Hfs sid sv _ Hin (or_introl X)). lia. }
  assert (Hnu : ~ In (job_count s) (sv_unclaimed sv)).
  { intro X. specialize (Hfs sid sv _ Hin (or_intror X)). lia. }
  rewrite (proj2 (smem_false _ _) Hnj). simpl. rewrite (proj2 (smem_false _ _) Hnu). simpl.
  destruct (Hsets _ _ Hin) as [Sa Su]. destruct (Hcap _ _ Hin) as [C1 C2].
  apply mkInv; simpl; auto.
  - apply ksorted_aset; auto.
  - apply sets_sorted_aset; simpl; auto; apply ssorted_sins; auto.
  - apply attr_aset; auto. intros j stt Gj. destruct (Hattr j sid stt Gj) as [v [Gv Iv]].
    rewrite Hin in Gv; inversion Gv; subst. simpl. apply In_sins; auto.
  - apply disj_aset; auto. simpl. intros j Ij. apply In_sins in Ij as [->|Ij].
    + right. intros s2 v2 G2 I2. specialize (Hfs s2 v2 _ G2 (or_introl I2)). lia.
    + left; eauto.
  - apply fresh_srv_aset; [eapply fresh_srv_mono; eauto; lia|]. simpl.
    intros j [Ij|Ij]; apply In_sins in Ij as [->|Ij]; try lia.
    + specialize (Hfs sid sv j Hin (or_introl Ij)). lia.
    + specialize (Hfs sid sv j Hin (or_intror Ij)). lia.
  - intros j x Gj. specialize (Hfj j x Gj). lia.
  - intros j k Gj. rewrite aget_aset in Gj. destruct (j =? job_count s) eqn:E.
    + apply N.eqb_eq in E; subst. split; [lia|].
      destruct (aget (job_count s) (jobs s)) eqn:X; auto. specialize (Hfj _ _ X). lia.
    + destruct (Hfl j k Gj). split; [lia | auto].
  - apply cap_ok_aset; auto. simpl. unfold len in *. rewrite length_sins; auto. lia.
  - intros k v j Gk Ij. rewrite aget_aset.
    apply aget_aset_cases in Gk as [[-> ->]|[Nk Gk]].
    + simpl in Ij. apply In_sins in Ij as [->|Ij]; [rewrite N.eqb_refl; auto|].
      destruct (j =? job_count s) eqn:E; [auto|]. exact (Hnl sid sv j Hin Ij).
    + destruct (j =? job_count s) eqn:E; [|exact (Hnl k v j Gk Ij)].
      apply N.eqb_eq in E; subst j. specialize (Hfs k v _ Gk (or_introl Ij)). lia.
Qed.

(* ---- alloc_end_fail / alloc_end_ok ---- *)

Lemma leave_window_Inv j sid s :
  Inv s -> aget j (inflight s) = Some sid ->
  (forall sv, aget sid (servers s) = Some sv -> ~ In j (sv_assigned sv)) ->
  Inv (set_inflight s (adel j (inflight s))).
Proof.
  intros I F Hno. inv_facts I. apply mkInv; simpl; auto.
  - intros j' k Gj. rewrite aget_adel in Gj. destruct (j' =? j); [discriminate|]. eauto.
  - intros k v j' Gk Ij. rewrite aget_adel. destruct (j' =? j) eqn:E; [|exact (Hnl k v j' Gk Ij)].
    apply N.eqb_eq in E; subst j'. destruct (Hfl _ _ F) as [_ Nj].
    destruct (Hnl k v j Gk Ij) as [[stt Gj]|F']; [congruence|].
    rewrite F in F'; inversion F'; subst k. exfalso. exact (Hno v Gk Ij).
Qed.

Lemma alloc_end_fail_Inv j s : Inv s -> Inv (fst (alloc_end_fail j s)).
Proof.
  intros I. unfold alloc_end_fail. destruct (aget j (inflight s)) as [sid|] eqn:F; [|exact I].
  destruct (inv_fl _ I _ _ F) as [_ Nj].
  inv_facts I. rewrite Hps.
  destruct (aget sid (servers s)) as [sv|] eqn:G;
    [|apply (leave_window_Inv j sid s I F); intros sv G'; congruence].
  destruct (Hsets _ _ G) as [Sa Su]. destruct (Hcap _ _ G) as [C1 C2].
  apply mkInv; simpl; auto.
  - apply ksorted_aset; auto.
  - apply sets_sorted_aset; simpl; auto; apply ssorted_srem; auto.
  - apply attr_aset; auto. intros j' stt Gj. destruct (Hattr _ _ _ Gj) as [v [Gv Iv]].
    rewrite G in Gv; inversion Gv; subst v. simpl. apply In_srem. split; auto.
    intro; subst j'. congruence.
  - apply disj_aset; auto. simpl. intros j' Ij. apply In_srem in Ij as [Ij _]. left; eauto.
  - apply fresh_srv_aset; auto. simpl.
    intros j' [Ij|Ij]; apply In_srem in Ij as [Ij _]; eapply Hfs; eauto.
  - intros j' k Gj. rewrite aget_adel in Gj. destruct (j' =? j); [discriminate|]. eauto.
  - apply cap_ok_aset; auto. simpl.
    apply N.le_trans with (len (sv_assigned sv)); [apply len_le; apply length_srem_le | exact C2].
  - intros k v j' Gk Ij. rewrite aget_adel.
    assert (Nj' : j' <> j).
    { apply aget_aset_cases in Gk as [[-> ->]|[Nk Gk]].
      - simpl in Ij. apply In_srem in Ij. tauto.
      - intro; subst j'. destruct (Hnl k v j Gk Ij) as [[stt Gj]|F']; congruence. }
    apply N.eqb_neq in Nj'. rewrite Nj'.
    apply aget_aset_cases in Gk as [[-> ->]|[Nk Gk]]; [|exact (Hnl k v j' Gk Ij)].
    simpl in Ij. apply In_srem in Ij as [Ij _]. exact (Hnl sid sv j' G Ij).
Qed.

Lemma alloc_end_ok_Inv j stt s : Inv s -> Inv (fst (alloc_end_ok true j stt s)).
Proof.
  intros I. unfold alloc_end_ok. destruct (aget j (inflight s)) as [sid|] eqn:F; [|exact I].
  destruct (inv_fl _ I _ _ F) as [Lj Nj].
  inv_facts I. rewrite Hpj, Hps.
  destruct (aget sid (servers s)) as [sv|] eqn:G;
    [|apply (leave_window_Inv j sid s I F); intros sv G'; congruence].
  destruct (smem j (sv_assigned sv)) eqn:M;
    [|apply (leave_window_Inv j sid s I F); intros sv' G'; rewrite G in G'; inversion G'; subst sv';
      apply smem_false; exact M].
  unfold record_job. simpl. rewrite (proj2 (amem_false _ _) Nj). simpl.
  apply mkInv; simpl; auto.
  - apply ksorted_aset; auto.
  - intros j' k stt' Gj. rewrite aget_aset in Gj. destruct (j' =? j) eqn:E; [|eauto].
    apply N.eqb_eq in E; subst. inversion Gj; subst. exists sv; split; auto. apply smem_In; auto.
  - intros j' x Gj. rewrite aget_aset in Gj. destruct (j' =? j) eqn:E; [|eauto].
    apply N.eqb_eq in E; subst. exact Lj.
  - intros j' k Gj. rewrite aget_adel in Gj. destruct (j' =? j) eqn:E; [discriminate|].
    destruct (Hfl _ _ Gj). split; auto. rewrite aget_aset, E. auto.
  - intros k v j' Gk Ij. rewrite aget_aset, aget_adel. destruct (j' =? j) eqn:E.
    + apply N.eqb_eq in E; subst j'. left. exists stt. f_equal. f_equal.
      apply smem_In in M. exact (Hdisj j _ _ _ _ G Gk M Ij).
    + exact (Hnl k v j' Gk Ij).
Qed.

(* ---- update_job_state ---- *)

Lemma set_state_Inv j sid cur stt s :
  Inv s -> aget j (jobs s) = Some (sid, cur) -> Inv (set_jobs s (aset j (sid, stt) (jobs s))).
Proof.
  intros I G. inv_facts I. apply mkInv; simpl; auto.
  - apply ksorted_aset; auto.
  - intros j' k stt' Gj. rewrite aget_aset in Gj. destruct (j' =? j) eqn:E; [|eauto].
    apply N.eqb_eq in E; subst. inversion Gj; subst. eauto.
  - intros j' x Gj. rewrite aget_aset in Gj. destruct (j' =? j) eqn:E; [|eauto].
    apply N.eqb_eq in E; subst. eauto.
  - intros j' k Gj. destruct (Hfl _ _ Gj) as [L Nn]. split; auto.
    rewrite aget_aset. destruct (j' =? j) eqn:E; auto.
    apply N.eqb_eq in E; subst. congruence.
  - intros k v j' Gk Ij. rewrite aget_aset. destruct (j' =? j) eqn:E; [|exact (Hnl k v j' Gk Ij)].
    apply N.eqb_eq in E; subst j'. left.
    destruct (Hattr _ _ _ G) as [v0 [G0 I0]]. rewrite (Hdisj j _ _ _ _ Gk G0 Ij I0). eauto.
Qed.

Lemma claim_Inv j sid sv s :
  Inv s -> aget sid (servers s) = Some sv ->
  Inv (set_servers s (aset sid (sv_set_unclaimed sv (srem j (sv_unclaimed sv))) (servers s))).
Proof.
  intros I G. inv_facts I. destruct (Hsets _ _ G) as [Sa Su]. destruct (Hcap _ _ G) as [C1 C2].
  apply mkInv; simpl; auto.
  - apply ksorted_aset; auto.
  - apply sets_sorted_aset; simpl; auto. apply ssorted_srem; auto.
  - apply attr_aset; auto. intros j' stt Gj. destruct (Hattr _ _ _ Gj) as [v [Gv Iv]].
    rewrite G in Gv; inversion Gv; subst v. exact Iv.
  - apply disj_aset; auto. simpl. intros j' Ij. left; eauto.
  - apply fresh_srv_aset; auto. simpl.
    intros j' [Ij|Ij]; [|apply In_srem in Ij as [Ij _]]; eapply Hfs; eauto.
  - apply cap_ok_aset; auto.
  - intros k v j' Gk Ij. apply aget_aset_cases in Gk as [[-> ->]|[Nk Gk]]; [|exact (Hnl k v j' Gk Ij)].
    simpl in Ij. exact (Hnl sid sv j' G Ij).
Qed.

Lemma complete_Inv j sid cur sv s :
  Inv s -> aget j (jobs s) = Some (sid, cur) -> aget sid (servers s) = Some sv ->
  Inv (set_servers (set_jobs s (adel j (jobs s)))
         (aset sid (sv_set_assigned sv (srem j (sv_assigned sv))) (servers s))).
Proof.
  intros I Gj0 G. inv_facts I. destruct (Hsets _ _ G) as [Sa Su]. destruct (Hcap _ _ G) as [C1 C2].
  apply mkInv; simpl; auto.
  - apply ksorted_adel; auto.
  - apply ksorted_aset; auto.
  - apply sets_sorted_aset; simpl; auto. apply ssorted_srem; auto.
  - intros j' k stt' Gj. rewrite aget_adel in Gj. destruct (j' =? j) eqn:E; [discriminate|].
    destruct (Hattr _ _ _ Gj) as [v [Gv Iv]]. rewrite aget_aset.
    destruct (k =? sid) eqn:E2; [|eauto].
    apply N.eqb_eq in E2; subst. rewrite G in Gv; inversion Gv; subst.
    eexists; split; eauto. simpl. apply In_srem; split; auto. apply N.eqb_neq in E; auto.
  - apply disj_aset; auto. simpl. intros j' Ij. apply In_srem in Ij as [Ij _]. left; eauto.
  - apply fresh_srv_aset; auto. simpl.
    intros j' [Ij|Ij]; [apply In_srem in Ij as [Ij _]|]; eapply Hfs; eauto.
  - intros j' x Gj. rewrite aget_adel in Gj. destruct (j' =? j); [discriminate|]. eauto.
  - intros j' k Gj. destruct (Hfl _ _ Gj) as [L Nn]. split; auto.
    rewrite aget_adel, Nn. destruct (j' =? j); reflexivity.
  - apply cap_ok_aset; auto. simpl.
    apply N.le_trans with (len (sv_assigned sv)); [apply len_le; apply length_srem_le | exact C2].
  - destruct (Hattr _ _ _ Gj0) as [v0 [G0 I0]]. rewrite G in G0; inversion G0; subst v0.
    intros k v j' Gk Ij. rewrite aget_adel.
    assert (Nj' : j' <> j).
    { apply aget_aset_cases in Gk as [[-> ->]|[Nk Gk]].
      - simpl in Ij. apply In_srem in Ij. tauto.
      - intro; subst j'. apply Nk. exact (Hdisj j _ _ _ _ Gk G Ij I0). }
    apply N.eqb_neq in Nj'. rewrite Nj'.
    apply aget_aset_cases in Gk as [[-> ->]|[Nk Gk]]; [|exact (Hnl k v j' Gk Ij)].
    simpl in Ij. apply In_srem in Ij as [Ij _]. exact (Hnl sid sv j' G Ij).
Qed.

Lemma update_Inv j sid stt s : Inv s -> Inv (fst (update true j sid stt s)).
Proof.
  intros I. pose proof (inv_pj _ I) as Hpj. pose proof (inv_ps _ I) as Hps.
  unfold update, lock_both. rewrite Hpj, Hps.
  destruct (aget j (jobs s)) as [[owner cur]|] eqn:G; [|exact I].
  destruct (owner =? sid) eqn:O; simpl; [|exact I]. apply N.eqb_eq in O; subst owner.
  destruct (trans_ok cur stt); simpl; [|exact I].
  destruct (inv_attr _ I _ _ _ G) as [sv [Gs Is]].
  destruct stt; simpl.
  - eapply set_state_Inv; eauto.
  - eapply set_state_Inv; eauto.
  - rewrite Gs. simpl.
    apply (claim_Inv j sid sv (set_jobs s (aset j (sid, Started) (jobs s)))); [|exact Gs].
    eapply set_state_Inv; eauto.
  - rewrite Gs. rewrite (proj2 (smem_In _ _) Is). simpl. eapply complete_Inv; eauto.
Qed.

Lemma status_same s : Inv s -> fst (status s) = s.
Proof.
  intro I. unfold status, lock_both. rewrite (inv_pj _ I), (inv_ps _ I). reflexivity.
Qed.

Theorem step_Inv s m : Inv s -> Inv (fst (step true s m)).
Proof.
  intro I. destruct m; simpl.
  - apply heartbeat_Inv; auto.
  - apply alloc_begin_Inv; auto.
  - apply alloc_end_ok_Inv; auto.
  - apply alloc_end_fail_Inv; auto.
  - apply update_Inv; auto.
  - rewrite status_same; auto.
Qed.

Theorem run_Inv ms : forall s, Inv s -> Inv (run true s ms).
Proof.
  unfold run. induction ms as [|m r IH]; simpl; intros s I; [exact I|].
  apply IH. apply step_Inv. exact I.
Qed.

Corollary reachable_Inv ms : Inv (run true init ms).
Proof. apply run_Inv, Inv_init. Qed.

(* ================= constants read from the Rust source ================= *)

Lemma consts_ok :
  transitions = [(Pending, Ready); (Ready, Started); (Started, Complete)] /\
  max_per_core_load = 2 /\ slack_add = 1 /\ slack_div = 8.
Proof. repeat split; vm_compute; reflexivity. Qed.

Lemma trans_ok_next a b : trans_ok a b = true <-> next_state a = Some b.
Proof. destruct a, b; vm_compute; split; intro H; congruence. Qed.

Lemma slack_capacity c : slack c = capacity c.
Proof. reflexivity. Qed.

Lemma capacity_le_max c : 1 <= c -> capacity c <= max_per_core_load * c.
Proof.
  intro H. unfold capacity. change max_per_core_load with 2.
  assert (c / 8 < c) by (apply N.div_lt; lia). lia.
Qed.

(* ================= no handler panics ================= *)

Lemma no_panic s m : Inv s -> snd (step true s m) <> OPanic.
Proof.
  intros I. inv_facts I. destruct m as [sid n c tf|ord|j stt|j|j sid stt|]; simpl.
  - unfold heartbeat, lock_both. rewrite Hpj, Hps.
    destruct (c =? 0); [discriminate|].
    destruct (aget sid (servers s)) as [sv|]; [destruct (sv_nonce sv =? n)|]; discriminate.
  - unfold alloc_begin. rewrite Hps.
    destruct (choose _) as [[sid sv]|] eqn:CH; [|discriminate].
    simpl. destruct (sv_tokfail sv); [discriminate|].
    apply choose_good in CH as [Hin _]. apply iter_order_In in Hin; auto.
    assert (Hnj : ~ In (job_count s) (sv_assigned sv)).
    { intro X. specialize (Hfs sid sv _ Hin (or_introl X)). lia. }
    assert (Hnu : ~ In (job_count s) (sv_unclaimed sv)).
    { intro X. specialize (Hfs sid sv _ Hin (or_intror X)). lia. }
    rewrite (proj2 (smem_false _ _) Hnj). simpl. rewrite (proj2 (smem_false _ _) Hnu). discriminate.
  - unfold alloc_end_ok. destruct (aget j (inflight s)) as [sid|] eqn:F; [|discriminate].
    destruct (Hfl _ _ F) as [_ Nj]. rewrite Hpj, Hps.
    destruct (aget sid (servers s)) as [sv|]; [destruct (smem j (sv_assigned sv))|]; try discriminate.
    unfold record_job. simpl. rewrite (proj2 (amem_false _ _) Nj). discriminate.
  - unfold alloc_end_fail. destruct (aget j (inflight s)) as [sid|]; [|discriminate].
    rewrite Hps. destruct (aget sid (servers s)) as [sv|]; discriminate.
  - unfold update, lock_both. rewrite Hpj, Hps.
    destruct (aget j (jobs s)) as [[owner cur]|]; [|discriminate].
    destruct (negb (owner =? sid)); [discriminate|].
    destruct (negb (trans_ok cur stt)); [discriminate|].
    destruct stt; try discriminate;
      destruct (aget sid (servers s)) as [sv|]; try discriminate.
    destruct (smem j (sv_assigned sv)); discriminate.
  - unfold status, lock_both. rewrite Hpj, Hps. discriminate.
Qed.

(* ================= how each message changes the recorded jobs ================= *)

Lemma alloc_begin_jobs fx ord s : jobs (fst (alloc_begin fx ord s)) = jobs s.
Proof.
  unfold alloc_begin. destruct (pois_servers s); [reflexivity|].
  destruct (choose _) as [[sid sv]|]; [|reflexivity].
  destruct (fx && sv_tokfail sv); [reflexivity|].
  destruct (smem (job_count s) (sv_assigned sv)); [reflexivity|].
  simpl. destruct (smem (job_count s) (sv_unclaimed sv)); [reflexivity|].
  destruct (sv_tokfail sv); reflexivity.
Qed.

Lemma alloc_end_fail_jobs j s : jobs (fst (alloc_end_fail j s)) = jobs s.
Proof.
  unfold alloc_end_fail. destruct (aget j (inflight s)) as [sid|]; [|reflexivity].
  destruct (pois_servers s); [reflexivity|].
  destruct (aget sid (servers s)); reflexivity.
Qed.

Lemma status_jobs s : jobs (fst (status s)) = jobs s.
Proof. unfold status, lock_both. destruct (pois_jobs s), (pois_servers s); reflexivity. Qed.

Lemma alloc_end_ok_jobs j stt s :
  Inv s ->
  jobs (fst (alloc_end_ok true j stt s)) = jobs s \/
  exists sid, aget j (inflight s) = Some sid /\ aget j (jobs s) = None /\
              snd (alloc_end_ok true j stt s) = OAllocOk j sid /\
              jobs (fst (alloc_end_ok true j stt s)) = aset j (sid, stt) (jobs s).
Proof.
  intros I. inv_facts I. unfold alloc_end_ok.
  destruct (aget j (inflight s)) as [sid|] eqn:F; [|left; reflexivity].
  destruct (Hfl _ _ F) as [_ Nj]. rewrite Hpj, Hps.
  destruct (aget sid (servers s)) as [sv|]; [destruct (smem j (sv_assigned sv))|];
    try (left; reflexivity).
  right. exists sid. unfold record_job. simpl. rewrite (proj2 (amem_false _ _) Nj). simpl. auto.
Qed.

Lemma heartbeat_jobs sid n c tf s :
  Inv s ->
  jobs (fst (heartbeat sid n c tf s)) = jobs s \/
  exists sv, aget sid (servers s) = Some sv /\ snd (heartbeat sid n c tf s) = OHb true /\
             jobs (fst (heartbeat sid n c tf s)) = filter (fun kv => negb (smem (fst kv) (sv_assigned sv))) (jobs s).
Proof.
  intros I. unfold heartbeat, lock_both. rewrite (inv_pj _ I), (inv_ps _ I).
  destruct (c =? 0); [left; reflexivity|].
  destruct (aget sid (servers s)) as [sv|]; [|left; reflexivity].
  destruct (sv_nonce sv =? n); [left; reflexivity|]. right. exists sv. simpl. auto.
Qed.

Lemma update_jobs j sid stt s :
  Inv s ->
  (snd (update true j sid stt s) <> OUpd UOk /\ fst (update true j sid stt s) = s) \/
  exists cur, aget j (jobs s) = Some (sid, cur) /\ next_state cur = Some stt /\
              snd (update true j sid stt s) = OUpd UOk /\
              jobs (fst (update true j sid stt s)) =
                match stt with Complete => adel j (jobs s) | _ => aset j (sid, stt) (jobs s) end.
Proof.
  intros I. unfold update, lock_both. rewrite (inv_pj _ I), (inv_ps _ I).
  destruct (aget j (jobs s)) as [[owner cur]|] eqn:G; [|left; split; [discriminate | reflexivity]].
  destruct (owner =? sid) eqn:O; simpl; [|left; split; [discriminate | reflexivity]].
  apply N.eqb_eq in O; subst owner.
  destruct (trans_ok cur stt) eqn:T; simpl; [|left; split; [discriminate | reflexivity]].
  apply trans_ok_next in T.
  destruct (inv_attr _ I _ _ _ G) as [sv [Gs Is]].
  right. exists cur. split; [reflexivity|]. split; [exact T|].
  destruct stt; simpl; auto.
  - rewrite Gs. simpl. auto.
  - rewrite Gs. rewrite (proj2 (smem_In _ _) Is). simpl. auto.
Qed.

(* ================= the properties ================= *)

Lemma attribution_Inv s j sid stt :
  Inv s -> aget j (jobs s) = Some (sid, stt) ->
  (exists sv, aget sid (servers s) = Some sv /\ In j (sv_assigned sv)) /\
  (forall sid' sv', aget sid' (servers s) = Some sv' -> In j (sv_assigned sv') -> sid' = sid).
Proof.
  intros I G. destruct (inv_attr _ I _ _ _ G) as [sv [Gs Is]]. split; [eauto|].
  intros sid' sv' G' I'. exact (inv_disj _ I j _ _ _ _ G' Gs I' Is).
Qed.

Lemma ksorted_filter {V} (p : N * V -> bool) (l : list (N * V)) : ksorted l -> ksorted (filter p l).
Proof.
  unfold ksorted, keys, ssorted. induction l as [|[k v] r IH]; simpl; intro Hs; [constructor|].
  inversion Hs as [|? ? Hs' Hf]; subst.
  destruct (p (k, v)); simpl; auto. constructor; auto.
  rewrite Forall_forall in *. intros x Hx. apply Hf.
  apply in_map_iff in Hx as [[k' v'] [E Hx]]. apply filter_In in Hx as [Hx _].
  apply in_map_iff. exists (k', v'). auto.
Qed.

Lemma live_le_assigned s sid sv :
  Inv s -> aget sid (servers s) = Some sv -> len (live_on sid s) <= len (sv_assigned sv).
Proof.
  intros I G. apply len_le.
  rewrite <- (map_length fst (live_on sid s)).
  apply NoDup_incl_length.
  - apply ssorted_NoDup. apply (ksorted_filter _ (jobs s)). apply (inv_jobs_sorted _ I).
  - intros j Hj. apply in_map_iff in Hj as [[j' [k stt]] [E Hj]]. simpl in E; subst j'.
    apply filter_In in Hj as [Hj Hk]. simpl in Hk. apply N.eqb_eq in Hk; subst k.
    apply In_aget in Hj; [|apply (inv_jobs_sorted _ I)].
    destruct (inv_attr _ I _ _ _ Hj) as [v [Gv Iv]]. congruence.
Qed.

Lemma capacity_Inv s sid sv :
  Inv s -> aget sid (servers s) = Some sv ->
  1 <= sv_cpus sv /\ NoDup (sv_assigned sv) /\
  len (sv_assigned sv) <= capacity (sv_cpus sv) /\
  len (live_on sid s) <= capacity (sv_cpus sv) /\
  capacity (sv_cpus sv) <= 2 * sv_cpus sv.
Proof.
  intros I G. destruct (inv_cap _ I _ _ G) as [C1 C2]. rewrite slack_capacity in C2.
  split; [exact C1|]. split; [apply ssorted_NoDup, (inv_sets _ I _ _ G)|].
  split; [exact C2|]. split.
  - eapply N.le_trans; [apply live_le_assigned; eauto | exact C2].
  - apply (capacity_le_max _ C1).
Qed.

Lemma transitions_Inv s m j :
  Inv s ->
  match aget j (jobs s), aget j (jobs (fst (step true s m))) with
  | Some (sid, a), Some (sid', b) =>
      sid' = sid /\ (b = a \/ (m = MUpdate j sid b /\ next_state a = Some b))
  | Some (sid, a), None =>
      (m = MUpdate j sid Complete /\ a = Started) \/
      (exists n c tf, m = MHeartbeat sid n c tf /\ snd (step true s m) = OHb true)
  | None, Some (sid, b) => m = MAllocEndOk j b /\ aget j (inflight s) = Some sid
  | None, None => True
  end.
Proof.
  intros I.
  assert (Same : forall js, js = jobs s ->
            match aget j (jobs s), aget j js with
            | Some (sid, a), Some (sid', b) =>
                sid' = sid /\ (b = a \/ (m = MUpdate j sid b /\ next_state a = Some b))
            | Some (sid, a), None =>
                (m = MUpdate j sid Complete /\ a = Started) \/
                (exists n c tf, m = MHeartbeat sid n c tf /\ snd (step true s m) = OHb true)
            | None, Some (sid, b) => m = MAllocEndOk j b /\ aget j (inflight s) = Some sid
            | None, None => True
            end).
  { intros js ->. destruct (aget j (jobs s)) as [[sid a]|]; auto. }
  destruct m as [sid n c tf|ord|j0 stt|j0|j0 sid stt|]; simpl.
  - destruct (heartbeat_jobs sid n c tf s I) as [E|[sv [G [O E]]]]; [apply Same; exact E|].
    rewrite E, aget_drop.
    destruct (aget j (jobs s)) as [[sid0 a]|] eqn:Gj.
    + destruct (smem j (sv_assigned sv)) eqn:M; [|auto].
      right. exists n, c, tf. split; [|exact O]. f_equal.
      destruct (inv_attr _ I _ _ _ Gj) as [v0 [G0 I0]].
      apply smem_In in M. exact (inv_disj _ I j _ _ _ _ G G0 M I0).
    + destruct (smem j (sv_assigned sv)); exact Logic.I.
  - apply Same. apply alloc_begin_jobs.
  - destruct (alloc_end_ok_jobs j0 stt s I) as [E|[sid [F [Nj [O E]]]]]; [apply Same; exact E|].
    rewrite E, aget_aset. destruct (j =? j0) eqn:Ej.
    + apply N.eqb_eq in Ej; subst j0. rewrite Nj. auto.
    + destruct (aget j (jobs s)) as [[sid0 a]|]; auto.
  - apply Same. apply alloc_end_fail_jobs.
  - destruct (update_jobs j0 sid stt s I) as [[_ E]|[cur [G [T [O E]]]]]; [apply Same; rewrite E; reflexivity|].
    rewrite E. destruct (j =? j0) eqn:Ej.
    + apply N.eqb_eq in Ej; subst j0. rewrite G.
      destruct stt; rewrite ?aget_aset, ?aget_adel, N.eqb_refl; auto.
      left. split; [reflexivity|]. destruct cur; simpl in T; congruence.
    + assert (Eq : aget j (match stt with Complete => adel j0 (jobs s) | _ => aset j0 (sid, stt) (jobs s) end)
                   = aget j (jobs s)).
      { destruct stt; rewrite ?aget_aset, ?aget_adel, Ej; reflexivity. }
      rewrite Eq. destruct (aget j (jobs s)) as [[sid0 a]|]; auto.
  - apply Same. apply status_jobs.
Qed.

Lemma update_result_Inv s j sid b :
  Inv s ->
  (snd (step true s (MUpdate j sid b)) = OUpd UOk <->
     exists a, aget j (jobs s) = Some (sid, a) /\ next_state a = Some b) /\
  (snd (step true s (MUpdate j sid b)) <> OUpd UOk -> fst (step true s (MUpdate j sid b)) = s).
Proof.
  intros I. simpl. destruct (update_jobs j sid b s I) as [[Nok E]|[cur [G [T [O E]]]]].
  - split; [|auto]. split; [congruence|]. intros [a [G T]]. exfalso. apply Nok.
    unfold update, lock_both. rewrite (inv_pj _ I), (inv_ps _ I), G, N.eqb_refl. simpl.
    rewrite (proj2 (trans_ok_next a b) T). simpl.
    destruct (inv_attr _ I _ _ _ G) as [sv [Gs Is]].
    destruct b; simpl; auto; rewrite Gs; auto.
    rewrite (proj2 (smem_In _ _) Is). reflexivity.
  - split; [|congruence]. split; eauto.
Qed.

Lemma status_Inv_out s :
  Inv s ->
  step true s MStatus = (s, OStatus (len (servers s)) (sum_cpus (servers s)) (len (jobs s))) /\
  NoDup (keys (jobs s)).
Proof.
  intro I. simpl. unfold status, lock_both. rewrite (inv_pj _ I), (inv_ps _ I).
  split; [reflexivity|]. apply ssorted_NoDup, (inv_jobs_sorted _ I).
Qed.

(* ================= the defect S8 of the code before the fix, replayed in the model (fx = false) ================= *)

Lemma noleak_Inv s sid sv j :
  Inv s -> aget sid (servers s) = Some sv -> In j (sv_assigned sv) ->
  (exists stt, aget j (jobs s) = Some (sid, stt)) \/ aget j (inflight s) = Some sid.
Proof. intros I G Ij. exact (inv_noleak _ I sid sv j G Ij). Qed.

Definition s8_history : list msg :=
  [MHeartbeat 0 1 1 false; MAllocBegin []; MHeartbeat 0 2 1 false; MAllocEndOk 0 Ready; MUpdate 0 0 Started].

Definition s8_overload : list msg :=
  MHeartbeat 0 1 1 false ::
  concat (map (fun k => [MAllocBegin []; MHeartbeat 0 (k + 2) 1 false; MAllocEndOk k Ready]) [0; 1; 2; 3; 4]).

Lemma unfixed_refuted :
  (let s := run false init s8_history in
     (exists sv, aget 0 (jobs s) = Some (0, Started) /\ aget 0 (servers s) = Some sv /\ sv_assigned sv = []) /\
     snd (step false s (MUpdate 0 0 Complete)) = OPanic /\
     (let s' := fst (step false s (MUpdate 0 0 Complete)) in
        snd (step false s' MStatus) = OPanic /\ snd (step false s' (MHeartbeat 0 2 1 false)) = OPanic /\
        snd (step false s' (MAllocBegin [])) = OPanic)) /\
  (let s := run false init s8_overload in
     exists sv, aget 0 (servers s) = Some sv /\ sv_cpus sv = 1 /\ len (live_on 0 s) = 5).
Proof.
  split.
  - split; [eexists; vm_compute; repeat split; reflexivity|]. vm_compute. repeat split; reflexivity.
  - eexists. vm_compute. repeat split; reflexivity.
Qed.

(* the same histories on the fixed code: the allocation is refused, nothing is recorded *)
Lemma fixed_s8 :
  snd (step true (run true init [MHeartbeat 0 1 1 false; MAllocBegin []; MHeartbeat 0 2 1 false]) (MAllocEndOk 0 Ready))
    = OAllocGone 0 0 /\
  jobs (run true init s8_history) = [] /\ jobs (run true init s8_overload) = [].
Proof. vm_compute. repeat split; reflexivity. Qed.

(* non-vacuity: a reachable state with a recorded job, a call in its window and a full server *)
Lemma nonvacuous :
  let s := run true init [MHeartbeat 0 1 1 false; MAllocBegin []; MAllocEndOk 0 Ready; MAllocBegin []] in
  jobs s = [(0, (0, Ready))] /\ inflight s = [(1, 0)] /\
  (exists sv, aget 0 (servers s) = Some sv /\ len (sv_assigned sv) = capacity (sv_cpus sv)) /\
  snd (step true s (MAllocBegin [])) = OAllocNoCap 1.
Proof.
  vm_compute. split; [reflexivity|]. split; [reflexivity|].
  split; [eexists; split; reflexivity | reflexivity].
Qed.

(* defect S21 of the code before the second fix: a failing generate_token left the reservation behind *)
Definition s21_history : list msg := [MHeartbeat 0 1 1 true; MAllocBegin []; MAllocBegin []].

Lemma unfixed_leak_refuted :
  let s := run false init s21_history in
  (exists sv, aget 0 (servers s) = Some sv /\ sv_assigned sv = [0; 1]) /\ jobs s = [] /\ inflight s = [] /\
  snd (step false s (MAllocBegin [])) = OAllocNoCap 1.
Proof. vm_compute. split; [eexists; split; reflexivity|]. repeat split; reflexivity. Qed.

Lemma fixed_s21 :
  let s := run true init s21_history in
  (exists sv, aget 0 (servers s) = Some sv /\ sv_assigned sv = []) /\
  snd (step true s (MAllocBegin [])) = OAllocTokErr.
Proof. vm_compute. split; [eexists; split; reflexivity | reflexivity]. Qed.
