(* Proofs/Scheduler.v — invariants of Model/Scheduler.v (the scheduler after the fix: commit, fx = true)
   for ALL message sequences, and the lemmas the pinned theorems of Properties/C18.v are instances of. *)
From Coq Require Import List NArith Bool Lia ZifyN ZifyBool Sorted Permutation.
From Sccache Require Import Base.Sx Gen.C18Consts Model.Scheduler.
Import ListNotations.
Local Open Scope N_scope.

Arguments N.add : simpl never.
Arguments N.sub : simpl never.
Arguments N.mul : simpl never.
Arguments N.div : simpl never.
Arguments N.ltb : simpl never.
Arguments N.leb : simpl never.
Arguments N.eqb : simpl never.

(* ================= sorted lists of N as sets ================= *)

Definition ssorted (l : list N) : Prop := StronglySorted N.lt l.

Lemma smem_In k l : smem k l = true <-> In k l.
Proof.
  induction l as [|x r IH]; simpl; [split; [discriminate | tauto]|].
  rewrite orb_true_iff, IH, N.eqb_eq. split; intros [H|H]; auto.
Qed.

Lemma smem_false k l : smem k l = false <-> ~ In k l.
Proof. rewrite <- smem_In. destruct (smem k l); split; congruence. Qed.

Lemma In_sins x k l : In x (sins k l) <-> x = k \/ In x l.
Proof.
  induction l as [|y r IH]; simpl; [intuition|].
  destruct (k =? y) eqn:E; [apply N.eqb_eq in E; subst; simpl; intuition|].
  destruct (k <? y) eqn:L; simpl; [intuition|]. rewrite IH. intuition.
Qed.

Lemma In_srem x k l : In x (srem k l) <-> In x l /\ x <> k.
Proof.
  unfold srem. rewrite filter_In, negb_true_iff, N.eqb_neq. intuition.
Qed.

Lemma ssorted_filter p l : ssorted l -> ssorted (filter p l).
Proof.
  unfold ssorted. induction 1 as [|a l Hs IH Hf]; simpl; [constructor|].
  destruct (p a); auto. constructor; auto.
  rewrite Forall_forall in *. intros x Hx. apply filter_In in Hx. apply Hf, Hx.
Qed.

Lemma ssorted_srem k l : ssorted l -> ssorted (srem k l).
Proof. apply ssorted_filter. Qed.

Lemma ssorted_sins k l : ssorted l -> ssorted (sins k l).
Proof.
  unfold ssorted. induction 1 as [|a l Hs IH Hf]; simpl; [repeat constructor|].
  destruct (k =? a) eqn:E; [constructor; auto|].
  destruct (k <? a) eqn:L.
  - constructor; [constructor; auto|]. constructor; [lia|].
    rewrite Forall_forall in *. intros x Hx. specialize (Hf x Hx). lia.
  - constructor; auto. rewrite Forall_forall in *. intros x Hx.
    apply In_sins in Hx as [->|Hx]; [lia | auto].
Qed.

Lemma ssorted_NoDup l : ssorted l -> NoDup l.
Proof.
  induction 1 as [|a l Hs IH Hf]; constructor; auto.
  intro Hin. rewrite Forall_forall in Hf. specialize (Hf a Hin). lia.
Qed.

Lemma length_sins k l : ~ In k l -> length (sins k l) = S (length l).
Proof.
  induction l as [|y r IH]; simpl; intro H; [reflexivity|].
  destruct (k =? y) eqn:E; [apply N.eqb_eq in E; subst; tauto|].
  destruct (k <? y); simpl; [reflexivity|]. rewrite IH; tauto.
Qed.

Lemma length_srem_le k l : (length (srem k l) <= length l)%nat.
Proof.
  unfold srem. induction l as [|x r IH]; simpl; [lia|]. destruct (negb (k =? x)); simpl; lia.
Qed.

(* ================= association lists keyed by N ================= *)

Definition keys {V} (l : list (N * V)) : list N := map fst l.
Definition ksorted {V} (l : list (N * V)) : Prop := ssorted (keys l).

Lemma aget_aset_same {V} k (v : V) l : aget k (aset k v l) = Some v.
Proof.
  induction l as [|[k' v'] r IH]; simpl; [rewrite N.eqb_refl; reflexivity|].
  destruct (k =? k') eqn:E; simpl; [rewrite N.eqb_refl; reflexivity|].
  destruct (k <? k'); simpl; [rewrite N.eqb_refl; reflexivity|]. rewrite E. exact IH.
Qed.

Lemma aget_aset_other {V} k k' (v : V) l : k' <> k -> aget k' (aset k v l) = aget k' l.
Proof.
  intro Hne. induction l as [|[k2 v2] r IH]; simpl.
  - destruct (k' =? k) eqn:E; [apply N.eqb_eq in E; congruence | reflexivity].
  - destruct (k =? k2) eqn:E; simpl.
    + apply N.eqb_eq in E; subst k2.
      destruct (k' =? k) eqn:E2; [apply N.eqb_eq in E2; congruence | reflexivity].
    + destruct (k <? k2); simpl.
      * destruct (k' =? k) eqn:E2; [apply N.eqb_eq in E2; congruence | reflexivity].
      * destruct (k' =? k2); [reflexivity | exact IH].
Qed.

Lemma aget_aset {V} k k' (v : V) l :
  aget k' (aset k v l) = if k' =? k then Some v else aget k' l.
Proof.
  destruct (k' =? k) eqn:E.
  - apply N.eqb_eq in E; subst. apply aget_aset_same.
  - apply N.eqb_neq in E. apply aget_aset_other; assumption.
Qed.

Lemma aget_filter_key {V} (p : N -> bool) k (l : list (N * V)) :
  aget k (filter (fun kv => p (fst kv)) l) = if p k then aget k l else None.
Proof.
  induction l as [|[k' v'] r IH]; simpl; [destruct (p k); reflexivity|].
  destruct (p k') eqn:P; simpl.
  - destruct (k =? k') eqn:E; [apply N.eqb_eq in E; subst; rewrite P; reflexivity | exact IH].
  - rewrite IH. destruct (k =? k') eqn:E; [apply N.eqb_eq in E; subst; rewrite P; reflexivity | reflexivity].
Qed.

Lemma aget_adel {V} k k' (l : list (N * V)) :
  aget k' (adel k l) = if k' =? k then None else aget k' l.
Proof.
  unfold adel. rewrite (aget_filter_key (fun x => negb (k =? x))).
  rewrite (N.eqb_sym k k'). destruct (k' =? k); reflexivity.
Qed.

Lemma aget_In {V} k (v : V) l : aget k l = Some v -> In (k, v) l.
Proof.
  induction l as [|[k' v'] r IH]; simpl; [discriminate|].
  destruct (k =? k') eqn:E; [apply N.eqb_eq in E; subst; intro H; inversion H; auto | auto].
Qed.

Lemma aget_In_keys {V} k (v : V) l : aget k l = Some v -> In k (keys l).
Proof. intro H. apply aget_In in H. apply (in_map fst) in H. exact H. Qed.

Lemma aget_None_keys {V} k (l : list (N * V)) : aget k l = None <-> ~ In k (keys l).
Proof.
  induction l as [|[k' v'] r IH]; simpl; [tauto|].
  destruct (k =? k') eqn:E.
  - apply N.eqb_eq in E; subst. split; [discriminate | tauto].
  - apply N.eqb_neq in E. rewrite IH. intuition.
Qed.

Lemma In_aget {V} k (v : V) l : ksorted l -> In (k, v) l -> aget k l = Some v.
Proof.
  unfold ksorted, keys, ssorted. induction l as [|[k' v'] r IH]; simpl; [tauto|].
  intros Hs [H|H].
  - inversion H; subst. rewrite N.eqb_refl. reflexivity.
  - inversion Hs as [|? ? Hs' Hf]; subst.
    destruct (k =? k') eqn:E; [|auto].
    apply N.eqb_eq in E; subst. rewrite Forall_forall in Hf.
    specialize (Hf k' (in_map fst _ _ H)). simpl in Hf. lia.
Qed.

Lemma In_keys_aset {V} x k (v : V) l : In x (keys (aset k v l)) <-> x = k \/ In x (keys l).
Proof.
  unfold keys. induction l as [|[k' v'] r IH]; simpl; [intuition|].
  destruct (k =? k') eqn:E; [apply N.eqb_eq in E; subst; simpl; intuition|].
  destruct (k <? k'); simpl; [intuition|]. rewrite IH. intuition.
Qed.

Lemma ksorted_aset {V} k (v : V) l : ksorted l -> ksorted (aset k v l).
Proof.
  unfold ksorted, ssorted. induction l as [|[k' v'] r IH]; simpl; intro Hs; [repeat constructor|].
  inversion Hs as [|? ? Hs' Hf]; subst.
  destruct (k =? k') eqn:E.
  - apply N.eqb_eq in E; subst. simpl. constructor; assumption.
  - destruct (k <? k') eqn:L; simpl.
    + constructor; [exact Hs|]. constructor; [lia|].
      rewrite Forall_forall in *. intros x Hx. specialize (Hf x Hx). lia.
    + constructor; [auto|]. rewrite Forall_forall in *. intros x Hx.
      apply (In_keys_aset x k v r) in Hx as [->|Hx]; [lia | auto].
Qed.

Lemma keys_filter {V} (p : N -> bool) (l : list (N * V)) :
  keys (filter (fun kv => p (fst kv)) l) = filter p (keys l).
Proof.
  unfold keys. induction l as [|[k v] r IH]; simpl; [reflexivity|].
  destruct (p k); simpl; rewrite IH; reflexivity.
Qed.

Lemma ksorted_filter_key {V} (p : N -> bool) (l : list (N * V)) :
  ksorted l -> ksorted (filter (fun kv => p (fst kv)) l).
Proof. unfold ksorted. rewrite keys_filter. apply ssorted_filter. Qed.

Lemma ksorted_adel {V} k (l : list (N * V)) : ksorted l -> ksorted (adel k l).
Proof. apply (ksorted_filter_key (fun x => negb (k =? x))). Qed.

Lemma amem_false {V} k (l : list (N * V)) : amem k l = false <-> aget k l = None.
Proof. unfold amem. destruct (aget k l); split; congruence. Qed.

Lemma len_le {A B} (a : list A) (b : list B) : (length a <= length b)%nat -> len a <= len b.
Proof. unfold len. lia. Qed.

Lemma aget_drop {V} (a : list N) k (js : list (N * V)) :
  aget k (filter (fun kv => negb (smem (fst kv) a)) js) = if smem k a then None else aget k js.
Proof.
  rewrite (aget_filter_key (fun x => negb (smem x a))). destruct (smem k a); reflexivity.
Qed.

Lemma ksorted_drop {V} (a : list N) (js : list (N * V)) :
  ksorted js -> ksorted (filter (fun kv => negb (smem (fst kv) a)) js).
Proof. apply (ksorted_filter_key (fun x => negb (smem x a))). Qed.

(* ================= the invariant ================= *)

Definition sets_sorted (sv : list (N * server)) : Prop :=
  forall sid v, aget sid sv = Some v -> ssorted (sv_assigned v) /\ ssorted (sv_unclaimed v).

(* every recorded job belongs to a registered server whose jobs_assigned holds it *)
Definition attr (js : list (N * (N * jstate))) (sv : list (N * server)) : Prop :=
  forall j sid stt, aget j js = Some (sid, stt) ->
    exists v, aget sid sv = Some v /\ In j (sv_assigned v).

(* no job id is in the jobs_assigned of two servers *)
Definition disj (sv : list (N * server)) : Prop :=
  forall j s1 v1 s2 v2, aget s1 sv = Some v1 -> aget s2 sv = Some v2 ->
    In j (sv_assigned v1) -> In j (sv_assigned v2) -> s1 = s2.

Definition fresh_srv (c : N) (sv : list (N * server)) : Prop :=
  forall sid v j, aget sid sv = Some v -> In j (sv_assigned v) \/ In j (sv_unclaimed v) -> j < c.

Definition fresh_jobs (c : N) (js : list (N * (N * jstate))) : Prop :=
  forall j x, aget j js = Some x -> j < c.

(* a call inside its window holds an id that is not recorded yet *)
Definition fl_ok (c : N) (js : list (N * (N * jstate))) (fl : list (N * N)) : Prop :=
  forall j sid, aget j fl = Some sid -> j < c /\ aget j js = None.

Definition cap_ok (sv : list (N * server)) : Prop :=
  forall sid v, aget sid sv = Some v -> 1 <= sv_cpus v /\ len (sv_assigned v) <= slack (sv_cpus v).

Record Inv (s : st) : Prop := mkInv {
  inv_pj : pois_jobs s = false;
  inv_ps : pois_servers s = false;
  inv_jobs_sorted : ksorted (jobs s);
  inv_srv_sorted : ksorted (servers s);
  inv_sets : sets_sorted (servers s);
  inv_attr : attr (jobs s) (servers s);
  inv_disj : disj (servers s);
  inv_fresh_srv : fresh_srv (job_count s) (servers s);
  inv_fresh_jobs : fresh_jobs (job_count s) (jobs s);
  inv_fl : fl_ok (job_count s) (jobs s) (inflight s);
  inv_cap : cap_ok (servers s)
}.

Lemma Inv_init : Inv init.
Proof.
  apply mkInv; simpl; try reflexivity; try (constructor; fail);
    repeat intro; simpl in *; discriminate.
Qed.

(* ---- replacing / adding one server ---- *)

Lemma aget_aset_cases {V} k k' (v v' : V) l :
  aget k' (aset k v l) = Some v' -> (k' = k /\ v' = v) \/ (k' <> k /\ aget k' l = Some v').
Proof.
  rewrite aget_aset. destruct (k' =? k) eqn:E.
  - apply N.eqb_eq in E. intro H; inversion H; auto.
  - apply N.eqb_neq in E. auto.
Qed.

Lemma sets_sorted_aset sid v' sv :
  sets_sorted sv -> ssorted (sv_assigned v') -> ssorted (sv_unclaimed v') -> sets_sorted (aset sid v' sv).
Proof.
  intros H Ha Hu k v G. apply aget_aset_cases in G as [[-> ->]|[_ G]]; eauto.
Qed.

Lemma attr_aset js sid v' sv :
  attr js sv -> (forall j stt, aget j js = Some (sid, stt) -> In j (sv_assigned v')) -> attr js (aset sid v' sv).
Proof.
  intros H Hn j k stt G. rewrite aget_aset. destruct (k =? sid) eqn:E.
  - apply N.eqb_eq in E; subst. eauto.
  - apply (H j k stt G).
Qed.

Lemma disj_aset sid v' sv :
  disj sv ->
  (forall j, In j (sv_assigned v') ->
     (exists v, aget sid sv = Some v /\ In j (sv_assigned v)) \/
     (forall s2 v2, aget s2 sv = Some v2 -> ~ In j (sv_assigned v2))) ->
  disj (aset sid v' sv).
Proof.
  intros H Hn j s1 v1 s2 v2 G1 G2 I1 I2.
  apply aget_aset_cases in G1 as [[-> ->]|[N1 G1]];
    apply aget_aset_cases in G2 as [[-> ->]|[N2 G2]]; auto.
  - destruct (Hn j I1) as [[v [Gv Iv]]|Hno].
    + exact (H j _ _ _ _ Gv G2 Iv I2).
    + exfalso. exact (Hno _ _ G2 I2).
  - destruct (Hn j I2) as [[v [Gv Iv]]|Hno].
    + exact (H j _ _ _ _ G1 Gv I1 Iv).
    + exfalso. exact (Hno _ _ G1 I1).
  - exact (H j _ _ _ _ G1 G2 I1 I2).
Qed.

Lemma fresh_srv_aset c sid v' sv :
  fresh_srv c sv -> (forall j, In j (sv_assigned v') \/ In j (sv_unclaimed v') -> j < c) ->
  fresh_srv c (aset sid v' sv).
Proof.
  intros H Hn k v j G. apply aget_aset_cases in G as [[-> ->]|[_ G]]; eauto.
Qed.

Lemma fresh_srv_mono c c' sv : fresh_srv c sv -> c <= c' -> fresh_srv c' sv.
Proof. intros H L k v j G I. specialize (H k v j G I). lia. Qed.

Lemma cap_ok_aset sid v' sv :
  cap_ok sv -> 1 <= sv_cpus v' -> len (sv_assigned v') <= slack (sv_cpus v') -> cap_ok (aset sid v' sv).
Proof.
  intros H H1 H2 k v G. apply aget_aset_cases in G as [[-> ->]|[_ G]]; eauto.
Qed.
