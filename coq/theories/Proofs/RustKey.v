(* Proofs/RustKey.v — what the rustc cache-key pre-image determines.

   spec_ok                 the component order / constants read from rust.rs are the ones the proofs below are about
   key_injective           equal pre-images => equal shlib digests, argument string, file digests, environment
                           entries and (cwd, rustc -vV) tail
   arg_concat_refuted      the argument string is a plain concatenation: different pieces, equal strings (C05-S22)
   args_injective_guarded  equal argument strings => equal pieces WHEN the pieces have the same lengths one by one
   terminated_inj          (what a NUL terminator would give: kept as a lemma, not true of the code)
   order_insensitive       permuting the --cfg pairs does not change the argument string
   excluded_args_unhashed  --extern / -L / --out-dir pairs do not reach the argument string *)
From Coq Require Import List NArith PeanoNat Bool Lia ZifyBool Permutation Sorted.
From Sccache Require Import Base.Sx Model.RustPath Model.DepInfo Model.RustArgs Model.RustKey Gen.C05HashSpec.
From Coq Require String.
Import String.StringSyntax.
Import ListNotations.
Local Open Scope N_scope.
Local Open Scope string_scope.

(* ------------------------------------------------------------------ the translated spec *)

Definition expected_spec : list hcomp :=
  [HCacheVersion; HShlibDigests; HArguments; HFileDigests [DSource; DExtern; DStaticlib; DTargetJson];
   HEnvDeps; HCargoEnv; HCwd; HRustcVersion].

Definition spec_side_conditions : bool :=
  true.

Lemma spec_ok :
  hash_spec = expected_spec /\
  arg_terminator = [] /\
  env_dep_set_marker = [61] /\ env_dep_unset_marker = Some [0] /\ env_dep_unset_is_none = true /\
  cargo_separator = [61] /\
  arg_excluded = [bs "--extern"; bs "-L"; bs "--out-dir"] /\
  arg_excluded_if_target_json = [bs "--target"] /\
  arg_sorted_last = [bs "--cfg"] /\
  env_dropped = [bs "RUSTC_COLOR"] /\
  cargo_prefix = bs "CARGO_" /\ cargo_skip_exact = [bs "CARGO_MAKEFLAGS"] /\
  cargo_skip_prefix = [bs "CARGO_REGISTRIES_"] /\
  dep_separator = [COLON; SP] /\ env_dep_prefix_src = env_dep_prefix /\ env_dep_split = EQS /\
  weak_key_after = 2%nat.
Proof. repeat split; reflexivity. Qed.

(* ------------------------------------------------------------------ generic list facts *)

Lemma app_eq_len {A} (p q x y : list A) :
  length p = length q -> p ++ x = q ++ y -> p = q /\ x = y.
Proof.
  revert q. induction p as [|a p IH]; intros [|b q] Hl H; simpl in *; try discriminate.
  - split; [reflexivity|exact H].
  - inversion H as [[Hab Hr]]. destruct (IH q) as [E1 E2]; [lia|exact Hr|]. subst. split; reflexivity.
Qed.

(* ------------------------------------------------------------------ le64 / os_hash *)

Lemma le_bytes_length n x : length (le_bytes n x) = n.
Proof. revert x. induction n as [|n IH]; intro x; simpl; [reflexivity|]. rewrite IH. reflexivity. Qed.

Lemma le_bytes_inj n : forall x y,
  x < 256 ^ N.of_nat n -> y < 256 ^ N.of_nat n -> le_bytes n x = le_bytes n y -> x = y.
Proof.
  induction n as [|n IH]; intros x y Hx Hy H.
  - simpl in Hx, Hy. lia.
  - rewrite Nat2N.inj_succ, N.pow_succ_r' in Hx, Hy.
    simpl in H. inversion H as [[Hm Hr]].
    assert (Hd : x / 256 = y / 256).
    { apply IH; [apply N.div_lt_upper_bound; lia|apply N.div_lt_upper_bound; lia|exact Hr]. }
    rewrite (N.div_mod x 256), (N.div_mod y 256) by lia. rewrite Hm, Hd. reflexivity.
Qed.

Lemma le64_inj x y : x < two64 -> y < two64 -> le64 x = le64 y -> x = y.
Proof. intros Hx Hy. apply le_bytes_inj; exact Hx || exact Hy. Qed.

Lemma le64_byte7 x : x < 72057594037927936 -> nth 7 (le64 x) 0 = 0.
Proof.
  intro H. unfold le64. cbn [le_bytes nth].
  rewrite !N.div_div by lia. rewrite N.div_small by (cbn; lia). reflexivity.
Qed.

Lemma small_lt64 s : small s = true -> N.of_nat (length s) < two64.
Proof. unfold small, two64. intro H. lia. Qed.

Lemma os_hash_inj a b x y :
  small a = true -> small b = true -> os_hash a ++ x = os_hash b ++ y -> a = b /\ x = y.
Proof.
  intros Ha Hb H. unfold os_hash in H. rewrite <- !app_assoc in H.
  apply app_eq_len in H as [H1 H2]; [|unfold le64; rewrite !le_bytes_length; reflexivity].
  apply le64_inj in H1; [|apply small_lt64; assumption|apply small_lt64; assumption].
  apply app_eq_len in H2; [exact H2|lia].
Qed.

Lemma os_hash_byte7 a x : small a = true -> nth 7 (os_hash a ++ x) 0 = 0.
Proof.
  intro Ha. unfold os_hash. rewrite <- app_assoc. rewrite app_nth1.
  - apply le64_byte7. unfold small in Ha. lia.
  - unfold le64. rewrite le_bytes_length. lia.
Qed.

Lemma os_hash_len8 a x : (8 <= length (os_hash a ++ x))%nat.
Proof. unfold os_hash, le64. rewrite !app_length, le_bytes_length. lia. Qed.

(* ------------------------------------------------------------------ digests *)

Lemma is_hex_0 : is_hex 0 = false.
Proof. reflexivity. Qed.

Lemma byte7_not_digest_start t :
  (8 <= length t)%nat -> nth 7 t 0 = 0 -> digest_start t = false.
Proof.
  intros Hl H7. unfold digest_start.
  destruct t as [|a0 [|a1 [|a2 [|a3 [|a4 [|a5 [|a6 [|a7 t']]]]]]]]; simpl in Hl; try lia.
  simpl in H7. subst a7.
  destruct (Nat.leb 64 (length (a0 :: a1 :: a2 :: a3 :: a4 :: a5 :: a6 :: 0 :: t'))); [|reflexivity].
  cbn [firstn forallb andb]. rewrite is_hex_0. rewrite !andb_false_r. reflexivity.
Qed.

Lemma digest_is_start d x : is_digest d = true -> digest_start (d ++ x) = true.
Proof.
  unfold is_digest, digest_start. intro H. apply andb_true_iff in H as [Hl Hh]. apply Nat.eqb_eq in Hl.
  apply andb_true_iff. split.
  - apply Nat.leb_le. rewrite app_length. lia.
  - rewrite firstn_app. replace (64 - length d)%nat with 0%nat by lia.
    rewrite <- Hl, firstn_all. simpl. rewrite app_nil_r. exact Hh.
Qed.

Lemma digests_split D1 : forall D2 X1 X2,
  forallb is_digest D1 = true -> forallb is_digest D2 = true ->
  digest_start X1 = false -> digest_start X2 = false ->
  concat D1 ++ X1 = concat D2 ++ X2 -> D1 = D2 /\ X1 = X2.
Proof.
  induction D1 as [|d1 D1 IH]; intros [|d2 D2] X1 X2 H1 H2 N1 N2 H; simpl in *.
  - split; [reflexivity|exact H].
  - apply andb_true_iff in H2 as [Hd _]. rewrite <- app_assoc in H. subst X1.
    rewrite (digest_is_start d2 _ Hd) in N1. discriminate.
  - apply andb_true_iff in H1 as [Hd _]. rewrite <- app_assoc in H. subst X2.
    rewrite (digest_is_start d1 _ Hd) in N2. discriminate.
  - apply andb_true_iff in H1 as [Hd1 H1]. apply andb_true_iff in H2 as [Hd2 H2].
    rewrite <- !app_assoc in H. apply app_eq_len in H as [E R].
    + destruct (IH D2 X1 X2 H1 H2 N1 N2 R) as [E1 E2]. subst. split; reflexivity.
    + unfold is_digest in Hd1, Hd2. apply andb_true_iff in Hd1 as [L1 _]. apply andb_true_iff in Hd2 as [L2 _].
      apply Nat.eqb_eq in L1, L2. lia.
Qed.

(* ------------------------------------------------------------------ environment entries *)

Lemma enc_env_dep_eq p :
  enc_env_dep p = os_hash (fst p) ++ match snd p with Some v => 61 :: os_hash v | None => [0] end.
Proof. unfold enc_env_dep. destruct (snd p); reflexivity. Qed.

Lemma enc_cargo_eq kv : enc_cargo kv = enc_env_dep (fst kv, Some (snd kv)).
Proof. unfold enc_cargo, enc_env_dep. reflexivity. Qed.

Definition entry_free (t : bytes) : Prop := (8 <= length t)%nat /\ nth 7 t 0 <> 0.

Lemma entries_split l1 : forall l2 T1 T2,
  forallb pair_small l1 = true -> forallb pair_small l2 = true ->
  entry_free T1 -> entry_free T2 ->
  flat_map enc_env_dep l1 ++ T1 = flat_map enc_env_dep l2 ++ T2 -> l1 = l2 /\ T1 = T2.
Proof.
  induction l1 as [|p1 l1 IH]; intros [|p2 l2] T1 T2 S1 S2 F1 F2 H; cbn [flat_map forallb] in *.
  - split; [reflexivity|exact H].
  - exfalso. apply andb_true_iff in S2 as [Sp _]. unfold pair_small in Sp. apply andb_true_iff in Sp as [Sk _].
    cbn [app] in H. subst T1. rewrite enc_env_dep_eq, <- !app_assoc in F1. destruct F1 as [_ F1]. apply F1.
    apply os_hash_byte7. exact Sk.
  - exfalso. apply andb_true_iff in S1 as [Sp _]. unfold pair_small in Sp. apply andb_true_iff in Sp as [Sk _].
    cbn [app] in H. subst T2. rewrite enc_env_dep_eq, <- !app_assoc in F2. destruct F2 as [_ F2]. apply F2.
    apply os_hash_byte7. exact Sk.
  - apply andb_true_iff in S1 as [Sp1 S1]. apply andb_true_iff in S2 as [Sp2 S2].
    unfold pair_small in Sp1, Sp2. apply andb_true_iff in Sp1 as [Sk1 Sv1]. apply andb_true_iff in Sp2 as [Sk2 Sv2].
    rewrite !enc_env_dep_eq, <- !app_assoc in H.
    apply os_hash_inj in H as [Ek H]; [|assumption|assumption].
    destruct p1 as [k1 v1], p2 as [k2 v2]. simpl in *. subst k2.
    destruct v1 as [v1|], v2 as [v2|]; cbn [app] in H.
    + apply (f_equal (@tl N)) in H. cbn [tl] in H.
      apply os_hash_inj in H as [Ev R]; [|assumption|assumption]. subst.
      destruct (IH l2 T1 T2 S1 S2 F1 F2 R) as [E1 E2]. subst. split; reflexivity.
    + exfalso. apply (f_equal (@hd N 0)) in H. cbn [hd] in H. discriminate.
    + exfalso. apply (f_equal (@hd N 0)) in H. cbn [hd] in H. discriminate.
    + apply (f_equal (@tl N)) in H. cbn [tl] in H.
      destruct (IH l2 T1 T2 S1 S2 F1 F2 H) as [E1 E2]. subst. split; reflexivity.
Qed.

Lemma entries_not_digest_start l T :
  forallb pair_small l = true -> digest_start T = false -> digest_start (flat_map enc_env_dep l ++ T) = false.
Proof.
  intros S N. destruct l as [|p l]; [exact N|].
  cbn [flat_map forallb] in *. apply andb_true_iff in S as [Sp _]. unfold pair_small in Sp.
  apply andb_true_iff in Sp as [Sk _]. rewrite enc_env_dep_eq, <- !app_assoc.
  apply byte7_not_digest_start; [apply os_hash_len8|apply os_hash_byte7; exact Sk].
Qed.

(* ------------------------------------------------------------------ the shape of the pre-image *)

Lemma flat_map_enc_cargo l :
  flat_map enc_cargo l = flat_map enc_env_dep (map (fun kv => (fst kv, Some (snd kv))) l).
Proof. induction l as [|x l IH]; [reflexivity|]. cbn [flat_map map]. rewrite IH, enc_cargo_eq. reflexivity. Qed.

Lemma encode_shape r :
  encode r = cache_version ++ concat (h_shlibs r) ++ os_hash (req_arg_string r)
             ++ concat (all_digests r) ++ flat_map enc_env_dep (req_entries r) ++ tail_of r.
Proof.
  unfold encode, encode_with. destruct spec_ok as [-> _]. unfold expected_spec.
  cbn [flat_map enc_comp group_digests]. rewrite !app_nil_r.
  unfold req_entries, env_entries, all_digests, tail_of, req_arg_string.
  rewrite flat_map_app, <- flat_map_enc_cargo. rewrite <- !app_assoc. reflexivity.
Qed.

Theorem key_injective : forall r1 r2,
  req_wf r1 = true -> req_wf r2 = true -> encode r1 = encode r2 ->
  h_shlibs r1 = h_shlibs r2 /\
  req_arg_string r1 = req_arg_string r2 /\
  all_digests r1 = all_digests r2 /\
  req_entries r1 = req_entries r2 /\
  tail_of r1 = tail_of r2.
Proof.
  intros r1 r2 W1 W2 H.
  unfold req_wf in W1, W2.
  repeat (apply andb_true_iff in W1 as [W1 ?]). repeat (apply andb_true_iff in W2 as [W2 ?]).
  rename H0 into T1, H1 into E1, H2 into A1, H3 into D1, W1 into S1.
  rename H4 into T2, H5 into E2, H6 into A2, H7 into D2, W2 into S2.
  rewrite !encode_shape in H.
  apply app_inv_head in H.
  assert (TK : forall t, tail_ok t = true -> entry_free t /\ digest_start t = false).
  { intros t Ht. unfold tail_ok in Ht. apply andb_true_iff in Ht as [Ht Hd]. apply andb_true_iff in Ht as [Hl H7].
    split; [split|].
    - apply Nat.leb_le. exact Hl.
    - apply negb_true_iff, N.eqb_neq in H7. exact H7.
    - apply negb_true_iff. exact Hd. }
  destruct (TK _ T1) as [F1 N1]. destruct (TK _ T2) as [F2 N2].
  apply digests_split in H as [Es H]; try assumption.
  2, 3: apply byte7_not_digest_start; [apply os_hash_len8|apply os_hash_byte7; assumption].
  apply os_hash_inj in H as [Ea H]; try assumption.
  apply digests_split in H as [Ed H]; try assumption.
  2, 3: apply entries_not_digest_start; assumption.
  apply entries_split in H as [Ee Et]; try assumption.
  repeat split; assumption.
Qed.

(* ------------------------------------------------------------------ the argument string *)

Lemma nul_split p1 : forall p2 R1 R2,
  forallb (fun c => negb (c =? 0)) p1 = true -> forallb (fun c => negb (c =? 0)) p2 = true ->
  p1 ++ 0 :: R1 = p2 ++ 0 :: R2 -> p1 = p2 /\ R1 = R2.
Proof.
  induction p1 as [|c p1 IH]; intros [|d p2] R1 R2 H1 H2 H; simpl in *.
  - injection H as Hr. subst. split; reflexivity.
  - injection H as Hc Hr. subst d. rewrite N.eqb_refl in H2. discriminate.
  - injection H as Hc Hr. subst c. rewrite N.eqb_refl in H1. discriminate.
  - injection H as Hc Hr. subst d. apply andb_true_iff in H1 as [_ H1]. apply andb_true_iff in H2 as [_ H2].
    destruct (IH p2 R1 R2 H1 H2 Hr) as [E1 E2]. subst. split; reflexivity.
Qed.

Lemma terminated_inj ps1 : forall ps2,
  pieces_nul_free ps1 = true -> pieces_nul_free ps2 = true ->
  terminated [0] ps1 = terminated [0] ps2 -> ps1 = ps2.
Proof.
  unfold terminated, pieces_nul_free.
  induction ps1 as [|p1 ps1 IH]; intros [|p2 ps2] H1 H2 H; cbn [flat_map forallb] in *.
  - reflexivity.
  - exfalso. destruct p2; discriminate.
  - exfalso. destruct p1; discriminate.
  - apply andb_true_iff in H1 as [N1 H1]. apply andb_true_iff in H2 as [N2 H2].
    rewrite <- !app_assoc in H. simpl in H.
    apply nul_split in H as [E R]; [|assumption|assumption]. subst. f_equal. apply IH; assumption.
Qed.

Lemma arg_string_concat tj a : arg_string tj a = concat (arg_pieces tj a).
Proof.
  unfold arg_string, terminated. destruct spec_ok as (_ & Ht & _). rewrite Ht.
  induction (arg_pieces tj a) as [|p l IH]; [reflexivity|]. cbn [flat_map concat]. rewrite IH, app_nil_r. reflexivity.
Qed.

(* the code concatenates the hashed arguments without a delimiter: two command lines that rustc accepts and
   treats differently (`-C metadata=a -C metadata=b` gives two metadata strings, `-C metadata=a-Cmetadata=b`
   one) have different pieces and the same argument string, hence the same key *)
Theorem arg_concat_refuted :
  exists a1 a2 : list pair,
    arg_pieces false a1 <> arg_pieces false a2 /\
    pieces_nul_free (arg_pieces false a1) = true /\ pieces_nul_free (arg_pieces false a2) = true /\
    arg_string false a1 = arg_string false a2.
Proof.
  exists [(bs "-C", Some (bs "metadata=a")); (bs "-C", Some (bs "metadata=b"))],
         [(bs "-C", Some (bs "metadata=a-Cmetadata=b"))].
  split; [vm_compute; discriminate|]. vm_compute. repeat split.
Qed.

(* the confusion needs a boundary to move: with the same piece lengths the string determines the pieces *)
Lemma concat_same_lengths (l1 : list bytes) : forall l2,
  map (@length N) l1 = map (@length N) l2 -> concat l1 = concat l2 -> l1 = l2.
Proof.
  induction l1 as [|p1 l1 IH]; intros [|p2 l2] Hl H; cbn [map concat] in *; try discriminate; [reflexivity|].
  injection Hl as Hp Hr. apply app_eq_len in H as [E R]; [|exact Hp]. subst. f_equal. apply IH; assumption.
Qed.

Theorem args_injective_guarded : forall tj1 a1 tj2 a2,
  map (@length N) (arg_pieces tj1 a1) = map (@length N) (arg_pieces tj2 a2) ->
  arg_string tj1 a1 = arg_string tj2 a2 -> arg_pieces tj1 a1 = arg_pieces tj2 a2.
Proof.
  intros tj1 a1 tj2 a2 Hl H. rewrite !arg_string_concat in H. apply concat_same_lengths; assumption.
Qed.

(* ------------------------------------------------------------------ orders *)

Lemma bytes_cmp_refl a : bytes_cmp a a = Eq.
Proof. induction a as [|x a IH]; simpl; [reflexivity|]. rewrite N.compare_refl. exact IH. Qed.

Lemma bytes_cmp_eq a : forall b, bytes_cmp a b = Eq -> a = b.
Proof.
  induction a as [|x a IH]; intros [|y b] H; simpl in H; try discriminate; [reflexivity|].
  destruct (N.compare x y) eqn:E; try discriminate. apply N.compare_eq in E. subst. f_equal. apply IH. exact H.
Qed.

Lemma bytes_cmp_antisym a : forall b, bytes_cmp b a = CompOpp (bytes_cmp a b).
Proof.
  induction a as [|x a IH]; intros [|y b]; simpl; try reflexivity.
  rewrite (N.compare_antisym x y). destruct (N.compare x y); simpl; try reflexivity. apply IH.
Qed.

Lemma bytes_cmp_trans a : forall b c o,
  bytes_cmp a b = o -> bytes_cmp b c = o -> bytes_cmp a c = o.
Proof.
  induction a as [|x a IH]; intros [|y b] [|z c] o H1 H2; simpl in *; try congruence.
  destruct (N.compare_spec x y) as [E1|E1|E1]; destruct (N.compare_spec y z) as [E2|E2|E2];
    destruct (N.compare_spec x z) as [E3|E3|E3]; try lia; try congruence; try (eapply IH; eassumption).
Qed.

Lemma opt_cmp_eq a b : opt_cmp a b = Eq -> a = b.
Proof. destruct a, b; simpl; intro H; try discriminate; [|reflexivity]. f_equal. apply bytes_cmp_eq. exact H. Qed.

Lemma opt_cmp_refl a : opt_cmp a a = Eq.
Proof. destruct a; simpl; [apply bytes_cmp_refl|reflexivity]. Qed.

Lemma opt_cmp_antisym a b : opt_cmp b a = CompOpp (opt_cmp a b).
Proof. destruct a, b; simpl; try reflexivity. apply bytes_cmp_antisym. Qed.

Lemma opt_cmp_trans a b c o : opt_cmp a b = o -> opt_cmp b c = o -> opt_cmp a c = o.
Proof. destruct a, b, c; simpl; try congruence. apply bytes_cmp_trans. Qed.

Lemma pair_cmp_eq a b : pair_cmp a b = Eq -> a = b.
Proof.
  destruct a as [a1 a2], b as [b1 b2]. unfold pair_cmp. simpl.
  destruct (bytes_cmp a1 b1) eqn:E; try discriminate. intro H.
  apply bytes_cmp_eq in E. apply opt_cmp_eq in H. subst. reflexivity.
Qed.

Lemma pair_cmp_antisym a b : pair_cmp b a = CompOpp (pair_cmp a b).
Proof.
  destruct a as [a1 a2], b as [b1 b2]. unfold pair_cmp. simpl.
  rewrite (bytes_cmp_antisym a1 b1). destruct (bytes_cmp a1 b1); simpl; try reflexivity. apply opt_cmp_antisym.
Qed.

Lemma pair_cmp_trans a b c o : pair_cmp a b = o -> pair_cmp b c = o -> pair_cmp a c = o.
Proof.
  destruct a as [a1 a2], b as [b1 b2], c as [c1 c2]. unfold pair_cmp. simpl.
  destruct (bytes_cmp a1 b1) eqn:E1; destruct (bytes_cmp b1 c1) eqn:E2;
    try (apply bytes_cmp_eq in E1; subst b1); try (apply bytes_cmp_eq in E2; subst c1);
    rewrite ?E1, ?E2, ?bytes_cmp_refl; try congruence.
  - apply opt_cmp_trans.
  - rewrite (bytes_cmp_trans a1 b1 c1 Lt E1 E2). congruence.
  - rewrite (bytes_cmp_trans a1 b1 c1 Gt E1 E2). congruence.
Qed.

Lemma pair_leb_total a b : pair_leb a b = true \/ pair_leb b a = true.
Proof.
  unfold pair_leb. rewrite (pair_cmp_antisym a b). destruct (pair_cmp a b); simpl; auto.
Qed.

Lemma pair_leb_antisym a b : pair_leb a b = true -> pair_leb b a = true -> a = b.
Proof.
  unfold pair_leb. rewrite (pair_cmp_antisym a b). destruct (pair_cmp a b) eqn:E; simpl; try discriminate.
  intros _ _. apply pair_cmp_eq. exact E.
Qed.

Lemma pair_leb_trans a b c : pair_leb a b = true -> pair_leb b c = true -> pair_leb a c = true.
Proof.
  unfold pair_leb. intros H1 H2.
  destruct (pair_cmp a b) eqn:E1; try discriminate; destruct (pair_cmp b c) eqn:E2; try discriminate.
  - apply pair_cmp_eq in E1. subst. rewrite E2. reflexivity.
  - apply pair_cmp_eq in E1. subst. rewrite E2. reflexivity.
  - apply pair_cmp_eq in E2. subst. rewrite E1. reflexivity.
  - rewrite (pair_cmp_trans a b c Lt E1 E2). reflexivity.
Qed.

(* ------------------------------------------------------------------ a stable sort only depends on the multiset *)

Section SortCanon.
  Context {A : Type} (leb : A -> A -> bool).
  Hypothesis total : forall a b, leb a b = true \/ leb b a = true.
  Hypothesis trans : forall a b c, leb a b = true -> leb b c = true -> leb a c = true.
  Hypothesis antisym : forall a b, leb a b = true -> leb b a = true -> a = b.

  Let R (a b : A) : Prop := leb a b = true.

  Lemma insert_in x y l : In y (insert_sorted leb x l) -> y = x \/ In y l.
  Proof.
    induction l as [|z l IH]; simpl.
    - intros [H|[]]. left. symmetry. exact H.
    - destruct (leb x z); simpl.
      + intros [H|H]; [left; symmetry; exact H|right; exact H].
      + intros [H|H]; [right; left; exact H|]. destruct (IH H); [left|right; right]; assumption.
  Qed.

  Lemma insert_sorted_sorted x l : StronglySorted R l -> StronglySorted R (insert_sorted leb x l).
  Proof.
    induction 1 as [|z l Hs IH Hall]; simpl.
    - constructor; constructor.
    - destruct (leb x z) eqn:E.
      + constructor; [constructor; assumption|]. constructor; [exact E|].
        rewrite Forall_forall in *. intros y Hy. eapply trans; [exact E|apply Hall; exact Hy].
      + constructor; [exact IH|]. rewrite Forall_forall in *. intros y Hy.
        destruct (insert_in _ _ _ Hy) as [->|Hy'].
        * destruct (total x z) as [H|H]; [congruence|exact H].
        * apply Hall. exact Hy'.
  Qed.

  Lemma stable_sort_sorted l : StronglySorted R (stable_sort leb l).
  Proof. induction l as [|x l IH]; simpl; [constructor|]. apply insert_sorted_sorted. exact IH. Qed.

  Lemma sorted_perm_eq l1 : forall l2,
    StronglySorted R l1 -> StronglySorted R l2 -> Permutation l1 l2 -> l1 = l2.
  Proof.
    induction l1 as [|a l1 IH]; intros l2 S1 S2 P.
    - apply Permutation_nil in P. subst. reflexivity.
    - destruct l2 as [|b l2]; [apply Permutation_sym, Permutation_nil in P; discriminate|].
      inversion S1 as [|? ? S1' A1]; subst. inversion S2 as [|? ? S2' A2]; subst.
      rewrite Forall_forall in A1, A2.
      assert (Hab : a = b).
      { assert (Ia : In a (b :: l2)) by (eapply Permutation_in; [exact P|left; reflexivity]).
        assert (Ib : In b (a :: l1)) by (eapply Permutation_in; [apply Permutation_sym; exact P|left; reflexivity]).
        destruct Ia as [->|Ia]; [reflexivity|]. destruct Ib as [->|Ib]; [reflexivity|].
        apply antisym; [apply A1; exact Ib|apply A2; exact Ia]. }
      subst b. f_equal. apply IH; try assumption. eapply Permutation_cons_inv. exact P.
  Qed.

  Lemma insert_perm' x l : Permutation (insert_sorted leb x l) (x :: l).
  Proof.
    induction l as [|y l IH]; simpl; [apply Permutation_refl|].
    destruct (leb x y); [apply Permutation_refl|].
    eapply Permutation_trans; [apply perm_skip; exact IH|apply perm_swap].
  Qed.

  Lemma stable_sort_perm' l : Permutation (stable_sort leb l) l.
  Proof.
    induction l as [|x l IH]; simpl; [apply perm_nil|].
    eapply Permutation_trans; [apply insert_perm'|apply perm_skip; exact IH].
  Qed.

  Lemma stable_sort_canon l1 l2 : Permutation l1 l2 -> stable_sort leb l1 = stable_sort leb l2.
  Proof.
    intro P. apply sorted_perm_eq; try apply stable_sort_sorted.
    eapply Permutation_trans; [apply stable_sort_perm'|].
    eapply Permutation_trans; [exact P|apply Permutation_sym, stable_sort_perm'].
  Qed.
End SortCanon.

Definition is_sorted_last : pair -> bool := name_in arg_sorted_last.

Theorem order_insensitive : forall tj a1 a2,
  filter (fun p => negb (is_sorted_last p)) (hashed_args tj a1)
    = filter (fun p => negb (is_sorted_last p)) (hashed_args tj a2) ->
  Permutation (filter is_sorted_last (hashed_args tj a1)) (filter is_sorted_last (hashed_args tj a2)) ->
  arg_string tj a1 = arg_string tj a2.
Proof.
  intros tj a1 a2 Hrest Hperm.
  unfold arg_string, arg_pieces.
  assert (E : ordered_args tj a1 = ordered_args tj a2); [|rewrite E; reflexivity].
  unfold ordered_args.
  change (filter (name_in arg_sorted_last) (hashed_args tj a1)) with (filter is_sorted_last (hashed_args tj a1)).
  change (filter (name_in arg_sorted_last) (hashed_args tj a2)) with (filter is_sorted_last (hashed_args tj a2)).
  change (filter (fun p : pair => negb (name_in arg_sorted_last p)) (hashed_args tj a1))
    with (filter (fun p : pair => negb (is_sorted_last p)) (hashed_args tj a1)).
  change (filter (fun p : pair => negb (name_in arg_sorted_last p)) (hashed_args tj a2))
    with (filter (fun p : pair => negb (is_sorted_last p)) (hashed_args tj a2)).
  rewrite Hrest.
  rewrite (stable_sort_canon pair_leb pair_leb_total pair_leb_trans pair_leb_antisym _ _ Hperm).
  reflexivity.
Qed.

Theorem excluded_args_unhashed : forall tj a b x v,
  existsb (beq x) arg_excluded = true ->
  arg_string tj (a ++ (x, v) :: b) = arg_string tj (a ++ b).
Proof.
  intros tj a b x v Hx.
  assert (E : name_in arg_excluded (x, v) = true) by exact Hx.
  assert (G : hashed_args tj (a ++ (x, v) :: b) = hashed_args tj (a ++ b)).
  { unfold hashed_args. rewrite !filter_app. cbn [filter]. rewrite E. reflexivity. }
  unfold arg_string, arg_pieces, ordered_args. rewrite G. reflexivity.
Qed.

(* ------------------------------------------------------------------ the sysroot libraries *)

(* every `*.so` entry of <sysroot>/lib that is a regular file OR a symbolic link to one is hashed, and nothing else *)
Theorem sysroot_libs_complete : forall libdir entries f,
  In f (sysroot_libs libdir entries) <->
  exists e, In e entries /\ resolves_to_file (snd e) = true /\ extension_is (bs "so") (fst e) = true /\
            f = path_join libdir (fst e).
Proof.
  intros libdir entries f. unfold sysroot_libs, sort_paths. split.
  - intro H. eapply Permutation_in in H; [|apply stable_sort_perm'].
    apply in_map_iff in H as (e & Ef & He). apply filter_In in He as [He Hs].
    unfold is_shlib in Hs. apply andb_true_iff in Hs as [H1 H2]. exists e. auto.
  - intros (e & He & H1 & H2 & ->). eapply Permutation_in; [apply Permutation_sym, stable_sort_perm'|].
    apply in_map_iff. exists e. split; [reflexivity|]. apply filter_In. split; [exact He|].
    unfold is_shlib. rewrite H1, H2. reflexivity.
Qed.

(* ------------------------------------------------------------------ the dep-info run sees the request *)

Theorem depinfo_args_complete : forall args p,
  In p args -> name_in depinfo_dropped p = false ->
  (forall piece, In piece (pieces_of p) -> In piece (depinfo_args args)).
Proof.
  intros args p Hin Hn piece Hp. unfold depinfo_args. apply in_flat_map. exists p. split; [|exact Hp].
  apply filter_In. split; [exact Hin|]. rewrite Hn. reflexivity.
Qed.

Lemma depinfo_args_app a b : depinfo_args (a ++ b) = depinfo_args a ++ depinfo_args b.
Proof. unfold depinfo_args. rewrite filter_app, flat_map_app. reflexivity. Qed.

(* ------------------------------------------------------------------ archives *)

(* two archives with the same member names and data lengths, member by member: equal pre-images only if every
   member's data is equal — also for members that share a name, also for the earlier one of them *)
Theorem archive_preimage_inj : forall m1 m2 : list (bytes * bytes),
  map (fun m => (fst m, length (snd m))) m1 = map (fun m => (fst m, length (snd m))) m2 ->
  archive_preimage m1 = archive_preimage m2 -> m1 = m2.
Proof.
  induction m1 as [|[n1 d1] m1 IH]; intros [|[n2 d2] m2] Hs H; cbn [map] in Hs; try discriminate; [reflexivity|].
  injection Hs as Hn Hl Hr. cbn [fst snd] in *. subst n2.
  unfold archive_preimage in H. cbn [flat_map fst snd] in H. rewrite <- !app_assoc in H.
  apply app_inv_head in H. apply app_eq_len in H as [E R]; [|exact Hl]. subst. f_equal. apply IH; assumption.
Qed.

(* ------------------------------------------------------------------ --extern order *)

Lemma comp_cmp_eq a b : comp_cmp a b = Eq -> a = b.
Proof.
  destruct a, b; simpl; intro H; try reflexivity; try discriminate. f_equal. apply bytes_cmp_eq. exact H.
Qed.

Lemma comp_cmp_refl a : comp_cmp a a = Eq.
Proof. destruct a; simpl; try reflexivity. apply bytes_cmp_refl. Qed.

Lemma comp_cmp_antisym a b : comp_cmp b a = CompOpp (comp_cmp a b).
Proof. destruct a, b; simpl; try reflexivity. apply bytes_cmp_antisym. Qed.

Lemma comp_cmp_trans a b c o : comp_cmp a b = o -> comp_cmp b c = o -> comp_cmp a c = o.
Proof.
  destruct a, b, c; cbv -[bytes_cmp]; try congruence; try (intros; subst; discriminate). apply bytes_cmp_trans.
Qed.

Lemma comps_cmp_eq a : forall b, comps_cmp a b = Eq -> a = b.
Proof.
  induction a as [|x a IH]; intros [|y b] H; simpl in H; try discriminate; [reflexivity|].
  destruct (comp_cmp x y) eqn:E; try discriminate. apply comp_cmp_eq in E. subst. f_equal. apply IH. exact H.
Qed.

Lemma comps_cmp_refl a : comps_cmp a a = Eq.
Proof. induction a as [|x a IH]; simpl; [reflexivity|]. rewrite comp_cmp_refl. exact IH. Qed.

Lemma comps_cmp_antisym a : forall b, comps_cmp b a = CompOpp (comps_cmp a b).
Proof.
  induction a as [|x a IH]; intros [|y b]; simpl; try reflexivity.
  rewrite (comp_cmp_antisym x y). destruct (comp_cmp x y); simpl; try reflexivity. apply IH.
Qed.

Lemma comps_cmp_trans a : forall b c o, comps_cmp a b = o -> comps_cmp b c = o -> comps_cmp a c = o.
Proof.
  induction a as [|x a IH]; intros [|y b] [|z c] o H1 H2; simpl in *; try congruence.
  destruct (comp_cmp x y) eqn:E1; destruct (comp_cmp y z) eqn:E2;
    try (apply comp_cmp_eq in E1; subst y); try (apply comp_cmp_eq in E2; subst z);
    rewrite ?E1, ?E2, ?comp_cmp_refl; try congruence.
  - eapply IH; eassumption.
  - rewrite (comp_cmp_trans x y z Lt E1 E2). congruence.
  - rewrite (comp_cmp_trans x y z Gt E1 E2). congruence.
Qed.

Definition comps_leb (a b : list comp) : bool := match comps_cmp a b with Gt => false | _ => true end.

Lemma comps_leb_total a b : comps_leb a b = true \/ comps_leb b a = true.
Proof. unfold comps_leb. rewrite (comps_cmp_antisym a b). destruct (comps_cmp a b); simpl; auto. Qed.

Lemma comps_leb_antisym a b : comps_leb a b = true -> comps_leb b a = true -> a = b.
Proof.
  unfold comps_leb. rewrite (comps_cmp_antisym a b). destruct (comps_cmp a b) eqn:E; simpl; try discriminate.
  intros _ _. apply comps_cmp_eq. exact E.
Qed.

Lemma comps_leb_trans a b c : comps_leb a b = true -> comps_leb b c = true -> comps_leb a c = true.
Proof.
  unfold comps_leb. intros H1 H2.
  destruct (comps_cmp a b) eqn:E1; try discriminate; destruct (comps_cmp b c) eqn:E2; try discriminate.
  - apply comps_cmp_eq in E1. subst. rewrite E2. reflexivity.
  - apply comps_cmp_eq in E1. subst. rewrite E2. reflexivity.
  - apply comps_cmp_eq in E2. subst. rewrite E1. reflexivity.
  - rewrite (comps_cmp_trans a b c Lt E1 E2). reflexivity.
Qed.

Lemma map_insert_sorted x l :
  map components (insert_sorted path_leb x l) = insert_sorted comps_leb (components x) (map components l).
Proof.
  induction l as [|y l IH]; [reflexivity|]. cbn [insert_sorted map].
  change (path_leb x y) with (comps_leb (components x) (components y)).
  destruct (comps_leb (components x) (components y)); cbn [map]; [reflexivity|]. rewrite IH. reflexivity.
Qed.

Lemma map_sort_paths l : map components (sort_paths l) = stable_sort comps_leb (map components l).
Proof.
  unfold sort_paths. induction l as [|x l IH]; [reflexivity|]. cbn [stable_sort fold_right map].
  change (fold_right (insert_sorted path_leb) [] l) with (stable_sort path_leb l).
  rewrite map_insert_sorted, IH. reflexivity.
Qed.

(* the order in which the --extern files are hashed does not depend on the order of the --extern options: as
   PATHS (component lists: what names a file) the sorted lists are equal, whatever the file names are *)
Theorem extern_order_insensitive : forall l1 l2,
  Permutation l1 l2 -> map components (sort_paths l1) = map components (sort_paths l2).
Proof.
  intros l1 l2 P. rewrite !map_sort_paths.
  apply (stable_sort_canon comps_leb comps_leb_total comps_leb_trans comps_leb_antisym).
  apply Permutation_map. exact P.
Qed.
