(* Proofs/DistHistory.v — C13: request histories (main cache, preprocessor cache, job input) and the client
   toolchain cache over several requests. *)
From Coq Require Import List NArith ZArith Bool Lia.
From Sccache Require Import Model.DistStatus Model.DistFallback Model.DistHistory
  Proofs.DistStatus Proofs.DistFallback.
Import ListNotations.

(* ---- what a request does to the disk does not depend on what was there ---- *)
Definition indep (s : script) (g : path -> option (option content)) : Prop :=
  forall f p, fs_get (r_fs (dist_or_local true s f)) p = match g p with Some c => c | None => fs_get f p end.

Definition in_b (p : path) (l : list path) : bool := existsb (N.eqb p) l.

Lemma in_b_true p l : in_b p l = true <-> In p l.
Proof.
  unfold in_b. rewrite existsb_exists. split.
  - intros (x & I & E). apply N.eqb_eq in E. subst. exact I.
  - intros I. exists p. split; [exact I | apply N.eqb_refl].
Qed.

Lemma in_b_false p l : in_b p l = false <-> ~ In p l.
Proof.
  split.
  - intros E I. apply in_b_true in I. congruence.
  - intros N. destruct (in_b p l) eqn:E; [|reflexivity]. apply in_b_true in E. contradiction.
Qed.

Lemma write_all_get c ws f p :
  fs_get (write_all c ws f) p = if in_b p ws then Some c else fs_get f p.
Proof.
  destruct (in_b p ws) eqn:E.
  - apply write_all_in. apply in_b_true. exact E.
  - apply write_all_notin. apply in_b_false. exact E.
Qed.

Lemma effect_independent s : exists g, indep s g.
Proof.
  unfold indep, dist_or_local.
  destruct (s_gen s); simpl.
  2:{ exists (fun _ => None). reflexivity. }
  destruct (s_dist s); simpl.
  2:{ exists (fun p => if in_b p (local_writes s) then Some (Some CLocal) else None).
      intros f p. rewrite run_local_fs, write_all_get. destruct (in_b p (local_writes s)); reflexivity. }
  destruct (first_fault s) as [[st c]|] eqn:F.
  - destruct c.
    + exists (fun p => if in_b p (attempted s) then Some None else None).
      intros f p. destruct (attempt_err s f st _ F) as (f' & A & B & C). rewrite A. simpl.
      destruct (in_b p (attempted s)) eqn:E.
      * apply B. apply in_b_true. exact E.
      * apply C. apply in_b_false. exact E.
    + exists (fun p => if in_b p (attempted s) then Some None else None).
      intros f p. destruct (attempt_err s f st _ F) as (f' & A & B & C). rewrite A. simpl.
      destruct (in_b p (attempted s)) eqn:E.
      * apply B. apply in_b_true. exact E.
      * apply C. apply in_b_false. exact E.
    + exists (fun p => if in_b p (local_writes s) then Some (Some CLocal)
                       else if in_b p (attempted s) then Some None else None).
      intros f p. destruct (attempt_err s f st _ F) as (f' & A & B & C). rewrite A.
      rewrite run_local_fs, write_all_get.
      destruct (in_b p (local_writes s)); [reflexivity|].
      destruct (in_b p (attempted s)) eqn:E.
      * apply B. apply in_b_true. exact E.
      * apply C. apply in_b_false. exact E.
  - destruct (attempt_ok s [] F) as (code & outs & R & _ & _).
    exists (fun p => if in_b p (map fst outs) then Some (Some CRemote) else None).
    intros f p. destruct (attempt_ok s f F) as (code' & outs' & R' & A & _).
    rewrite R in R'. inversion R'; subst code' outs'. rewrite A. simpl.
    rewrite write_all_get. destruct (in_b p (map fst outs)); reflexivity.
Qed.

Lemma run_local_out_indep dt s f1 f2 : r_out (run_local dt s f1) = r_out (run_local dt s f2).
Proof. unfold run_local. destruct (s_local s); reflexivity. Qed.

Lemma outcome_independent s f1 f2 :
  r_out (dist_or_local true s f1) = r_out (dist_or_local true s f2)
  /\ r_local_ran (dist_or_local true s f1) = r_local_ran (dist_or_local true s f2).
Proof.
  unfold dist_or_local.
  destruct (s_gen s); simpl; [|auto].
  destruct (s_dist s); simpl.
  2:{ split; [apply run_local_out_indep | rewrite !run_local_ran; reflexivity]. }
  destruct (first_fault s) as [[st c]|] eqn:F.
  - destruct (attempt_err s f1 st c F) as (g1 & A1 & _). destruct (attempt_err s f2 st c F) as (g2 & A2 & _).
    rewrite A1, A2. destruct c; simpl; auto.
    split; [apply run_local_out_indep | rewrite !run_local_ran; reflexivity].
  - destruct (attempt_ok s f1 F) as (c1 & o1 & R1 & A1 & _). destruct (attempt_ok s f2 F) as (c2 & o2 & R2 & A2 & _).
    rewrite R1 in R2. inversion R2; subst. rewrite A1, A2. simpl. auto.
Qed.

Lemma effect_independent_of_preexisting s :
  (exists g : path -> option (option content),
     forall f p, fs_get (r_fs (dist_or_local true s f)) p = match g p with Some c => c | None => fs_get f p end)
  /\ (forall f1 f2, r_out (dist_or_local true s f1) = r_out (dist_or_local true s f2)
                    /\ r_local_ran (dist_or_local true s f1) = r_local_ran (dist_or_local true s f2)).
Proof. split; [apply effect_independent | apply outcome_independent]. Qed.

(* ---- histories ---- *)
Lemma job_reached_dist s : job_reached s = true -> s_dist s = true.
Proof.
  unfold job_reached. intros H.
  repeat (apply andb_true_iff in H as [H ?]). assumption.
Qed.

Lemma hstep_sent pp h st : ho_sent (snd (hstep pp h st)) <> Some TuEmpty.
Proof.
  unfold hstep. destruct (lookup (st_variant st) (h_store h)) as [[c sr]|]; simpl; [discriminate|].
  destruct (job_reached (st_script st)) eqn:J; [|discriminate].
  rewrite (job_reached_dist _ J). simpl. rewrite andb_false_r. simpl. discriminate.
Qed.

Lemma job_input_complete pp : forall steps h o,
  In o (hrun pp h steps) -> ho_sent o <> Some TuEmpty.
Proof.
  induction steps as [|st rest IH]; intros h o H; [destruct H|].
  simpl in H. destruct (hstep pp h st) as [h' o'] eqn:E.
  destruct H as [<-|H].
  - pose proof (hstep_sent pp h st) as K. rewrite E in K. exact K.
  - eapply IH. exact H.
Qed.

Lemma hit_restores_exact pp h st c sr :
  lookup (st_variant st) (h_store h) = Some (c, sr) ->
  ho_hit (snd (hstep pp h st)) = true
  /\ fs_get (h_fs (fst (hstep pp h st))) 0%N = Some c
  /\ ho_src (snd (hstep pp h st)) = Some sr
  /\ ho_ran (snd (hstep pp h st)) = false
  /\ ho_sent (snd (hstep pp h st)) = None
  /\ h_store (fst (hstep pp h st)) = h_store h.
Proof.
  intros L. unfold hstep. rewrite L. cbn [fst snd h_fs h_store ho_hit ho_src ho_ran ho_sent].
  rewrite fs_get_write, N.eqb_refl. repeat split; reflexivity.
Qed.

Lemma lookup_cons_same {A} k (v : A) l : lookup k ((k, v) :: l) = Some v.
Proof. simpl. rewrite N.eqb_refl. reflexivity. Qed.

Lemma miss_is_stored pp h st dt :
  lookup (st_variant st) (h_store h) = None ->
  ho_q (snd (hstep pp h st)) = QMiss dt ->
  exists c sr, fs_get (h_fs (fst (hstep pp h st))) 0%N = Some c
    /\ ho_src (snd (hstep pp h st)) = Some sr
    /\ lookup (st_variant st) (h_store (fst (hstep pp h st))) = Some (c, sr).
Proof.
  intros L. unfold hstep. rewrite L. simpl.
  set (r := dist_or_local true (st_script st) (prepare h st)).
  intros Q. rewrite Q.
  unfold request_class in Q.
  destruct (r_out r) as [dt' raw|raw|k|] eqn:O; try discriminate.
  destruct (success raw); [|discriminate].
  destruct (fs_get (r_fs r) 0%N) as [c|] eqn:G; [|discriminate].
  unfold src_of. rewrite O.
  destruct dt'; eexists; eexists; (split; [reflexivity|]); (split; [reflexivity|]); apply lookup_cons_same.
Qed.

(* ---- the client toolchain cache ---- *)
Lemma tc_too_large_step limit size t f need local :
  (limit <? size)%N = true -> t_weak t = false ->
  let R := dist_or_local true (tc_script need local (Some ETooLarge) t) f in
  tc_step limit size (t, f) (TcRequest need local) = ((t, r_fs R), Some R)
  /\ r_out R = OErr KTooLarge /\ r_local_ran R = false.
Proof.
  intros L W R. unfold tc_step, tc_put. rewrite W, L. split; [reflexivity|].
  unfold R, dist_or_local, dist_attempt. simpl. auto.
Qed.

Lemma tc_too_large_every_request limit size :
  (limit < size)%N ->
  forall ops t f, t_weak t = false ->
  forall t' o, In (t', o) (tc_run limit size (t, f) ops) ->
    t_weak t' = false
    /\ (forall r, o = Some r -> r_out r = OErr KTooLarge /\ r_local_ran r = false).
Proof.
  intros LT. apply N.ltb_lt in LT.
  induction ops as [|op rest IH]; intros t f W t' o H; [destruct H|].
  destruct op as [need local|].
  - destruct (tc_too_large_step limit size t f need local LT W) as (E & A & B).
    cbn [tc_run] in H. rewrite E in H. cbn [fst] in H. destruct H as [H|H].
    + inversion H; subst. split; [exact W|]. intros r K. inversion K; subst. auto.
    + eapply IH; eassumption.
  - cbn [tc_run tc_step fst] in H. destruct H as [H|H].
    + inversion H; subst. split; [exact W|]. intros r K. discriminate.
    + eapply IH; eassumption.
Qed.

(* when it fits: every request is compiled remotely, also after restarts *)
Definition tc_wf (t : tcstate) : Prop := t_weak t = true -> t_archive t = true.

Lemma tc_fits_step limit size t f need local :
  (limit <? size)%N = false -> tc_wf t ->
  exists t' R, tc_step limit size (t, f) (TcRequest need local) = ((t', r_fs R), Some R)
    /\ tc_wf t' /\ t_weak t' = true
    /\ r_out R = OOk DistOk (to_local 0%Z) /\ r_local_ran R = false.
Proof.
  intros L WF. unfold tc_step, tc_put. destruct (t_weak t) eqn:W.
  - exists t. eexists. split; [reflexivity|]. split; [exact WF|]. split; [exact W|].
    unfold dist_or_local, dist_attempt, tc_script. rewrite (WF W). simpl. destruct need; simpl; auto.
  - rewrite L. eexists. eexists. split; [reflexivity|]. split; [intros _; reflexivity|]. split; [reflexivity|].
    unfold dist_or_local, dist_attempt, tc_script. simpl. destruct need; simpl; auto.
Qed.

Lemma tc_fits_every_request limit size :
  (size <= limit)%N ->
  forall ops t f, tc_wf t ->
  forall t' o r, In (t', o) (tc_run limit size (t, f) ops) -> o = Some r ->
    r_out r = OOk DistOk (to_local 0%Z) /\ r_local_ran r = false.
Proof.
  intros LE. assert (L : (limit <? size)%N = false) by (apply N.ltb_ge; exact LE).
  induction ops as [|op rest IH]; intros t f WF t' o r H K; [destruct H|].
  destruct op as [need local|].
  - destruct (tc_fits_step limit size t f need local L WF) as (t1 & R & E & WF1 & _ & A & B).
    cbn [tc_run] in H. rewrite E in H. cbn [fst] in H. destruct H as [H|H].
    + inversion H; subst. inversion H2; subst. auto.
    + eapply IH; eassumption.
  - cbn [tc_run tc_step fst] in H. destruct H as [H|H].
    + inversion H; subst. discriminate.
    + eapply IH; eassumption.
Qed.
