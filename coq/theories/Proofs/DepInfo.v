(* Proofs/DepInfo.v — the dep-info handling of rust.rs is lossless on what rustc writes.

   depinfo_roundtrip : parse_dep_info (print_dep_info (t :: ts) fs envs) cwd = sort_paths (map (path_join cwd) fs)
   depinfo_lossless  : ... is a permutation of  map (path_join cwd) fs
   envdep_roundtrip  : parse_env_dep_info (print_dep_info ts fs envs) = map escape_env_dep envs
   envdep_determines : equal parses of two printed texts => equal env-dep lists (unset <> empty)
   envdep_old_refuted: the code before the fix returned equal results for different lists *)
From Coq Require Import List NArith Bool Lia ZifyBool Permutation.
From Sccache Require Import Base.Sx Model.RustPath Model.DepInfo.
Import ListNotations.
Local Open Scope N_scope.

(* ------------------------------------------------------------------ small facts on bytes *)

Lemma no_byte_app b x y : no_byte b (x ++ y) = no_byte b x && no_byte b y.
Proof. unfold no_byte. apply forallb_app. Qed.

Lemma no_byte_cons b c x : no_byte b (c :: x) = negb (c =? b) && no_byte b x.
Proof. reflexivity. Qed.

Lemma last_byte_cons c x : x <> [] -> last_byte (c :: x) = last_byte x.
Proof.
  intro H. unfold last_byte. simpl. destruct (rev x) eqn:E.
  - exfalso. apply H. apply (f_equal (@rev N)) in E. rewrite rev_involutive in E. exact E.
  - reflexivity.
Qed.

Lemma last_byte_single c : last_byte [c] = Some c.
Proof. reflexivity. Qed.

Lemma last_byte_app_single x c : last_byte (x ++ [c]) = Some c.
Proof. unfold last_byte. rewrite rev_app_distr. reflexivity. Qed.

(* ------------------------------------------------------------------ str::lines *)

Lemma pieces_line l rest :
  no_byte NL l = true -> pieces (l ++ NL :: rest) = (l, true) :: pieces rest.
Proof.
  induction l as [|c l IH]; intro H.
  - simpl. reflexivity.
  - rewrite no_byte_cons in H. apply andb_true_iff in H as [Hc Hl].
    simpl. apply negb_true_iff in Hc. rewrite Hc. rewrite (IH Hl). reflexivity.
Qed.

Lemma strip_cr_id l : last_byte l <> Some CR -> strip_cr l = l.
Proof.
  induction l as [|c l IH]; intro H; [reflexivity|].
  destruct l as [|d l'].
  - simpl. rewrite last_byte_single in H.
    destruct (c =? CR) eqn:E; [|reflexivity]. apply N.eqb_eq in E. subst. congruence.
  - change (strip_cr (c :: d :: l')) with (c :: strip_cr (d :: l')).
    rewrite IH; [reflexivity|]. rewrite last_byte_cons in H by discriminate. exact H.
Qed.

Lemma lines_line l rest :
  no_byte NL l = true -> lines (l ++ NL :: rest) = strip_cr l :: lines rest.
Proof. intro H. unfold lines. rewrite (pieces_line l rest H). reflexivity. Qed.

(* ------------------------------------------------------------------ escaped names *)

(* an escaped name followed by ':' never begins with a space *)
Definition head_not_sp (l : bytes) : Prop := match l with c :: _ => c <> SP | [] => True end.

Lemma escape_head t rest : head_not_sp rest -> head_not_sp (escape_name t ++ rest).
Proof.
  intro H. destruct t as [|c t]; [exact H|]. simpl.
  destruct (c =? SP) eqn:E; simpl.
  - unfold BSL, SP. lia.
  - apply N.eqb_neq in E. exact E.
Qed.

Lemma no_nl_escape t : no_byte NL t = true -> no_byte NL (escape_name t) = true.
Proof.
  induction t as [|c t IH]; intro H; [reflexivity|].
  rewrite no_byte_cons in H. apply andb_true_iff in H as [Hc Ht]. simpl.
  destruct (c =? SP); rewrite ?no_byte_cons, (IH Ht); simpl; rewrite ?Hc; reflexivity.
Qed.

Lemma escape_last t : t <> [] -> last_byte (escape_name t) = last_byte t.
Proof.
  induction t as [|c t IH]; intro H; [congruence|].
  destruct t as [|d t'].
  - simpl. destruct (c =? SP) eqn:E; [|reflexivity].
    apply N.eqb_eq in E. subst. reflexivity.
  - assert (Hne : escape_name (d :: t') <> []).
    { simpl. destruct (d =? SP); discriminate. }
    rewrite last_byte_cons by discriminate. rewrite <- IH by discriminate.
    change (escape_name (c :: d :: t')) with
      (if c =? SP then BSL :: SP :: escape_name (d :: t') else c :: escape_name (d :: t')).
    destruct (c =? SP).
    + rewrite last_byte_cons. 2: { destruct (escape_name (d :: t')); [congruence|discriminate]. }
      rewrite last_byte_cons by exact Hne. reflexivity.
    + rewrite last_byte_cons by exact Hne. reflexivity.
Qed.

(* the first ": " of  <escaped target>: <rest>  is the separator *)
Lemma after_colon_space_escape t rest :
  after_colon_space (escape_name t ++ COLON :: SP :: rest) = Some rest.
Proof.
  induction t as [|c t IH].
  - simpl. reflexivity.
  - simpl escape_name. destruct (c =? SP) eqn:E.
    + (* '\' ' ' ... *)
      change ((BSL :: SP :: escape_name t) ++ COLON :: SP :: rest)
        with (BSL :: SP :: (escape_name t ++ COLON :: SP :: rest)).
      remember (escape_name t ++ COLON :: SP :: rest) as X eqn:EX.
      assert (HX : exists a b r, X = a :: b :: r).
      { subst X. destruct (escape_name t) as [|a [|b r]]; simpl; eauto. }
      destruct HX as (a & b & r & HX).
      assert (S1 : after_colon_space (BSL :: SP :: X) = after_colon_space (SP :: X)) by reflexivity.
      rewrite S1. rewrite HX.
      assert (S2 : after_colon_space (SP :: a :: b :: r) = after_colon_space (a :: b :: r)) by reflexivity.
      rewrite S2, <- HX. exact IH.
    + change ((c :: escape_name t) ++ COLON :: SP :: rest)
        with (c :: (escape_name t ++ COLON :: SP :: rest)).
      pose proof (escape_head t (COLON :: SP :: rest)) as Hh.
      remember (escape_name t ++ COLON :: SP :: rest) as X eqn:EX.
      destruct X as [|b r].
      { destruct (escape_name t); discriminate. }
      assert (Hb : b <> SP). { apply Hh. simpl. unfold COLON, SP. lia. }
      simpl. destruct (c =? COLON); simpl.
      * apply N.eqb_neq in Hb. rewrite Hb. exact IH.
      * exact IH.
Qed.

(* ------------------------------------------------------------------ split_deps *)

Definition not_bsl_end (f : bytes) : Prop := last_byte f <> Some BSL.

Lemma split_escape f : forall cur rest,
  not_bsl_end f \/ head_not_sp rest ->
  (rest = [] \/ exists r, rest = SP :: r) ->
  split_deps cur (escape_name f ++ rest) = split_deps (cur ++ f) rest.
Proof.
  induction f as [|c f IH]; intros cur rest Hend Hrest.
  - simpl. rewrite app_nil_r. reflexivity.
  - assert (Hend' : not_bsl_end f \/ head_not_sp rest).
    { destruct Hend as [H|H]; [|right; exact H].
      destruct f as [|d f'].
      - (* f = [c] : c is not '\' ; for f = [] the condition is vacuous *) left. unfold not_bsl_end. simpl. discriminate.
      - left. unfold not_bsl_end in *. rewrite last_byte_cons in H by discriminate. exact H. }
    simpl escape_name. destruct (c =? SP) eqn:Esp.
    + apply N.eqb_eq in Esp. subst c.
      change ((BSL :: SP :: escape_name f) ++ rest) with (BSL :: SP :: (escape_name f ++ rest)).
      assert (S : split_deps cur (BSL :: SP :: (escape_name f ++ rest))
                  = split_deps (cur ++ [SP]) (escape_name f ++ rest)) by reflexivity.
      rewrite S, (IH (cur ++ [SP]) rest Hend' Hrest). rewrite <- app_assoc. reflexivity.
    + change ((c :: escape_name f) ++ rest) with (c :: (escape_name f ++ rest)).
      destruct (c =? BSL) eqn:Ebs.
      * apply N.eqb_eq in Ebs. subst c.
        (* what follows the backslash is not a space *)
        assert (Hh : head_not_sp (escape_name f ++ rest)).
        { destruct f as [|d f'].
          - simpl. destruct Hend as [H|H]; [|exact H].
            exfalso. apply H. reflexivity.
          - simpl. destruct (d =? SP) eqn:Ed; simpl.
            + unfold BSL, SP. lia.
            + apply N.eqb_neq in Ed. exact Ed. }
        remember (escape_name f ++ rest) as Y eqn:EY.
        assert (S : split_deps cur (BSL :: Y) = split_deps (cur ++ [BSL]) Y).
        { destruct Y as [|d Y']; [reflexivity|]. simpl in Hh.
          apply N.eqb_neq in Hh. simpl. rewrite Hh. reflexivity. }
        rewrite S. subst Y. rewrite (IH (cur ++ [BSL]) rest Hend' Hrest). rewrite <- app_assoc. reflexivity.
      * assert (S : split_deps cur (c :: (escape_name f ++ rest))
                    = split_deps (cur ++ [c]) (escape_name f ++ rest)).
        { simpl. rewrite Ebs, Esp. reflexivity. }
        rewrite S, (IH (cur ++ [c]) rest Hend' Hrest). rewrite <- app_assoc. reflexivity.
Qed.

Lemma split_deps_sp cur rest : split_deps cur (SP :: rest) = cur :: split_deps [] rest.
Proof. reflexivity. Qed.

Lemma dep_path_ok_spec p :
  dep_path_ok p = true ->
  p <> [] /\ no_byte NL p = true /\ last_byte p <> Some BSL /\ last_byte p <> Some CR.
Proof.
  unfold dep_path_ok. destruct (last_byte p) as [c|] eqn:E; [|discriminate].
  intro H. apply andb_true_iff in H as [H Hcr]. apply andb_true_iff in H as [Hnl Hbs].
  apply negb_true_iff, N.eqb_neq in Hcr. apply negb_true_iff, N.eqb_neq in Hbs.
  repeat split; try congruence. intro; subst; discriminate.
Qed.

Lemma split_join fs : forall cur,
  forallb dep_path_ok fs = true ->
  split_deps cur (join_sp (map escape_name fs)) =
  match fs with
  | [] => match cur with [] => [] | _ => [cur] end
  | f :: r => (cur ++ f) :: r
  end.
Proof.
  induction fs as [|f r IH]; intros cur H; [reflexivity|].
  simpl in H. apply andb_true_iff in H as [Hf Hr].
  destruct (dep_path_ok_spec f Hf) as (Hne & _ & Hbs & _).
  destruct r as [|g r'].
  - simpl. rewrite <- (app_nil_r (escape_name f)).
    rewrite split_escape; [|left; exact Hbs|left; reflexivity].
    simpl. destruct (cur ++ f) eqn:E; [|reflexivity].
    apply app_eq_nil in E as [_ E]. congruence.
  - change (join_sp (map escape_name (f :: g :: r')))
      with (escape_name f ++ SP :: join_sp (map escape_name (g :: r'))).
    rewrite split_escape; [|left; exact Hbs|right; eexists; reflexivity].
    rewrite split_deps_sp. rewrite (IH [] Hr). reflexivity.
Qed.

Lemma no_nl_join fs :
  forallb (no_byte NL) fs = true -> no_byte NL (join_sp (map escape_name fs)) = true.
Proof.
  induction fs as [|f r IH]; intro H; [reflexivity|].
  simpl in H. apply andb_true_iff in H as [Hf Hr].
  destruct r as [|g r'].
  - simpl. apply no_nl_escape. exact Hf.
  - change (join_sp (map escape_name (f :: g :: r')))
      with (escape_name f ++ SP :: join_sp (map escape_name (g :: r'))).
    rewrite no_byte_app, no_byte_cons, (no_nl_escape f Hf), (IH Hr). reflexivity.
Qed.

Lemma join_last fs :
  forallb dep_path_ok fs = true -> fs <> [] ->
  exists f, In f fs /\ last_byte (join_sp (map escape_name fs)) = last_byte f.
Proof.
  induction fs as [|f r IH]; intros H Hne; [congruence|].
  simpl in H. apply andb_true_iff in H as [Hf Hr].
  destruct (dep_path_ok_spec f Hf) as (Hfne & _).
  destruct r as [|g r'].
  - exists f. split; [left; reflexivity|]. simpl. apply escape_last. exact Hfne.
  - destruct (IH Hr) as (h & Hin & Hl); [discriminate|].
    exists h. split; [right; exact Hin|].
    change (join_sp (map escape_name (f :: g :: r')))
      with (escape_name f ++ SP :: join_sp (map escape_name (g :: r'))).
    rewrite <- Hl. remember (join_sp (map escape_name (g :: r'))) as J.
    assert (HJ : J <> []).
    { subst J. simpl in Hr. apply andb_true_iff in Hr as [Hg _].
      destruct (dep_path_ok_spec g Hg) as (Hgne & _).
      assert (He : escape_name g <> []).
      { destruct g as [|c g']; [congruence|]. simpl. destruct (c =? SP); discriminate. }
      destruct r'; simpl; [exact He|]. destruct (escape_name g); [congruence|discriminate]. }
    clear -HJ. induction (escape_name f) as [|c e IHe]; simpl.
    + apply last_byte_cons. exact HJ.
    + rewrite last_byte_cons; [exact IHe|]. destruct e; discriminate.
Qed.

Lemma forallb_weaken {A} (p q : A -> bool) l :
  (forall x, p x = true -> q x = true) -> forallb p l = true -> forallb q l = true.
Proof.
  intros Hpq. induction l as [|x l IH]; simpl; [reflexivity|].
  intro H. apply andb_true_iff in H as [Hx Hl]. rewrite (Hpq x Hx), (IH Hl). reflexivity.
Qed.

(* the first line of what rustc writes *)
Definition rule_line (t : bytes) (fs : list bytes) : bytes :=
  escape_name t ++ COLON :: SP :: join_sp (map escape_name fs).

Lemma print_rule_eq t fs : print_rule t fs = rule_line t fs ++ NL :: [NL].
Proof. unfold print_rule, rule_line. rewrite <- !app_assoc. reflexivity. Qed.

Lemma rule_line_no_nl t fs :
  target_ok t = true -> forallb dep_path_ok fs = true -> no_byte NL (rule_line t fs) = true.
Proof.
  intros Ht Hfs. unfold rule_line. rewrite no_byte_app, (no_nl_escape t Ht). simpl.
  apply no_nl_join. eapply forallb_weaken; [|exact Hfs].
  intros x Hx. apply (dep_path_ok_spec x Hx).
Qed.

Lemma rule_line_last t fs :
  forallb dep_path_ok fs = true -> last_byte (rule_line t fs) <> Some CR.
Proof.
  intro Hfs. unfold rule_line.
  assert (E : forall e x, x <> [] -> last_byte (e ++ x) = last_byte x).
  { intros e x Hx. induction e as [|c e IHe]; [reflexivity|]. simpl.
    rewrite last_byte_cons; [exact IHe|]. destruct e; [exact Hx|discriminate]. }
  rewrite E by discriminate.
  destruct fs as [|f r].
  - simpl. unfold last_byte. simpl. unfold SP, CR. intro H. inversion H.
  - destruct (join_last (f :: r) Hfs) as (h & Hin & Hl); [discriminate|].
    assert (Hne : join_sp (map escape_name (f :: r)) <> []).
    { intro Hj. rewrite Hj in Hl. unfold last_byte in Hl at 1. simpl in Hl.
      assert (Hh : dep_path_ok h = true) by (eapply forallb_forall in Hfs; eauto).
      unfold dep_path_ok in Hh. rewrite <- Hl in Hh. discriminate. }
    rewrite !last_byte_cons by (try exact Hne; discriminate).
    rewrite Hl.
    assert (Hh : dep_path_ok h = true) by (eapply forallb_forall in Hfs; eauto).
    apply (dep_path_ok_spec h Hh).
Qed.

Theorem depinfo_roundtrip : forall t ts fs envs cwd,
  target_ok t = true -> forallb dep_path_ok fs = true ->
  parse_dep_info (print_dep_info (t :: ts) fs envs) cwd = sort_paths (map (path_join cwd) fs).
Proof.
  intros t ts fs envs cwd Ht Hfs.
  unfold print_dep_info, parse_dep_info.
  change (flat_map (fun t0 => print_rule t0 fs) (t :: ts))
    with (print_rule t fs ++ flat_map (fun t0 => print_rule t0 fs) ts).
  rewrite print_rule_eq, <- !app_assoc.
  change ((NL :: [NL]) ++ ?x) with (NL :: [NL] ++ x).
  rewrite lines_line by (apply rule_line_no_nl; assumption).
  rewrite strip_cr_id by (apply rule_line_last; assumption).
  unfold rule_line. rewrite after_colon_space_escape.
  rewrite (split_join fs [] Hfs). destruct fs; reflexivity.
Qed.

(* ------------------------------------------------------------------ the sort loses nothing *)

Lemma insert_perm {A} (leb : A -> A -> bool) x l : Permutation (insert_sorted leb x l) (x :: l).
Proof.
  induction l as [|y l IH]; simpl; [apply Permutation_refl|].
  destruct (leb x y); [apply Permutation_refl|].
  eapply Permutation_trans; [apply perm_skip; exact IH|apply perm_swap].
Qed.

Lemma stable_sort_perm {A} (leb : A -> A -> bool) l : Permutation (stable_sort leb l) l.
Proof.
  induction l as [|x l IH]; simpl; [apply perm_nil|].
  eapply Permutation_trans; [apply insert_perm|apply perm_skip; exact IH].
Qed.

Theorem depinfo_lossless : forall t ts fs envs cwd,
  target_ok t = true -> forallb dep_path_ok fs = true ->
  Permutation (parse_dep_info (print_dep_info (t :: ts) fs envs) cwd) (map (path_join cwd) fs).
Proof.
  intros. rewrite depinfo_roundtrip by assumption. apply stable_sort_perm.
Qed.

(* ------------------------------------------------------------------ env-deps *)

Lemma lines_chunks ls rest :
  forallb (no_byte NL) ls = true ->
  lines (flat_map (fun l => l ++ [NL]) ls ++ rest) = map strip_cr ls ++ lines rest.
Proof.
  induction ls as [|l ls IH]; intro H; [reflexivity|].
  simpl in H. apply andb_true_iff in H as [Hl Hls].
  simpl. rewrite <- !app_assoc. simpl. rewrite lines_line by exact Hl. rewrite (IH Hls). reflexivity.
Qed.

Definition starts2 (a b : N) (l : bytes) : bool :=
  match l with x :: y :: _ => (x =? a) && (y =? b) | _ => false end.

Lemma strip_prefix_starts2 a b p l : starts2 a b l = false -> strip_prefix (a :: b :: p) l = None.
Proof.
  destruct l as [|x [|y r]]; simpl; intro H; try reflexivity.
  - destruct (a =? x); reflexivity.
  - rewrite (N.eqb_sym a x), (N.eqb_sym b y).
    destruct (x =? a); [|reflexivity]. simpl in H. rewrite H. reflexivity.
Qed.

Lemma strip_cr_head y r : strip_cr (y :: r) = [] \/ exists r', strip_cr (y :: r) = y :: r'.
Proof.
  destruct r as [|z r'].
  - simpl. destruct (y =? CR); [left|right; exists []]; reflexivity.
  - right. exists (strip_cr (z :: r')). reflexivity.
Qed.

Lemma starts2_strip_cr a b l : starts2 a b l = false -> starts2 a b (strip_cr l) = false.
Proof.
  destruct l as [|x [|y r]]; intro H; try reflexivity.
  - simpl. destruct (x =? CR); reflexivity.
  - change (strip_cr (x :: y :: r)) with (x :: strip_cr (y :: r)).
    destruct (strip_cr_head y r) as [E|[r' E]]; rewrite E; [reflexivity|exact H].
Qed.

Lemma escaped_colon_starts2 t X : starts2 35 32 (escape_name t ++ COLON :: X) = false.
Proof.
  destruct t as [|c t]; [destruct X; reflexivity|]. simpl escape_name.
  destruct (c =? SP) eqn:E; [reflexivity|].
  change ((c :: escape_name t) ++ COLON :: X) with (c :: (escape_name t ++ COLON :: X)).
  pose proof (escape_head t (COLON :: X)) as Hh.
  destruct (escape_name t ++ COLON :: X) as [|y r] eqn:EY.
  { destruct (escape_name t); discriminate. }
  simpl. assert (Hy : y <> SP). { apply Hh. simpl. unfold COLON, SP. lia. }
  apply N.eqb_neq in Hy. unfold SP in Hy. rewrite Hy. apply andb_false_r.
Qed.

Lemma escaped_colon_quiet t X : env_dep_of_line (strip_cr (escape_name t ++ COLON :: X)) = [].
Proof.
  unfold env_dep_of_line, env_dep_prefix.
  rewrite strip_prefix_starts2; [reflexivity|].
  apply starts2_strip_cr, escaped_colon_starts2.
Qed.

Lemma no_byte_last b l : no_byte b l = true -> last_byte l <> Some b.
Proof.
  intros H E. unfold last_byte in E. destruct (rev l) as [|c r] eqn:R; [discriminate|].
  inversion E; subst c.
  assert (Hin : In b l). { apply in_rev. rewrite R. left. reflexivity. }
  unfold no_byte in H. rewrite forallb_forall in H. specialize (H b Hin).
  rewrite N.eqb_refl in H. discriminate.
Qed.

Lemma escape_env_clean s : no_byte NL (escape_env s) = true /\ no_byte CR (escape_env s) = true.
Proof.
  induction s as [|c s [IH1 IH2]]; [split; reflexivity|].
  simpl. destruct (c =? NL) eqn:E1; [|destruct (c =? CR) eqn:E2; [|destruct (c =? BSL) eqn:E3]];
    rewrite ?no_byte_cons, ?IH1, ?IH2, ?E1, ?E2; split; reflexivity.
Qed.

Lemma escape_env_no_eq s : no_byte EQS s = true -> no_byte EQS (escape_env s) = true.
Proof.
  induction s as [|c s IH]; intro H; [reflexivity|].
  rewrite no_byte_cons in H. apply andb_true_iff in H as [Hc Hs].
  simpl. destruct (c =? NL); [|destruct (c =? CR); [|destruct (c =? BSL)]];
    rewrite ?no_byte_cons, (IH Hs), ?Hc; reflexivity.
Qed.

Lemma split_eq_found k v : no_byte EQS k = true -> split_eq (k ++ EQS :: v) = (k, Some v).
Proof.
  induction k as [|c k IH]; intro H; [reflexivity|].
  rewrite no_byte_cons in H. apply andb_true_iff in H as [Hc Hk].
  simpl. apply negb_true_iff in Hc. rewrite Hc, (IH Hk). reflexivity.
Qed.

Lemma split_eq_none k : no_byte EQS k = true -> split_eq k = (k, None).
Proof.
  induction k as [|c k IH]; intro H; [reflexivity|].
  rewrite no_byte_cons in H. apply andb_true_iff in H as [Hc Hk].
  simpl. apply negb_true_iff in Hc. rewrite Hc, (IH Hk). reflexivity.
Qed.

Definition env_line (kv : bytes * option bytes) : bytes :=
  env_dep_prefix ++ escape_env (fst kv) ++ match snd kv with Some v => [EQS] ++ escape_env v | None => [] end.

Lemma print_env_dep_eq kv : print_env_dep kv = env_line kv ++ [NL].
Proof. unfold print_env_dep, env_line. rewrite <- !app_assoc. reflexivity. Qed.

Lemma env_line_clean kv : no_byte NL (env_line kv) = true /\ no_byte CR (env_line kv) = true.
Proof.
  unfold env_line. destruct kv as [k [v|]]; simpl snd; simpl fst;
    rewrite !no_byte_app; destruct (escape_env_clean k) as [A B]; rewrite ?A, ?B.
  - destruct (escape_env_clean v) as [C D]. simpl. rewrite C, D. split; reflexivity.
  - split; reflexivity.
Qed.

Lemma env_line_parse kv :
  env_name_ok kv = true -> env_dep_of_line (strip_cr (env_line kv)) = [escape_env_dep kv].
Proof.
  intro Hok. rewrite strip_cr_id by (apply no_byte_last, env_line_clean).
  unfold env_dep_of_line, env_line.
  assert (S : forall X, strip_prefix env_dep_prefix (env_dep_prefix ++ X) = Some X) by (intro; reflexivity).
  rewrite S. unfold env_name_ok in Hok. apply escape_env_no_eq in Hok.
  unfold escape_env_dep. destruct kv as [k [v|]]; simpl in *.
  - rewrite split_eq_found by exact Hok. reflexivity.
  - rewrite app_nil_r, split_eq_none by exact Hok. reflexivity.
Qed.

Lemma env_lines_parse l :
  forallb env_name_ok l = true ->
  flat_map env_dep_of_line (map strip_cr (map env_line l)) = map escape_env_dep l.
Proof.
  induction l as [|x l IH]; intro Hl; [reflexivity|].
  cbn [forallb] in Hl. apply andb_true_iff in Hl as [Hx Hl].
  cbn [map flat_map]. rewrite (env_line_parse x Hx), (IH Hl). reflexivity.
Qed.

(* all lines of what rustc writes *)
Definition all_lines (ts fs : list bytes) (envs : list (bytes * option bytes)) : list bytes :=
  flat_map (fun t => [rule_line t fs; []]) ts
  ++ map (fun f => escape_name f ++ [COLON]) fs
  ++ match envs with [] => [] | _ => [] :: map env_line envs end.

Lemma print_as_lines ts fs envs :
  print_dep_info ts fs envs = flat_map (fun l => l ++ [NL]) (all_lines ts fs envs) ++ [].
Proof.
  rewrite app_nil_r. unfold print_dep_info, all_lines. rewrite !flat_map_app. f_equal; [|f_equal].
  - induction ts as [|t ts IH]; [reflexivity|]. simpl. rewrite IH, print_rule_eq.
    rewrite <- !app_assoc. reflexivity.
  - induction fs as [|f fs IH]; [reflexivity|]. simpl. rewrite IH. unfold print_phony.
    rewrite <- !app_assoc. reflexivity.
  - unfold print_env_deps. destruct envs as [|e envs]; [reflexivity|].
    change (flat_map (fun l => l ++ [NL]) ([] :: map env_line (e :: envs)))
      with ([NL] ++ flat_map (fun l => l ++ [NL]) (map env_line (e :: envs))).
    f_equal. generalize (e :: envs). intro l. induction l as [|x l IH]; [reflexivity|].
    cbn [flat_map map]. rewrite IH, print_env_dep_eq. rewrite <- !app_assoc. reflexivity.
Qed.

Theorem envdep_roundtrip : forall ts fs envs,
  forallb target_ok ts = true -> forallb dep_path_ok fs = true -> forallb env_name_ok envs = true ->
  parse_env_dep_info (print_dep_info ts fs envs) = map escape_env_dep envs.
Proof.
  intros ts fs envs Hts Hfs Henv.
  rewrite print_as_lines. unfold parse_env_dep_info.
  rewrite lines_chunks.
  2: { unfold all_lines. rewrite !forallb_app. apply andb_true_iff; split; [|apply andb_true_iff; split].
       - clear Henv. induction ts as [|t ts IH]; [reflexivity|]. simpl in Hts.
         apply andb_true_iff in Hts as [Ht Hts]. simpl. rewrite (rule_line_no_nl t fs Ht Hfs), (IH Hts). reflexivity.
       - clear Hts Henv. induction fs as [|f fs IH]; [reflexivity|]. simpl in Hfs.
         apply andb_true_iff in Hfs as [Hf Hfs]. simpl. rewrite (IH Hfs), no_byte_app.
         destruct (dep_path_ok_spec f Hf) as (_ & Hnl & _). rewrite (no_nl_escape f Hnl). reflexivity.
       - assert (G : forall l, forallb (no_byte NL) (map env_line l) = true).
         { intro l. induction l as [|x l IH]; [reflexivity|]. cbn [map forallb].
           destruct (env_line_clean x) as [A _]. rewrite A, IH. reflexivity. }
         destruct envs as [|e envs]; [reflexivity|]. cbn [forallb]. rewrite G. reflexivity. }
  simpl lines. rewrite app_nil_r. unfold all_lines. rewrite !map_app, !flat_map_app.
  assert (Q1 : flat_map env_dep_of_line (map strip_cr (flat_map (fun t => [rule_line t fs; []]) ts)) = []).
  { clear. induction ts as [|t ts IH]; [reflexivity|]. simpl. unfold rule_line at 1.
    rewrite escaped_colon_quiet. simpl. exact IH. }
  assert (Q2 : flat_map env_dep_of_line (map strip_cr (map (fun f => escape_name f ++ [COLON]) fs)) = []).
  { clear. induction fs as [|f fs IH]; [reflexivity|]. simpl. rewrite escaped_colon_quiet. exact IH. }
  unfold bytes in *. rewrite Q1. cbn [app]. rewrite Q2. cbn [app].
  destruct envs as [|e envs]; [reflexivity|].
  change (map strip_cr ([] :: map env_line (e :: envs))) with ([] :: map strip_cr (map env_line (e :: envs))).
  change (flat_map env_dep_of_line ([] :: map strip_cr (map env_line (e :: envs))))
    with (flat_map env_dep_of_line (map strip_cr (map env_line (e :: envs)))).
  apply env_lines_parse. exact Henv.
Qed.

(* rustc's escaping of variables is injective, so the parse determines the list *)
Lemma escape_env_inj a : forall b, escape_env a = escape_env b -> a = b.
Proof.
  induction a as [|x a IH]; intros [|y b] H.
  - reflexivity.
  - exfalso. simpl in H. destruct (y =? NL); [|destruct (y =? CR); [|destruct (y =? BSL)]]; discriminate.
  - exfalso. simpl in H. destruct (x =? NL); [|destruct (x =? CR); [|destruct (x =? BSL)]]; discriminate.
  - simpl in H.
    destruct (N.eqb_spec x NL) as [X1|X1]; [|destruct (N.eqb_spec x CR) as [X2|X2]; [|destruct (N.eqb_spec x BSL) as [X3|X3]]];
    (destruct (N.eqb_spec y NL) as [Y1|Y1]; [|destruct (N.eqb_spec y CR) as [Y2|Y2]; [|destruct (N.eqb_spec y BSL) as [Y3|Y3]]]);
    inversion H; subst; try (f_equal; apply IH; assumption); try congruence;
    try (exfalso; unfold NL, CR, BSL in *; lia).
Qed.

Lemma escape_env_dep_inj a b : escape_env_dep a = escape_env_dep b -> a = b.
Proof.
  destruct a as [k1 v1], b as [k2 v2]. unfold escape_env_dep. simpl. intro H. inversion H as [[Hk Hv]].
  apply escape_env_inj in Hk. subst. f_equal.
  destruct v1, v2; simpl in Hv; try discriminate; [|reflexivity].
  inversion Hv as [Hv']. apply escape_env_inj in Hv'. subst. reflexivity.
Qed.

Theorem envdep_determines : forall ts1 fs1 envs1 ts2 fs2 envs2,
  forallb target_ok ts1 = true -> forallb dep_path_ok fs1 = true -> forallb env_name_ok envs1 = true ->
  forallb target_ok ts2 = true -> forallb dep_path_ok fs2 = true -> forallb env_name_ok envs2 = true ->
  parse_env_dep_info (print_dep_info ts1 fs1 envs1) = parse_env_dep_info (print_dep_info ts2 fs2 envs2) ->
  envs1 = envs2.
Proof.
  intros ts1 fs1 envs1 ts2 fs2 envs2 A1 B1 C1 A2 B2 C2 H.
  rewrite !envdep_roundtrip in H by assumption.
  revert envs2 C2 H. clear -C1. induction envs1 as [|a l IH]; intros [|b m] C2 H; try discriminate; [reflexivity|].
  cbn [map] in H. cbn [forallb] in C1, C2.
  pose proof (f_equal (@hd _ (escape_env_dep a)) H) as Ha. cbn [hd] in Ha.
  pose proof (f_equal (@tl _) H) as Hl. cbn [tl] in Hl.
  apply escape_env_dep_inj in Ha. subst.
  apply andb_true_iff in C1 as [_ C1]. apply andb_true_iff in C2 as [_ C2]. f_equal. apply IH; assumption.
Qed.

(* before the fix: `VAR` unset and `VAR=` (empty) were indistinguishable *)
Theorem envdep_old_refuted :
  exists envs1 envs2,
    envs1 <> envs2 /\
    forallb env_name_ok envs1 = true /\ forallb env_name_ok envs2 = true /\
    parse_env_dep_info_old (print_dep_info [[111]] [[97]] envs1) =
    parse_env_dep_info_old (print_dep_info [[111]] [[97]] envs2).
Proof.
  exists [([86], None)], [([86], Some [])]. split; [discriminate|]. vm_compute. repeat split.
Qed.

(* every path rustc lists as a source of the crate is in the list whose contents are hashed — whatever its name or
   extension (include_bytes!/include_str! files are listed there too: assets/plugin.so, data.rlib, ...) *)
Theorem depinfo_every_listed_source : forall t ts fs envs cwd f,
  target_ok t = true -> forallb dep_path_ok fs = true -> In f fs ->
  In (path_join cwd f) (parse_dep_info (print_dep_info (t :: ts) fs envs) cwd).
Proof.
  intros t ts fs envs cwd f Ht Hfs Hin.
  eapply Permutation_in; [apply Permutation_sym, depinfo_lossless; assumption|].
  apply in_map. exact Hin.
Qed.
