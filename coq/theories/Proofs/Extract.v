(* Proofs/Extract.v — the extraction of Model/Extract.v installs every output atomically, under every
   schedule of observers, every chunking, every position of a failing member.

   Structure:
     1. SInv: structural invariant of (file system, extraction thread): names point to existing inodes below
        [next_ino]; the inode open for writing is only named by temp names.
     2. Frozen: an inode that exists and is not the one open for writing never changes its bytes again.
     3. Whole: every non-temp name holds the complete old or a complete new content; preserved by every action
        except that a rename needs the temp file to be complete — [Safe] collects these preconditions along the
        rest of the program, and [prog_safe] discharges them by running each object's actions symbolically.
     4. GInv: the invariant of the whole system under [exec]; the theorems are read off it. *)
From Coq Require Import List NArith Bool Lia.
From Sccache Require Import Base.Sx Model.FsModel Model.Extract Proofs.FsModel.
Import ListNotations.
Local Open Scope N_scope.

Definition st := (fs * local)%type.
Definition astep (a : action) (s : st) : st := act a (fst s) (snd s).

Lemma seq_run_cons a acts s : seq_run (a :: acts) s = seq_run acts (astep a s).
Proof. reflexivity. Qed.

Lemma seq_run_app a1 a2 s : seq_run (a1 ++ a2) s = seq_run a2 (seq_run a1 s).
Proof. unfold seq_run. apply fold_left_app. Qed.

Lemma astep_dead a s : l_dead (snd s) = true -> astep a s = s.
Proof. intros H. unfold astep, act. rewrite H. destruct s; reflexivity. Qed.

Lemma seq_run_dead acts s : l_dead (snd s) = true -> seq_run acts s = s.
Proof.
  revert s. induction acts as [|a acts IH]; intros s H; [reflexivity|].
  rewrite seq_run_cons, astep_dead by assumption. apply IH; assumption.
Qed.

(* ---------- bytes_of after the operations ---------- *)

Lemma bytes_of_iget f g i : iget i f = iget i g -> bytes_of f i = bytes_of g i.
Proof. unfold bytes_of. intros ->. reflexivity. Qed.

Lemma write_bytes_other i b f j : j <> i -> bytes_of (write_chunk i b f) j = bytes_of f j.
Proof. intros H. apply bytes_of_iget. apply write_chunk_iget_other; assumption. Qed.

Lemma write_bytes_same i b f c : bytes_of f i = Some c -> bytes_of (write_chunk i b f) i = Some (c ++ b).
Proof.
  unfold bytes_of. destruct (iget i f) as [n|] eqn:E; [|discriminate].
  intros H; inversion H; subst. rewrite (write_chunk_iget_same _ _ _ _ E). reflexivity.
Qed.

Lemma write_bytes_none i b f j : bytes_of f j = None -> bytes_of (write_chunk i b f) j = None.
Proof.
  unfold bytes_of. destruct (iget j f) eqn:E; [discriminate|]. intros _.
  rewrite write_chunk_iget_none by assumption. reflexivity.
Qed.

Lemma write_bytes_some i b f j : bytes_of f j <> None -> bytes_of (write_chunk i b f) j <> None.
Proof.
  intros H. destruct (N.eq_dec j i) as [->|Hne].
  - destruct (bytes_of f i) as [c|] eqn:E; [|contradiction].
    rewrite (write_bytes_same _ _ _ _ E). discriminate.
  - rewrite write_bytes_other; assumption.
Qed.

(* ---------- temp names ---------- *)

Lemma is_tmp_tmp_of p sfx : is_tmp (tmp_of p sfx) = true.
Proof. reflexivity. Qed.

Lemma is_tmp_o_tmp o : is_tmp (o_tmp o) = true.
Proof. apply is_tmp_tmp_of. Qed.

(* ---------- 1. structural invariant ---------- *)

Record SInv (s : st) : Prop := {
  si_below : forall p i, lookup p (fst s) = Some i -> i < next_ino (fst s);
  si_none : forall i, next_ino (fst s) <= i -> bytes_of (fst s) i = None;
  si_some : forall p i, lookup p (fst s) = Some i -> bytes_of (fst s) i <> None;
  si_fd : forall i, l_fd (snd s) = Some i -> i < next_ino (fst s);
  si_tmp : forall p i, l_fd (snd s) = Some i -> lookup p (fst s) = Some i -> is_tmp p = true;
}.

(* the actions the extraction thread may contain *)
Definition xaction_ok (a : action) : Prop :=
  match a with
  | ACreateTmp t => is_tmp t = true
  | AUnlink t => is_tmp t = true
  | ARename t _ => is_tmp t = true
  | AOpen _ | ARead => False
  | _ => True
  end.

Lemma fs_ok_SInv f l : fs_okb f = true -> l_fd l = None -> SInv (f, l).
Proof.
  intros Hok Hfd. unfold fs_okb in Hok. apply andb_true_iff in Hok as [Hd Hi].
  rewrite forallb_forall in Hd, Hi.
  assert (Hlk : forall p i, lookup p f = Some i ->
                 i < next_ino f /\ exists n, iget i f = Some n).
  { intros p i H. apply (aget_in path_eqb path_eqb_eq) in H. specialize (Hd _ H). simpl in Hd.
    apply andb_true_iff in Hd as [H1 H2]. apply N.ltb_lt in H1. split; [assumption|].
    destruct (iget i f); [eauto | discriminate]. }
  constructor; simpl.
  - intros p i H. apply Hlk in H. tauto.
  - intros i Hle. unfold bytes_of. destruct (iget i f) as [n|] eqn:E; [|reflexivity].
    unfold iget in E. apply (aget_in N.eqb Neqb_eq) in E. specialize (Hi _ E). simpl in Hi.
    apply N.ltb_lt in Hi. lia.
  - intros p i H. apply Hlk in H as [_ [n Hn]]. unfold bytes_of. rewrite Hn. discriminate.
  - intros i H. congruence.
  - intros p i H. congruence.
Qed.

Lemma SInv_step a s : SInv s -> xaction_ok a -> SInv (astep a s).
Proof.
  intros HI Hok. destruct (l_dead (snd s)) eqn:Hd; [rewrite astep_dead; assumption|].
  destruct s as [f l]. destruct HI as [Hb Hn Hs Hf Ht]. simpl in *.
  unfold astep, act; simpl. rewrite Hd.
  destruct a as [t|b|t p|p m|t| |p| |p|b]; simpl in Hok; try contradiction.
  - (* create *)
    unfold create_tmp. destruct (create_excl t tmp_mode f) as [[f' i]|] eqn:E.
    + apply create_excl_spec in E as (Hnone & Hi & Hnext & Hlt & Hlo & Hig & Hio).
      constructor; simpl.
      * intros p j H. destruct (path_eq_dec p t) as [->|Hne].
        -- rewrite Hlt in H. inversion H; subst. lia.
        -- rewrite Hlo in H by assumption. apply Hb in H. lia.
      * intros j Hle. rewrite (bytes_of_iget f' f).
        -- apply Hn. lia.
        -- apply Hio. lia.
      * intros p j H. destruct (path_eq_dec p t) as [->|Hne].
        -- rewrite Hlt in H. inversion H; subst j. unfold bytes_of. rewrite Hig. discriminate.
        -- rewrite Hlo in H by assumption. rewrite (bytes_of_iget f' f).
           ++ eapply Hs; eassumption.
           ++ apply Hio. apply Hb in H. lia.
      * intros j H. inversion H; subst. lia.
      * intros p j H Hl. inversion H; subst j. destruct (path_eq_dec p t) as [->|Hne]; [assumption|].
        rewrite Hlo in Hl by assumption. apply Hb in Hl. lia.
    + constructor; simpl; auto; intros; discriminate.
  - (* write *)
    destruct (l_fd l) as [i|] eqn:Efd.
    + constructor; simpl.
      * intros p j H. rewrite write_chunk_lookup in H. rewrite write_chunk_next. eauto.
      * intros j H. rewrite write_chunk_next in H. apply write_bytes_none. auto.
      * intros p j H. rewrite write_chunk_lookup in H. apply write_bytes_some. eauto.
      * intros j H. rewrite write_chunk_next. rewrite Efd in H. auto.
      * intros p j H Hl. rewrite write_chunk_lookup in Hl. rewrite Efd in H. eauto.
    + constructor; simpl; auto; intros; congruence.
  - (* rename *)
    destruct (rename t p f) as [f'|] eqn:E.
    + apply rename_spec in E as (i & Hlt & Hlp & Hgone & Hoth & Hino & Hnx).
      assert (Hby : forall j, bytes_of f' j = bytes_of f j).
      { intros j. unfold bytes_of, iget. rewrite Hino. reflexivity. }
      assert (Hlk : forall q j, lookup q f' = Some j -> exists q', lookup q' f = Some j).
      { intros q j H. destruct (path_eq_dec q p) as [->|Hqp].
        - rewrite Hlp in H. inversion H; subst. eauto.
        - destruct (path_eq_dec q t) as [->|Hqt].
          + rewrite Hgone in H by congruence. discriminate.
          + rewrite Hoth in H by assumption. eauto. }
      constructor; simpl.
      * intros q j H. apply Hlk in H as [q' H]. rewrite Hnx. eauto.
      * intros j H. rewrite Hnx in H. rewrite Hby. auto.
      * intros q j H. apply Hlk in H as [q' H]. rewrite Hby. eauto.
      * intros j H. discriminate.
      * intros q j H. discriminate.
    + constructor; simpl; auto; intros; discriminate.
  - (* chmod *)
    constructor; simpl.
    + intros q j H. rewrite chmod_lookup in H. rewrite chmod_next. eauto.
    + intros j H. rewrite chmod_next in H. rewrite chmod_bytes_of. auto.
    + intros q j H. rewrite chmod_lookup in H. rewrite chmod_bytes_of. eauto.
    + intros j H. rewrite chmod_next. auto.
    + intros q j H Hl. rewrite chmod_lookup in Hl. eauto.
  - (* unlink *)
    assert (Hlk : forall q j, lookup q (unlink t f) = Some j -> lookup q f = Some j).
    { intros q j H. destruct (path_eq_dec q t) as [->|Hne].
      - rewrite unlink_lookup_same in H. discriminate.
      - rewrite unlink_lookup_other in H; assumption. }
    constructor; simpl.
    + intros q j H. apply Hlk in H. eauto.
    + intros j H. apply Hn. assumption.
    + intros q j H. apply Hlk in H. apply (Hs _ _ H).
    + intros j H. discriminate.
    + intros q j H. discriminate.
  - (* fail *)
    constructor; simpl; auto; intros; discriminate.
  - constructor; simpl; auto; intros; discriminate.
  - constructor; simpl; auto.
Qed.

Lemma SInv_seq_run acts s : SInv s -> Forall xaction_ok acts -> SInv (seq_run acts s).
Proof.
  revert s. induction acts as [|a acts IH]; intros s HI HF; [assumption|].
  inversion HF; subst. rewrite seq_run_cons. apply IH; [apply SInv_step|]; assumption.
Qed.

(* ---------- 2. frozen inodes ---------- *)

Definition Frozen (s : st) (i : ino) : Prop := i < next_ino (fst s) /\ l_fd (snd s) <> Some i.

Lemma published_frozen s p i :
  SInv s -> is_tmp p = false -> lookup p (fst s) = Some i -> Frozen s i.
Proof.
  intros HI Hp Hl. split.
  - eapply si_below; eassumption.
  - intros Hfd. pose proof (si_tmp s HI p i Hfd Hl). congruence.
Qed.

Lemma Frozen_step a s i :
  SInv s -> xaction_ok a -> Frozen s i ->
  Frozen (astep a s) i /\ bytes_of (fst (astep a s)) i = bytes_of (fst s) i.
Proof.
  intros HI Hok [Hlt Hfd]. destruct (l_dead (snd s)) eqn:Hd.
  { rewrite astep_dead by assumption. split; [split|]; auto. }
  destruct s as [f l]. simpl in *. unfold astep, act; simpl. rewrite Hd.
  destruct a as [t|b|t p|p m|t| |p| |p|b]; simpl in Hok; try contradiction.
  - unfold create_tmp. destruct (create_excl t tmp_mode f) as [[f' j]|] eqn:E.
    + apply create_excl_spec in E as (Hnone & Hi & Hnext & Hlt' & Hlo & Hig & Hio). simpl.
      split; [split|].
      * simpl. lia.
      * simpl. intros H. inversion H. lia.
      * apply bytes_of_iget. apply Hio. lia.
    + simpl. split; [split|]; auto. simpl. discriminate.
  - destruct (l_fd l) as [j|] eqn:Efd; simpl.
    + split; [split|].
      * simpl. rewrite write_chunk_next. assumption.
      * simpl. congruence.
      * apply write_bytes_other. congruence.
    + split; [split|]; simpl; auto; congruence.
  - destruct (rename t p f) as [f'|] eqn:E; simpl.
    + apply rename_spec in E as (j & _ & _ & _ & _ & Hino & Hnx).
      split; [split|]; simpl.
      * rewrite Hnx. assumption.
      * discriminate.
      * unfold bytes_of, iget. rewrite Hino. reflexivity.
    + split; [split|]; simpl; auto. discriminate.
  - simpl. split; [split|]; simpl.
    + rewrite chmod_next. assumption.
    + assumption.
    + apply chmod_bytes_of.
  - simpl. split; [split|]; simpl; auto. discriminate.
  - simpl. split; [split|]; simpl; auto. discriminate.
  - simpl. split; [split|]; simpl; auto. discriminate.
  - simpl. split; [split|]; simpl; auto.
Qed.

(* ---------- 2b. the branch for device nodes changes nothing in the file system ---------- *)

Definition neutral (a : action) : Prop :=
  match a with AOpenDev _ | AWriteDev _ | AFail => True | _ => False end.

Lemma neutral_run acts s : Forall neutral acts -> fst (seq_run acts s) = fst s.
Proof.
  intros HF. revert s. induction HF as [|a acts Ha HF IH]; intros s; [reflexivity|].
  rewrite seq_run_cons, IH. unfold astep, act. destruct (l_dead (snd s)); [reflexivity|].
  destruct a; simpl in Ha; try contradiction; reflexivity.
Qed.

Lemma special_neutral o : Forall neutral (prog_special o).
Proof.
  unfold prog_special.
  assert (Hw : forall chunks tail, Forall neutral tail -> Forall neutral (map AWriteDev chunks ++ tail)).
  { intros chunks tail Ht. induction chunks; simpl; [assumption|]. constructor; simpl; auto. }
  destruct (o_fault o); try (repeat constructor; fail);
    (constructor; [exact I|]; apply Hw; destruct (o_dec o); try destruct (o_optional o); repeat constructor).
Qed.

Lemma neutral_xok acts : Forall neutral acts -> Forall xaction_ok acts.
Proof.
  intros HF. induction HF as [|a acts Ha HF IH]; constructor; [|assumption].
  destruct a; simpl in Ha; try contradiction; exact I.
Qed.

Lemma neutral_no_rename acts t p : Forall neutral acts -> ~ In (ARename t p) acts.
Proof.
  intros HF Hin. rewrite Forall_forall in HF. apply HF in Hin. exact Hin.
Qed.

(* ---------- 3. whole contents ---------- *)

Section Whole.
  Variable f0 : fs.
  Variable objs : list obj.

  (* [c] is the complete previous content of [p], or the complete content of a member restored to [p] *)
  Definition WholeP (p : path) (c : bytes) : Prop :=
    content f0 p = Some c \/
    exists o, In o objs /\ o_path o = p /\ o_ok o = true /\ c = o_new o.

  Definition Whole (s : st) : Prop :=
    forall p i, is_tmp p = false -> lookup p (fst s) = Some i ->
      exists c, bytes_of (fst s) i = Some c /\ WholeP p c.

  (* non-temp names that existed at the start still exist *)
  Definition Present (s : st) : Prop :=
    forall p, is_tmp p = false -> lookup p f0 <> None -> lookup p (fst s) <> None.

  Definition pre (a : action) (s : st) : Prop :=
    xaction_ok a /\
    match a with
    | ARename t p =>
        l_dead (snd s) = true \/
        forall i, lookup t (fst s) = Some i -> exists c, bytes_of (fst s) i = Some c /\ WholeP p c
    | _ => True
    end.

  Fixpoint Safe (acts : list action) (s : st) : Prop :=
    match acts with
    | [] => True
    | a :: r => pre a s /\ Safe r (astep a s)
    end.

  Lemma Safe_app a1 a2 s : Safe (a1 ++ a2) s <-> Safe a1 s /\ Safe a2 (seq_run a1 s).
  Proof.
    revert s. induction a1 as [|a a1 IH]; intros s; cbn [Safe app].
    - unfold seq_run; simpl. tauto.
    - rewrite IH. rewrite seq_run_cons. tauto.
  Qed.

  Lemma Safe_xok acts s : Safe acts s -> Forall xaction_ok acts.
  Proof.
    revert s. induction acts as [|a acts IH]; intros s; simpl; [constructor|].
    intros [[Hx _] H]. constructor; eauto.
  Qed.

  Lemma Safe_dead acts s : l_dead (snd s) = true -> Forall xaction_ok acts -> Safe acts s.
  Proof.
    intros Hd HF. induction HF as [|a acts Ha HF IH]; simpl; [trivial|].
    split.
    - split; [assumption|]. destruct a; auto.
    - rewrite astep_dead by assumption. assumption.
  Qed.

  Lemma Safe_neutral acts s : Forall neutral acts -> Safe acts s.
  Proof.
    intros HF. revert s. induction HF as [|a acts Ha HF IH]; intros s; simpl; [trivial|].
    split; [|apply IH]. destruct a; simpl in Ha; try contradiction; split; simpl; trivial.
  Qed.

  Lemma Whole_step a s : SInv s -> Whole s -> pre a s -> Whole (astep a s).
  Proof.
    intros HI HW [Hok Hpre]. destruct (l_dead (snd s)) eqn:Hd; [rewrite astep_dead; assumption|].
    destruct s as [f l]. destruct HI as [Hb Hn Hs Hf Ht]. unfold Whole in *. simpl in *.
    unfold astep, act; simpl. rewrite Hd.
    destruct a as [t|b|t p|p m|t| |p| |p|b]; simpl in Hok; try contradiction.
    - unfold create_tmp. destruct (create_excl t tmp_mode f) as [[f' j]|] eqn:E; simpl; [|assumption].
      apply create_excl_spec in E as (Hnone & Hi & Hnext & Hlt' & Hlo & Hig & Hio).
      intros q i Hq Hl. assert (q <> t) by congruence.
      rewrite Hlo in Hl by assumption. rewrite (bytes_of_iget f' f).
      + eauto.
      + apply Hio. apply Hb in Hl. lia.
    - destruct (l_fd l) as [j|] eqn:Efd; simpl; [|assumption].
      intros q i Hq Hl. rewrite write_chunk_lookup in Hl.
      rewrite write_bytes_other.
      + eauto.
      + intros ->. pose proof (Ht q j eq_refl Hl). congruence.
    - destruct (rename t p f) as [f'|] eqn:E; simpl; [|assumption].
      apply rename_spec in E as (j & Hlt & Hlp & Hgone & Hoth & Hino & Hnx).
      assert (Hby : forall k, bytes_of f' k = bytes_of f k).
      { intros k. unfold bytes_of, iget. rewrite Hino. reflexivity. }
      intros q i Hq Hl. rewrite Hby. destruct (path_eq_dec q p) as [->|Hqp].
      + rewrite Hlp in Hl. inversion Hl; subst i. destruct Hpre as [Hdead|Hpre]; [congruence|].
        apply Hpre. assumption.
      + destruct (path_eq_dec q t) as [->|Hqt]; [congruence|].
        rewrite Hoth in Hl by assumption. eauto.
    - simpl. intros q i Hq Hl. rewrite chmod_lookup in Hl. rewrite chmod_bytes_of. eauto.
    - simpl. intros q i Hq Hl. assert (q <> t) by congruence.
      rewrite unlink_lookup_other in Hl by assumption. eauto.
    - simpl. assumption.
    - simpl. assumption.
    - simpl. assumption.
  Qed.

  Lemma Present_step a s : xaction_ok a -> Present s -> Present (astep a s).
  Proof.
    intros Hok HP. destruct (l_dead (snd s)) eqn:Hd; [rewrite astep_dead; assumption|].
    destruct s as [f l]. unfold Present in *. simpl in *.
    unfold astep, act; simpl. rewrite Hd.
    destruct a as [t|b|t p|p m|t| |p| |p|b]; simpl in Hok; try contradiction.
    - unfold create_tmp. destruct (create_excl t tmp_mode f) as [[f' j]|] eqn:E; simpl; [|assumption].
      apply create_excl_spec in E as (Hnone & Hi & Hnext & Hlt' & Hlo & Hig & Hio).
      intros q Hq H0. rewrite Hlo by congruence. auto.
    - destruct (l_fd l) as [j|]; simpl; [|assumption].
      intros q Hq H0. rewrite write_chunk_lookup. auto.
    - destruct (rename t p f) as [f'|] eqn:E; simpl; [|assumption].
      apply rename_spec in E as (j & Hlt & Hlp & Hgone & Hoth & Hino & Hnx).
      intros q Hq H0. destruct (path_eq_dec q p) as [->|Hqp].
      + rewrite Hlp. discriminate.
      + rewrite Hoth by congruence. auto.
    - simpl. intros q Hq H0. rewrite chmod_lookup. auto.
    - simpl. intros q Hq H0. rewrite unlink_lookup_other by congruence. auto.
    - simpl. assumption.
    - simpl. assumption.
    - simpl. assumption.
  Qed.

  (* ---------- running one object symbolically ---------- *)

  Lemma writes_run chunks f l i c :
    l_dead l = false -> l_fd l = Some i -> bytes_of f i = Some c ->
    exists f', seq_run (map AWrite chunks) (f, l) = (f', l)
      /\ dir f' = dir f /\ next_ino f' = next_ino f
      /\ bytes_of f' i = Some (c ++ concat chunks).
  Proof.
    intros Hd Hfd. revert f c. induction chunks as [|b chunks IH]; intros f c Hb.
    - exists f. simpl. rewrite app_nil_r. auto.
    - simpl map. rewrite seq_run_cons. unfold astep, act; simpl. rewrite Hd, Hfd.
      destruct (IH (write_chunk i b f) (c ++ b)) as (f' & Hr & Hdir & Hnx & Hby).
      { apply write_bytes_same. assumption. }
      exists f'. split; [assumption|]. rewrite Hdir, Hnx, write_chunk_dir, write_chunk_next.
      split; [reflexivity|]. split; [reflexivity|].
      rewrite Hby. simpl. rewrite <- app_assoc. reflexivity.
  Qed.

  Lemma Safe_writes chunks tail s : Safe (map AWrite chunks ++ tail) s <-> Safe tail (seq_run (map AWrite chunks) s).
  Proof.
    rewrite Safe_app. split; [tauto|]. intros H. split; [|assumption].
    clear H. revert s. induction chunks as [|b chunks IH]; intros s; simpl; [trivial|].
    split; [split; simpl; trivial|]. apply IH.
  Qed.

  Lemma lookup_dir f g p : dir f = dir g -> lookup p f = lookup p g.
  Proof. unfold lookup. intros ->. reflexivity. Qed.

  Lemma prog_obj_xok o : Forall xaction_ok (prog_obj o).
  Proof.
    assert (Hw : forall chunks tail, Forall xaction_ok tail -> Forall xaction_ok (map AWrite chunks ++ tail)).
    { intros chunks tail Ht. induction chunks; simpl; [assumption|]. constructor; simpl; auto. }
    pose proof (is_tmp_o_tmp o) as Ht.
    unfold prog_obj. destruct (o_special o); [apply neutral_xok, special_neutral|].
    destruct (o_fault o); [| repeat constructor | |];
      (constructor; [exact Ht|]; apply Hw;
       destruct (o_dec o) as [[m|]| |]; [| | destruct (o_optional o) |]; repeat constructor; simpl; auto).
  Qed.

  Lemma prog_xok l : Forall xaction_ok (prog l).
  Proof.
    unfold prog. induction l as [|o l IH]; simpl; [constructor|].
    apply Forall_app. split; [apply prog_obj_xok | assumption].
  Qed.

  Lemma obj_safe o s : In o objs -> SInv s -> Safe (prog_obj o) s.
  Proof.
    intros Hin HI.
    destruct (l_dead (snd s)) eqn:Hd; [apply Safe_dead; [assumption | apply prog_obj_xok]|].
    pose proof (prog_obj_xok o) as Hx.
    pose proof (is_tmp_o_tmp o) as Ht.
    unfold prog_obj in *.
    destruct (o_special o) eqn:Esp; [apply Safe_neutral, special_neutral|].
    destruct (o_fault o) eqn:Efl;
      try (simpl; split; [split; simpl; trivial | trivial]; fail).
    all: (simpl Safe; split; [split; [exact Ht | trivial]|]).
    all: inversion Hx as [|a0 l0 _ Hx']; subst; clear Hx.
    all: destruct s as [f l]; simpl in Hd.
    all: unfold astep at 1; unfold act; simpl fst; simpl snd; rewrite Hd.
    all: unfold create_tmp; destruct (create_excl (o_tmp o) tmp_mode f) as [[f1 i]|] eqn:E;
      [| apply Safe_dead; [reflexivity | exact Hx'] ].
    all: apply create_excl_spec in E as (Hnone & Hi & Hnext & Hlt & Hlo & Hig & Hio).
    all: apply Safe_writes.
    all: destruct (writes_run (o_chunks o) f1 (mkLocal (Some i) (o_tmp o) (l_log l) false) i [])
           as (f2 & Hrun & Hdir & Hnx & Hby);
      [reflexivity | reflexivity | unfold bytes_of; rewrite Hig; reflexivity |].
    all: rewrite Hrun; simpl in Hby.
    all: destruct (o_dec o) as [[m|]| |] eqn:Edec; [| | destruct (o_optional o) |].
    all: simpl Safe; repeat split; simpl; trivial.
    all: try (right; intros j Hj; rewrite (lookup_dir f2 f1) in Hj by assumption;
              rewrite Hlt in Hj; inversion Hj; subst j;
              exists (concat (o_chunks o)); split; [assumption|];
              right; exists o; unfold o_ok, o_new; rewrite Edec; auto).
  Qed.

  Lemma prog_safe l s : incl l objs -> SInv s -> Safe (prog l) s.
  Proof.
    revert s. unfold prog. induction l as [|o l IH]; intros s Hincl HI; simpl; [trivial|].
    apply Safe_app. split.
    - apply obj_safe; [apply Hincl; left; reflexivity | assumption].
    - apply IH.
      + intros x Hx. apply Hincl. right. assumption.
      + apply SInv_seq_run; [assumption | apply prog_obj_xok].
  Qed.

  (* temp names after a whole object are what they were before it *)
  Lemma obj_tmps o s :
    is_tmp (o_path o) = false ->
    forall t, is_tmp t = true -> lookup t (fst (seq_run (prog_obj o) s)) = lookup t (fst s).
  Proof.
    intros Hp t Ht.
    destruct (l_dead (snd s)) eqn:Hd; [rewrite seq_run_dead by assumption; reflexivity|].
    pose proof (is_tmp_o_tmp o) as Hot.
    unfold prog_obj.
    destruct (o_special o) eqn:Esp; [rewrite neutral_run by apply special_neutral; reflexivity|].
    destruct (o_fault o) eqn:Efl;
      try (rewrite seq_run_cons; unfold astep, act; rewrite Hd; reflexivity).
    all: rewrite seq_run_cons; destruct s as [f l]; simpl in Hd.
    all: unfold astep at 1; unfold act; simpl fst; simpl snd; rewrite Hd.
    all: unfold create_tmp; destruct (create_excl (o_tmp o) tmp_mode f) as [[f1 i]|] eqn:E;
      [| rewrite seq_run_dead by reflexivity; reflexivity ].
    all: apply create_excl_spec in E as (Hnone & Hi & Hnext & Hlt & Hlo & Hig & Hio).
    all: rewrite seq_run_app.
    all: destruct (writes_run (o_chunks o) f1 (mkLocal (Some i) (o_tmp o) (l_log l) false) i [])
           as (f2 & Hrun & Hdir & Hnx & Hby);
      [reflexivity | reflexivity | unfold bytes_of; rewrite Hig; reflexivity |].
    all: rewrite Hrun.
    all: assert (Hl2 : forall q, lookup q f2 = lookup q f1) by (intros q; apply lookup_dir; assumption).
    all: assert (Hren : exists f3, rename (o_tmp o) (o_path o) f2 = Some f3
                  /\ forall q, is_tmp q = true -> lookup q f3 = lookup q f).
    1,3,5: (unfold rename; rewrite Hl2, Hlt; eexists; split; [reflexivity|];
         intros q Hq; unfold lookup; cbn [dir];
         assert (q <> o_path o) by congruence;
         rewrite dget_set_other by congruence;
         destruct (path_eq_dec q (o_tmp o)) as [->|Hne];
         [ rewrite dget_del_same; symmetry; exact Hnone
         | rewrite dget_del_other by congruence; fold (lookup q f2); rewrite Hl2; apply Hlo; assumption ]).
    all: assert (Hunl : forall q, is_tmp q = true -> lookup q (unlink (o_tmp o) f2) = lookup q f).
    1,3,5: (intros q Hq; destruct (path_eq_dec q (o_tmp o)) as [->|Hne];
         [ rewrite unlink_lookup_same; symmetry; exact Hnone
         | rewrite unlink_lookup_other by assumption; rewrite Hl2; apply Hlo; assumption ]).
    all: destruct Hren as (f3 & Hren & Hl3).
    all: destruct (o_dec o) as [[m|]| |] eqn:Edec; [| | destruct (o_optional o) |].
    all: cbn [seq_run fold_left astep act fst snd l_dead l_fd close kill].
    all: try rewrite Hren.
    all: cbn [seq_run fold_left astep act fst snd l_dead l_fd close kill].
    all: try rewrite chmod_lookup; auto.
  Qed.

  Lemma prog_tmps l s :
    forallb (fun o => negb (is_tmp (o_path o))) l = true ->
    forall t, is_tmp t = true -> lookup t (fst (seq_run (prog l) s)) = lookup t (fst s).
  Proof.
    revert s. unfold prog. induction l as [|o l IH]; intros s Hok t Ht; simpl; [reflexivity|].
    simpl in Hok. apply andb_true_iff in Hok as [Ho Hl]. apply negb_true_iff in Ho.
    rewrite seq_run_app. rewrite IH by assumption. apply obj_tmps; assumption.
  Qed.
End Whole.

(* ---------- 3b. a successful run installs every member ---------- *)

(* the directory entry of a non-temp path is only ever changed by a rename onto it *)
Lemma lookup_step a s q :
  xaction_ok a -> is_tmp q = false -> (forall t, a <> ARename t q) ->
  lookup q (fst (astep a s)) = lookup q (fst s).
Proof.
  intros Hok Hq Hnr. destruct (l_dead (snd s)) eqn:Hd; [rewrite astep_dead by assumption; reflexivity|].
  destruct s as [f l]. simpl in *. unfold astep, act; simpl. rewrite Hd.
  destruct a as [t|b|t p|p m|t| |p| |p|b]; simpl in Hok; try contradiction; try reflexivity.
  - unfold create_tmp. destruct (create_excl t tmp_mode f) as [[f' j]|] eqn:E; simpl; [|reflexivity].
    apply create_excl_spec in E as (_ & _ & _ & _ & Hlo & _ & _). apply Hlo. congruence.
  - destruct (l_fd l) as [j|]; simpl; [|reflexivity]. apply write_chunk_lookup.
  - destruct (rename t p f) as [f'|] eqn:E; simpl; [|reflexivity].
    apply rename_spec in E as (j & _ & _ & _ & Hoth & _ & _).
    apply Hoth; [congruence|]. intros ->. apply (Hnr t). reflexivity.
  - simpl. apply chmod_lookup.
  - simpl. apply unlink_lookup_other. congruence.
Qed.

Lemma content_step a s q :
  SInv s -> xaction_ok a -> is_tmp q = false -> (forall t, a <> ARename t q) ->
  content (fst (astep a s)) q = content (fst s) q.
Proof.
  intros HI Hok Hq Hnr. destruct (l_dead (snd s)) eqn:Hd; [rewrite astep_dead by assumption; reflexivity|].
  destruct s as [f l]. destruct HI as [Hb Hn Hs Hf Ht]. simpl in *.
  unfold astep, act; simpl. rewrite Hd. unfold content.
  destruct a as [t|b|t p|p m|t| |p| |p|b]; simpl in Hok; try contradiction.
  - unfold create_tmp. destruct (create_excl t tmp_mode f) as [[f' j]|] eqn:E; simpl; [|reflexivity].
    apply create_excl_spec in E as (Hnone & Hi & Hnext & Hlt' & Hlo & Hig & Hio).
    rewrite Hlo by congruence. destruct (lookup q f) as [i|] eqn:El; [|reflexivity].
    apply bytes_of_iget. apply Hio. apply Hb in El. lia.
  - destruct (l_fd l) as [j|] eqn:Efd; simpl; [|reflexivity].
    rewrite write_chunk_lookup. destruct (lookup q f) as [i|] eqn:El; [|reflexivity].
    apply write_bytes_other. intros ->. pose proof (Ht q j eq_refl El). congruence.
  - destruct (rename t p f) as [f'|] eqn:E; simpl; [|reflexivity].
    apply rename_spec in E as (j & Hlt & Hlp & Hgone & Hoth & Hino & Hnx).
    assert (q <> p) by (intros ->; apply (Hnr t); reflexivity).
    assert (q <> t) by congruence.
    rewrite Hoth by assumption. destruct (lookup q f) as [i|]; [|reflexivity].
    unfold bytes_of, iget. rewrite Hino. reflexivity.
  - simpl. rewrite chmod_lookup. destruct (lookup q f) as [i|]; [|reflexivity]. apply chmod_bytes_of.
  - simpl. rewrite unlink_lookup_other by congruence. reflexivity.
  - reflexivity.
  - reflexivity.
  - reflexivity.
Qed.

Lemma content_seq acts s q :
  SInv s -> Forall xaction_ok acts -> is_tmp q = false -> (forall t, ~ In (ARename t q) acts) ->
  content (fst (seq_run acts s)) q = content (fst s) q.
Proof.
  revert s. induction acts as [|a acts IH]; intros s HI HF Hq Hnr; [reflexivity|].
  inversion HF; subst. rewrite seq_run_cons. rewrite IH.
  - apply content_step; try assumption. intros t ->. apply (Hnr t). left; reflexivity.
  - apply SInv_step; assumption.
  - assumption.
  - assumption.
  - intros t Hin. apply (Hnr t). right; assumption.
Qed.

Lemma in_writes_rename t q chunks tail : In (ARename t q) (map AWrite chunks ++ tail) -> In (ARename t q) tail.
Proof.
  intros H. apply in_app_or in H as [H|H]; [|assumption].
  apply in_map_iff in H as (b & Hb & _). discriminate.
Qed.

Lemma prog_obj_renames o t q : In (ARename t q) (prog_obj o) -> q = o_path o /\ o_special o = false.
Proof.
  unfold prog_obj. destruct (o_special o).
  { intros H. exfalso. exact (neutral_no_rename _ t q (special_neutral o) H). }
  intros H. split; [|reflexivity]. revert H.
  destruct (o_fault o); (intros [H|H]; [discriminate|]); try (destruct H; fail);
    apply in_writes_rename in H;
    destruct (o_dec o) as [[m|]| |]; try destruct (o_optional o); simpl in H;
    repeat (destruct H as [H|H]; [inversion H; subst; try reflexivity; try discriminate|]); try destruct H.
Qed.

(* a rename only ever targets the path of an output that is NOT a device node *)
Lemma prog_renames_regular l t q :
  In (ARename t q) (prog l) -> exists o, In o l /\ o_special o = false /\ o_path o = q.
Proof.
  unfold prog. induction l as [|o l IH]; simpl; [intros []|].
  intros H. apply in_app_or in H as [H|H].
  - apply prog_obj_renames in H as [Hq Hs]. exists o. auto.
  - destruct (IH H) as (o' & Ho & Hs & Hq). exists o'. auto.
Qed.

Lemma prog_renames l t q : In (ARename t q) (prog l) -> In q (map o_path l).
Proof.
  intros H. apply prog_renames_regular in H as (o & Ho & _ & <-). apply in_map. assumption.
Qed.

Lemma obj_installs o s :
  let s' := seq_run (prog_obj o) s in
  o_special o = false ->
  l_dead (snd s') = false -> o_ok o = true -> content (fst s') (o_path o) = Some (o_new o).
Proof.
  intros s' Esp Halive Hok.
  destruct (l_dead (snd s)) eqn:Hd.
  { unfold s' in Halive. rewrite seq_run_dead in Halive by assumption. congruence. }
  unfold s' in *. clear s'. unfold o_ok in Hok. unfold prog_obj in *. rewrite Esp in *.
  destruct (o_fault o) eqn:Efl;
    try (rewrite seq_run_cons in Halive; unfold astep, act in Halive; rewrite Hd in Halive; simpl in Halive; discriminate).
  all: destruct (o_dec o) as [mode| |] eqn:Edec; [|discriminate|discriminate].
  all: rewrite seq_run_cons in *; destruct s as [f l]; simpl in Hd.
  all: unfold astep at 1 in Halive; unfold astep at 1; unfold act in *; simpl fst in *; simpl snd in *; rewrite Hd in *.
  all: unfold create_tmp in *; destruct (create_excl (o_tmp o) tmp_mode f) as [[f1 i]|] eqn:E;
    [| rewrite seq_run_dead in Halive by reflexivity; simpl in Halive; discriminate ].
  all: apply create_excl_spec in E as (Hnone & Hi & Hnext & Hlt & Hlo & Hig & Hio).
  all: rewrite seq_run_app in *.
  all: destruct (writes_run (o_chunks o) f1 (mkLocal (Some i) (o_tmp o) (l_log l) false) i [])
         as (f2 & Hrun & Hdir & Hnx & Hby);
    [reflexivity | reflexivity | unfold bytes_of; rewrite Hig; reflexivity |].
  all: rewrite Hrun in *; simpl in Hby.
  all: assert (Hl2 : lookup (o_tmp o) f2 = Some i) by (unfold lookup; rewrite Hdir; exact Hlt).
  all: assert (Hren : rename (o_tmp o) (o_path o) f2 =
                 Some (mkFs (aset path_eqb (o_path o) i (adel path_eqb (o_tmp o) (dir f2))) (inodes f2) (next_ino f2)))
         by (unfold rename; rewrite Hl2; reflexivity).
  all: set (f3 := mkFs (aset path_eqb (o_path o) i (adel path_eqb (o_tmp o) (dir f2))) (inodes f2) (next_ino f2)) in *.
  all: assert (Hl3 : lookup (o_path o) f3 = Some i) by (unfold lookup, f3; cbn [dir]; apply dget_set_same).
  all: assert (Hb3 : bytes_of f3 i = Some (o_new o)) by exact Hby.
  all: destruct mode as [m|].
  all: cbn [seq_run fold_left astep act fst snd l_dead l_fd close kill] in *.
  all: try rewrite Hren in *.
  all: cbn [seq_run fold_left astep act fst snd l_dead l_fd close kill] in *.
  all: try discriminate.
  all: unfold content; try rewrite chmod_lookup; rewrite Hl3; try rewrite chmod_bytes_of; exact Hb3.
Qed.

Lemma prog_installs l s :
  SInv s -> NoDup (map o_path l) -> forallb (fun o => negb (is_tmp (o_path o))) l = true ->
  l_dead (snd (seq_run (prog l) s)) = false ->
  forall o, In o l -> o_special o = false -> o_ok o = true ->
    content (fst (seq_run (prog l) s)) (o_path o) = Some (o_new o).
Proof.
  revert s. unfold prog. induction l as [|o1 l IH]; intros s HI Hnd Hnt Halive o Hin Hsp Hok; [destruct Hin|].
  simpl in *. inversion Hnd as [|x xs Hnotin Hnd']; subst.
  apply andb_true_iff in Hnt as [Hnt1 Hnt]. apply negb_true_iff in Hnt1.
  rewrite seq_run_app in *.
  assert (HI1 : SInv (seq_run (prog_obj o1) s)) by (apply SInv_seq_run; [assumption | apply prog_obj_xok]).
  assert (Halive1 : l_dead (snd (seq_run (prog_obj o1) s)) = false).
  { destruct (l_dead (snd (seq_run (prog_obj o1) s))) eqn:E; [|reflexivity].
    rewrite seq_run_dead in Halive by assumption. congruence. }
  destruct Hin as [<-|Hin].
  - fold (prog l). rewrite content_seq.
    + apply obj_installs; assumption.
    + assumption.
    + apply prog_xok.
    + assumption.
    + intros t Hr. apply prog_renames in Hr. contradiction.
  - apply IH; assumption.
Qed.

(* ---------- 4. the whole system under every schedule ---------- *)

Lemma Forall2_imp {A B} (P Q : A -> B -> Prop) l1 l2 :
  (forall a b, P a b -> Q a b) -> Forall2 P l1 l2 -> Forall2 Q l1 l2.
Proof. intros H HF. induction HF; constructor; auto. Qed.

Section System.
  Variable f0 : fs.
  Variable objs : list obj.
  Hypothesis Hfs : fs_okb f0 = true.
  Hypothesis Hout : outputs_okb objs = true.

  Definition s0 : st := (f0, init_local).

  Notation thr := (@thread local action).

  (* what holds of an observer thread [r] that started as [r0], next to the extraction state [s] *)
  Record RInv (s : st) (r0 r : thr) : Prop := {
    ri_alive : l_dead (fst r) = false;
    ri_acts : forallb reader_action (snd r) = true;
    ri_log : forall p i c, In (p, i, c) (l_log (fst r)) ->
               WholeP f0 objs p c /\ bytes_of (fst s) i = Some c /\ Frozen s i;
    ri_fd : forall i, l_fd (fst r) = Some i ->
               is_tmp (l_path (fst r)) = false /\
               exists c, bytes_of (fst s) i = Some c /\ WholeP f0 objs (l_path (fst r)) c /\ Frozen s i;
    ri_hold : holderb f0 r0 = true ->
               l_fd (fst r) = l_fd (fst r0) /\ l_path (fst r) = l_path (fst r0) /\
               forallb read_only_action (snd r) = true /\
               forall p i c, In (p, i, c) (l_log (fst r)) -> p = l_path (fst r0) /\ l_fd (fst r0) = Some i;
  }.

  Record Core (s : st) (rest : list action) : Prop := {
    co_sinv : SInv s;
    co_safe : Safe f0 objs rest s;
    co_whole : Whole f0 objs s;
    co_present : Present f0 s;
    co_keep : forall i, Frozen s0 i -> Frozen s i /\ bytes_of (fst s) i = bytes_of f0 i;
    co_tmps : forall t, is_tmp t = true -> lookup t (fst (seq_run rest s)) = lookup t f0;
    co_det : seq_run rest s = seq_run (prog objs) s0;
    co_suffix : exists done, prog objs = done ++ rest;
    co_entries : forall q, is_tmp q = false -> (forall t, ~ In (ARename t q) (prog objs)) ->
                   lookup q (fst s) = lookup q f0;
  }.

  Definition GInv (readers0 : list thr) (x : fs * list thr) : Prop :=
    exists l rest rs, snd x = (l, rest) :: rs /\ Core (fst x, l) rest /\ Forall2 (RInv (fst x, l)) readers0 rs.

  Lemma Whole_s0 : Whole f0 objs s0.
  Proof.
    pose proof (fs_ok_SInv f0 init_local Hfs eq_refl) as HI.
    intros p i Hp Hl. simpl in *.
    destruct (bytes_of f0 i) as [c|] eqn:E.
    - exists c. split; [reflexivity|]. left. unfold content. rewrite Hl. assumption.
    - exfalso. exact (si_some _ HI p i Hl E).
  Qed.

  Lemma Core_init : Core s0 (prog objs).
  Proof.
    pose proof (fs_ok_SInv f0 init_local Hfs eq_refl) as HI.
    constructor.
    - exact HI.
    - apply prog_safe; [apply incl_refl | exact HI].
    - exact Whole_s0.
    - intros p _ H. exact H.
    - intros i H. split; [exact H | reflexivity].
    - intros t Ht. apply (prog_tmps objs s0 Hout t Ht).
    - reflexivity.
    - exists []. reflexivity.
    - intros q _ _. reflexivity.
  Qed.

  Lemma Core_step a rest s : Core s (a :: rest) -> Core (astep a s) rest.
  Proof.
    intros [HI HS HW HP HK HT HD [done Hsuf] HE]. destruct HS as [Hpre HS]. pose proof Hpre as [Hx _].
    constructor.
    - apply SInv_step; assumption.
    - exact HS.
    - apply Whole_step; assumption.
    - apply Present_step; assumption.
    - intros i Hi. destruct (HK i Hi) as [Hf Hb].
      destruct (Frozen_step a s i HI Hx Hf) as [Hf' Hb']. split; [assumption | congruence].
    - intros t Ht. rewrite <- seq_run_cons. apply HT. assumption.
    - rewrite <- seq_run_cons. exact HD.
    - exists (done ++ [a]). rewrite <- app_assoc. exact Hsuf.
    - intros q Hq Hnr. rewrite lookup_step; [apply HE; assumption | assumption | assumption |].
      intros t ->. apply (Hnr t). rewrite Hsuf. apply in_or_app. right. left. reflexivity.
  Qed.

  Lemma RInv_ext_step a s r0 r : SInv s -> xaction_ok a -> RInv s r0 r -> RInv (astep a s) r0 r.
  Proof.
    intros HI Hx [Ha Hacts Hlog Hfd Hh]. constructor; try assumption.
    - intros p i c Hin. destruct (Hlog p i c Hin) as (Hw & Hb & Hf).
      destruct (Frozen_step a s i HI Hx Hf) as [Hf' Hb']. split; [assumption|]. split; [congruence | assumption].
    - intros i Hi. destruct (Hfd i Hi) as (Hp & c & Hb & Hw & Hf).
      destruct (Frozen_step a s i HI Hx Hf) as [Hf' Hb']. split; [assumption|].
      exists c. split; [congruence|]. split; assumption.
  Qed.

  Lemma RInv_self_step s r0 r :
    SInv s -> Whole f0 objs s -> RInv s r0 r ->
    fst (step_thread act (fst s) r) = fst s /\ RInv s r0 (snd (step_thread act (fst s) r)).
  Proof.
    intros HI HW HR. destruct r as [lr [|a acts]]; [split; [reflexivity | exact HR]|].
    destruct HR as [Ha Hacts Hlog Hfd Hh]. simpl in Ha, Hacts, Hlog, Hfd, Hh.
    apply andb_true_iff in Hacts as [Hact Hacts].
    unfold step_thread, act. rewrite Ha.
    destruct a as [t|b|t p|p m|t| |p| |p|b]; simpl in Hact; try discriminate.
    - (* open *)
      simpl. split; [reflexivity|]. apply negb_true_iff in Hact.
      constructor; simpl; try assumption; try reflexivity.
      + intros i Hi. split; [assumption|].
        destruct (HW p i Hact Hi) as (c & Hb & Hw). exists c. split; [assumption|]. split; [assumption|].
        eapply published_frozen; eassumption.
      + intros Hhold. destruct (Hh Hhold) as (_ & _ & Hro & _). simpl in Hro. discriminate.
    - (* read *)
      destruct (l_fd lr) as [i|] eqn:Efd.
      + destruct (Hfd i eq_refl) as (Hp & c & Hb & Hw & Hf). rewrite Hb.
        simpl. split; [reflexivity|]. constructor; simpl; try assumption; try reflexivity.
        * intros p j c' Hin. apply in_app_or in Hin as [Hin|Hin]; [eauto|].
          destruct Hin as [Hin|[]]. inversion Hin; subst. auto.
        * intros Hhold. destruct (Hh Hhold) as (Hfd0 & Hp0 & Hro & Hl0). simpl in Hro.
          split; [assumption|]. split; [assumption|]. split; [assumption|].
          intros p j c' Hin. apply in_app_or in Hin as [Hin|Hin]; [eauto|].
          destruct Hin as [Hin|[]]. inversion Hin; subst. split; [assumption | congruence].
      + simpl. split; [reflexivity|]. constructor; simpl; try assumption; try reflexivity.
        * intros i Hi. congruence.
        * intros Hhold. destruct (Hh Hhold) as (Hfd0 & Hp0 & Hro & Hl0). simpl in Hro.
          rewrite Efd. auto.
  Qed.

  Lemma readers_step s n rs0 rs :
    SInv s -> Whole f0 objs s -> Forall2 (RInv s) rs0 rs ->
    fst (step_nth act n (fst s) rs) = fst s /\ Forall2 (RInv s) rs0 (snd (step_nth act n (fst s) rs)).
  Proof.
    intros HI HW HF. revert n. induction HF as [|r0 r rs0 rs HR HF IH]; intros n.
    - destruct n; simpl; (split; [reflexivity | constructor]).
    - destruct n as [|n]; simpl.
      + destruct (RInv_self_step s r0 r HI HW HR) as [H1 H2].
        destruct (step_thread act (fst s) r) as [f' r']. simpl in *. split; [assumption|].
        constructor; assumption.
      + destruct (IH n) as [H1 H2].
        destruct (step_nth act n (fst s) rs) as [f' rs']. simpl in *. split; [assumption|].
        constructor; assumption.
  Qed.

  Lemma GInv_step readers0 tid x : GInv readers0 x -> GInv readers0 (step_nth act tid (fst x) (snd x)).
  Proof.
    intros (l & rest & rs & Hsnd & HC & HF). destruct x as [f ts]. simpl in *. subst ts.
    destruct tid as [|n]; simpl.
    - destruct rest as [|a rest]; simpl.
      + exists l, [], rs. auto.
      + destruct (act a f l) as [f' l'] eqn:E.
        assert (Hs : astep a (f, l) = (f', l')) by exact E.
        exists l', rest, rs. simpl. split; [reflexivity|]. rewrite <- Hs. split.
        * apply Core_step. assumption.
        * pose proof (co_safe _ _ HC) as [[Hx _] _].
          eapply Forall2_imp; [|exact HF]. intros r0 r HR.
          apply RInv_ext_step; [exact (co_sinv _ _ HC) | assumption | assumption].
    - destruct (readers_step (f, l) n readers0 rs (co_sinv _ _ HC) (co_whole _ _ HC) HF) as [H1 H2].
      simpl in *. destruct (step_nth act n f rs) as [f' rs']. simpl in *. subst f'.
      exists l, rest, rs'. auto.
  Qed.

  Lemma RInv_init r : observerb f0 r = true -> RInv s0 r r.
  Proof.
    pose proof (fs_ok_SInv f0 init_local Hfs eq_refl) as HI.
    unfold observerb. intros H. apply orb_true_iff in H as [H|H].
    - unfold pollerb in H. repeat (apply andb_true_iff in H as [H ?]).
      destruct (l_fd (fst r)) eqn:Efd; [discriminate|].
      destruct (l_log (fst r)) eqn:Elog; [|discriminate].
      constructor.
      + apply negb_true_iff. assumption.
      + assumption.
      + intros p i c Hin. rewrite Elog in Hin. destruct Hin.
      + intros i Hi. congruence.
      + intros Hh. unfold holderb in Hh. rewrite Efd in Hh.
        rewrite andb_false_r in Hh. simpl in Hh. discriminate.
    - pose proof H as Hh. unfold holderb in H. repeat (apply andb_true_iff in H as [H ?]).
      destruct (l_fd (fst r)) as [i|] eqn:Efd; [|discriminate].
      destruct (lookup (l_path (fst r)) f0) as [j|] eqn:El; [|discriminate].
      destruct (l_log (fst r)) eqn:Elog; [|discriminate].
      match goal with Hq : (i =? j) = true |- _ => apply N.eqb_eq in Hq; subst j end.
      apply negb_true_iff in H.
      constructor.
      + apply negb_true_iff. assumption.
      + match goal with Hq : forallb read_only_action _ = true |- _ => rename Hq into Hro end.
        rewrite forallb_forall in *. intros a Ha. specialize (Hro a Ha). destruct a; simpl in *; congruence.
      + intros p k c Hin. rewrite Elog in Hin. destruct Hin.
      + intros k Hk. rewrite Efd in Hk. inversion Hk; subst k. split; [assumption|].
        destruct (Whole_s0 _ _ H El) as (c & Hb & Hw). exists c. split; [assumption|]. split; [assumption|].
        eapply published_frozen; eassumption.
      + intros _. split; [reflexivity|]. split; [reflexivity|]. split; [assumption|].
        intros p k c Hin. rewrite Elog in Hin. destruct Hin.
  Qed.

  Lemma GInv_init readers : forallb (observerb f0) readers = true -> GInv readers (sys f0 objs readers).
  Proof.
    intros H. exists init_local, (prog objs), readers. simpl. split; [reflexivity|]. split; [apply Core_init|].
    rewrite forallb_forall in H. induction readers as [|r rs IH]; constructor.
    - apply RInv_init. apply H. left; reflexivity.
    - apply IH. intros x Hx. apply H. right; assumption.
  Qed.

  Lemma GInv_run readers sched :
    forallb (observerb f0) readers = true -> GInv readers (run sched f0 objs readers).
  Proof.
    intros H. unfold run. apply exec_invariant.
    - intros tid x. apply GInv_step.
    - apply GInv_init. assumption.
  Qed.
End System.

(* ---------- 5. the theorems ---------- *)

Lemma Forall2_in_r {A B} (P : A -> B -> Prop) l1 l2 b :
  Forall2 P l1 l2 -> In b l2 -> exists a, In a l1 /\ P a b.
Proof.
  intros HF. induction HF as [|x y l1 l2 Hxy HF IH]; intros Hin; [destruct Hin|].
  destruct Hin as [<-|Hin].
  - exists x. split; [left; reflexivity | assumption].
  - destruct (IH Hin) as (a & Ha & HP). exists a. split; [right; assumption | assumption].
Qed.

Lemma Forall2_nth {A B} (P : A -> B -> Prop) l1 l2 k a b :
  Forall2 P l1 l2 -> nth_error l1 k = Some a -> nth_error l2 k = Some b -> P a b.
Proof.
  intros HF. revert k. induction HF as [|x y l1 l2 Hxy HF IH]; intros k H1 H2.
  - destruct k; discriminate.
  - destruct k as [|k]; simpl in *.
    + inversion H1; inversion H2; subst. assumption.
    + eapply IH; eassumption.
Qed.

(* what an output path may hold: its complete previous state, or the complete content of a member restored to it *)
Definition FinalWhole (f0 : fs) (objs : list obj) (f : fs) (p : path) : Prop :=
  content f p = content f0 p \/
  exists o, In o objs /\ o_path o = p /\ o_ok o = true /\ content f p = Some (o_new o).

Section Theorems.
  Variable f0 : fs.
  Variable objs : list obj.
  Variable readers : list (@thread local action).
  Variable sched : list nat.
  Hypothesis Hfs : fs_okb f0 = true.
  Hypothesis Hout : outputs_okb objs = true.
  Hypothesis Hobs : forallb (observerb f0) readers = true.

  Let final := run sched f0 objs readers.

  Lemma final_inv :
    exists l rest rs, snd final = (l, rest) :: rs /\ Core f0 objs (fst final, l) rest
                      /\ Forall2 (RInv f0 objs (fst final, l)) readers rs.
  Proof. exact (GInv_run f0 objs Hfs Hout readers sched Hobs). Qed.

  Lemma reader_sees_whole t p i c :
    In t (tl (snd final)) -> In (p, i, c) (l_log (fst t)) -> WholeP f0 objs p c.
  Proof.
    destruct final_inv as (l & rest & rs & Hsnd & HC & HF). rewrite Hsnd. simpl.
    intros Ht Hin. destruct (Forall2_in_r _ _ _ _ HF Ht) as (r0 & _ & HR).
    destruct (ri_log _ _ _ _ _ HR p i c Hin) as (Hw & _). exact Hw.
  Qed.

  Lemma inode_content_never_changes t1 t2 p1 p2 i c1 c2 :
    In t1 (tl (snd final)) -> In t2 (tl (snd final)) ->
    In (p1, i, c1) (l_log (fst t1)) -> In (p2, i, c2) (l_log (fst t2)) -> c1 = c2.
  Proof.
    destruct final_inv as (l & rest & rs & Hsnd & HC & HF). rewrite Hsnd. simpl.
    intros Ht1 Ht2 H1 H2.
    destruct (Forall2_in_r _ _ _ _ HF Ht1) as (r1 & _ & HR1).
    destruct (Forall2_in_r _ _ _ _ HF Ht2) as (r2 & _ & HR2).
    destruct (ri_log _ _ _ _ _ HR1 _ _ _ H1) as (_ & Hb1 & _).
    destruct (ri_log _ _ _ _ _ HR2 _ _ _ H2) as (_ & Hb2 & _).
    congruence.
  Qed.

  Lemma open_fd_keeps_old k h h' q i c :
    nth_error readers k = Some h -> holderb f0 h = true ->
    nth_error (tl (snd final)) k = Some h' -> In (q, i, c) (l_log (fst h')) ->
    q = l_path (fst h) /\ content f0 (l_path (fst h)) = Some c.
  Proof.
    destruct final_inv as (l & rest & rs & Hsnd & HC & HF). rewrite Hsnd. simpl.
    intros Hk Hh Hk' Hin.
    pose proof (Forall2_nth _ _ _ _ _ _ HF Hk Hk') as HR.
    destruct (ri_hold _ _ _ _ _ HR Hh) as (_ & _ & _ & Hlog).
    destruct (Hlog _ _ _ Hin) as [Hq Hfd]. split; [assumption|].
    destruct (ri_log _ _ _ _ _ HR _ _ _ Hin) as (_ & Hb & _). simpl in Hb.
    unfold holderb in Hh. repeat (apply andb_true_iff in Hh as [Hh ?]).
    rewrite Hfd in *.
    destruct (lookup (l_path (fst h)) f0) as [j|] eqn:El; [|discriminate].
    match goal with Hq' : (i =? j) = true |- _ => apply N.eqb_eq in Hq'; subst j end.
    apply negb_true_iff in Hh.
    pose proof (fs_ok_SInv f0 init_local Hfs eq_refl) as HI0.
    assert (Hfr : Frozen (s0 f0) i) by (eapply published_frozen; eassumption).
    destruct (co_keep _ _ _ _ HC i Hfr) as [_ Hkeep]. simpl in Hkeep.
    unfold content. rewrite El. congruence.
  Qed.

  Lemma finals_whole p : is_tmp p = false -> FinalWhole f0 objs (fst final) p.
  Proof.
    destruct final_inv as (l & rest & rs & Hsnd & HC & HF).
    intros Hp. unfold FinalWhole, content.
    destruct (lookup p (fst final)) as [i|] eqn:El.
    - destruct (co_whole _ _ _ _ HC p i Hp El) as (c & Hb & [Hw|(o & Ho1 & Ho2 & Ho3 & Ho4)]); simpl in Hb.
      + left. rewrite Hb. symmetry. exact Hw.
      + right. exists o. subst c. auto.
    - left. destruct (lookup p f0) as [j|] eqn:E0; [|reflexivity].
      exfalso. apply (co_present _ _ _ _ HC p Hp); simpl; [congruence | assumption].
  Qed.

  Lemma finished_no_temp l rs t :
    snd final = (l, []) :: rs -> is_tmp t = true -> lookup t (fst final) = lookup t f0.
  Proof.
    destruct final_inv as (l' & rest & rs' & Hsnd & HC & HF).
    intros Hfin Ht. rewrite Hsnd in Hfin. inversion Hfin; subst.
    exact (co_tmps _ _ _ _ HC t Ht).
  Qed.

  (* a path at which only device-node outputs are restored keeps its directory entry, at every moment *)
  Lemma special_entry_never_replaced q :
    is_tmp q = false ->
    (forall o, In o objs -> o_path o = q -> o_special o = true) ->
    lookup q (fst final) = lookup q f0.
  Proof.
    destruct final_inv as (l & rest & rs & Hsnd & HC & HF).
    intros Hq Hsp. apply (co_entries _ _ _ _ HC q Hq).
    intros t Hin. apply prog_renames_regular in Hin as (o & Ho & Hs & Hp).
    rewrite (Hsp o Ho Hp) in Hs. discriminate.
  Qed.

  (* an output path that exists when the request starts exists at every moment of the request *)
  Lemma existing_output_never_absent p :
    is_tmp p = false -> lookup p f0 <> None -> lookup p (fst final) <> None.
  Proof.
    destruct final_inv as (l & rest & rs & Hsnd & HC & HF).
    intros Hp H0. exact (co_present _ _ _ _ HC p Hp H0).
  Qed.

  Lemma success_installs_new l rs o :
    NoDup (map o_path objs) ->
    snd final = (l, []) :: rs -> l_dead l = false ->
    In o objs -> o_special o = false -> o_ok o = true -> content (fst final) (o_path o) = Some (o_new o).
  Proof.
    destruct final_inv as (l' & rest & rs' & Hsnd & HC & HF).
    intros Hnd Hfin Halive Hin Hsp Hok. rewrite Hsnd in Hfin. inversion Hfin; subst.
    pose proof (co_det _ _ _ _ HC) as Hdet. unfold seq_run at 1 in Hdet. simpl in Hdet.
    pose proof (fs_ok_SInv f0 init_local Hfs eq_refl) as HI0.
    pose proof (prog_installs objs (s0 f0) HI0 Hnd Hout) as Hinst.
    rewrite <- Hdet in Hinst. simpl in Hinst. apply Hinst; assumption.
  Qed.
End Theorems.

(* ---------- 6. the mode window: between rename and chmod the new bytes carry the temp file's mode ---------- *)

Lemma exec_thread0 k f (l : local) acts (rs : list (@thread local action)) :
  exec act (repeat 0%nat k) (f, (l, acts) :: rs) =
  (fst (seq_run (firstn k acts) (f, l)), ((snd (seq_run (firstn k acts) (f, l)), skipn k acts) :: rs)).
Proof.
  revert f l acts. induction k as [|k IH]; intros f l acts.
  - reflexivity.
  - simpl repeat. rewrite exec_cons. destruct acts as [|a acts].
    + simpl step_nth. rewrite IH. destruct k; reflexivity.
    + simpl step_nth. destruct (act a f l) as [f' l'] eqn:E. rewrite IH.
      simpl firstn. simpl skipn. rewrite seq_run_cons. unfold astep. simpl fst; simpl snd. rewrite E. reflexivity.
Qed.

Lemma writes_run_inode chunks f l i n :
  l_dead l = false -> l_fd l = Some i -> iget i f = Some n ->
  exists f', seq_run (map AWrite chunks) (f, l) = (f', l)
    /\ dir f' = dir f
    /\ iget i f' = Some (mkInode (i_bytes n ++ concat chunks) (i_mode n)).
Proof.
  intros Hd Hfd. revert f n. induction chunks as [|b chunks IH]; intros f n Hi.
  - exists f. simpl. rewrite app_nil_r. destruct n; auto.
  - simpl map. rewrite seq_run_cons. unfold astep, act; simpl. rewrite Hd, Hfd.
    destruct (IH (write_chunk i b f) (mkInode (i_bytes n ++ b) (i_mode n))) as (f' & Hr & Hdir & Hig).
    { apply write_chunk_iget_same. assumption. }
    exists f'. split; [assumption|]. rewrite Hdir, write_chunk_dir. split; [reflexivity|].
    rewrite Hig. simpl. rewrite <- app_assoc. reflexivity.
Qed.

Lemma firstn_shape {A} (x : A) l1 l2 n :
  firstn (S (length l1 + n)) (x :: l1 ++ l2) = x :: l1 ++ firstn n l2.
Proof. simpl. rewrite firstn_app_2. reflexivity. Qed.

Lemma mode_window f0 o m readers :
  is_tmp (o_path o) = false -> o_special o = false -> o_dec o = DecOk (Some m) -> o_fault o = FNone ->
  lookup (o_tmp o) f0 = None ->
  let k := S (S (length (o_chunks o))) in
  let f_between := fst (run (repeat 0%nat k) f0 [o] readers) in
  let f_after := fst (run (repeat 0%nat (S k)) f0 [o] readers) in
  content f_between (o_path o) = Some (o_new o) /\ mode_at f_between (o_path o) = Some tmp_mode
  /\ content f_after (o_path o) = Some (o_new o) /\ mode_at f_after (o_path o) = Some m.
Proof.
  intros Hp Hsp Hdec Hfl Hnone k f_between f_after.
  assert (Hprog : prog [o] = ACreateTmp (o_tmp o) :: map AWrite (o_chunks o) ++
                             [ARename (o_tmp o) (o_path o); AChmod (o_path o) m]).
  { unfold prog. simpl. rewrite app_nil_r. unfold prog_obj. rewrite Hsp, Hfl, Hdec. reflexivity. }
  assert (Hlen : length (map AWrite (o_chunks o)) = length (o_chunks o)) by apply map_length.
  (* the state after create + all writes *)
  destruct (create_excl (o_tmp o) tmp_mode f0) as [[f1 i]|] eqn:E;
    [| apply create_excl_none in E as [j Hj]; congruence].
  pose proof E as E'.
  apply create_excl_spec in E as (_ & Hi & Hnext & Hlt & Hlo & Hig & Hio).
  destruct (writes_run_inode (o_chunks o) f1 (mkLocal (Some i) (o_tmp o) [] false) i (mkInode [] tmp_mode))
    as (f2 & Hrun & Hdir & Hig2); [reflexivity | reflexivity | assumption |].
  simpl in Hig2.
  assert (Hl2 : lookup (o_tmp o) f2 = Some i) by (unfold lookup; rewrite Hdir; exact Hlt).
  assert (Hren : rename (o_tmp o) (o_path o) f2 =
                 Some (mkFs (aset path_eqb (o_path o) i (adel path_eqb (o_tmp o) (dir f2))) (inodes f2) (next_ino f2))).
  { unfold rename. rewrite Hl2. reflexivity. }
  set (f3 := mkFs (aset path_eqb (o_path o) i (adel path_eqb (o_tmp o) (dir f2))) (inodes f2) (next_ino f2)) in *.
  assert (Hl3 : lookup (o_path o) f3 = Some i) by (unfold lookup, f3; cbn [dir]; apply dget_set_same).
  assert (Hig3 : iget i f3 = Some (mkInode (concat (o_chunks o)) tmp_mode)) by exact Hig2.
  assert (Hbetween : seq_run (firstn k (prog [o])) (f0, init_local) = (f3, close (mkLocal (Some i) (o_tmp o) [] false))).
  { rewrite Hprog.
    replace k with (S (length (map AWrite (o_chunks o)) + 1))%nat by (unfold k; rewrite Hlen; lia).
    rewrite firstn_shape. cbn [firstn].
    rewrite seq_run_cons. unfold astep at 1. unfold act. simpl fst; simpl snd. cbn [l_dead init_local].
    unfold create_tmp. rewrite E'. cbn [l_log init_local].
    rewrite seq_run_app, Hrun. rewrite seq_run_cons. unfold astep, act. cbn [fst snd l_dead].
    rewrite Hren. reflexivity. }
  assert (Hafter : seq_run (firstn (S k) (prog [o])) (f0, init_local) =
                   (chmod (o_path o) m f3, close (mkLocal (Some i) (o_tmp o) [] false))).
  { rewrite Hprog.
    replace (S k) with (S (length (map AWrite (o_chunks o)) + 2))%nat by (unfold k; rewrite Hlen; lia).
    rewrite firstn_shape. cbn [firstn].
    rewrite seq_run_cons. unfold astep at 1. unfold act. simpl fst; simpl snd. cbn [l_dead init_local].
    unfold create_tmp. rewrite E'. cbn [l_log init_local].
    rewrite seq_run_app, Hrun. rewrite seq_run_cons. unfold astep at 1. unfold act. cbn [fst snd l_dead].
    rewrite Hren. rewrite seq_run_cons. unfold astep, act. cbn [fst snd l_dead close]. reflexivity. }
  unfold f_between, f_after, run, sys. rewrite !exec_thread0. cbn [fst].
  rewrite Hbetween, Hafter. cbn [fst].
  split; [|split; [|split]].
  - unfold content, bytes_of. rewrite Hl3, Hig3. reflexivity.
  - unfold mode_at. rewrite Hl3, Hig3. reflexivity.
  - unfold content. rewrite chmod_lookup, Hl3, chmod_bytes_of. unfold bytes_of. rewrite Hig3. reflexivity.
  - eapply chmod_mode_at; eassumption.
Qed.

(* ---------- 7. the shape of the system calls of the extraction ---------- *)

(* [reg] = paths of the outputs that are restored through a temp file (previous state: absent, a regular file, a
   symbolic link to one, ...), [spec] = paths of the outputs that are device nodes.
   A path in [reg] is only ever named as the target of a rename from a temp file of the same directory, or by the
   chmod that follows; a path in [spec] is only ever opened for writing and written into (never the target of a
   rename, never chmod'ed); every other call names a temp file. *)
Definition ev_ok (reg spec : list path) (e : event) : Prop :=
  match e with
  | ECreate t => is_tmp t = true
  | EWrite t _ => is_tmp t = true \/ In t spec
  | EUnlink t => is_tmp t = true
  | ERename t p => is_tmp t = true /\ fst t = fst p /\ In p reg
  | EChmod p _ => In p reg
  | EOpenW p => In p spec
  end.

Definition reg_paths (objs : list obj) : list path := map o_path (filter (fun o => negb (o_special o)) objs).
Definition spec_paths (objs : list obj) : list path := map o_path (filter o_special objs).

Lemma trace_dead acts s : l_dead (snd s) = true -> trace acts s = [].
Proof. intros H. destruct acts; simpl; [reflexivity|]. rewrite H. reflexivity. Qed.

Lemma trace_app a1 a2 s : trace (a1 ++ a2) s = trace a1 s ++ trace a2 (seq_run a1 s).
Proof.
  revert s. induction a1 as [|a a1 IH]; intros s; [reflexivity|].
  destruct (l_dead (snd s)) eqn:Hd.
  - rewrite (trace_dead _ s Hd), (trace_dead _ s Hd), seq_run_dead by assumption.
    rewrite (trace_dead _ s Hd). reflexivity.
  - rewrite seq_run_cons. simpl app. simpl trace. rewrite Hd. fold (astep a s).
    destruct a; try destruct (l_dead (snd (astep _ s))); rewrite IH; reflexivity.
Qed.

Lemma trace_writes (P : event -> Prop) chunks tail f l :
  (forall n, P (EWrite (l_path l) n)) ->
  (forall f', Forall P (trace tail (f', l))) ->
  Forall P (trace (map AWrite chunks ++ tail) (f, l)).
Proof.
  intros Hw Ht. revert f. induction chunks as [|b chunks IH]; intros f; simpl map; simpl app; [apply Ht|].
  simpl trace. destruct (l_dead l) eqn:Hd; [constructor|].
  constructor; [apply Hw|].
  unfold act. rewrite Hd. destruct (l_fd l); simpl; apply IH.
Qed.

Lemma trace_devwrites (P : event -> Prop) chunks tail f l :
  (forall n, P (EWrite (l_path l) n)) ->
  Forall P (trace tail (f, l)) ->
  Forall P (trace (map AWriteDev chunks ++ tail) (f, l)).
Proof.
  intros Hw Ht. induction chunks as [|b chunks IH]; simpl map; simpl app; [apply Ht|].
  simpl trace. destruct (l_dead l) eqn:Hd; [constructor|].
  constructor; [apply Hw|].
  unfold act. rewrite Hd. simpl. apply IH.
Qed.

Lemma trace_special_ok reg spec o s : In (o_path o) spec -> Forall (ev_ok reg spec) (trace (prog_special o) s).
Proof.
  intros Hin. destruct (l_dead (snd s)) eqn:Hd; [rewrite trace_dead by assumption; constructor|].
  destruct s as [f l]. simpl in Hd. unfold prog_special.
  destruct (o_fault o); simpl trace; cbn [fst snd]; rewrite Hd; try (apply Forall_nil).
  all: assert (Hact : act (AOpenDev (o_path o)) f l = (f, mkLocal None (o_path o) (l_log l) false))
         by (unfold act; rewrite Hd; reflexivity).
  all: rewrite Hact; constructor; [exact Hin|].
  all: apply trace_devwrites; [intros n; right; exact Hin|].
  all: destruct (o_dec o); try destruct (o_optional o); simpl; constructor.
Qed.

Lemma trace_obj_ok reg spec o s :
  (o_special o = false -> In (o_path o) reg) -> (o_special o = true -> In (o_path o) spec) ->
  Forall (ev_ok reg spec) (trace (prog_obj o) s).
Proof.
  intros Hreg Hspec. unfold prog_obj.
  destruct (o_special o) eqn:Esp; [apply trace_special_ok; auto|].
  assert (Hin : In (o_path o) reg) by auto. clear Hreg Hspec.
  destruct (l_dead (snd s)) eqn:Hd; [rewrite trace_dead by assumption; constructor|].
  pose proof (is_tmp_o_tmp o) as Ht.
  assert (Hdir : fst (o_tmp o) = fst (o_path o)) by reflexivity.
  destruct s as [f l]. simpl in Hd.
  destruct (o_fault o) eqn:Efl; try (simpl; rewrite Hd; constructor).
  all: assert (Hact : act (ACreateTmp (o_tmp o)) f l =
                      match create_excl (o_tmp o) tmp_mode f with
                      | Some (f', i) => (f', mkLocal (Some i) (o_tmp o) (l_log l) false)
                      | None => (f, kill l)
                      end) by (unfold act, create_tmp; rewrite Hd; reflexivity).
  all: simpl trace; cbn [fst snd]; rewrite Hd, Hact.
  all: destruct (create_excl (o_tmp o) tmp_mode f) as [[f1 i]|] eqn:E; cbn [snd fst l_dead kill];
    [ constructor; [exact Ht|] | apply Forall_forall; intros e He; rewrite trace_dead in He by reflexivity; destruct He ].
  all: apply trace_writes; [intros n; left; exact Ht|]; intros f'.
  all: destruct (o_dec o) as [[m|]| |]; [| | destruct (o_optional o) |].
  all: simpl trace; cbn [fst snd l_dead]; unfold act; cbn [l_dead];
       try (destruct (rename (o_tmp o) (o_path o) f') as [f3|]; cbn [fst snd l_dead close kill]).
  all: repeat constructor; simpl; auto.
Qed.

Lemma trace_prog_ok reg spec l s :
  incl (reg_paths l) reg -> incl (spec_paths l) spec -> Forall (ev_ok reg spec) (trace (prog l) s).
Proof.
  revert s. unfold prog. induction l as [|o l IH]; intros s Hr Hs; simpl; [destruct (l_dead (snd s)); constructor|].
  rewrite trace_app. apply Forall_app. split.
  - apply trace_obj_ok; intros Esp.
    + apply Hr. unfold reg_paths. simpl. rewrite Esp. left; reflexivity.
    + apply Hs. unfold spec_paths. simpl. rewrite Esp. left; reflexivity.
  - apply IH.
    + intros x Hx. apply Hr. unfold reg_paths in *. simpl. destruct (o_special o); simpl; auto.
    + intros x Hx. apply Hs. unfold spec_paths in *. simpl. destruct (o_special o); simpl; auto.
Qed.

Lemma trace_shape objs s : Forall (ev_ok (reg_paths objs) (spec_paths objs)) (trace (prog objs) s).
Proof. apply trace_prog_ok; apply incl_refl. Qed.
