(* Proofs/KeyEncSpec.v — the theorems of Proofs/KeyEnc.v instantiated with the translated spec, and the recorded
   refutation witnesses (all by computation on Gen/C02HashSpec.the_spec). *)
From Coq Require Import List NArith Bool.
From Coq Require String.
Import String.StringSyntax.
From Sccache Require Import Base.Sx Model.KeyEnc Proofs.KeyEnc Gen.C02HashSpec Gen.C02HashSpec_ok.
Import ListNotations.
Local Open Scope N_scope.
Local Open Scope string_scope.

Definition hex_a : bytes := repeat 97 64.     (* "aaaa...a" *)
Definition hex_b : bytes := repeat 98 64.

(* a small realistic request, used for the non-vacuity examples *)
Definition ex_req : creq := {|
  digest := hex_a; plusplus := false; lang := bs "C";
  args := [bs "-O2"; bs "-DFOO=1"; []];
  extra := [hex_b];
  env := [(bs "SCCACHE_C_CUSTOM_CACHE_BUSTER", bs "1"); (bs "HOME", bs "/root"); (bs "CPATH", bs "/opt/include")];
  pp := bs "# 1 ""x.c""
int x;";
  path := bs "/src/x.c"; input := bs "int x;"; ignore_time := false;
  date := (2026, 9, 30); sde := None; mtime := (1700000000, 5) |}.

(* the same, with nothing between the language tag and the tail *)
Definition bare_req : creq := {|
  digest := hex_a; plusplus := false; lang := bs "C"; args := []; extra := []; env := [];
  pp := bs "int x;"; path := bs "/x.h"; input := bs "int x;"; ignore_time := false;
  date := (2026, 9, 30); sde := None; mtime := (1700000000, 5) |}.

Example ex_req_wf_c : wf_c the_spec ex_req = true.
Proof. vm_compute; reflexivity. Qed.
Example ex_req_wf_p : wf_p the_spec ex_req = true.
Proof. vm_compute; reflexivity. Qed.
Example ex_req_not_gated : gated the_spec ex_req = false.
Proof. vm_compute; reflexivity. Qed.
Example ex_req_filtered_env :
  fenv (allow_main the_spec) ex_req = [(bs "SCCACHE_C_CUSTOM_CACHE_BUSTER", bs "1")]
  /\ fenv (allow_pp the_spec) ex_req = [(bs "SCCACHE_C_CUSTOM_CACHE_BUSTER", bs "1"); (bs "CPATH", bs "/opt/include")].
Proof. vm_compute; split; reflexivity. Qed.

(* the time salt: seen only when the file mentions the macro *)
Definition ex_dated : creq := set_input ex_req (bs "const char *b = __DATE__ "" "" __TIMESTAMP__;").

Example ex_salt_views :
  salt_view ex_req = None /\
  salt_view ex_dated = Some (Some ((2026, 9, 30), []), Some (1700000000, 5)) /\
  salt_view (set_times ex_dated (2026, 10, 1) (Some (bs "0")) (1700000000, 6))
  = Some (Some ((2026, 10, 1), bs "0"), Some (1700000000, 6)) /\
  salt_view (set_times ex_req (2026, 10, 1) (Some (bs "0")) (1700000000, 6)) = None /\
  wf_p the_spec ex_dated = true /\ gated the_spec ex_dated = false.
Proof. vm_compute. repeat split; reflexivity. Qed.

(* --- recorded refutations: the full statement is false without pp_ok / extra_pp_ok / path_ok *)

(* S10b: language "c" + output "++int x;"  vs  language "c++" + output "int x;" *)
Definition s10b_1 : creq := set_pp bare_req (bs "++int x;").
Definition s10b_2 : creq := set_lang bare_req (bs "Cxx").

Lemma lang_pp_boundary_refuted :
  exists r1 r2,
    common_ok the_spec r1 = true /\ common_ok the_spec r2 = true /\
    env_ok (allow_main the_spec) r1 = true /\ env_ok (allow_main the_spec) r2 = true /\
    nonul (pp r1) = true /\ nonul (pp r2) = true /\ extra_pp_ok r1 r2 = true /\
    canon_c the_spec r1 <> canon_c the_spec r2 /\
    forall H, encode_c H the_spec r1 = encode_c H the_spec r2.
Proof.
  exists s10b_1, s10b_2. repeat split; try (vm_compute; reflexivity).
  vm_compute. intro E. discriminate E.
Qed.

(* S10c: one extra hash + output "x"  vs  no extra hash + output (that hash ++ "x") *)
Definition s10c_1 : creq := set_pp (set_extra bare_req [hex_b]) (bs "x").
Definition s10c_2 : creq := set_pp bare_req (hex_b ++ bs "x").

Lemma extra_pp_boundary_refuted :
  exists r1 r2,
    wf_c the_spec r1 = true /\ wf_c the_spec r2 = true /\
    canon_c the_spec r1 <> canon_c the_spec r2 /\
    forall H, encode_c H the_spec r1 = encode_c H the_spec r2.
Proof.
  exists s10c_1, s10c_2. repeat split; try (vm_compute; reflexivity).
  vm_compute. intro E. discriminate E.
Qed.

(* S10d: language "c" + input path "/c++/x.h"  vs  language "c/c++" (GenericHeader) + input path "/x.h" *)
Definition s10d_1 : creq := set_path bare_req (bs "/c++/x.h").
Definition s10d_2 : creq := set_lang bare_req (bs "GenericHeader").

Lemma pp_lang_path_boundary_refuted :
  exists r1 r2,
    common_ok the_spec r1 = true /\ common_ok the_spec r2 = true /\
    env_ok (allow_pp the_spec) r1 = true /\ env_ok (allow_pp the_spec) r2 = true /\
    abs_path (path r1) = true /\ abs_path (path r2) = true /\ nonul (path r1) = true /\ nonul (path r2) = true /\
    path_tail_ok (path r1) = true /\ path_tail_ok (path r2) = true /\ time_ok r1 = true /\ time_ok r2 = true /\
    canon_p the_spec r1 <> canon_p the_spec r2 /\
    forall H, encode_pp H the_spec r1 = encode_pp H the_spec r2.
Proof.
  exists s10d_1, s10d_2. repeat split; try (vm_compute; reflexivity).
  vm_compute. intro E. discriminate E.
Qed.

(* The digest component is  digest  or  digest "-" digest  right after the undelimited path: a path that itself ends
   in 64 hex digits and "-" can take the place of the first form's ... reason for path_tail_ok.
   r2: file mentioning __DATE__ at /x.h;  r1: the file whose CONTENTS are r2's inner time pre-image, at the path
   /x.h<digest of r2's contents>-  (for any H with 64-hex values). *)
Definition tail_2 : creq := set_input bare_req (bs "__DATE__").
Definition tail_1 (H : bytes -> bytes) : creq :=
  set_path (set_input bare_req (time_pre tail_2)) (path bare_req ++ H (input tail_2) ++ [45]).

Lemma pp_path_tail_refuted :
  forall H : bytes -> bytes, (forall x, is_hex64 (H x) = true) ->
  exists r1 r2,
    common_ok the_spec r1 = true /\ env_ok (allow_pp the_spec) r1 = true /\ abs_path (path r1) = true /\
    nonul (path r1) = true /\ no_tag_ext_path the_spec (lang r1) (path r1) = true /\ time_ok r1 = true /\
    wf_p the_spec r2 = true /\
    input r1 <> input r2 /\
    encode_pp H the_spec r1 = encode_pp H the_spec r2.
Proof.
  intros H Hh. exists (tail_1 H), tail_2.
  repeat split; try (vm_compute; reflexivity).
  - unfold tail_1. cbn [path set_path]. rewrite !nonul_app, (hex64_nonul _ (Hh _)). vm_compute. reflexivity.
  - vm_compute. intro E. discriminate E.
  - rewrite !(encode_pp_eq H the_spec _ the_spec_shape_p). unfold idig.
    replace (salted (tail_1 H)) with false by (vm_compute; reflexivity).
    replace (salted tail_2) with true by (vm_compute; reflexivity).
    unfold tail_1. cbn [path input digest plusplus lang set_path set_input]. unfold toks, fenv.
    cbn [args extra env set_path set_input]. rewrite <- !app_assoc. reflexivity.
Qed.

(* S10a (repaired by a fix: commit): with ObjectiveCxxHeader rendered as "objc++" again, tags_ok fails and two
   requests that differ only in the language get one pre-image *)
Definition with_tags (sp : spec) (t : list (bytes * bytes)) : spec :=
  {| version := version sp; fmt_version := fmt_version sp; allow_main := allow_main sp; allow_pp := allow_pp sp;
     tags := t; shape_c := shape_c sp; shape_p := shape_p sp; time_gate := time_gate sp |}.
Definition with_allow_pp (sp : spec) (a : list bytes) : spec :=
  {| version := version sp; fmt_version := fmt_version sp; allow_main := allow_main sp; allow_pp := a;
     tags := tags sp; shape_c := shape_c sp; shape_p := shape_p sp; time_gate := time_gate sp |}.

Definition old_tags_spec : spec :=
  with_tags the_spec (map (fun e => if bytes_eqb (fst e) (bs "ObjectiveCxxHeader") then (fst e, bs "objc++") else e)
                          (tags the_spec)).

Lemma old_tags_refuted :
  tags_ok old_tags_spec = false /\
  exists r1 r2,
    wf_c old_tags_spec r1 = true /\ wf_c old_tags_spec r2 = true /\
    lang r1 <> lang r2 /\ alias_exempt (lang r1) (lang r2) = false /\
    forall H, encode_c H old_tags_spec r1 = encode_c H old_tags_spec r2.
Proof.
  split; [vm_compute; reflexivity|].
  exists (set_lang ex_req (bs "ObjectiveCxx")), (set_lang ex_req (bs "ObjectiveCxxHeader")).
  repeat split; try (vm_compute; reflexivity).
  vm_compute. intro E. discriminate E.
Qed.

(* S16 (repaired by a fix: commit): with the preprocessor-level allow-list as it was, env_covers fails and two requests
   that differ in CCC_OVERRIDE_OPTIONS get one preprocessor-level pre-image *)
Definition old_allow_pp_spec : spec :=
  with_allow_pp the_spec [bs "SCCACHE_C_CUSTOM_CACHE_BUSTER"; bs "CPATH"; bs "C_INCLUDE_PATH"; bs "CPLUS_INCLUDE_PATH";
                          bs "OBJC_INCLUDE_PATH"; bs "OBJCPLUS_INCLUDE_PATH"].

Lemma old_env_cover_refuted :
  env_covers old_allow_pp_spec = false /\
  exists r1 r2,
    wf_p old_allow_pp_spec r1 = true /\ wf_p old_allow_pp_spec r2 = true /\
    fenv (allow_main old_allow_pp_spec) r1 <> fenv (allow_main old_allow_pp_spec) r2 /\
    forall H, encode_pp H old_allow_pp_spec r1 = encode_pp H old_allow_pp_spec r2.
Proof.
  split; [vm_compute; reflexivity|].
  exists (set_env ex_req [(bs "CCC_OVERRIDE_OPTIONS", bs "+-DFOO=2")]), (set_env ex_req []).
  repeat split; try (vm_compute; reflexivity).
  vm_compute. intro E. discriminate E.
Qed.

(* --- non-vacuity of the pair families *)
Example ex_single_change :
  one_differs_c the_spec ex_req (set_pp ex_req (bs "int y;")) /\ wf_c the_spec (set_pp ex_req (bs "int y;")) = true.
Proof.
  split; [|vm_compute; reflexivity]. unfold one_differs_c. cbv zeta.
  do 6 right. repeat split; try reflexivity. vm_compute. intro E. discriminate E.
Qed.

Example ex_boundary_shift :
  wf_c the_spec (set_args ex_req ([bs "-I"] ++ [bs "-D" ++ bs "A"; bs "=1"] ++ [])) = true /\
  wf_c the_spec (set_args ex_req ([bs "-I"] ++ [bs "-D"; bs "A" ++ bs "=1"] ++ [])) = true.
Proof. vm_compute; split; reflexivity. Qed.

Example ex_name_value_shift :
  let k1 := bs "SDKROOT" in let v1 := bs "=x" in let k2 := bs "SDKROOT=" in let v2 := bs "x" in
  k1 ++ v1 = k2 ++ v2 /\ k1 <> k2 /\ allowed (allow_main the_spec) k1 = true /\
  wf_c the_spec (set_env ex_req ([] ++ [(k1, v1)] ++ [])) = true /\
  wf_c the_spec (set_env ex_req ([] ++ [(k2, v2)] ++ [])) = true.
Proof. vm_compute. repeat split; try reflexivity. intro E. discriminate E. Qed.
