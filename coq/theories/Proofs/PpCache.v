(* Proofs/PpCache.v — soundness of the preprocessor-cache manifest lookup and of the include recorder. *)
From Coq Require Import List NArith Bool Arith Lia.
From Sccache Require Import Base.Sx Gen.C04Consts Model.TimeMacro Model.PpCache Proofs.TimeMacro.
Import ListNotations.
Local Open Scope N_scope.
Arguments scan_file : simpl never.

(* ---------------- small list / bytes facts ---------------- *)

Lemma map_opt_Forall2 {A B} (f : A -> option B) l l' :
  map_opt f l = Some l' -> Forall2 (fun x y => f x = Some y) l l'.
Proof.
  revert l'; induction l as [|x l IH]; intros l' Hm; simpl in Hm.
  - inversion Hm. constructor.
  - destruct (f x) as [y|] eqn:Hfx; [|discriminate].
    destruct (map_opt f l) as [ys|] eqn:Hml; [|discriminate].
    inversion Hm; subst. constructor; [exact Hfx | apply IH; reflexivity].
Qed.

Lemma Forall2_in_r {A B} (R : A -> B -> Prop) l l' y :
  Forall2 R l l' -> In y l' -> exists x, In x l /\ R x y.
Proof.
  intros HF. induction HF as [|x0 y0 l l' HR HF IH]; intros Hin; [destruct Hin|].
  destruct Hin as [-> | Hin].
  - exists x0. split; [left; reflexivity | exact HR].
  - destruct (IH Hin) as [x [Hx HRx]]. exists x. split; [right; exact Hx | exact HRx].
Qed.

Lemma Forall2_in_l {A B} (R : A -> B -> Prop) l l' x :
  Forall2 R l l' -> In x l -> exists y, In y l' /\ R x y.
Proof.
  intros HF. induction HF as [|x0 y0 l l' HR HF IH]; intros Hin; [destruct Hin|].
  destruct Hin as [-> | Hin].
  - exists y0. split; [left; reflexivity | exact HR].
  - destruct (IH Hin) as [y [Hy HRy]]. exists y. split; [right; exact Hy | exact HRy].
Qed.

Lemma map_opt_none {A B} (f : A -> option B) l : map_opt f l = None -> exists x, In x l /\ f x = None.
Proof.
  induction l as [|x l IH]; simpl; [discriminate|].
  destruct (f x) eqn:Hfx; [|intros _; exists x; split; [left; reflexivity | exact Hfx]].
  destruct (map_opt f l) eqn:Hml; [discriminate|]. intros _.
  destruct (IH eq_refl) as [y [Hy Hfy]]. exists y. split; [right; exact Hy | exact Hfy].
Qed.

(* the Timestamp conversion is injective: distinct instants (also before 1970) give distinct time stamps *)
Theorem ts_of_injective x y : ts_of x = ts_of y -> x = y.
Proof.
  unfold ts_of. cbv zeta.
  pose proof (N.div_mod (x - ts_base_ns) 1000000000 ltac:(discriminate)) as Dx.
  pose proof (N.div_mod (y - ts_base_ns) 1000000000 ltac:(discriminate)) as Dy.
  pose proof (N.div_mod (ts_base_ns - x) 1000000000 ltac:(discriminate)) as Ex.
  pose proof (N.div_mod (ts_base_ns - y) 1000000000 ltac:(discriminate)) as Ey.
  pose proof (N.mod_lt (ts_base_ns - x) 1000000000 ltac:(discriminate)) as Lx.
  pose proof (N.mod_lt (ts_base_ns - y) 1000000000 ltac:(discriminate)) as Ly.
  destruct (N.leb ts_base_ns x) eqn:Hx; destruct (N.leb ts_base_ns y) eqn:Hy;
    try (apply N.leb_le in Hx); try (apply N.leb_gt in Hx); try (apply N.leb_le in Hy); try (apply N.leb_gt in Hy).
  - intros He. pose proof (f_equal (fun t => snd (fst t)) He) as Hq. pose proof (f_equal snd He) as Hr.
    cbn [fst snd] in Hq, Hr. rewrite Hq, Hr in Dx. lia.
  - destruct (N.eqb ((ts_base_ns - y) mod 1000000000) 0); intros He; inversion He.
  - destruct (N.eqb ((ts_base_ns - x) mod 1000000000) 0); intros He; inversion He.
  - intros He.
    destruct (N.eq_dec ((ts_base_ns - x) mod 1000000000) 0) as [Rx | Rx];
      destruct (N.eq_dec ((ts_base_ns - y) mod 1000000000) 0) as [Ry | Ry];
      try (rewrite (proj2 (N.eqb_eq _ _) Rx) in He); try (rewrite (proj2 (N.eqb_neq _ _) Rx) in He);
      try (rewrite (proj2 (N.eqb_eq _ _) Ry) in He); try (rewrite (proj2 (N.eqb_neq _ _) Ry) in He);
      pose proof (f_equal (fun t => snd (fst t)) He) as Hq; pose proof (f_equal snd He) as Hr;
      cbn [fst snd] in Hq, Hr; lia.
Qed.

Definition file_at (fs : fsnap) (p : path) (nd : node) : Prop :=
  fs_get fs p = Some nd /\ n_kind nd = KFile.

(* "equal (size, mtime, ctime) implies equal bytes": the documented trade of file_stat_matches *)
Definition stat_trust (fs0 fs1 : fsnap) : Prop :=
  forall p nd0 nd1,
    fs_get fs0 p = Some nd0 -> fs_get fs1 p = Some nd1 -> n_kind nd0 = KFile ->
    n_size nd1 = n_size nd0 -> n_mtime nd1 = n_mtime nd0 -> n_ctime nd1 = n_ctime nd0 ->
    n_kind nd1 = KFile /\ n_bytes nd1 = n_bytes nd0.

(* the recorded include is still what it was: same bytes, and (unless time macros are ignored by
   configuration) the date / mtime its __DATE__ / __TIMESTAMP__ would expand to are the same *)
Definition unchanged (cfg : config) (fs0 : fsnap) (date0 : bytes) (fs1 : fsnap) (date1 : bytes) (p : path) : Prop :=
  exists nd0 nd1,
    file_at fs0 p nd0 /\ file_at fs1 p nd1 /\ n_bytes nd1 = n_bytes nd0 /\
    (ignore_time_macros cfg = false -> mentions WDate (n_bytes nd0) -> date1 = date0) /\
    (ignore_time_macros cfg = false -> mentions WTimestamp (n_bytes nd0) -> n_mtime nd1 = n_mtime nd0) /\
    (ignore_time_macros cfg = false -> ~ mentions WTime (n_bytes nd0)).

Definition filters (cfg : config) (input p : path) (sys : bool) : Prop :=
  is_angle p = false /\ (sys && skip_system_headers cfg) = false /\ bytes_eqb p input = false.

(* the includes the recorder was shown and has to remember: regular files, not the input file, not
   <built-in>-like names, not system headers when those are skipped by configuration *)
Definition must_record (cfg : config) (op : rec_op) (p : path) : Prop :=
  exists sys nd, In (p, sys) (ro_incs op) /\ filters cfg (ro_input op) p sys /\ file_at (ro_fs op) p nd.

(* what makes the recorder give up *)
Definition bad_include (cfg : config) (fs : fsnap) (start : N) (p : path) : Prop :=
  match fs_get fs p with
  | None => True
  | Some nd =>
      match n_kind nd with
      | KDir => False
      | KOther => True
      | KFile => (start <= n_mtime nd) \/ (start <= n_ctime nd) \/
                 (ignore_time_macros cfg = false /\ mentions WTime (n_bytes nd))
      end
  end.

Section Sound.
Variable D : Type.
Variable Deqb : D -> D -> bool.
Variable H : bytes -> D.
Variable HT : option bytes -> option N -> D.
Hypothesis Deqb_true : forall a b, Deqb a b = true -> a = b.
Hypothesis H_inj : forall a b, H a = H b -> a = b.
Hypothesis HT_inj : forall od om od' om', HT od om = HT od' om' -> od = od' /\ om = om'.

Local Notation ifd := (include_file_digest D HT).
Local Notation ientry := (include_entry D).

Definition rec_flags (cfg : config) (b : bytes) : flags :=
  if ignore_time_macros cfg then no_flags else scan_file b.

Lemma idigest_eqb_true (a b : idigest D) : idigest_eqb D Deqb a b = true -> a = b.
Proof.
  destruct a as [x | x s], b as [y | y t]; simpl; intros He; try discriminate.
  - apply Deqb_true in He. subst. reflexivity.
  - apply andb_true_iff in He as [H1 H2]. apply Deqb_true in H1. apply Deqb_true in H2. subst. reflexivity.
Qed.

(* equal include digests: equal content digests *)
Lemma ifd_content c1 f1 d1 o1 c0 f0 d0 o0 x :
  ifd c1 f1 d1 o1 = Some x -> ifd c0 f0 d0 o0 = Some x -> c1 = c0.
Proof.
  unfold include_file_digest. intros H1 H0.
  destruct (negb (fl_date f1) && negb (fl_timestamp f1)); destruct (negb (fl_date f0) && negb (fl_timestamp f0));
    repeat match goal with
           | Hx : context [if ?b then _ else _] |- _ => destruct b
           | Hx : context [match ?o with Some _ => _ | None => _ end] |- _ => destruct o
           end; try discriminate; inversion H1; subst; inversion H0; subst; reflexivity.
Qed.

(* ... and, for the same file, equal date / mtime where the flags say they matter *)
Lemma ifd_time c f d1 o1 d0 o0 x :
  ifd c f d1 o1 = Some x -> ifd c f d0 o0 = Some x ->
  (fl_date f = true -> d1 = d0) /\ (fl_timestamp f = true -> o1 = o0).
Proof.
  unfold include_file_digest. intros H1 H0.
  destruct (fl_date f), (fl_timestamp f); simpl in *.
  - destruct o1, o0; try discriminate. inversion H1; subst. inversion H0 as [He].
    apply HT_inj in He as [Hd Ho]. inversion Hd; inversion Ho; subst. split; reflexivity.
  - inversion H1; subst. inversion H0 as [He]. apply HT_inj in He as [Hd _]. inversion Hd; subst.
    split; [reflexivity | discriminate].
  - destruct o1, o0; try discriminate. inversion H1; subst. inversion H0 as [He].
    apply HT_inj in He as [_ Ho]. inversion Ho; subst. split; [discriminate | reflexivity].
  - split; discriminate.
Qed.

Lemma ifd_plain c f d o x :
  ifd c f d o = Some x -> is_salted D x = false -> fl_date f = false /\ fl_timestamp f = false.
Proof.
  unfold include_file_digest. intros Hx Hs.
  destruct (fl_date f), (fl_timestamp f); simpl in *; try (split; reflexivity);
    repeat match goal with
           | Hy : context [match ?o with Some _ => _ | None => _ end] |- _ => destruct o
           end; try discriminate; inversion Hx; subst; discriminate.
Qed.

(* the input file's part of the manifest key: equal digests, equal input (and macro expansions) *)
Theorem input_digest_sound cfg b0 d0 m0 b1 d1 m1 x :
  input_file_digest D H HT cfg b0 d0 m0 = Some x ->
  input_file_digest D H HT cfg b1 d1 m1 = Some x ->
  b1 = b0 /\
  (ignore_time_macros cfg = false -> mentions WDate b0 -> d1 = d0) /\
  (ignore_time_macros cfg = false -> mentions WTimestamp b0 -> m1 = m0) /\
  (ignore_time_macros cfg = false -> ~ mentions WTime b0).
Proof.
  unfold input_file_digest. destruct (ignore_time_macros cfg) eqn:Hitm.
  - intros H0 H1. rewrite <- H0 in H1. inversion H1 as [He]. apply H_inj in He.
    split; [exact He|]. split; [|split]; intros Hc; discriminate Hc.
  - destruct (fl_time (scan_file b0)) eqn:Ht0; [discriminate|].
    destruct (fl_time (scan_file b1)) eqn:Ht1; [discriminate|].
    intros H0 H1. pose proof (ifd_content _ _ _ _ _ _ _ _ _ H1 H0) as Hc. apply H_inj in Hc. subst b1.
    destruct (ifd_time _ _ _ _ _ _ _ H1 H0) as [Hdate Hts].
    split; [reflexivity|]. split; [|split]; intros _ Hmen.
    + apply Hdate. apply (proj1 (scan_file_exact b0)). exact Hmen.
    + assert (Hf : fl_timestamp (scan_file b0) = true) by (apply (proj2 (proj2 (scan_file_exact b0))); exact Hmen).
      specialize (Hts Hf). inversion Hts. reflexivity.
    + apply (proj1 (proj2 (scan_file_exact b0))) in Hmen. congruence.
Qed.

(* the executable comparison of the key components used by the correspondence leg `ppkey` decides equality of
   the argument LIST, the extra hashes, the allow-listed variables and the input digest *)
Lemma list_eqb_true {A} (eqb : A -> A -> bool) (a b : list A) :
  (forall x y, eqb x y = true -> x = y) -> list_eqb eqb a b = true -> a = b.
Proof.
  intros He. revert b; induction a as [|x a IH]; intros [|y b] Hl; simpl in Hl; try discriminate; [reflexivity|].
  apply andb_true_iff in Hl as [Hxy Hl]. rewrite (He x y Hxy), (IH b Hl). reflexivity.
Qed.

Theorem pp_key_eqb_sound (a b : pp_key_parts D) :
  pp_key_eqb D Deqb a b = true ->
  pk_plusplus D a = pk_plusplus D b /\ pk_args D a = pk_args D b /\ pk_extra D a = pk_extra D b /\
  pk_env D a = pk_env D b /\ pk_input D a = pk_input D b.
Proof.
  unfold pp_key_eqb. intros Hk.
  apply andb_true_iff in Hk as [Hk Hin]. apply andb_true_iff in Hk as [Hk Henv].
  apply andb_true_iff in Hk as [Hk Hex]. apply andb_true_iff in Hk as [Hpp Hargs].
  split; [apply Bool.eqb_prop; exact Hpp|].
  split; [apply (list_eqb_true bytes_eqb); [intros x y Hxy; apply bytes_eqb_eq; exact Hxy | exact Hargs]|].
  split; [apply (list_eqb_true bytes_eqb); [intros x y Hxy; apply bytes_eqb_eq; exact Hxy | exact Hex]|].
  split; [|apply idigest_eqb_true; exact Hin].
  apply (list_eqb_true (fun x y => bytes_eqb (fst x) (fst y) && bytes_eqb (snd x) (snd y))); [|exact Henv].
  intros [x1 x2] [y1 y2] Hxy. simpl in Hxy. apply andb_true_iff in Hxy as [Hx1 Hx2].
  apply bytes_eqb_eq in Hx1. apply bytes_eqb_eq in Hx2. subst. reflexivity.
Qed.

(* ---------------- what a recorded include entry is ---------------- *)

Definition recorded_ie (cfg : config) (fs : fsnap) (date : bytes) (ie : ientry) : Prop :=
  exists nd,
    file_at fs (ie_path D ie) nd /\
    ie_size D ie = n_size nd /\
    ((ie_mtime D ie = Some (n_mtime nd) /\ ie_ctime D ie = Some (n_ctime nd)) \/
     (ie_mtime D ie = None /\ ie_ctime D ie = None)) /\
    fl_time (rec_flags cfg (n_bytes nd)) = false /\
    ifd (H (n_bytes nd)) (rec_flags cfg (n_bytes nd)) date (Some (n_mtime nd)) = Some (ie_digest D ie).

Lemma mentions_flag_date b : mentions WDate b -> fl_date (scan_file b) = true.
Proof. intros Hm. apply (proj1 (scan_file_exact b)). exact Hm. Qed.
Lemma mentions_flag_timestamp b : mentions WTimestamp b -> fl_timestamp (scan_file b) = true.
Proof. intros Hm. apply (proj2 (proj2 (scan_file_exact b))). exact Hm. Qed.
Lemma flag_time_mentions b : fl_time (scan_file b) = true <-> mentions WTime b.
Proof. apply (proj1 (proj2 (scan_file_exact b))). Qed.

(* the heart of C04: one accepted include *)
Lemma include_sound cfg fs0 date0 fs1 date1 ie :
  recorded_ie cfg fs0 date0 ie ->
  (file_stat_matches cfg = true -> use_ctime_for_stat cfg = true -> stat_trust fs0 fs1) ->
  include_matches D Deqb H HT cfg fs1 date1 ie = true ->
  unchanged cfg fs0 date0 fs1 date1 (ie_path D ie).
Proof.
  intros [nd0 [[Hg0 Hk0] [Hsz0 [Htimes [Hnt Hdig]]]]] Htrust Hm.
  unfold include_matches in Hm.
  destruct (fs_get fs1 (ie_path D ie)) as [nd1|] eqn:Hg1; [|discriminate].
  destruct (N.eqb (n_size nd1) (ie_size D ie)) eqn:Hsz; cbn [negb] in Hm; [|discriminate].
  apply N.eqb_eq in Hsz.
  destruct (stat_shortcut D cfg ie nd1) eqn:Hss.
  - (* accepted by (size, mtime, ctime) *)
    unfold stat_shortcut in Hss.
    destruct (file_stat_matches cfg) eqn:Hfsm; simpl in Hss; [|discriminate].
    destruct (is_salted D (ie_digest D ie)) eqn:Hsalt; simpl in Hss; [discriminate|].
    destruct Htimes as [[Hmt Hct] | [Hmt Hct]]; [rewrite Hmt, Hct in Hss | rewrite Hmt in Hss; discriminate].
    destruct (use_ctime_for_stat cfg) eqn:Huc; [|discriminate].
    apply andb_true_iff in Hss as [Hm1 Hc1]. apply N.eqb_eq in Hm1. apply N.eqb_eq in Hc1.
    destruct (Htrust eq_refl eq_refl (ie_path D ie) nd0 nd1 Hg0 Hg1 Hk0) as [Hk1 Hb]; try congruence.
    exists nd0, nd1. split; [split; assumption|]. split; [split; assumption|]. split; [exact Hb|].
    destruct (ifd_plain _ _ _ _ _ Hdig Hsalt) as [Hfd Hft].
    split; [|split]; intros Hitm Hmen; exfalso; unfold rec_flags in Hfd, Hft, Hnt; rewrite Hitm in Hfd, Hft, Hnt.
    + rewrite (mentions_flag_date _ Hmen) in Hfd. discriminate.
    + rewrite (mentions_flag_timestamp _ Hmen) in Hft. discriminate.
    + apply flag_time_mentions in Hmen. congruence.
  - (* contents comparison *)
    unfold fs_read in Hm. rewrite Hg1 in Hm.
    destruct (n_kind nd1) eqn:Hk1; try discriminate.
    destruct (ignore_time_macros cfg) eqn:Hitm.
    + apply idigest_eqb_true in Hm.
      unfold rec_flags in Hdig. rewrite Hitm in Hdig. cbn in Hdig. rewrite Hm in Hdig.
      inversion Hdig as [He]. apply H_inj in He.
      exists nd0, nd1. split; [split; assumption|]. split; [split; assumption|]. split; [symmetry; exact He|].
      split; [|split]; intros Hc; congruence.
    + destruct (fl_time (scan_file (n_bytes nd1))) eqn:Hft1; [discriminate|].
      destruct (ifd (H (n_bytes nd1)) (scan_file (n_bytes nd1)) date1
                    (if fl_timestamp (scan_file (n_bytes nd1)) then Some (n_mtime nd1) else None)) as [d1|] eqn:Hd1;
        [|discriminate].
      apply idigest_eqb_true in Hm. subst d1.
      unfold rec_flags in Hdig, Hnt. rewrite Hitm in Hdig, Hnt.
      pose proof (ifd_content _ _ _ _ _ _ _ _ _ Hd1 Hdig) as Hc. apply H_inj in Hc.
      rewrite Hc in Hd1.
      destruct (ifd_time _ _ _ _ _ _ _ Hd1 Hdig) as [Hdate Hts].
      exists nd0, nd1. split; [split; assumption|]. split; [split; assumption|]. split; [exact Hc|].
      split; [|split]; intros _ Hmen.
      * apply Hdate. apply mentions_flag_date. exact Hmen.
      * pose proof (mentions_flag_timestamp _ Hmen) as Hf. specialize (Hts Hf). rewrite Hf in Hts.
        inversion Hts. reflexivity.
      * apply flag_time_mentions in Hmen. congruence.
Qed.

(* ---------------- the recorder ---------------- *)

Definition good_header (cfg : config) (fs : fsnap) (start : N) (date : bytes) (pd : path * idigest D) : Prop :=
  exists nd,
    file_at fs (fst pd) nd /\
    include_is_too_new (Some (n_mtime nd)) (Some (n_ctime nd)) start = false /\
    fl_time (rec_flags cfg (n_bytes nd)) = false /\
    ifd (H (n_bytes nd)) (rec_flags cfg (n_bytes nd)) date (Some (n_mtime nd)) = Some (snd pd).

Lemma inc_mem_app p l q (d : idigest D) : inc_mem D p (l ++ [(q, d)]) = inc_mem D p l || bytes_eqb q p.
Proof.
  induction l as [|[q' d'] l IH]; simpl.
  - rewrite orb_false_r. reflexivity.
  - rewrite IH, orb_assoc. reflexivity.
Qed.

Lemma inc_mem_In p l : inc_mem D p l = true -> exists d, In (p, d) l.
Proof.
  induction l as [|[q d] l IH]; simpl; intros Hm; [discriminate|].
  apply orb_true_iff in Hm as [Hq | Hm].
  - apply bytes_eqb_eq in Hq. subst q. exists d. left. reflexivity.
  - destruct (IH Hm) as [d' Hin]. exists d'. right. exact Hin.
Qed.

Lemma bad_not_good cfg fs start date pd : good_header cfg fs start date pd -> ~ bad_include cfg fs start (fst pd).
Proof.
  intros [nd [[Hg Hk] [Hnew [Hnt _]]]] Hbad. unfold bad_include in Hbad. rewrite Hg, Hk in Hbad.
  unfold include_is_too_new in Hnew. apply orb_false_iff in Hnew as [Hm Hc].
  apply N.leb_gt in Hm. apply N.leb_gt in Hc.
  destruct Hbad as [Hb | [Hb | [Hitm Hmen]]]; try lia.
  unfold rec_flags in Hnt. rewrite Hitm in Hnt. apply flag_time_mentions in Hmen. congruence.
Qed.

(* one call of remember_include_file *)
Lemma remember_one cfg fs start date input acc p sys :
  match remember_include_file D H HT cfg fs start date input acc p sys with
  | Some acc' =>
      (acc' = acc \/ exists d, acc' = acc ++ [(p, d)] /\ good_header cfg fs start date (p, d)) /\
      (filters cfg input p sys -> forall nd, file_at fs p nd -> inc_mem D p acc' = true) /\
      (filters cfg input p sys -> inc_mem D p acc = false -> ~ bad_include cfg fs start p)
  | None => filters cfg input p sys /\ inc_mem D p acc = false /\ bad_include cfg fs start p
  end.
Proof.
  unfold remember_include_file, filters, bad_include.
  destruct (is_angle p) eqn:Ha.
  { split; [left; reflexivity|]. split; intros [Hc _]; discriminate. }
  destruct (sys && skip_system_headers cfg) eqn:Hs.
  { split; [left; reflexivity|]. split; intros [_ [Hc _]]; discriminate. }
  destruct (inc_mem D p acc) eqn:Hmem.
  { split; [left; reflexivity|]. split; [intros _ nd _; exact Hmem | intros _ Hc; congruence]. }
  destruct (bytes_eqb p input) eqn:Hin.
  { split; [left; reflexivity|]. split; intros [_ [_ Hc]]; discriminate. }
  destruct (fs_get fs p) as [nd|] eqn:Hg.
  2:{ repeat split; reflexivity. }
  destruct (n_kind nd) eqn:Hk.
  - (* regular file *)
    destruct (include_is_too_new (Some (n_mtime nd)) (Some (n_ctime nd)) start) eqn:Hnew.
    { repeat split; try reflexivity. unfold include_is_too_new in Hnew.
      apply orb_true_iff in Hnew as [Hn | Hn]; apply N.leb_le in Hn; [left | right; left]; exact Hn. }
    fold (rec_flags cfg (n_bytes nd)).
    destruct (fl_time (rec_flags cfg (n_bytes nd))) eqn:Hft.
    { repeat split; try reflexivity. right. right. unfold rec_flags in Hft.
      destruct (ignore_time_macros cfg); [discriminate|]. split; [reflexivity | apply flag_time_mentions; exact Hft]. }
    destruct (ifd (H (n_bytes nd)) (rec_flags cfg (n_bytes nd)) date (Some (n_mtime nd))) as [d|] eqn:Hd.
    + split; [|split].
      * right. exists d. split; [reflexivity|]. exists nd. simpl. repeat split; assumption.
      * intros _ nd' _. rewrite inc_mem_app, bytes_eqb_refl, orb_true_r. reflexivity.
      * intros _ _ Hbad. unfold include_is_too_new in Hnew. apply orb_false_iff in Hnew as [Hm Hc].
        apply N.leb_gt in Hm. apply N.leb_gt in Hc.
        destruct Hbad as [Hb | [Hb | [Hitm Hmen]]]; try lia.
        unfold rec_flags in Hft. rewrite Hitm in Hft. apply flag_time_mentions in Hmen. congruence.
    + exfalso. unfold include_file_digest in Hd.
      destruct (negb (fl_date (rec_flags cfg (n_bytes nd))) && negb (fl_timestamp (rec_flags cfg (n_bytes nd))));
        [discriminate|].
      destruct (fl_timestamp (rec_flags cfg (n_bytes nd))); discriminate.
  - (* directory: ignored *)
    split; [left; reflexivity|]. split.
    + intros _ nd' [Hg' Hk']. rewrite Hg in Hg'. inversion Hg'; subst. congruence.
    + intros _ _ Hbad. exact Hbad.
  - repeat split; reflexivity.
Qed.

Lemma remember_all_spec cfg fs start date input incs : forall acc included,
  remember_all D H HT cfg fs start date input acc incs = Some included ->
  (Forall (good_header cfg fs start date) acc -> Forall (good_header cfg fs start date) included) /\
  (forall p, inc_mem D p acc = true -> inc_mem D p included = true) /\
  (forall p sys nd, In (p, sys) incs -> filters cfg input p sys -> file_at fs p nd -> inc_mem D p included = true).
Proof.
  induction incs as [|[q qs] incs IH]; intros acc included Hr; simpl in Hr.
  - inversion Hr; subst. split; [tauto|]. split; [tauto|]. intros p sys nd [].
  - pose proof (remember_one cfg fs start date input acc q qs) as H1.
    destruct (remember_include_file D H HT cfg fs start date input acc q qs) as [acc'|]; [|discriminate].
    destruct H1 as [Hshape [Hmem _]].
    destruct (IH acc' included Hr) as [IHg [IHm IHc]].
    assert (Hmono : forall p, inc_mem D p acc = true -> inc_mem D p acc' = true).
    { intros p Hp. destruct Hshape as [-> | [d [-> _]]]; [exact Hp|]. rewrite inc_mem_app, Hp. reflexivity. }
    split; [|split].
    + intros Hacc. apply IHg. destruct Hshape as [-> | [d [-> Hgd]]]; [exact Hacc|].
      apply Forall_app. split; [exact Hacc | constructor; [exact Hgd | constructor]].
    + intros p Hp. apply IHm. apply Hmono. exact Hp.
    + intros p sys nd [Heq | Hin] Hf Hfile.
      * inversion Heq; subst. apply IHm. apply (Hmem Hf nd Hfile).
      * apply (IHc p sys nd Hin Hf Hfile).
Qed.

(* disabling: exactly when some include the recorder has to look at is bad *)
Lemma remember_all_none cfg fs start date input incs : forall acc,
  Forall (good_header cfg fs start date) acc ->
  (remember_all D H HT cfg fs start date input acc incs = None <->
   exists p sys, In (p, sys) incs /\ filters cfg input p sys /\ bad_include cfg fs start p).
Proof.
  induction incs as [|[q qs] incs IH]; intros acc Hacc; simpl.
  - split; [discriminate | intros [p [sys [[] _]]]].
  - pose proof (remember_one cfg fs start date input acc q qs) as H1.
    destruct (remember_include_file D H HT cfg fs start date input acc q qs) as [acc'|].
    + destruct H1 as [Hshape [_ Hnb]].
      assert (Hacc' : Forall (good_header cfg fs start date) acc').
      { destruct Hshape as [-> | [d [-> Hgd]]]; [exact Hacc|].
        apply Forall_app. split; [exact Hacc | constructor; [exact Hgd | constructor]]. }
      rewrite (IH acc' Hacc'). split.
      * intros [p [sys [Hin Hrest]]]. exists p, sys. split; [right; exact Hin | exact Hrest].
      * intros [p [sys [[Heq | Hin] [Hf Hbad]]]].
        -- inversion Heq; subst. exfalso.
           destruct (inc_mem D p acc) eqn:Hmem.
           ++ destruct (inc_mem_In _ _ Hmem) as [d Hd].
              rewrite Forall_forall in Hacc. apply (bad_not_good _ _ _ _ _ (Hacc _ Hd)). exact Hbad.
           ++ apply (Hnb Hf eq_refl). exact Hbad.
        -- exists p, sys. split; [exact Hin | split; assumption].
    + destruct H1 as [Hf [_ Hbad]]. split; [|reflexivity].
      intros _. exists q, qs. split; [left; reflexivity | split; assumption].
Qed.

Lemma ins_sorted_in (x y : idigest D * path) l : In x (ins_sorted D y l) <-> x = y \/ In x l.
Proof.
  induction l as [|z l IH]; simpl.
  - split; [intros [<- | []]; left; reflexivity | intros [-> | []]; left; reflexivity].
  - destruct (bytes_ltb (snd y) (snd z)); simpl.
    + split; [intros [<- | Hr]; [left; reflexivity | right; exact Hr] | intros [-> | Hr]; [left; reflexivity | right; exact Hr]].
    + rewrite IH. split.
      * intros [<- | [-> | Hr]]; [right; left; reflexivity | left; reflexivity | right; right; exact Hr].
      * intros [-> | [<- | Hr]]; [right; left; reflexivity | left; reflexivity | right; right; exact Hr].
Qed.

Lemma sort_files_in (l : list (path * idigest D)) d p : In (d, p) (sort_files D l) <-> In (p, d) l.
Proof.
  induction l as [|[q e] l IH]; simpl; [tauto|].
  rewrite ins_sorted_in, IH. split.
  - intros [Heq | Hr]; [inversion Heq; subst; left; reflexivity | right; exact Hr].
  - intros [Heq | Hr]; [inversion Heq; subst; left; reflexivity | right; exact Hr].
Qed.

(* ---------------- results of an entry and where they come from ---------------- *)

Definition res_ok (cfg : config) (op : rec_op) (incs : list ientry) : Prop :=
  Forall (recorded_ie cfg (ro_fs op) (ro_date op)) incs /\
  (forall p, must_record cfg op p -> exists ie, In ie incs /\ ie_path D ie = p).

Definition entry_inv (cfg : config) (ops : list rec_op) (e : entry D) : Prop :=
  forall k incs, In (k, incs) (results D e) -> exists op, In op ops /\ ro_key op = k /\ res_ok cfg op incs.

Lemma rs_put_in k v rs k' v' :
  In (k', v') (rs_put D k v rs) -> (k', v') = (k, v) \/ In (k', v') rs.
Proof.
  induction rs as [|[k0 v0] rs IH]; simpl.
  - intros [He | []]. left. symmetry. exact He.
  - destruct (bytes_eqb k0 k).
    + intros [He | Hr]; [left; symmetry; exact He | right; right; exact Hr].
    + destruct (bytes_ltb k k0).
      * intros [He | Hr]; [left; symmetry; exact He | right; exact Hr].
      * intros [He | Hr]; [right; left; exact He|]. destruct (IH Hr) as [Hl | Hr']; [left; exact Hl | right; right; exact Hr'].
Qed.

Lemma mk_include_recorded cfg fs start date d p ie :
  good_header cfg fs start date (p, d) ->
  mk_include D fs start (d, p) = Some ie ->
  recorded_ie cfg fs date ie /\ ie_path D ie = p.
Proof.
  intros [nd [[Hg Hk] [_ [Hnt Hd]]]] Hmk. unfold mk_include in Hmk. simpl in *. rewrite Hg in Hmk.
  inversion Hmk; subst; clear Hmk. simpl. split; [|reflexivity].
  exists nd. simpl. split; [split; assumption|]. split; [reflexivity|]. split.
  - destruct (N.ltb (N.max (n_mtime nd) (n_ctime nd)) start); [left | right]; split; reflexivity.
  - split; assumption.
Qed.

Lemma apply_rec_inv cfg ops e op :
  entry_inv cfg ops e -> entry_inv cfg (ops ++ [op]) (fst (apply_rec D H HT cfg e op)).
Proof.
  intros Hinv.
  assert (Hweak : entry_inv cfg (ops ++ [op]) e).
  { intros k incs Hin. destruct (Hinv k incs Hin) as [o [Ho Hrest]]. exists o. split; [apply in_or_app; left; exact Ho | exact Hrest]. }
  unfold apply_rec, record.
  destruct (remember_all D H HT cfg (ro_fs op) (ro_start op) (ro_date op) (ro_input op) [] (ro_incs op))
    as [included|] eqn:Hrem; [|exact Hweak].
  destruct included as [|x0 included0] eqn:Hincl; [exact Hweak|]. rewrite <- Hincl in *. clear Hincl.
  simpl fst.
  destruct (remember_all_spec _ _ _ _ _ _ _ _ Hrem) as [Hgood [_ Hcompl]].
  specialize (Hgood (Forall_nil _)).
  set (base := if ro_fresh op then entry_new D else e).
  assert (Hbase : entry_inv cfg (ops ++ [op]) base).
  { unfold base. destruct (ro_fresh op); [intros k incs []|exact Hweak]. }
  unfold add_result.
  set (e1 := if N.ltb max_pp_cache_entries (len (results D base))
             then {| number_of_entries := 0; results := [] |} else base).
  assert (He1 : entry_inv cfg (ops ++ [op]) e1).
  { unfold e1. destruct (N.ltb max_pp_cache_entries (len (results D base))); [intros k incs []|exact Hbase]. }
  destruct (map_opt (mk_include D (ro_fs op) (ro_start op)) (sort_files D included)) as [incs|] eqn:Hmap; [|exact He1].
  set (rs := if N.ltb max_pp_cache_file_info_entries (len incs + number_of_entries D e1) then [] else results D e1).
  assert (Hrs : forall k v, In (k, v) rs -> In (k, v) (results D e1)).
  { unfold rs. destruct (N.ltb max_pp_cache_file_info_entries (len incs + number_of_entries D e1)); [intros k v []|tauto]. }
  assert (Hnew : res_ok cfg op incs).
  { apply map_opt_Forall2 in Hmap. split.
    - apply Forall_forall. intros ie Hie.
      destruct (Forall2_in_r _ _ _ _ Hmap Hie) as [[d p] [Hdp Hmk]].
      apply sort_files_in in Hdp. rewrite Forall_forall in Hgood.
      apply (mk_include_recorded cfg _ _ _ d p ie (Hgood _ Hdp) Hmk).
    - intros p [sys [nd [Hin [Hf Hfile]]]].
      pose proof (Hcompl p sys nd Hin Hf Hfile) as Hmem.
      destruct (inc_mem_In _ _ Hmem) as [d Hd].
      assert (Hd' : In (d, p) (sort_files D included)) by (apply sort_files_in; exact Hd).
      destruct (Forall2_in_l _ _ _ _ Hmap Hd') as [ie [Hie Hmk]].
      exists ie. split; [exact Hie|]. rewrite Forall_forall in Hgood.
      apply (mk_include_recorded cfg _ _ _ d p ie (Hgood _ Hd) Hmk). }
  assert (Hfinal : forall k' v', In (k', v') (rs_put D (ro_key op) incs rs) ->
                                 exists o, In o (ops ++ [op]) /\ ro_key o = k' /\ res_ok cfg o v').
  { intros k' v' Hin. apply rs_put_in in Hin. destruct Hin as [Heq | Hold].
    - inversion Heq; subst. exists op. split; [apply in_or_app; right; left; reflexivity|]. split; [reflexivity | exact Hnew].
    - apply (He1 k' v'). apply Hrs. exact Hold. }
  destruct (rs_find D (ro_key op) rs); intros k' v' Hin; apply Hfinal; exact Hin.
Qed.

Lemma run_recs_inv cfg ops : entry_inv cfg ops (run_recs D H HT cfg ops).
Proof.
  unfold run_recs.
  assert (Hgen : forall ops1 ops0 e, entry_inv cfg ops0 e ->
            entry_inv cfg (ops0 ++ ops1) (fold_left (fun e op => fst (apply_rec D H HT cfg e op)) ops1 e)).
  { induction ops1 as [|op ops1 IH]; intros ops0 e Hinv; simpl.
    - rewrite app_nil_r. exact Hinv.
    - replace (ops0 ++ op :: ops1) with ((ops0 ++ [op]) ++ ops1) by (rewrite <- app_assoc; reflexivity).
      apply IH. apply apply_rec_inv. exact Hinv. }
  apply (Hgen ops [] (entry_new D)). intros k incs [].
Qed.

Lemma first_match_some cfg fs date rs k :
  first_match D Deqb H HT cfg fs date rs = Some k ->
  exists incs, In (k, incs) rs /\ result_matches D Deqb H HT cfg fs date incs = true.
Proof.
  induction rs as [|[k0 v0] rs IH]; simpl; [discriminate|].
  destruct (result_matches D Deqb H HT cfg fs date v0) eqn:Hrm.
  - intros He. inversion He; subst. exists v0. split; [left; reflexivity | exact Hrm].
  - intros He. destruct (IH He) as [incs [Hin Hm]]. exists incs. split; [right; exact Hin | exact Hm].
Qed.

(* ---------------- C04_lookup_sound ---------------- *)

Theorem lookup_sound cfg (ops : list rec_op) fs1 date1 k :
  (file_stat_matches cfg = true -> use_ctime_for_stat cfg = true ->
   forall op, In op ops -> stat_trust (ro_fs op) fs1) ->
  lookup_result_digest D Deqb H HT cfg fs1 date1 (run_recs D H HT cfg ops) = Some k ->
  exists op, In op ops /\ ro_key op = k /\
    forall p, must_record cfg op p -> unchanged cfg (ro_fs op) (ro_date op) fs1 date1 p.
Proof.
  intros Htrust Hl. unfold lookup_result_digest in Hl.
  apply first_match_some in Hl. destruct Hl as [incs [Hin Hrm]].
  apply in_rev in Hin.
  destruct (run_recs_inv cfg ops k incs Hin) as [op [Hop [Hk [Hrec Hcompl]]]].
  exists op. split; [exact Hop|]. split; [exact Hk|].
  intros p Hmust. destruct (Hcompl p Hmust) as [ie [Hie Hp]]. subst p.
  unfold result_matches in Hrm. rewrite forallb_forall in Hrm.
  rewrite Forall_forall in Hrec.
  apply (include_sound cfg _ _ _ _ ie (Hrec ie Hie)).
  - intros Hf Hu. apply (Htrust Hf Hu op Hop).
  - apply Hrm. exact Hie.
Qed.

(* add_result stores a result with ALL the files it was given, or not at all *)
Lemma rs_find_put k v rs : rs_find D k (rs_put D k v rs) = Some v.
Proof.
  induction rs as [|[k0 v0] rs IH]; simpl.
  - rewrite bytes_eqb_refl. reflexivity.
  - destruct (bytes_eqb k0 k) eqn:Hk; simpl; [rewrite bytes_eqb_refl; reflexivity|].
    destruct (bytes_ltb k k0); simpl; [rewrite bytes_eqb_refl; reflexivity|]. rewrite Hk. exact IH.
Qed.

Lemma mk_include_fields fs start f ie :
  mk_include D fs start f = Some ie -> ie_path D ie = snd f /\ ie_digest D ie = fst f /\ fs_get fs (snd f) <> None.
Proof.
  unfold mk_include. destruct (fs_get fs (snd f)); [|discriminate]. intros He. inversion He; subst.
  simpl. repeat split; try reflexivity. discriminate.
Qed.

Theorem add_result_all_or_nothing (e : entry D) fs start k (files : list (idigest D * path)) :
  (exists incs,
      rs_find D k (results D (add_result D e fs start k files)) = Some incs /\
      map (ie_path D) incs = map snd files /\ map (ie_digest D) incs = map fst files /\
      (forall f, In f files -> fs_get fs (snd f) <> None))
  \/
  ((exists f, In f files /\ fs_get fs (snd f) = None) /\
   forall k' v, In (k', v) (results D (add_result D e fs start k files)) -> In (k', v) (results D e)).
Proof.
  unfold add_result.
  set (e1 := if N.ltb max_pp_cache_entries (len (results D e))
             then {| number_of_entries := 0; results := [] |} else e).
  assert (He1 : forall k' v, In (k', v) (results D e1) -> In (k', v) (results D e)).
  { unfold e1. destruct (N.ltb max_pp_cache_entries (len (results D e))); [intros k' v []|tauto]. }
  destruct (map_opt (mk_include D fs start) files) as [incs|] eqn:Hmap.
  - left. exists incs.
    assert (Hfields : map (ie_path D) incs = map snd files /\ map (ie_digest D) incs = map fst files /\
                      (forall f, In f files -> fs_get fs (snd f) <> None)).
    { apply map_opt_Forall2 in Hmap. induction Hmap as [|f ie fl il Hmk HF IH]; [repeat split; intros f []|].
      destruct (mk_include_fields _ _ _ _ Hmk) as [Hp [Hd Hs]]. destruct IH as [IHp [IHd IHs]].
      simpl. rewrite Hp, Hd, IHp, IHd. repeat split. intros f0 [<- | Hin]; [exact Hs | apply IHs; exact Hin]. }
    split; [|exact Hfields].
    destruct (rs_find D k (if N.ltb max_pp_cache_file_info_entries (len incs + number_of_entries D e1) then [] else results D e1));
      simpl; apply rs_find_put.
  - right. split; [|exact He1].
    destruct (map_opt_none _ _ Hmap) as [f [Hin Hnone]]. exists f. split; [exact Hin|].
    unfold mk_include in Hnone. destruct (fs_get fs (snd f)); [discriminate | reflexivity].
Qed.

(* ---- the window between the include recorder and add_result ----
   In between (the preprocessor output is hashed there) files may have been REMOVED, or REWRITTEN: a file that is not
   the one the recorder saw has been written at or after the start instant (mtime or ctime >= start; see
   Proofs/PpTimeline.v for why).  add_result then stores no time stamps for it (should_cache_time), so that it is
   always compared by contents. *)
Definition sub_fs (fs_add fs : fsnap) : Prop := forall p nd, fs_get fs_add p = Some nd -> fs_get fs p = Some nd.

Definition win_ok (start : N) (fs_add fs : fsnap) : Prop :=
  forall p nd, fs_get fs_add p = Some nd ->
               fs_get fs p = Some nd \/ start <= n_mtime nd \/ start <= n_ctime nd.

Lemma sub_fs_win_ok start fs_add fs : sub_fs fs_add fs -> win_ok start fs_add fs.
Proof. intros Hs p nd Hg. left. apply Hs. exact Hg. Qed.

(* a recorded include entry whose stat data (size, mtime, ctime) is either that of the file the recorder hashed,
   or absent *)
Definition recorded_ie_w (cfg : config) (fs : fsnap) (date : bytes) (ie : ientry) : Prop :=
  exists nd,
    file_at fs (ie_path D ie) nd /\
    ((ie_mtime D ie = Some (n_mtime nd) /\ ie_ctime D ie = Some (n_ctime nd) /\ ie_size D ie = n_size nd) \/
     (ie_mtime D ie = None /\ ie_ctime D ie = None)) /\
    fl_time (rec_flags cfg (n_bytes nd)) = false /\
    ifd (H (n_bytes nd)) (rec_flags cfg (n_bytes nd)) date (Some (n_mtime nd)) = Some (ie_digest D ie).

(* one accepted include, for the relaxed notion of a recorded entry *)
Lemma include_sound_w cfg fs0 date0 fs1 date1 ie :
  recorded_ie_w cfg fs0 date0 ie ->
  (file_stat_matches cfg = true -> use_ctime_for_stat cfg = true -> stat_trust fs0 fs1) ->
  include_matches D Deqb H HT cfg fs1 date1 ie = true ->
  unchanged cfg fs0 date0 fs1 date1 (ie_path D ie).
Proof.
  intros [nd0 [[Hg0 Hk0] [Htimes [Hnt Hdig]]]] Htrust Hm.
  unfold include_matches in Hm.
  destruct (fs_get fs1 (ie_path D ie)) as [nd1|] eqn:Hg1; [|discriminate].
  destruct (N.eqb (n_size nd1) (ie_size D ie)) eqn:Hsz; cbn [negb] in Hm; [|discriminate].
  apply N.eqb_eq in Hsz.
  destruct (stat_shortcut D cfg ie nd1) eqn:Hss.
  - (* accepted by (size, mtime, ctime) *)
    unfold stat_shortcut in Hss.
    destruct (file_stat_matches cfg) eqn:Hfsm; simpl in Hss; [|discriminate].
    destruct (is_salted D (ie_digest D ie)) eqn:Hsalt; simpl in Hss; [discriminate|].
    destruct Htimes as [[Hmt [Hct Hsz0]] | [Hmt Hct]]; [rewrite Hmt, Hct in Hss | rewrite Hmt in Hss; discriminate].
    destruct (use_ctime_for_stat cfg) eqn:Huc; [|discriminate].
    apply andb_true_iff in Hss as [Hm1 Hc1]. apply N.eqb_eq in Hm1. apply N.eqb_eq in Hc1.
    destruct (Htrust eq_refl eq_refl (ie_path D ie) nd0 nd1 Hg0 Hg1 Hk0) as [Hk1 Hb]; try congruence.
    exists nd0, nd1. split; [split; assumption|]. split; [split; assumption|]. split; [exact Hb|].
    destruct (ifd_plain _ _ _ _ _ Hdig Hsalt) as [Hfd Hft].
    split; [|split]; intros Hitm Hmen; exfalso; unfold rec_flags in Hfd, Hft, Hnt; rewrite Hitm in Hfd, Hft, Hnt.
    + rewrite (mentions_flag_date _ Hmen) in Hfd. discriminate.
    + rewrite (mentions_flag_timestamp _ Hmen) in Hft. discriminate.
    + apply flag_time_mentions in Hmen. congruence.
  - (* contents comparison *)
    unfold fs_read in Hm. rewrite Hg1 in Hm.
    destruct (n_kind nd1) eqn:Hk1; try discriminate.
    destruct (ignore_time_macros cfg) eqn:Hitm.
    + apply idigest_eqb_true in Hm.
      unfold rec_flags in Hdig. rewrite Hitm in Hdig. cbn in Hdig. rewrite Hm in Hdig.
      inversion Hdig as [He]. apply H_inj in He.
      exists nd0, nd1. split; [split; assumption|]. split; [split; assumption|]. split; [symmetry; exact He|].
      split; [|split]; intros Hc; congruence.
    + destruct (fl_time (scan_file (n_bytes nd1))) eqn:Hft1; [discriminate|].
      destruct (ifd (H (n_bytes nd1)) (scan_file (n_bytes nd1)) date1
                    (if fl_timestamp (scan_file (n_bytes nd1)) then Some (n_mtime nd1) else None)) as [d1|] eqn:Hd1;
        [|discriminate].
      apply idigest_eqb_true in Hm. subst d1.
      unfold rec_flags in Hdig, Hnt. rewrite Hitm in Hdig, Hnt.
      pose proof (ifd_content _ _ _ _ _ _ _ _ _ Hd1 Hdig) as Hc. apply H_inj in Hc.
      rewrite Hc in Hd1.
      destruct (ifd_time _ _ _ _ _ _ _ Hd1 Hdig) as [Hdate Hts].
      exists nd0, nd1. split; [split; assumption|]. split; [split; assumption|]. split; [exact Hc|].
      split; [|split]; intros _ Hmen.
      * apply Hdate. apply mentions_flag_date. exact Hmen.
      * pose proof (mentions_flag_timestamp _ Hmen) as Hf. specialize (Hts Hf). rewrite Hf in Hts.
        inversion Hts. reflexivity.
      * apply flag_time_mentions in Hmen. congruence.
Qed.


Definition res_ok_w (cfg : config) (op : rec_op) (incs : list ientry) : Prop :=
  Forall (recorded_ie_w cfg (ro_fs op) (ro_date op)) incs /\
  (forall p, must_record cfg op p -> exists ie, In ie incs /\ ie_path D ie = p).

Definition entry_inv_w (cfg : config) (ops : list rec_op) (e : entry D) : Prop :=
  forall k incs, In (k, incs) (results D e) -> exists op, In op ops /\ ro_key op = k /\ res_ok_w cfg op incs.

(* add_result stores no time stamps for a file written at or after the compile start (should_cache_time) *)
Theorem mk_include_no_stat_for_new fs start f ie nd :
  mk_include D fs start f = Some ie -> fs_get fs (snd f) = Some nd ->
  (start <= n_mtime nd \/ start <= n_ctime nd) ->
  ie_mtime D ie = None /\ ie_ctime D ie = None.
Proof.
  unfold mk_include. intros Hmk Hg Hnew. rewrite Hg in Hmk.
  assert (Hl : N.ltb (N.max (n_mtime nd) (n_ctime nd)) start = false) by (apply N.ltb_ge; lia).
  rewrite Hl in Hmk. inversion Hmk; subst. split; reflexivity.
Qed.

Lemma mk_include_recorded_w cfg fs fs_add start date d p ie :
  win_ok start fs_add fs ->
  good_header cfg fs start date (p, d) ->
  mk_include D fs_add start (d, p) = Some ie ->
  recorded_ie_w cfg fs date ie /\ ie_path D ie = p.
Proof.
  intros Hwin [nd [[Hg Hk] [_ [Hnt Hd]]]] Hmk. unfold mk_include in Hmk. simpl in *.
  destruct (fs_get fs_add p) as [nd'|] eqn:Hg'; [|discriminate].
  inversion Hmk; subst; clear Hmk. simpl. split; [|reflexivity].
  exists nd. simpl. split; [split; assumption|]. split; [|split; assumption].
  destruct (Hwin p nd' Hg') as [Hsame | Hnew].
  - rewrite Hg in Hsame. inversion Hsame; subst nd'.
    destruct (N.ltb (N.max (n_mtime nd) (n_ctime nd)) start); [left | right]; repeat split; reflexivity.
  - right. assert (Hl : N.ltb (N.max (n_mtime nd') (n_ctime nd')) start = false) by (apply N.ltb_ge; lia).
    rewrite Hl. split; reflexivity.
Qed.

Lemma apply_rec_w_inv cfg ops e op fs_add :
  win_ok (ro_start op) fs_add (ro_fs op) ->
  entry_inv_w cfg ops e -> entry_inv_w cfg (ops ++ [op]) (fst (apply_rec_w D H HT cfg e op fs_add)).
Proof.
  intros Hsub Hinv.
  assert (Hweak : entry_inv_w cfg (ops ++ [op]) e).
  { intros k incs Hin. destruct (Hinv k incs Hin) as [o [Ho Hrest]]. exists o. split; [apply in_or_app; left; exact Ho | exact Hrest]. }
  unfold apply_rec_w, record_w.
  destruct (remember_all D H HT cfg (ro_fs op) (ro_start op) (ro_date op) (ro_input op) [] (ro_incs op))
    as [included|] eqn:Hrem; [|exact Hweak].
  destruct included as [|x0 included0] eqn:Hincl; [exact Hweak|]. rewrite <- Hincl in *. clear Hincl.
  simpl fst.
  destruct (remember_all_spec _ _ _ _ _ _ _ _ Hrem) as [Hgood [_ Hcompl]].
  specialize (Hgood (Forall_nil _)).
  set (base := if ro_fresh op then entry_new D else e).
  assert (Hbase : entry_inv_w cfg (ops ++ [op]) base).
  { unfold base. destruct (ro_fresh op); [intros k incs []|exact Hweak]. }
  unfold add_result.
  set (e1 := if N.ltb max_pp_cache_entries (len (results D base))
             then {| number_of_entries := 0; results := [] |} else base).
  assert (He1 : entry_inv_w cfg (ops ++ [op]) e1).
  { unfold e1. destruct (N.ltb max_pp_cache_entries (len (results D base))); [intros k incs []|exact Hbase]. }
  destruct (map_opt (mk_include D fs_add (ro_start op)) (sort_files D included)) as [incs|] eqn:Hmap; [|exact He1].
  set (rs := if N.ltb max_pp_cache_file_info_entries (len incs + number_of_entries D e1) then [] else results D e1).
  assert (Hrs : forall k v, In (k, v) rs -> In (k, v) (results D e1)).
  { unfold rs. destruct (N.ltb max_pp_cache_file_info_entries (len incs + number_of_entries D e1)); [intros k v []|tauto]. }
  assert (Hnew : res_ok_w cfg op incs).
  { apply map_opt_Forall2 in Hmap. split.
    - apply Forall_forall. intros ie Hie.
      destruct (Forall2_in_r _ _ _ _ Hmap Hie) as [[d p] [Hdp Hmk]].
      apply sort_files_in in Hdp. rewrite Forall_forall in Hgood.
      apply (mk_include_recorded_w cfg _ _ _ _ d p ie Hsub (Hgood _ Hdp) Hmk).
    - intros p [sys [nd [Hin [Hf Hfile]]]].
      pose proof (Hcompl p sys nd Hin Hf Hfile) as Hmem.
      destruct (inc_mem_In _ _ Hmem) as [d Hd].
      assert (Hd' : In (d, p) (sort_files D included)) by (apply sort_files_in; exact Hd).
      destruct (Forall2_in_l _ _ _ _ Hmap Hd') as [ie [Hie Hmk]].
      exists ie. split; [exact Hie|]. rewrite Forall_forall in Hgood.
      apply (mk_include_recorded_w cfg _ _ _ _ d p ie Hsub (Hgood _ Hd) Hmk). }
  assert (Hfinal : forall k' v', In (k', v') (rs_put D (ro_key op) incs rs) ->
                                 exists o, In o (ops ++ [op]) /\ ro_key o = k' /\ res_ok_w cfg o v').
  { intros k' v' Hin. apply rs_put_in in Hin. destruct Hin as [Heq | Hold].
    - inversion Heq; subst. exists op. split; [apply in_or_app; right; left; reflexivity|]. split; [reflexivity | exact Hnew].
    - apply (He1 k' v'). apply Hrs. exact Hold. }
  destruct (rs_find D (ro_key op) rs); intros k' v' Hin; apply Hfinal; exact Hin.
Qed.

Definition run_recs_w (cfg : config) (ops : list (rec_op * fsnap)) : entry D :=
  fold_left (fun e o => fst (apply_rec_w D H HT cfg e (fst o) (snd o))) ops (entry_new D).

Lemma run_recs_w_inv cfg (ops : list (rec_op * fsnap)) :
  Forall (fun o => win_ok (ro_start (fst o)) (snd o) (ro_fs (fst o))) ops ->
  entry_inv_w cfg (map fst ops) (run_recs_w cfg ops).
Proof.
  unfold run_recs_w. intros Hall.
  assert (Hgen : forall ops1 ops0 e, Forall (fun o => win_ok (ro_start (fst o)) (snd o) (ro_fs (fst o))) ops1 ->
            entry_inv_w cfg ops0 e ->
            entry_inv_w cfg (ops0 ++ map fst ops1)
                      (fold_left (fun e o => fst (apply_rec_w D H HT cfg e (fst o) (snd o))) ops1 e)).
  { induction ops1 as [|o ops1 IH]; intros ops0 e Hf Hinv; simpl.
    - rewrite app_nil_r. exact Hinv.
    - inversion Hf as [|o' l' Ho Hrest]; subst.
      replace (ops0 ++ fst o :: map fst ops1) with ((ops0 ++ [fst o]) ++ map fst ops1) by (rewrite <- app_assoc; reflexivity).
      apply IH; [exact Hrest|]. apply apply_rec_w_inv; assumption. }
  apply (Hgen ops [] (entry_new D) Hall). intros k incs [].
Qed.

Theorem lookup_sound_w cfg (ops : list (rec_op * fsnap)) fs1 date1 k :
  Forall (fun o => win_ok (ro_start (fst o)) (snd o) (ro_fs (fst o))) ops ->
  (file_stat_matches cfg = true -> use_ctime_for_stat cfg = true ->
   forall op, In op (map fst ops) -> stat_trust (ro_fs op) fs1) ->
  lookup_result_digest D Deqb H HT cfg fs1 date1 (run_recs_w cfg ops) = Some k ->
  exists op, In op (map fst ops) /\ ro_key op = k /\
    forall p, must_record cfg op p -> unchanged cfg (ro_fs op) (ro_date op) fs1 date1 p.
Proof.
  intros Hall Htrust Hl. unfold lookup_result_digest in Hl.
  apply first_match_some in Hl. destruct Hl as [incs [Hin Hrm]].
  apply in_rev in Hin.
  destruct (run_recs_w_inv cfg ops Hall k incs Hin) as [op [Hop [Hk [Hrec Hcompl]]]].
  exists op. split; [exact Hop|]. split; [exact Hk|].
  intros p Hmust. destruct (Hcompl p Hmust) as [ie [Hie Hp]]. subst p.
  unfold result_matches in Hrm. rewrite forallb_forall in Hrm.
  rewrite Forall_forall in Hrec.
  apply (include_sound_w cfg _ _ _ _ ie (Hrec ie Hie)).
  - intros Hf Hu. apply (Htrust Hf Hu op Hop).
  - apply Hrm. exact Hie.
Qed.

(* ---------------- C04_record_sound ---------------- *)

Theorem record_sound cfg e (op : rec_op) :
  (snd (apply_rec D H HT cfg e op) = RecDisabled <->
   exists p sys, In (p, sys) (ro_incs op) /\ filters cfg (ro_input op) p sys /\
                 bad_include cfg (ro_fs op) (ro_start op) p) /\
  (snd (apply_rec D H HT cfg e op) <> RecOk -> fst (apply_rec D H HT cfg e op) = e).
Proof.
  unfold apply_rec, record.
  pose proof (remember_all_none cfg (ro_fs op) (ro_start op) (ro_date op) (ro_input op) (ro_incs op) []
                                (Forall_nil _)) as Hnone.
  destruct (remember_all D H HT cfg (ro_fs op) (ro_start op) (ro_date op) (ro_input op) [] (ro_incs op))
    as [included|] eqn:Hrem.
  - destruct included as [|x l]; simpl.
    + split; [|reflexivity]. split; [discriminate|]. intros Hex. apply Hnone in Hex. discriminate.
    + split; [|intros Hc; exfalso; apply Hc; reflexivity]. split; [discriminate|]. intros Hex. apply Hnone in Hex. discriminate.
  - simpl. split; [|reflexivity]. split; [intros _; apply Hnone; reflexivity | reflexivity].
Qed.

(* ---------------- C04_mode_equivalence ---------------- *)
(* The preprocessor and the two key functions are abstract.  `pp req env fs date` is the preprocessor output for
   the request `req` (hashed arguments, input path) with the allow-listed variables `env`; `reads` are the files it
   opened (besides the input file) and `probes` the paths it looked up and did not find. *)
Section Mode.
  Variable Req : Type.
  Definition env_t := list (bytes * bytes).
  Variable env_pp env_main : list bytes.            (* the two CACHED_ENV_VARS lists *)
  Variable pp : Req -> env_t -> fsnap -> bytes -> bytes.
  Variable reads probes : Req -> env_t -> fsnap -> bytes -> list path.
  Variable main_key : Req -> env_t -> bytes -> key. (* hash_key over hashed args, allow-listed env, pp output *)

  Definition name_in (names : list bytes) (n : bytes) : bool := existsb (fun m => bytes_eqb m n) names.
  Definition filter_env (names : list bytes) (env : env_t) : env_t := filter (fun kv => name_in names (fst kv)) env.

  (* every file the preprocessor read is the same, with the same macro expansions; nothing it looked for and
     missed has appeared *)
  Definition same_inputs (req : Req) (env : env_t) (fs0 : fsnap) (d0 : bytes) (fs1 : fsnap) (d1 : bytes) : Prop :=
    (forall p, In p (reads req env fs0 d0) ->
       exists nd0 nd1, file_at fs0 p nd0 /\ file_at fs1 p nd1 /\ n_bytes nd1 = n_bytes nd0 /\
         (mentions WDate (n_bytes nd0) -> d1 = d0) /\
         (mentions WTimestamp (n_bytes nd0) -> n_mtime nd1 = n_mtime nd0) /\
         ~ mentions WTime (n_bytes nd0)) /\
    (forall p, In p (probes req env fs0 d0) -> fs_get fs1 p = None).

  (* frame of the preprocessor *)
  Hypothesis pp_frame : forall req env fs0 d0 fs1 d1,
    same_inputs req env fs0 d0 fs1 d1 -> pp req env fs1 d1 = pp req env fs0 d0.

  Lemma filter_env_subset env :
    (forall n, In n env_main -> In n env_pp) ->
    filter_env env_main (filter_env env_pp env) = filter_env env_main env.
  Proof.
    intros Hsub. unfold filter_env. induction env as [|kv env IH]; simpl; [reflexivity|].
    destruct (name_in env_main (fst kv)) eqn:Hm.
    - assert (Hp : name_in env_pp (fst kv) = true).
      { unfold name_in in *. apply existsb_exists in Hm as [m [Hin He]]. apply existsb_exists.
        exists m. split; [apply Hsub; exact Hin | exact He]. }
      rewrite Hp. simpl. rewrite Hm, IH. reflexivity.
    - destruct (name_in env_pp (fst kv)); simpl; [rewrite Hm|]; exact IH.
  Qed.

  (* The manifest (preprocessor-cache entry) a request is looked up in is chosen by the pp-level key
     `preprocessor_cache_entry_hash_key`: a digest of the request's hashed arguments (each with its own length
     prefix), the allow-listed variables, the input path and the input file digest.  It is abstract here; what the
     theorem needs is the NAMED hypothesis that it is injective in (request, allow-listed environment, input
     digest).  That hypothesis is what property C02 proves about the real encoding:
     Properties/C02.v `C02_pp_encode_injective` (+ collision-freeness of BLAKE3 on the encodings). *)
  Variable K : Type.
  Variable pp_key : Req -> env_t -> idigest D -> K.
  Hypothesis pp_key_injective :
    forall r e d r' e' d', pp_key r e d = pp_key r' e' d' -> r = r' /\ e = e' /\ d = d'.
  Variable input_path : path.

  Definition input_digest_in (cfg : config) (fs : fsnap) (date : bytes) : option (idigest D) :=
    match fs_get fs input_path with
    | Some nd => match n_kind nd with
                 | KFile => input_file_digest D H HT cfg (n_bytes nd) date (n_mtime nd)
                 | _ => None
                 end
    | None => None
    end.

  (* the request (req, env) in file system fs at date `date` is served by the manifest with key mk *)
  Definition in_manifest (cfg : config) (req : Req) (env : env_t) (fs : fsnap) (date : bytes) (mk : K) : Prop :=
    exists d, input_digest_in cfg fs date = Some d /\ pp_key req (filter_env env_pp env) d = mk.

  (* a recording made by a real compile of request (req0, env0) into manifest mk: the stored key is the main key of
     the preprocessor output in that file system, and the line markers announced every file that was read *)
  Definition faithful (cfg : config) (req0 : Req) (env0 : env_t) (mk : K) (op : rec_op) : Prop :=
    in_manifest cfg req0 env0 (ro_fs op) (ro_date op) mk /\
    ro_key op = main_key req0 (filter_env env_main env0)
                         (pp req0 (filter_env env_pp env0) (ro_fs op) (ro_date op)) /\
    (forall p, In p (reads req0 (filter_env env_pp env0) (ro_fs op) (ro_date op)) ->
               p = input_path \/ must_record cfg op p).

  Theorem mode_equivalence cfg (req0 req1 : Req) (env0 env1 : env_t) (mk : K) (ops : list rec_op) fs1 date1 k :
    (* S16 side condition, see C02 *)
    forall (env_main_subset_env_pp : forall n, In n env_main -> In n env_pp),
    (* options documented as unsafe are off *)
    ignore_time_macros cfg = false ->
    (file_stat_matches cfg = true -> use_ctime_for_stat cfg = true ->
     forall op, In op ops -> stat_trust (ro_fs op) fs1) ->
    (* the manifest was filled by compiles of (req0, env0) and is now consulted for (req1, env1) *)
    (forall op, In op ops -> faithful cfg req0 env0 mk op) ->
    in_manifest cfg req1 env1 fs1 date1 mk ->
    (* documented caveat *)
    forall (no_new_shadowing_file :
              forall op p, In op ops -> In p (probes req0 (filter_env env_pp env0) (ro_fs op) (ro_date op)) ->
                           fs_get fs1 p = None),
    lookup_result_digest D Deqb H HT cfg fs1 date1 (run_recs D H HT cfg ops) = Some k ->
    k = main_key req1 (filter_env env_main env1) (pp req1 (filter_env env_pp env1) fs1 date1).
  Proof.
    intros Hsub Hitm Htrust Hfaith [d1 [Hd1 Hk1]] Hshadow Hl.
    destruct (lookup_sound cfg ops fs1 date1 k Htrust Hl) as [op [Hop [Hk Hunch]]].
    destruct (Hfaith op Hop) as [[d0 [Hd0 Hk0]] [Hkey Hreads]].
    rewrite <- Hk0 in Hk1. apply pp_key_injective in Hk1. destruct Hk1 as [Hreq [Henv Hd]]. subst req1 d1.
    rewrite <- Hk, Hkey.
    rewrite <- (filter_env_subset env0 Hsub), <- (filter_env_subset env1 Hsub), Henv.
    f_equal. symmetry. apply pp_frame. split.
    - intros p Hp. destruct (Hreads p Hp) as [-> | Hmust].
      + (* the input file: covered by the manifest key *)
        unfold input_digest_in in Hd0, Hd1.
        destruct (fs_get (ro_fs op) input_path) as [nd0|] eqn:Hg0; [|discriminate].
        destruct (n_kind nd0) eqn:Hk0'; try discriminate.
        destruct (fs_get fs1 input_path) as [nd1|] eqn:Hg1; [|discriminate].
        destruct (n_kind nd1) eqn:Hk1'; try discriminate.
        destruct (input_digest_sound cfg _ _ _ _ _ _ _ Hd0 Hd1) as [Hb [Hdt [Hts Hnt]]].
        exists nd0, nd1. split; [split; assumption|]. split; [split; assumption|]. split; [exact Hb|].
        split; [apply Hdt; exact Hitm|]. split; [apply Hts; exact Hitm | apply Hnt; exact Hitm].
      + destruct (Hunch p Hmust) as [nd0 [nd1 [Hf0 [Hf1 [Hb [Hd [Ht Hnt]]]]]]].
        exists nd0, nd1. split; [exact Hf0|]. split; [exact Hf1|]. split; [exact Hb|].
        split; [apply Hd; exact Hitm|]. split; [apply Ht; exact Hitm | apply Hnt; exact Hitm].
    - intros p Hp. apply (Hshadow op p Hop Hp).
  Qed.
End Mode.

End Sound.
