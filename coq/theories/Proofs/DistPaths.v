(* Proofs/DistPaths.v — C13: a simplified input path names the same file; the rlib dependency cache is never stale. *)
From Coq Require Import List NArith Bool Lia.
From Sccache Require Import Model.DistPaths.
Import ListNotations.
Local Open Scope N_scope.

Section Kernel.
  (* the kernel's path walk: from a directory node, one component, symbolic links followed *)
  Variable node : Type.
  Variable walk : node -> comp -> option node.
  Variable start : node.
  Variable is_link : list name -> bool.

  Definition walks (o : option node) (cs : list comp) : option node :=
    fold_left (fun o c => match o with Some n => walk n c | None => None end) cs o.
  Definition resolve (acc : list name) : option node := walks (Some start) (map CName acc).

  (* `.` stays; `..` out of a directory whose own entry is not a symbolic link is its lexical parent *)
  Hypothesis H_dot : forall n, walk n CDot = Some n.
  Hypothesis H_dotdot : forall acc n,
    is_link acc = false -> resolve acc = Some n -> walk n CDotDot = resolve (removelast acc).

  Lemma walks_None cs : walks None cs = None.
  Proof. induction cs as [|c r IH]; [reflexivity | exact IH]. Qed.

  Lemma resolve_snoc acc n :
    resolve (acc ++ [n]) = match resolve acc with Some m => walk m (CName n) | None => None end.
  Proof. unfold resolve, walks. rewrite map_app, fold_left_app. reflexivity. Qed.

  Lemma simplify_same_file : forall cs acc q m,
    simplify is_link cs acc = Some q ->
    walks (resolve acc) cs = Some m ->
    resolve q = Some m.
  Proof.
    induction cs as [|c r IH]; intros acc q m S W; simpl in S.
    - inversion S; subst. exact W.
    - destruct c as [n| |].
      + apply (IH _ _ _ S). rewrite resolve_snoc. exact W.
      + destruct (is_link acc) eqn:L; [discriminate|].
        apply (IH _ _ _ S). simpl in W.
        destruct (resolve acc) as [k|] eqn:R; [|rewrite walks_None in W; discriminate].
        rewrite <- (H_dotdot acc k L R). exact W.
      + apply (IH _ _ _ S). simpl in W.
        destruct (resolve acc) as [k|] eqn:R; [|rewrite walks_None in W; discriminate].
        rewrite H_dot in W. exact W.
  Qed.
End Kernel.

Lemma simplify_refuses_symlink_parent is_link pre acc rest :
  (forall q, simplify is_link pre [] = Some q -> q = acc) ->
  simplify is_link pre [] = Some acc -> is_link acc = true ->
  forall cs, cs = pre ++ CDotDot :: rest -> simplify is_link cs [] = None.
Proof.
  intros _ S L cs ->.
  assert (G : forall p a0, simplify is_link p a0 = Some acc ->
              simplify is_link (p ++ CDotDot :: rest) a0 = None).
  { induction p as [|c p IH]; intros a0 H; simpl in *.
    - inversion H; subst. rewrite L. reflexivity.
    - destruct c; try (apply IH; exact H).
      destruct (is_link a0); [reflexivity | apply IH; exact H]. }
  apply G. exact S.
Qed.

(* ---- the rlib dependency reader ---- *)
Lemma alookup_cons {A} k k' (v : A) l :
  alookup k ((k', v) :: l) = if N.eqb k' k then Some v else alookup k l.
Proof. reflexivity. Qed.

Lemma rstep_inv s o : r_inv s -> r_inv (fst (rstep s o)).
Proof.
  intros [F C]. destruct o as [p deps|p]; cbn [rstep fst].
  - split; cbn [r_files r_cache r_clock].
    + intros q f. rewrite alookup_cons. destruct (N.eqb p q).
      * intros H; inversion H; subst; simpl. lia.
      * intros H. apply F in H. lia.
    + intros q c H. destruct (C q c H) as [Le Eq]. split; [lia|].
      intros f. rewrite alookup_cons. destruct (N.eqb p q) eqn:E.
      * intros K; inversion K; subst; simpl. intros X. lia.
      * apply Eq.
  - destruct (alookup p (r_files s)) as [f|] eqn:Lf; [|split; assumption].
    assert (NEW : r_inv {| r_files := r_files s; r_cache := (p, f) :: r_cache s; r_clock := r_clock s |}).
    { split; cbn [r_files r_cache r_clock]; [exact F|]. intros q c. rewrite alookup_cons. destruct (N.eqb p q) eqn:E.
      - apply N.eqb_eq in E. subst q. intros H; inversion H; subst c. split; [apply (F p f Lf)|].
        intros f' K. rewrite Lf in K. inversion K; subst. reflexivity.
      - apply C. }
    destruct (alookup p (r_cache s)) as [c|] eqn:Lc; [|exact NEW].
    destruct (N.eqb (f_mtime c) (f_mtime f)); [split; assumption | exact NEW].
Qed.

Lemma rstep_current s p :
  r_inv s ->
  snd (rstep s (RDiscover p)) = match alookup p (r_files s) with Some f => Some (f_deps f) | None => None end.
Proof.
  intros [F C]. simpl. destruct (alookup p (r_files s)) as [f|] eqn:Lf; [|reflexivity].
  destruct (alookup p (r_cache s)) as [c|] eqn:Lc; [|reflexivity].
  destruct (N.eqb (f_mtime c) (f_mtime f)) eqn:E; [|reflexivity].
  apply N.eqb_eq in E. simpl. f_equal. destruct (C p c Lc) as [_ Eq]. apply (Eq f Lf E).
Qed.

Lemma r_init_inv : r_inv r_init.
Proof. split; simpl; intros; discriminate. Qed.

Lemma rrun_inv : forall ops s, r_inv s -> r_inv (snd (rrun s ops)).
Proof.
  induction ops as [|o r IH]; intros s I; simpl; [exact I|].
  pose proof (rstep_inv s o I) as I'. destruct (rstep s o) as [s' x]. simpl in I'.
  specialize (IH s' I'). destruct (rrun s' r) as [xs s'']. exact IH.
Qed.

(* after ANY history of rebuilds and lookups, a lookup answers with what the file's metadata names now *)
Lemma rlib_deps_current ops p :
  let s := snd (rrun r_init ops) in
  snd (rstep s (RDiscover p)) = match alookup p (r_files s) with Some f => Some (f_deps f) | None => None end.
Proof. apply rstep_current. apply rrun_inv. apply r_init_inv. Qed.

(* ---- crate names of library files ---- *)
Lemma lib_prefix_once n : crate_of_libname (lib_prefix ++ n) = Some n.
Proof. reflexivity. Qed.

Lemma name_eqb_refl n : name_eqb n n = true.
Proof. induction n as [|x n IH]; simpl; [reflexivity|]. rewrite N.eqb_refl. exact IH. Qed.

(* the library of every crate the externs' metadata names is packaged, whatever the crate is called -
   in particular when its own name starts with "lib" *)
Lemma named_lib_is_packaged dep_names n :
  In n dep_names -> lib_packaged dep_names (lib_prefix ++ n) = true.
Proof.
  intros I. unfold lib_packaged. rewrite lib_prefix_once. apply existsb_exists.
  exists n. split; [exact I | apply name_eqb_refl].
Qed.

Lemma trim_all_refuted :
  trim_all_lib 10 (lib_prefix ++ [108; 105; 98; 99]) = [99]           (* "liblibc" -> "c" *)
  /\ crate_of_libname (lib_prefix ++ [108; 105; 98; 99]) = Some [108; 105; 98; 99].   (* -> "libc" *)
Proof. split; reflexivity. Qed.
