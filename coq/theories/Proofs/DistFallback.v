(* Proofs/DistFallback.v — C13: fallback classification, no false success, cleanup. *)
From Coq Require Import List NArith ZArith Bool Lia.
From Sccache Require Import Model.DistStatus Model.DistFallback Proofs.DistStatus.
Import ListNotations.

(* ---- the file system ---- *)
Lemma fs_get_remove p q f : fs_get (fs_remove p f) q = if N.eqb p q then None else fs_get f q.
Proof.
  induction f as [|[r c] f IH]; simpl.
  - destruct (N.eqb p q); reflexivity.
  - destruct (N.eqb r p) eqn:E1.
    + apply N.eqb_eq in E1; subst r. rewrite IH.
      destruct (N.eqb p q); reflexivity.
    + simpl. rewrite IH. destruct (N.eqb r q) eqn:E2; [|reflexivity].
      apply N.eqb_eq in E2; subst r. rewrite N.eqb_sym in E1. rewrite E1. reflexivity.
Qed.

Lemma fs_get_write p c q f : fs_get (fs_write p c f) q = if N.eqb p q then Some c else fs_get f q.
Proof.
  unfold fs_write. simpl. destruct (N.eqb p q) eqn:E; [reflexivity|].
  rewrite fs_get_remove, E. reflexivity.
Qed.

Lemma cleanup_snoc ws p f : cleanup (ws ++ [p]) f = fs_remove p (cleanup ws f).
Proof. unfold cleanup. rewrite fold_left_app. reflexivity. Qed.

Lemma cleanup_get_in ws : forall f p, In p ws -> fs_get (cleanup ws f) p = None.
Proof.
  induction ws as [|w ws IH] using rev_ind; intros f p H; [destruct H|].
  rewrite cleanup_snoc, fs_get_remove.
  destruct (N.eqb w p) eqn:E; [reflexivity|].
  apply IH. apply in_app_or in H as [H|[H|[]]]; [exact H|].
  subst. rewrite N.eqb_refl in E. discriminate.
Qed.

Lemma cleanup_get_notin ws : forall f p, ~ In p ws -> fs_get (cleanup ws f) p = fs_get f p.
Proof.
  induction ws as [|w ws IH] using rev_ind; intros f p H; [reflexivity|].
  rewrite cleanup_snoc, fs_get_remove.
  destruct (N.eqb w p) eqn:E.
  - apply N.eqb_eq in E. subst. exfalso. apply H. apply in_or_app. right. left. reflexivity.
  - apply IH. intro K. apply H. apply in_or_app. left. exact K.
Qed.

Definition write_all (c : content) (ws : list path) (f : fs) : fs :=
  fold_left (fun f p => fs_write p c f) ws f.

Lemma write_all_in c ws : forall f p, In p ws -> fs_get (write_all c ws f) p = Some c.
Proof.
  induction ws as [|w ws IH] using rev_ind; intros f p H; [destruct H|].
  unfold write_all. rewrite fold_left_app. cbn [fold_left]. rewrite fs_get_write.
  destruct (N.eqb w p) eqn:E; [reflexivity|].
  apply IH. apply in_app_or in H as [H|[H|[]]]; [exact H|].
  subst. rewrite N.eqb_refl in E. discriminate.
Qed.

Lemma write_all_notin c ws : forall f p, ~ In p ws -> fs_get (write_all c ws f) p = fs_get f p.
Proof.
  induction ws as [|w ws IH] using rev_ind; intros f p H; [reflexivity|].
  unfold write_all. rewrite fold_left_app. cbn [fold_left]. rewrite fs_get_write.
  destruct (N.eqb w p) eqn:E.
  - apply N.eqb_eq in E. subst. exfalso. apply H. apply in_or_app. right. left. reflexivity.
  - apply IH. intro K. apply H. apply in_or_app. left. exact K.
Qed.

Lemma write_all_cons c p ws f : write_all c (p :: ws) f = write_all c ws (fs_write p c f).
Proof. reflexivity. Qed.

(* ---- first_bad ---- *)
Lemma first_bad_shift outs : forall k,
  first_bad outs k = match first_bad outs 0 with Some j => Some (k + j)%nat | None => None end.
Proof.
  induction outs as [|[p w] rest IH]; intros k; simpl; [reflexivity|].
  destruct w; try (f_equal; lia).
  rewrite (IH (S k)), (IH 1%nat). destruct (first_bad rest 0); [f_equal; lia | reflexivity].
Qed.

Lemma first_bad_ok_cons p rest :
  first_bad ((p, WOk) :: rest) 0 = match first_bad rest 0 with Some j => Some (S j) | None => None end.
Proof. simpl. rewrite first_bad_shift. reflexivity. Qed.

(* ---- the output-writing loop ---- *)
(* outside the paths recorded in `written` the disk is as it was before the job *)
Definition tracked (f0 : fs) (written : list path) (f : fs) : Prop :=
  forall p, ~ In p written -> fs_get f p = fs_get f0 p.

Lemma tracked_push f0 written f p c :
  tracked f0 written f -> tracked f0 (written ++ [p]) (fs_write p c f).
Proof.
  intros T q H. rewrite fs_get_write. destruct (N.eqb p q) eqn:E.
  - apply N.eqb_eq in E. subst. exfalso. apply H. apply in_or_app. right. left. reflexivity.
  - apply T. intro K. apply H. apply in_or_app. left. exact K.
Qed.

Lemma loop_done fixed outs : forall written f w' f',
  write_loop fixed outs written f = LoopDone w' f' ->
  w' = written ++ map fst outs /\ f' = write_all CRemote (map fst outs) f
  /\ (forall p w, In (p, w) outs -> w = WOk) /\ first_bad outs 0 = None.
Proof.
  induction outs as [|[p w] rest IH]; intros written f w' f' H; simpl in H.
  - inversion H; subst. rewrite app_nil_r. repeat split; try reflexivity. intros p w [].
  - destruct w; try discriminate; [|destruct fixed; discriminate].
    apply IH in H as (A & B & C & D). repeat split.
    + rewrite A, <- app_assoc. reflexivity.
    + exact B.
    + intros q w [K|K]; [inversion K; reflexivity | eapply C; exact K].
    + rewrite first_bad_ok_cons, D. reflexivity.
Qed.

Lemma loop_done_total outs : forall fixed written f,
  first_bad outs 0 = None -> exists w' f', write_loop fixed outs written f = LoopDone w' f'.
Proof.
  induction outs as [|[p w] rest IH]; intros fixed written f H; simpl.
  - eauto.
  - destruct w; simpl in H; try discriminate.
    apply IH. rewrite first_bad_shift in H. destruct (first_bad rest 0); [discriminate | reflexivity].
Qed.

Lemma loop_err outs : forall f0 written f j,
  tracked f0 written f ->
  first_bad outs 0 = Some j ->
  exists f', write_loop true outs written f = LoopErr f'
    /\ (forall q, In q (written ++ map fst (firstn (S j) outs)) -> fs_get f' q = None)
    /\ (forall q, ~ In q (written ++ map fst (firstn (S j) outs)) -> fs_get f' q = fs_get f0 q).
Proof.
  induction outs as [|[p w] rest IH]; intros f0 written f j T H; [discriminate|].
  destruct w.
  - (* WOk *)
    rewrite first_bad_ok_cons in H. destruct (first_bad rest 0) as [j'|] eqn:E; [|discriminate].
    inversion H; subst j.
    destruct (IH f0 (written ++ [p]) (fs_write p CRemote f) j' (tracked_push _ _ _ _ _ T) eq_refl)
      as (f' & A & B & C).
    exists f'. split; [exact A|].
    assert (EQ : written ++ map fst (firstn (S (S j')) ((p, WOk) :: rest))
                 = (written ++ [p]) ++ map fst (firstn (S j') rest)).
    { rewrite <- app_assoc. reflexivity. }
    rewrite EQ. split; assumption.
  - (* WCreate *)
    simpl in H. inversion H; subst j. simpl. eexists. split; [reflexivity|]. split.
    + intros q K. apply cleanup_get_in. exact K.
    + intros q K. rewrite cleanup_get_notin by exact K. apply T.
      intro I. apply K. apply in_or_app. left. exact I.
  - (* WCopy *)
    simpl in H. inversion H; subst j. simpl. eexists. split; [reflexivity|]. split.
    + intros q K. apply cleanup_get_in. exact K.
    + intros q K. rewrite cleanup_get_notin by exact K. rewrite fs_get_write.
      destruct (N.eqb p q) eqn:E.
      * apply N.eqb_eq in E. subst. exfalso. apply K. apply in_or_app. right. left. reflexivity.
      * apply T. intro I. apply K. apply in_or_app. left. exact I.
  - (* WLen *)
    simpl in H. inversion H; subst j. simpl. eexists. split; [reflexivity|]. split.
    + intros q K. apply cleanup_get_in. exact K.
    + intros q K. rewrite cleanup_get_notin by exact K. rewrite fs_get_write.
      destruct (N.eqb p q) eqn:E.
      * apply N.eqb_eq in E. subst. exfalso. apply K. apply in_or_app. right. left. reflexivity.
      * apply T. intro I. apply K. apply in_or_app. left. exact I.
Qed.

(* ---- do_dist_compile against first_fault ---- *)
Lemma attempt_ok s f :
  first_fault s = None ->
  exists code outs, s_run s = RunComplete code outs
    /\ dist_attempt true s f = AOk code (write_all CRemote (map fst outs) f)
    /\ (forall p w, In (p, w) outs -> w = WOk).
Proof.
  unfold first_fault, dist_attempt.
  destruct (s_prep s); [discriminate|]. destruct (s_put s); [discriminate|].
  destruct (s_alloc s) as [c| |need]; try discriminate.
  destruct (if need then s_submit s else SubOk); try discriminate.
  destruct (s_run s) as [c| |code outs]; try discriminate.
  destruct (first_bad outs 0) eqn:E; [discriminate|].
  destruct (s_rewrite s); [discriminate|]. intros _.
  destruct (loop_done_total outs true [] f E) as (w' & f' & L). rewrite L.
  apply loop_done in L as (A & B & C & D).
  exists code, outs. subst f'. auto.
Qed.

Lemma attempt_err s f st c :
  first_fault s = Some (st, c) ->
  exists f', dist_attempt true s f = AErr c f'
    /\ (forall q, In q (attempted s) -> fs_get f' q = None)
    /\ (forall q, ~ In q (attempted s) -> fs_get f' q = fs_get f q).
Proof.
  unfold attempted, run_outs. intros H. rewrite H. revert H.
  unfold first_fault, dist_attempt.
  destruct (s_prep s). { intros H; inversion H; subst. eexists; split; [reflexivity|]. split; [intros q []|reflexivity]. }
  destruct (s_put s). { intros H; inversion H; subst. eexists; split; [reflexivity|]. split; [intros q []|reflexivity]. }
  destruct (s_alloc s) as [c0| |need].
  { intros H; inversion H; subst. eexists; split; [reflexivity|]. split; [intros q []|reflexivity]. }
  { intros H; inversion H; subst. eexists; split; [reflexivity|]. split; [intros q []|reflexivity]. }
  destruct (if need then s_submit s else SubOk).
  { intros H; inversion H; subst. eexists; split; [reflexivity|]. split; [intros q []|reflexivity]. }
  { intros H; inversion H; subst. eexists; split; [reflexivity|]. split; [intros q []|reflexivity]. }
  { intros H; inversion H; subst. eexists; split; [reflexivity|]. split; [intros q []|reflexivity]. }
  destruct (s_run s) as [c0| |code outs].
  { intros H; inversion H; subst. eexists; split; [reflexivity|]. split; [intros q []|reflexivity]. }
  { intros H; inversion H; subst. eexists; split; [reflexivity|]. split; [intros q []|reflexivity]. }
  destruct (first_bad outs 0) as [j|] eqn:E.
  - intros H; inversion H; subst.
    assert (T : tracked f [] f) by (intros q _; reflexivity).
    destruct (loop_err outs f [] f j T E) as (f' & A & B & C).
    rewrite A. exists f'. simpl in B, C. auto.
  - destruct (s_rewrite s) as [c0|]; [|discriminate].
    intros H; inversion H; subst.
    destruct (loop_done_total outs true [] f E) as (w' & f' & L). rewrite L.
    apply loop_done in L as (A & B & _ & _). simpl in A. subst w' f'.
    eexists; split; [reflexivity|]. split.
    + intros q K. apply cleanup_get_in. exact K.
    + intros q K. rewrite cleanup_get_notin by exact K. apply write_all_notin. exact K.
Qed.

Lemma attempt_never_panics s f : forall f', dist_attempt true s f <> APanic f'.
Proof.
  intros f' H. destruct (first_fault s) as [[st c]|] eqn:E.
  - destruct (attempt_err s f st c E) as (g & A & _). congruence.
  - destruct (attempt_ok s f E) as (code & outs & _ & A & _). congruence.
Qed.

Lemma attempt_err_inv s f c f' :
  dist_attempt true s f = AErr c f' -> exists st, first_fault s = Some (st, c).
Proof.
  intros H. destruct (first_fault s) as [[st c']|] eqn:E.
  - destruct (attempt_err s f st c' E) as (g & A & _). rewrite A in H. inversion H; subst. eauto.
  - destruct (attempt_ok s f E) as (code & outs & _ & A & _). congruence.
Qed.

(* ---- the local command ---- *)
Lemma run_local_out dt s f f0 : r_out (run_local dt s f) = retag dt (r_out (run_local NoDist s f0)).
Proof.
  unfold run_local. destruct (s_local s) as [|raw ws]; simpl; [reflexivity|].
  destruct (success raw); reflexivity.
Qed.

Lemma run_local_ran dt s f : r_local_ran (run_local dt s f) = true.
Proof. unfold run_local. destruct (s_local s); reflexivity. Qed.

Lemma run_local_fs dt s f : r_fs (run_local dt s f) = write_all CLocal (local_writes s) f.
Proof. unfold run_local, local_writes. destruct (s_local s); reflexivity. Qed.

Lemma client_view_exit0 raw : client_view raw = CsExit 0%Z -> code raw = Some 0%Z.
Proof. unfold client_view. destruct (code raw); intros H; inversion H; reflexivity. Qed.

Lemma run_local_exit0 dt s f :
  client_sees (r_out (run_local dt s f)) = CcStatus (CsExit 0%Z) ->
  exists raw ws, s_local s = LExit raw ws /\ code raw = Some 0%Z
    /\ forall p, In p ws -> fs_get (r_fs (run_local dt s f)) p = Some CLocal.
Proof.
  rewrite run_local_fs. unfold run_local, local_writes. destruct (s_local s) as [|raw ws]; simpl; [discriminate|].
  intros H. exists raw, ws. split; [reflexivity|]. split.
  - apply client_view_exit0. destruct (success raw); simpl in H; inversion H; reflexivity.
  - intros p K. apply write_all_in. exact K.
Qed.

(* ---- theorems ---- *)
Lemma fallback_total s f st :
  s_gen s = true -> s_dist s = true -> first_fault s = Some (st, EOther) ->
  r_local_ran (dist_or_local true s f) = true
  /\ r_out (dist_or_local true s f) = retag DistError (r_out (local_only s f)).
Proof.
  intros G D F. unfold dist_or_local, local_only. rewrite G, D. simpl.
  destruct (attempt_err s f st EOther F) as (f' & A & _). rewrite A.
  split; [apply run_local_ran | apply run_local_out].
Qed.

Lemma error_classes s f st :
  s_gen s = true -> s_dist s = true ->
  (first_fault s = Some (st, EHttp4xx) ->
     r_out (dist_or_local true s f) = OErr KHttp /\ r_local_ran (dist_or_local true s f) = false)
  /\ (first_fault s = Some (st, ETooLarge) ->
     r_out (dist_or_local true s f) = OErr KTooLarge /\ r_local_ran (dist_or_local true s f) = false).
Proof.
  intros G D. unfold dist_or_local. rewrite G, D. simpl. split; intros F.
  - destruct (attempt_err s f st _ F) as (f' & A & _). rewrite A. auto.
  - destruct (attempt_err s f st _ F) as (f' & A & _). rewrite A. auto.
Qed.

Lemma local_or_documented s f :
  r_out (dist_or_local true s f) <> OPanic
  /\ ((exists code outs, s_run s = RunComplete code outs /\ first_fault s = None
         /\ r_out (dist_or_local true s f) = OOk DistOk (to_local code)
         /\ r_local_ran (dist_or_local true s f) = false)
      \/ (r_out (dist_or_local true s f) = OErr KHttp /\ r_local_ran (dist_or_local true s f) = false
          /\ s_dist s = true /\ exists st, first_fault s = Some (st, EHttp4xx))
      \/ (r_out (dist_or_local true s f) = OErr KTooLarge /\ r_local_ran (dist_or_local true s f) = false
          /\ s_dist s = true /\ exists st, first_fault s = Some (st, ETooLarge))
      \/ (exists dt, r_out (dist_or_local true s f) = retag dt (r_out (local_only s f))
          /\ r_local_ran (dist_or_local true s f) = r_local_ran (local_only s f))).
Proof.
  unfold dist_or_local, local_only.
  destruct (s_gen s); simpl.
  2:{ split; [discriminate|]. right. right. right. exists NoDist. auto. }
  destruct (s_dist s); simpl.
  2:{ split.
      - unfold run_local. destruct (s_local s) as [|raw ws]; simpl; [discriminate|]. destruct (success raw); discriminate.
      - right. right. right. exists NoDist. split; [|reflexivity].
        unfold run_local. destruct (s_local s) as [|raw ws]; simpl; [reflexivity|]. destruct (success raw); reflexivity. }
  destruct (first_fault s) as [[st c]|] eqn:F.
  - destruct (attempt_err s f st c F) as (f' & A & _). rewrite A. destruct c; simpl.
    + split; [discriminate|]. right. left. eauto.
    + split; [discriminate|]. right. right. left. eauto.
    + split.
      * unfold run_local. destruct (s_local s) as [|raw ws]; simpl; [discriminate|]. destruct (success raw); discriminate.
      * right. right. right. exists DistError. split; [apply run_local_out|].
        rewrite !run_local_ran. reflexivity.
  - destruct (attempt_ok s f F) as (code & outs & R & A & _). rewrite A. simpl.
    split; [discriminate|]. left. exists code, outs. auto.
Qed.

Lemma documented_errors_only s f k :
  r_out (dist_or_local true s f) = OErr k ->
  (k = KHttp /\ s_dist s = true /\ exists st, first_fault s = Some (st, EHttp4xx))
  \/ (k = KTooLarge /\ s_dist s = true /\ exists st, first_fault s = Some (st, ETooLarge))
  \/ r_out (local_only s f) = OErr k.
Proof.
  intros H. destruct (local_or_documented s f) as (_ & [(code & outs & _ & _ & E & _) | [(E & _ & D & X) | [(E & _ & D & X) | (dt & E & _)]]]).
  - congruence.
  - left. rewrite E in H. inversion H. auto.
  - right. left. rewrite E in H. inversion H. auto.
  - right. right. rewrite E in H. destruct (r_out (local_only s f)); simpl in H; congruence.
Qed.

Lemma never_false_success s f :
  (forall code outs, s_run s = RunComplete code outs -> (0 <= code < 256)%Z) ->
  client_sees (r_out (dist_or_local true s f)) = CcStatus (CsExit 0%Z) ->
  (exists outs, s_run s = RunComplete 0%Z outs
      /\ r_out (dist_or_local true s f) = OOk DistOk (to_local 0%Z)
      /\ r_local_ran (dist_or_local true s f) = false
      /\ forall p w, In (p, w) outs -> w = WOk /\ fs_get (r_fs (dist_or_local true s f)) p = Some CRemote)
  \/ (r_local_ran (dist_or_local true s f) = true
      /\ exists raw ws, s_local s = LExit raw ws /\ code raw = Some 0%Z
         /\ forall p, In p ws -> fs_get (r_fs (dist_or_local true s f)) p = Some CLocal).
Proof.
  intros R. unfold dist_or_local.
  destruct (s_gen s); simpl; [|discriminate].
  destruct (s_dist s); simpl.
  2:{ intros H. right. split; [apply run_local_ran | apply run_local_exit0; exact H]. }
  destruct (first_fault s) as [[st c]|] eqn:F.
  - destruct (attempt_err s f st c F) as (f' & A & _). rewrite A. destruct c; simpl; try discriminate.
    intros H. right. split; [apply run_local_ran | apply run_local_exit0; exact H].
  - destruct (attempt_ok s f F) as (code & outs & Rn & A & W). rewrite A. simpl.
    intros H. left. inversion H as [V].
    destruct (exit_status_preserved code (R _ _ Rn)) as (_ & _ & _ & CV). rewrite CV in V. inversion V; subst code.
    exists outs. repeat split; try assumption; try reflexivity.
    + eapply W. eassumption.
    + apply write_all_in. apply in_map_iff. exists (p, w). auto.
Qed.

Lemma cleanup_thm s f c f' :
  dist_attempt true s f = AErr c f' ->
  (forall q, In q (attempted s) -> fs_get f' q = None)
  /\ (forall q, ~ In q (attempted s) -> fs_get f' q = fs_get f q).
Proof.
  intros H. destruct (attempt_err_inv s f c f' H) as (st & F).
  destruct (attempt_err s f st c F) as (g & A & B & C). rewrite A in H. inversion H; subst. auto.
Qed.

Lemma no_remote_write_local ws f : no_remote f -> no_remote (write_all CLocal ws f).
Proof.
  intros N p. destruct (in_dec N.eq_dec p ws) as [I|I].
  - rewrite write_all_in by exact I. reflexivity.
  - rewrite write_all_notin by exact I. apply N.
Qed.

Lemma no_remote_leftovers s f :
  no_remote f ->
  (forall raw, r_out (dist_or_local true s f) <> OOk DistOk raw) ->
  no_remote (r_fs (dist_or_local true s f)).
Proof.
  intros N. unfold dist_or_local.
  destruct (s_gen s); simpl; [|intros _; exact N].
  destruct (s_dist s); simpl.
  2:{ intros _. rewrite run_local_fs. apply no_remote_write_local. exact N. }
  destruct (first_fault s) as [[st c]|] eqn:F.
  - destruct (attempt_err s f st c F) as (f' & A & B & C). rewrite A.
    assert (N' : no_remote f').
    { intros q. destruct (in_dec N.eq_dec q (attempted s)) as [I|I].
      - rewrite B by exact I. reflexivity.
      - rewrite C by exact I. apply N. }
    destruct c; simpl; intros _; try exact N'.
    rewrite run_local_fs. apply no_remote_write_local. exact N'.
  - destruct (attempt_ok s f F) as (code & outs & _ & A & _). rewrite A. simpl.
    intros H. exfalso. eapply H. reflexivity.
Qed.

Lemma In_firstn {A} (x : A) : forall n l, In x (firstn n l) -> In x l.
Proof.
  induction n as [|n IH]; intros l H; [destruct H|].
  destruct l as [|y l]; [destruct H|].
  destruct H as [H|H]; [left; exact H | right; apply IH; exact H].
Qed.

Lemma attempted_incl s q : In q (attempted s) -> In q (map fst (run_outs s)).
Proof.
  unfold attempted. destruct (first_fault s) as [[[] c]|]; try (intros []); try (intros H; exact H).
  intros H. apply in_map_iff in H as (x & E & I). apply in_map_iff. exists x. split; [exact E|].
  eapply In_firstn; exact I.
Qed.

Lemma same_files_as_local s f st :
  s_gen s = true -> s_dist s = true -> first_fault s = Some (st, EOther) ->
  incl (map fst (run_outs s)) (local_writes s) ->
  forall p, fs_get (r_fs (dist_or_local true s f)) p = fs_get (r_fs (local_only s f)) p.
Proof.
  intros G D F I p. unfold dist_or_local, local_only. rewrite G, D. simpl.
  destruct (attempt_err s f st EOther F) as (f' & A & B & C). rewrite A.
  rewrite !run_local_fs.
  destruct (in_dec N.eq_dec p (local_writes s)) as [K|K].
  - rewrite !write_all_in by exact K. reflexivity.
  - rewrite !write_all_notin by exact K. apply C.
    intro X. apply K. apply I. apply attempted_incl. exact X.
Qed.

Lemma cached_like_local s f st :
  s_gen s = true -> s_dist s = true -> first_fault s = Some (st, EOther) ->
  incl (map fst (run_outs s)) (local_writes s) ->
  request_class 0%N (dist_or_local true s f) = retag_q DistError (request_class 0%N (local_only s f))
  /\ second_request 0%N (dist_or_local true s f) = second_request 0%N (local_only s f).
Proof.
  intros G D F I.
  pose proof (same_files_as_local s f st G D F I 0%N) as E.
  destruct (fallback_total s f st G D F) as (_ & O).
  assert (Q : request_class 0%N (dist_or_local true s f) = retag_q DistError (request_class 0%N (local_only s f))).
  { unfold request_class. rewrite O, E. destruct (r_out (local_only s f)) as [dt raw|raw|k|]; simpl; try reflexivity.
    destruct (success raw); [|reflexivity]. destruct (fs_get (r_fs (local_only s f)) 0%N); reflexivity. }
  split; [exact Q|].
  unfold second_request. rewrite Q, E.
  destruct (request_class 0%N (local_only s f)); reflexivity.
Qed.

(* ---- the pinned commit: refuted ---- *)
Definition witness_len : script :=
  {| s_gen := true; s_dist := true; s_prep := None; s_put := None; s_alloc := AllocOk false; s_submit := SubOk;
     s_run := RunComplete 0%Z [(0%N, WOk); (1%N, WLen); (2%N, WOk)]; s_rewrite := None;
     s_local := LExit 0%Z [0%N] |}.

Lemma cleanup_refuted_orig :
  r_out (dist_or_local false witness_len []) = OPanic
  /\ fs_get (r_fs (dist_or_local false witness_len [])) 0%N = Some CRemote
  /\ fs_get (r_fs (dist_or_local false witness_len [])) 1%N = Some CRemote
  /\ r_local_ran (dist_or_local false witness_len []) = false.
Proof. vm_compute. auto. Qed.

Definition witness_128 : script :=
  {| s_gen := true; s_dist := true; s_prep := None; s_put := None; s_alloc := AllocOk false; s_submit := SubOk;
     s_run := RunComplete 128%Z []; s_rewrite := None; s_local := LExit 0%Z [0%N] |}.

Lemma false_success_refuted_orig :
  client_sees (r_out (dist_or_local false witness_128 [])) = CcStatus (CsExit 0%Z)
  /\ r_local_ran (dist_or_local false witness_128 []) = false
  /\ s_run witness_128 = RunComplete 128%Z [].
Proof. vm_compute. auto. Qed.

(* ---- scripts for the non-vacuity examples of Properties/C13.v ---- *)
Definition ok_script : script :=
  {| s_gen := true; s_dist := true; s_prep := None; s_put := None; s_alloc := AllocOk true; s_submit := SubOk;
     s_run := RunComplete 0%Z [(0%N, WOk); (1%N, WOk)]; s_rewrite := None; s_local := LExit 0%Z [0%N; 1%N] |}.
Definition set_prep c s := {| s_gen := s_gen s; s_dist := s_dist s; s_prep := Some c; s_put := s_put s; s_alloc := s_alloc s;
  s_submit := s_submit s; s_run := s_run s; s_rewrite := s_rewrite s; s_local := s_local s |}.
Definition set_put c s := {| s_gen := s_gen s; s_dist := s_dist s; s_prep := s_prep s; s_put := Some c; s_alloc := s_alloc s;
  s_submit := s_submit s; s_run := s_run s; s_rewrite := s_rewrite s; s_local := s_local s |}.
Definition set_alloc a s := {| s_gen := s_gen s; s_dist := s_dist s; s_prep := s_prep s; s_put := s_put s; s_alloc := a;
  s_submit := s_submit s; s_run := s_run s; s_rewrite := s_rewrite s; s_local := s_local s |}.
Definition set_submit a s := {| s_gen := s_gen s; s_dist := s_dist s; s_prep := s_prep s; s_put := s_put s; s_alloc := s_alloc s;
  s_submit := a; s_run := s_run s; s_rewrite := s_rewrite s; s_local := s_local s |}.
Definition set_run a s := {| s_gen := s_gen s; s_dist := s_dist s; s_prep := s_prep s; s_put := s_put s; s_alloc := s_alloc s;
  s_submit := s_submit s; s_run := a; s_rewrite := s_rewrite s; s_local := s_local s |}.
Definition set_rewrite c s := {| s_gen := s_gen s; s_dist := s_dist s; s_prep := s_prep s; s_put := s_put s; s_alloc := s_alloc s;
  s_submit := s_submit s; s_run := s_run s; s_rewrite := Some c; s_local := s_local s |}.

Definition set_dist d s := {| s_gen := s_gen s; s_dist := d; s_prep := s_prep s; s_put := s_put s; s_alloc := s_alloc s;
  s_submit := s_submit s; s_run := s_run s; s_rewrite := s_rewrite s; s_local := s_local s |}.
