(* Proofs/RustArgs.v — the cacheable-shape decision of parse_arguments.

   finish_table      : for EVERY state the checks after the argument loop decide exactly as the table shape_verdict
   table_ok_iff      : over all 1024 rows, the table says Ok exactly on the cacheable shape
   accepted_shape    : for EVERY command line, a request accepted for caching has the cacheable shape, and no
                       argument of a class that always refuses (too-hard / not-a-compile flags, a crate type other
                       than lib/rlib/staticlib, -C incremental, -C extra-filename without value) *)
From Coq Require Import List NArith Bool Lia.
From Coq Require String.
Import String.StringSyntax.
From Sccache Require Import Base.Sx Model.RustPath Model.RustArgs Gen.C05ArgTable.
Import ListNotations.
Local Open Scope N_scope.
Local Open Scope string_scope.

Theorem finish_table : forall ex s, verdict_of (finish ex s) = shape_verdict (shape_of s).
Proof.
  intros ex s. unfold finish, shape_verdict, shape_of.
  destruct (ps_input s); cbn [is_some negb sh_input]; [|reflexivity].
  destruct (ps_output_dir s); cbn [is_some negb sh_out_dir]; [|reflexivity].
  destruct (ps_emit s) as [emit|]; cbn [is_some negb sh_emit]; [|reflexivity].
  destruct (ps_crate_name s); cbn [is_some negb sh_crate_name]; [|reflexivity].
  cbn [sh_emit_nonempty sh_link sh_metadata sh_rlib sh_staticlib sh_emit_allowed].
  destruct (negb match emit with [] => true | _ :: _ => false end && negb (set_mem (bs "link") emit)
            && negb (set_mem (bs "metadata") emit)); [reflexivity|].
  destruct (negb (ps_rlib s) && negb (ps_staticlib s)); [reflexivity|].
  destruct (existsb (fun e => negb (set_mem e ALLOWED_EMIT)) emit); reflexivity.
Qed.

Lemma bools_all b : In b bools.
Proof. destruct b; simpl; auto. Qed.

Lemma all_shapes_complete sh : In sh all_shapes.
Proof.
  destruct sh as [a b c d e f g h i j]. unfold all_shapes.
  apply in_flat_map; exists a; split; [apply bools_all|].
  apply in_flat_map; exists b; split; [apply bools_all|].
  apply in_flat_map; exists c; split; [apply bools_all|].
  apply in_flat_map; exists d; split; [apply bools_all|].
  apply in_flat_map; exists e; split; [apply bools_all|].
  apply in_flat_map; exists f; split; [apply bools_all|].
  apply in_flat_map; exists g; split; [apply bools_all|].
  apply in_flat_map; exists h; split; [apply bools_all|].
  apply in_flat_map; exists i; split; [apply bools_all|].
  apply in_map_iff. exists j. split; [reflexivity|apply bools_all].
Qed.

Lemma table_rows : forallb (fun sh => Bool.eqb (verdict_is_ok (shape_verdict sh)) (cacheable_shape sh)) all_shapes = true.
Proof. vm_compute. reflexivity. Qed.

Theorem table_ok_iff : forall sh, shape_verdict sh = VOk <-> cacheable_shape sh = true.
Proof.
  intro sh. pose proof table_rows as T. rewrite forallb_forall in T. specialize (T sh (all_shapes_complete sh)).
  apply Bool.eqb_prop in T. split; intro H.
  - rewrite <- T, H. reflexivity.
  - rewrite H in T. destruct (shape_verdict sh); [reflexivity|discriminate|discriminate].
Qed.

(* ------------------------------------------------------------------ the loop *)

Ltac split_matches H :=
  repeat match type of H with
         | context [match ?x with _ => _ end] => destruct x
         end.

Lemma handle_keeps_args cwd s arg s' : handle cwd s arg = SCont s' -> ps_args s' = ps_args s.
Proof.
  unfold handle. intro H.
  destruct arg as [r|u|f a|f a v d]; [| |destruct a|destruct a; destruct v as [raw|rl st oth|k n|o val|n p|ip t]];
    cbv beta iota in H; split_matches H; try discriminate; inversion H; reflexivity.
Qed.

Lemma handle_acceptable cwd s arg s' : handle cwd s arg = SCont s' -> arg_acceptable (normalize arg) = true.
Proof.
  unfold handle. intro H.
  destruct arg as [r|u|f a|f a v d]; [reflexivity|reflexivity|destruct a; cbv beta iota in H; try discriminate H; reflexivity|].
  assert (N : forall d', arg_acceptable (AWithValue f a v d') = arg_acceptable (AWithValue f a v d)) by reflexivity.
  assert (G : arg_acceptable (AWithValue f a v d) = true).
  { destruct a; destruct v as [raw|rl st oth|k n|o val|n p|ip t]; cbv beta iota in H; try discriminate H; try reflexivity.
    - destruct oth; [reflexivity|discriminate H].
    - unfold arg_acceptable. cbn [andb].
      destruct (beq o (bs "extra-filename")) eqn:E1.
      + destruct val; [|discriminate H]. destruct (beq o (bs "incremental")) eqn:E3; [|reflexivity].
        (* opt cannot be both strings *)
        apply bytes_eqb_eq in E1. subst o. vm_compute in E3. discriminate E3.
      + destruct (beq o (bs "profile-use")) eqn:E2.
        * destruct (beq o (bs "incremental")) eqn:E3; [|reflexivity].
          apply bytes_eqb_eq in E2. subst o. vm_compute in E3. discriminate E3.
        * destruct (beq o (bs "incremental")); [discriminate H|reflexivity]. }
  destruct d; simpl normalize; rewrite ?N; exact G.
Qed.

Lemma parse_loop_acceptable fuel : forall cwd s argv s',
  forallb arg_acceptable (ps_args s) = true ->
  parse_loop fuel cwd s argv = SCont s' ->
  forallb arg_acceptable (ps_args s') = true.
Proof.
  induction fuel as [|fuel IH]; intros cwd s argv s' Hs H; simpl in H.
  - inversion H. subst. exact Hs.
  - destruct (next_arg argv) as [[r rest]|]; [|inversion H; subst; exact Hs].
    destruct r as [arg| |]; try discriminate.
    destruct (handle cwd s arg) as [s1|] eqn:Eh; [|discriminate].
    pose proof (handle_keeps_args _ _ _ _ Eh) as Ek.
    apply IH in H; [exact H|].
    destruct (is_color arg).
    + rewrite Ek. exact Hs.
    + unfold with_args. cbn [ps_args]. rewrite forallb_app, Ek, Hs. cbn [forallb].
      rewrite (handle_acceptable _ _ _ _ Eh). reflexivity.
Qed.

Lemma handle_stop_not_ok cwd s arg r p : handle cwd s arg = SStop r -> r <> PROk p.
Proof.
  unfold handle. intros H E. subst r.
  destruct arg as [r|u|f a|f a v d]; [| |destruct a|destruct a; destruct v as [raw|rl st oth|k n|o val|n p'|ip t]];
    cbv beta iota in H; split_matches H; discriminate H.
Qed.

Lemma parse_loop_stop_not_ok fuel : forall cwd s argv r p, parse_loop fuel cwd s argv = SStop r -> r <> PROk p.
Proof.
  induction fuel as [|fuel IH]; intros cwd s argv r p H; simpl in H; [discriminate|].
  destruct (next_arg argv) as [[pr rest]|]; [|discriminate].
  destruct pr as [arg| |]; try (inversion H; discriminate).
  destruct (handle cwd s arg) as [s1|r1] eqn:Eh.
  - eapply IH. exact H.
  - inversion H. subst. eapply handle_stop_not_ok. exact Eh.
Qed.

Theorem accepted_shape : forall ex argv cwd p,
  parse_arguments ex argv cwd = PROk p ->
  exists s,
    cacheable_shape (shape_of s) = true /\
    forallb arg_acceptable (ps_args s) = true /\
    p_arguments p = map arg_pair (ps_args s) /\
    p_rlib p = ps_rlib s /\ p_staticlib p = ps_staticlib s /\ ps_emit s = Some (p_emit p) /\
    ps_output_dir s = Some (p_output_dir p) /\ ps_crate_name s = Some (p_crate_name p).
Proof.
  intros ex argv cwd p H. unfold parse_arguments in H.
  destruct (parse_loop (S (length argv)) cwd ps_init argv) as [s|r] eqn:El;
    [|exfalso; eapply parse_loop_stop_not_ok; [exact El|exact H]].
  exists s. split; [|split].
  - apply table_ok_iff. rewrite <- (finish_table ex), H. reflexivity.
  - eapply parse_loop_acceptable; [|exact El]. reflexivity.
  - unfold finish in H.
    destruct (ps_input s); [|discriminate]. destruct (ps_output_dir s); [|discriminate].
    destruct (ps_emit s) as [emit|]; [|discriminate]. destruct (ps_crate_name s); [|discriminate].
    destruct (negb match emit with [] => true | _ :: _ => false end && negb (set_mem (bs "link") emit)
              && negb (set_mem (bs "metadata") emit)); [discriminate|].
    destruct (negb (ps_rlib s) && negb (ps_staticlib s)); [discriminate|].
    destruct (existsb (fun e => negb (set_mem e ALLOWED_EMIT)) emit); [discriminate|].
    inversion H. cbn. repeat split; reflexivity.
Qed.

(* ------------------------------------------------------------------ static libraries: search order *)

Lemma find_staticlib_is_rustc_pick ex dirs name :
  alt_spelling_free ex dirs name = true -> find_staticlib ex dirs name = rustc_static_pick ex dirs name.
Proof.
  unfold find_staticlib, rustc_static_pick, alt_spelling_free.
  induction dirs as [|d dirs IH]; intro H; [reflexivity|].
  cbn [forallb] in H. apply andb_true_iff in H as [Hd Hr]. apply andb_true_iff in Hd as [H1 H2].
  apply negb_true_iff in H1, H2.
  cbn [flat_map map app find]. rewrite H1, H2.
  destruct (ex (path_join d (bs "lib" ++ name ++ bs ".a"))); [reflexivity|]. apply IH. exact Hr.
Qed.

Lemma handle_link_state cwd s arg s' :
  handle cwd s arg = SCont s' ->
  ps_static_link_paths s' = ps_static_link_paths s ++ native_dirs_of cwd arg /\
  ps_static_lib_names s' = ps_static_lib_names s ++ static_names_of arg.
Proof.
  unfold handle, native_dirs_of, static_names_of, is_native_kind. intro H.
  destruct arg as [r|u|f a|f a v d]; [| |destruct a|destruct a; destruct v as [raw|rl st oth|k n|o val|n p|ip t]];
    cbv beta iota in H; split_matches H; try discriminate; inversion H; cbn [ps_static_link_paths ps_static_lib_names];
    rewrite ?app_nil_r; split; reflexivity.
Qed.

Lemma normalize_link_state cwd a :
  native_dirs_of cwd (normalize a) = native_dirs_of cwd a /\ static_names_of (normalize a) = static_names_of a.
Proof. destruct a as [r|u|f a|f a v d]; try (split; reflexivity). destruct d; split; reflexivity. Qed.

Lemma color_link_state cwd a : is_color a = true -> native_dirs_of cwd a = [] /\ static_names_of a = [].
Proof.
  destruct a as [r|u|f a|f a v d]; simpl; try discriminate; destruct a; try discriminate; intros _; split; reflexivity.
Qed.

Definition link_state_ok (cwd : bytes) (s : pstate) : Prop :=
  ps_static_link_paths s = flat_map (native_dirs_of cwd) (ps_args s) /\
  ps_static_lib_names s = flat_map static_names_of (ps_args s).

Lemma parse_loop_link_state fuel : forall cwd s argv s',
  link_state_ok cwd s -> parse_loop fuel cwd s argv = SCont s' -> link_state_ok cwd s'.
Proof.
  induction fuel as [|fuel IH]; intros cwd s argv s' Hs H; simpl in H.
  - inversion H. subst. exact Hs.
  - destruct (next_arg argv) as [[r rest]|]; [|inversion H; subst; exact Hs].
    destruct r as [arg| |]; try discriminate.
    destruct (handle cwd s arg) as [s1|] eqn:Eh; [|discriminate].
    pose proof (handle_keeps_args _ _ _ _ Eh) as Ek.
    destruct (handle_link_state _ _ _ _ Eh) as [Ep En].
    destruct Hs as [Hp Hn].
    apply IH in H; [exact H|].
    unfold link_state_ok. destruct (is_color arg) eqn:Ec.
    + destruct (color_link_state cwd arg Ec) as [C1 C2].
      rewrite Ep, En, Ek, C1, C2, !app_nil_r. split; assumption.
    + unfold with_args. cbn [ps_args ps_static_link_paths ps_static_lib_names].
      destruct (normalize_link_state cwd arg) as [N1 N2].
      rewrite !flat_map_app. cbn [flat_map]. rewrite N1, N2, !app_nil_r, Ep, En, Ek, Hp, Hn. split; reflexivity.
Qed.

(* the static libraries that reach the key: every `-l static=NAME`, looked up in the native/all -L directories in
   COMMAND-LINE order *)
Theorem staticlibs_lookup : forall ex argv cwd p,
  parse_arguments ex argv cwd = PROk p ->
  exists s,
    p_arguments p = map arg_pair (ps_args s) /\
    p_staticlibs p = filter_map (find_staticlib ex (flat_map (native_dirs_of cwd) (ps_args s)))
                                (flat_map static_names_of (ps_args s)).
Proof.
  intros ex argv cwd p H. unfold parse_arguments in H.
  destruct (parse_loop (S (length argv)) cwd ps_init argv) as [s|r] eqn:El;
    [|exfalso; eapply parse_loop_stop_not_ok; [exact El|exact H]].
  exists s.
  assert (L : link_state_ok cwd s).
  { eapply parse_loop_link_state; [|exact El]. split; reflexivity. }
  destruct L as [Lp Ln].
  unfold finish in H.
  destruct (ps_input s); [|discriminate]. destruct (ps_output_dir s); [|discriminate].
  destruct (ps_emit s) as [emit|]; [|discriminate]. destruct (ps_crate_name s); [|discriminate].
  destruct (negb match emit with [] => true | _ :: _ => false end && negb (set_mem (bs "link") emit)
            && negb (set_mem (bs "metadata") emit)); [discriminate|].
  destruct (negb (ps_rlib s) && negb (ps_staticlib s)); [discriminate|].
  destruct (existsb (fun e => negb (set_mem e ALLOWED_EMIT)) emit); [discriminate|].
  inversion H. cbn [p_arguments p_staticlibs]. rewrite Lp, Ln. split; reflexivity.
Qed.

(* a library named with modifiers is looked up (and so hashed) like a plain `static` one *)
Lemma static_modifiers_looked_up : forall f modifiers name d,
  static_names_of (AWithValue f LinkLibrary (VKind (bs "static:" ++ modifiers) name) d) = [name] /\
  static_names_of (AWithValue f LinkLibrary (VKind (bs "static") name) d) = [name].
Proof. intros. split; reflexivity. Qed.

(* ------------------------------------------------------------------ the compile command's colour option *)

Lemma handle_json cwd s arg s' :
  handle cwd s arg = SCont s' -> ps_has_json s' = ps_has_json s || is_json arg.
Proof.
  unfold handle, is_json. intro H.
  destruct arg as [r|u|f a|f a v d]; [| |destruct a|destruct a; destruct v as [raw|rl st oth|k n|o val|n p|ip t]];
    cbv beta iota in H; split_matches H; try discriminate; inversion H; cbn [ps_has_json];
    rewrite ?orb_false_r, ?orb_true_r; reflexivity.
Qed.

Lemma normalize_json_color a : is_json (normalize a) = is_json a /\ is_color (normalize a) = is_color a.
Proof. destruct a as [r|u|f a|f a v d]; try (split; reflexivity). destruct d; split; reflexivity. Qed.

Lemma color_not_json a : is_color a = true -> is_json a = false.
Proof. destruct a as [r|u|f a|f a v d]; simpl; try discriminate; destruct a; try discriminate; reflexivity. Qed.

Definition colour_state_ok (s : pstate) : Prop :=
  forallb (fun a => negb (is_color a)) (ps_args s) = true /\ ps_has_json s = existsb is_json (ps_args s).

Lemma parse_loop_colour_state fuel : forall cwd s argv s',
  colour_state_ok s -> parse_loop fuel cwd s argv = SCont s' -> colour_state_ok s'.
Proof.
  induction fuel as [|fuel IH]; intros cwd s argv s' Hs H; simpl in H.
  - inversion H. subst. exact Hs.
  - destruct (next_arg argv) as [[r rest]|]; [|inversion H; subst; exact Hs].
    destruct r as [arg| |]; try discriminate.
    destruct (handle cwd s arg) as [s1|] eqn:Eh; [|discriminate].
    pose proof (handle_keeps_args _ _ _ _ Eh) as Ek. pose proof (handle_json _ _ _ _ Eh) as Ej.
    destruct Hs as [Hc Hj]. apply IH in H; [exact H|].
    unfold colour_state_ok. destruct (is_color arg) eqn:Ec.
    + rewrite Ek, Ej, (color_not_json arg Ec), orb_false_r. split; assumption.
    + unfold with_args. cbn [ps_args ps_has_json]. destruct (normalize_json_color arg) as [N1 N2].
      rewrite forallb_app, existsb_app, Ek, Hc. cbn [forallb existsb]. rewrite N1, N2, Ec, Ej, Hj, orb_false_r.
      split; reflexivity.
Qed.

(* the compile command of an accepted request: its own arguments without any `--color` among them, then a colour
   option that depends on nothing but whether `--json` was given *)
Theorem compile_command_colour : forall ex argv cwd p,
  parse_arguments ex argv cwd = PROk p ->
  forallb (fun a => negb (is_color a)) (p_args p) = true /\
  p_arguments p = map arg_pair (p_args p) /\
  compile_args p = flat_map iter_os_strings (p_args p) ++ colour_suffix (existsb is_json (p_args p)).
Proof.
  intros ex argv cwd p H. unfold parse_arguments in H.
  destruct (parse_loop (S (length argv)) cwd ps_init argv) as [s|r] eqn:El;
    [|exfalso; eapply parse_loop_stop_not_ok; [exact El|exact H]].
  assert (L : colour_state_ok s).
  { eapply parse_loop_colour_state; [|exact El]. split; reflexivity. }
  destruct L as [Lc Lj].
  unfold finish in H.
  destruct (ps_input s); [|discriminate]. destruct (ps_output_dir s); [|discriminate].
  destruct (ps_emit s) as [emit|]; [|discriminate]. destruct (ps_crate_name s); [|discriminate].
  destruct (negb match emit with [] => true | _ :: _ => false end && negb (set_mem (bs "link") emit)
            && negb (set_mem (bs "metadata") emit)); [discriminate|].
  destruct (negb (ps_rlib s) && negb (ps_staticlib s)); [discriminate|].
  destruct (existsb (fun e => negb (set_mem e ALLOWED_EMIT)) emit); [discriminate|].
  inversion H. unfold compile_args. cbn [p_args p_arguments p_has_json]. rewrite Lj. repeat split. exact Lc.
Qed.
