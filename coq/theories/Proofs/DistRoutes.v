(* Proofs/DistRoutes.v *)
From Coq Require Import List NArith Bool.
From Sccache Require Import Model.DistFallback Model.DistRoutes Proofs.DistFallback.
Import ListNotations.
Local Open Scope N_scope.

Lemma handler_status_falls_back t r k c :
  routes_ok t = true -> In (r, k, c) t -> k <> KBody -> class_of_status c = EOther.
Proof.
  intros OK I NB. unfold routes_ok in OK. rewrite forallb_forall in OK. specialize (OK _ I).
  unfold stage_ok in OK. unfold class_of_status.
  destruct k; [contradiction| |]; apply andb_true_iff in OK as [_ H]; apply negb_true_iff in H; rewrite H; reflexivity.
Qed.

(* composed with the fallback table: a failing handler behind any client-facing route ends in the local compile *)
Lemma route_handler_faults_fall_back t r c st s f :
  routes_ok t = true -> In (r, KHandler, c) t -> client_stage r = Some st ->
  s_gen s = true -> s_dist s = true -> first_fault s = Some (st, class_of_status c) ->
  r_local_ran (dist_or_local true s f) = true
  /\ r_out (dist_or_local true s f) = retag DistError (r_out (local_only s f)).
Proof.
  intros OK I _ G D F.
  rewrite (handler_status_falls_back t r KHandler c OK I ltac:(discriminate)) in F.
  exact (fallback_total s f st G D F).
Qed.

(* ---- weak toolchain keys ---- *)
Lemma klookup_cons k k' v l : klookup k ((k', v) :: l) = if N.eqb k' k then Some v else klookup k l.
Proof. reflexivity. Qed.

Lemma tk_step_wf keyf s a : tk_wf keyf s -> tk_wf keyf (fst (tk_step keyf s a)).
Proof.
  intros WF. unfold tk_step. destruct (klookup (keyf a) (tk_map s)) eqn:L; [exact WF|].
  intros k v. cbn [fst tk_map]. rewrite klookup_cons. destruct (N.eqb (keyf a) k) eqn:E.
  - intros H; inversion H; subst. apply N.eqb_eq in E. symmetry. exact E.
  - apply WF.
Qed.

(* with a key that tells the names apart, every job's toolchain contains the executable the job runs *)
Lemma tk_all_match keyf :
  (forall a b, keyf a = keyf b -> a = b) ->
  forall reqs s, tk_wf keyf s -> forallb (fun b => b) (tk_run keyf s reqs) = true.
Proof.
  intros INJ. induction reqs as [|a r IH]; intros s WF; [reflexivity|].
  cbn [tk_run]. pose proof (tk_step_wf keyf s a WF) as WF'.
  destruct (tk_step keyf s a) as [s' ok] eqn:E. cbn [fst] in WF'. cbn [forallb].
  rewrite (IH s' WF'), andb_true_r.
  unfold tk_step in E. destruct (klookup (keyf a) (tk_map s)) as [p|] eqn:L.
  - inversion E; subst. apply N.eqb_eq. apply INJ. symmetry. apply (WF _ _ L).
  - inversion E; reflexivity.
Qed.

(* a key that identifies a symlink with its target: refuted *)
Lemma tk_canonical_key_refuted :
  tk_run (fun a => if N.eqb a 1 then 0 else a) {| tk_map := [] |} [1; 0] = [true; false].
Proof. reflexivity. Qed.
