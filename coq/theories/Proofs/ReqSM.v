(* Proofs/ReqSM.v — C09 on the request state machine: whatever the storage does, the client gets the compiler's
   own result; failed compilations are never stored; after the faults stop the entry is re-populated.

   Setting.  A [world] maps translation units to compiler oracles.  [consistent w] says the hash keys are
   sound (this is what C02 / C04 establish, here a hypothesis): two units with the same result key have the
   same compile result, two units with the same preprocessor key and include-file state preprocess alike.
   [Inv w st] — the cache only holds what the compiler produced: every well-formed result entry under the key
   of a unit is that unit's successful compile result, every preprocessor-cache entry matching the unit's
   current include state names the unit's result key.  Faults, damage and restarts never break [Inv]
   (they only make entries unusable or remove them), requests preserve it, and under [Inv] every request is
   transparent for EVERY fault assignment. *)
From Coq Require Import List NArith Bool Lia ZifyN ZifyBool.
From Sccache Require Import Base.Sx Model.Stats Model.ReqSM.
Import ListNotations.
Local Open Scope N_scope.

(* ---------- finite maps ---------- *)

Lemma kv_get_In {V} k (m : list (key * V)) v : kv_get k m = Some v -> In (k, v) m.
Proof.
  induction m as [|[k' v'] m IH]; simpl; [discriminate|].
  destruct (bytes_eqb k k') eqn:E.
  - intro H; inversion H; subst. apply bytes_eqb_eq in E; subst. left; reflexivity.
  - intro H. right. apply IH, H.
Qed.

Lemma kv_set_In {V} k (v : V) m k1 v1 :
  In (k1, v1) (kv_set k v m) -> (k1 = k /\ v1 = v) \/ In (k1, v1) m.
Proof.
  induction m as [|[k' v'] m IH]; simpl.
  - intros [H|[]]. inversion H; subst. left; split; reflexivity.
  - destruct (bytes_eqb k k') eqn:E; simpl.
    + apply bytes_eqb_eq in E; subst. intros [H|H].
      * inversion H; subst. left; split; reflexivity.
      * right; right; exact H.
    + intros [H|H].
      * right; left; exact H.
      * destruct (IH H) as [?|?]; [left; assumption | right; right; assumption].
Qed.

Lemma kv_del_In {V} k (m : list (key * V)) x : In x (kv_del k m) -> In x m.
Proof.
  induction m as [|[k' v'] m IH]; simpl; [tauto|].
  destruct (bytes_eqb k k'); simpl; intuition.
Qed.

Lemma kv_get_set_same {V} k (v : V) m : kv_get k (kv_set k v m) = Some v.
Proof.
  induction m as [|[k' v'] m IH]; simpl.
  - rewrite bytes_eqb_refl. reflexivity.
  - destruct (bytes_eqb k k') eqn:E; simpl; rewrite E; [reflexivity | exact IH].
Qed.

(* ---------- the specification side ---------- *)

(* the client-side result equals what running the compiler directly gives *)
Definition transparent (o : oracle) (r : response) : Prop :=
  match r_client r with
  | CUnsupported | CUnhandled => True          (* handed back: the client runs the compiler itself *)
  | CFinished s so se => (s, so, se, r_outputs r) = direct o
  | CFatal => False
  end.

(* a compiler that exits 0 has written its outputs *)
Definition sane (o : oracle) : Prop := o_c_status o = 0 -> o_c_writes o = true.

(* no internal fault: no storage call on the way to the result and none of sccache's own steps panics.
   (A panicking result PUT is allowed: it is a failed write.) *)
Definition calm (f : faults) (o : oracle) : Prop :=
  f_ppget f <> PFPanic /\ f_ppupd f <> WPanic /\ f_ppput f <> WPanic /\ f_get f <> GPanic
  /\ o_pp_panics o = false /\ o_c_panics o = false.

Definition same_compile (a b : oracle) : Prop :=
  o_c_status a = o_c_status b /\ o_c_stdout a = o_c_stdout b /\ o_c_stderr a = o_c_stderr b
  /\ o_c_outputs a = o_c_outputs b /\ o_c_writes a = o_c_writes b.

Definition same_pp (a b : oracle) : Prop := o_pp_status a = o_pp_status b /\ o_key a = o_key b.

(* soundness of the two hash keys (C02, C04), as a hypothesis on the world *)
Definition consistent (w : world) : Prop :=
  forall t t',
    (o_key (w t) = o_key (w t') -> same_compile (w t) (w t'))
    /\ (forall pk, o_pp_key (w t) = Some pk -> o_pp_key (w t') = Some pk ->
                   o_manifest (w t) = o_manifest (w t') -> same_pp (w t) (w t')).

(* the cache only holds what the compiler produced *)
Definition Inv (w : world) (st : cstate) : Prop :=
  forall t,
    (forall pk k m, o_pp_key (w t) = Some pk -> In (pk, PGood k m) (cs_pp st) -> m = o_manifest (w t) ->
                    o_pp_status (w t) = 0 /\ k = o_key (w t))
    /\ (forall so se outs, In (o_key (w t), RGood so se outs) (cs_res st) ->
                    o_c_status (w t) = 0 /\ o_c_writes (w t) = true /\ so = o_c_stdout (w t)
                    /\ se = o_c_stderr (w t) /\ outs = o_c_outputs (w t)).

Lemma Inv_empty w : Inv w empty_cache.
Proof. intro t; split; simpl; intros; contradiction. Qed.

(* ---------- generate_hash_key ---------- *)

Lemma pp_read_some f pk st k m : pp_read f pk st = Some (k, m) -> kv_get pk (cs_pp st) = Some (PGood k m).
Proof.
  unfold pp_read. destruct (f_ppget f); try discriminate.
  destruct (kv_get pk (cs_pp st)) as [[k' m'| |]|]; try discriminate. intro H; inversion H; reflexivity.
Qed.

Definition panicky (f : faults) (o : oracle) : Prop :=
  f_ppget f = PFPanic \/ f_ppupd f = WPanic \/ f_ppput f = WPanic \/ o_pp_panics o = true.

Definition ghk_spec (f : faults) (cc : cache_control) (o : oracle) (st : cstate)
           (st1 : cstate) (res : hk_result) (pp : N) : Prop :=
  cs_res st1 = cs_res st /\ cs_ro st1 = cs_ro st /\
  ( (res = HKError /\ pp = 1 /\ o_pp_status o <> 0 /\ cs_pp st1 = cs_pp st)
    \/ (res = HKKey (o_key o) /\ pp = 1 /\ o_pp_status o = 0 /\
        (cs_pp st1 = cs_pp st
         \/ exists pk, o_pp_key o = Some pk /\ cs_pp st1 = kv_set pk (PGood (o_key o) (o_manifest o)) (cs_pp st)))
    \/ (exists pk k, res = HKKey k /\ pp = 0 /\ cc = CCDefault /\ o_pp_key o = Some pk
                     /\ kv_get pk (cs_pp st) = Some (PGood k (o_manifest o))
                     /\ (cs_pp st1 = cs_pp st \/ cs_pp st1 = kv_set pk (PGood k (o_manifest o)) (cs_pp st)))
    \/ (res = HKFatal /\ panicky f o /\ cs_pp st1 = cs_pp st) ).

Lemma hk_preprocess_spec f cc o st :
  let '(st2, res, pp) := hk_preprocess f o st in ghk_spec f cc o st st2 res pp.
Proof.
  unfold hk_preprocess, ghk_spec, panicky.
  destruct (o_pp_panics o) eqn:Epan.
  { split; [reflexivity|split; [reflexivity|]]. right; right; right. auto 6. }
  destruct (o_pp_status o =? 0) eqn:E; simpl.
  2:{ apply N.eqb_neq in E. split; [reflexivity|split; [reflexivity|]]. left. auto. }
  apply N.eqb_eq in E.
  destruct (o_pp_key o) as [pk|].
  2:{ split; [reflexivity|split; [reflexivity|]]. right; left. auto. }
  destruct (o_manifest_ok o).
  2:{ split; [reflexivity|split; [reflexivity|]]. right; left. auto. }
  destruct (f_ppput f) eqn:Ew;
    try (destruct (put_ok _ st); simpl; (split; [reflexivity|split; [reflexivity|]]); right; left;
         repeat split; auto; right; exists pk; split; reflexivity).
  split; [reflexivity|split; [reflexivity|]]. right; right; right. auto 6.
Qed.

Lemma prelude_cases f cc o st :
  match hk_prelude f cc o st with
  | None => f_ppget f = PFPanic \/ f_ppupd f = WPanic
  | Some (st1, Some k) =>
      cs_res st1 = cs_res st /\ cs_ro st1 = cs_ro st /\
      exists pk, cc = CCDefault /\ o_pp_key o = Some pk
                 /\ kv_get pk (cs_pp st) = Some (PGood k (o_manifest o))
                 /\ (cs_pp st1 = cs_pp st \/ cs_pp st1 = kv_set pk (PGood k (o_manifest o)) (cs_pp st))
  | Some (st1, None) => st1 = st
  end.
Proof.
  unfold hk_prelude.
  destruct (o_pp_key o) as [pk|] eqn:Epk; [|reflexivity].
  destruct cc; try reflexivity.
  destruct (f_ppget f) eqn:Eg; try (left; reflexivity);
    (destruct (pp_read f pk st) as [[k m]|] eqn:Er; [|reflexivity];
     apply pp_read_some in Er;
     destruct (m =? o_manifest o) eqn:Em; [|reflexivity];
     apply N.eqb_eq in Em; subst m;
     destruct (o_upd o);
     [ destruct (f_ppupd f) eqn:Eu; try (right; reflexivity);
       (destruct (put_ok _ st); [|reflexivity]);
       simpl; (split; [reflexivity|split; [reflexivity|]]); exists pk; auto 6
     | simpl; (split; [reflexivity|split; [reflexivity|]]); exists pk; auto 6 ]).
Qed.

Lemma ghk_ok f cc o st :
  let '(st1, res, pp) := generate_hash_key f cc o st in ghk_spec f cc o st st1 res pp.
Proof.
  unfold generate_hash_key.
  pose proof (prelude_cases f cc o st) as P.
  destruct (hk_prelude f cc o st) as [[st1 [k|]]|].
  - destruct P as (H1 & H2 & pk & Hcc & Hpk & Hg & Hs).
    unfold ghk_spec. split; [exact H1|split; [exact H2|]].
    right; right; left. exists pk, k. auto 8.
  - subst st1. apply hk_preprocess_spec.
  - unfold ghk_spec, panicky. split; [reflexivity|split; [reflexivity|]].
    right; right; right. destruct P; auto 6.
Qed.

(* under the invariant a key obtained from the preprocessor cache is the unit's own key, and its
   preprocessing succeeds *)
Lemma ghk_key w st t f cc st1 k pp :
  Inv w st -> ghk_spec f cc (w t) st st1 (HKKey k) pp -> o_pp_status (w t) = 0 /\ k = o_key (w t).
Proof.
  intros HI (_ & _ & [(H & _)|[(H & _ & Hs & _)|[(pk & k' & H & _ & _ & Hpk & Hg & _)|(H & _)]]]).
  - discriminate.
  - inversion H; subst. split; auto.
  - inversion H; subst k'. apply kv_get_In in Hg.
    destruct (HI t) as [Hpp _]. eapply Hpp; eauto.
  - discriminate.
Qed.

Lemma ghk_Inv w st t f cc st1 res pp :
  consistent w -> Inv w st -> ghk_spec f cc (w t) st st1 res pp -> Inv w st1.
Proof.
  intros HC HI (Hres & _ & Hcases) t'. destruct (HI t') as [Ipp Ires].
  split.
  2:{ rewrite Hres. exact Ires. }
  intros pk' k' m' Hpk' Hin Hm'.
  assert (Hold : cs_pp st1 = cs_pp st -> o_pp_status (w t') = 0 /\ k' = o_key (w t')).
  { intro E. rewrite E in Hin. eapply Ipp; eauto. }
  destruct Hcases as [(_ & _ & _ & E)|[(_ & _ & Hps & [E|(pk & Hpk & E)])|[(pk & k & _ & _ & _ & Hpk & Hg & [E|E])|(_ & _ & E)]]];
    try (apply Hold; exact E).
  - rewrite E in Hin. apply kv_set_In in Hin. destruct Hin as [[-> Hv]|Hin]; [|eapply Ipp; eauto].
    injection Hv as Hk' Hmm.
    destruct (HC t t') as [_ Hc2].
    assert (Hman : o_manifest (w t) = o_manifest (w t')) by congruence.
    destruct (Hc2 pk Hpk Hpk' Hman) as [Hs Hk].
    split; congruence.
  - rewrite E in Hin. apply kv_set_In in Hin. destruct Hin as [[-> Hv]|Hin]; [|eapply Ipp; eauto].
    injection Hv as Hk' Hmm. subst k'. apply kv_get_In in Hg. eapply Ipp; eauto. congruence.
Qed.

(* ---------- one request ---------- *)

Lemma compile_Inv w st1 t f pp mt :
  consistent w -> Inv w st1 -> Inv w (fst (compile_and_store f (w t) st1 (o_key (w t)) pp mt)).
Proof.
  intros HC HI1. unfold compile_and_store.
  destruct (o_c_panics (w t)); [exact HI1|].
  destruct (negb (o_c_status (w t) =? 0)) eqn:Ecs; [exact HI1|].
  apply negb_false_iff, N.eqb_eq in Ecs.
  assert (Hstored : o_c_writes (w t) = true ->
     Inv w {| cs_res := kv_set (o_key (w t)) (RGood (o_c_stdout (w t)) (o_c_stderr (w t)) (o_c_outputs (w t))) (cs_res st1);
              cs_pp := cs_pp st1; cs_ro := cs_ro st1 |}).
  { intros Ew t'. destruct (HI1 t') as [Ipp Ires]. split; [exact Ipp|]. simpl.
    intros so se outs Hin. apply kv_set_In in Hin. destruct Hin as [[Hk Hv]|Hin]; [|eapply Ires; eauto].
    injection Hv as -> -> ->.
    destruct (HC t t') as [Hc1 _]. destruct (Hc1 (eq_sym Hk)) as (H1 & H2 & H3 & H4 & H5).
    repeat split; congruence. }
  cbv zeta.
  destruct mt; try exact HI1;
    (destruct (negb (o_cacheable (w t))); [exact HI1|]);
    (destruct (o_c_writes (w t)) eqn:Ew; simpl; [|exact HI1]);
    (destruct (put_ok (f_put f) st1); [|exact HI1]); simpl; apply Hstored; reflexivity.
Qed.

Lemma execute_Inv w st t f cc :
  consistent w -> Inv w st -> Inv w (fst (execute f cc (w t) st)).
Proof.
  intros HC HI. unfold execute.
  pose proof (ghk_ok f cc (w t) st) as G.
  destruct (generate_hash_key f cc (w t) st) as [[st1 res] pp].
  pose proof (ghk_Inv _ _ _ _ _ _ _ _ HC HI G) as HI1.
  destruct res as [|k|]; [exact HI1| |exact HI1].
  destruct (ghk_key _ _ _ _ _ _ _ _ HI G) as [Hps Hk]. subst k.
  destruct (cache_lookup f cc (o_key (w t)) st1) as [so se outs|mt|]; try exact HI1.
  apply compile_Inv; assumption.
Qed.

Lemma request_Inv w st t f cl cc :
  consistent w -> Inv w st -> Inv w (fst (fst (request f cl cc (w t) st))).
Proof.
  intros HC HI. unfold request. destruct cl; simpl; try exact HI.
  pose proof (execute_Inv w st t f cc HC HI) as H.
  destruct (execute f cc (w t) st) as [st' r]. exact H.
Qed.

Lemma direct_ppfail o : o_pp_status o <> 0 -> direct o = (o_pp_status o, [], o_pp_stderr o, []).
Proof. intro H. unfold direct. apply N.eqb_neq in H. rewrite H. reflexivity. Qed.

Lemma direct_ccfail o :
  o_pp_status o = 0 -> o_c_status o <> 0 -> direct o = (o_c_status o, o_c_stdout o, o_c_stderr o, []).
Proof.
  intros H1 H2. unfold direct. rewrite H1. apply N.eqb_neq in H2. rewrite H2. reflexivity.
Qed.

Lemma direct_ok o :
  o_pp_status o = 0 -> o_c_status o = 0 ->
  direct o = (0, o_c_stdout o, o_c_stderr o, if o_c_writes o then o_c_outputs o else []).
Proof. intros H1 H2. unfold direct. rewrite H1, H2. reflexivity. Qed.

Lemma compile_transparent o f st1 k pp mt :
  sane o -> o_pp_status o = 0 -> o_c_panics o = false -> transparent o (snd (compile_and_store f o st1 k pp mt)).
Proof.
  intros HS Hps Hcp. unfold compile_and_store. rewrite Hcp.
  destruct (o_c_status o =? 0) eqn:Ecs; simpl.
  - apply N.eqb_eq in Ecs. specialize (HS Ecs).
    assert (D : direct o = (0, o_c_stdout o, o_c_stderr o, o_c_outputs o)).
    { rewrite direct_ok by assumption. rewrite HS. reflexivity. }
    rewrite HS. simpl.
    destruct mt; simpl; try (unfold transparent; simpl; rewrite D; reflexivity);
      destruct (negb (o_cacheable o)); simpl; try (unfold transparent; simpl; rewrite D; reflexivity);
      destruct (put_ok (f_put f) st1); unfold transparent; simpl; rewrite D; reflexivity.
  - apply N.eqb_neq in Ecs. unfold transparent; simpl. rewrite direct_ccfail by assumption. reflexivity.
Qed.

(* THE transparency lemma: for every fault assignment *)
Lemma execute_transparent w st t f cc :
  consistent w -> Inv w st -> sane (w t) -> f_outdir_ok f = true -> calm f (w t) ->
  transparent (w t) (snd (execute f cc (w t) st)).
Proof.
  intros HC HI HS HO (C1 & C2 & C3 & C4 & C5 & C6). unfold execute.
  pose proof (ghk_ok f cc (w t) st) as G.
  destruct (generate_hash_key f cc (w t) st) as [[st1 res] pp].
  destruct res as [|k|].
  - (* the preprocessor failed *)
    destruct G as (_ & _ & [(_ & _ & Hps & _)|[(H & _)|[(pk & k & H & _)|(H & _)]]]); try discriminate.
    unfold transparent; simpl. rewrite direct_ppfail by assumption. reflexivity.
  - destruct (ghk_key _ _ _ _ _ _ _ _ HI G) as [Hps Hk]. subst k.
    destruct G as (Hres & _ & _).
    pose proof (fun mt => compile_transparent (w t) f st1 (o_key (w t)) pp mt HS Hps C6) as Hcompile.
    unfold cache_lookup. rewrite HO, Hres.
    destruct cc; try apply Hcompile.
    destruct (f_get f); try apply Hcompile; try (exfalso; apply C4; reflexivity).
    destruct (kv_get (o_key (w t)) (cs_res st)) as [[so se outs| | | |]|] eqn:Eg; try apply Hcompile.
    (* a hit: the entry is the unit's own successful result *)
    apply kv_get_In in Eg. destruct (HI t) as [_ Ires].
    destruct (Ires _ _ _ Eg) as (Hcs & Hw & -> & -> & ->).
    unfold transparent; simpl. rewrite direct_ok by assumption. rewrite Hw. reflexivity.
  - (* no panic: impossible *)
    destruct G as (_ & _ & [(H & _)|[(H & _)|[(pk & k & H & _)|(_ & [P|[P|[P|P]]] & _)]]]); try discriminate;
      try contradiction. rewrite C5 in P. discriminate.
Qed.

Theorem request_transparent w st t f cl cc :
  consistent w -> Inv w st -> sane (w t) -> f_outdir_ok f = true -> calm f (w t) ->
  transparent (w t) (snd (fst (request f cl cc (w t) st))).
Proof.
  intros HC HI HS HO HCalm. unfold request. destruct cl; simpl; try exact I.
  pose proof (execute_transparent w st t f cc HC HI HS HO HCalm) as H.
  destruct (execute f cc (w t) st) as [st' r]. exact H.
Qed.

(* Without [calm]: an internal panic is caught and REPORTED ("encountered fatal error", counted under
   cache_errors); the client never receives a wrong result. *)
Lemma compile_answered o f st1 k pp mt :
  sane o -> o_pp_status o = 0 ->
  let r := snd (compile_and_store f o st1 k pp mt) in transparent o r \/ r_client r = CFatal.
Proof.
  intros HS Hps. cbv zeta. destruct (o_c_panics o) eqn:Hcp.
  - right. unfold compile_and_store. rewrite Hcp. reflexivity.
  - left. apply compile_transparent; assumption.
Qed.

Lemma execute_answered w st t f cc :
  consistent w -> Inv w st -> sane (w t) -> f_outdir_ok f = true ->
  let r := snd (execute f cc (w t) st) in transparent (w t) r \/ r_client r = CFatal.
Proof.
  intros HC HI HS HO. cbv zeta. unfold execute.
  pose proof (ghk_ok f cc (w t) st) as G.
  destruct (generate_hash_key f cc (w t) st) as [[st1 res] pp].
  destruct res as [|k|]; [| |right; reflexivity].
  - left.
    destruct G as (_ & _ & [(_ & _ & Hps & _)|[(H & _)|[(pk & k & H & _)|(H & _)]]]); try discriminate.
    unfold transparent; simpl. rewrite direct_ppfail by assumption. reflexivity.
  - destruct (ghk_key _ _ _ _ _ _ _ _ HI G) as [Hps Hk]. subst k.
    destruct G as (Hres & _ & _).
    pose proof (fun mt => compile_answered (w t) f st1 (o_key (w t)) pp mt HS Hps) as Hcompile. cbv zeta in Hcompile.
    unfold cache_lookup. rewrite HO, Hres.
    destruct cc; try apply Hcompile.
    destruct (f_get f); try apply Hcompile; try (right; reflexivity).
    destruct (kv_get (o_key (w t)) (cs_res st)) as [[so se outs| | | |]|] eqn:Eg; try apply Hcompile.
    left. apply kv_get_In in Eg. destruct (HI t) as [_ Ires].
    destruct (Ires _ _ _ Eg) as (Hcs & Hw & -> & -> & ->).
    unfold transparent; simpl. rewrite direct_ok by assumption. rewrite Hw. reflexivity.
Qed.

Lemma request_answered w st t f cl cc :
  consistent w -> Inv w st -> sane (w t) -> f_outdir_ok f = true ->
  transparent (w t) (snd (fst (request f cl cc (w t) st))) \/ r_client (snd (fst (request f cl cc (w t) st))) = CFatal.
Proof.
  intros HC HI HS HO. unfold request. destruct cl; simpl; try (left; exact I).
  pose proof (execute_answered w st t f cc HC HI HS HO) as H. cbv zeta in H.
  destruct (execute f cc (w t) st) as [st' r]. exact H.
Qed.

(* a panic inside the task ends in the error class of the statistics *)
Lemma execute_panic_is_error f cc o st :
  r_client (snd (execute f cc o st)) = CFatal -> r_outcome (snd (execute f cc o st)) = Some OFatal.
Proof.
  unfold execute.
  destruct (generate_hash_key f cc o st) as [[st1 res] pp].
  destruct res as [|k|]; simpl; try discriminate; try reflexivity.
  destruct (cache_lookup f cc k st1) as [so se outs|mt|]; simpl; try discriminate; try reflexivity.
  unfold compile_and_store.
  destruct (o_c_panics o); simpl; [reflexivity|].
  destruct (negb (o_c_status o =? 0)); simpl; [discriminate|].
  destruct mt; simpl; try discriminate;
    destruct (negb (o_cacheable o)); simpl; try discriminate;
    destruct (negb (o_c_writes o)); simpl; try reflexivity;
    destruct (put_ok (f_put f) st1); simpl; discriminate.
Qed.

(* ---------- failed compilations are never stored ---------- *)

(* unconditionally: when the compilation proper fails, the result store is not touched *)
Lemma execute_ccfail_res f cc o st : o_c_status o <> 0 -> cs_res (fst (execute f cc o st)) = cs_res st.
Proof.
  intro H. apply N.eqb_neq in H. unfold execute.
  pose proof (ghk_ok f cc o st) as G.
  destruct (generate_hash_key f cc o st) as [[st1 res] pp].
  destruct G as (Hres & _).
  destruct res as [|k|]; simpl; [exact Hres| |exact Hres].
  destruct (cache_lookup f cc k st1); simpl; try exact Hres.
  unfold compile_and_store. destruct (o_c_panics o); [exact Hres|]. rewrite H. simpl. exact Hres.
Qed.

Theorem failed_never_stored_cc f cl cc o st :
  o_c_status o <> 0 -> cs_res (fst (fst (request f cl cc o st))) = cs_res st.
Proof.
  intro H. unfold request. destruct cl; simpl; try reflexivity.
  pose proof (execute_ccfail_res f cc o st H) as E.
  destruct (execute f cc o st). exact E.
Qed.

(* with the invariant: whenever the build fails (preprocessing or compilation), nothing is stored *)
Theorem failed_never_stored w st t f cl cc :
  Inv w st -> fst (fst (fst (direct (w t)))) <> 0 ->
  cs_res (fst (fst (request f cl cc (w t) st))) = cs_res st.
Proof.
  intros HI Hd.
  destruct (N.eq_dec (o_c_status (w t)) 0) as [Hc|Hc]; [|apply failed_never_stored_cc; exact Hc].
  assert (Hps : o_pp_status (w t) <> 0).
  { intro Hps. apply Hd. rewrite direct_ok by assumption. reflexivity. }
  unfold request. destruct cl; simpl; try reflexivity.
  unfold execute.
  pose proof (ghk_ok f cc (w t) st) as G.
  destruct (generate_hash_key f cc (w t) st) as [[st1 res] pp].
  destruct res as [|k|].
  - destruct G as (Hres & _). exact Hres.
  - destruct (ghk_key _ _ _ _ _ _ _ _ HI G) as [H0 _]. contradiction.
  - destruct G as (Hres & _). exact Hres.
Qed.

(* ---------- after the faults stop ---------- *)

Definition is_hit_of (o : oracle) (r : response) : Prop :=
  r_client r = CFinished 0 (o_c_stdout o) (o_c_stderr o) /\ r_outputs r = o_c_outputs o
  /\ r_cc_runs r = 0 /\ r_outcome r = Some OHit.

Definition calm_oracle (o : oracle) : Prop := o_pp_panics o = false /\ o_c_panics o = false.

Lemma calm_no_faults o : calm_oracle o -> calm no_faults o.
Proof. intros [H1 H2]. unfold calm; simpl. repeat split; try discriminate; assumption. Qed.

(* with fault-free storage and a calm oracle the hash key phase does not end in a panic *)
Lemma ghk_calm_not_fatal f cc o st st1 pp :
  calm f o -> ghk_spec f cc o st st1 HKFatal pp -> False.
Proof.
  intros (C1 & C2 & C3 & _ & C5 & _) (_ & _ & [(H & _)|[(H & _)|[(pk & k & H & _)|(_ & [P|[P|[P|P]]] & _)]]]);
    try discriminate; try contradiction. rewrite C5 in P. discriminate.
Qed.

Lemma compile_clean_stores o st1 pp mt :
  sane o -> o_c_panics o = false -> cs_ro st1 = false -> o_c_status o = 0 -> o_cacheable o = true -> mt <> MForcedNoCache ->
  let r := compile_and_store no_faults o st1 (o_key o) pp mt in
  kv_get (o_key o) (cs_res (fst r)) = Some (RGood (o_c_stdout o) (o_c_stderr o) (o_c_outputs o))
  /\ cs_ro (fst r) = false.
Proof.
  intros HS Hcp Hro1 Hcs Hca Hmt. specialize (HS Hcs). cbv zeta. unfold compile_and_store.
  rewrite Hcp, Hcs, Hca, HS. simpl. unfold put_ok; simpl. rewrite Hro1. simpl.
  destruct mt; try contradiction; simpl; (split; [apply kv_get_set_same | reflexivity]).
Qed.

Lemma execute_clean_stores w st t :
  consistent w -> Inv w st -> sane (w t) -> calm_oracle (w t) -> cs_ro st = false ->
  o_pp_status (w t) = 0 -> o_c_status (w t) = 0 -> o_cacheable (w t) = true ->
  let st1 := fst (execute no_faults CCDefault (w t) st) in
  kv_get (o_key (w t)) (cs_res st1) = Some (RGood (o_c_stdout (w t)) (o_c_stderr (w t)) (o_c_outputs (w t)))
  /\ cs_ro st1 = false.
Proof.
  intros HC HI HS HCO Hro Hps Hcs Hca. cbv zeta. unfold execute.
  pose proof (ghk_ok no_faults CCDefault (w t) st) as G.
  destruct (generate_hash_key no_faults CCDefault (w t) st) as [[st1 res] pp].
  destruct res as [|k|].
  { destruct G as (_ & _ & [(_ & _ & H & _)|[(H & _)|[(pk & k & H & _)|(H & _)]]]); try discriminate. contradiction. }
  2:{ exfalso. eapply ghk_calm_not_fatal; [apply calm_no_faults; exact HCO | exact G]. }
  destruct (ghk_key _ _ _ _ _ _ _ _ HI G) as [_ Hk]. subst k.
  destruct G as (Hres & Hro1 & _). rewrite Hro in Hro1.
  pose proof (fun mt => compile_clean_stores (w t) st1 pp mt HS (proj2 HCO) Hro1 Hcs Hca) as Hmiss. cbv zeta in Hmiss.
  unfold cache_lookup; simpl f_get; simpl f_outdir_ok. rewrite Hres.
  destruct (kv_get (o_key (w t)) (cs_res st)) as [[so se outs| | | |]|] eqn:Eg;
    try (apply Hmiss; discriminate).
  simpl. rewrite Hres. split; [|exact Hro1].
  pose proof (kv_get_In _ _ _ Eg) as Hin. destruct (HI t) as [_ Ires].
  destruct (Ires _ _ _ Hin) as (_ & _ & -> & -> & ->). exact Eg.
Qed.

Lemma execute_hit w st t :
  Inv w st -> calm_oracle (w t) ->
  kv_get (o_key (w t)) (cs_res st) = Some (RGood (o_c_stdout (w t)) (o_c_stderr (w t)) (o_c_outputs (w t))) ->
  o_pp_status (w t) = 0 ->
  let '(st2, r) := execute no_faults CCDefault (w t) st in
  is_hit_of (w t) r /\ cs_res st2 = cs_res st.
Proof.
  intros HI HCO Hg Hps. unfold execute.
  pose proof (ghk_ok no_faults CCDefault (w t) st) as G.
  destruct (generate_hash_key no_faults CCDefault (w t) st) as [[st1 res] pp].
  destruct res as [|k|].
  { destruct G as (_ & _ & [(_ & _ & H & _)|[(H & _)|[(pk & k & H & _)|(H & _)]]]); try discriminate. contradiction. }
  2:{ exfalso. eapply ghk_calm_not_fatal; [apply calm_no_faults; exact HCO | exact G]. }
  destruct (ghk_key _ _ _ _ _ _ _ _ HI G) as [_ Hk]. subst k.
  destruct G as (Hres & _ & _).
  unfold cache_lookup; simpl f_get; simpl f_outdir_ok. rewrite Hres, Hg. simpl.
  split; [|exact Hres]. unfold is_hit_of; simpl. repeat split.
Qed.

Theorem repopulates w st t :
  consistent w -> Inv w st -> sane (w t) -> calm_oracle (w t) -> cs_ro st = false ->
  o_pp_status (w t) = 0 -> o_c_status (w t) = 0 -> o_cacheable (w t) = true ->
  let '(st1, r1, _) := request no_faults QCompile CCDefault (w t) st in
  let '(st2, r2, _) := request no_faults QCompile CCDefault (w t) st1 in
  (* the first fault-free request leaves a well-formed entry behind ... *)
  kv_get (o_key (w t)) (cs_res st1) = Some (RGood (o_c_stdout (w t)) (o_c_stderr (w t)) (o_c_outputs (w t)))
  /\ transparent (w t) r1
  (* ... and the one after it is served from the cache, without running the compiler *)
  /\ is_hit_of (w t) r2 /\ transparent (w t) r2.
Proof.
  intros HC HI HS HCO Hro Hps Hcs Hca.
  pose proof (execute_clean_stores w st t HC HI HS HCO Hro Hps Hcs Hca) as [Hst Hro1].
  pose proof (execute_transparent w st t no_faults CCDefault HC HI HS eq_refl (calm_no_faults _ HCO)) as T1.
  pose proof (execute_Inv w st t no_faults CCDefault HC HI) as HI1.
  unfold request. destruct (execute no_faults CCDefault (w t) st) as [st1 r1]. simpl in *.
  pose proof (execute_hit w st1 t HI1 HCO Hst Hps) as Hh.
  pose proof (execute_transparent w st1 t no_faults CCDefault HC HI1 HS eq_refl (calm_no_faults _ HCO)) as T2.
  destruct (execute no_faults CCDefault (w t) st1) as [st2 r2]. simpl in *.
  destruct Hh as [Hh _]. repeat split; try assumption; apply Hh.
Qed.

(* ---------- damage and restarts keep the invariant ---------- *)

Lemma damage_res_Inv w d k st : Inv w st -> Inv w (damage_res d k st).
Proof.
  intros HI t. destruct (HI t) as [Ipp Ires]. unfold damage_res.
  destruct (kv_get k (cs_res st)) as [e|]; [|split; assumption].
  destruct e as [so se outs| | | |]; try (split; assumption);
    (split; [exact Ipp|]); simpl; intros so' se' outs' Hin; apply kv_set_In in Hin;
    (destruct Hin as [[_ Hv]|Hin]; [destruct d; discriminate | eapply Ires; eauto]).
Qed.

Lemma damage_pp_Inv w d k st : Inv w st -> Inv w (damage_pp d k st).
Proof.
  intros HI t. destruct (HI t) as [Ipp Ires]. unfold damage_pp.
  destruct (kv_get k (cs_pp st)); [|split; assumption].
  split; [|exact Ires]. simpl. intros pk k' m Hpk Hin Hm.
  destruct d; try (apply kv_set_In in Hin; destruct Hin as [[_ Hv]|Hin]; [discriminate | eapply Ipp; eauto]);
    try (eapply Ipp; eauto; fail).
  apply kv_del_In in Hin. eapply Ipp; eauto.
Qed.

Lemma restart_Inv w ro st : Inv w st -> Inv w (restart ro st).
Proof.
  intros HI t. destruct (HI t) as [Ipp Ires]. unfold restart. split; [exact Ipp|]. simpl.
  intros so se outs Hin. apply filter_In in Hin. destruct Hin as [Hin _]. eapply Ires; eauto.
Qed.

Lemma run_step_Inv w st s : consistent w -> Inv w st -> Inv w (fst (run_step w st s)).
Proof.
  intros HC HI. destruct s as [t f cl cc|d t|d t|ro]; simpl.
  - pose proof (request_Inv w st t f cl cc HC HI) as H.
    destruct (request f cl cc (w t) st) as [[st' r] a]. exact H.
  - apply damage_res_Inv, HI.
  - destruct (o_pp_key (w t)); [apply damage_pp_Inv, HI | exact HI].
  - apply restart_Inv, HI.
Qed.

(* ---------- whole histories ---------- *)

(* every request of the history whose output directory is usable gets the compiler's own result, and the
   cache only ever holds successful results *)
Fixpoint history_ok (w : world) (st : cstate) (ss : list step) : Prop :=
  match ss with
  | [] => Inv w st
  | s :: r =>
      let '(st1, o1) := run_step w st s in
      match s, o1 with
      | SReq t f _ _, Some (rsp, _) =>
          (* every request is answered: with the compiler's own result, or — only if something inside the server
             panicked — with a reported fatal error, never with a wrong result *)
          (f_outdir_ok f = true -> calm f (w t) -> transparent (w t) rsp)
          /\ (f_outdir_ok f = true -> transparent (w t) rsp \/ r_client rsp = CFatal)
      | _, _ => True
      end /\ history_ok w st1 r
  end.

Theorem history_transparent w ss st :
  consistent w -> (forall t, sane (w t)) -> Inv w st -> history_ok w st ss.
Proof.
  intros HC HS. revert st. induction ss as [|s r IH]; intros st HI; simpl; [exact HI|].
  pose proof (run_step_Inv w st s HC HI) as HI1.
  destruct (run_step w st s) as [st1 o1] eqn:E. simpl in HI1. split; [|apply IH; exact HI1].
  destruct s as [t f cl cc|d t|d t|ro]; try (destruct o1 as [[? ?]|]; exact I).
  simpl in E. pose proof (request_transparent w st t f cl cc HC HI (HS t)) as T.
  pose proof (request_answered w st t f cl cc HC HI (HS t)) as A.
  destruct (request f cl cc (w t) st) as [[st' rsp] a]. inversion E; subst. split; [exact T | exact A].
Qed.

(* ---------- the counters agree with what happened ---------- *)

Lemma execute_runs f cc o st :
  let r := snd (execute f cc o st) in
  match r_outcome r with
  | Some OHit | Some OError => r_cc_runs r = 0
  | Some (OMiss _ _) | Some OCompileFailed | Some ONotCached | Some ONotCacheable => r_cc_runs r = 1
  | Some OFatal => r_cc_runs r = 0 \/ r_cc_runs r = 1
  | None => False
  end.
Proof.
  cbv zeta. unfold execute.
  destruct (generate_hash_key f cc o st) as [[st1 res] pp].
  destruct res as [|k|]; simpl; [reflexivity| |auto].
  destruct (cache_lookup f cc k st1) as [so se outs|mt|]; simpl; auto.
  unfold compile_and_store.
  destruct (o_c_panics o); simpl; [auto|].
  destruct (negb (o_c_status o =? 0)); simpl; [reflexivity|].
  destruct mt; simpl; try reflexivity;
    destruct (negb (o_cacheable o)); simpl; try reflexivity;
    destruct (negb (o_c_writes o)); simpl; auto;
    destruct (put_ok (f_put f) st1); reflexivity.
Qed.

(* the list of critical sections of every request is the program of its kind *)
Lemma request_program f cl cc o st :
  snd (request f cl cc o st) = program (kind_of cl (o_lang o) (snd (fst (request f cl cc o st)))).
Proof.
  unfold request. destruct cl; simpl; try reflexivity.
  destruct (execute f cc o st); reflexivity.
Qed.

(* ---------- a concrete world, for the non-vacuity examples ---------- *)

Definition demo_oracle (t : N) : oracle :=
  {| o_lang := {| l_lang := 0; l_adv := 0 |}; o_pp_key := Some [t]; o_manifest := 7; o_upd := N.odd t;
     o_pp_status := 0; o_pp_stderr := []; o_manifest_ok := true; o_key := [t; t];
     o_c_status := 0; o_c_stdout := [1; t]; o_c_stderr := [2; t]; o_c_outputs := [([111], [3; t])];
     o_c_writes := true; o_cacheable := true; o_pp_panics := false; o_c_panics := false |}.

Lemma demo_consistent : consistent demo_oracle.
Proof.
  intros t t'. split.
  - simpl. intro H. injection H as H. subst. repeat split.
  - simpl. intros pk H1 H2 _. injection H1 as H1. injection H2 as H2. subst pk. injection H2 as H2. subst.
    split; reflexivity.
Qed.

Lemma demo_sane t : sane (demo_oracle t).
Proof. intro; reflexivity. Qed.

Lemma demo_calm t : calm_oracle (demo_oracle t).
Proof. split; reflexivity. Qed.

(* ---------- result keys read from entry files are untrusted (Model/ReqSMExt.v) ---------- *)
From Sccache Require Import Model.ReqSMExt.

(* an entry file naming a malformed result key leaves the cache "holding only compiler-produced entries" *)
Lemma forge_malformed_Inv w pk k m st :
  wf_result_key k = false -> Inv w st -> Inv w (forge_pp pk k m st).
Proof.
  intros Hk HI t. destruct (HI t) as [Ipp Ires]. unfold forge_pp, read_entry_file. rewrite Hk.
  split; [|exact Ires]. simpl. intros pk' k' m' Hpk Hin Hm.
  apply kv_set_In in Hin. destruct Hin as [[_ Hv]|Hin]; [discriminate | eapply Ipp; eauto].
Qed.

(* ... and is never looked up: the lookup through it is "no entry" *)
Lemma forge_malformed_not_read f pk k m st :
  wf_result_key k = false -> pp_read f pk (forge_pp pk k m st) = None.
Proof.
  intro Hk. unfold pp_read, forge_pp, read_entry_file. rewrite Hk. simpl.
  destruct (f_ppget f); try reflexivity. rewrite kv_get_set_same. reflexivity.
Qed.

Theorem malformed_result_key_transparent w st t f cl cc pk k m :
  consistent w -> Inv w st -> sane (w t) -> f_outdir_ok f = true -> calm f (w t) ->
  wf_result_key k = false ->
  Inv w (forge_pp pk k m st)
  /\ transparent (w t) (snd (fst (request f cl cc (w t) (forge_pp pk k m st)))).
Proof.
  intros HC HI HS HO HCalm Hk.
  pose proof (forge_malformed_Inv w pk k m st Hk HI) as HI'.
  split; [exact HI' | apply request_transparent; assumption].
Qed.
